/-
  Lemmas about `Nq.Pop3F` (qmail-pop3d with failing system calls). Core Lean only.
-/
import Nq.Pop3Fault
import Nq.Lemmas.Pop3Blast
import Nq.Lemmas.Pop3Sess

namespace Nq.Lemmas.Pop3F
open Nq Nq.Pop3 Nq.Pop3Ref Nq.Pop3F Nq.Lemmas.Pop3

/-! ### a client cannot take a proper prefix of a multi-line response for a complete one -/

theorem decGo_nil (cur : Bytes) : decGo cur [] = none := by simp [decGo]

/-- if the decoder, reading `p ++ s ++ q`, stops inside `q` or at its start, it does not stop inside `p` -/
theorem dec_prefix_none : ∀ (p s q cur : Bytes) (ls : List Bytes) (r : Bytes), s ≠ [] →
    decGo cur (p ++ s ++ q) = some (ls, r) → r.length ≤ q.length → decGo cur p = none := by
  intro p
  induction p with
  | nil => intros; exact decGo_nil _
  | cons c p ih =>
    intro s q cur ls r hs h hr
    simp only [List.cons_append, decGo] at h ⊢
    by_cases hc : c = LF
    · simp only [hc, if_true] at h ⊢
      cases cur with
      | nil => simp at h
      | cons d l' =>
        simp only at h ⊢
        by_cases hd : d = CR
        · simp only [hd, if_true] at h ⊢
          by_cases hdot : l'.reverse = [DOT]
          · simp only [hdot, if_true, Option.some.injEq, Prod.mk.injEq] at h
            have hl : r.length = p.length + s.length + q.length := by rw [← h.2]; simp; omega
            have : 0 < s.length := List.length_pos_iff.mpr hs
            omega
          · simp only [hdot, if_false] at h ⊢
            cases hrec : decGo [] (p ++ s ++ q) with
            | none => rw [hrec] at h; simp at h
            | some v =>
              obtain ⟨ls', r'⟩ := v
              rw [hrec] at h
              simp only [Option.some.injEq, Prod.mk.injEq] at h
              have := ih s q [] ls' r' hs hrec (by rw [h.2]; exact hr)
              simp [this]
        · simp [hd] at h
    · simp only [hc, if_false] at h ⊢
      exact ih s q (c :: cur) ls r hs h hr

/-- blast() of any message with any limit is a complete multi-line response -/
theorem blast_decodes (limit : Nat) (m rest : Bytes) : ∃ ls, popDecode (blast limit m ++ rest) = some (ls, rest) := by
  cases limit with
  | zero =>
    refine ⟨lines m ++ [[]], ?_⟩
    unfold popDecode blast
    rw [blastLoop_eq_lines, getlns_nil_lines]
    exact decode_all (lines m) true rest (lines_noLF m)
  | succ n =>
    refine ⟨topLines n (lines m) ++ [[]], ?_⟩
    unfold popDecode blast
    rw [blastLoop_eq_lines, getlns_nil_lines]
    exact decode_top (lines m) n rest (lines_noLF m)

/-! ### blast() with a failing read -/

theorem linePuts_flatten (l : Bytes) :
    (linePuts l).flatten = (if l.head? = some DOT then [DOT] else []) ++ l ++ [CR, LF] := by
  unfold linePuts; split <;> simp

theorem blastLoopF_prefix : ∀ (lns : List (Bytes × Bool)) (n limit : Nat) (inh : Bool),
    ∃ s, (blastLoopF n limit inh lns).1.flatten ++ s = blastLoop limit inh lns ∧
      ((blastLoopF n limit inh lns).2 = false → s = []) := by
  intro lns
  induction lns with
  | nil => intro n limit inh; cases n <;> simp [blastLoopF, blastLoop]
  | cons lm rest ih =>
    intro n limit inh
    obtain ⟨l, mt⟩ := lm
    cases n with
    | zero => exact ⟨blastLoop limit inh ((l, mt) :: rest), by simp [blastLoopF], by simp [blastLoopF]⟩
    | succ n =>
      simp only [blastLoopF, blastLoop]
      split
      · exact ⟨[], by simp, fun _ => rfl⟩
      · cases mt with
        | false => exact ⟨[], by simp [linePuts_flatten], fun _ => rfl⟩
        | true =>
          obtain ⟨s, h1, h2⟩ := ih n (if limit ≠ 0 ∧ inh = false then limit - 1 else limit) (if l = [] then false else inh)
          refine ⟨s, ?_, ?_⟩
          · simp only [if_true, List.flatten_append, linePuts_flatten, List.append_assoc]
            rw [← h1]
          · simpa using h2

theorem flushed_prefix (puts : List Bytes) : ∃ s, flushed puts ++ s = puts.flatten :=
  ⟨_, List.take_append_drop _ _⟩

/-- **what a failing read does to a reply**: either the read was never needed and the reply is the complete
blast(), or the process died and the client got a PROPER prefix of it -/
theorem blastF_spec (limit : Nat) (data : Bytes) (k : Nat) :
    ((blastF limit data k).2 = false → (blastF limit data k).1 = blast limit data) ∧
    ((blastF limit data k).2 = true → ∃ s, s ≠ [] ∧ (blastF limit data k).1 ++ s = blast limit data) := by
  unfold blastF
  split
  · simp
  · obtain ⟨s, h1, h2⟩ := blastLoopF_prefix (getlns [] data) ((data.take (BUF * k)).count LF) limit true
    cases hd : (blastLoopF ((data.take (BUF * k)).count LF) limit true (getlns [] data)).2 with
    | false =>
      have hs := h2 hd
      subst hs
      simp only [List.append_nil] at h1
      simp [hd, blast, h1]
    | true =>
      obtain ⟨t, ht⟩ := flushed_prefix (blastLoopF ((data.take (BUF * k)).count LF) limit true (getlns [] data)).1
      simp only [hd, if_true, true_implies, Bool.true_eq_false, false_implies, true_and]
      refine ⟨t ++ s ++ blastEnd, by simp [blastEnd], ?_⟩
      unfold blast
      rw [← h1, ← ht]
      simp

/-- … and that prefix has no terminating lone dot: a client reading it to the end of the stream has no
complete response -/
theorem blastF_died_undecodable (limit : Nat) (data : Bytes) (k : Nat) (h : (blastF limit data k).2 = true) :
    popDecode (blastF limit data k).1 = none := by
  obtain ⟨s, hs, he⟩ := (blastF_spec limit data k).2 h
  obtain ⟨ls, hd⟩ := blast_decodes limit data []
  unfold popDecode at hd ⊢
  rw [← he] at hd
  exact dec_prefix_none _ s [] [] ls [] hs hd (by simp)

/-! ### QUIT with failing unlink / rename = QUIT on the messages whose call does not fail -/

/-- the messages whose unlink()/rename() is carried out -/
def effective (U N : List Nat) : Nat → Nat → List Msg → List Msg
  | _, _, [] => []
  | ju, jn, m :: rest =>
    if m.del then
      (if U.contains ju then effective U N (ju + 1) jn rest else m :: effective U N (ju + 1) jn rest)
    else if m.fn.take 4 == newSl then
      (if N.contains jn then effective U N ju (jn + 1) rest else m :: effective U N ju (jn + 1) rest)
    else m :: effective U N ju jn rest

theorem effective_sublist (U N : List Nat) : ∀ (msgs : List Msg) (ju jn : Nat), (effective U N ju jn msgs).Sublist msgs := by
  intro msgs
  induction msgs with
  | nil => intros; simp [effective]
  | cons m rest ih =>
    intro ju jn
    unfold effective
    split
    · split
      · exact (ih _ _).cons _
      · exact (ih _ _).cons_cons _
    · split
      · split
        · exact (ih _ _).cons _
        · exact (ih _ _).cons_cons _
      · exact (ih _ _).cons_cons _

theorem quitLoop_fs_out (msgs : List Msg) : ∀ (fs : FS) (o1 o2 : Bytes), (quitLoop msgs fs o1).1 = (quitLoop msgs fs o2).1 := by
  induction msgs with
  | nil => intros; rfl
  | cons m rest ih =>
    intro fs o1 o2
    unfold quitLoop
    split
    · split <;> exact ih _ _ _
    · split <;> exact ih _ _ _

theorem quitLoopF_eff (U N : List Nat) : ∀ (msgs : List Msg) (ju jn : Nat) (fs : FS) (out : Bytes),
    (quitLoopF U N ju jn msgs fs out).1 = (quitLoop (effective U N ju jn msgs) fs []).1 := by
  intro msgs
  induction msgs with
  | nil => intros; rfl
  | cons m rest ih =>
    intro ju jn fs out
    unfold quitLoopF effective
    by_cases hd : m.del = true
    · rw [if_pos hd, if_pos hd]
      by_cases hu : U.contains ju = true
      · rw [if_pos hu, if_pos hu]; exact ih _ _ _ _
      · rw [if_neg hu, if_neg hu]
        unfold quitLoop
        rw [if_pos hd]
        cases fsFind fs m.fn with
        | some g => dsimp only; exact ih _ _ _ _
        | none => dsimp only; rw [ih]; exact quitLoop_fs_out _ _ _ _
    · rw [if_neg hd, if_neg hd]
      by_cases hn : (m.fn.take 4 == newSl) = true
      · rw [if_pos hn, if_pos hn]
        by_cases hN : N.contains jn = true
        · rw [if_pos hN, if_pos hN]; exact ih _ _ _ _
        · rw [if_neg hN, if_neg hN]
          unfold quitLoop
          rw [if_neg hd, if_pos hn]
          exact ih _ _ _ _
      · rw [if_neg hn, if_neg hn]
        unfold quitLoop
        rw [if_neg hd, if_neg hn]
        exact ih _ _ _ _

theorem quitLoopF_none : ∀ (msgs : List Msg) (ju jn : Nat) (fs : FS) (out : Bytes),
    quitLoopF [] [] ju jn msgs fs out = quitLoop msgs fs out := by
  intro msgs
  induction msgs with
  | nil => intros; rfl
  | cons m rest ih =>
    intro ju jn fs out
    unfold quitLoopF quitLoop
    simp only [List.contains_nil, Bool.false_eq_true, if_false]
    split
    · cases fsFind fs m.fn <;> simp [ih, errU]
    · split <;> simp [ih]

/-! ### start-up: a failing stat in the scan hides the file, a failing stat in getlist() zeroes its size -/

/-- the maildir as the scan sees it: a file whose stat fails is like a file that is too young -/
def hideA (A : List Bytes) (now : Nat) (fs : FS) : FS :=
  fs.map (fun f => if A.contains f.path then { f with mtime := now } else f)

theorem scanDirF_hide (A : List Bytes) (now : Nat) : ∀ (l : List File) (names : List Bytes) (pq : List Elt),
    scanDirF A now l names pq = scanDir now (hideA A now l) names pq := by
  intro l
  induction l with
  | nil => intros; rfl
  | cons f rest ih =>
    intro names pq
    have hcons : hideA A now (f :: rest) = (if A.contains f.path then { f with mtime := now } else f) :: hideA A now rest := rfl
    rw [hcons]
    by_cases ha : A.contains f.path = true
    · rw [if_pos ha]
      unfold scanDirF scanDir
      simp only [baseName, ha, Bool.true_eq_false, false_and, if_false, Nat.lt_irrefl]
      split <;> exact ih _ _
    · rw [if_neg ha]
      unfold scanDirF scanDir
      simp only [Bool.not_eq_true] at ha
      simp only [ha, true_and]
      split <;> exact ih _ _

theorem hideA_filter (A : List Bytes) (now : Nat) (d : Bytes) (fs : FS) :
    hideA A now (fs.filter (inDir d)) = (hideA A now fs).filter (inDir d) := by
  induction fs with
  | nil => rfl
  | cons f rest ih =>
    simp only [List.filter_cons, hideA, List.map_cons]
    have : inDir d (if A.contains f.path = true then { f with mtime := now } else f) = inDir d f := by
      split <;> rfl
    rw [this]
    split
    · simp only [List.map_cons]; congr 1
    · exact ih

theorem find_hideA (A : List Bytes) (now : Nat) (fs : FS) (p : Bytes) :
    (fsFind (hideA A now fs) p).map (·.data) = (fsFind fs p).map (·.data) := by
  induction fs with
  | nil => rfl
  | cons f rest ih =>
    simp only [hideA, List.map_cons, fsFind, List.find?_cons]
    have hp : (if A.contains f.path = true then { f with mtime := now } else f).path = f.path := by split <;> rfl
    have hdt : (if A.contains f.path = true then { f with mtime := now } else f).data = f.data := by split <;> rfl
    rw [hp]
    split
    · simp only [Option.map_some]; rw [hdt]
    · exact ih

/-- getlist() with failing stats = getlist() of the maildir in which the files whose scan-stat fails are too
young to be listed, with the sizes of the messages whose second stat fails set to 0 -/
theorem getlistF_eq (A G : List Bytes) (now : Nat) (fs : FS) :
    getlistF A G now fs =
      (getlist now (hideA A now fs)).map (fun m => if G.contains m.fn then { m with size := 0 } else m) := by
  unfold getlistF getlist
  simp only [scanDirF_hide, hideA_filter, List.map_map]
  apply List.map_congr_left
  intro e _
  simp only [Function.comp]
  have h := find_hideA A now fs
    ((scanDir now ((hideA A now fs).filter (inDir curSl)) (scanDir now ((hideA A now fs).filter (inDir newSl)) [] []).1
      (scanDir now ((hideA A now fs).filter (inDir newSl)) [] []).2).1.getD e.id [])
  split
  · rfl
  · congr 1
    cases h1 : fsFind (hideA A now fs) _ <;> cases h2 : fsFind fs _ <;> simp_all

theorem getlistF_none (now : Nat) (fs : FS) : getlistF [] [] now fs = getlist now fs := by
  rw [getlistF_eq]
  have : hideA [] now fs = fs := by simp [hideA]
  rw [this]
  simp

end Nq.Lemmas.Pop3F
