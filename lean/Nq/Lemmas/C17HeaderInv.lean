/-
  Lemmas for C17 (session 4), part 3: the converse direction — a message written as well-formed field texts
  followed by an empty line and a body is split by the description (hence by `headerbody`) into exactly
  these field texts.
-/
import Nq.Lemmas.C17Hidden

namespace Nq.Lemmas.C17HB
open Nq Nq.Inject Nq.Spec.HeaderBody

theorem linesOf_cons_ne (c : Byte) (r : Bytes) : linesOf (c :: r) ≠ [] := by
  unfold linesOf
  split
  · simp
  · split <;> simp

/-- lines of a concatenation whose first part consists of complete lines -/
theorem linesOf_append (p q : Bytes) (h : p = [] ∨ p.getLast? = some LF) :
    linesOf (p ++ q) = linesOf p ++ linesOf q := by
  induction p with
  | nil => simp [linesOf]
  | cons c p ih =>
    have hlast : (c :: p).getLast? = some LF := by
      rcases h with h | h
      · simp at h
      · exact h
    cases p with
    | nil =>
      simp only [List.getLast?_singleton, Option.some.injEq] at hlast
      subst hlast
      simp [linesOf]
    | cons d p' =>
      rw [List.getLast?_cons_cons] at hlast
      have ih' := ih (Or.inr hlast)
      have hne := linesOf_cons_ne d p'
      rw [List.cons_append, linesOf, linesOf, ih']
      by_cases hc : c = LF
      · simp [hc]
      · simp only [hc, if_false]
        cases hl : linesOf (d :: p') with
        | nil => exact absurd hl hne
        | cons l ls => simp

theorem linesOf_head (d : Byte) (r : Bytes) (hd : d ≠ LF) : ∃ s ls, linesOf (d :: r) = (d :: s) :: ls := by
  rw [linesOf]
  simp only [hd, if_false]
  split
  · exact ⟨_, _, rfl⟩
  · exact ⟨_, _, rfl⟩

/-- the physical lines of one logical line: a first line, then continuation lines only -/
theorem linesOf_logicalLine : ∀ (t : Bytes), logicalLine t = true →
    ∃ s cs, linesOf t = s :: cs ∧ ∀ c ∈ cs, isCont c = true
  | [], h => by simp [logicalLine] at h
  | [c], h => by
    simp only [logicalLine, beq_iff_eq] at h
    subst h
    exact ⟨[LF], [], by simp [linesOf], by simp⟩
  | c :: d :: r, h => by
    simp only [logicalLine, Bool.and_eq_true, Bool.or_eq_true, bne_iff_ne, ne_eq, beq_iff_eq] at h
    obtain ⟨s', cs', e, hcs⟩ := linesOf_logicalLine (d :: r) h.2
    by_cases hc : c = LF
    · subst hc
      have hd : d = SP ∨ d = TAB := by
        rcases h.1 with (h1 | h1) | h1
        · exact absurd rfl h1
        · exact Or.inl h1
        · exact Or.inr h1
      have hdl : d ≠ LF := by rcases hd with hd | hd <;> rw [hd] <;> decide
      obtain ⟨s2, ls2, e2⟩ := linesOf_head d r hdl
      refine ⟨[LF], s' :: cs', by rw [linesOf]; simp [e], ?_⟩
      intro x hx
      simp only [List.mem_cons] at hx
      rcases hx with hx | hx
      · rw [e] at e2
        simp only [List.cons.injEq] at e2
        rw [hx, e2.1]
        rcases hd with hd | hd <;> rw [hd] <;> simp [isCont]
      · exact hcs x hx
    · refine ⟨c :: s', cs', by rw [linesOf]; simp [hc, e], hcs⟩

theorem hfieldValid_prefix (a b : Bytes) (hm : (58 : Byte) ∈ a) : hfieldValid (a ++ b) = hfieldValid a := by
  unfold hfieldValid
  have hc : a.contains 58 = true := by simpa using hm
  have hc2 : (a ++ b).contains 58 = true := by simp [hm]
  simp only [hc, hc2, Bool.not_true, Bool.false_eq_true, if_false]
  rw [takeWhile_append_mem a b hm]


theorem flatMap_congr' {α β} (l : List α) (f g : α → List β) (h : ∀ x ∈ l, f x = g x) : l.flatMap f = l.flatMap g := by
  induction l with
  | nil => rfl
  | cons a l ih =>
    simp only [List.flatMap_cons]
    rw [h a List.mem_cons_self, ih (fun x hx => h x (List.mem_cons_of_mem _ hx))]

/-- a well-formed field text: one logical line, beginning with a valid field name, not a `From ` line -/
def wfField (t : Bytes) : Bool := logicalLine t && hfieldValid t && !isFromLine t

theorem takeWhile_append_all (a b : Bytes) (h : ∀ c ∈ a, c ≠ 58) :
    (a ++ b).takeWhile (· ≠ 58) = a ++ b.takeWhile (· ≠ 58) := by
  induction a with
  | nil => rfl
  | cons c a ih =>
    have hc : c ≠ 58 := h c List.mem_cons_self
    simp only [List.cons_append, List.takeWhile_cons, hc, ne_eq, not_false_eq_true, decide_true, if_true]
    rw [ih (fun c' hc' => h c' (List.mem_cons_of_mem _ hc'))]

theorem norm_of_lf (t : Bytes) (h : t.getLast? = some LF) : norm t = t := by
  simp [norm, h]

/-- the physical lines of a well-formed field text -/
theorem field_lines (t : Bytes) (hw : wfField t = true) :
    ∃ s cs, linesOf t = s :: cs ∧ isStart s = true ∧ isFromLine s = false ∧ (∀ c ∈ cs, isCont c = true) ∧
      s ++ cs.flatten = t := by
  simp only [wfField, Bool.and_eq_true, Bool.not_eq_true'] at hw
  obtain ⟨⟨hl, hv⟩, hf⟩ := hw
  obtain ⟨s, cs, e, hcs⟩ := linesOf_logicalLine t hl
  have hflat : s ++ cs.flatten = t := by
    have := linesOf_flatten t
    rw [e, norm_of_lf t (logicalLine_lf t hl).1] at this
    simpa using this
  obtain ⟨b, hb, _⟩ := linesOf_shape t s (by rw [e]; exact List.mem_cons_self)
  obtain ⟨h58, hlf⟩ := Nq.Lemmas.C17Hid.valid_name_bytes t hv
  have hs58 : (58 : Byte) ∈ s := by
    apply Classical.byContradiction
    intro hn
    have hall : ∀ c ∈ s, c ≠ 58 := fun c hc h' => hn (h' ▸ hc)
    rw [← hflat, takeWhile_append_all s _ hall] at hlf
    exact hlf LF (List.mem_append_left _ (by rw [hb]; simp)) rfl
  have hvs : hfieldValid s = true := by
    rw [← hfieldValid_prefix s cs.flatten hs58, hflat]; exact hv
  have hfs : isFromLine s = false := by
    cases hfs : isFromLine s with
    | false => rfl
    | true =>
      have := fromLine_append s cs.flatten hfs
      rw [hflat, hf] at this
      exact absurd this (by simp)
  exact ⟨s, cs, e, by simp [isStart, hvs], hfs, hcs, hflat⟩

theorem takeWhile_conts (cs T : List Bytes) (hcs : ∀ c ∈ cs, isCont c = true)
    (hT : ∀ x, T.head? = some x → isCont x = false) :
    (cs ++ T).takeWhile isCont = cs ∧ (cs ++ T).dropWhile isCont = T := by
  induction cs with
  | nil =>
    cases T with
    | nil => simp
    | cons x T' => simp [List.takeWhile_cons, List.dropWhile_cons, hT x rfl]
  | cons c cs ih =>
    have := ih (fun c' hc' => hcs c' (List.mem_cons_of_mem _ hc'))
    simp [List.takeWhile_cons, List.dropWhile_cons, hcs c List.mem_cons_self, this.1, this.2]

theorem ends_lf_of_wf (t : Bytes) (hw : wfField t = true) : t.getLast? = some LF := by
  simp only [wfField, Bool.and_eq_true] at hw
  exact (logicalLine_lf t hw.1.1).1

theorem wf_head_not_cont (texts : List Bytes) (tail : Bytes) (hw : ∀ t ∈ texts, wfField t = true)
    (htail : tail = [] ∨ ∃ b, tail = LF :: b) :
    ∀ x, (linesOf (texts.flatten ++ tail)).head? = some x → isCont x = false := by
  intro x hx
  cases texts with
  | nil =>
    simp only [List.flatten_nil, List.nil_append] at hx
    rcases htail with h | ⟨b, h⟩
    · subst h; simp [linesOf] at hx
    · subst h
      simp only [linesOf, if_true, List.head?_cons, Option.some.injEq] at hx
      subst hx; decide
  | cons t texts =>
    have hwt := hw t List.mem_cons_self
    obtain ⟨s, cs, e, hs, _, _, _⟩ := field_lines t hwt
    rw [List.flatten_cons, List.append_assoc, linesOf_append t _ (Or.inr (ends_lf_of_wf t hwt)), e] at hx
    simp only [List.cons_append, List.head?_cons, Option.some.injEq] at hx
    subst hx
    exact start_not_cont _ hs

/-- **converse**: well-formed field texts, then nothing or an empty line and anything: the description finds
exactly these fields, and the rest is the empty line and what follows -/
theorem spec_wellformed (texts : List Bytes) (tail : Bytes) (hw : ∀ t ∈ texts, wfField t = true)
    (htail : tail = [] ∨ ∃ b, tail = LF :: b) :
    (groups (hdr (linesOf (texts.flatten ++ tail)))).map fieldOf = texts ∧
    rest (linesOf (texts.flatten ++ tail)) = linesOf tail := by
  induction texts with
  | nil =>
    simp only [List.flatten_nil, List.nil_append]
    rcases htail with h | ⟨b, h⟩
    · subst h; simp [linesOf, hdr, groups, rest]
    · subst h
      simp [linesOf, hdr, rest, blank_not_start, groups]
  | cons t texts ih =>
    have hwt := hw t List.mem_cons_self
    have hw' : ∀ t' ∈ texts, wfField t' = true := fun t' h' => hw t' (List.mem_cons_of_mem _ h')
    obtain ⟨ih1, ih2⟩ := ih hw'
    obtain ⟨s, cs, e, hs, hfs, hcs, hflat⟩ := field_lines t hwt
    have hT := wf_head_not_cont texts tail hw' htail
    rw [List.flatten_cons, List.append_assoc, linesOf_append t _ (Or.inr (ends_lf_of_wf t hwt)), e, List.cons_append]
    obtain ⟨tw1, tw2⟩ := takeWhile_conts cs _ hcs hT
    constructor
    · rw [hdr_unfold s _ hs, tw1, tw2, List.map_cons, ih1]
      simp [fieldOf, hfs, hflat]
    · have := (takeWhile_hdr (cs ++ linesOf (texts.flatten ++ tail))).2
      rw [tw2, ih2] at this
      simp only [rest, hs, if_true]
      exact this

end Nq.Lemmas.C17HB
