/-
  The inductive invariant of the maildir acceptor (`Nq.LocalDeliver.Md`): couples each control point of
  `maildir()` / `maildir_child()` to the state of the file being delivered.
-/
import Nq.LocalDeliver

namespace Nq.Lemmas.LD.Md
open Nq Nq.LocalDeliver Nq.LocalDeliver.Md

/-- the file is complete and on disk -/
def Complete (p : Params) (fs : FS) : Prop := fs.cur = p.content ∧ fs.synced = true

/-- nothing is visible in new/ -/
def Hidden (fs : FS) : Prop := fs.newName = false

/-- what each control point guarantees -/
def PcInv (p : Params) (s : St) (fs : FS) : Prop :=
  match s.pc with
  | .start => Hidden fs ∧ s.written = [] ∧ s.forked = false
  | .arm _ => Hidden fs ∧ s.written = [] ∧ s.forked = true
  | .opening _ => Hidden fs ∧ s.written = [] ∧ s.forked = true
  | .nap _ => Hidden fs ∧ s.written = [] ∧ s.forked = true
  | .copy => Hidden fs ∧ fs.cur = s.written ∧ s.forked = true
  | .closing => Hidden fs ∧ Complete p fs ∧ s.forked = true
  | .linking => Hidden fs ∧ Complete p fs ∧ s.forked = true
  | .unlinkOk => fs.newName = true ∧ s.forked = true
  | .failUnlink c => c ≠ 0 ∧ (fs.newName = true → s.interrupted = true) ∧ s.forked = true
  | .dying c => (c = 0 → fs.newName = true) ∧ (c ≠ 0 → fs.newName = true → s.interrupted = true) ∧ s.forked = true
  | .waited c => (c = 0 → fs.newName = true) ∧ (c ≠ 0 → fs.newName = true → s.interrupted = true) ∧ s.forked = true
  | .killed => (fs.newName = true → s.interrupted = true) ∧ s.forked = true
  | .done c => (c = 0 → fs.newName = true) ∧ (c ≠ 0 → fs.newName = true → s.interrupted = true) ∧
               (s.forked = true → c = 0 ∨ c = 111)

/-- the invariant: whatever is visible in new/ is complete and durable, plus the per-control-point facts -/
def MInv (p : Params) (s : St) (fs : FS) : Prop := (fs.newName = true → Complete p fs) ∧ PcInv p s fs

theorem inv_init (p : Params) : MInv p {} {} := by simp [MInv, PcInv, Hidden]

/-- the exit-status switch of `maildir()` (regenerated table): success only for child status 0,
every other status is reported as the temporary failure 111 -/
theorem parentCode_zero (c : Nat) : parentCode c = 0 ↔ c = 0 := by
  unfold parentCode
  simp only [Gen.LocalExit.maildirCases, Gen.LocalExit.maildirDefault, List.lookup]
  by_cases h0 : c = 0
  · subst h0; simp
  · by_cases h2 : c = 2
    · subst h2; simp
    · by_cases h3 : c = 3
      · subst h3; simp
      · by_cases h4 : c = 4
        · subst h4; simp
        · have e0 : (c == 0) = false := by simpa using h0
          have e2 : (c == 2) = false := by simpa using h2
          have e3 : (c == 3) = false := by simpa using h3
          have e4 : (c == 4) = false := by simpa using h4
          simp [e0, e2, e3, e4, h0]

theorem parentCode_cases (c : Nat) : parentCode c = 0 ∨ parentCode c = 111 := by
  unfold parentCode
  simp only [Gen.LocalExit.maildirCases, Gen.LocalExit.maildirDefault, List.lookup]
  by_cases h0 : c = 0
  · subst h0; simp
  · by_cases h2 : c = 2
    · subst h2; simp
    · by_cases h3 : c = 3
      · subst h3; simp
      · by_cases h4 : c = 4
        · subst h4; simp
        · have e0 : (c == 0) = false := by simpa using h0
          have e2 : (c == 2) = false := by simpa using h2
          have e3 : (c == 3) = false := by simpa using h3
          have e4 : (c == 4) = false := by simpa using h4
          simp [e0, e2, e3, e4]

theorem step_inv (p : Params) (s s' : St) (fs : FS) (e : Ev)
    (hinv : MInv p s fs) (hacc : accept p s e = some s') : MInv p s' (apply fs e) := by
  obtain ⟨hvis, hpc⟩ := hinv
  cases e with
  | fork =>
    simp only [accept] at hacc
    split at hacc
    · rename_i h; cases hacc
      simp [PcInv, h] at hpc
      refine ⟨by simpa [apply] using hvis, ?_⟩
      simp [PcInv, apply, hpc]
    · cases hacc
  | alarm n =>
    simp only [accept] at hacc
    split at hacc
    · rename_i k h
      split at hacc
      · cases hacc
        simp [PcInv, h] at hpc
        exact ⟨by simpa [apply] using hvis, by simp [PcInv, apply, hpc]⟩
      · cases hacc
    · cases hacc
  | openExcl ok exist =>
    simp only [accept] at hacc
    split at hacc
    · rename_i k h
      simp [PcInv, h, Hidden] at hpc
      obtain ⟨hn, hw, hf⟩ := hpc
      cases ok with
      | true =>
        simp at hacc; cases hacc
        exact ⟨by simp [apply, hn], by simp [PcInv, apply, Hidden, hn, hw, hf]⟩
      | false =>
        cases exist with
        | true =>
          simp at hacc
          split at hacc
          · cases hacc
            exact ⟨by simp [apply, hn], by simp [PcInv, apply, hn, hf]⟩
          · cases hacc
            exact ⟨by simp [apply, hn], by simp [PcInv, apply, Hidden, hn, hw, hf]⟩
        | false =>
          simp at hacc; cases hacc
          exact ⟨by simp [apply, hn], by simp [PcInv, apply, hn, hf]⟩
    · cases hacc
  | sleep n =>
    simp only [accept] at hacc
    split at hacc
    · rename_i k h
      split at hacc
      · cases hacc
        simp [PcInv, h] at hpc
        exact ⟨by simpa [apply] using hvis, by simp [PcInv, apply, hpc]⟩
      · cases hacc
    · cases hacc
  | read n =>
    simp only [accept] at hacc
    split at hacc
    · rename_i h; cases hacc
      simp [PcInv, h.1] at hpc
      exact ⟨by simpa [apply] using hvis, by simp [PcInv, apply, h.1, hpc]⟩
    · cases hacc
  | readErr intr =>
    simp only [accept] at hacc
    split at hacc
    · rename_i h
      simp [PcInv, h.1, Hidden] at hpc
      cases intr with
      | true => simp at hacc; cases hacc; exact ⟨by simpa [apply] using hvis, by simp [PcInv, apply, h.1, Hidden, hpc]⟩
      | false => simp at hacc; cases hacc; exact ⟨by simpa [apply] using hvis, by simp [PcInv, apply, hpc]⟩
    · cases hacc
  | write bs =>
    simp only [accept] at hacc
    split at hacc
    · rename_i h; cases hacc
      simp [PcInv, h.1, Hidden] at hpc
      exact ⟨by simp [apply, hpc.1], by simp [PcInv, apply, h.1, Hidden, hpc]⟩
    · cases hacc
  | writeErr intr =>
    simp only [accept] at hacc
    split at hacc
    · rename_i h
      simp [PcInv, h, Hidden] at hpc
      cases intr with
      | true => simp at hacc; cases hacc; exact ⟨by simpa [apply] using hvis, by simp [PcInv, apply, h, Hidden, hpc]⟩
      | false => simp at hacc; cases hacc; exact ⟨by simpa [apply] using hvis, by simp [PcInv, apply, hpc]⟩
    · cases hacc
  | fsync ok =>
    simp only [accept] at hacc
    split at hacc
    · rename_i h; cases hacc
      simp [PcInv, h.1, Hidden] at hpc
      obtain ⟨hn, hc, hf⟩ := hpc
      cases ok with
      | true => exact ⟨by simp [apply, hn], by simp [PcInv, apply, Hidden, Complete, hn, hc, hf, h.2.2]⟩
      | false => exact ⟨by simp [apply, hn], by simp [PcInv, apply, hn, hf]⟩
    · cases hacc
  | close ok =>
    simp only [accept] at hacc
    split at hacc
    · rename_i h; cases hacc
      simp [PcInv, h, Hidden] at hpc
      obtain ⟨hn, hc, hf⟩ := hpc
      cases ok with
      | true => exact ⟨by simp [apply, hn], by simp [PcInv, apply, Hidden, hn, hc, hf]⟩
      | false => exact ⟨by simp [apply, hn], by simp [PcInv, apply, hn, hf]⟩
    · cases hacc
  | link ok =>
    simp only [accept] at hacc
    split at hacc
    · rename_i h; cases hacc
      simp [PcInv, h, Hidden] at hpc
      obtain ⟨hn, hc, hf⟩ := hpc
      cases ok with
      | true =>
        refine ⟨?_, by simp [PcInv, apply, hf]⟩
        intro _; simpa [apply, Complete] using hc
      | false => exact ⟨by simp [apply, hn], by simp [PcInv, apply, hn, hf]⟩
    · cases hacc
  | unlinkTmp ok =>
    simp only [accept] at hacc
    have hvis' : (apply fs (.unlinkTmp ok)).newName = true → Complete p (apply fs (.unlinkTmp ok)) := by
      cases ok <;> simpa [apply, Complete] using hvis
    split at hacc
    · rename_i h; cases hacc
      simp [PcInv, h] at hpc
      refine ⟨hvis', ?_⟩
      cases ok <;> simp [PcInv, apply, hpc]
    · rename_i c h; cases hacc
      simp [PcInv, h] at hpc
      refine ⟨hvis', ?_⟩
      cases ok <;> simp [PcInv, apply, hpc] <;> exact hpc.2.1
    · cases hacc
  | sigAlarm =>
    simp only [accept] at hacc
    split at hacc
    · rename_i h; cases hacc
      refine ⟨by simpa [apply] using hvis, ?_⟩
      have hf : s.forked = true := by
        revert hpc h
        cases hp : s.pc <;> simp [PcInv, armed] <;> intros <;> simp_all
      simp [PcInv, apply, hf]
    · cases hacc
  | childExit code =>
    simp only [accept] at hacc
    split at hacc
    · rename_i c h
      split at hacc
      · rename_i hc; cases hacc; subst hc
        simp [PcInv, h] at hpc
        exact ⟨by simpa [apply] using hvis, by simpa [PcInv, apply] using hpc⟩
      · cases hacc
    · rename_i h
      split at hacc
      · rename_i hc; cases hacc
        simp [PcInv, h, Hidden] at hpc
        refine ⟨by simpa [apply] using hvis, ?_⟩
        have hne : code ≠ 0 := by rcases hc.2 with h1 | h1 <;> omega
        simp [PcInv, apply, hpc, hne]
      · cases hacc
    · cases hacc
  | childKilled =>
    simp only [accept] at hacc
    split at hacc
    · rename_i h; cases hacc
      refine ⟨by simpa [apply] using hvis, ?_⟩
      have hf : s.forked = true := by
        revert hpc h
        cases hp : s.pc <;> simp [PcInv, inChild] <;> intros <;> simp_all
      simp [PcInv, apply, hf]
    · cases hacc
  | parentExit code =>
    simp only [accept] at hacc
    split at hacc
    · rename_i h
      split at hacc
      · rename_i hc; cases hacc
        simp [PcInv, h, Hidden] at hpc
        exact ⟨by simpa [apply] using hvis, by simp [PcInv, apply, hpc, hc]⟩
      · cases hacc
    · rename_i c h
      split at hacc
      · rename_i hc; cases hacc
        simp [PcInv, h] at hpc
        obtain ⟨h0, h1, hf⟩ := hpc
        refine ⟨by simpa [apply] using hvis, ?_⟩
        simp only [PcInv, apply]
        refine ⟨?_, ?_, ?_⟩
        · intro hz; exact h0 ((parentCode_zero c).1 (hc ▸ hz))
        · intro hz; exact h1 (fun hc0 => hz (hc ▸ (parentCode_zero c).2 hc0))
        · intro _; rw [hc]; exact parentCode_cases c
      · cases hacc
    · rename_i h
      split at hacc
      · rename_i hc; cases hacc
        simp [PcInv, h] at hpc
        refine ⟨by simpa [apply] using hvis, ?_⟩
        simp [PcInv, apply, hpc, hc, Gen.LocalExit.childCrashedCode]
        exact hpc.1
      · cases hacc
    · cases hacc

theorem run_inv (p : Params) (evs : List Ev) : ∀ (s s' : St) (fs : FS), MInv p s fs →
    acceptAll p s evs = some s' → MInv p s' (applyAll fs evs) := by
  induction evs with
  | nil => intro s s' fs hinv h; simp [acceptAll] at h; subst h; simpa [applyAll] using hinv
  | cons e es ih =>
    intro s s' fs hinv h
    simp only [acceptAll] at h
    cases hacc : accept p s e with
    | none => simp [hacc] at h
    | some s1 =>
      simp only [hacc] at h
      exact ih s1 s' (apply fs e) (step_inv p s s1 fs e hinv hacc) h

theorem accept_prefix (p : Params) (evs : List Ev) (k : Nat) : ∀ (s s' : St), acceptAll p s evs = some s' →
    ∃ s'', acceptAll p s (evs.take k) = some s'' := by
  induction evs generalizing k with
  | nil => intro s s' h; exact ⟨s, by simp [acceptAll]⟩
  | cons e es ih =>
    intro s s' h
    cases k with
    | zero => exact ⟨s, by simp [acceptAll]⟩
    | succ k =>
      simp only [acceptAll] at h
      cases hacc : accept p s e with
      | none => simp [hacc] at h
      | some s1 =>
        simp only [hacc] at h
        obtain ⟨s'', hs⟩ := ih k s1 s' h
        exact ⟨s'', by simp [acceptAll, hacc, hs]⟩

end Nq.Lemmas.LD.Md
