/-
  The inductive invariant of the maildir acceptor (`Nq.LocalDeliver.Md`): couples each control point of
  `maildir()` / `maildir_child()` to the state of the file being delivered.
-/
import Nq.LocalDeliver

namespace Nq.Lemmas.LD.Md
open Nq Nq.LocalDeliver Nq.LocalDeliver.Md

/-- the file is complete and on disk -/
def Complete (p : Params) (fs : FS) : Prop := fs.cur = p.content ∧ fs.synced = true

/-- nothing is visible in new/ -/
def Hidden (fs : FS) : Prop := fs.newName = false

/-- what each control point guarantees -/
def PcInv (p : Params) (s : St) (fs : FS) : Prop :=
  match s.pc with
  | .start => Hidden fs ∧ s.written = [] ∧ s.forked = false
  | .arm _ => Hidden fs ∧ s.written = [] ∧ s.forked = true
  | .opening _ => Hidden fs ∧ s.written = [] ∧ s.forked = true
  | .nap _ => Hidden fs ∧ s.written = [] ∧ s.forked = true
  | .copy => Hidden fs ∧ fs.cur = s.written ∧ s.forked = true ∧ fs.tmpName = true
  | .closing => Hidden fs ∧ Complete p fs ∧ s.forked = true ∧ fs.tmpName = true
  | .linking => Hidden fs ∧ Complete p fs ∧ s.forked = true ∧ fs.tmpName = true
  | .unlinkOk => fs.newName = true ∧ s.forked = true
  | .failUnlink c => c ≠ 0 ∧ (fs.newName = true → s.interrupted = true) ∧ s.forked = true
  | .dying c => (c = 0 → fs.newName = true) ∧ (c ≠ 0 → fs.newName = true → s.interrupted = true) ∧ s.forked = true
  | .waited c => (c = 0 → fs.newName = true) ∧ (c ≠ 0 → fs.newName = true → s.interrupted = true) ∧ s.forked = true
  | .killed => (fs.newName = true → s.interrupted = true) ∧ s.forked = true
  | .done c => (c = 0 → fs.newName = true) ∧ (c ≠ 0 → fs.newName = true → s.interrupted = true) ∧
               (s.forked = true → c = 0 ∨ c = 111)

/-- the invariant: whatever is visible in new/ is complete and durable, plus the per-control-point facts -/
def MInv (p : Params) (s : St) (fs : FS) : Prop := (fs.newName = true → Complete p fs) ∧ PcInv p s fs

theorem inv_init (p : Params) : MInv p {} {} := by simp [MInv, PcInv, Hidden]

/-- the exit-status switch of `maildir()` (regenerated table): success only for child status 0,
every other status is reported as the temporary failure 111 -/
theorem parentCode_zero (c : Nat) : parentCode c = 0 ↔ c = 0 := by
  unfold parentCode
  simp only [Gen.LocalExit.maildirCases, Gen.LocalExit.maildirDefault, List.lookup]
  by_cases h0 : c = 0
  · subst h0; simp
  · by_cases h2 : c = 2
    · subst h2; simp
    · by_cases h3 : c = 3
      · subst h3; simp
      · by_cases h4 : c = 4
        · subst h4; simp
        · have e0 : (c == 0) = false := by simpa using h0
          have e2 : (c == 2) = false := by simpa using h2
          have e3 : (c == 3) = false := by simpa using h3
          have e4 : (c == 4) = false := by simpa using h4
          simp [e0, e2, e3, e4, h0]

theorem parentCode_cases (c : Nat) : parentCode c = 0 ∨ parentCode c = 111 := by
  unfold parentCode
  simp only [Gen.LocalExit.maildirCases, Gen.LocalExit.maildirDefault, List.lookup]
  by_cases h0 : c = 0
  · subst h0; simp
  · by_cases h2 : c = 2
    · subst h2; simp
    · by_cases h3 : c = 3
      · subst h3; simp
      · by_cases h4 : c = 4
        · subst h4; simp
        · have e0 : (c == 0) = false := by simpa using h0
          have e2 : (c == 2) = false := by simpa using h2
          have e3 : (c == 3) = false := by simpa using h3
          have e4 : (c == 4) = false := by simpa using h4
          simp [e0, e2, e3, e4]

theorem step_inv (p : Params) (s s' : St) (fs : FS) (e : Ev)
    (hinv : MInv p s fs) (hacc : accept p s e = some s') : MInv p s' (apply fs e) := by
  obtain ⟨hvis, hpc⟩ := hinv
  cases e with
  | fork =>
    simp only [accept] at hacc
    split at hacc
    · rename_i h; cases hacc
      simp [PcInv, h] at hpc
      refine ⟨by simpa [apply] using hvis, ?_⟩
      simp [PcInv, apply, hpc]
    · cases hacc
  | alarm n =>
    simp only [accept] at hacc
    split at hacc
    · rename_i k h
      split at hacc
      · cases hacc
        simp [PcInv, h] at hpc
        exact ⟨by simpa [apply] using hvis, by simp [PcInv, apply, hpc]⟩
      · cases hacc
    · cases hacc
  | openExcl ok exist =>
    simp only [accept] at hacc
    split at hacc
    · rename_i k h
      simp [PcInv, h, Hidden] at hpc
      obtain ⟨hn, hw, hf⟩ := hpc
      cases ok with
      | true =>
        simp at hacc; cases hacc
        exact ⟨by simp [apply, hn], by simp [PcInv, apply, Hidden, hn, hw, hf]⟩
      | false =>
        cases exist with
        | true =>
          simp at hacc
          split at hacc
          · cases hacc
            exact ⟨by simp [apply, hn], by simp [PcInv, apply, hn, hf]⟩
          · cases hacc
            exact ⟨by simp [apply, hn], by simp [PcInv, apply, Hidden, hn, hw, hf]⟩
        | false =>
          simp at hacc; cases hacc
          exact ⟨by simp [apply, hn], by simp [PcInv, apply, hn, hf]⟩
    · cases hacc
  | sleep n =>
    simp only [accept] at hacc
    split at hacc
    · rename_i k h
      split at hacc
      · cases hacc
        simp [PcInv, h] at hpc
        exact ⟨by simpa [apply] using hvis, by simp [PcInv, apply, hpc]⟩
      · cases hacc
    · cases hacc
  | read n =>
    simp only [accept] at hacc
    split at hacc
    · rename_i h; cases hacc
      simp [PcInv, h.1] at hpc
      exact ⟨by simpa [apply] using hvis, by simp [PcInv, apply, h.1, hpc]⟩
    · cases hacc
  | readErr intr =>
    simp only [accept] at hacc
    split at hacc
    · rename_i h
      simp [PcInv, h.1, Hidden] at hpc
      cases intr with
      | true => simp at hacc; cases hacc; exact ⟨by simpa [apply] using hvis, by simp [PcInv, apply, h.1, Hidden, hpc]⟩
      | false => simp at hacc; cases hacc; exact ⟨by simpa [apply] using hvis, by simp [PcInv, apply, hpc]⟩
    · cases hacc
  | write bs =>
    simp only [accept] at hacc
    split at hacc
    · rename_i h; cases hacc
      simp [PcInv, h.1, Hidden] at hpc
      exact ⟨by simp [apply, hpc.1], by simp [PcInv, apply, h.1, Hidden, hpc]⟩
    · cases hacc
  | writeErr intr =>
    simp only [accept] at hacc
    split at hacc
    · rename_i h
      simp [PcInv, h, Hidden] at hpc
      cases intr with
      | true => simp at hacc; cases hacc; exact ⟨by simpa [apply] using hvis, by simp [PcInv, apply, h, Hidden, hpc]⟩
      | false => simp at hacc; cases hacc; exact ⟨by simpa [apply] using hvis, by simp [PcInv, apply, hpc]⟩
    · cases hacc
  | fsync ok =>
    simp only [accept] at hacc
    split at hacc
    · rename_i h; cases hacc
      simp [PcInv, h.1, Hidden] at hpc
      obtain ⟨hn, hc, hf⟩ := hpc
      cases ok with
      | true => exact ⟨by simp [apply, hn], by simp [PcInv, apply, Hidden, Complete, hn, hc, hf, h.2.2]⟩
      | false => exact ⟨by simp [apply, hn], by simp [PcInv, apply, hn, hf]⟩
    · cases hacc
  | close ok =>
    simp only [accept] at hacc
    split at hacc
    · rename_i h; cases hacc
      simp [PcInv, h, Hidden] at hpc
      obtain ⟨hn, hc, hf⟩ := hpc
      cases ok with
      | true => exact ⟨by simp [apply, hn], by simp [PcInv, apply, Hidden, hn, hc, hf]⟩
      | false => exact ⟨by simp [apply, hn], by simp [PcInv, apply, hn, hf]⟩
    · cases hacc
  | link ok =>
    simp only [accept] at hacc
    split at hacc
    · rename_i h; cases hacc
      simp [PcInv, h, Hidden] at hpc
      obtain ⟨hn, hc, hf⟩ := hpc
      cases ok with
      | true =>
        refine ⟨?_, by simp [PcInv, apply, hf]⟩
        intro _; simpa [apply, Complete] using hc
      | false => exact ⟨by simp [apply, hn], by simp [PcInv, apply, hn, hf]⟩
    · cases hacc
  | unlinkTmp ok =>
    simp only [accept] at hacc
    have hvis' : (apply fs (.unlinkTmp ok)).newName = true → Complete p (apply fs (.unlinkTmp ok)) := by
      cases ok <;> simpa [apply, Complete] using hvis
    split at hacc
    · rename_i h; cases hacc
      simp [PcInv, h] at hpc
      refine ⟨hvis', ?_⟩
      cases ok <;> simp [PcInv, apply, hpc]
    · rename_i c h; cases hacc
      simp [PcInv, h] at hpc
      refine ⟨hvis', ?_⟩
      cases ok <;> simp [PcInv, apply, hpc] <;> exact hpc.2.1
    · cases hacc
  | sigAlarm =>
    simp only [accept] at hacc
    split at hacc
    · rename_i h; cases hacc
      refine ⟨by simpa [apply] using hvis, ?_⟩
      have hf : s.forked = true := by
        revert hpc h
        cases hp : s.pc <;> simp [PcInv, armed] <;> intros <;> simp_all
      simp [PcInv, apply, hf]
    · cases hacc
  | childExit code =>
    simp only [accept] at hacc
    split at hacc
    · rename_i c h
      split at hacc
      · rename_i hc; cases hacc; subst hc
        simp [PcInv, h] at hpc
        exact ⟨by simpa [apply] using hvis, by simpa [PcInv, apply] using hpc⟩
      · cases hacc
    · rename_i h
      split at hacc
      · rename_i hc; cases hacc
        simp [PcInv, h, Hidden] at hpc
        refine ⟨by simpa [apply] using hvis, ?_⟩
        have hne : code ≠ 0 := by rcases hc.2 with h1 | h1 <;> omega
        simp [PcInv, apply, hpc, hne]
      · cases hacc
    · cases hacc
  | childKilled =>
    simp only [accept] at hacc
    split at hacc
    · rename_i h; cases hacc
      refine ⟨by simpa [apply] using hvis, ?_⟩
      have hf : s.forked = true := by
        revert hpc h
        cases hp : s.pc <;> simp [PcInv, inChild] <;> intros <;> simp_all
      simp [PcInv, apply, hf]
    · cases hacc
  | parentExit code =>
    simp only [accept] at hacc
    split at hacc
    · rename_i h
      split at hacc
      · rename_i hc; cases hacc
        simp [PcInv, h, Hidden] at hpc
        exact ⟨by simpa [apply] using hvis, by simp [PcInv, apply, hpc, hc]⟩
      · cases hacc
    · rename_i c h
      split at hacc
      · rename_i hc; cases hacc
        simp [PcInv, h] at hpc
        obtain ⟨h0, h1, hf⟩ := hpc
        refine ⟨by simpa [apply] using hvis, ?_⟩
        simp only [PcInv, apply]
        refine ⟨?_, ?_, ?_⟩
        · intro hz; exact h0 ((parentCode_zero c).1 (hc ▸ hz))
        · intro hz; exact h1 (fun hc0 => hz (hc ▸ (parentCode_zero c).2 hc0))
        · intro _; rw [hc]; exact parentCode_cases c
      · cases hacc
    · rename_i h
      split at hacc
      · rename_i hc; cases hacc
        simp [PcInv, h] at hpc
        refine ⟨by simpa [apply] using hvis, ?_⟩
        simp [PcInv, apply, hpc, hc, Gen.LocalExit.childCrashedCode]
        exact hpc.1
      · cases hacc
    · cases hacc

theorem run_inv (p : Params) (evs : List Ev) : ∀ (s s' : St) (fs : FS), MInv p s fs →
    acceptAll p s evs = some s' → MInv p s' (applyAll fs evs) := by
  induction evs with
  | nil => intro s s' fs hinv h; simp [acceptAll] at h; subst h; simpa [applyAll] using hinv
  | cons e es ih =>
    intro s s' fs hinv h
    simp only [acceptAll] at h
    cases hacc : accept p s e with
    | none => simp [hacc] at h
    | some s1 =>
      simp only [hacc] at h
      exact ih s1 s' (apply fs e) (step_inv p s s1 fs e hinv hacc) h

theorem accept_prefix (p : Params) (evs : List Ev) (k : Nat) : ∀ (s s' : St), acceptAll p s evs = some s' →
    ∃ s'', acceptAll p s (evs.take k) = some s'' := by
  induction evs generalizing k with
  | nil => intro s s' h; exact ⟨s, by simp [acceptAll]⟩
  | cons e es ih =>
    intro s s' h
    cases k with
    | zero => exact ⟨s, by simp [acceptAll]⟩
    | succ k =>
      simp only [acceptAll] at h
      cases hacc : accept p s e with
      | none => simp [hacc] at h
      | some s1 =>
        simp only [hacc] at h
        obtain ⟨s'', hs⟩ := ih k s1 s' h
        exact ⟨s'', by simp [acceptAll, hacc, hs]⟩


/-! ### how the `link` is reached -/

theorem acceptAll_append (p : Params) (a b : List Ev) : ∀ (s : St),
    acceptAll p s (a ++ b) = (acceptAll p s a).bind (fun s' => acceptAll p s' b) := by
  induction a with
  | nil => intro s; simp [acceptAll]
  | cons e es ih =>
    intro s
    simp only [List.cons_append, acceptAll]
    cases accept p s e with
    | none => simp
    | some s1 => simpa using ih s1

/-- the control point `linking` is entered only by a successful `close` from `closing` -/
theorem enter_linking (p : Params) (s s' : St) (e : Ev) (h : accept p s e = some s') (hl : s'.pc = .linking) :
    e = .close true ∧ s.pc = .closing := by
  cases e with
  | close ok =>
    simp only [accept] at h; split at h
    · rename_i hp; cases h; cases ok
      · simp at hl
      · exact ⟨rfl, hp⟩
    · cases h
  | fork => simp only [accept] at h; split at h <;> cases h; simp at hl
  | alarm n =>
    simp only [accept] at h; split at h
    · split at h <;> cases h; simp at hl
    · cases h
  | openExcl ok ex =>
    simp only [accept] at h; split at h
    · cases ok <;> cases ex <;> simp at h
      all_goals first | (subst h; simp at hl) | (split at h <;> cases h <;> simp at hl)
    · cases h
  | sleep n =>
    simp only [accept] at h; split at h
    · split at h <;> cases h; simp at hl
    · cases h
  | read n => simp only [accept] at h; split at h <;> cases h; rename_i hp; simp [hp.1] at hl
  | readErr intr =>
    simp only [accept] at h; split at h
    · rename_i hp; cases intr <;> simp at h <;> subst h <;> simp [hp.1] at hl
    · cases h
  | write bs => simp only [accept] at h; split at h <;> cases h; rename_i hp; simp [hp.1] at hl
  | writeErr intr =>
    simp only [accept] at h; split at h
    · rename_i hp; cases intr <;> simp at h <;> subst h <;> simp [hp] at hl
    · cases h
  | fsync ok => simp only [accept] at h; split at h <;> cases h; cases ok <;> simp at hl
  | link ok => simp only [accept] at h; split at h <;> cases h; cases ok <;> simp at hl
  | unlinkTmp ok => simp only [accept] at h; split at h <;> cases h <;> simp at hl
  | sigAlarm => simp only [accept] at h; split at h <;> cases h; simp at hl
  | childExit c =>
    simp only [accept] at h; split at h
    · split at h <;> cases h; simp at hl
    · split at h <;> cases h; simp at hl
    · cases h
  | childKilled => simp only [accept] at h; split at h <;> cases h; simp at hl
  | parentExit c =>
    simp only [accept] at h; split at h
    · split at h <;> cases h; simp at hl
    · split at h <;> cases h; simp at hl
    · split at h <;> cases h; simp at hl
    · cases h

/-- **Reachability of the link.**  In any run whose last event is a successful `link`, the events before it
leave the file of this delivery named in tmp/, not yet in new/, holding exactly the content — i.e. the writes since the
last successful `open_excl` concatenate to Return-Path + Delivered-To + message — with a successful `fsync` after the last
write, and the event just before the `link` is the successful `close`. -/
theorem link_reach (p : Params) (evs : List Ev) (s : St) (h : acceptAll p {} (evs ++ [.link true]) = some s) :
    (applyAll {} evs).tmpName = true ∧ (applyAll {} evs).newName = false ∧ (applyAll {} evs).cur = p.content ∧
    (applyAll {} evs).synced = true ∧ evs.getLast? = some (.close true) := by
  rw [acceptAll_append] at h
  cases h1 : acceptAll p {} evs with
  | none => simp [h1] at h
  | some s1 =>
    simp only [h1, Option.bind_some, acceptAll] at h
    have hpc : s1.pc = .linking := by
      cases hl : accept p s1 (.link true) with
      | none => simp [hl] at h
      | some s2 =>
        simp only [accept] at hl; split at hl
        · assumption
        · cases hl
    have hinv := run_inv p evs {} s1 {} (inv_init p) h1
    have hp := hinv.2
    simp [PcInv, hpc, Hidden, Complete] at hp
    refine ⟨hp.2.2.2, hp.1, hp.2.1.1, hp.2.1.2, ?_⟩
    rcases List.eq_nil_or_concat evs with he | ⟨init, e, he⟩
    · subst he; simp [acceptAll] at h1; subst h1; simp at hpc
    · rw [List.concat_eq_append] at he
      subst he
      rw [acceptAll_append] at h1
      cases h0 : acceptAll p {} init with
      | none => simp [h0] at h1
      | some s0 =>
        simp only [h0, Option.bind_some, acceptAll] at h1
        cases ha : accept p s0 e with
        | none => simp [ha] at h1
        | some s1' =>
          simp only [ha] at h1
          cases h1
          rw [(enter_linking p s0 s1 e ha hpc).1]
          simp

end Nq.Lemmas.LD.Md
