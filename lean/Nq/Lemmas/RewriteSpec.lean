/-
  Lemmas for C10, part 2: `rewrite` (the C loops) equals `routeSpec` (the documented rules).
-/
import Nq.Lemmas.RewriteMap

namespace Nq.Lemmas.RewriteSpec
open Nq Nq.Rewrite Nq.Route Nq.Lemmas.RewriteMap

/-! ### byte_rchr vs. "split at the last occurrence" -/

theorem rchr_le (c : Byte) (s : Bytes) : rchr c s ≤ s.length := by
  induction s with
  | nil => simp [rchr]
  | cons x r ih =>
    simp only [rchr, List.length_cons]
    split
    · omega
    · split <;> omega

theorem splitLast_eq_rchr (c : Byte) (s : Bytes) :
    splitLast c s = if rchr c s < s.length then some (s.take (rchr c s), s.drop (rchr c s + 1)) else none := by
  induction s with
  | nil => simp [splitLast, rchr]
  | cons x r ih =>
    simp only [splitLast, rchr, List.length_cons]
    rw [ih]
    by_cases h : rchr c r < r.length
    · simp [h]
    · simp only [h, if_false]
      by_cases hx : x = c
      · simp [hx]
      · simp [hx]

theorem not_mem_of_splitLast_none {c : Byte} {s : Bytes} (h : splitLast c s = none) : c ∉ s := by
  induction s with
  | nil => simp
  | cons x r ih =>
    simp only [splitLast] at h
    cases hr : splitLast c r with
    | some p => rw [hr] at h; simp at h
    | none =>
      rw [hr] at h
      by_cases hx : x = c
      · simp [hx] at h
      · simp only [List.mem_cons, not_or]
        exact ⟨fun e => hx e.symm, ih hr⟩

theorem splitLast_some {c : Byte} {s a b : Bytes} (h : splitLast c s = some (a, b)) :
    s = a ++ c :: b ∧ c ∉ b := by
  induction s generalizing a with
  | nil => simp [splitLast] at h
  | cons x r ih =>
    simp only [splitLast] at h
    cases hr : splitLast c r with
    | some p =>
      obtain ⟨p1, p2⟩ := p
      rw [hr] at h
      simp only [Option.some.injEq, Prod.mk.injEq] at h
      obtain ⟨rfl, rfl⟩ := h
      have := ih hr
      exact ⟨by rw [List.cons_append, ← this.1], this.2⟩
    | none =>
      rw [hr] at h
      by_cases hx : x = c
      · simp only [hx, if_true, Option.some.injEq, Prod.mk.injEq] at h
        obtain ⟨rfl, rfl⟩ := h
        exact ⟨by simp [hx], not_mem_of_splitLast_none hr⟩
      · simp [hx] at h

theorem splitLast_none_of_not_mem {c : Byte} {s : Bytes} (h : c ∉ s) : splitLast c s = none := by
  induction s with
  | nil => rfl
  | cons x r ih =>
    simp only [List.mem_cons, not_or] at h
    simp only [splitLast, ih h.2]
    simp [Ne.symm h.1]

theorem splitLast_append (c : Byte) (a b : Bytes) (h : c ∉ b) : splitLast c (a ++ c :: b) = some (a, b) := by
  induction a with
  | nil => simp [splitLast, splitLast_none_of_not_mem h]
  | cons x r ih => simp [splitLast, ih]

theorem rchr_append (c : Byte) (a b : Bytes) (h : c ∉ b) : rchr c (a ++ c :: b) = a.length := by
  have h1 := splitLast_eq_rchr c (a ++ c :: b)
  rw [splitLast_append c a b h] at h1
  by_cases hlt : rchr c (a ++ c :: b) < (a ++ c :: b).length
  · rw [if_pos hlt] at h1
    simp only [Option.some.injEq, Prod.mk.injEq] at h1
    have := congrArg List.length h1.1
    simp only [List.length_take, List.length_append, List.length_cons] at this hlt
    omega
  · rw [if_neg hlt] at h1; simp at h1

/-! ### the percent-hack loop -/

def phOf (c : Cfg) : Bytes → Bool := fun k => (mapLookup c.ph k).isSome

theorem phLoop_eq_pctFix (ph : List Ent) (fuel : Nat) (l d : Bytes) :
    phLoop (fun k => (mapLookup ph k).isSome) fuel (l ++ AT :: d) l.length = pctFix ph fuel l d := by
  induction fuel generalizing l d with
  | zero => rfl
  | succ n ih =>
    simp only [phLoop, pctFix]
    have hd : (l ++ AT :: d).drop (l.length + 1) = d := by
      rw [List.drop_append]; simp
    have ht : (l ++ AT :: d).take l.length = l := by simp
    rw [hd, ht, isSome_mapLookup]
    by_cases hl : listed ph d = true
    · simp only [hl, if_true]
      rw [splitLast_eq_rchr]
      by_cases hj : rchr PCT l < l.length
      · have hne : rchr PCT l ≠ l.length := by omega
        simp only [hj, hne, if_true, if_false]
        have hset : l.set (rchr PCT l) AT = l.take (rchr PCT l) ++ AT :: l.drop (rchr PCT l + 1) := by
          rw [List.set_eq_take_append_cons_drop]; simp [hj]
        have hlen : (l.take (rchr PCT l)).length = rchr PCT l := by
          rw [List.length_take]; omega
        rw [hset]
        have := ih (l.take (rchr PCT l)) (l.drop (rchr PCT l + 1))
        rw [hlen] at this
        exact this
      · have he : rchr PCT l = l.length := by have := rchr_le PCT l; omega
        simp [he]
    · simp [hl]

theorem pctFix_fuel (ph : List Ent) : ∀ (n m : Nat) (l d : Bytes), l.length < n → l.length < m →
    pctFix ph n l d = pctFix ph m l d := by
  intro n
  induction n with
  | zero => intro m l d h; omega
  | succ k ih =>
    intro m l d hn hm
    cases m with
    | zero => omega
    | succ j =>
      simp only [pctFix]
      split
      · cases hsp : splitLast PCT l with
        | none => rfl
        | some p =>
          obtain ⟨u, f⟩ := p
          have := (splitLast_some hsp).1
          have hl : l.length = u.length + 1 + f.length := by rw [this]; simp; omega
          exact ih j u f (by omega) (by omega)
      · rfl

theorem pctFix_shape (ph : List Ent) (fuel : Nat) (l d : Bytes) : ∃ l' d', pctFix ph fuel l d = l' ++ AT :: d' := by
  induction fuel generalizing l d with
  | zero => exact ⟨l, d, rfl⟩
  | succ n ih =>
    simp only [pctFix]
    split
    · split
      · exact ih _ _
      · exact ⟨l, d, rfl⟩
    · exact ⟨l, d, rfl⟩

/-! ### the virtualdomains scan -/

/-- first hit of a lookup *function* over a key list -/
def firstHitF (vd : Bytes → Option Bytes) : List Bytes → Option Bytes
  | [] => none
  | k :: ks => match vd k with
    | some t => some t
    | none => firstHitF vd ks

theorem firstHitF_congr {vd vd' : Bytes → Option Bytes} (h : ∀ k, vd k = vd' k) (ks : List Bytes) :
    firstHitF vd ks = firstHitF vd' ks := by
  induction ks with
  | nil => rfl
  | cons k r ih => simp [firstHitF, h, ih]

theorem firstHit_eq (vdl : List Ent) (ks : List Bytes) : firstHit vdl ks = firstHitF (entryFor vdl) ks := by
  induction ks with
  | nil => rfl
  | cons k r ih => simp only [firstHit, firstHitF, ih]; cases entryFor vdl k <;> rfl

/-- scan of the tails of the domain: `first` = this tail is the whole domain -/
def scanT (vd : Bytes → Option Bytes) : Bool → Bytes → Option Bytes
  | first, [] => vd []
  | first, c :: r =>
    if first || c == DOT then
      match vd (c :: r) with
      | some x => some x
      | none => scanT vd false r
    else scanT vd false r

theorem scanT_false (vd : Bytes → Option Bytes) (t : Bytes) :
    scanT vd false t = firstHitF vd (dotSuffixes t ++ [[]]) := by
  induction t with
  | nil => simp [scanT, dotSuffixes, firstHitF]; cases vd [] <;> rfl
  | cons c r ih =>
    simp only [scanT, dotSuffixes, Bool.false_or]
    by_cases hc : c = DOT
    · simp [hc, firstHitF, ih]
    · simp [hc, ih]

theorem scanT_true (vd : Bytes → Option Bytes) (d : Bytes) :
    scanT vd true d = firstHitF vd (d :: (dotSuffixes d ++ [[]])) := by
  cases d with
  | nil => simp [scanT, dotSuffixes, firstHitF]; cases vd [] <;> rfl
  | cons c r =>
    simp only [scanT, Bool.true_or, if_true, firstHitF, dotSuffixes]
    cases hv : vd (c :: r) with
    | some x => rfl
    | none =>
      simp only [scanT_false]
      by_cases hc : c = DOT
      · subst hc; simp [firstHitF, hv]
      · simp [hc]

/-- positions strictly between 0 and the last '@' are never candidates -/
theorem vscan_skip (vd : Bytes → Option Bytes) (addr : Bytes) (at_ : Nat) (hlen : at_ < addr.length) :
    ∀ (m n i : Nat), 0 < i → i + m ≤ at_ + 1 → vscan vd addr at_ (n + m) i = vscan vd addr at_ n (i + m) := by
  intro m
  induction m with
  | zero => intros; rfl
  | succ m ih =>
    intro n i hi hle
    have hc : cand addr at_ i = false := by
      unfold cand
      have h1 : (i == 0) = false := by simp; omega
      have h2 : (i == at_ + 1) = false := by simp; omega
      have h3 : (i == addr.length) = false := by simp; omega
      have h4 : decide (i > at_) = false := by simp; omega
      simp [h1, h2, h3, h4]
    have : n + (m + 1) = (n + m) + 1 := by omega
    rw [this]
    simp only [vscan, hc]
    rw [show i + (m + 1) = (i + 1) + m by omega]
    exact ih n (i + 1) (by omega) (by omega)

/-- positions in the domain: tail `t = dom.drop k` is looked at position `at+1+k` -/
theorem vscan_dom (vd : Bytes → Option Bytes) (a dom : Bytes) (hat : AT ∉ dom) :
    ∀ (t : Bytes) (k : Nat), dom.drop k = t → k ≤ dom.length →
      vscan vd (a ++ AT :: dom) a.length (t.length + 1) (a.length + 1 + k) = scanT vd (k == 0) t := by
  intro t
  induction t with
  | nil =>
    intro k hk hle
    have hkl : k = dom.length := by
      have := congrArg List.length hk
      simp at this; omega
    have hc : cand (a ++ AT :: dom) a.length (a.length + 1 + k) = true := by
      unfold cand; simp [hkl]; omega
    have hd : (a ++ AT :: dom).drop (a.length + 1 + k) = [] := by
      apply List.drop_eq_nil_of_le; simp [hkl]; omega
    simp only [List.length_nil, Nat.zero_add, vscan, hc, if_true, hd, scanT]
    cases vd [] <;> rfl
  | cons c r ih =>
    intro k hk hle
    have hklt : k < dom.length := by
      have := congrArg List.length hk
      simp at this; omega
    have hd : (a ++ AT :: dom).drop (a.length + 1 + k) = c :: r := by
      rw [show a.length + 1 + k = a.length + (1 + k) by omega, ← List.drop_drop]
      simp [← hk, Nat.add_comm 1 k]
    have hget : (a ++ AT :: dom)[a.length + 1 + k]? = some c := by
      have : (a ++ AT :: dom)[a.length + 1 + k]? = ((a ++ AT :: dom).drop (a.length + 1 + k)).head? := by
        rw [List.head?_drop]
      rw [this, hd]; rfl
    have hc : cand (a ++ AT :: dom) a.length (a.length + 1 + k) = ((k == 0) || c == DOT) := by
      unfold cand
      rw [hget]
      have h1 : (a.length + 1 + k == 0) = false := by simp
      have h3 : (a.length + 1 + k == (a ++ AT :: dom).length) = false := by simp; omega
      have h4 : decide (a.length + 1 + k > a.length) = true := by simp; omega
      have h2 : (a.length + 1 + k == a.length + 1) = (k == 0) := by
        rw [Bool.eq_iff_iff]; simp
      rw [h1, h2, h3, h4]
      simp
    have hr : dom.drop (k + 1) = r := by
      rw [← List.drop_drop, hk]; rfl
    have ih' := ih (k + 1) hr (by omega)
    have hk1 : (k + 1 == 0) = false := by simp
    rw [hk1, show a.length + 1 + (k + 1) = a.length + 1 + k + 1 by omega] at ih'
    rw [List.length_cons, vscan, hc, hd, ih', scanT]
    split
    · cases vd (c :: r) <;> rfl
    · rfl

/-- the whole `for` loop of `rewrite()` over an address `a@dom` (dom without '@') -/
theorem vscan_eq (vd : Bytes → Option Bytes) (a dom : Bytes) (hat : AT ∉ dom) :
    vscan vd (a ++ AT :: dom) a.length ((a ++ AT :: dom).length + 1) 0 =
      firstHitF vd (candidates (a ++ AT :: dom) dom) := by
  have hlen : (a ++ AT :: dom).length + 1 = (dom.length + 1 + a.length) + 1 := by simp; omega
  rw [hlen]
  have hc0 : cand (a ++ AT :: dom) a.length 0 = true := by simp [cand]
  simp only [vscan, hc0, if_true, List.drop_zero, candidates, firstHitF]
  cases vd (a ++ AT :: dom) with
  | some x => rfl
  | none =>
    have hs := vscan_skip vd (a ++ AT :: dom) a.length (by simp) a.length (dom.length + 1) 1 (by omega) (by omega)
    rw [hs]
    have := vscan_dom vd a dom hat dom 0 (by simp) (by omega)
    rw [show 1 + a.length = a.length + 1 by omega, this]
    have := scanT_true vd dom
    simp only [firstHitF] at this
    simpa using this

/-! ### rewrite = routeSpec -/

/-- `routeSpec` with the virtualdomains lookup as a parameter -/
def routeSpecG (vd : Bytes → Option Bytes) (c : Cfg) (r : Bytes) : Routed :=
  let addr := match splitLast AT r with
    | some p => pctFix c.ph (p.1.length + 1) p.1 p.2
    | none => pctFix c.ph (r.length + 1) r c.env
  let dom := domainOf addr
  if listed c.locals dom then ⟨.loc, [], addr⟩
  else match firstHitF vd (candidates addr dom) with
    | some t => if t = [] then ⟨.rem, [], addr⟩ else ⟨.loc, t, addr⟩
    | none => ⟨.rem, [], addr⟩

theorem routeSpec_eq_G (c : Cfg) (r : Bytes) : routeSpec c r = routeSpecG (entryFor c.vdoms) c r := by
  unfold routeSpec routeSpecG
  simp only [firstHit_eq]
  rfl

/-- after the percent hack: the address is `a@dom` with `dom` free of '@' -/
theorem addr_decomp (addr : Bytes) (h : ∃ l d, addr = l ++ AT :: d) :
    ∃ a dom, addr = a ++ AT :: dom ∧ AT ∉ dom ∧ rchr AT addr = a.length ∧ domainOf addr = dom := by
  obtain ⟨l, d, rfl⟩ := h
  have hs := splitLast_eq_rchr AT (l ++ AT :: d)
  cases hsp : splitLast AT (l ++ AT :: d) with
  | none =>
    have : AT ∈ (l ++ AT :: d) := by simp
    rw [hsp] at hs
    by_cases hlt : rchr AT (l ++ AT :: d) < (l ++ AT :: d).length
    · rw [if_pos hlt] at hs; simp at hs
    · exfalso
      exact not_mem_of_splitLast_none hsp this
  | some p =>
    obtain ⟨a, dom⟩ := p
    obtain ⟨h1, h2⟩ := splitLast_some hsp
    refine ⟨a, dom, h1, h2, ?_, ?_⟩
    · rw [h1]; exact rchr_append AT a dom h2
    · unfold domainOf; rw [hsp]

theorem rewrite_addr (c : Cfg) (r : Bytes) :
    phLoop (fun k => (mapLookup c.ph k).isSome)
        ((if rchr AT r = r.length then r ++ AT :: c.env else r).length + 1)
        (if rchr AT r = r.length then r ++ AT :: c.env else r) (rchr AT r) =
      (match splitLast AT r with
        | some p => pctFix c.ph (p.1.length + 1) p.1 p.2
        | none => pctFix c.ph (r.length + 1) r c.env) := by
  rw [splitLast_eq_rchr]
  by_cases hlt : rchr AT r < r.length
  · have hne : rchr AT r ≠ r.length := by omega
    simp only [hlt, hne, if_true, if_false]
    have hsp : splitLast AT r = some (r.take (rchr AT r), r.drop (rchr AT r + 1)) := by
      rw [splitLast_eq_rchr, if_pos hlt]
    have hr := (splitLast_some hsp).1
    have hlen : (r.take (rchr AT r)).length = rchr AT r := by rw [List.length_take]; omega
    have := phLoop_eq_pctFix c.ph (r.length + 1) (r.take (rchr AT r)) (r.drop (rchr AT r + 1))
    rw [← hr, hlen] at this
    rw [this]
    exact pctFix_fuel c.ph _ _ _ _ (by rw [hlen]; omega) (by omega)
  · have he : rchr AT r = r.length := by have := rchr_le AT r; omega
    simp only [he, if_true, Nat.lt_irrefl, if_false]
    rw [phLoop_eq_pctFix c.ph ((r ++ AT :: c.env).length + 1) r c.env]
    exact pctFix_fuel c.ph _ _ _ _ (by simp; omega) (by omega)

theorem spec_addr_shape (c : Cfg) (r : Bytes) :
    ∃ l d, (match splitLast AT r with
        | some p => pctFix c.ph (p.1.length + 1) p.1 p.2
        | none => pctFix c.ph (r.length + 1) r c.env) = l ++ AT :: d := by
  cases splitLast AT r with
  | some p => exact pctFix_shape _ _ _ _
  | none => exact pctFix_shape _ _ _ _

/-- what `rewrite()` does after the percent-hack loop -/
def tailPart (L : Lookups) (addr : Bytes) : Routed :=
  if L.locals (addr.drop (rchr AT addr + 1)) then ⟨.loc, [], addr⟩
  else match vscan L.vdoms addr (rchr AT addr) (addr.length + 1) 0 with
    | some x => if x = [] then ⟨.rem, [], addr⟩ else ⟨.loc, x, addr⟩
    | none => ⟨.rem, [], addr⟩

theorem rewriteWith_eq (L : Lookups) (env r : Bytes) :
    rewriteWith L env r = tailPart L (phLoop L.ph
        ((if rchr AT r = r.length then r ++ AT :: env else r).length + 1)
        (if rchr AT r = r.length then r ++ AT :: env else r) (rchr AT r)) := rfl

/-- the documented rules after the percent hack -/
def specTail (vd : Bytes → Option Bytes) (c : Cfg) (addr : Bytes) : Routed :=
  if listed c.locals (domainOf addr) then ⟨.loc, [], addr⟩
  else match firstHitF vd (candidates addr (domainOf addr)) with
    | some t => if t = [] then ⟨.rem, [], addr⟩ else ⟨.loc, t, addr⟩
    | none => ⟨.rem, [], addr⟩

theorem routeSpecG_eq (vd : Bytes → Option Bytes) (c : Cfg) (r : Bytes) :
    routeSpecG vd c r = specTail vd c (match splitLast AT r with
        | some p => pctFix c.ph (p.1.length + 1) p.1 p.2
        | none => pctFix c.ph (r.length + 1) r c.env) := rfl

theorem tail_eq (c : Cfg) (addr : Bytes) (h : ∃ l d, addr = l ++ AT :: d) :
    tailPart c.lookups addr = specTail (mapLookup c.vdoms) c addr := by
  obtain ⟨a, dom, h1, h2, h3, h4⟩ := addr_decomp addr h
  unfold tailPart specTail
  rw [h3, h4]
  subst h1
  have hd : (a ++ AT :: dom).drop (a.length + 1) = dom := by rw [List.drop_append]; simp
  simp only [Cfg.lookups, hd, isSome_mapLookup, vscan_eq _ a dom h2]

/-- the C control flow of `rewrite()` computes the documented rule set (any virtualdomains lookup) -/
theorem rewrite_eq_G (c : Cfg) (r : Bytes) : rewrite c r = routeSpecG (mapLookup c.vdoms) c r := by
  unfold rewrite
  rw [rewriteWith_eq, routeSpecG_eq]
  have : c.lookups.ph = fun k => (mapLookup c.ph k).isSome := rfl
  rw [this, rewrite_addr]
  exact tail_eq c _ (spec_addr_shape c r)

theorem routeSpecG_congr {vd vd' : Bytes → Option Bytes} (h : ∀ k, vd k = vd' k) (c : Cfg) (r : Bytes) :
    routeSpecG vd c r = routeSpecG vd' c r := by
  have : vd = vd' := funext h
  rw [this]

end Nq.Lemmas.RewriteSpec
