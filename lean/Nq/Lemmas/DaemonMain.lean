/-
  `step_inv`: the monitor's accounting invariant is preserved by every accepted event, hence holds
  in every reachable state.
-/
import Nq.Lemmas.DaemonStep
import Nq.Lemmas.DaemonSlots

namespace Nq.Lemmas.DI
open Nq Nq.Daemon

def zipMarks (rs : List Rec) (marks : List Bool) : List Rec := (rs.zip marks).map fun (r, d) => { r with done := d }

theorem addrs_zipMarks : ∀ (rs : List Rec) (marks : List Bool), marks.length = rs.length → addrs (zipMarks rs marks) = addrs rs
  | [], _, _ => by simp [zipMarks, addrs]
  | r :: rs, [], h => by simp at h
  | r :: rs, d :: ds, h => by
    have := addrs_zipMarks rs ds (by simpa using h)
    simp [zipMarks, addrs] at this ⊢
    exact this

theorem length_zipMarks (rs : List Rec) (marks : List Bool) (h : marks.length = rs.length) :
    (zipMarks rs marks).length = rs.length := by
  simp [zipMarks, h]

theorem getD_zipMarks : ∀ (rs : List Rec) (marks : List Bool) (i : Nat), marks.length = rs.length →
    ((zipMarks rs marks).getD i ⟨false, []⟩).done = true → marks.getD i false = true
  | [], _, _, _, h => by simp [zipMarks] at h
  | r :: rs, [], _, h, _ => by simp at h
  | r :: rs, d :: ds, 0, _, h => by simpa [zipMarks] using h
  | r :: rs, d :: ds, i + 1, hl, h => by
    have := getD_zipMarks rs ds i (by simpa using hl) (by simpa [zipMarks] using h)
    simpa using this

theorem minv_crashMarks (cfg : Cfg) (ms : MsgSt) (c : Ch) (rs : List Rec) (marks : List Bool) (h : MInv cfg ms)
    (hc : ms.chan c = some rs) (hl : marks.length = rs.length)
    (hall : (List.range rs.length).all (fun i => !(marks.getD i false) || (rs.getD i ⟨false, []⟩).done) = true) :
    MInv cfg (ms.setChan c (some (zipMarks rs marks))) := by
  obtain ⟨r1, r2, r3, r4, r5, r6, r7, r8, r9, r10, r11, r12, r13⟩ := setChan_rest ms c (some (zipMarks rs marks))
  obtain ⟨q1, q2, q3⟩ := setChan_rest2 ms c (some (zipMarks rs marks))
  have hplaced : ∀ c', MsgSt.placed (ms.setChan c (some (zipMarks rs marks))) c' = MsgSt.placed ms c' := by
    intro c'; cases c' <;> simp [MsgSt.placed, r12, r13]
  constructor
  · intro env he; rw [r1] at he; rw [r11]; exact h.a1 env he
  · intro hn sd r ha; rw [r1] at hn; rw [r11] at ha; rw [r12, r13]; exact h.a2 hn sd r ha
  · intro hn c' rs' hc'
    rw [r1] at hn; rw [chan_setChan] at hc'; rw [hplaced]
    split at hc'
    · rename_i he; subst he; cases hc'; rw [addrs_zipMarks rs marks hl]; exact h.k1 hn c' rs hc
    · exact h.k1 hn c' rs' hc'
  · intro hn c' rs' i hc' hd hi
    rw [r1] at hn; rw [chan_setChan] at hc'; rw [r4]
    split at hc'
    · rename_i he; subst he; cases hc'
      rw [length_zipMarks rs marks hl] at hi
      have hm := getD_zipMarks rs marks i hl hd
      have := (List.all_eq_true.1 hall) i (List.mem_range.2 hi)
      have hd' : (rs.getD i ⟨false, []⟩).done = true := by
        simp only [Bool.or_eq_true, Bool.not_eq_true'] at this
        rcases this with h0 | h0
        · rw [hm] at h0; cases h0
        · exact h0
      exact h.k2 hn c' rs i hc hd' hi
    · exact h.k2 hn c' rs' i hc' hd hi
  · intro x hx; rw [r4] at hx; rw [r5, r6]; exact h.k3 x hx
  · intro x hx; rw [r6] at hx; rw [r7, r8, q1, q2]; exact h.k4 x hx
  · intro hb; rw [r7]; exact h.k5 (by rw [← r3]; exact hb)
  · intro hn _
    rw [r1] at hn; rw [r2]
    apply h.k6 hn
    cases c
    · left; simpa [MsgSt.chan] using congrArg Option.isSome hc
    · right; left; simpa [MsgSt.chan] using congrArg Option.isSome hc
  · intro hn c' hc' i hi
    rw [r1] at hn; rw [hplaced] at hi; rw [r4]; rw [chan_setChan] at hc'
    split at hc'
    · cases hc'
    · exact h.k7 hn c' hc' i hi
  · intro hn sd r i ha hi; rw [r1] at hn; rw [r11] at ha; rw [r2] at hi; exact h.i1 hn sd r i ha hi
  · intro hp; rw [r1, r2] at hp; rw [q3]; exact h.m1 hp
  · intro sd r ha hd; rw [r11] at ha; rw [q1] at hd; exact h.d1 sd r ha hd

/-! ### reports -/

theorem inv_volatile (cfg : Cfg) (s s' : St) (h : Inv cfg s) (htab : s'.tab = s.tab)
    (hmay : ∀ x ∈ s'.mayMark, x ∈ s.mayMark) (hclean : s'.clean = s.clean) : Inv cfg s' := by
  have hmsg : ∀ k, s'.msg k = s.msg k := by intro k; simp [St.msg, htab]
  refine ⟨fun k => by rw [hmsg]; exact h.msgs k, ?_, ?_, ?_⟩
  · intro m c i hm; rw [hmsg]; exact h.may m c i (hmay _ hm)
  · intro m hc; rw [hmsg]; rw [hclean] at hc; exact h.ready m hc
  · intro m hc; rw [hmsg]; rw [hclean] at hc; exact h.foop m hc

theorem reportK_inv (cfg : Cfg) (s1 : St) (m : Nat) (c : Ch) (idx : Nat) (h1 : Inv cfg s1) (hc : s1.clean = none) :
    Inv cfg { (s1.upd m fun ms => { ms with fin := (c, idx) :: ms.fin, delivered := (c, idx) :: ms.delivered })
              with mayMark := (m, c, idx) :: s1.mayMark } := by
  have h2 := inv_upd_grow cfg s1 m (fun ms => { ms with fin := (c, idx) :: ms.fin, delivered := (c, idx) :: ms.delivered })
    h1 hc (minv_reportK cfg _ (c, idx) (h1.msgs m)) (fun x hx => List.mem_cons_of_mem _ hx)
  refine ⟨fun k => h2.msgs k, ?_, fun m' hcl => h2.ready m' hcl, fun m' hcl => h2.foop m' hcl⟩
  intro m' c' i hm
  have hm' : (m', c', i) ∈ (m, c, idx) :: s1.mayMark := hm
  rcases List.mem_cons.1 hm' with he | hm''
  · cases he
    have : (c, idx) ∈ ((s1.upd m fun ms => { ms with fin := (c, idx) :: ms.fin, delivered := (c, idx) :: ms.delivered }).msg m).fin := by
      rw [St.msg_upd]; simp
    exact this
  · exact h2.may m' c' i hm''

theorem handleReport_inv (cfg : Cfg) (s : St) (c : Ch) (rep : Bytes) (h : Inv cfg s) (hc : s.clean = none) :
    Inv cfg (handleReport cfg s c rep) ∧ (handleReport cfg s c rep).clean = none := by
  simp only [handleReport]
  split
  · exact ⟨h, hc⟩
  · rename_i sl _
    split
    · exact ⟨h, hc⟩
    · -- the slot is freed
      have h1 : Inv cfg { s with slots := s.slots.filter (fun x => !(x.c == c && x.delnum == (rep.headD 0).toNat)) } :=
        inv_volatile cfg s _ h rfl (fun _ hx => hx) rfl
      split
      · exact ⟨reportK_inv cfg _ sl.m c sl.idx h1 hc, hc⟩
      · split
        · exact ⟨inv_volatile cfg _ _ h1 rfl (fun _ hx => hx) rfl, hc⟩
        · split
          · exact ⟨inv_volatile cfg _ _ h1 rfl (fun _ hx => hx) rfl, hc⟩
          · exact ⟨h1, hc⟩

theorem setDline_inv (cfg : Cfg) (s : St) (c : Ch) (v : Bytes × Nat) (h : Inv cfg s) (hc : s.clean = none) :
    Inv cfg (s.setDline c v) ∧ (s.setDline c v).clean = none := by
  cases c <;> exact ⟨inv_volatile cfg s _ h rfl (fun _ hx => hx) rfl, hc⟩

theorem feedReports_inv (cfg : Cfg) (c : Ch) : ∀ (bs : Bytes) (s : St), Inv cfg s → s.clean = none →
    Inv cfg (feedReports cfg s c bs)
  | [], s, h, _ => by simpa [feedReports] using h
  | b :: bs, s, h, hc => by
    simp only [feedReports]
    have h1 := setDline_inv cfg s c (reportByte (s.dline c).1 (s.dline c).2 b).1 h hc
    split
    · rename_i rep _
      have h2 := handleReport_inv cfg _ c rep h1.1 h1.2
      exact feedReports_inv cfg c bs _ h2.1 h2.2
    · exact feedReports_inv cfg c bs _ h1.1 h1.2


def bounceUpd (n : Note) (bs : Bytes) (ms : MsgSt) : MsgSt :=
  { ms with bounce := some ((ms.bounce.getD []) ++ bs), fin := (n.c, n.idx) :: ms.fin, noted := (n.c, n.idx) :: ms.noted,
            inFile := (n.c, n.idx) :: ms.inFile, lastInject := false }

theorem appendBounce_inv (cfg : Cfg) (s : St) (m : Nat) (n : Note) (bs : Bytes) (h : Inv cfg s) (hc : s.clean = none)
    (hi : (s.msg m).info.isSome = true) :
    Inv cfg { (s.upd m (bounceUpd n bs)) with notes := s.notes.erase n, mayMark := (m, n.c, n.idx) :: s.mayMark } := by
  have h2 := inv_upd_grow cfg s m (bounceUpd n bs) h hc (minv_appendBounce cfg _ (n.c, n.idx) bs (h.msgs m) hi)
    (fun x hx => List.mem_cons_of_mem _ hx)
  refine ⟨fun k => h2.msgs k, ?_, fun m' hcl => h2.ready m' hcl, fun m' hcl => h2.foop m' hcl⟩
  intro m' c' i hm
  have hm' : (m', c', i) ∈ (m, n.c, n.idx) :: s.mayMark := hm
  rcases List.mem_cons.1 hm' with he | hm''
  · cases he
    have : (n.c, n.idx) ∈ ((s.upd m (bounceUpd n bs)).msg m).fin := by
      rw [St.msg_upd]; simp [bounceUpd]
    exact this
  · exact h2.may m' c' i hm''

def todoDoneUpd (ms : MsgSt) : MsgSt :=
  { ms with todo := none, placedLoc := optAddrs ms.loc, placedRem := optAddrs ms.rem,
            fin := [], delivered := [], noted := [], inFile := [], bounced := [] }

def freshMsg (sender : Bytes) (rcpts : List Bytes) : MsgSt :=
  { mess := true, intd := true, todo := some (sender, rcpts), accepted := some (sender, rcpts) }

theorem clean_none_of (s : St) (h : ¬ s.clean.isSome = true) : s.clean = none := by
  cases hc : s.clean with
  | none => rfl
  | some x => simp [hc] at h

theorem fin_setChan (ms : MsgSt) (c : Ch) (v : Option (List Rec)) : (ms.setChan c v).fin = ms.fin := (setChan_rest ms c v).2.2.2.1
theorem fin_setChanSynced (ms : MsgSt) (c : Ch) (v : Bool) : (ms.setChanSynced c v).fin = ms.fin := (setChanSynced_rest ms c v).2.2.2.1

/-- todo-context events keep everything the invariant needs (channel files and info may change freely) -/
theorem inv_todo_ctx' (cfg : Cfg) (s : St) (m : Nat) (f : MsgSt → MsgSt) (hinv : Inv cfg s) (hclean : s.clean = none)
    (ht : (s.msg m).todo.isSome = true) (g : SameGhost (s.msg m) (f (s.msg m))) : Inv cfg (s.upd m f) :=
  inv_upd_grow cfg s m f hinv hclean (minv_todo_ctx cfg _ _ (hinv.msgs m) ht g) (fun x hx => by rw [g.e3]; exact hx)

theorem step_inv_core (cfg : Cfg) (s s' : St) (e : Ev) (hinv : Inv cfg s) (hacc : acceptCore cfg s e = some s') : Inv cfg s' := by
  cases e with
  | tick t =>
    simp only [acceptCore] at hacc
    split at hacc
    · cases hacc; exact inv_volatile cfg s _ hinv rfl (fun _ hx => hx) rfl
    · cases hacc
  | restart =>
    simp only [acceptCore] at hacc
    cases hacc
    refine ⟨fun k => hinv.msgs k, ?_, ?_, ?_⟩
    · intro m c i hm; simp at hm
    · intro m hc; simp at hc
    · intro m hc; simp at hc
  | utimes m c t =>
    simp only [acceptCore] at hacc
    split at hacc
    · cases hacc; exact hinv
    · cases hacc
  | cleanResp b =>
    simp only [acceptCore] at hacc
    split at hacc
    · cases hacc
      refine ⟨fun k => hinv.msgs k, fun m c i hm => hinv.may m c i hm, ?_, ?_⟩
      · intro m hc; simp at hc
      · intro m hc; simp at hc
    · cases hacc
  | rbytes c bs =>
    simp only [acceptCore] at hacc
    split at hacc
    · cases hacc
    · rename_i hcl
      cases hacc
      have hclean := clean_none_of s hcl
      have h0 : Inv cfg { s with mayMark := [], notes := [] } := by
        refine ⟨fun k => hinv.msgs k, ?_, fun m hc => hinv.ready m hc, fun m hc => hinv.foop m hc⟩
        intro m c' i hm; simp at hm
      exact feedReports_inv cfg c bs _ h0 hclean
  | cmd c delnum m pos recip =>
    simp only [acceptCore] at hacc
    split at hacc
    · cases hacc
    · split at hacc
      · cases hacc
      · split at hacc
        · cases hacc
        · split at hacc
          · cases hacc
            refine ⟨fun k => hinv.msgs k, ?_, fun m hc => hinv.ready m hc, fun m hc => hinv.foop m hc⟩
            intro m' c' i hm; simp at hm
          · cases hacc
  | creatInfo m =>
    simp only [acceptCore] at hacc
    split at hacc
    · rename_i hg; cases hacc
      exact inv_todo_ctx' cfg s m _ hinv (by simpa using hg.1) hg.2.1 (by constructor <;> rfl)
    · cases hacc
  | writeInfo m bs =>
    simp only [acceptCore] at hacc
    split at hacc
    · split at hacc
      · rename_i hg; cases hacc
        exact inv_todo_ctx' cfg s m _ hinv (by simpa using hg.1) hg.2 (by constructor <;> rfl)
      · cases hacc
    · cases hacc
  | fsyncInfo m =>
    simp only [acceptCore] at hacc
    split at hacc
    · rename_i hg; cases hacc
      exact inv_todo_ctx' cfg s m _ hinv (by simpa using hg.1) hg.2.1 (by constructor <;> rfl)
    · cases hacc
  | creatChan m c =>
    simp only [acceptCore] at hacc
    split at hacc
    · rename_i hg; cases hacc
      exact inv_todo_ctx' cfg s m _ hinv (by simpa using hg.1) hg.2.1
        ((SameGhost.setChan _ c _).trans (SameGhost.setChanSynced _ c false))
    · cases hacc
  | writeChan m c bs =>
    simp only [acceptCore] at hacc
    split at hacc
    · split at hacc
      · rename_i hg; cases hacc
        exact inv_todo_ctx' cfg s m _ hinv (by simpa using hg.1) hg.2
          ((SameGhost.setChan _ c _).trans (SameGhost.setChanSynced _ c false))
      · cases hacc
    · cases hacc
  | fsyncChan m c =>
    simp only [acceptCore] at hacc
    split at hacc
    · rename_i hg; cases hacc
      exact inv_todo_ctx' cfg s m _ hinv (by simpa using hg.1) hg.2.1 (SameGhost.setChanSynced _ c true)
    · cases hacc
  | crashTodoFiles m =>
    simp only [acceptCore] at hacc
    split at hacc
    · rename_i hg; cases hacc
      exact inv_todo_ctx' cfg s m _ hinv (by simpa using hg.2.1) hg.2.2.2 (by constructor <;> rfl)
    · cases hacc
  | unlinkChan m c =>
    simp only [acceptCore] at hacc
    split at hacc
    · cases hacc
    · rename_i hcl
      have hclean := clean_none_of s hcl
      split at hacc
      · cases hacc
      · rename_i rs hch
        split at hacc
        · rename_i ht; cases hacc
          exact inv_todo_ctx' cfg s m _ hinv hclean ht (SameGhost.setChan _ c none)
        · rename_i ht
          split at hacc
          · rename_i hg; cases hacc
            have htn : (s.msg m).todo = none := by
              cases h : (s.msg m).todo with
              | none => rfl
              | some x => simp [h] at ht
            exact inv_upd_grow cfg s m _ hinv hclean
              (minv_unlinkChan_job cfg _ c rs (hinv.msgs m) htn hch hg.2)
              (fun x hx => by rw [fin_setChan]; exact hx)
          · cases hacc
  | unlinkInfo m =>
    simp only [acceptCore] at hacc
    split at hacc
    · cases hacc
    · rename_i hg
      have hclean : s.clean = none := by
        cases h : s.clean with
        | none => rfl
        | some x => simp [h] at hg
      split at hacc
      · rename_i ht; cases hacc
        exact inv_todo_ctx' cfg s m _ hinv hclean ht (by constructor <;> rfl)
      · split at hacc
        · rename_i hg2; cases hacc
          exact inv_upd_grow cfg s m _ hinv hclean
            (minv_unlinkInfo_done cfg _ (hinv.msgs m) (by simpa using hg2.1) (by simpa using hg2.2.1) (by simpa using hg2.2.2)
              (by cases h : (s.msg m).todo with
                  | none => rfl
                  | some x => rename_i ht; simp [h] at ht))
            (fun x hx => hx)
        · cases hacc
  | markD m c pos =>
    simp only [acceptCore] at hacc
    split at hacc
    · cases hacc
    · rename_i hcl
      have hclean := clean_none_of s hcl
      split at hacc
      · cases hacc
      · rename_i rs hch
        split at hacc
        · cases hacc
        · rename_i idx _
          split at hacc
          · rename_i hmm; cases hacc
            have hfin : (c, idx) ∈ (s.msg m).fin := hinv.may m c idx (by simpa using hmm)
            exact inv_upd_grow cfg s m _ hinv hclean (minv_markD cfg _ c rs idx (hinv.msgs m) hch hfin)
              (fun x hx => by rw [fin_setChan]; exact hx)
          · cases hacc
  | bounceInject m ok env body =>
    simp only [acceptCore] at hacc
    split at hacc
    · cases hacc
    · rename_i hcl
      have hclean := clean_none_of s hcl
      split at hacc
      · split at hacc
        · cases hacc
          exact inv_upd_grow cfg s m _ hinv hclean
            (minv_congr cfg _ _ (hinv.msgs m) (by constructor <;> rfl) rfl rfl rfl rfl rfl) (fun x hx => hx)
        · cases hacc
      · cases hacc
  | unlinkBounce m =>
    simp only [acceptCore] at hacc
    split at hacc
    · cases hacc
    · rename_i hcl
      have hclean := clean_none_of s hcl
      split at hacc
      · rename_i info _ hinfo _
        split at hacc
        · rename_i hg3
          split at hacc
          · rename_i hs; cases hacc
            have htn : (s.msg m).todo = none := by
              cases h : (s.msg m).todo with
              | none => rfl
              | some x => have := hg3.1; simp [h] at this
            exact inv_upd_grow cfg s m _ hinv hclean (minv_unlinkBounce_discard cfg _ (hinv.msgs m) htn info hinfo hs) (fun x hx => hx)
          · split at hacc
            · cases hacc
              exact inv_upd_grow cfg s m _ hinv hclean (minv_unlinkBounce_ok cfg _ (hinv.msgs m)) (fun x hx => hx)
            · cases hacc
        · cases hacc
      · cases hacc
  | crashMarks m c marks =>
    simp only [acceptCore] at hacc
    split at hacc
    · cases hacc
    · rename_i rs hch
      split at hacc
      · rename_i hg; cases hacc
        exact inv_upd_grow cfg s m _ hinv (by simpa using hg.2.1)
          (minv_crashMarks cfg _ c rs marks (hinv.msgs m) hch hg.2.2.2.1 hg.2.2.2.2)
          (fun x hx => by rw [fin_setChan]; exact hx)
      · cases hacc
  | crashBounce m content =>
    simp only [acceptCore] at hacc
    split at hacc
    · rename_i hg; cases hacc
      exact inv_upd_grow cfg s m _ hinv (by simpa using hg.2.1)
        (minv_crashBounce cfg _ content (hinv.msgs m) (hg.2.2.2.elim Or.inl (fun h => Or.inr ⟨h.1, h.2.1⟩))) (fun x hx => hx)
    · cases hacc
  | appendBounce m bs =>
    simp only [acceptCore] at hacc
    split at hacc
    · cases hacc
    · rename_i hcl
      have hclean := clean_none_of s hcl
      split at hacc
      · cases hacc
      · rename_i n _
        split at hacc
        · rename_i hg; cases hacc
          exact appendBounce_inv cfg s m n bs hinv hclean hg.2.1
        · cases hacc
  | newmsg m sender rcpts =>
    simp only [acceptCore] at hacc
    split at hacc
    · rename_i hg; cases hacc
      have hclean : s.clean = none := by simpa using hg.1
      refine inv_upd cfg s m (fun _ => freshMsg sender rcpts) _
        (fun k => by show (s.upd m (fun _ => freshMsg sender rcpts)).msg k = _; exact St.msg_upd s m k _)
        hinv (minv_newmsg cfg sender rcpts) ?_ ?_ ?_
      · intro m' c i hm; simp at hm
      · intro m' hc
        have : s.clean = some (.todo m') := hc
        rw [hclean] at this; cases this
      · intro m' hc
        have : s.clean = some (.foop m') := hc
        rw [hclean] at this; cases this
    · cases hacc
  | cUnlinkMess m =>
    simp only [acceptCore] at hacc
    split at hacc
    · split at hacc
      · rename_i k hcl hk
        subst hk
        cases hacc
        have hf := hinv.foop k hcl
        refine inv_upd cfg s k (fun ms => { ms with mess := false }) _
          (fun k' => by show (s.upd k (fun ms => { ms with mess := false })).msg k' = _; exact St.msg_upd s k k' _) hinv
          (minv_unlinkMess cfg _ (hinv.msgs k) hf.1 hf.2) ?_ ?_ ?_
        · intro m' c i hm
          have h0 := hinv.may m' c i hm
          show (c, i) ∈ ((s.upd k (fun ms => { ms with mess := false })).msg m').fin
          rw [St.msg_upd]; split
          · rename_i he; subst he; exact h0
          · exact h0
        · intro m' hc; simp at hc
        · intro m' hc; simp at hc
      · cases hacc
    · cases hacc
  | cUnlinkTodo m =>
    simp only [acceptCore] at hacc
    split at hacc
    · rename_i k hcl
      split at hacc
      · rename_i hk; subst hk; cases hacc
        refine inv_upd cfg s k todoDoneUpd _
          (fun k' => by show (s.upd k todoDoneUpd).msg k' = _; exact St.msg_upd s k k' _) hinv
          (minv_unlinkTodo cfg _ (hinv.msgs k) (hinv.ready k hcl)) ?_ ?_ ?_
        · intro m' c i hm; simp at hm
        · intro m' hc; simp at hc
        · intro m' hc; simp at hc
      · cases hacc
    · cases hacc
  | cUnlinkIntd m =>
    simp only [acceptCore] at hacc
    have key : ∀ (hcl : s.clean.isSome = true), Inv cfg (s.upd m (fun ms => { ms with intd := false })) := by
      intro _
      refine inv_upd cfg s m (fun ms => { ms with intd := false }) _ (fun k => St.msg_upd s m k _) hinv
        (minv_congr cfg _ _ (hinv.msgs m) (by constructor <;> rfl) rfl rfl rfl rfl rfl) ?_ ?_ ?_
      · intro m' c i hm
        have h0 := hinv.may m' c i hm
        rw [St.msg_upd]; split
        · rename_i he; subst he; exact h0
        · exact h0
      · intro m' hc
        have h0 := hinv.ready m' hc
        rw [St.msg_upd]; split
        · rename_i he; subst he
          obtain ⟨sd, r, a, b, c, d⟩ := h0
          exact ⟨sd, r, a, b, fun c' rs hc' => c c' rs (by cases c' <;> simpa [MsgSt.chan] using hc'), d⟩
        · exact h0
      · intro m' hc
        have h0 := hinv.foop m' hc
        rw [St.msg_upd]; split
        · rename_i he; subst he; exact h0
        · exact h0
    split at hacc
    · rename_i k hcl
      split at hacc
      · cases hacc; exact key (by simp [hcl])
      · cases hacc
    · rename_i k hcl
      split at hacc
      · cases hacc; exact key (by simp [hcl])
      · cases hacc
    · cases hacc
  | cleanReq bs =>
    simp only [acceptCore] at hacc
    split at hacc
    · cases hacc
    · rename_i hcl
      have hclean := clean_none_of s hcl
      split at hacc
      · cases hacc
      · split at hacc
        · -- todo/<m>
          split at hacc
          · cases hacc
          · rename_i sender rcpts htodo
            split at hacc
            · rename_i hg; cases hacc
              refine ⟨fun k => hinv.msgs k, fun m c i hm => hinv.may m c i hm, ?_, fun m' hc => by simp at hc⟩
              intro m' hc
              have hm' : m' = decVal ((bs.drop 5).dropLast) := by
                have : some (CleanReq.todo (decVal ((bs.drop 5).dropLast))) = some (CleanReq.todo m') := hc
                cases this; rfl
              subst hm'
              show TodoReady cfg (s.msg (decVal ((bs.drop 5).dropLast)))
              refine ⟨sender, rcpts, htodo, hg.1, ?_, hg.2.2.2.2.1⟩
              intro c rs hcr
              cases c
              · have : (s.msg (decVal ((bs.drop 5).dropLast))).loc = some rs := hcr
                have h3 := hg.2.2.1
                rw [this] at h3
                simp [chanReady] at h3; exact h3.1
              · have : (s.msg (decVal ((bs.drop 5).dropLast))).rem = some rs := hcr
                have h3 := hg.2.2.2.1
                rw [this] at h3
                simp [chanReady] at h3; exact h3.1
            · cases hacc
        · split at hacc
          · split at hacc
            · rename_i hg; cases hacc
              refine ⟨fun k => hinv.msgs k, fun m c i hm => hinv.may m c i hm, fun m' hc => by simp at hc, ?_⟩
              intro m' hc
              have hm' : m' = decVal ((bs.drop 5).dropLast) := by
                have : some (CleanReq.foop (decVal ((bs.drop 5).dropLast))) = some (CleanReq.foop m') := hc
                cases this; rfl
              subst hm'
              show (s.msg (decVal ((bs.drop 5).dropLast))).todo = none ∧ (s.msg (decVal ((bs.drop 5).dropLast))).info = none
              exact ⟨by simpa using hg.1, by simpa using hg.2.1⟩
            · cases hacc
          · cases hacc

/-! ### the crash exemption list grows only by a crash-damage event -/

@[simp] theorem lostRecs_setChan (ms : MsgSt) (c : Ch) (v : Option (List Rec)) : (ms.setChan c v).lostRecs = ms.lostRecs :=
  (setChan_rest2 ms c v).2.1
@[simp] theorem lostRecs_setChanSynced (ms : MsgSt) (c : Ch) (v : Bool) : (ms.setChanSynced c v).lostRecs = ms.lostRecs := by
  cases c <;> rfl

theorem lost_tab (s s1 : St) (m' : Nat) (v : MsgSt) (htab : s1.tab = tabSet s.tab m' v) (hf : ∀ y ∈ v.lostRecs, y ∈ (s.msg m').lostRecs)
    (m : Nat) (x : Ch × Nat) (hx : x ∈ (s1.msg m).lostRecs) : x ∈ (s.msg m).lostRecs := by
  simp only [St.msg, htab, tabGet_set] at hx
  split at hx
  · rename_i he; subst he; exact hf x hx
  · exact hx

theorem handleReport_lost (cfg : Cfg) (s : St) (c : Ch) (rep : Bytes) (m : Nat) :
    ((handleReport cfg s c rep).msg m).lostRecs = (s.msg m).lostRecs := by
  simp only [handleReport]
  repeat' split
  all_goals first
    | rfl
    | (simp only [St.msg, St.upd, tabGet_set]; split <;> first | rfl | (subst_vars; rfl))

theorem feedReports_lost (cfg : Cfg) (c : Ch) (m : Nat) : ∀ (bs : Bytes) (s : St),
    ((feedReports cfg s c bs).msg m).lostRecs = (s.msg m).lostRecs
  | [], s => rfl
  | b :: bs, s => by
    have hd : ∀ v, (s.setDline c v).msg m = s.msg m := by intro v; cases c <;> rfl
    simp only [feedReports]
    split
    · rw [feedReports_lost cfg c m bs, handleReport_lost, hd]
    · rw [feedReports_lost cfg c m bs, hd]

theorem lost_frame_core (cfg : Cfg) (s s' : St) (e : Ev) (h : acceptCore cfg s e = some s') (m : Nat) (x : Ch × Nat)
    (hx : x ∈ (s'.msg m).lostRecs) :
    x ∈ (s.msg m).lostRecs ∨
    ∃ content, e = .crashBounce m content ∧ s.crashed = true ∧ x ∈ (s.msg m).inFile ∧
      ((s.msg m).bounce.getD []).isPrefixOf content = false := by
  cases e
  case rbytes c bs =>
    simp only [acceptCore] at h
    split at h
    · cases h
    · cases h; left; rw [feedReports_lost] at hx; exact hx
  case crashBounce m' content =>
    simp only [acceptCore] at h
    split at h
    · rename_i hg; cases h
      rw [St.msg_upd] at hx
      split at hx
      · rename_i he; subst he
        simp only at hx
        rcases List.mem_append.1 hx with h1 | h1
        · right
          cases hp : ((s.msg m).bounce.getD []).isPrefixOf content with
          | true => simp [hp] at h1
          | false =>
            simp only [hp] at h1
            exact ⟨content, rfl, hg.1, by simpa using h1, hp⟩
        · exact Or.inl h1
      · exact Or.inl hx
    · cases h
  all_goals (simp only [acceptCore] at h; repeat' split at h)
  all_goals first
    | (cases h; done)
    | (cases h; left; exact hx)
    | (cases h; left; refine lost_tab s _ _ _ rfl ?_ m x hx; intro y hy; first | (simp at hy; done) | (simp at hy; exact hy))

/-- **A record enters the crash exemption list `lostRecs` only by a crash-damage event**: by `crashBounce` for its message,
accepted in the crash window (`crashed`: after a crash and before anything else but arrivals happened), while its paragraph was
in `bounce/<m>` and the new content does not start with the old one. -/
theorem lost_frame (cfg : Cfg) (s s' : St) (e : Ev) (h : accept cfg s e = some s') (m : Nat) (x : Ch × Nat)
    (hx : x ∈ (s'.msg m).lostRecs) :
    x ∈ (s.msg m).lostRecs ∨
    ∃ content, e = .crashBounce m content ∧ s.crashed = true ∧ x ∈ (s.msg m).inFile ∧
      ((s.msg m).bounce.getD []).isPrefixOf content = false := by
  rcases lost_frame_core cfg (s.before e) s' e h m x hx with h1 | ⟨content, he, hc, hi, hp⟩
  · left; rw [St.before_msg] at h1; exact h1
  · right
    subst he
    exact ⟨content, rfl, hc, hi, hp⟩

/-- on a whole trace: a record in `lostRecs` at the end was there at the start, or the trace contains a `crashBounce` for its
message that was accepted with the mode flag set -/
theorem lost_trace (cfg : Cfg) (m : Nat) (x : Ch × Nat) : ∀ (evs : List Ev) (s0 s : St), acceptAll cfg s0 evs = some s →
    x ∈ (s.msg m).lostRecs →
    x ∈ (s0.msg m).lostRecs ∨
    ∃ pre content post s1, evs = pre ++ Ev.crashBounce m content :: post ∧ acceptAll cfg s0 pre = some s1 ∧ s1.crashed = true
  | [], s0, s, h, hx => by simp only [acceptAll] at h; cases h; exact Or.inl hx
  | e :: es, s0, s, h, hx => by
    simp only [acceptAll] at h
    cases h1 : accept cfg s0 e with
    | none => simp [h1] at h
    | some s1 =>
      simp only [h1] at h
      rcases lost_trace cfg m x es s1 s h hx with h2 | ⟨pre, content, post, s2, he, hp, hc⟩
      · rcases lost_frame cfg s0 s1 e h1 m x h2 with h3 | ⟨content, he, hc, _, _⟩
        · exact Or.inl h3
        · exact Or.inr ⟨[], content, es, s0, by simp [he], rfl, hc⟩
      · exact Or.inr ⟨e :: pre, content, post, s2, by simp [he], by simp only [acceptAll, h1]; exact hp, hc⟩

/-- the invariant does not speak about the crash mode -/
theorem inv_before (cfg : Cfg) (s : St) (e : Ev) (h : Inv cfg s) : Inv cfg (s.before e) :=
  inv_volatile cfg s _ h (St.before_tab s e) (fun x hx => by rw [St.before_mayMark] at hx; exact hx) (St.before_clean s e)

theorem inv_calm (cfg : Cfg) (s : St) (h : Inv cfg s) : Inv cfg s.calm :=
  inv_volatile cfg s _ h rfl (fun _ hx => hx) rfl

theorem step_inv (cfg : Cfg) (s s' : St) (e : Ev) (hinv : Inv cfg s) (hacc : accept cfg s e = some s') : Inv cfg s' :=
  step_inv_core cfg (s.before e) s' e (inv_before cfg s e hinv) hacc

end Nq.Lemmas.DI
