import Nq.Lemmas.Pop3Walk1
namespace Nq.Lemmas.Pop3
open Nq Nq.Pop3 Nq.Pop3Ref Nq.Lemmas.Pop3Fmt

/-! ### the relation between the model's session state and the reference's -/

/-- message by message, from number `k + 1` on: same path, the announced size is the length of the
reference's data, marked in the model iff the 0-based number is in the reference's `marked` -/
def Rel (marked : List Nat) : Nat → List Msg → List RMsg → Prop
  | _, [], [] => True
  | k, m :: ms, r :: rs => r.path = m.fn ∧ m.size = r.data.length ∧ (m.del = true ↔ k ∈ marked) ∧ Rel marked (k + 1) ms rs
  | _, _, _ => False

theorem Rel.length {marked : List Nat} : ∀ {k : Nat} {ms : List Msg} {rs : List RMsg}, Rel marked k ms rs → rs.length = ms.length := by
  intro k ms
  induction ms generalizing k with
  | nil => intro rs h; cases rs with
    | nil => rfl
    | cons r rs => exact absurd h (by simp [Rel])
  | cons m ms ih => intro rs h; cases rs with
    | nil => exact absurd h (by simp [Rel])
    | cons r rs => simp only [Rel] at h; simp [ih h.2.2.2]

theorem Rel.get {marked : List Nat} : ∀ {k : Nat} {ms : List Msg} {rs : List RMsg}, Rel marked k ms rs →
    ∀ i m, ms[i]? = some m → ∃ r, rs[i]? = some r ∧ r.path = m.fn ∧ m.size = r.data.length ∧ (m.del = true ↔ k + i ∈ marked) := by
  intro k ms
  induction ms generalizing k with
  | nil => intro rs _ i m hm; simp at hm
  | cons x ms ih =>
    intro rs h i m hm
    cases rs with
    | nil => exact absurd h (by simp [Rel])
    | cons r rs =>
      simp only [Rel] at h
      cases i with
      | zero =>
        simp only [List.getElem?_cons_zero, Option.some.injEq] at hm
        subst hm
        exact ⟨r, by simp, h.1, h.2.1, by simpa using h.2.2.1⟩
      | succ i =>
        simp only [List.getElem?_cons_succ] at hm
        obtain ⟨r', h1, h2⟩ := ih h.2.2.2 i m hm
        refine ⟨r', by simpa using h1, h2.1, h2.2.1, ?_⟩
        have : k + (i + 1) = k + 1 + i := by omega
        rw [this]; exact h2.2.2

theorem Rel.setDel {marked : List Nat} : ∀ {k : Nat} {ms : List Msg} {rs : List RMsg}, Rel marked k ms rs →
    ∀ i, i < ms.length → Rel ((k + i) :: marked) k (setDel ms i) rs := by
  intro k ms
  induction ms generalizing k with
  | nil => intro rs _ i hi; simp at hi
  | cons x ms ih =>
    intro rs h i hi
    cases rs with
    | nil => exact absurd h (by simp [Rel])
    | cons r rs =>
      simp only [Rel] at h
      have weaken : ∀ (j : Nat) (ms' : List Msg) (rs' : List RMsg) (n : Nat), n < j → Rel marked j ms' rs' → Rel (n :: marked) j ms' rs' := by
        intro j ms'
        induction ms' generalizing j with
        | nil => intro rs' n _ h'; cases rs' with
          | nil => trivial
          | cons _ _ => exact absurd h' (by simp [Rel])
        | cons y ms' ih' => intro rs' n hn h'; cases rs' with
          | nil => exact absurd h' (by simp [Rel])
          | cons r' rs' =>
            simp only [Rel] at h' ⊢
            refine ⟨h'.1, h'.2.1, ?_, ih' (j + 1) rs' n (by omega) h'.2.2.2⟩
            rw [h'.2.2.1]; simp only [List.mem_cons]
            constructor
            · intro hh; right; exact hh
            · rintro (hh | hh)
              · omega
              · exact hh
      cases i with
      | zero =>
        simp only [Pop3.setDel, Rel, Nat.add_zero]
        exact ⟨h.1, h.2.1, by simp, weaken (k + 1) ms rs k (by omega) h.2.2.2⟩
      | succ i =>
        simp only [Pop3.setDel, Rel]
        refine ⟨h.1, h.2.1, ?_, ?_⟩
        · rw [h.2.2.1]; simp only [List.mem_cons]
          constructor
          · intro hh; right; exact hh
          · rintro (hh | hh)
            · omega
            · exact hh
        · have := ih h.2.2.2 i (by simpa using hi)
          have e : k + 1 + i = k + (i + 1) := by omega
          rw [e] at this; exact this

theorem Rel.unmark {marked : List Nat} : ∀ {k : Nat} {ms : List Msg} {rs : List RMsg}, Rel marked k ms rs →
    Rel [] k (ms.map (fun m => { m with del := false })) rs := by
  intro k ms
  induction ms generalizing k with
  | nil => intro rs h; cases rs with
    | nil => trivial
    | cons _ _ => exact absurd h (by simp [Rel])
  | cons x ms ih => intro rs h; cases rs with
    | nil => exact absurd h (by simp [Rel])
    | cons r rs =>
      simp only [Rel] at h
      simp only [List.map_cons, Rel]
      exact ⟨h.1, h.2.1, by simp, ih h.2.2.2⟩

/-- the static and dynamic facts that tie a model state to a reference state -/
structure Sim (s : Sess) (rs : RSt) : Prop where
  rel : Rel rs.marked 0 s.msgs rs.msgs
  modz : rs.modulus = 0
  last : LastInv s
  small : s.msgs.length ≤ INT_MAX
  inrange : ∀ i ∈ rs.marked, i < s.msgs.length
  noLF : ∀ r ∈ rs.msgs, LF ∉ r.path
  total : (rs.msgs.map (fun r => r.data.length)).sum < U64 - 1
  file : ∀ r ∈ rs.msgs, (r.path ∈ rs.gone → fsFind s.fs r.path = none) ∧
           (r.path ∉ rs.gone → ∃ f, fsFind s.fs r.path = some f ∧ f.data = r.data)

/-! ### message numbers -/

theorem takeWhile_all_p {α} (p : α → Bool) (l : List α) : (l.takeWhile p).all p = true := by
  induction l with
  | nil => rfl
  | cons c l ih =>
    by_cases h : p c = true
    · simp [List.takeWhile_cons, h]
    · simp [List.takeWhile_cons, h]

theorem number_takeWhile (a : Bytes) :
    number? (a.takeWhile isDigit) = if a.takeWhile isDigit = [] then none else some (decVal (a.takeWhile isDigit)) := by
  unfold number?
  by_cases h : a.takeWhile isDigit = []
  · simp [h]
  · simp [h, takeWhile_all_p]

theorem num_eq (rs : RSt) (hz : rs.modulus = 0) (a : Bytes) :
    rs.num a = if a.takeWhile isDigit = [] then none else some (decVal (a.takeWhile isDigit)) := by
  unfold RSt.num leadNumber
  simp only [number_takeWhile]
  by_cases h : a.takeWhile isDigit = []
  · simp [h]
  · simp [h, hz]

theorem msgNum_eq (rs : RSt) (hz : rs.modulus = 0) (a : Bytes) :
    rs.msgNum a = if a.takeWhile isDigit = [] ∨ endsOk a = false then none else some (decVal (a.takeWhile isDigit)) := by
  unfold RSt.msgNum msgArg endsOk
  cases a.dropWhile isDigit with
  | nil =>
    simp only [number_takeWhile]
    by_cases h : a.takeWhile isDigit = []
    · simp [h]
    · simp [h, hz]
  | cons c t =>
    by_cases hc : c = SP
    · simp only [hc, if_true, number_takeWhile]
      by_cases h : a.takeWhile isDigit = []
      · simp [h]
      · simp [h, hz]
    · simp [hc]

/-- msgno() and the reference's `valid` agree; a refusal is a "-ERR …" line -/
theorem valid_msgno (s : Sess) (rs : RSt) (h : Sim s rs) (arg : Bytes) :
    match msgno s arg with
    | .ok i => rs.valid arg = some i ∧ ∃ m r, s.msgs[i]? = some m ∧ rs.msgs[i]? = some r ∧ m.del = false ∧
                 r.path = m.fn ∧ m.size = r.data.length
    | .err e => rs.valid arg = none ∧ ∃ t, e = errSp ++ t ++ [CR, LF] ∧ LF ∉ t := by
  rw [msgno_eq_spec]
  unfold msgnoSpec RSt.valid
  rw [msgNum_eq rs h.modz]
  simp only
  generalize endsOk arg = eo
  generalize arg.takeWhile isDigit = ds
  have hlen := h.rel.length
  by_cases h0 : ds = [] ∨ eo = false
  · simp only [h0, if_true]
    exact ⟨trivial, str "syntax error", rfl, noLF_syntax⟩
  simp only [h0, if_false]
  by_cases h1 : decVal ds = 0
  · simp only [h1, if_true]
    exact ⟨by simp, str "messages are counted from 1", rfl, noLF_counted⟩
  simp only [h1, if_false]
  by_cases h2 : decVal ds > s.msgs.length ∨ decVal ds > INT_MAX
  · simp only [h2, if_true]
    refine ⟨?_, str "not that many messages", rfl, noLF_notmany⟩
    have : ¬ decVal ds ≤ rs.msgs.length := by
      have := h.small; rw [hlen]; omega
    simp [this]
  simp only [h2, if_false]
  have hi : decVal ds - 1 < s.msgs.length := by omega
  cases hm : s.msgs[decVal ds - 1]? with
  | none => rw [List.getElem?_eq_none_iff] at hm; omega
  | some m =>
    obtain ⟨r, hr, hp, hs, hd⟩ := h.rel.get (decVal ds - 1) m hm
    simp only [Nat.zero_add] at hd
    by_cases hdel : m.del = true
    · simp only [hdel, if_true]
      refine ⟨?_, str "already deleted", rfl, noLF_deleted⟩
      have hmk : decVal ds - 1 ∈ rs.marked := hd.mp hdel
      simp [hmk]
    · simp only [hdel]
      have hnm : decVal ds - 1 ∉ rs.marked := fun hh => hdel (hd.mpr hh)
      refine ⟨?_, m, r, hm, hr, by simpa using hdel, hp, hs⟩
      have c : 1 ≤ decVal ds ∧ decVal ds ≤ rs.msgs.length := by rw [hlen]; omega
      simp [c, hnm]

end Nq.Lemmas.Pop3
