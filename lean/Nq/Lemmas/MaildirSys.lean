/-
  Invariants of `Nq.LocalDeliver.MdSys` (any number of maildir deliveries into one maildir, every interleaving).
-/
import Nq.MaildirSys
import Nq.Lemmas.LocalDeliverMd2

namespace Nq.Lemmas.LD.MdSys
open Nq Nq.LocalDeliver Nq.LocalDeliver.MdSys

/-- what one event of delivery `i` does to the shared state -/
theorem step_proc (c : Cfg) (y y' : Sys) (i : Nat) (e : Md.Ev) (h : step c y (.proc i e) = some y') :
    ∃ s', Md.accept (params c i) (y.st i) e = some s' ∧ y'.st = upd y.st i s' ∧
      ((e = .link true ∧ nameOf c y i ∉ y.new ∧ y'.new = y.new ++ [nameOf c y i] ∧ y'.log = y.log ++ [(i, y.t i)]) ∨
       (e ≠ .link true ∧ y'.new = y.new ∧ y'.log = y.log)) ∧
      ((e = .fork ∧ c.pid i ∉ y.live ∧ y'.live = c.pid i :: y.live) ∨
       (((∃ k, e = .childExit k) ∨ e = .childKilled) ∧ y'.live = y.live.erase (c.pid i)) ∨
       (e ≠ .fork ∧ (∀ k, e ≠ .childExit k) ∧ e ≠ .childKilled ∧ y'.live = y.live)) := by
  unfold step at h
  cases ha : Md.accept (params c i) (y.st i) e with
  | none => simp [ha] at h
  | some s' =>
    simp only [ha] at h
    refine ⟨s', rfl, ?_⟩
    cases e with
    | fork =>
      simp only at h; split at h
      · cases h
      · rename_i hn; cases h; simp [hn]
    | alarm n =>
      simp only at h; split at h
      · cases h; simp
      · cases h
    | sleep n => cases h; simp
    | openExcl ok ex =>
      cases ok with
      | true =>
        simp only at h; split at h
        · cases h
        · cases h; simp
      | false => cases h; simp
    | link ok =>
      cases ok with
      | true =>
        simp only at h; split at h
        · cases h
        · rename_i hn; cases h; simp [hn]
      | false => cases h; simp
    | unlinkTmp ok => cases ok <;> cases h <;> simp
    | childExit k => cases h; simp
    | childKilled => cases h; simp
    | read n => cases h; simp
    | readErr b => cases h; simp
    | write bs => cases h; simp
    | writeErr b => cases h; simp
    | fsync ok => cases h; simp
    | close ok => cases h; simp
    | sigAlarm => cases h; simp
    | parentExit k => cases h; simp

theorem upd_same {α : Type} (f : Nat → α) (i : Nat) (a : α) : upd f i a i = a := by simp [upd]
theorem upd_other {α : Type} (f : Nat → α) (i j : Nat) (a : α) (h : j ≠ i) : upd f i a j = f j := by simp [upd, h]

/-! ### projection: each delivery of the system is a run of `Md.accept` -/

theorem run_proj (c : Cfg) (i : Nat) (tr : List Ev) : ∀ (y y' : Sys), run c y tr = some y' →
    Md.acceptAll (params c i) (y.st i) (proj i tr) = some (y'.st i) := by
  induction tr with
  | nil => intro y y' h; simp [run] at h; subst h; simp [proj, Md.acceptAll]
  | cons e es ih =>
    intro y y' h
    simp only [run] at h
    cases hs : step c y e with
    | none => simp [hs] at h
    | some y1 =>
      simp only [hs] at h
      have h2 := ih y1 y' h
      cases e with
      | tick n => simp [step] at hs; subst hs; simpa [proj] using h2
      | mua nm => simp [step] at hs; subst hs; simpa [proj] using h2
      | proc j ev =>
        obtain ⟨s', hacc, hst, _, _⟩ := step_proc c y y1 j ev hs
        by_cases hj : j = i
        · subst hj
          simp only [proj, if_true, Md.acceptAll, hacc]
          rw [hst, upd_same] at h2
          exact h2
        · simp only [proj, hj, if_false]
          rw [hst, upd_other _ _ _ _ (fun x => hj x.symm)] at h2
          exact h2

/-! ### new/ never holds a name twice; without a reader every linked name is distinct -/

theorem step_new_nodup (c : Cfg) (y y' : Sys) (e : Ev) (h : step c y e = some y') (hn : y.new.Nodup) : y'.new.Nodup := by
  cases e with
  | tick n => simp [step] at h; subst h; exact hn
  | mua nm => simp [step] at h; subst h; exact hn.filter _
  | proc i ev =>
    obtain ⟨s', _, _, hnew, _⟩ := step_proc c y y' i ev h
    rcases hnew with ⟨_, hnin, hnew, _⟩ | ⟨_, hnew, _⟩
    · rw [hnew]
      apply List.nodup_append.mpr
      refine ⟨hn, by simp, ?_⟩
      intro a ha b hb
      simp at hb; subst hb
      intro hab; subst hab; exact hnin ha
    · rw [hnew]; exact hn

theorem run_new_nodup (c : Cfg) (tr : List Ev) : ∀ (y y' : Sys), run c y tr = some y' → y.new.Nodup → y'.new.Nodup := by
  induction tr with
  | nil => intro y y' h hn; simp [run] at h; subst h; exact hn
  | cons e es ih =>
    intro y y' h hn
    simp only [run] at h
    cases hs : step c y e with
    | none => simp [hs] at h
    | some y1 =>
      simp only [hs] at h
      exact ih y1 y' h (step_new_nodup c y y1 e hs hn)

/-- without a reader taking messages away: new/ = what was there ++ the linked names, in link order -/
theorem run_new_log (c : Cfg) (tr : List Ev) : ∀ (y y' : Sys), run c y tr = some y' → (∀ e ∈ tr, isMua e = false) →
    ∀ (new0 : List Bytes), y.new = new0 ++ y.log.map (logName c) → y'.new = new0 ++ y'.log.map (logName c) := by
  induction tr with
  | nil => intro y y' h _ new0 h0; simp [run] at h; subst h; exact h0
  | cons e es ih =>
    intro y y' h hm new0 h0
    simp only [run] at h
    cases hs : step c y e with
    | none => simp [hs] at h
    | some y1 =>
      simp only [hs] at h
      refine ih y1 y' h (fun x hx => hm x (List.mem_cons_of_mem _ hx)) new0 ?_
      cases e with
      | tick n => simp [step] at hs; subst hs; exact h0
      | mua nm => have := hm (.mua nm) (by simp); simp [isMua] at this
      | proc i ev =>
        obtain ⟨s', _, _, hnew, _⟩ := step_proc c y y1 i ev hs
        rcases hnew with ⟨_, _, hnew, hlog⟩ | ⟨_, hnew, hlog⟩
        · rw [hnew, hlog, h0]; simp [logName, nameOf]
        · rw [hnew, hlog]; exact h0

/-! ### live children have pairwise different process ids -/

open Md in
/-- a child comes into existence only by `fork` -/
theorem inChild_from (p : Md.Params) (s s' : Md.St) (e : Md.Ev) (h : Md.accept p s e = some s') (hne : e ≠ .fork)
    (hc : Md.inChild s'.pc = true) : Md.inChild s.pc = true := by
  cases e with
  | fork => exact absurd rfl hne
  | alarm n =>
    simp only [accept] at h; split at h
    · rename_i k hp; split at h <;> cases h; simp [hp, inChild]
    · cases h
  | openExcl ok ex =>
    simp only [accept] at h; split at h
    · rename_i k hp; simp [hp, inChild]
    · cases h
  | sleep n =>
    simp only [accept] at h; split at h
    · rename_i k hp; simp [hp, inChild]
    · cases h
  | read n => simp only [accept] at h; split at h <;> cases h; rename_i hp; simp [hp.1, inChild]
  | readErr b => simp only [accept] at h; split at h <;> cases h; rename_i hp; simp [hp.1, inChild]
  | write bs => simp only [accept] at h; split at h <;> cases h; rename_i hp; simp [hp.1, inChild]
  | writeErr b => simp only [accept] at h; split at h <;> cases h; rename_i hp; simp [hp, inChild]
  | fsync ok => simp only [accept] at h; split at h <;> cases h; rename_i hp; simp [hp.1, inChild]
  | close ok => simp only [accept] at h; split at h <;> cases h; rename_i hp; simp [hp, inChild]
  | link ok => simp only [accept] at h; split at h <;> cases h; rename_i hp; simp [hp, inChild]
  | unlinkTmp ok =>
    simp only [accept] at h; split at h
    · rename_i hp; simp [hp, inChild]
    · rename_i k hp; simp [hp, inChild]
    · cases h
  | sigAlarm =>
    simp only [accept] at h; split at h
    · rename_i hp; cases h
      cases hpc : s.pc <;> simp [hpc, armed, inChild] at hp ⊢
    · cases h
  | childExit k =>
    simp only [accept] at h; split at h
    · rename_i k hp; simp [hp, inChild]
    · rename_i hp; simp [hp, inChild]
    · cases h
  | childKilled => simp only [accept] at h; split at h <;> cases h; assumption
  | parentExit k =>
    simp only [accept] at h; split at h
    · split at h <;> cases h; simp [inChild] at hc
    · split at h <;> cases h; simp [inChild] at hc
    · split at h <;> cases h; simp [inChild] at hc
    · cases h

open Md in
theorem fork_from (p : Md.Params) (s s' : Md.St) (h : Md.accept p s .fork = some s') : Md.inChild s.pc = false := by
  simp only [accept] at h; split at h
  · rename_i hp; simp [hp, inChild]
  · cases h

open Md in
/-- the child is gone after its exit / death, and was there before -/
theorem exit_gone (p : Md.Params) (s s' : Md.St) (e : Md.Ev) (h : Md.accept p s e = some s')
    (he : (∃ k, e = .childExit k) ∨ e = .childKilled) : Md.inChild s'.pc = false ∧ (p.dirOk = true → Md.inChild s.pc = true) := by
  rcases he with ⟨k, rfl⟩ | rfl
  · simp only [accept] at h; split at h
    · rename_i c hp; split at h <;> cases h; simp [hp, inChild]
    · rename_i hp; split at h <;> cases h; simp [hp, inChild]
    · cases h
  · simp only [accept] at h; split at h
    · rename_i hp; cases h; exact ⟨by simp [Md.inChild], fun _ => hp⟩
    · cases h

/-- pids of live children: pairwise different, and recorded in `live` -/
def LiveInv (c : Cfg) (y : Sys) : Prop :=
  (∀ i, Md.inChild (y.st i).pc = true → c.pid i ∈ y.live) ∧
  (∀ i j, i ≠ j → Md.inChild (y.st i).pc = true → Md.inChild (y.st j).pc = true → c.pid i ≠ c.pid j)

theorem live_init (c : Cfg) (y : Sys) (h : ∀ i, Md.inChild (y.st i).pc = false) : LiveInv c y :=
  ⟨fun i hi => by simp [h i] at hi, fun i _ _ hi _ => by simp [h i] at hi⟩

theorem step_live (c : Cfg) (y y' : Sys) (e : Ev) (h : step c y e = some y') (hinv : LiveInv c y) : LiveInv c y' := by
  cases e with
  | tick n => simp [step] at h; subst h; exact hinv
  | mua nm => simp [step] at h; subst h; exact hinv
  | proc i ev =>
    obtain ⟨s', hacc, hst, _, hlive⟩ := step_proc c y y' i ev h
    obtain ⟨hK, hJ⟩ := hinv
    have hsi : y'.st i = s' := by rw [hst, upd_same]
    have hsj : ∀ j, j ≠ i → y'.st j = y.st j := fun j hj => by rw [hst, upd_other _ _ _ _ hj]
    rcases hlive with ⟨hf, hnin, hl⟩ | ⟨hx, hl⟩ | ⟨hnf, hnx, hnk, hl⟩
    · -- fork
      subst hf
      refine ⟨?_, ?_⟩
      · intro j hj
        by_cases hji : j = i
        · subst hji; rw [hl]; simp
        · rw [hsj j hji] at hj; rw [hl]; exact List.mem_cons_of_mem _ (hK j hj)
      · intro a b hab ha hb
        by_cases hai : a = i
        · subst hai
          have hbi : b ≠ a := fun x => hab x.symm
          rw [hsj b hbi] at hb
          intro hp; exact hnin (hp ▸ hK b hb)
        · rw [hsj a hai] at ha
          by_cases hbi : b = i
          · subst hbi
            intro hp; exact hnin (hp ▸ hK a ha)
          · rw [hsj b hbi] at hb; exact hJ a b hab ha hb
    · -- the child exits or is killed
      have hg := exit_gone (params c i) (y.st i) s' ev hacc hx
      have hwas : Md.inChild (y.st i).pc = true := hg.2 rfl
      refine ⟨?_, ?_⟩
      · intro j hj
        by_cases hji : j = i
        · subst hji; rw [hsi, hg.1] at hj; cases hj
        · rw [hsj j hji] at hj
          rw [hl]
          exact (List.mem_erase_of_ne (hJ j i hji hj hwas)).mpr (hK j hj)
      · intro a b hab ha hb
        by_cases hai : a = i
        · subst hai; rw [hsi, hg.1] at ha; cases ha
        · by_cases hbi : b = i
          · subst hbi; rw [hsi, hg.1] at hb; cases hb
          · rw [hsj a hai] at ha; rw [hsj b hbi] at hb; exact hJ a b hab ha hb
    · -- anything else: nobody is born, nobody dies
      have hfrom : Md.inChild s'.pc = true → Md.inChild (y.st i).pc = true :=
        fun hc => inChild_from (params c i) (y.st i) s' ev hacc hnf hc
      refine ⟨?_, ?_⟩
      · intro j hj
        rw [hl]
        by_cases hji : j = i
        · subst hji; rw [hsi] at hj; exact hK j (hfrom hj)
        · rw [hsj j hji] at hj; exact hK j hj
      · intro a b hab ha hb
        have ha' : Md.inChild (y.st a).pc = true := by
          by_cases hai : a = i
          · subst hai; rw [hsi] at ha; exact hfrom ha
          · rw [hsj a hai] at ha; exact ha
        have hb' : Md.inChild (y.st b).pc = true := by
          by_cases hbi : b = i
          · subst hbi; rw [hsi] at hb; exact hfrom hb
          · rw [hsj b hbi] at hb; exact hb
        exact hJ a b hab ha' hb'

theorem run_live (c : Cfg) (tr : List Ev) : ∀ (y y' : Sys), run c y tr = some y' → LiveInv c y → LiveInv c y' := by
  induction tr with
  | nil => intro y y' h hn; simp [run] at h; subst h; exact hn
  | cons e es ih =>
    intro y y' h hn
    simp only [run] at h
    cases hs : step c y e with
    | none => simp [hs] at h
    | some y1 =>
      simp only [hs] at h
      exact ih y1 y' h (step_live c y y1 e hs hn)

/-! small numerals, for the concrete examples of the property file -/
theorem fmtDec_5 : fmtDec 5 = [53] := by simp [fmtDec, dig, digits]
theorem fmtDec_7 : fmtDec 7 = [55] := by simp [fmtDec, dig, digits]
theorem fmtDec_8 : fmtDec 8 = [56] := by simp [fmtDec, dig, digits]

end Nq.Lemmas.LD.MdSys
