/- Lemmas for C09 (session 4): `smtp()` with the buffered `blast()` (`Nq.RemoteBuf.runB`) against the
   unbuffered model `Nq.RemoteSmtp.run` run with the *computed* label of the failing write. -/
import Nq.Lemmas.RemoteBuf
import Nq.Lemmas.RemoteWire

namespace Nq.Lemmas.RemoteBuf
open Nq Nq.Substdio Nq.SmtpOut Nq.SmtpIO Nq.RemoteSmtp Nq.RemoteBuf Nq.Spec.RemoteVerdict Nq.Lemmas.RemoteSmtp
open Nq.RspawnReport Nq.Lemmas

/-- same reports; same wire where the unbuffered model knows it; where it leaves the wire open (`wireOpen`: the
    run stopped inside `blast()`) the unbuffered wire is exactly the commands, the verdict is not `K`, and the buffered
    model adds a prefix of the encoded message -/
def RelB (a : Args) (wb : WB) (r : Res) (rb : ResB) : Prop :=
  rb.rcpt = r.rcpt ∧ rb.msg = r.msg ∧ rb.quit = r.quit ∧
  (r.wireOpen = false → rb.wire = r.wire) ∧
  (r.wireOpen = true → r.wire = fullCmds a ∧ headB r.msg ≠ cK ∧
    ∃ x, rb.wire = r.wire ++ x ∧ x <+: rfull .top a.msg) ∧
  (∀ t, rb.tried = some t → ∃ o crit, bblast wb.ws a.msg a.msgErr = .dropped o crit t ∧
    rb.wire = fullCmds a ++ o.out ∧ rb.msg = droppedRep a.host crit)

theorem rel_lost (a : Args) (wb : WB) (rs : List Bytes) (w : Bytes) (c : Bool) :
    RelB a wb (lost a rs w c) (ofRes (lost a rs w c)) :=
  ⟨rfl, rfl, rfl, fun _ => rfl, fun h => by simp [lost] at h, fun t h => by simp [ofRes] at h⟩

theorem rel_quit (a : Args) (wb : WB) (wf cw : Option WPoint) (h : wf = some .quit ↔ cw = some .quit) (rs : List Bytes)
    (w pre app txt : Bytes) : RelB a wb (quitWith a wf rs w pre app txt) (ofRes (quitWith a cw rs w pre app txt)) := by
  refine ⟨rfl, rfl, rfl, fun _ => ?_, fun h => by simp [quitWith] at h, fun t h => by simp [ofRes] at h⟩
  simp only [quitWith, ofRes]
  by_cases hq : wf = some .quit
  · rw [if_pos hq, if_pos (h.mp hq)]
  · rw [if_neg hq, if_neg (fun e => hq (h.mpr e))]

theorem rbody_prefix_rfull (st : RSt) (m : Bytes) : rbody st m <+: rfull st m := by
  unfold rbody rfull
  apply (List.prefix_append_right_inj _).mpr
  cases rstate st m <;> simp [rfinish]

/-- how the script of the unbuffered model (`wf`) and the buffered one (`wb`) correspond -/
structure WfRel (a : Args) (wf : Option WPoint) (wb : WB) : Prop where
  helo : wf = some .helo ↔ wb.cmdWf = some .helo
  mail : wf = some .mail ↔ wb.cmdWf = some .mail
  rcpt : ∀ i, wf = some (.rcpt i) ↔ wb.cmdWf = some (.rcpt i)
  data : wf = some .data ↔ wb.cmdWf = some .data
  quit : wf = some .quit ↔ wb.cmdWf = some .quit
  body : wf = some .body ↔ blastLabel (bblast wb.ws a.msg a.msgErr) = some .body
  final : wf = some .final ↔ blastLabel (bblast wb.ws a.msg a.msgErr) = some .final

theorem data_rel (a : Args) (wf : Option WPoint) (wb : WB) (hrel : WfRel a wf wb)
    (rs : List Bytes) (w : Bytes) (bother : Bool) (txt : Bytes) (fs : List Bytes)
    (hw : w = cmdsUpTo a a.rcpts.length) :
    RelB a wb (dataPhase a wf rs w bother txt fs) (dataPhaseB a wb rs w bother txt fs) := by
  have hw1 : w ++ lit "DATA\r\n" = fullCmds a := by rw [hw]; exact cmdsUpTo_all a
  unfold dataPhase dataPhaseB
  cases bother with
  | false => simp only [if_true]; exact rel_quit a wb _ _ hrel.quit _ _ _ _ _
  | true =>
    simp only [Bool.true_eq_false, if_false]
    by_cases hwd : wf = some .data
    · have hwd' := hrel.data.mp hwd
      simp only [hwd, hwd', if_true]; exact rel_lost a wb _ _ _
    · have hwd' : ¬ wb.cmdWf = some .data := fun e => hwd (hrel.data.mpr e)
      simp only [hwd, hwd', if_false]
      cases fs with
      | nil => exact rel_lost a wb _ _ _
      | cons d fs =>
        simp only
        by_cases h5 : codeNat d ≥ 500
        · simp only [h5, if_true]; exact rel_quit a wb _ _ hrel.quit _ _ _ _ _
        · simp only [h5, if_false]
          by_cases h4 : codeNat d ≥ 400
          · simp only [h4, if_true]; exact rel_quit a wb _ _ hrel.quit _ _ _ _ _
          · simp only [h4, if_false]
            have hsp := bblast_spec wb.ws a.msg a.msgErr
            have hbody := hrel.body
            have hfinal := hrel.final
            generalize hR : bblast wb.ws a.msg a.msgErr = R at hsp hbody hfinal ⊢
            cases R with
            | dropped o crit t =>
              cases crit with
              | false =>
                have hwb : wf = some .body := hbody.mpr rfl
                obtain ⟨_, _, _, rest, _, h6⟩ := hsp
                simp only [hwb, if_true]
                refine ⟨rfl, rfl, rfl, fun h => by simp [lost] at h, fun _ => ⟨hw1, ?_, o.out, rfl, ?_⟩,
                  fun t' ht' => ⟨o, false, by simp only [Option.some.injEq] at ht'; rw [← ht']; exact hR, by rw [hw1], rfl⟩⟩
                · simp only [lost, headB_dropped]; decide
                · have h7 : o.out <+: rbody .top a.msg := ⟨t ++ rest, by simpa using h6⟩
                  exact h7.trans (rbody_prefix_rfull _ _)
              | true =>
                have hwf : wf = some .final := hfinal.mpr rfl
                obtain ⟨_, _, _, he, hr, h6⟩ := hsp
                have hnb : ¬ (some WPoint.final = some WPoint.body) := by decide
                have hbl : rblast a.msg = some (rbody .top a.msg ++ [DOT, CR, LF]) := hr
                simp only [hwf, hnb, if_false, he, Bool.false_eq_true, hbl, if_true]
                refine ⟨rfl, rfl, rfl, fun h => by simp [lost] at h, fun _ => ⟨hw1, ?_, o.out, rfl, ?_⟩,
                  fun t' ht' => ⟨o, true, by simp only [Option.some.injEq] at ht'; rw [← ht']; exact hR, by rw [hw1], rfl⟩⟩
                · simp only [lost, headB_dropped]; decide
                · rw [rfull_of_some _ _ _ hr]
                  rcases h6 with h6 | h6
                  · exact ⟨t ++ [DOT, CR, LF], by rw [← List.append_assoc, h6]; simp⟩
                  · exact ⟨t, by rw [h6]; simp⟩
            | tempRead o =>
              have hnb : ¬ wf = some .body := fun e => by have := hbody.mp e; simp [blastLabel] at this
              obtain ⟨he, h6⟩ := hsp
              simp only [hnb, if_false, he, if_true]
              refine ⟨rfl, rfl, rfl, fun h => by simp at h, fun _ => ⟨hw1, (by show headB _ ≠ cK; simp only; decide), o.out, rfl, ?_⟩,
                fun t' ht' => by simp at ht'⟩
              have h7 : o.out <+: rpart .top a.msg := ⟨o.buf, by simpa using h6⟩
              exact h7.trans (by unfold rfull; exact List.prefix_append _ _)
            | partialLine o =>
              have hnb : ¬ wf = some .body := fun e => by have := hbody.mp e; simp [blastLabel] at this
              obtain ⟨he, hr, h6⟩ := hsp
              have hbl : rblast a.msg = none := hr
              simp only [hnb, if_false, he, Bool.false_eq_true, hbl]
              refine ⟨rfl, rfl, rfl, fun h => by simp at h, fun _ => ⟨hw1, (by show headB _ ≠ cK; simp only; decide), o.out, rfl, ?_⟩,
                fun t' ht' => by simp at ht'⟩
              have h7 : o.out <+: rpart .top a.msg := ⟨o.buf, by simpa using h6⟩
              exact h7.trans (by unfold rfull; exact List.prefix_append _ _)
            | sent o =>
              have hnb : ¬ wf = some .body := fun e => by have := hbody.mp e; simp [blastLabel] at this
              have hnf : ¬ wf = some .final := fun e => by have := hfinal.mp e; simp [blastLabel] at this
              obtain ⟨he, hr, h6, _⟩ := hsp
              have hbl : rblast a.msg = some (rbody .top a.msg ++ [DOT, CR, LF]) := hr
              have hout : o.out = rbody .top a.msg ++ [DOT, CR, LF] := by simpa using h6
              simp only [hnb, hnf, if_false, he, Bool.false_eq_true, hbl, hout]
              cases fs with
              | nil => exact rel_lost a wb _ _ _
              | cons f fs =>
                simp only
                by_cases g5 : codeNat f ≥ 500
                · simp only [g5, if_true]; exact rel_quit a wb _ _ hrel.quit _ _ _ _ _
                · simp only [g5, if_false]
                  by_cases g4 : codeNat f ≥ 400
                  · simp only [g4, if_true]; exact rel_quit a wb _ _ hrel.quit _ _ _ _ _
                  · simp only [g4, if_false]; exact rel_quit a wb _ _ hrel.quit _ _ _ _ _

theorem rcpt_rel (a : Args) (wf : Option WPoint) (wb : WB) (hrel : WfRel a wf wb) (more : List Bytes) :
    ∀ (done : List Bytes) (rs : List Bytes) (w : Bytes) (bother : Bool) (txt : Bytes) (fs : List Bytes),
    a.rcpts = done ++ more → w = cmdsUpTo a done.length →
    RelB a wb (rcptLoop a wf done.length more rs w bother txt fs) (rcptLoopB a wb done.length more rs w bother txt fs) := by
  induction more with
  | nil =>
    intro done rs w bother txt fs hsplit hw
    simp only [rcptLoop, rcptLoopB]
    have hd : done.length = a.rcpts.length := by rw [hsplit]; simp
    exact data_rel a wf wb hrel rs w bother txt fs (by rw [hw, hd])
  | cons r more ih =>
    intro done rs w bother txt fs hsplit hw
    simp only [rcptLoop, rcptLoopB]
    have hw1 : w ++ (lit "RCPT TO:<" ++ r ++ lit ">\r\n") = cmdsUpTo a (done.length + 1) := by
      rw [hw]; exact (cmdsUpTo_succ a done more r hsplit).symm
    have hsplit' : a.rcpts = (done ++ [r]) ++ more := by rw [hsplit]; simp
    have hdl : (done ++ [r]).length = done.length + 1 := by simp
    by_cases hwr : wf = some (.rcpt done.length)
    · have hwr' := (hrel.rcpt _).mp hwr
      simp only [hwr, hwr', if_true]; exact rel_lost a wb _ _ _
    · have hwr' : ¬ wb.cmdWf = some (.rcpt done.length) := fun e => hwr ((hrel.rcpt _).mpr e)
      simp only [hwr, hwr', if_false]
      cases fs with
      | nil => exact rel_lost a wb _ _ _
      | cons p fs =>
        simp only
        by_cases h5 : codeNat p ≥ 500
        · simp only [h5, if_true]
          have := ih (done ++ [r]) (rs ++ [[104] ++ a.host ++ notLike ++ said (textOf p)]) (w ++ (lit "RCPT TO:<" ++ r ++ lit ">\r\n")) bother [] fs hsplit' (by rw [hdl]; exact hw1)
          rw [hdl] at this; exact this
        · simp only [h5, if_false]
          by_cases h4 : codeNat p ≥ 400
          · simp only [h4, if_true]
            have := ih (done ++ [r]) (rs ++ [[115] ++ a.host ++ notLike ++ said (textOf p)]) (w ++ (lit "RCPT TO:<" ++ r ++ lit ">\r\n")) bother [] fs hsplit' (by rw [hdl]; exact hw1)
            rw [hdl] at this; exact this
          · simp only [h4, if_false]
            have := ih (done ++ [r]) (rs ++ [[114]]) (w ++ (lit "RCPT TO:<" ++ r ++ lit ">\r\n")) true (textOf p) fs hsplit' (by rw [hdl]; exact hw1)
            rw [hdl] at this; exact this

theorem run_rel (a : Args) (wf : Option WPoint) (wb : WB) (hrel : WfRel a wf wb) (fs : List Bytes) :
    RelB a wb (run a wf fs) (runB a wb fs) := by
  have hc0 : cmdsUpTo a 0 = lit "HELO " ++ a.helo ++ lit "\r\n" ++ (lit "MAIL FROM:<" ++ a.sender ++ lit ">\r\n") := by
    simp [cmdsUpTo]
  unfold run runB
  cases fs with
  | nil => exact rel_lost a wb _ _ _
  | cons g fs =>
    simp only
    by_cases hg : codeNat g ≠ 220
    · simp only [hg, if_true, ne_eq, not_false_eq_true]; exact rel_quit a wb _ _ hrel.quit _ _ _ _ _
    · simp only [hg, if_false, ne_eq]
      by_cases hw : wf = some .helo
      · have hw' := hrel.helo.mp hw
        simp only [hw, hw', if_true]; exact rel_lost a wb _ _ _
      · have hw' : ¬ wb.cmdWf = some .helo := fun e => hw (hrel.helo.mpr e)
        simp only [hw, hw', if_false]
        cases fs with
        | nil => exact rel_lost a wb _ _ _
        | cons h fs =>
          simp only
          by_cases hh2 : codeNat h ≠ 250
          · simp only [hh2, if_true, not_false_eq_true]; exact rel_quit a wb _ _ hrel.quit _ _ _ _ _
          · simp only [hh2, if_false]
            by_cases hwm : wf = some .mail
            · have hwm' := hrel.mail.mp hwm
              simp only [hwm, hwm', if_true]; exact rel_lost a wb _ _ _
            · have hwm' : ¬ wb.cmdWf = some .mail := fun e => hwm (hrel.mail.mpr e)
              simp only [hwm, hwm', if_false]
              cases fs with
              | nil => exact rel_lost a wb _ _ _
              | cons m fs =>
                simp only
                by_cases h5 : codeNat m ≥ 500
                · simp only [h5, if_true]; exact rel_quit a wb _ _ hrel.quit _ _ _ _ _
                · simp only [h5, if_false]
                  by_cases h4 : codeNat m ≥ 400
                  · simp only [h4, if_true]; exact rel_quit a wb _ _ hrel.quit _ _ _ _ _
                  · simp only [h4, if_false]
                    exact rcpt_rel a wf wb hrel a.rcpts [] [] _ false _ fs (by simp) hc0.symm

/-- the computed script corresponds -/
theorem effWf_rel (a : Args) (wb : WB) : WfRel a (effWf a wb) wb := by
  cases wb with
  | cmd w =>
    have hn : blastLabel (bblast [] a.msg a.msgErr) = none := bblast_nofail [] a.msg a.msgErr (by simp)
    have hb : ¬ (WB.cmd w).cmdWf = some .body := by
      cases w with
      | none => simp [WB.cmdWf]
      | some p => cases p <;> simp [WB.cmdWf]
    have hf : ¬ (WB.cmd w).cmdWf = some .final := by
      cases w with
      | none => simp [WB.cmdWf]
      | some p => cases p <;> simp [WB.cmdWf]
    refine ⟨Iff.rfl, Iff.rfl, fun _ => Iff.rfl, Iff.rfl, Iff.rfl, ?_, ?_⟩
    · simp only [effWf, WB.ws, hn]; exact ⟨fun e => absurd e hb, fun e => by simp at e⟩
    · simp only [effWf, WB.ws, hn]; exact ⟨fun e => absurd e hf, fun e => by simp at e⟩
  | blast ws =>
    have hl : ∀ p, blastLabel (bblast ws a.msg a.msgErr) = some p → p = .body ∨ p = .final := by
      intro p
      generalize bblast ws a.msg a.msgErr = R
      cases R with
      | dropped o crit t => cases crit <;> simp [blastLabel] <;> intro e <;> simp [← e]
      | _ => simp [blastLabel]
    have hx : ∀ p, p ≠ .body → p ≠ .final → (effWf a (.blast ws) = some p ↔ (WB.blast ws).cmdWf = some p) := by
      intro p h1 h2
      simp only [effWf, WB.cmdWf]
      constructor
      · intro e; rcases hl p e with e' | e'
        · exact absurd e' h1
        · exact absurd e' h2
      · intro e; simp at e
    refine ⟨hx _ (by simp) (by simp), hx _ (by simp) (by simp), fun i => hx _ (by simp) (by simp),
      hx _ (by simp) (by simp), hx _ (by simp) (by simp), Iff.rfl, Iff.rfl⟩

/-- **the buffered `smtp()` = the unbuffered one with the computed label** -/
theorem smtpRunB_rel (a : Args) (sb : ScriptB) : RelB a sb.wb (smtpRun a (toScript a sb)) (smtpRunB a sb) :=
  run_rel a (effWf a sb.wb) sb.wb (effWf_rel a sb.wb) _

/-- the result as a `Res` with an exact wire -/
def toRes (rb : ResB) : Res := { rcpt := rb.rcpt, msg := rb.msg, wire := rb.wire, quit := rb.quit }

theorem wireOK_B (a : Args) (sb : ScriptB) :
    WireOK a (effWf a sb.wb) (fullCmds a ++ rfull .top a.msg) (toRes (smtpRunB a sb)) := by
  have hr := smtpRunB_rel a sb
  have hw := run_wire a (effWf a sb.wb) (rfull .top a.msg) (fun e he => (rfull_of_some _ _ _ he).symm)
    (frames .d1 [] sb.stream)
  change WireOK a _ _ (smtpRun a (toScript a sb)) at hw
  generalize smtpRun a (toScript a sb) = r at hr hw
  generalize smtpRunB a sb = rb at hr
  obtain ⟨r1, r2, r3, r4, r5, _⟩ := hr
  obtain ⟨w, q, h1, h2, h3, h4⟩ := hw
  cases ho : r.wireOpen with
  | false =>
    refine ⟨w, q, ?_, h2, ?_, ?_⟩
    · simp only [toRes]; rw [r4 ho]; exact h1
    · simp only [toRes]; rw [r1]; exact h3
    · simp only [toRes]; rw [r2]; exact h4
  | true =>
    obtain ⟨o1, o2, x, o3, o4⟩ := r5 ho
    refine ⟨rb.wire, false, by simp [toRes], ?_, ?_, ?_⟩
    · rw [o3, o1]; exact (List.prefix_append_right_inj _).mpr o4
    · simp only [toRes]; rw [r1]
      refine h3.imp id (fun h => ?_)
      have hwp : w <+: r.wire := by rw [h1]; exact List.prefix_append _ _
      exact (h.trans hwp).trans (by rw [o3]; exact List.prefix_append _ _)
    · simp only [toRes]; rw [r2]; intro hk; exact absurd hk o2

end Nq.Lemmas.RemoteBuf
