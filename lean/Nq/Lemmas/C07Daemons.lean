/-
  Shape of the call sequences the three daemon models make on qmail.c, and what they mean to send
  (towards C07_content and the protocol half of C07_cut).
-/
import Nq.Netstring
import Nq.Spec.C07
import Nq.Lemmas.C07Qq

namespace Nq.Netstring
open Nq Nq.QmailC Nq.Received

/-- `put` or `fail` -/
def pf : QOp → Bool
  | .put _ => true
  | .fail => true
  | _ => false

theorem pf_plain {op : QOp} (h : pf op = true) : op.plain = true := by
  cases op <;> simp_all [pf, QOp.plain]

theorem stream_pf : ∀ (ops : List QOp), (∀ op ∈ ops, pf op = true) → stream ops = Qmtp.putBytes ops
  | [], _ => rfl
  | op :: ops, h => by
    have ih := stream_pf ops (fun o ho => h o (by simp [ho]))
    have hop := h op (by simp)
    cases op <;> simp_all [pf, stream, Qmtp.putBytes]

theorem putBytes_append (a b : List QOp) : Qmtp.putBytes (a ++ b) = Qmtp.putBytes a ++ Qmtp.putBytes b := by
  induction a with
  | nil => rfl
  | cons op a ih => cases op <;> simp [Qmtp.putBytes, ih, List.append_assoc]

theorem putBytes_map_put (l : List Bytes) : Qmtp.putBytes (l.map QOp.put) = l.flatten := by
  induction l with
  | nil => rfl
  | cons b l ih => simp [Qmtp.putBytes, ih]

theorem pf_map_put (l : List Bytes) : ∀ op ∈ l.map QOp.put, pf op = true := by
  intro op h; rw [List.mem_map] at h; obtain ⟨b, _, rfl⟩ := h; rfl

theorem safeputPieces_flatten (s : Bytes) : (safeputPieces s).flatten = safeput s := by
  unfold safeputPieces safeput
  induction cstr s with
  | nil => rfl
  | cons c r ih => simp [ih]

theorem receivedPieces_flatten (proto : Bytes) (p : Peer) (helo : Option Bytes) (t : Nat) :
    (receivedPieces proto p helo t).flatten = received proto p helo t := by
  unfold receivedPieces received
  cases helo <;> cases p.info <;> simp [safeputPieces_flatten, List.append_assoc]

theorem ovfOps_pf (bto : Nat) (c : Byte) : ∀ op ∈ ovfOps bto c, pf op = true := by
  intro op h; unfold ovfOps at h; split at h <;> simp at h <;> rcases h with rfl | rfl <;> rfl

theorem ovfOps_bytes (bto : Nat) (c : Byte) : Qmtp.putBytes (ovfOps bto c) = [c] := by
  unfold ovfOps; split <;> simp [Qmtp.putBytes]

/-! ### qmail-smtpd -/
namespace Smtp
open Nq.SmtpIn

theorem ovfList_pf : ∀ (bs : Bytes) (bto : Nat), ∀ op ∈ ovfList bto bs, pf op = true
  | [], _ => by simp [ovfList]
  | c :: r, bto => by
    intro op h
    simp only [ovfList, List.mem_append] at h
    rcases h with h | h
    · exact ovfOps_pf bto c op h
    · exact ovfList_pf r _ op h

theorem ovfList_bytes : ∀ (bs : Bytes) (bto : Nat), Qmtp.putBytes (ovfList bto bs) = bs
  | [], _ => rfl
  | c :: r, bto => by simp [ovfList, putBytes_append, ovfOps_bytes, ovfList_bytes r]

theorem blast_pf : ∀ (inp : Bytes) (s : DSt) (bto : Nat), ∀ op ∈ (blast s bto inp).ops, pf op = true
  | [], _, _ => by simp [blast]
  | c :: inp, s, bto => by
    intro op h
    unfold blast at h
    split at h
    · simp only [List.mem_append] at h
      rcases h with h | h
      · exact ovfList_pf _ _ op h
      · exact blast_pf inp _ _ op h
    · simp at h
    · simp at h

/-- what `blast` stores is what the automaton of C05 (`drun`) accepts, with the same unread remainder -/
theorem blast_stored : ∀ (inp : Bytes) (s : DSt) (bto : Nat) (rest : Bytes),
    (blast s bto inp).fin = .done rest → drun s inp = .accepted (Qmtp.putBytes (blast s bto inp).ops) rest
  | [], _, _, _, h => by simp [blast] at h
  | c :: inp, s, bto, rest, h => by
    unfold blast at h ⊢
    unfold drun
    split at h
    · rename_i bs hd
      simp only [hd]
      have ih := blast_stored inp (dstep s c).1 (decN bto bs.length) rest (by simpa using h)
      rw [ih]
      simp [emit, putBytes_append, ovfList_bytes]
    · rename_i hd
      simp only [hd]
      simp at h
      simp [Qmtp.putBytes, h]
    · simp at h

theorem putBytes_ite_fail (c : Prop) [Decidable c] : Qmtp.putBytes (if c then [QOp.fail] else []) = [] := by
  split <;> rfl

/-- shape of smtp_data()'s calls when DATA was terminated -/
theorem data_shape (cfg : Cfg) (helo : Option Bytes) (mailfrom rcptto inp : Bytes)
    (h : (data cfg helo mailfrom rcptto inp).stop = none) :
    ∃ mops, (∀ op ∈ mops, pf op = true) ∧
      (data cfg helo mailfrom rcptto inp).ops = mops ++ [.from_ mailfrom] ++ [.put rcptto] ++ [.close] ∧
      Qmtp.putBytes mops = received pSMTP cfg.peer (fakehelo cfg.peer helo) cfg.now ++ (data cfg helo mailfrom rcptto inp).stored ∧
      dblast inp = .accepted (data cfg helo mailfrom rcptto inp).stored (data cfg helo mailfrom rcptto inp).rest := by
  unfold data at h ⊢
  simp only at h ⊢
  split at h
  · simp at h
  · simp at h
  · rename_i rest hfin
    simp only [hfin]
    refine ⟨(receivedPieces pSMTP cfg.peer (fakehelo cfg.peer helo) cfg.now).map QOp.put ++
        (blast .s1 (if cfg.databytes = 0 then 0 else cfg.databytes + 1) inp).ops ++
        (if hopsOf (inp.take (inp.length - rest.length)) ≥ Nq.Gen.MAXHOPS then [QOp.fail] else []), ?_, ?_, ?_, ?_⟩
    · intro op hop
      simp only [List.mem_append] at hop
      rcases hop with (hop | hop) | hop
      · exact pf_map_put _ op hop
      · exact blast_pf _ _ _ op hop
      · split at hop <;> simp at hop; subst hop; rfl
    · simp [List.append_assoc]
    · simp only [putBytes_append, putBytes_map_put, receivedPieces_flatten, putBytes_ite_fail, List.append_nil]
    · unfold dblast
      exact blast_stored _ _ _ _ hfin

/-- `pf` in the form `okOps_pf_append` wants -/
theorem pf_match {ops : List QOp} (h : ∀ op ∈ ops, pf op = true) :
    ∀ op ∈ ops, (match op with | .put _ => true | .fail => true | _ => false) = true := by
  intro op ho; have := h op ho; cases op <;> simp_all [pf]

theorem data_fin (cfg : Cfg) (helo : Option Bytes) (mailfrom rcptto inp : Bytes) :
    ((data cfg helo mailfrom rcptto inp).stop = none ↔
      ∃ r, (blast .s1 (if cfg.databytes = 0 then 0 else cfg.databytes + 1) inp).fin = .done r) ∧
    (∀ r, (blast .s1 (if cfg.databytes = 0 then 0 else cfg.databytes + 1) inp).fin = .done r →
      (data cfg helo mailfrom rcptto inp).rest = r) := by
  unfold data
  simp only
  split <;> simp_all

/-- DATA not terminated (client gone, stray LF): only `put`/`fail` calls were made — no `qmail_from`, no `qmail_close` -/
theorem data_stopped (cfg : Cfg) (helo : Option Bytes) (mailfrom rcptto inp : Bytes)
    (h : (data cfg helo mailfrom rcptto inp).stop ≠ none) :
    okOps false (data cfg helo mailfrom rcptto inp).ops = true := by
  unfold data at h ⊢
  simp only at h ⊢
  have hp : ∀ op ∈ (receivedPieces pSMTP cfg.peer (fakehelo cfg.peer helo) cfg.now).map QOp.put ++
      (blast .s1 (if cfg.databytes = 0 then 0 else cfg.databytes + 1) inp).ops, pf op = true := by
    intro op hop; simp only [List.mem_append] at hop
    rcases hop with hop | hop
    · exact pf_map_put _ op hop
    · exact blast_pf _ _ _ op hop
  have := okOps_pf_append _ [] (pf_match hp)
  split at h
  · simpa [okOps] using this
  · simpa [okOps] using this
  · simp at h

/-- more input after the terminator changes nothing but the unread remainder -/
theorem blast_ext : ∀ (p : Bytes) (s : DSt) (bto : Nat) (rest t : Bytes),
    (blast s bto p).fin = .done rest →
    blast s bto (p ++ t) = ⟨(blast s bto p).ops, (blast s bto p).bto, .done (rest ++ t)⟩
  | [], _, _, _, _, h => by simp [blast] at h
  | c :: p, s, bto, rest, t, h => by
    simp only [List.cons_append]
    unfold blast at h ⊢
    split
    · rename_i bs hd
      simp only [hd] at h
      have ih := blast_ext p (dstep s c).1 (decN bto bs.length) rest t (by simpa using h)
      simp only [ih]
    · rename_i hd
      simp only [hd] at h
      simp at h
      simp [h]
    · rename_i hd
      simp only [hd] at h
      simp at h

/-- **cut, SMTP.**  If DATA is terminated after `k` bytes of the stream, then for every shorter prefix of the stream
    smtp_data() does not get to `qmail_from`/`qmail_close` -/
theorem data_prefix (cfg : Cfg) (helo : Option Bytes) (mailfrom rcptto inp : Bytes)
    (h : (data cfg helo mailfrom rcptto inp).stop = none) (j : Nat)
    (hj : j < inp.length - (data cfg helo mailfrom rcptto inp).rest.length) :
    (data cfg helo mailfrom rcptto (inp.take j)).stop ≠ none := by
  intro hp
  have f1 := data_fin cfg helo mailfrom rcptto inp
  have f2 := data_fin cfg helo mailfrom rcptto (inp.take j)
  obtain ⟨r, hr⟩ := f2.1.mp hp
  have hext := blast_ext (inp.take j) .s1 (if cfg.databytes = 0 then 0 else cfg.databytes + 1) r (inp.drop j) hr
  rw [List.take_append_drop] at hext
  have hfin : (blast .s1 (if cfg.databytes = 0 then 0 else cfg.databytes + 1) inp).fin = .done (r ++ inp.drop j) := by
    rw [hext]
  have := f1.2 _ hfin
  rw [this] at hj
  simp at hj
  omega

end Smtp

/-! ### qmail-qmtpd -/
namespace Qmtp

theorem pre_ops (o : List QOp) (r : BodyRes) : (r.pre o).ops = o ++ r.ops := rfl
theorem pre_rest (o : List QOp) (r : BodyRes) : (r.pre o).rest = r.rest := rfl

theorem unixBody_pf : ∀ (len : Nat) (inp : Bytes), ∀ op ∈ (unixBody len inp).ops, pf op = true
  | 0, _ => by simp [unixBody]
  | _ + 1, [] => by simp [unixBody]
  | len + 1, c :: inp => by
    intro op hop
    simp only [unixBody, pre_ops, List.mem_append, List.mem_singleton] at hop
    rcases hop with rfl | hop
    · rfl
    · exact unixBody_pf len inp op hop

theorem dosBody_pf : ∀ (len : Nat) (pend : Bool) (bto : Nat) (inp : Bytes), ∀ op ∈ (dosBody len pend bto inp).ops, pf op = true
  | 0, _, _, _ => by simp [dosBody]
  | _ + 1, _, _, [] => by simp [dosBody]
  | len + 1, false, bto, c :: inp => by
    intro op hop
    rw [dosBody] at hop
    split at hop
    · exact dosBody_pf len true bto inp op hop
    · simp only [pre_ops, List.mem_append] at hop
      rcases hop with hop | hop
      · exact ovfOps_pf _ _ op hop
      · exact dosBody_pf len false _ inp op hop
  | len + 1, true, bto, c :: inp => by
    intro op hop
    rw [dosBody] at hop
    split at hop
    · simp only [pre_ops, List.mem_append] at hop
      rcases hop with hop | hop
      · exact ovfOps_pf _ _ op hop
      · exact dosBody_pf len false _ inp op hop
    · split at hop
      · simp only [pre_ops, List.mem_append] at hop
        rcases hop with hop | hop
        · exact ovfOps_pf _ _ op hop
        · exact dosBody_pf len true _ inp op hop
      · simp only [pre_ops, List.mem_append] at hop
        rcases hop with (hop | hop) | hop
        · exact ovfOps_pf _ _ op hop
        · exact ovfOps_pf _ _ op hop
        · exact dosBody_pf len false _ inp op hop

theorem RL.pre_ops (o : List QOp) (f : Byte) (a : List Bytes) (r : RL) : (r.pre o f a).ops = o ++ r.ops := rfl
theorem RL.pre_rcpts (o : List QOp) (f : Byte) (a : List Bytes) (r : RL) : (r.pre o f a).rcpts = a ++ r.rcpts := rfl

theorem rcptLoop_shape (cfg : Cfg) : ∀ (fuel big : Nat) (inp : Bytes),
    (∀ op ∈ (rcptLoop cfg fuel big inp).ops, op.plain = true) ∧
    stream (rcptLoop cfg fuel big inp).ops = entries (rcptLoop cfg fuel big inp).rcpts
  | 0, _, _ => by simp [rcptLoop, stream, entries]
  | _ + 1, 0, _ => by simp [rcptLoop, stream, entries]
  | fuel + 1, big + 1, inp => by
    rw [rcptLoop] <;> try (intro h0; omega)
    split
    · simp [stream, entries]
    · rename_i len big1 r1 _
      split
      · simp [stream, entries]
      · split
        · simp [stream, entries]
        · rename_i a r2 _
          simp only []
          split
          · split <;> simp [stream, entries, entry, QOp.plain]
          · rename_i r3 _
            have ih := rcptLoop_shape cfg fuel (big1 - (len + 1)) r3
            rw [RL.pre_ops, RL.pre_rcpts]
            refine ⟨?_, ?_⟩
            · intro op hop
              simp only [List.mem_append] at hop
              rcases hop with hop | hop
              · split at hop <;> simp at hop; subst hop; rfl
              · exact ih.1 op hop
            · rw [stream_append, ih.2]
              split <;> simp [stream, entries]

/-- shape of qmail-qmtpd's calls for a message that was read completely -/
theorem msg_shape (cfg : Cfg) (inp : Bytes) (h : (msg cfg inp).stop = none) :
    ∃ mops eops sbuf, (∀ op ∈ mops, pf op = true) ∧ (∀ op ∈ eops, op.plain = true) ∧
      (msg cfg inp).ops = mops ++ [.from_ sbuf] ++ eops ++ [.close] ∧
      Qmtp.putBytes mops = received pQMTP cfg.peer none cfg.now ++ (msg cfg inp).stored ∧
      (msg cfg inp).sender = cstr sbuf ∧
      stream eops = entries (msg cfg inp).rcpts := by
  unfold msg at h ⊢
  cases h1 : getlen Nq.Gen.C07.qmtpLenMax 0 inp with
  | stop e r => simp [h1] at h
  | ok len r0 =>
    simp only [h1] at h ⊢
    by_cases hl : len = 0
    · simp [hl] at h
    · simp only [hl, ↓reduceIte] at h ⊢
      cases r0 with
      | nil => simp at h
      | cons c r1 =>
        simp only at h ⊢
        by_cases hc : c ≠ LF ∧ c ≠ CR
        · simp [hc] at h
        · simp only [hc, ↓reduceIte] at h ⊢
          have hbpf : ∀ op ∈ (if c = CR then dosBody (len - 1) false (if cfg.databytes = 0 then 0 else cfg.databytes + 1) r1
              else BodyRes.pre (if c = LF ∧ cfg.databytes ≠ 0 ∧ len - 1 > cfg.databytes then [QOp.fail] else [])
                (unixBody (len - 1) r1)).ops, pf op = true := by
            intro op hop
            split at hop
            · exact dosBody_pf _ _ _ _ op hop
            · rw [pre_ops, List.mem_append] at hop
              rcases hop with hop | hop
              · split at hop <;> simp at hop; subst hop; rfl
              · exact unixBody_pf _ _ op hop
          generalize (if c = CR then dosBody (len - 1) false (if cfg.databytes = 0 then 0 else cfg.databytes + 1) r1
              else BodyRes.pre (if c = LF ∧ cfg.databytes ≠ 0 ∧ len - 1 > cfg.databytes then [QOp.fail] else [])
                (unixBody (len - 1) r1)) = b at h hbpf ⊢
          cases h2 : b.rest with
          | none => simp [h2] at h
          | some r2 =>
            simp only [h2] at h ⊢
            cases h3 : getcomma r2 with
            | stop e r => simp [h3] at h
            | ok u3 r3 =>
              simp only [h3] at h ⊢
              cases h4 : getlen Nq.Gen.C07.qmtpLenMax 0 r3 with
              | stop e r => simp [h4] at h
              | ok slen r4 =>
                simp only [h4] at h ⊢
                cases h5 : getbytes slen r4 with
                | stop e r => simp [h5] at h
                | ok sraw r5 =>
                  simp only [h5] at h ⊢
                  cases h6 : getcomma r5 with
                  | stop e r => simp [h6] at h
                  | ok u6 r6 =>
                    simp only [h6] at h ⊢
                    cases h7 : getlen Nq.Gen.C07.qmtpLenMax 0 r6 with
                    | stop e r => simp [h7] at h
                    | ok biglen r7 =>
                      simp only [h7] at h ⊢
                      cases h8 : (rcptLoop cfg (r7.length + 1) biglen r7).stop with
                      | some e => simp [h8] at h
                      | none =>
                        simp only [h8] at h ⊢
                        cases h9 : getcomma (rcptLoop cfg (r7.length + 1) biglen r7).rest with
                        | stop e r => simp [h9] at h
                        | ok u9 r8 =>
                          simp only [h9]
                          have hrl := rcptLoop_shape cfg (r7.length + 1) biglen r7
                          refine ⟨recvOps cfg ++ b.ops,
                            (if (!decide (slen ≥ Nq.Gen.C07.qmtpAddrMax) && !sraw.contains 0) = true then [] else [QOp.fail]) ++
                              (rcptLoop cfg (r7.length + 1) biglen r7).ops ++
                              (if (rcptLoop cfg (r7.length + 1) biglen r7).failure.contains 0 = true then [] else [QOp.fail]),
                            (if slen ≥ Nq.Gen.C07.qmtpAddrMax then [] else sraw), ?_, ?_, ?_, ?_, ?_, ?_⟩
                          · intro op hop
                            simp only [List.mem_append] at hop
                            rcases hop with hop | hop
                            · exact pf_map_put _ op hop
                            · exact hbpf op hop
                          · intro op hop
                            simp only [List.mem_append] at hop
                            rcases hop with (hop | hop) | hop
                            · split at hop <;> simp at hop; subst hop; rfl
                            · exact hrl.1 op hop
                            · split at hop <;> simp at hop; subst hop; rfl
                          · simp [List.append_assoc]
                          · simp [putBytes_append, recvOps, putBytes_map_put, receivedPieces_flatten]
                          · rfl
                          · rw [stream_append, stream_append, hrl.2]
                            have e1 : ∀ (p : Prop) [Decidable p], stream (if p then [] else [QOp.fail]) = [] := by
                              intro p _; split <;> rfl
                            simp [e1]

theorem dosBody_false (len bto : Nat) (c : Byte) (p : Bytes) :
    dosBody (len + 1) false bto (c :: p) =
      (if c = CR ∧ len > 0 then dosBody len true bto p else (dosBody len false (ovfDec bto) p).pre (ovfOps bto c)) := by
  rw [dosBody]

theorem dosBody_true (len bto : Nat) (c : Byte) (p : Bytes) :
    dosBody (len + 1) true bto (c :: p) =
      (if c = LF then (dosBody len false (ovfDec bto) p).pre (ovfOps bto LF)
       else if c = CR ∧ len > 0 then (dosBody len true (ovfDec bto) p).pre (ovfOps bto CR)
       else (dosBody len false (ovfDec (ovfDec bto)) p).pre (ovfOps bto CR ++ ovfOps (ovfDec bto) c)) := by
  rw [dosBody]

/-! #### what the two body loops store -/

theorem unixBody_stored : ∀ (len : Nat) (p r : Bytes), (unixBody len p).rest = some r →
    putBytes (unixBody len p).ops = p.take len ∧ r = p.drop len
  | 0, p, r, h => by simp [unixBody] at h ⊢; simp [putBytes, h]
  | _ + 1, [], r, h => by simp [unixBody] at h
  | len + 1, c :: p, r, h => by
    simp only [unixBody, pre_rest, pre_ops] at h ⊢
    have ih := unixBody_stored len p r h
    simp [putBytes, ih.1, ih.2]

open Nq.Spec.C07 (undos) in
theorem undos_cons (c : Byte) (l : Bytes) (h : c ≠ CR ∨ l = []) : undos (c :: l) = c :: undos l := by
  cases l with
  | nil => simp [undos]
  | cons d r =>
    rcases h with h | h
    · have : ¬ (c = 13 ∧ d = 10) := fun hh => h hh.1
      simp [undos, this]
    · simp at h

open Nq.Spec.C07 (undos) in
/-- the CR-mode loop stores the framed bytes with every CR LF replaced by LF (`Spec.undos`); a CR held back by the
    inner loop counts as the first byte -/
theorem dosBody_stored : ∀ (len : Nat) (pend : Bool) (bto : Nat) (p r : Bytes), (pend = true → len > 0) →
    (dosBody len pend bto p).rest = some r →
    putBytes (dosBody len pend bto p).ops = (if pend then undos (CR :: p.take len) else undos (p.take len)) ∧ r = p.drop len
  | 0, pend, _, p, r, hp, h => by
    cases pend
    · simp [dosBody] at h ⊢; simp [putBytes, undos, h]
    · exact absurd (hp rfl) (by omega)
  | _ + 1, _, _, [], r, _, h => by simp [dosBody] at h
  | len + 1, false, bto, c :: p, r, _, h => by
    rw [dosBody_false] at h ⊢
    by_cases hc : c = CR ∧ len > 0
    · simp only [hc, and_self, ↓reduceIte] at h ⊢
      have ih := dosBody_stored len true bto p r (fun _ => hc.2) h
      simp only [↓reduceIte] at ih
      simp [ih.1, ih.2, hc.1]
    · simp only [hc, ↓reduceIte, pre_rest, pre_ops] at h ⊢
      have ih := dosBody_stored len false (ovfDec bto) p r (by simp) h
      simp only [Bool.false_eq_true, ↓reduceIte] at ih
      rw [putBytes_append, ovfOps_bytes, ih.1]
      refine ⟨?_, by simp [ih.2]⟩
      simp only [List.take_succ_cons, Bool.false_eq_true, ↓reduceIte]
      rw [undos_cons]
      · rfl
      · by_cases h1 : c = CR
        · right
          have : len = 0 := by
            cases len with
            | zero => rfl
            | succ n => exact absurd ⟨h1, by omega⟩ hc
          simp [this]
        · left; exact h1
  | len + 1, true, bto, c :: p, r, _, h => by
    rw [dosBody_true] at h ⊢
    by_cases hc : c = LF
    · simp only [hc, ↓reduceIte, pre_rest, pre_ops] at h ⊢
      have ih := dosBody_stored len false (ovfDec bto) p r (by simp) h
      simp only [Bool.false_eq_true, ↓reduceIte] at ih
      rw [putBytes_append, ovfOps_bytes, ih.1]
      refine ⟨?_, by simp [ih.2]⟩
      simp [undos, CR, LF]
    · simp only [hc, ↓reduceIte] at h ⊢
      by_cases h2 : c = CR ∧ len > 0
      · simp only [h2, and_self, ↓reduceIte, pre_rest, pre_ops] at h ⊢
        have ih := dosBody_stored len true (ovfDec bto) p r (fun _ => h2.2) h
        simp only [↓reduceIte] at ih
        rw [putBytes_append, ovfOps_bytes, ih.1]
        refine ⟨?_, by simp [ih.2]⟩
        simp [undos, CR, h2.1]
      · simp only [h2, ↓reduceIte, pre_rest, pre_ops] at h ⊢
        have ih := dosBody_stored len false (ovfDec (ovfDec bto)) p r (by simp) h
        simp only [Bool.false_eq_true, ↓reduceIte] at ih
        rw [putBytes_append, putBytes_append, ovfOps_bytes, ovfOps_bytes, ih.1]
        refine ⟨?_, by simp [ih.2]⟩
        have hclf : ¬ ((13 : Byte) = 13 ∧ c = 10) := fun hh => hc hh.2
        simp only [List.take_succ_cons, ↓reduceIte, CR]
        rw [show undos (13 :: c :: List.take len p) = 13 :: undos (c :: List.take len p) by
          have hc' : ¬ c = 10 := hc
          simp [undos, hc']]
        rw [undos_cons]
        · rfl
        · by_cases h1 : c = CR
          · right
            have : len = 0 := by
              cases len with
              | zero => rfl
              | succ n => exact absurd ⟨h1, by omega⟩ h2
            simp [this]
          · left; exact h1

/-- the `stored` field is what the body loop put, whichever way the message ends -/
theorem msg_stored_eq (cfg : Cfg) (inp : Bytes) (len : Nat) (c : Byte) (r1 : Bytes)
    (h1 : Netstring.getlen Nq.Gen.C07.qmtpLenMax 0 inp = .ok len (c :: r1)) (hl : len ≠ 0) (hc : ¬ (c ≠ LF ∧ c ≠ CR)) :
    (msg cfg inp).stored = putBytes (if c = CR then dosBody (len - 1) false (if cfg.databytes = 0 then 0 else cfg.databytes + 1) r1
      else BodyRes.pre (if c = LF ∧ cfg.databytes ≠ 0 ∧ len - 1 > cfg.databytes then [QOp.fail] else [])
        (unixBody (len - 1) r1)).ops := by
  unfold msg
  simp only [h1, hl, hc, ↓reduceIte]
  repeat' split
  all_goals rfl

open Nq.Spec.C07 (undos) in
/-- **decoded body.**  For a completely read message: the stored bytes are the `len - 1` framed bytes after the mode byte,
    verbatim in LF mode and with CR LF → LF (`Spec.undos`) in CR mode -/
theorem msg_decoded (cfg : Cfg) (inp : Bytes) (h : (msg cfg inp).stop = none) :
    ∃ len c r1, Netstring.getlen Nq.Gen.C07.qmtpLenMax 0 inp = .ok len (c :: r1) ∧ len ≠ 0 ∧ (c = LF ∨ c = CR) ∧
      (msg cfg inp).stored = (if c = CR then undos (r1.take (len - 1)) else r1.take (len - 1)) := by
  have hm := h
  unfold msg at h
  cases h1 : Netstring.getlen Nq.Gen.C07.qmtpLenMax 0 inp with
  | stop e r => simp [h1] at h
  | ok len r0 =>
    simp only [h1] at h
    by_cases hl : len = 0
    · simp [hl] at h
    · simp only [hl, ↓reduceIte] at h
      cases r0 with
      | nil => simp at h
      | cons c r1 =>
        simp only at h
        by_cases hc : c ≠ LF ∧ c ≠ CR
        · simp [hc] at h
        · simp only [hc, ↓reduceIte] at h
          refine ⟨len, c, r1, rfl, hl, ?_, ?_⟩
          · by_cases h1' : c = LF
            · exact Or.inl h1'
            · by_cases h2' : c = CR
              · exact Or.inr h2'
              · exact absurd ⟨h1', h2'⟩ hc
          · rw [msg_stored_eq cfg inp len c r1 h1 hl hc]
            by_cases hcr : c = CR
            · simp only [hcr, ↓reduceIte] at h ⊢
              cases hb : (dosBody (len - 1) false (if cfg.databytes = 0 then 0 else cfg.databytes + 1) r1).rest with
              | none => simp [hb] at h
              | some r2 =>
                have := dosBody_stored (len - 1) false _ r1 r2 (by simp) hb
                simpa using this.1
            · simp only [hcr, ↓reduceIte] at h ⊢
              cases hb : (unixBody (len - 1) r1).rest with
              | none => simp [pre_rest, hb] at h
              | some r2 =>
                have := unixBody_stored (len - 1) r1 r2 hb
                rw [pre_ops, putBytes_append, this.1]
                split <;> simp [putBytes]

/-! #### more input behind a complete message changes nothing but the unread remainder -/

theorem getlen_ext (max : Nat) : ∀ (p : Bytes) (acc n : Nat) (r t : Bytes),
    Netstring.getlen max acc p = .ok n r → Netstring.getlen max acc (p ++ t) = .ok n (r ++ t)
  | [], _, _, _, _, h => by simp [Netstring.getlen] at h
  | c :: p, acc, n, r, t, h => by
    simp only [List.cons_append, Netstring.getlen] at h ⊢
    split
    · rename_i hc; simp [hc] at h; simp [h]
    · rename_i hc
      simp only [hc, ↓reduceIte] at h
      split
      · rename_i h2; simp [h2] at h
      · rename_i h2
        simp only [h2, ↓reduceIte] at h
        split
        · rename_i h3; simp [h3] at h
        · rename_i h3
          simp only [h3, ↓reduceIte] at h
          exact getlen_ext max p _ n r t h

theorem getcomma_ext (p : Bytes) (u : Unit) (r t : Bytes) (h : Netstring.getcomma p = .ok u r) :
    Netstring.getcomma (p ++ t) = .ok u (r ++ t) := by
  cases p with
  | nil => simp [Netstring.getcomma] at h
  | cons c p =>
    simp only [List.cons_append, Netstring.getcomma] at h ⊢
    split
    · rename_i hc; simp [hc] at h; simp [h]
    · rename_i hc; simp [hc] at h

theorem getbytes_ext (n : Nat) (p a r t : Bytes) (h : getbytes n p = .ok a r) :
    getbytes n (p ++ t) = .ok a (r ++ t) := by
  unfold getbytes at h ⊢
  split at h
  · simp at h
  · rename_i hl
    have hl' : ¬ (p ++ t).length < n := by simp; omega
    simp only [hl', ↓reduceIte]
    simp at h
    have hn : n ≤ p.length := by omega
    rw [List.take_append_of_le_length hn, List.drop_append_of_le_length hn, h.1, h.2]

theorem unixBody_ext : ∀ (len : Nat) (p r t : Bytes), (unixBody len p).rest = some r →
    unixBody len (p ++ t) = { unixBody len p with rest := some (r ++ t) }
  | 0, p, r, t, h => by simp [unixBody] at h ⊢; simp [h]
  | _ + 1, [], r, t, h => by simp [unixBody] at h
  | len + 1, c :: p, r, t, h => by
    simp only [List.cons_append, unixBody, pre_rest] at h ⊢
    rw [unixBody_ext len p r t h]
    rfl

theorem dosBody_ext : ∀ (len : Nat) (pend : Bool) (bto : Nat) (p r t : Bytes), (dosBody len pend bto p).rest = some r →
    dosBody len pend bto (p ++ t) = { dosBody len pend bto p with rest := some (r ++ t) }
  | 0, _, _, p, r, t, h => by simp [dosBody] at h ⊢; simp [h]
  | _ + 1, _, _, [], r, t, h => by simp [dosBody] at h
  | len + 1, false, bto, c :: p, r, t, h => by
    simp only [List.cons_append]
    rw [dosBody_false] at h ⊢
    rw [dosBody_false]
    by_cases hc : c = CR ∧ len > 0
    · simp only [hc, and_self, ↓reduceIte] at h ⊢
      exact dosBody_ext len true bto p r t h
    · simp only [hc, ↓reduceIte, pre_rest] at h ⊢
      rw [dosBody_ext len false _ p r t h]; rfl
  | len + 1, true, bto, c :: p, r, t, h => by
    simp only [List.cons_append]
    rw [dosBody_true] at h ⊢
    rw [dosBody_true]
    by_cases hc : c = LF
    · simp only [hc, ↓reduceIte, pre_rest] at h ⊢
      rw [dosBody_ext len false _ p r t h]; rfl
    · simp only [hc, ↓reduceIte] at h ⊢
      by_cases h2 : c = CR ∧ len > 0
      · simp only [h2, and_self, ↓reduceIte, pre_rest] at h ⊢
        rw [dosBody_ext len true _ p r t h]; rfl
      · simp only [h2, ↓reduceIte, pre_rest] at h ⊢
        rw [dosBody_ext len false _ p r t h]; rfl

theorem rcptLen_ext (max : Nat) : ∀ (p : Bytes) (big acc : Nat) (v : Nat × Nat) (r t : Bytes),
    rcptLen max big acc p = .ok v r → rcptLen max big acc (p ++ t) = .ok v (r ++ t)
  | [], big, acc, v, r, t, h => by cases big <;> simp [rcptLen] at h
  | c :: p, 0, acc, v, r, t, h => by simp [rcptLen] at h
  | c :: p, big + 1, acc, v, r, t, h => by
    simp only [List.cons_append, rcptLen] at h ⊢
    split
    · rename_i hc; simp [hc] at h; simp [h]
    · rename_i hc
      simp only [hc, ↓reduceIte] at h
      split
      · rename_i h2; simp [h2] at h
      · rename_i h2
        simp only [h2, ↓reduceIte] at h
        split
        · rename_i h3; simp [h3] at h
        · rename_i h3
          simp only [h3, ↓reduceIte] at h
          exact rcptLen_ext max p big _ v r t h

theorem RL.pre_stop (o : List QOp) (f : Byte) (a : List Bytes) (r : RL) : (r.pre o f a).stop = r.stop := rfl

theorem rcptLoop_ext (cfg : Cfg) : ∀ (fuel fuel' big : Nat) (p t : Bytes), fuel ≤ fuel' →
    (rcptLoop cfg fuel big p).stop = none →
    rcptLoop cfg fuel' big (p ++ t) = { rcptLoop cfg fuel big p with rest := (rcptLoop cfg fuel big p).rest ++ t }
  | 0, _, _, _, _, _, h => by simp [rcptLoop] at h
  | fuel + 1, 0, _, _, _, h, _ => by omega
  | fuel + 1, fuel' + 1, 0, p, t, _, _ => by simp [rcptLoop]
  | fuel + 1, fuel' + 1, big + 1, p, t, hle, h => by
    simp only [rcptLoop] at h ⊢
    cases h1 : rcptLen Nq.Gen.C07.qmtpLenMax (big + 1) 0 p with
    | stop e r => simp [h1] at h
    | ok v r1 =>
      obtain ⟨len, big1⟩ := v
      simp only [h1] at h ⊢
      rw [rcptLen_ext _ p (big + 1) 0 _ r1 t h1]
      simp only
      split
      · rename_i hl; simp [hl] at h
      · rename_i hl
        simp only [hl, ↓reduceIte] at h
        cases h2 : getbytes len r1 with
        | stop e r => simp [h2] at h
        | ok a r2 =>
          simp only [h2] at h ⊢
          rw [getbytes_ext len r1 a r2 t h2]
          simp only
          cases h3 : Netstring.getcomma r2 with
          | stop e r => simp [h3] at h
          | ok u r3 =>
            simp only [h3] at h ⊢
            rw [getcomma_ext r2 u r3 t h3]
            simp only
            rw [RL.pre_stop] at h
            rw [rcptLoop_ext cfg fuel fuel' _ r3 t (by omega) h]
            rfl

theorem msg_ext (cfg : Cfg) (p t : Bytes) (h : (msg cfg p).stop = none) :
    msg cfg (p ++ t) = { msg cfg p with rest := (msg cfg p).rest ++ t } := by
  unfold msg at h ⊢
  cases h1 : Netstring.getlen Nq.Gen.C07.qmtpLenMax 0 p with
  | stop e r => simp [h1] at h
  | ok len r0 =>
    simp only [h1] at h ⊢
    rw [getlen_ext _ p 0 len r0 t h1]
    simp only
    by_cases hl : len = 0
    · simp [hl] at h
    · simp only [hl, ↓reduceIte] at h ⊢
      cases r0 with
      | nil => simp at h
      | cons c r1 =>
        simp only [List.cons_append] at h ⊢
        by_cases hc : c ≠ LF ∧ c ≠ CR
        · simp [hc] at h
        · simp only [hc, ↓reduceIte] at h ⊢
          -- the body
          have hbody : ∀ r2, (if c = CR then dosBody (len - 1) false (if cfg.databytes = 0 then 0 else cfg.databytes + 1) r1
              else BodyRes.pre (if c = LF ∧ cfg.databytes ≠ 0 ∧ len - 1 > cfg.databytes then [QOp.fail] else [])
                (unixBody (len - 1) r1)).rest = some r2 →
              (if c = CR then dosBody (len - 1) false (if cfg.databytes = 0 then 0 else cfg.databytes + 1) (r1 ++ t)
              else BodyRes.pre (if c = LF ∧ cfg.databytes ≠ 0 ∧ len - 1 > cfg.databytes then [QOp.fail] else [])
                (unixBody (len - 1) (r1 ++ t))) =
              { (if c = CR then dosBody (len - 1) false (if cfg.databytes = 0 then 0 else cfg.databytes + 1) r1
              else BodyRes.pre (if c = LF ∧ cfg.databytes ≠ 0 ∧ len - 1 > cfg.databytes then [QOp.fail] else [])
                (unixBody (len - 1) r1)) with rest := some (r2 ++ t) } := by
            intro r2 hr
            split at hr
            · rename_i hcr; simp only [hcr, ↓reduceIte]; exact dosBody_ext _ _ _ _ _ _ hr
            · rename_i hcr; simp only [hcr, ↓reduceIte]
              rw [pre_rest] at hr
              rw [unixBody_ext _ _ _ _ hr]; rfl
          generalize (if c = CR then dosBody (len - 1) false (if cfg.databytes = 0 then 0 else cfg.databytes + 1) r1
              else BodyRes.pre (if c = LF ∧ cfg.databytes ≠ 0 ∧ len - 1 > cfg.databytes then [QOp.fail] else [])
                (unixBody (len - 1) r1)) = b at h hbody ⊢
          cases h2 : b.rest with
          | none => simp [h2] at h
          | some r2 =>
            simp only [h2] at h ⊢
            rw [hbody r2 h2]
            simp only
            cases h3 : Netstring.getcomma r2 with
            | stop e r => simp [h3] at h
            | ok u3 r3 =>
              simp only [h3] at h ⊢
              rw [getcomma_ext r2 u3 r3 t h3]
              simp only
              cases h4 : Netstring.getlen Nq.Gen.C07.qmtpLenMax 0 r3 with
              | stop e r => simp [h4] at h
              | ok slen r4 =>
                simp only [h4] at h ⊢
                rw [getlen_ext _ r3 0 slen r4 t h4]
                simp only
                cases h5 : getbytes slen r4 with
                | stop e r => simp [h5] at h
                | ok sraw r5 =>
                  simp only [h5] at h ⊢
                  rw [getbytes_ext slen r4 sraw r5 t h5]
                  simp only
                  cases h6 : Netstring.getcomma r5 with
                  | stop e r => simp [h6] at h
                  | ok u6 r6 =>
                    simp only [h6] at h ⊢
                    rw [getcomma_ext r5 u6 r6 t h6]
                    simp only
                    cases h7 : Netstring.getlen Nq.Gen.C07.qmtpLenMax 0 r6 with
                    | stop e r => simp [h7] at h
                    | ok biglen r7 =>
                      simp only [h7] at h ⊢
                      rw [getlen_ext _ r6 0 biglen r7 t h7]
                      simp only
                      cases h8 : (rcptLoop cfg (r7.length + 1) biglen r7).stop with
                      | some e => simp [h8] at h
                      | none =>
                        simp only [h8] at h
                        rw [rcptLoop_ext cfg (r7.length + 1) ((r7 ++ t).length + 1) biglen r7 t (by simp) h8]
                        simp only [h8]
                        cases h9 : Netstring.getcomma (rcptLoop cfg (r7.length + 1) biglen r7).rest with
                        | stop e r => simp [h9] at h
                        | ok u9 r8 =>
                          rw [getcomma_ext _ u9 r8 t h9]

theorem rcptLoop_env (cfg : Cfg) : ∀ (fuel big : Nat) (inp : Bytes),
    ∀ op ∈ (rcptLoop cfg fuel big inp).ops, (match op with | .to _ => true | .fail => true | _ => false) = true
  | 0, _, _ => by simp [rcptLoop]
  | _ + 1, 0, _ => by simp [rcptLoop]
  | fuel + 1, big + 1, inp => by
    simp only [rcptLoop]
    split
    · simp
    · rename_i len big1 r1 _
      split
      · simp
      · split
        · simp
        · rename_i a r2 _
          split
          · split <;> simp
          · rename_i r3 _
            have ih := rcptLoop_env cfg fuel (big1 - (len + 1)) r3
            rw [RL.pre_ops]
            intro op hop
            simp only [List.mem_append] at hop
            rcases hop with hop | hop
            · split at hop <;> simp at hop; subst hop; rfl
            · exact ih op hop

/-- the message was not read completely: the calls have the shape of `okOps` (in particular no `qmail_close`) -/
theorem msg_stopped (cfg : Cfg) (inp : Bytes) (h : (msg cfg inp).stop ≠ none) :
    okOps false (msg cfg inp).ops = true := by
  unfold msg at h ⊢
  cases h1 : Netstring.getlen Nq.Gen.C07.qmtpLenMax 0 inp with
  | stop e r => simp [okOps]
  | ok len r0 =>
    simp only [h1] at h ⊢
    by_cases hl : len = 0
    · simp [hl, okOps]
    · simp only [hl, ↓reduceIte] at h ⊢
      cases r0 with
      | nil => simp [okOps]
      | cons c r1 =>
        simp only at h ⊢
        by_cases hc : c ≠ LF ∧ c ≠ CR
        · simp [hc, okOps]
        · simp only [hc, ↓reduceIte] at h ⊢
          have hbpf : ∀ op ∈ (if c = CR then dosBody (len - 1) false (if cfg.databytes = 0 then 0 else cfg.databytes + 1) r1
              else BodyRes.pre (if c = LF ∧ cfg.databytes ≠ 0 ∧ len - 1 > cfg.databytes then [QOp.fail] else [])
                (unixBody (len - 1) r1)).ops, pf op = true := by
            intro op hop
            split at hop
            · exact dosBody_pf _ _ _ _ op hop
            · rw [pre_ops, List.mem_append] at hop
              rcases hop with hop | hop
              · split at hop <;> simp at hop; subst hop; rfl
              · exact unixBody_pf _ _ op hop
          generalize (if c = CR then dosBody (len - 1) false (if cfg.databytes = 0 then 0 else cfg.databytes + 1) r1
              else BodyRes.pre (if c = LF ∧ cfg.databytes ≠ 0 ∧ len - 1 > cfg.databytes then [QOp.fail] else [])
                (unixBody (len - 1) r1)) = b at h hbpf ⊢
          have hp1 : ∀ op ∈ recvOps cfg ++ b.ops, pf op = true := by
            intro op hop; simp only [List.mem_append] at hop
            rcases hop with hop | hop
            · exact pf_map_put _ op hop
            · exact hbpf op hop
          have k1 : okOps false (recvOps cfg ++ b.ops) = true := by
            simpa [okOps] using okOps_pf_append _ [] (Smtp.pf_match hp1)
          cases h2 : b.rest with
          | none => simpa using k1
          | some r2 =>
            simp only [h2] at h ⊢
            cases h3 : Netstring.getcomma r2 with
            | stop e r => simpa using k1
            | ok u3 r3 =>
              simp only [h3] at h ⊢
              cases h4 : Netstring.getlen Nq.Gen.C07.qmtpLenMax 0 r3 with
              | stop e r => simpa using k1
              | ok slen r4 =>
                simp only [h4] at h ⊢
                cases h5 : getbytes slen r4 with
                | stop e r => simpa using k1
                | ok sraw r5 =>
                  simp only [h5] at h ⊢
                  cases h6 : Netstring.getcomma r5 with
                  | stop e r => simpa using k1
                  | ok u6 r6 =>
                    simp only [h6] at h ⊢
                    have k2 : ∀ (x : List QOp), (∀ op ∈ x, (match op with | .to _ => true | .fail => true | _ => false) = true) →
                        okOps false (recvOps cfg ++ b.ops ++ [QOp.from_ (if slen ≥ Nq.Gen.C07.qmtpAddrMax then [] else sraw)] ++
                          (if (!decide (slen ≥ Nq.Gen.C07.qmtpAddrMax) && !sraw.contains 0) = true then [] else [QOp.fail]) ++ x) = true := by
                      intro x hx
                      rw [List.append_assoc, List.append_assoc, okOps_pf_append _ _ (Smtp.pf_match hp1)]
                      have := okOps_env_append x [] hx
                      cases hb : (!decide (slen ≥ Nq.Gen.C07.qmtpAddrMax) && !sraw.contains 0) <;>
                        simpa [okOps, hb] using this
                    cases h7 : Netstring.getlen Nq.Gen.C07.qmtpLenMax 0 r6 with
                    | stop e r => simpa using k2 [] (by simp)
                    | ok biglen r7 =>
                      simp only [h7] at h ⊢
                      have k3 := k2 _ (rcptLoop_env cfg (r7.length + 1) biglen r7)
                      cases h8 : (rcptLoop cfg (r7.length + 1) biglen r7).stop with
                      | some e => simpa using k3
                      | none =>
                        simp only [h8] at h ⊢
                        cases h9 : Netstring.getcomma (rcptLoop cfg (r7.length + 1) biglen r7).rest with
                        | stop e r => simpa using k3
                        | ok u9 r8 => simp [h9] at h

/-- **cut, QMTP.**  If a message is complete after `k` bytes, qmail-qmtpd does not get to `qmail_close` (nor to its
    replies) on any shorter prefix -/
theorem msg_prefix (cfg : Cfg) (inp : Bytes) (h : (msg cfg inp).stop = none) (j : Nat)
    (hj : j < inp.length - (msg cfg inp).rest.length) : (msg cfg (inp.take j)).stop ≠ none := by
  intro hp
  have := msg_ext cfg (inp.take j) (inp.drop j) hp
  rw [List.take_append_drop] at this
  rw [this] at hj
  simp at hj
  omega

end Qmtp

/-! ### qmail-qmqpd -/
namespace Qmqp

theorem body_pf : ∀ (len bl : Nat) (inp : Bytes), ∀ op ∈ (body len bl inp).ops, pf op = true
  | 0, _, _ => by simp [body]
  | _ + 1, 0, _ => by simp [body]
  | _ + 1, _ + 1, [] => by simp [body]
  | len + 1, bl + 1, c :: rest => by
    intro op hop
    simp only [body, List.mem_cons] at hop
    rcases hop with rfl | hop
    · rfl
    · exact body_pf len bl rest op hop

theorem rcptLoop_shape : ∀ (fuel bl : Nat) (inp : Bytes),
    (∀ op ∈ (rcptLoop fuel bl inp).ops, op.plain = true) ∧
    stream (rcptLoop fuel bl inp).ops = entries (rcptLoop fuel bl inp).rcpts
  | 0, _, _ => by simp [rcptLoop, stream, entries]
  | _ + 1, 0, _ => by simp [rcptLoop, stream, entries]
  | fuel + 1, bl + 1, inp => by
    rw [rcptLoop] <;> try (intro h0; omega)
    split
    · simp [stream, entries]
    · rename_i a ok bl1 r1 _
      have ih := rcptLoop_shape fuel bl1 r1
      simp only []
      split
      · refine ⟨?_, ?_⟩
        · intro op hop; simp only [List.mem_cons] at hop
          rcases hop with rfl | hop
          · rfl
          · exact ih.1 op hop
        · have h2 := ih.2
          simp only [stream, entries, List.map_cons, List.flatten_cons] at h2 ⊢
          rw [h2]
      · refine ⟨?_, ?_⟩
        · intro op hop; simp only [List.mem_cons] at hop
          rcases hop with rfl | hop
          · rfl
          · exact ih.1 op hop
        · simpa [stream] using ih.2

/-- shape of qmail-qmqpd's calls when the whole request was read -/
theorem parse_shape (cfg : Cfg) (inp : Bytes) (h : (parse cfg inp).stop = none) :
    ∃ mops eops, (∀ op ∈ mops, pf op = true) ∧ (∀ op ∈ eops, op.plain = true) ∧
      (parse cfg inp).ops = mops ++ [.from_ (parse cfg inp).sender] ++ eops ++ [.close] ∧
      Qmtp.putBytes mops = received pQMQP cfg.peer none cfg.now ++ (parse cfg inp).stored ∧
      stream eops = entries (parse cfg inp).rcpts := by
  unfold parse at h ⊢
  cases h1 : getlen Nq.Gen.C07.qmqpLenMax Nq.Gen.C07.qmqpOuterDigits 0 inp with
  | stop e r => simp [h1] at h
  | ok v1 r0 =>
    obtain ⟨outer, x1⟩ := v1
    simp only [h1] at h ⊢
    cases h2 : getlen Nq.Gen.C07.qmqpLenMax outer 0 r0 with
    | stop e r => simp [h2] at h
    | ok v2 r1 =>
      obtain ⟨len, bl1⟩ := v2
      simp only [h2] at h ⊢
      cases h3 : (body len bl1 r1).res with
      | stop e r => simp [h3] at h
      | ok bl2 r2 =>
        simp only [h3] at h ⊢
        cases h4 : getcomma bl2 r2 with
        | stop e r => simp [h4] at h
        | ok bl3 r3 =>
          simp only [h4] at h ⊢
          cases h5 : getbuf bl3 r3 with
          | stop e r => simp [h5] at h
          | ok v5 r4 =>
            obtain ⟨s, sok, bl4⟩ := v5
            simp only [h5] at h ⊢
            cases h6 : (rcptLoop (r4.length + 1) bl4 r4).stop with
            | some e => simp [h6] at h
            | none =>
              simp only [h6] at h ⊢
              cases h7 : getcomma 1 (rcptLoop (r4.length + 1) bl4 r4).rest with
              | stop e r => simp [h7] at h
              | ok u r8 =>
                simp only [h7]
                have hrl := rcptLoop_shape (r4.length + 1) bl4 r4
                refine ⟨recvOps cfg ++ (body len bl1 r1).ops,
                        (if sok = true then [] else [QOp.fail]) ++ (rcptLoop (r4.length + 1) bl4 r4).ops, ?_, ?_, ?_, ?_, ?_⟩
                · intro op hop
                  simp only [List.mem_append] at hop
                  rcases hop with hop | hop
                  · exact pf_map_put _ op hop
                  · exact body_pf _ _ _ op hop
                · intro op hop
                  simp only [List.mem_append] at hop
                  rcases hop with hop | hop
                  · split at hop <;> simp at hop; subst hop; rfl
                  · exact hrl.1 op hop
                · cases sok <;> simp [List.append_assoc]
                · simp [putBytes_append, recvOps, putBytes_map_put, receivedPieces_flatten]
                · rw [stream_append, hrl.2]
                  cases sok <;> simp [stream]

/-! #### more input behind a complete request changes nothing but the unread remainder -/

theorem getlen_ext (max : Nat) : ∀ (p : Bytes) (bl acc : Nat) (v : Nat × Nat) (r t : Bytes),
    getlen max bl acc p = .ok v r → getlen max bl acc (p ++ t) = .ok v (r ++ t)
  | [], bl, acc, v, r, t, h => by cases bl <;> simp [getlen] at h
  | c :: p, 0, acc, v, r, t, h => by simp [getlen] at h
  | c :: p, bl + 1, acc, v, r, t, h => by
    simp only [List.cons_append]
    unfold getlen at h ⊢
    split
    · rename_i hc; simp only [hc, ↓reduceIte] at h; simp at h; simp [h]
    · rename_i hc
      simp only [hc, ↓reduceIte] at h
      split
      · rename_i h2; simp [h2] at h
      · rename_i h2
        simp only [h2, ↓reduceIte] at h
        split
        · rename_i h3; simp [h3] at h
        · rename_i h3
          simp only [h3, ↓reduceIte] at h
          exact getlen_ext max p bl _ v r t h

theorem getn_ext : ∀ (n bl : Nat) (p : Bytes) (v : Bytes × Nat) (r t : Bytes),
    getn n bl p = .ok v r → getn n bl (p ++ t) = .ok v (r ++ t)
  | 0, bl, p, v, r, t, h => by simp [getn] at h ⊢; simp [h]
  | n + 1, 0, p, v, r, t, h => by simp [getn] at h
  | n + 1, bl + 1, [], v, r, t, h => by simp [getn] at h
  | n + 1, bl + 1, c :: p, v, r, t, h => by
    simp only [List.cons_append]
    unfold getn at h ⊢
    cases h2 : getn n bl p with
    | stop e r' => simp [h2] at h
    | ok v2 r2 =>
      obtain ⟨bs, bl'⟩ := v2
      simp only [h2] at h
      rw [getn_ext n bl p (bs, bl') r2 t h2]
      simp at h ⊢
      simp [h]

theorem getcomma_ext (bl : Nat) (p : Bytes) (v : Nat) (r t : Bytes) (h : getcomma bl p = .ok v r) :
    getcomma bl (p ++ t) = .ok v (r ++ t) := by
  cases bl with
  | zero => simp [getcomma] at h
  | succ bl =>
    cases p with
    | nil => simp [getcomma] at h
    | cons c p =>
      simp only [List.cons_append, getcomma] at h ⊢
      split
      · rename_i hc; simp [hc] at h; simp [h]
      · rename_i hc; simp [hc] at h

theorem getbuf_ext (bl : Nat) (p : Bytes) (v : Bytes × Bool × Nat) (r t : Bytes) (h : getbuf bl p = .ok v r) :
    getbuf bl (p ++ t) = .ok v (r ++ t) := by
  unfold getbuf at h ⊢
  cases h1 : getlen Nq.Gen.C07.qmqpLenMax bl 0 p with
  | stop e r' => simp [h1] at h
  | ok v1 r1 =>
    obtain ⟨len, bl1⟩ := v1
    simp only [h1] at h
    rw [getlen_ext _ p bl 0 _ r1 t h1]
    simp only
    cases h2 : getn len bl1 r1 with
    | stop e r' => simp [h2] at h
    | ok v2 r2 =>
      obtain ⟨bs, bl2⟩ := v2
      simp only [h2] at h
      rw [getn_ext len bl1 r1 _ r2 t h2]
      simp only
      cases h3 : getcomma bl2 r2 with
      | stop e r' => simp [h3] at h
      | ok bl3 r3 =>
        simp only [h3] at h
        rw [getcomma_ext bl2 r2 bl3 r3 t h3]
        simp only
        split
        · rename_i hl; simp [hl] at h; simp [h]
        · rename_i hl; simp [hl] at h; simp [h]

theorem body_ext : ∀ (len bl : Nat) (p : Bytes) (bl' : Nat) (r t : Bytes),
    (body len bl p).res = .ok bl' r → body len bl (p ++ t) = ⟨(body len bl p).ops, .ok bl' (r ++ t)⟩
  | 0, bl, p, bl', r, t, h => by simp [body] at h ⊢; simp [h]
  | len + 1, 0, p, bl', r, t, h => by simp [body] at h
  | len + 1, bl + 1, [], bl', r, t, h => by simp [body] at h
  | len + 1, bl + 1, c :: p, bl', r, t, h => by
    simp only [List.cons_append]
    simp only [body] at h ⊢
    rw [body_ext len bl p bl' r t h]

theorem rcptLoop_ext : ∀ (fuel fuel' bl : Nat) (p t : Bytes), fuel ≤ fuel' →
    (rcptLoop fuel bl p).stop = none →
    rcptLoop fuel' bl (p ++ t) = { rcptLoop fuel bl p with rest := (rcptLoop fuel bl p).rest ++ t }
  | 0, _, _, _, _, _, h => by simp [rcptLoop] at h
  | fuel + 1, 0, _, _, _, h, _ => by omega
  | fuel + 1, fuel' + 1, 0, p, t, _, _ => by simp [rcptLoop]
  | fuel + 1, fuel' + 1, bl + 1, p, t, hle, h => by
    simp only [rcptLoop] at h ⊢
    cases h1 : getbuf (bl + 1) p with
    | stop e r => simp [h1] at h
    | ok v r1 =>
      obtain ⟨a, ok, bl1⟩ := v
      simp only [h1] at h ⊢
      rw [getbuf_ext (bl + 1) p _ r1 t h1]
      simp only
      have hs : (rcptLoop fuel bl1 r1).stop = none := by
        split at h <;> simpa using h
      rw [rcptLoop_ext fuel fuel' bl1 r1 t (by omega) hs]
      split <;> rfl

theorem parse_ext (cfg : Cfg) (p t : Bytes) (h : (parse cfg p).stop = none) :
    parse cfg (p ++ t) = { parse cfg p with rest := (parse cfg p).rest ++ t } := by
  unfold parse at h ⊢
  cases h1 : getlen Nq.Gen.C07.qmqpLenMax Nq.Gen.C07.qmqpOuterDigits 0 p with
  | stop e r => simp [h1] at h
  | ok v1 r0 =>
    obtain ⟨outer, x1⟩ := v1
    simp only [h1] at h ⊢
    rw [getlen_ext _ p _ 0 _ r0 t h1]
    simp only
    cases h2 : getlen Nq.Gen.C07.qmqpLenMax outer 0 r0 with
    | stop e r => simp [h2] at h
    | ok v2 r1 =>
      obtain ⟨len, bl1⟩ := v2
      simp only [h2] at h ⊢
      rw [getlen_ext _ r0 _ 0 _ r1 t h2]
      simp only
      cases h3 : (body len bl1 r1).res with
      | stop e r => simp [h3] at h
      | ok bl2 r2 =>
        simp only [h3] at h ⊢
        rw [body_ext len bl1 r1 bl2 r2 t h3]
        simp only
        cases h4 : getcomma bl2 r2 with
        | stop e r => simp [h4] at h
        | ok bl3 r3 =>
          simp only [h4] at h ⊢
          rw [getcomma_ext bl2 r2 bl3 r3 t h4]
          simp only
          cases h5 : getbuf bl3 r3 with
          | stop e r => simp [h5] at h
          | ok v5 r4 =>
            obtain ⟨s, sok, bl4⟩ := v5
            simp only [h5] at h ⊢
            rw [getbuf_ext bl3 r3 _ r4 t h5]
            simp only
            cases h6 : (rcptLoop (r4.length + 1) bl4 r4).stop with
            | some e => simp [h6] at h
            | none =>
              simp only [h6] at h
              rw [rcptLoop_ext (r4.length + 1) ((r4 ++ t).length + 1) bl4 r4 t (by simp) h6]
              simp only [h6]
              cases h7 : getcomma 1 (rcptLoop (r4.length + 1) bl4 r4).rest with
              | stop e r => simp [h7] at h
              | ok u r8 =>
                rw [getcomma_ext 1 _ u r8 t h7]

theorem rcptLoop_env : ∀ (fuel bl : Nat) (inp : Bytes),
    ∀ op ∈ (rcptLoop fuel bl inp).ops, (match op with | .to _ => true | .fail => true | _ => false) = true
  | 0, _, _ => by simp [rcptLoop]
  | _ + 1, 0, _ => by simp [rcptLoop]
  | fuel + 1, bl + 1, inp => by
    simp only [rcptLoop]
    split
    · simp
    · rename_i a ok bl1 r1 _
      have ih := rcptLoop_env fuel bl1 r1
      split
      · intro op hop; simp only [List.mem_cons] at hop
        rcases hop with rfl | hop
        · rfl
        · exact ih op hop
      · intro op hop; simp only [List.mem_cons] at hop
        rcases hop with rfl | hop
        · rfl
        · exact ih op hop

/-- the request was not read completely: no `qmail_close` among the calls, and they have the shape of `okOps` -/
theorem parse_stopped (cfg : Cfg) (inp : Bytes) (h : (parse cfg inp).stop ≠ none) :
    okOps false (parse cfg inp).ops = true := by
  unfold parse at h ⊢
  cases h1 : getlen Nq.Gen.C07.qmqpLenMax Nq.Gen.C07.qmqpOuterDigits 0 inp with
  | stop e r => simp [okOps]
  | ok v1 r0 =>
    obtain ⟨outer, x1⟩ := v1
    simp only [h1] at h ⊢
    cases h2 : getlen Nq.Gen.C07.qmqpLenMax outer 0 r0 with
    | stop e r => simp [okOps]
    | ok v2 r1 =>
      obtain ⟨len, bl1⟩ := v2
      simp only [h2] at h ⊢
      have hp1 : ∀ op ∈ recvOps cfg ++ (body len bl1 r1).ops, pf op = true := by
        intro op hop; simp only [List.mem_append] at hop
        rcases hop with hop | hop
        · exact pf_map_put _ op hop
        · exact body_pf _ _ _ op hop
      have k1 : okOps false (recvOps cfg ++ (body len bl1 r1).ops) = true := by
        simpa [okOps] using okOps_pf_append _ [] (Smtp.pf_match hp1)
      cases h3 : (body len bl1 r1).res with
      | stop e r => simpa using k1
      | ok bl2 r2 =>
        simp only [h3] at h ⊢
        cases h4 : getcomma bl2 r2 with
        | stop e r => simpa using k1
        | ok bl3 r3 =>
          simp only [h4] at h ⊢
          cases h5 : getbuf bl3 r3 with
          | stop e r => simpa using k1
          | ok v5 r4 =>
            obtain ⟨s, sok, bl4⟩ := v5
            simp only [h5] at h ⊢
            have k3 : okOps false (recvOps cfg ++ (body len bl1 r1).ops ++ (if sok = true then [QOp.from_ s] else [QOp.from_ [], QOp.fail]) ++
                (rcptLoop (r4.length + 1) bl4 r4).ops) = true := by
              rw [List.append_assoc, okOps_pf_append _ _ (Smtp.pf_match hp1)]
              have := okOps_env_append (rcptLoop (r4.length + 1) bl4 r4).ops [] (rcptLoop_env _ _ _)
              cases sok <;> simpa [okOps] using this
            cases h6 : (rcptLoop (r4.length + 1) bl4 r4).stop with
            | some e => simpa using k3
            | none =>
              simp only [h6] at h ⊢
              cases h7 : getcomma 1 (rcptLoop (r4.length + 1) bl4 r4).rest with
              | stop e r => simpa using k3
              | ok u r8 => simp [h7] at h

/-- **cut, QMQP.**  If the request is complete after `k` bytes, qmail-qmqpd does not get to `qmail_close` on any
    shorter prefix -/
theorem parse_prefix (cfg : Cfg) (inp : Bytes) (h : (parse cfg inp).stop = none) (j : Nat)
    (hj : j < inp.length - (parse cfg inp).rest.length) : (parse cfg (inp.take j)).stop ≠ none := by
  intro hp
  have := parse_ext cfg (inp.take j) (inp.drop j) hp
  rw [List.take_append_drop] at this
  rw [this] at hj
  simp at hj
  omega

end Qmqp

end Nq.Netstring
