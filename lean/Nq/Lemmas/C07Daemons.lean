/-
  Shape of the call sequences the three daemon models make on qmail.c, and what they mean to send
  (towards C07_content and the protocol half of C07_cut).
-/
import Nq.Netstring
import Nq.Lemmas.C07Qq

namespace Nq.Netstring
open Nq Nq.QmailC Nq.Received

/-- `put` or `fail` -/
def pf : QOp → Bool
  | .put _ => true
  | .fail => true
  | _ => false

theorem pf_plain {op : QOp} (h : pf op = true) : op.plain = true := by
  cases op <;> simp_all [pf, QOp.plain]

theorem stream_pf : ∀ (ops : List QOp), (∀ op ∈ ops, pf op = true) → stream ops = Qmtp.putBytes ops
  | [], _ => rfl
  | op :: ops, h => by
    have ih := stream_pf ops (fun o ho => h o (by simp [ho]))
    have hop := h op (by simp)
    cases op <;> simp_all [pf, stream, Qmtp.putBytes]

theorem putBytes_append (a b : List QOp) : Qmtp.putBytes (a ++ b) = Qmtp.putBytes a ++ Qmtp.putBytes b := by
  induction a with
  | nil => rfl
  | cons op a ih => cases op <;> simp [Qmtp.putBytes, ih, List.append_assoc]

theorem putBytes_map_put (l : List Bytes) : Qmtp.putBytes (l.map QOp.put) = l.flatten := by
  induction l with
  | nil => rfl
  | cons b l ih => simp [Qmtp.putBytes, ih]

theorem pf_map_put (l : List Bytes) : ∀ op ∈ l.map QOp.put, pf op = true := by
  intro op h; rw [List.mem_map] at h; obtain ⟨b, _, rfl⟩ := h; rfl

theorem safeputPieces_flatten (s : Bytes) : (safeputPieces s).flatten = safeput s := by
  unfold safeputPieces safeput
  induction cstr s with
  | nil => rfl
  | cons c r ih => simp [ih]

theorem receivedPieces_flatten (proto : Bytes) (p : Peer) (helo : Option Bytes) (t : Nat) :
    (receivedPieces proto p helo t).flatten = received proto p helo t := by
  unfold receivedPieces received
  cases helo <;> cases p.info <;> simp [safeputPieces_flatten, List.append_assoc]

theorem ovfOps_pf (bto : Nat) (c : Byte) : ∀ op ∈ ovfOps bto c, pf op = true := by
  intro op h; unfold ovfOps at h; split at h <;> simp at h <;> rcases h with rfl | rfl <;> rfl

theorem ovfOps_bytes (bto : Nat) (c : Byte) : Qmtp.putBytes (ovfOps bto c) = [c] := by
  unfold ovfOps; split <;> simp [Qmtp.putBytes]

/-! ### qmail-smtpd -/
namespace Smtp
open Nq.SmtpIn

theorem ovfList_pf : ∀ (bs : Bytes) (bto : Nat), ∀ op ∈ ovfList bto bs, pf op = true
  | [], _ => by simp [ovfList]
  | c :: r, bto => by
    intro op h
    simp only [ovfList, List.mem_append] at h
    rcases h with h | h
    · exact ovfOps_pf bto c op h
    · exact ovfList_pf r _ op h

theorem ovfList_bytes : ∀ (bs : Bytes) (bto : Nat), Qmtp.putBytes (ovfList bto bs) = bs
  | [], _ => rfl
  | c :: r, bto => by simp [ovfList, putBytes_append, ovfOps_bytes, ovfList_bytes r]

theorem blast_pf : ∀ (inp : Bytes) (s : DSt) (bto : Nat), ∀ op ∈ (blast s bto inp).ops, pf op = true
  | [], _, _ => by simp [blast]
  | c :: inp, s, bto => by
    intro op h
    unfold blast at h
    split at h
    · simp only [List.mem_append] at h
      rcases h with h | h
      · exact ovfList_pf _ _ op h
      · exact blast_pf inp _ _ op h
    · simp at h
    · simp at h

/-- what `blast` stores is what the automaton of C05 (`drun`) accepts, with the same unread remainder -/
theorem blast_stored : ∀ (inp : Bytes) (s : DSt) (bto : Nat) (rest : Bytes),
    (blast s bto inp).fin = .done rest → drun s inp = .accepted (Qmtp.putBytes (blast s bto inp).ops) rest
  | [], _, _, _, h => by simp [blast] at h
  | c :: inp, s, bto, rest, h => by
    unfold blast at h ⊢
    unfold drun
    split at h
    · rename_i bs hd
      simp only [hd]
      have ih := blast_stored inp (dstep s c).1 (decN bto bs.length) rest (by simpa using h)
      rw [ih]
      simp [emit, putBytes_append, ovfList_bytes]
    · rename_i hd
      simp only [hd]
      simp at h
      simp [Qmtp.putBytes, h]
    · simp at h

theorem putBytes_ite_fail (c : Prop) [Decidable c] : Qmtp.putBytes (if c then [QOp.fail] else []) = [] := by
  split <;> rfl

/-- shape of smtp_data()'s calls when DATA was terminated -/
theorem data_shape (cfg : Cfg) (helo : Option Bytes) (mailfrom rcptto inp : Bytes)
    (h : (data cfg helo mailfrom rcptto inp).stop = none) :
    ∃ mops, (∀ op ∈ mops, pf op = true) ∧
      (data cfg helo mailfrom rcptto inp).ops = mops ++ [.from_ mailfrom] ++ [.put rcptto] ++ [.close] ∧
      Qmtp.putBytes mops = received pSMTP cfg.peer (fakehelo cfg.peer helo) cfg.now ++ (data cfg helo mailfrom rcptto inp).stored ∧
      dblast inp = .accepted (data cfg helo mailfrom rcptto inp).stored (data cfg helo mailfrom rcptto inp).rest := by
  unfold data at h ⊢
  simp only at h ⊢
  split at h
  · simp at h
  · simp at h
  · rename_i rest hfin
    simp only [hfin]
    refine ⟨(receivedPieces pSMTP cfg.peer (fakehelo cfg.peer helo) cfg.now).map QOp.put ++
        (blast .s1 (if cfg.databytes = 0 then 0 else cfg.databytes + 1) inp).ops ++
        (if hopsOf (inp.take (inp.length - rest.length)) ≥ Nq.Gen.MAXHOPS then [QOp.fail] else []), ?_, ?_, ?_, ?_⟩
    · intro op hop
      simp only [List.mem_append] at hop
      rcases hop with (hop | hop) | hop
      · exact pf_map_put _ op hop
      · exact blast_pf _ _ _ op hop
      · split at hop <;> simp at hop; subst hop; rfl
    · simp [List.append_assoc]
    · simp only [putBytes_append, putBytes_map_put, receivedPieces_flatten, putBytes_ite_fail, List.append_nil]
    · unfold dblast
      exact blast_stored _ _ _ _ hfin

/-- `pf` in the form `okOps_pf_append` wants -/
theorem pf_match {ops : List QOp} (h : ∀ op ∈ ops, pf op = true) :
    ∀ op ∈ ops, (match op with | .put _ => true | .fail => true | _ => false) = true := by
  intro op ho; have := h op ho; cases op <;> simp_all [pf]

theorem data_fin (cfg : Cfg) (helo : Option Bytes) (mailfrom rcptto inp : Bytes) :
    ((data cfg helo mailfrom rcptto inp).stop = none ↔
      ∃ r, (blast .s1 (if cfg.databytes = 0 then 0 else cfg.databytes + 1) inp).fin = .done r) ∧
    (∀ r, (blast .s1 (if cfg.databytes = 0 then 0 else cfg.databytes + 1) inp).fin = .done r →
      (data cfg helo mailfrom rcptto inp).rest = r) := by
  unfold data
  simp only
  split <;> simp_all

/-- DATA not terminated (client gone, stray LF): only `put`/`fail` calls were made — no `qmail_from`, no `qmail_close` -/
theorem data_stopped (cfg : Cfg) (helo : Option Bytes) (mailfrom rcptto inp : Bytes)
    (h : (data cfg helo mailfrom rcptto inp).stop ≠ none) :
    okOps false (data cfg helo mailfrom rcptto inp).ops = true := by
  unfold data at h ⊢
  simp only at h ⊢
  have hp : ∀ op ∈ (receivedPieces pSMTP cfg.peer (fakehelo cfg.peer helo) cfg.now).map QOp.put ++
      (blast .s1 (if cfg.databytes = 0 then 0 else cfg.databytes + 1) inp).ops, pf op = true := by
    intro op hop; simp only [List.mem_append] at hop
    rcases hop with hop | hop
    · exact pf_map_put _ op hop
    · exact blast_pf _ _ _ op hop
  have := okOps_pf_append _ [] (pf_match hp)
  split at h
  · simpa [okOps] using this
  · simpa [okOps] using this
  · simp at h

/-- more input after the terminator changes nothing but the unread remainder -/
theorem blast_ext : ∀ (p : Bytes) (s : DSt) (bto : Nat) (rest t : Bytes),
    (blast s bto p).fin = .done rest →
    blast s bto (p ++ t) = ⟨(blast s bto p).ops, (blast s bto p).bto, .done (rest ++ t)⟩
  | [], _, _, _, _, h => by simp [blast] at h
  | c :: p, s, bto, rest, t, h => by
    simp only [List.cons_append]
    unfold blast at h ⊢
    split
    · rename_i bs hd
      simp only [hd] at h
      have ih := blast_ext p (dstep s c).1 (decN bto bs.length) rest t (by simpa using h)
      simp only [ih]
    · rename_i hd
      simp only [hd] at h
      simp at h
      simp [h]
    · rename_i hd
      simp only [hd] at h
      simp at h

/-- **cut, SMTP.**  If DATA is terminated after `k` bytes of the stream, then for every shorter prefix of the stream
    smtp_data() does not get to `qmail_from`/`qmail_close` -/
theorem data_prefix (cfg : Cfg) (helo : Option Bytes) (mailfrom rcptto inp : Bytes)
    (h : (data cfg helo mailfrom rcptto inp).stop = none) (j : Nat)
    (hj : j < inp.length - (data cfg helo mailfrom rcptto inp).rest.length) :
    (data cfg helo mailfrom rcptto (inp.take j)).stop ≠ none := by
  intro hp
  have f1 := data_fin cfg helo mailfrom rcptto inp
  have f2 := data_fin cfg helo mailfrom rcptto (inp.take j)
  obtain ⟨r, hr⟩ := f2.1.mp hp
  have hext := blast_ext (inp.take j) .s1 (if cfg.databytes = 0 then 0 else cfg.databytes + 1) r (inp.drop j) hr
  rw [List.take_append_drop] at hext
  have hfin : (blast .s1 (if cfg.databytes = 0 then 0 else cfg.databytes + 1) inp).fin = .done (r ++ inp.drop j) := by
    rw [hext]
  have := f1.2 _ hfin
  rw [this] at hj
  simp at hj
  omega

end Smtp

/-! ### qmail-qmtpd -/
namespace Qmtp

theorem pre_ops (o : List QOp) (r : BodyRes) : (r.pre o).ops = o ++ r.ops := rfl
theorem pre_rest (o : List QOp) (r : BodyRes) : (r.pre o).rest = r.rest := rfl

theorem unixBody_pf : ∀ (len : Nat) (inp : Bytes), ∀ op ∈ (unixBody len inp).ops, pf op = true
  | 0, _ => by simp [unixBody]
  | _ + 1, [] => by simp [unixBody]
  | len + 1, c :: inp => by
    intro op hop
    simp only [unixBody, pre_ops, List.mem_append, List.mem_singleton] at hop
    rcases hop with rfl | hop
    · rfl
    · exact unixBody_pf len inp op hop

theorem dosBody_pf : ∀ (len : Nat) (pend : Bool) (bto : Nat) (inp : Bytes), ∀ op ∈ (dosBody len pend bto inp).ops, pf op = true
  | 0, _, _, _ => by simp [dosBody]
  | _ + 1, _, _, [] => by simp [dosBody]
  | len + 1, false, bto, c :: inp => by
    intro op hop
    rw [dosBody] at hop
    split at hop
    · exact dosBody_pf len true bto inp op hop
    · simp only [pre_ops, List.mem_append] at hop
      rcases hop with hop | hop
      · exact ovfOps_pf _ _ op hop
      · exact dosBody_pf len false _ inp op hop
  | len + 1, true, bto, c :: inp => by
    intro op hop
    rw [dosBody] at hop
    split at hop
    · simp only [pre_ops, List.mem_append] at hop
      rcases hop with hop | hop
      · exact ovfOps_pf _ _ op hop
      · exact dosBody_pf len false _ inp op hop
    · split at hop
      · simp only [pre_ops, List.mem_append] at hop
        rcases hop with hop | hop
        · exact ovfOps_pf _ _ op hop
        · exact dosBody_pf len true _ inp op hop
      · simp only [pre_ops, List.mem_append] at hop
        rcases hop with (hop | hop) | hop
        · exact ovfOps_pf _ _ op hop
        · exact ovfOps_pf _ _ op hop
        · exact dosBody_pf len false _ inp op hop

theorem RL.pre_ops (o : List QOp) (f : Byte) (a : List Bytes) (r : RL) : (r.pre o f a).ops = o ++ r.ops := rfl
theorem RL.pre_rcpts (o : List QOp) (f : Byte) (a : List Bytes) (r : RL) : (r.pre o f a).rcpts = a ++ r.rcpts := rfl

theorem rcptLoop_shape (cfg : Cfg) : ∀ (fuel big : Nat) (inp : Bytes),
    (∀ op ∈ (rcptLoop cfg fuel big inp).ops, op.plain = true) ∧
    stream (rcptLoop cfg fuel big inp).ops = entries (rcptLoop cfg fuel big inp).rcpts
  | 0, _, _ => by simp [rcptLoop, stream, entries]
  | _ + 1, 0, _ => by simp [rcptLoop, stream, entries]
  | fuel + 1, big + 1, inp => by
    rw [rcptLoop] <;> try (intro h0; omega)
    split
    · simp [stream, entries]
    · rename_i len big1 r1 _
      split
      · simp [stream, entries]
      · split
        · simp [stream, entries]
        · rename_i a r2 _
          simp only []
          split
          · split <;> simp [stream, entries, entry, QOp.plain]
          · rename_i r3 _
            have ih := rcptLoop_shape cfg fuel (big1 - (len + 1)) r3
            rw [RL.pre_ops, RL.pre_rcpts]
            refine ⟨?_, ?_⟩
            · intro op hop
              simp only [List.mem_append] at hop
              rcases hop with hop | hop
              · split at hop <;> simp at hop; subst hop; rfl
              · exact ih.1 op hop
            · rw [stream_append, ih.2]
              split <;> simp [stream, entries]

/-- shape of qmail-qmtpd's calls for a message that was read completely -/
theorem msg_shape (cfg : Cfg) (inp : Bytes) (h : (msg cfg inp).stop = none) :
    ∃ mops eops sbuf, (∀ op ∈ mops, pf op = true) ∧ (∀ op ∈ eops, op.plain = true) ∧
      (msg cfg inp).ops = mops ++ [.from_ sbuf] ++ eops ++ [.close] ∧
      Qmtp.putBytes mops = received pQMTP cfg.peer none cfg.now ++ (msg cfg inp).stored ∧
      (msg cfg inp).sender = cstr sbuf ∧
      stream eops = entries (msg cfg inp).rcpts := by
  unfold msg at h ⊢
  cases h1 : getlen Nq.Gen.C07.qmtpLenMax 0 inp with
  | stop e r => simp [h1] at h
  | ok len r0 =>
    simp only [h1] at h ⊢
    by_cases hl : len = 0
    · simp [hl] at h
    · simp only [hl, ↓reduceIte] at h ⊢
      cases r0 with
      | nil => simp at h
      | cons c r1 =>
        simp only at h ⊢
        by_cases hc : c ≠ LF ∧ c ≠ CR
        · simp [hc] at h
        · simp only [hc, ↓reduceIte] at h ⊢
          have hbpf : ∀ op ∈ (if c = CR then dosBody (len - 1) false (if cfg.databytes = 0 then 0 else cfg.databytes + 1) r1
              else BodyRes.pre (if c = LF ∧ cfg.databytes ≠ 0 ∧ len - 1 > cfg.databytes then [QOp.fail] else [])
                (unixBody (len - 1) r1)).ops, pf op = true := by
            intro op hop
            split at hop
            · exact dosBody_pf _ _ _ _ op hop
            · rw [pre_ops, List.mem_append] at hop
              rcases hop with hop | hop
              · split at hop <;> simp at hop; subst hop; rfl
              · exact unixBody_pf _ _ op hop
          generalize (if c = CR then dosBody (len - 1) false (if cfg.databytes = 0 then 0 else cfg.databytes + 1) r1
              else BodyRes.pre (if c = LF ∧ cfg.databytes ≠ 0 ∧ len - 1 > cfg.databytes then [QOp.fail] else [])
                (unixBody (len - 1) r1)) = b at h hbpf ⊢
          cases h2 : b.rest with
          | none => simp [h2] at h
          | some r2 =>
            simp only [h2] at h ⊢
            cases h3 : getcomma r2 with
            | stop e r => simp [h3] at h
            | ok u3 r3 =>
              simp only [h3] at h ⊢
              cases h4 : getlen Nq.Gen.C07.qmtpLenMax 0 r3 with
              | stop e r => simp [h4] at h
              | ok slen r4 =>
                simp only [h4] at h ⊢
                cases h5 : getbytes slen r4 with
                | stop e r => simp [h5] at h
                | ok sraw r5 =>
                  simp only [h5] at h ⊢
                  cases h6 : getcomma r5 with
                  | stop e r => simp [h6] at h
                  | ok u6 r6 =>
                    simp only [h6] at h ⊢
                    cases h7 : getlen Nq.Gen.C07.qmtpLenMax 0 r6 with
                    | stop e r => simp [h7] at h
                    | ok biglen r7 =>
                      simp only [h7] at h ⊢
                      cases h8 : (rcptLoop cfg (r7.length + 1) biglen r7).stop with
                      | some e => simp [h8] at h
                      | none =>
                        simp only [h8] at h ⊢
                        cases h9 : getcomma (rcptLoop cfg (r7.length + 1) biglen r7).rest with
                        | stop e r => simp [h9] at h
                        | ok u9 r8 =>
                          simp only [h9]
                          have hrl := rcptLoop_shape cfg (r7.length + 1) biglen r7
                          refine ⟨recvOps cfg ++ b.ops,
                            (if (!decide (slen ≥ Nq.Gen.C07.qmtpAddrMax) && !sraw.contains 0) = true then [] else [QOp.fail]) ++
                              (rcptLoop cfg (r7.length + 1) biglen r7).ops ++
                              (if (rcptLoop cfg (r7.length + 1) biglen r7).failure.contains 0 = true then [] else [QOp.fail]),
                            (if slen ≥ Nq.Gen.C07.qmtpAddrMax then [] else sraw), ?_, ?_, ?_, ?_, ?_, ?_⟩
                          · intro op hop
                            simp only [List.mem_append] at hop
                            rcases hop with hop | hop
                            · exact pf_map_put _ op hop
                            · exact hbpf op hop
                          · intro op hop
                            simp only [List.mem_append] at hop
                            rcases hop with (hop | hop) | hop
                            · split at hop <;> simp at hop; subst hop; rfl
                            · exact hrl.1 op hop
                            · split at hop <;> simp at hop; subst hop; rfl
                          · simp [List.append_assoc]
                          · simp [putBytes_append, recvOps, putBytes_map_put, receivedPieces_flatten]
                          · rfl
                          · rw [stream_append, stream_append, hrl.2]
                            have e1 : ∀ (p : Prop) [Decidable p], stream (if p then [] else [QOp.fail]) = [] := by
                              intro p _; split <;> rfl
                            simp [e1]

end Qmtp

/-! ### qmail-qmqpd -/
namespace Qmqp

theorem body_pf : ∀ (len bl : Nat) (inp : Bytes), ∀ op ∈ (body len bl inp).ops, pf op = true
  | 0, _, _ => by simp [body]
  | _ + 1, 0, _ => by simp [body]
  | _ + 1, _ + 1, [] => by simp [body]
  | len + 1, bl + 1, c :: rest => by
    intro op hop
    simp only [body, List.mem_cons] at hop
    rcases hop with rfl | hop
    · rfl
    · exact body_pf len bl rest op hop

theorem rcptLoop_shape : ∀ (fuel bl : Nat) (inp : Bytes),
    (∀ op ∈ (rcptLoop fuel bl inp).ops, op.plain = true) ∧
    stream (rcptLoop fuel bl inp).ops = entries (rcptLoop fuel bl inp).rcpts
  | 0, _, _ => by simp [rcptLoop, stream, entries]
  | _ + 1, 0, _ => by simp [rcptLoop, stream, entries]
  | fuel + 1, bl + 1, inp => by
    rw [rcptLoop] <;> try (intro h0; omega)
    split
    · simp [stream, entries]
    · rename_i a ok bl1 r1 _
      have ih := rcptLoop_shape fuel bl1 r1
      simp only []
      split
      · refine ⟨?_, ?_⟩
        · intro op hop; simp only [List.mem_cons] at hop
          rcases hop with rfl | hop
          · rfl
          · exact ih.1 op hop
        · have h2 := ih.2
          simp only [stream, entries, List.map_cons, List.flatten_cons] at h2 ⊢
          rw [h2]
      · refine ⟨?_, ?_⟩
        · intro op hop; simp only [List.mem_cons] at hop
          rcases hop with rfl | hop
          · rfl
          · exact ih.1 op hop
        · simpa [stream] using ih.2

/-- shape of qmail-qmqpd's calls when the whole request was read -/
theorem parse_shape (cfg : Cfg) (inp : Bytes) (h : (parse cfg inp).stop = none) :
    ∃ mops eops, (∀ op ∈ mops, pf op = true) ∧ (∀ op ∈ eops, op.plain = true) ∧
      (parse cfg inp).ops = mops ++ [.from_ (parse cfg inp).sender] ++ eops ++ [.close] ∧
      Qmtp.putBytes mops = received pQMQP cfg.peer none cfg.now ++ (parse cfg inp).stored ∧
      stream eops = entries (parse cfg inp).rcpts := by
  unfold parse at h ⊢
  cases h1 : getlen Nq.Gen.C07.qmqpLenMax Nq.Gen.C07.qmqpOuterDigits 0 inp with
  | stop e r => simp [h1] at h
  | ok v1 r0 =>
    obtain ⟨outer, x1⟩ := v1
    simp only [h1] at h ⊢
    cases h2 : getlen Nq.Gen.C07.qmqpLenMax outer 0 r0 with
    | stop e r => simp [h2] at h
    | ok v2 r1 =>
      obtain ⟨len, bl1⟩ := v2
      simp only [h2] at h ⊢
      cases h3 : (body len bl1 r1).res with
      | stop e r => simp [h3] at h
      | ok bl2 r2 =>
        simp only [h3] at h ⊢
        cases h4 : getcomma bl2 r2 with
        | stop e r => simp [h4] at h
        | ok bl3 r3 =>
          simp only [h4] at h ⊢
          cases h5 : getbuf bl3 r3 with
          | stop e r => simp [h5] at h
          | ok v5 r4 =>
            obtain ⟨s, sok, bl4⟩ := v5
            simp only [h5] at h ⊢
            cases h6 : (rcptLoop (r4.length + 1) bl4 r4).stop with
            | some e => simp [h6] at h
            | none =>
              simp only [h6] at h ⊢
              cases h7 : getcomma 1 (rcptLoop (r4.length + 1) bl4 r4).rest with
              | stop e r => simp [h7] at h
              | ok u r8 =>
                simp only [h7]
                have hrl := rcptLoop_shape (r4.length + 1) bl4 r4
                refine ⟨recvOps cfg ++ (body len bl1 r1).ops,
                        (if sok = true then [] else [QOp.fail]) ++ (rcptLoop (r4.length + 1) bl4 r4).ops, ?_, ?_, ?_, ?_, ?_⟩
                · intro op hop
                  simp only [List.mem_append] at hop
                  rcases hop with hop | hop
                  · exact pf_map_put _ op hop
                  · exact body_pf _ _ _ op hop
                · intro op hop
                  simp only [List.mem_append] at hop
                  rcases hop with hop | hop
                  · split at hop <;> simp at hop; subst hop; rfl
                  · exact hrl.1 op hop
                · cases sok <;> simp [List.append_assoc]
                · simp [putBytes_append, recvOps, putBytes_map_put, receivedPieces_flatten]
                · rw [stream_append, hrl.2]
                  cases sok <;> simp [stream]

end Qmqp

end Nq.Netstring
