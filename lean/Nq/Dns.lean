/-
  Nq.Dns — dns.c: the index arithmetic of resolve() (question section), findname(), findip(),
  findmx() over a response of `responselen` bytes.

  `responsepos` / `responseend` are offsets into the response (`pos`, `resp.length`).
  libresolv's `dn_expand(msg,eom,src,…)` is not modelled: it is a parameter `dn : Nat → Option Nat`
  (offset ↦ `none` for -1, `some i` for the number of bytes the compressed name occupies) and the
  theorems quantify over every `dn` that honours its documented contract (`DnOk`: the name it
  measured lies inside the message).  Every byte dns.c itself reads is logged in `reads`, every
  offset handed to `dn_expand` in `dns`.  `fixed = false` is the code before commit 367ee1b
  (no comparison of RDLENGTH with the bytes left).  Core Lean only.
-/
import Nq.Basic

namespace Nq.Dns

def HFIXEDSZ : Nat := 12      -- sizeof(HEADER)
def QFIXEDSZ : Nat := 4
def RRFIXED : Nat := 10       -- 4 + 3 * 2

inductive Kind | name | ip | mx
  deriving Repr, DecidableEq, BEq

/-- result of one `find*()` call -/
inductive R
  | soft                          -- DNS_SOFT
  | done                          -- 2: no answers left
  | skip                          -- 0: record of another type
  | name                          -- 1 from findname (the expanded name is in `name`)
  | ip (a b c d : Byte)           -- 1 from findip
  | mx (pref : Nat)               -- 1 from findmx
  deriving Repr, DecidableEq, BEq

/-- the statics `responsepos` (as an offset) and `numanswers` -/
structure St where
  pos : Nat
  num : Nat
  deriving Repr, DecidableEq, BEq

structure Step where
  r : R
  st : St
  reads : List Nat := []          -- offsets of the response bytes dns.c read in this call
  dns : List Nat := []            -- offsets handed to dn_expand in this call
  deriving Repr, DecidableEq, BEq

def byteAt (resp : Bytes) (i : Nat) : Byte := resp.getD i 0

/-- `getshort(c)` -/
def getshort (resp : Bytes) (i : Nat) : Nat := (byteAt resp i).toNat * 256 + (byteAt resp (i + 1)).toNat

/-- `findname` / `findip` / `findmx` (they differ only after the type test) -/
def find (k : Kind) (fixed : Bool) (resp : Bytes) (dn : Nat → Option Nat) (want : Nat) (st : St) : Step :=
  let len := resp.length
  -- if (numanswers <= 0) return 2; --numanswers;
  if st.num = 0 then ⟨.done, st, [], []⟩ else
  let num := st.num - 1
  -- if (responsepos == responseend) return DNS_SOFT;
  if st.pos = len then ⟨.soft, ⟨st.pos, num⟩, [], []⟩ else
  -- i = dn_expand(...); if (i < 0) return DNS_SOFT; responsepos += i;
  match dn st.pos with
  | none => ⟨.soft, ⟨st.pos, num⟩, [], [st.pos]⟩
  | some i =>
    let p1 := st.pos + i
    -- i = responseend - responsepos; if (i < 4 + 3 * 2) return DNS_SOFT;
    if len < p1 + RRFIXED then ⟨.soft, ⟨p1, num⟩, [], [st.pos]⟩ else
    -- rrtype = getshort(responsepos); rrdlen = getshort(responsepos + 8); responsepos += 10;
    let rrtype := getshort resp p1
    let rrdlen := getshort resp (p1 + 8)
    let rd := [p1, p1 + 1, p1 + 8, p1 + 9]
    let p2 := p1 + RRFIXED
    -- if (rrdlen > responseend - responsepos) return DNS_SOFT;      [commit 367ee1b]
    if fixed && decide (rrdlen > len - p2) then ⟨.soft, ⟨p2, num⟩, rd, [st.pos]⟩ else
    if rrtype = want then
      match k with
      | .name =>
          -- if (dn_expand(response.buf,responseend,responsepos,name,MAXDNAME) < 0) return DNS_SOFT;
          match dn p2 with
          | none => ⟨.soft, ⟨p2, num⟩, rd, [st.pos, p2]⟩
          | some _ => ⟨.name, ⟨p2 + rrdlen, num⟩, rd, [st.pos, p2]⟩
      | .ip =>
          -- if (rrdlen < 4) return DNS_SOFT; ip.d[0..3] = responsepos[0..3];
          if rrdlen < 4 then ⟨.soft, ⟨p2, num⟩, rd, [st.pos]⟩ else
          ⟨.ip (byteAt resp p2) (byteAt resp (p2 + 1)) (byteAt resp (p2 + 2)) (byteAt resp (p2 + 3)),
           ⟨p2 + rrdlen, num⟩, rd ++ [p2, p2 + 1, p2 + 2, p2 + 3], [st.pos]⟩
      | .mx =>
          -- if (rrdlen < 3) return DNS_SOFT; pref = (responsepos[0] << 8) + responsepos[1];
          if rrdlen < 3 then ⟨.soft, ⟨p2, num⟩, rd, [st.pos]⟩ else
          -- if (dn_expand(response.buf,responseend,responsepos + 2,name,MAXDNAME) < 0) return DNS_SOFT;
          match dn (p2 + 2) with
          | none => ⟨.soft, ⟨p2, num⟩, rd ++ [p2, p2 + 1], [st.pos, p2 + 2]⟩
          | some _ => ⟨.mx (getshort resp p2), ⟨p2 + rrdlen, num⟩, rd ++ [p2, p2 + 1], [st.pos, p2 + 2]⟩
    else
      -- responsepos += rrdlen; return 0;
      ⟨.skip, ⟨p2 + rrdlen, num⟩, rd, [st.pos]⟩

/-- the callers' loop `while ((r = find*(T)) != 2) { if (r == DNS_SOFT) return DNS_SOFT; … }` -/
def walk (k : Kind) (fixed : Bool) (resp : Bytes) (dn : Nat → Option Nat) (want : Nat) : Nat → St → List Step
  | 0, _ => []
  | fuel + 1, st =>
      let s := find k fixed resp dn want st
      match s.r with
      | .soft => [s]
      | .done => [s]
      | _ => s :: walk k fixed resp dn want fuel s.st

/-- result of the question-section walk of `resolve()` -/
structure QRes where
  ok : Bool                       -- false: DNS_SOFT
  pos : Nat
  dns : List Nat := []
  deriving Repr, DecidableEq, BEq

/-- `while (n-- > 0) { i = dn_expand(…); if (i < 0) return DNS_SOFT; responsepos += i;
     i = responseend - responsepos; if (i < QFIXEDSZ) return DNS_SOFT; responsepos += QFIXEDSZ; }` -/
def questions (resp : Bytes) (dn : Nat → Option Nat) : Nat → Nat → QRes
  | 0, pos => ⟨true, pos, []⟩
  | n + 1, pos =>
      match dn pos with
      | none => ⟨false, pos, [pos]⟩
      | some i =>
        if resp.length < pos + i + QFIXEDSZ then ⟨false, pos + i, [pos]⟩ else
        let r := questions resp dn n (pos + i + QFIXEDSZ)
        ⟨r.ok, r.pos, pos :: r.dns⟩

/-- `resolve()` after a successful lookup: header counts, question walk, `numanswers` -/
def resolve (resp : Bytes) (dn : Nat → Option Nat) : QRes × St :=
  let q := questions resp dn (getshort resp 4) HFIXEDSZ
  (q, ⟨q.pos, getshort resp 6⟩)

/-- the contract of `dn_expand`: a name it accepted lies inside the message -/
def DnOk (resp : Bytes) (dn : Nat → Option Nat) : Prop := ∀ p i, dn p = some i → p + i ≤ resp.length

/-- every offset dns.c read in this step is inside the response, every offset given to dn_expand is
at most the end, and `responsepos` does not pass `responseend` -/
def StepIn (resp : Bytes) (s : Step) : Prop :=
  (∀ i ∈ s.reads, i < resp.length) ∧ (∀ p ∈ s.dns, p ≤ resp.length) ∧ s.st.pos ≤ resp.length

instance (resp : Bytes) (s : Step) : Decidable (StepIn resp s) := by unfold StepIn; infer_instance

end Nq.Dns
