/-
  Nq.Substdio — substdo.c (flush / put / bput / putflush over allwrite) and substdi.c
  (feed / getthis / get over oneread) as pure functions over a buffer record.

  The `op` function pointer (write / read with arbitrary short counts and errors) is a *script*:
  a list of numbers answering successive calls — `0` = the call fails (-1, errno ≠ EINTR),
  `k+1` = "transfer at most k+1 bytes"; an exhausted script transfers everything asked for.
  Every theorem quantifies over all scripts, i.e. over every chunking the kernel may choose.
  Each operation logs the ranges of the buffer `x` it copies to / from (`cp`), so that
  "every byte_copy is inside the buffer" is a statement about the model's output.
  `int` / `unsigned int` conversions are written out (`usub32`).  Core Lean only.
-/
import Nq.Basic

namespace Nq.Substdio

def U32 : Nat := 4294967296
def OUTSIZE : Nat := 8192           -- SUBSTDIO_OUTSIZE

/-- `(unsigned int)(a - b)` for C ints `0 ≤ a, b < 2^31` -/
def usub32 (a b : Nat) : Nat := if b ≤ a then a - b else U32 - (b - a)

/-! ## output: substdo.c -/

/-- `allwrite(op,fd,buf,len)`: returns (rest of script, bytes the kernel took, success) -/
def allwrite : List Nat → Bytes → List Nat × Bytes × Bool
  | ws, [] => (ws, [], true)
  | [], b => ([], b, true)
  | 0 :: ws, _ :: _ => (ws, [], false)
  | (k + 1) :: ws, c :: b =>
      if (c :: b).length ≤ k + 1 then (ws, c :: b, true)
      else
        let r := allwrite ws ((c :: b).drop (k + 1))
        (r.1, (c :: b).take (k + 1) ++ r.2.1, r.2.2)

structure OSt where
  n : Nat                       -- s->n: size of the buffer x
  p : Nat := 0                  -- s->p: bytes buffered
  buf : Bytes := []             -- x[0..p)
  out : Bytes := []             -- ghost: everything op has taken so far
  ws : List Nat := []           -- rest of the write script
  cp : List (Nat × Nat) := []   -- ghost: (offset in x, count) of every byte_copy into x, newest first
  deriving Repr, DecidableEq, BEq

/-- `substdio_flush` -/
def flush (s : OSt) : OSt × Bool :=
  if s.p = 0 then (s, true) else
  let r := allwrite s.ws s.buf
  ({ s with p := 0, buf := [], out := s.out ++ r.2.1, ws := r.1 }, r.2.2)

/-- `byte_copy(s->x + s->p,k,buf); s->p += k;` -/
def copyIn (s : OSt) (d : Bytes) : OSt :=
  { s with p := s.p + d.length, buf := s.buf ++ d, cp := (s.p, d.length) :: s.cp }

/-- the `while (len > (n = s->n - s->p))` loop of `substdio_bput` and its tail -/
def bputLoop : Nat → OSt → Bytes → OSt × Bool
  | 0, s, _ => (s, false)       -- not reached: fuel = len + 2
  | fuel + 1, s, d =>
      let n := usub32 s.n s.p
      if d.length > n then
        let r := flush (copyIn s (d.take n))
        if r.2 then bputLoop fuel r.1 (d.drop n) else (r.1, false)
      else (copyIn s d, true)

def bput (s : OSt) (d : Bytes) : OSt × Bool := bputLoop (d.length + 2) s d

/-- the `while (len > (unsigned int)s->n)` loop of `substdio_put`: direct writes of `min n len` bytes -/
def putLoop : Nat → Nat → OSt → Bytes → OSt × Bytes × Bool
  | 0, _, s, d => (s, d, false)  -- not reached: fuel = len + 1
  | fuel + 1, n, s, d =>
      if d.length > s.n then
        let n' := if n > d.length then d.length else n
        let r := allwrite s.ws (d.take n')
        let s' := { s with out := s.out ++ r.2.1, ws := r.1 }
        if r.2.2 then putLoop fuel n' s' (d.drop n') else (s', d, false)
      else (s, d, true)

/-- `substdio_put` -/
def put (s : OSt) (d : Bytes) : OSt × Bool :=
  if d.length > usub32 s.n s.p then
    let f := flush s
    if f.2 then
      let n := if s.n < OUTSIZE then OUTSIZE else s.n
      let r := putLoop (d.length + 1) n f.1 d
      if r.2.2 then (copyIn r.1 r.2.1, true) else (r.1, false)
    else (f.1, false)
  else (copyIn s d, true)

/-- `substdio_putflush` -/
def putflush (s : OSt) (d : Bytes) : OSt × Bool :=
  let f := flush s
  if f.2 then
    let r := allwrite f.1.ws d
    ({ f.1 with out := f.1.out ++ r.2.1, ws := r.1 }, r.2.2)
  else (f.1, false)

inductive OOp | put (d : Bytes) | bput (d : Bytes) | flush | putflush (d : Bytes)
  deriving Repr, DecidableEq

def oapply (s : OSt) : OOp → OSt × Bool
  | .put d => put s d
  | .bput d => bput s d
  | .flush => flush s
  | .putflush d => putflush s d

/-- `0 ≤ p ≤ n`, the buffered bytes are the first `p` bytes of `x`, `n` is a positive C int -/
def OWF (s : OSt) : Prop := s.p ≤ s.n ∧ s.buf.length = s.p ∧ 0 < s.n ∧ s.n < 2147483648

instance (s : OSt) : Decidable (OWF s) := by unfold OWF; infer_instance

/-- every logged byte_copy lies inside `x[0..n)` -/
def cpIn (s : OSt) : Prop := ∀ c ∈ s.cp, c.1 + c.2 ≤ s.n

instance (s : OSt) : Decidable (cpIn s) := by unfold cpIn; infer_instance

/-! ## input: substdi.c -/

inductive RR | err | eof | got (b : Bytes)
  deriving Repr, DecidableEq, BEq

/-- `oneread(op,fd,buf,len)` (EINTR retries are invisible): (result, rest of source, rest of script) -/
def oneread (src : Bytes) (rs : List Nat) (len : Nat) : RR × Bytes × List Nat :=
  match rs with
  | 0 :: rs' => (.err, src, rs')
  | (k + 1) :: rs' =>
      let m := min (min (k + 1) len) src.length
      if m = 0 then (.eof, src, rs') else (.got (src.take m), src.drop m, rs')
  | [] =>
      let m := min len src.length
      if m = 0 then (.eof, src, []) else (.got (src.take m), src.drop m, [])

structure ISt where
  size : Nat                    -- ghost: size of the buffer x
  n : Nat                       -- s->n
  p : Nat := 0                  -- s->p
  data : Bytes := []            -- the p unread bytes, at x + n
  src : Bytes := []             -- what the descriptor will still deliver
  rs : List Nat := []           -- rest of the read script
  cp : List (Nat × Nat) := []   -- ghost: (offset in x, count) of every access to x, newest first
  deriving Repr, DecidableEq, BEq

/-- `substdio_feed`: result `.got b` = returned `b.length > 0` (the bytes now available) -/
def feed (s : ISt) : ISt × RR :=
  if s.p ≠ 0 then (s, .got s.data) else
  match oneread s.src s.rs s.n with
  | (.err, src, rs) => ({ s with src := src, rs := rs, cp := (0, s.n) :: s.cp }, .err)
  | (.eof, src, rs) => ({ s with src := src, rs := rs, cp := (0, s.n) :: s.cp }, .eof)
  | (.got b, src, rs) =>
      -- s->p = r; q -= r; s->n = q; if (q > 0) byte_copyr(s->x + q,r,s->x);
      ({ s with p := b.length, n := s.n - b.length, data := b, src := src, rs := rs,
                cp := (s.n - b.length, b.length) :: (0, s.n) :: s.cp }, .got b)

/-- `getthis(s,buf,len)`: the bytes copied to the caller's buffer -/
def getthis (s : ISt) (len : Nat) : ISt × Bytes :=
  let r := if s.p > len then len else s.p
  ({ s with p := s.p - r, n := s.n + r, data := s.data.drop r, cp := (s.n, r) :: s.cp }, s.data.take r)

/-- `substdio_get(s,buf,len)` -/
def get (s : ISt) (len : Nat) : ISt × RR :=
  if s.p > 0 then let g := getthis s len; (g.1, .got g.2) else
  if s.n ≤ len then
    match oneread s.src s.rs len with
    | (r, src, rs) => ({ s with src := src, rs := rs }, r)
  else
    match feed s with
    | (s', .got _) => let g := getthis s' len; (g.1, .got g.2)
    | (s', r) => (s', r)

/-- `substdio_SEEK(s,len)` after `substdio_PEEK`: consume `len ≤ p` buffered bytes in place -/
def seek (s : ISt) (len : Nat) : ISt :=
  { s with p := s.p - len, n := s.n + len, data := s.data.drop len }

/-- `n + p` is the buffer size and the unread bytes are the `p` bytes at `x + n` -/
def IWF (s : ISt) : Prop := s.n + s.p = s.size ∧ s.data.length = s.p

def icpIn (s : ISt) : Prop := ∀ c ∈ s.cp, c.1 + c.2 ≤ s.size

instance (s : ISt) : Decidable (IWF s) := by unfold IWF; infer_instance
instance (s : ISt) : Decidable (icpIn s) := by unfold icpIn; infer_instance

/-- repeated `substdio_get(len)` until end of file or error: the chunks obtained, in order -/
def drain : Nat → ISt → Nat → ISt × List Bytes × Bool
  | 0, s, _ => (s, [], false)
  | fuel + 1, s, len =>
      match get s len with
      | (s', .got b) => let r := drain fuel s' len; (r.1, b :: r.2.1, r.2.2)
      | (s', .eof) => (s', [], true)
      | (s', .err) => (s', [], false)

end Nq.Substdio
