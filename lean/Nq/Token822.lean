/-
  Nq.Token822 — model of token822.c: `token822_parse`, `token822_unquote`, `token822_unparse`
  (with its line folding), `token822_addrlist` (the right-to-left RFC 822 address-list parser).

  `token822_parse` makes two passes with identical control flow (count, then fill); the model is the
  one automaton both passes follow.  One state per place where the C code looks at the next byte:

    top                         the outer `for` / `switch`
    atom acc esc                the `do … while (atomok(...))` loop (esc = a backslash was just read)
    quote / lit acc esc         the `while (level)` loops for `"…"` and `[…]`
    comment lvl acc esc         the same for `( … )`, `lvl` = nesting level − 1
    fail                        `return 0`

  The character tables (`atomok`, `atomcheck`, the single-character tokens, the escape set of
  `token822_unparse`) are regenerated from token822.c on every run (`Nq.Gen.AtomOk`).
-/
import Nq.Basic
import Nq.Gen.AtomOk

namespace Nq.Token822
open Nq

@[reducible] def DQ   : Byte := 34
@[reducible] def BSL  : Byte := 92
@[reducible] def LPAR : Byte := 40
@[reducible] def RPAR : Byte := 41
@[reducible] def LBRK : Byte := 91
@[reducible] def RBRK : Byte := 93

inductive Tok
  | atom (s : Bytes) | quote (s : Bytes) | literal (s : Bytes) | comment (s : Bytes)
  | left | right | at | comma | semi | colon | dot
  deriving DecidableEq, Repr, Inhabited

/-- the TOKEN822_* number -/
def Tok.typ : Tok → Nat
  | .atom _ => Gen.T_ATOM | .quote _ => Gen.T_QUOTE | .literal _ => Gen.T_LITERAL | .comment _ => Gen.T_COMMENT
  | .left => Gen.T_LEFT | .right => Gen.T_RIGHT | .at => Gen.T_AT | .comma => Gen.T_COMMA
  | .semi => Gen.T_SEMI | .colon => Gen.T_COLON | .dot => Gen.T_DOT

def tokOfNum (n : Nat) : Option Tok :=
  if n = Gen.T_LEFT then some .left else if n = Gen.T_RIGHT then some .right
  else if n = Gen.T_AT then some .at else if n = Gen.T_COMMA then some .comma
  else if n = Gen.T_SEMI then some .semi else if n = Gen.T_COLON then some .colon
  else if n = Gen.T_DOT then some .dot else none

/-- the single-character tokens of the outer `switch` -/
def specialTok (c : Byte) : Option Tok :=
  match Gen.specials.lookup c with
  | some n => tokOfNum n
  | none => none

def isWs (c : Byte) : Bool := c == SP || c == TAB || c == CR || c == LF

/-- `atomok(ch)` -/
def atomok (c : Byte) : Bool := !Gen.atomNotOk.contains c

/-- the test of `atomcheck()` for one byte (`char` is signed or unsigned: bytes ≥ 128 fail either way) -/
def atomBad (c : Byte) : Bool :=
  decide (c.toNat < Gen.atomcheckLo) || decide (c.toNat > Gen.atomcheckHi) || Gen.atomcheckBad.contains c

/-- an atom is retyped as a quoted string by `atomcheck()` when it contains a bad byte -/
def atomTok (acc : Bytes) : Tok := if acc.any atomBad then .quote acc else .atom acc

inductive PSt
  | top
  | atom (acc : Bytes) (esc : Bool)
  | quote (acc : Bytes) (esc : Bool)
  | lit (acc : Bytes) (esc : Bool)
  | comment (lvl : Nat) (acc : Bytes) (esc : Bool)
  | fail
  deriving DecidableEq, Repr

/-- the outer `switch(sa->s[i])` -/
def stepTop (c : Byte) : PSt × List Tok :=
  match specialTok c with
  | some t => (.top, [t])
  | none =>
    if isWs c then (.top, [])
    else if c = RPAR ∨ c = RBRK then (.fail, [])
    else if c = LPAR then (.comment 0 [] false, [])
    else if c = DQ then (.quote [] false, [])
    else if c = LBRK then (.lit [] false, [])
    else if c = BSL then (.atom [] true, [])
    else (.atom [c] false, [])

def pstep : PSt → Byte → PSt × List Tok
  | .top, c => stepTop c
  | .atom acc true, c => (.atom (acc ++ [c]) false, [])
  | .atom acc false, c =>
      if atomok c then
        (if c = BSL then (.atom acc true, []) else (.atom (acc ++ [c]) false, []))
      else ((stepTop c).1, atomTok acc :: (stepTop c).2)
  | .quote acc true, c => (.quote (acc ++ [c]) false, [])
  | .quote acc false, c =>
      if c = DQ then (.top, [.quote acc])
      else if c = BSL then (.quote acc true, [])
      else (.quote (acc ++ [c]) false, [])
  | .lit acc true, c => (.lit (acc ++ [c]) false, [])
  | .lit acc false, c =>
      if c = RBRK then (.top, [.literal acc])
      else if c = BSL then (.lit acc true, [])
      else (.lit (acc ++ [c]) false, [])
  | .comment lvl acc true, c => (.comment lvl (acc ++ [c]) false, [])
  | .comment lvl acc false, c =>
      if c = LPAR then (.comment (lvl + 1) acc false, [])
      else if c = RPAR then
        (match lvl with
         | 0 => (.top, [.comment acc])
         | l + 1 => (.comment l acc false, []))
      else if c = BSL then (.comment lvl acc true, [])
      else (.comment lvl (acc ++ [c]) false, [])
  | .fail, _ => (.fail, [])

/-- end of the string -/
def pfinish : PSt → Option (List Tok)
  | .top => some []
  | .atom acc _ => some [atomTok acc]
  | _ => none

def prun : PSt → Bytes → Option (List Tok)
  | s, [] => pfinish s
  | s, c :: r =>
    match prun (pstep s c).1 r with
    | some ts => some ((pstep s c).2 ++ ts)
    | none => none

/-- `token822_parse(ta,sa,buf)`: `none` = return 0 (unbalanced or misplaced delimiter) -/
def parse (s : Bytes) : Option (List Tok) := prun .top s

/-! ### token822_unquote -/

def unqTok : Tok → Bytes
  | .atom s => s
  | .quote s => s
  | .literal s => LBRK :: (s ++ [RBRK])
  | .comment _ => []
  | .left => [60] | .right => [62] | .at => [64] | .comma => [44]
  | .semi => [59] | .colon => [58] | .dot => [46]

def unquote : List Tok → Bytes
  | [] => []
  | t :: r => unqTok t ++ unquote r

/-! ### token822_unparse -/

def isWord : Tok → Bool
  | .atom _ | .quote _ | .literal _ | .comment _ => true
  | _ => false

/-- `needspace(t1,t2)`; `none` = `lasttype == 0` -/
def needspace (last : Option Tok) (t : Tok) : Bool :=
  match last with
  | none => false
  | some l => l == .colon || l == .comma || t == .left || (isWord l && isWord t)

def uescByte (c : Byte) : Bytes := if Gen.unparseEsc.contains c then [BSL, c] else [c]

def uesc : Bytes → Bytes
  | [] => []
  | c :: r => uescByte c ++ uesc r

/-- the text of one token (the comma's fold is handled by `nsuw`) -/
def tokText : Tok → Bytes
  | .atom s => uesc s
  | .quote s => DQ :: (uesc s ++ [DQ])
  | .literal s => LBRK :: (uesc s ++ [RBRK])
  | .comment s => LPAR :: (uesc s ++ [RPAR])
  | .left => [60] | .right => [62] | .at => [64] | .comma => [44]
  | .semi => [59] | .colon => [58] | .dot => [46]

/-- state of the second pass of `token822_unparse`: `out` = bytes written (`s - sa->s` = its length),
`lineb`/`linee` = offsets of the C pointers (`linee = none` is the null pointer) -/
structure USt where
  out : Bytes := []
  lineb : Nat := 0
  linee : Option Nat := none
  last : Option Tok := none
  deriving Repr, DecidableEq

/-- the `NSUW` macro: write a tentative fold "\n " ; if the previous tentative fold turns out to be
unnecessary (the line up to here fits in `linelen`) delete it, else make it permanent -/
def nsuw (linelen : Nat) (u : USt) : USt :=
  let s := u.out.length
  match u.linee with
  | some e =>
    if linelen = 0 ∨ s - u.lineb ≤ linelen then
      { u with out := u.out.take e ++ u.out.drop (e + 2) ++ [LF, SP], linee := some (s - 2) }
    else
      { u with out := u.out ++ [LF, SP], lineb := e + 1, linee := some s }
  | none => { u with out := u.out ++ [LF, SP], linee := some s }

def ustep (linelen : Nat) (u : USt) (t : Tok) : USt :=
  let u1 : USt := { u with out := if needspace u.last t then u.out ++ [SP] else u.out, last := some t }
  let u2 : USt := { u1 with out := u1.out ++ tokText t }
  if t = .comma then nsuw linelen u2 else u2

/-- `token822_unparse(sa,ta,linelen)` -/
def unparse (linelen : Nat) (ts : List Tok) : Bytes :=
  (nsuw linelen (ts.foldl (ustep linelen) {})).out.dropLast

/-! ### token822_addrlist

The C code walks the token array from its last element down to `ta->t + 2` (the first two tokens —
field name and colon — are copied unchanged), collecting address tokens into `taaddr` (so `taaddr`
holds each address in REVERSE order) and everything else into `taout` (also reversed, un-reversed at
the end).  The model consumes the reversed body; `addr` and the callback work on the reversed
address exactly as the C callbacks do. -/

inductive AMode | normal | colon | angle | phrase
  deriving DecidableEq, Repr

structure ASt where
  mode : AMode := .normal
  ingroup : Bool := false
  wordok : Bool := true
  addr : List Tok := []          -- taaddr (index 0 = rightmost token of the address)
  out : List Tok := []           -- taout, most recently appended first (= final order)
  got : List (List Tok) := []    -- the rewritten addresses handed back by the callback, in call order
  failed : Bool := false         -- `return 0`
  deriving Repr, DecidableEq

/-- `gotaddr()`: run the callback on `taaddr` (it may rewrite it), append the result to `taout` -/
def gotaddr (cb : List Tok → List Tok) (a : ASt) : ASt :=
  let r := cb a.addr
  { a with out := r.reverse ++ a.out, addr := [], got := a.got ++ [r] }

def flush (cb : List Tok → List Tok) (a : ASt) : ASt :=
  if a.addr.isEmpty then a else gotaddr cb a

def flushComma (cb : List Tok → List Tok) (a : ASt) : ASt :=
  if a.addr.isEmpty then a else
    let a1 := gotaddr cb a
    { a1 with out := Tok.comma :: a1.out }

def outLeft (t : Tok) (a : ASt) : ASt := { a with out := t :: a.out }
def addrLeft (t : Tok) (a : ASt) : ASt := { a with addr := a.addr ++ [t] }

/-- the `switch(t->type)` at the top of the main loop -/
def astepNormal (cb : List Tok → List Tok) (a : ASt) (t : Tok) : ASt :=
  match t with
  | .semi =>
    let a1 := flushComma cb a
    if a1.ingroup then { a1 with failed := true }
    else outLeft t { a1 with ingroup := true, wordok := true }
  | .colon =>
    let a1 := flush cb a
    if !a1.ingroup then { a1 with failed := true }
    else outLeft t { a1 with ingroup := false, mode := .colon }
  | .right =>
    let a1 := flushComma cb a
    outLeft t { a1 with mode := .angle }
  | .atom _ | .quote _ | .literal _ =>
    let a1 := if !a.wordok then flushComma cb a else a
    addrLeft t { a1 with wordok := false }
  | .comment _ => outLeft t a
  | .comma =>
    let a1 := flush cb a
    outLeft t { a1 with wordok := true }
  | .left | .at | .dot => addrLeft t { a with wordok := true }

def isPhraseTok : Tok → Bool
  | .comment _ | .atom _ | .quote _ | .at | .dot => true
  | _ => false

def astep (cb : List Tok → List Tok) (a : ASt) (t : Tok) : ASt :=
  if a.failed then a else
  match a.mode with
  | .normal => astepNormal cb a t
  | .colon =>
    if t = .comma then outLeft t { a with mode := .normal, wordok := true } else outLeft t a
  | .angle =>
    if t = .left then outLeft t { (gotaddr cb a) with mode := .phrase }
    else match t with
      | .comment _ => outLeft t a      -- comments inside <...> are kept out of the address (a66f18c)
      | _ => addrLeft t a
  | .phrase =>
    if isPhraseTok t then outLeft t a
    else astepNormal cb { a with mode := .normal, wordok := false } t

/-- leaving the main loop (`t < beginning`) -/
def afinish (cb : List Tok → List Tok) (a : ASt) : ASt :=
  if a.failed then a else
  match a.mode with
  | .angle => { (gotaddr cb a) with failed := true }   -- callback runs, then `return 0`
  | _ => flush cb a

structure AddrlistResult where
  ok : Bool                     -- return value 1 (true) or 0 (false)
  out : List Tok                -- `taout` (meaningful when ok)
  got : List (List Tok)         -- callback results (reversed addresses after rewriting), call order
  deriving Repr, DecidableEq

/-- `token822_addrlist(taout,taaddr,ta,callback)` for a callback that always returns 1 -/
def addrlist (cb : List Tok → List Tok) (ta : List Tok) : AddrlistResult :=
  let a := afinish cb ((ta.drop 2).reverse.foldl (astep cb) {})
  { ok := !a.failed, out := ta.take 2 ++ a.out, got := a.got }

end Nq.Token822
