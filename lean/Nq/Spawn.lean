/-
  Nq.Spawn — model of spawn.c (`getcmd`, `docmd`, the `main` select loop, `sigchld`) together with
  `report()` and `truncreport` of qmail-lspawn.c / qmail-rspawn.c.

  * `cstep` is one iteration of the `for (i = 0;i < r;++i)` loop of `getcmd()`: a 4-stage machine
    (`Stage`) over the bytes arriving on descriptor 0; at the NUL that ends the recipient it calls `docmd`.
  * `docmd` transcribes the validation cascade of `docmd()`.  What the file system says about the
    message file is an input of the model (`plan`, one number per `open_read` call):
      0 regular file owned by the queue user, 1 open fails, 2 fstat fails, 3/7 not a regular file,
      4 foreign owner, 5 pipe() fails, 6 fork() fails, 8 not regular and foreign.
  * a delivery slot is `none` (unused) or `some out` (`d[i].used`, `out` = `d[i].output` so far).
    `dead[i] = some wstat` while the child of slot `i` has been reaped by `sigchld()` (`d[i].pid = 0`,
    `d[i].wstat = wstat`) but the EOF on its pipe has not been read yet — the slot is still in use
    and still owes its report.
  * the events of the select loop (`Op`): bytes on descriptor 0, EOF on descriptor 0, a child's
    output, a child's death seen as SIGCHLD + EOF in one wake-up (`exit`), or in two steps: the
    handler runs and `select` returns -1/EINTR (`reap`), later the EOF on the pipe is read (`peof`);
    a child that closes its output descriptors without dying (`cclose`): since `docmd()` keeps the write end
    `d[i].fdout` open until `sigchld()` has stored the wait status ("delays eof until after death"), this is
    not an EOF for the spawner — the report is never written before the status of the child is known
    (`Props.C18_spawn_report_after_status`).
  * the exit test at the top of the main loop is `exited`: end of input seen AND no slot in use
    (reaped-but-unreported slots count as in use).  Once it holds no event has any effect
    (`Props.C18_spawn_exit`), so `orun` does not need to stop; `consumed` is the number of events of
    a script the program gets to see before it leaves, compared with the real program by the driver.
  * observable events: `openRead` (the only `open` of the program), `spawnCall` (`spawn()` was called
    — the only place a child is created), `report` (delnum byte, body, NUL written to descriptor 1),
    `hello` (the `auto_spawn` byte written at start-up).

  Not modelled: out-of-memory (`flagabort`), write errors on descriptor 1 (`okwrite`), EINTR.
  Core Lean only.
-/
import Nq.Basic
import Nq.Gen.Consts
import Nq.Gen.SpawnTexts

namespace Nq.Spawn
open Nq Nq.Gen.SpawnTexts

inductive Kind | l | r
  deriving DecidableEq, Repr

inductive Stage | delnum | messid | sender | recip
  deriving DecidableEq, Repr

inductive Ev
  | hello (n : Nat)
  | openRead (path : Bytes)
  | spawnCall (slot : Nat) (sender recip : Bytes) (at_ : Nat)
  | report (delnum : Nat) (body : Bytes)
  deriving DecidableEq, Repr

structure St where
  stage : Stage := .delnum
  delnum : Nat := 0
  messid : Bytes := []
  sender : Bytes := []
  recip : Bytes := []
  slots : List (Option Bytes) := List.replicate Nq.Gen.auto_spawn none
  plan : List Nat := []
  reading : Bool := true
  dead : List (Option Nat) := List.replicate Nq.Gen.auto_spawn none
  deriving Repr

/-! The fixed texts of `docmd()` (`E_TOOBIG` …; first byte = report letter) come from `Nq.Gen.SpawnTexts`,
regenerated from spawn.c on every run. -/

/-- the `for (i = 0;i < messid.len;++i)` check: some non-NUL byte that is neither a digit nor a
non-leading '/'.  `first` = (i = 0). -/
def badChars : Bool → Bytes → Bool
  | _, [] => false
  | first, c :: r => (c != 0 && (first || c != 47) && !isDigit c) || badChars false r

/-- `byte_rchr(s,n,'@')`: index of the last '@', `none` if there is none -/
def rchrAt : Bytes → Nat → Option Nat → Option Nat
  | [], _, acc => acc
  | c :: r, i, acc => rchrAt r (i + 1) (if c = AT then some i else acc)

def slotUsed (slots : List (Option Bytes)) (i : Nat) : Bool := (slots.getD i none).isSome

/-- `docmd()`; `messid`, `sender`, `recip` include their terminating NUL -/
def docmd (st : St) : St × List Ev :=
  let dn := st.delnum
  if dn ≥ Nq.Gen.auto_spawn then (st, [.report dn E_TOOBIG])
  else if slotUsed st.slots dn then (st, [.report dn E_INUSE])
  else if badChars true st.messid then (st, [.report dn E_NONNUM])
  else if st.messid.length > MESSID_MAX then (st, [.report dn E_TOOLONG])
  else if st.messid.head? = some 0 then (st, [.report dn E_TOOSHORT])
  else match rchrAt st.recip 0 none with
    | none => (st, [.report dn E_NOHOST])
    | some j =>
      let path := st.messid.dropLast
      let p := st.plan.headD 0
      let st := { st with plan := st.plan.tail }
      if p = 1 then (st, [.openRead path, .report dn E_OPEN])
      else if p = 2 then (st, [.openRead path, .report dn E_FSTAT])
      else if p = 3 ∨ p = 7 ∨ p = 8 then (st, [.openRead path, .report dn E_TYPE])
      else if p = 4 then (st, [.openRead path, .report dn E_OWNER])
      else if p = 5 then (st, [.openRead path, .report dn E_PIPE])
      else if p = 6 then
        (st, [.openRead path, .spawnCall dn st.sender.dropLast st.recip.dropLast j, .report dn E_FORK])
      else
        ({ st with slots := st.slots.set dn (some []) },
         [.openRead path, .spawnCall dn st.sender.dropLast st.recip.dropLast j])

/-- one byte on descriptor 0 (`getcmd()` loop body) -/
def cstep (st : St) (ch : Byte) : St × List Ev :=
  match st.stage with
  | .delnum => ({ st with delnum := ch.toNat, messid := [], stage := .messid }, [])
  | .messid =>
      if ch = 0 then ({ st with messid := st.messid ++ [ch], sender := [], stage := .sender }, [])
      else ({ st with messid := st.messid ++ [ch] }, [])
  | .sender =>
      if ch = 0 then ({ st with sender := st.sender ++ [ch], recip := [], stage := .recip }, [])
      else ({ st with sender := st.sender ++ [ch] }, [])
  | .recip =>
      if ch = 0 then
        let r := docmd { st with recip := st.recip ++ [ch] }
        ({ r.1 with stage := .delnum }, r.2)
      else ({ st with recip := st.recip ++ [ch] }, [])

def cfeed : St → Bytes → St × List Ev
  | st, [] => (st, [])
  | st, c :: rest =>
      let r := cstep st c
      let r2 := cfeed r.1 rest
      (r2.1, r.2 ++ r2.2)

/-! ### child output and `report()` -/

def truncreport : Kind → Nat
  | .l => truncreport_l
  | .r => truncreport_r

/-- the body of the `read` branch of `main`: append, then cut an over-long report -/
def accumulate (k : Kind) (out chunk : Bytes) : Bytes :=
  let o := out ++ chunk
  if truncreport k > TRUNC_MIN ∧ o.length > truncreport k then
    o.take (truncreport k - TRUNCMESS.length - TRUNC_SLACK) ++ TRUNCMESS
  else o

def cstr (s : Bytes) : Bytes := s.takeWhile (· != 0)

/-- qmail-lspawn.c `report()` after the delnum byte, before the final NUL; the `switch` is the
generated table: exit codes with a fixed text, exit codes with a letter, the default letter -/
def lreport (wstat : Nat) (out : Bytes) : Bytes :=
  if wstat % 128 ≠ 0 then L_CRASHED
  else match lspawnTexts.lookup (wstat / 256) with
    | some t => t
    | none => ((lspawnLetters.lookup (wstat / 256)).getD lspawnDefault) :: cstr out

/-- first loop of qmail-rspawn.c `report()`: `first` = first byte of the current NUL-terminated
piece (`s[j]`), `none` while the piece is still empty.  1 = K, 0 = Z, -1 = D/none. -/
def rsResult : Option Byte → Bytes → Int
  | _, [] => -1
  | first, c :: rest =>
      if c = 0 then
        (if first = some 75 then 1 else if first = some 90 then 0 else if first = some 68 then -1
         else rsResult none rest)
      else rsResult (if first.isSome then first else some c) rest

/-- `orr`: the verdict after the override by the first byte of the output (`s` soft, `h` hard) -/
def rsOrr (s : Bytes) : Int :=
  if s.head? = some 115 then 0 else if s.head? = some 104 then -1 else rsResult none s

def rsLetter (orr : Int) : Byte := if orr = 1 then 75 else if orr = 0 then 90 else 68

/-- the two pieces of the child's output that `report()` copies after the status letter: `s+1` up to
the first NUL at an index ≥ 1 (nothing if there is none) and — if the byte after that NUL is Z, D or
K and `more` (= `result <= orr`) — the bytes after it up to the next NUL **or the end of the child's
output** (`byte_chr(s+k+1,len-k-1,0)`, commit 9e1dfcc; before it an unbounded `substdio_puts`). -/
def rsText (s : Bytes) (more : Bool) : Bytes × Bytes :=
  let t := s.drop 1
  let a := cstr t
  match t.drop (a.length + 1) with
  | [] => (if a.length = t.length then [] else a, [])
  | c :: v => if more = true ∧ (c = 90 ∨ c = 68 ∨ c = 75) then (a, cstr v) else (a, [])

/-- qmail-rspawn.c `report()` -/
def rreport (wstat : Nat) (s : Bytes) : Bytes :=
  if wstat % 128 ≠ 0 then R_CRASHED
  else if wstat / 256 = R_SOFTCODE then R_SOFT
  else if wstat / 256 ≠ 0 then R_HARD
  else if s = [] then R_NOOUTPUT
  else [rsLetter (rsOrr s)] ++ (rsText s (decide (rsResult none s ≤ rsOrr s))).1
         ++ (rsText s (decide (rsResult none s ≤ rsOrr s))).2

def reportBody (k : Kind) (wstat : Nat) (out : Bytes) : Bytes :=
  match k with
  | .l => lreport wstat out
  | .r => rreport wstat out

/-! ### the select loop, one wake-up at a time -/

inductive Op
  | cmd (bytes : Bytes)                 -- bytes readable on descriptor 0
  | out (slot : Nat) (bytes : Bytes)    -- the child of `slot` wrote `bytes` (≤ 128)
  | exit (slot : Nat) (wstat : Nat)     -- the child of `slot` died; SIGCHLD, then EOF on its pipe, one wake-up
  | eof                                 -- EOF on descriptor 0 (`flagreading = 0`)
  | reap (slot : Nat) (wstat : Nat)     -- the child of `slot` died; SIGCHLD handler ran, `select` returned -1
  | peof (slot : Nat)                   -- EOF on the pipe of `slot` whose child had been reaped before
  | cclose (slot : Nat)                 -- the live child of `slot` closes its own copies of the pipe's write end (its
                                        -- descriptors 1 and 2) and goes on running: the spawner still holds `d[slot].fdout`,
                                        -- so the pipe does NOT reach EOF and nothing is observable (round-4 seeds)
  deriving Repr

def usedCount (st : St) : Nat := (st.slots.filter Option.isSome).length

def childExit (k : Kind) (st : St) (slot wstat : Nat) : St × List Ev :=
  match st.slots.getD slot none with
  | none => (st, [])
  | some out => ({ st with slots := st.slots.set slot none }, [.report slot (reportBody k wstat out)])

/-- `sigchld()` for the live child of `slot`: `d[slot].wstat = wstat; d[slot].pid = 0`; the slot stays in use -/
def reap (st : St) (slot wstat : Nat) : St :=
  match st.slots.getD slot none, st.dead.getD slot none with
  | some _, none => { st with dead := st.dead.set slot (some wstat) }
  | _, _ => st

/-- the `r == 0` branch of the main loop for a slot whose child was reaped earlier: the report is
written with the wait status stored by the handler, the slot is released -/
def pipeEof (k : Kind) (st : St) (slot : Nat) : St × List Ev :=
  match st.slots.getD slot none, st.dead.getD slot none with
  | some out, some ws =>
      ({ st with slots := st.slots.set slot none, dead := st.dead.set slot none },
       [.report slot (reportBody k ws out)])
  | _, _ => (st, [])

/-- end of input on descriptor 0 (`flagreading = 0`) -/
def stopReading (st : St) : St := { st with reading := false }

def ostep (k : Kind) (st : St) : Op → St × List Ev
  | .cmd bytes => if st.reading then cfeed st bytes else (st, [])
  | .out slot bytes =>
      match st.slots.getD slot none with
      | none => (st, [])
      | some out => ({ st with slots := st.slots.set slot (some (accumulate k out bytes)) }, [])
  | .exit slot wstat => if (st.dead.getD slot none).isSome then (st, []) else childExit k st slot wstat
  | .eof => (stopReading st, [])
  | .reap slot wstat => (reap st slot wstat, [])
  | .peof slot => pipeEof k st slot
  | .cclose _ => (st, [])

def orun (k : Kind) : St → List Op → St × List Ev
  | st, [] => (st, [])
  | st, op :: rest =>
      let r := ostep k st op
      let r2 := orun k r.1 rest
      (r2.1, r.2 ++ r2.2)

/-- the exit test at the top of the main loop: `if (!flagreading) { for (i …) if (d[i].used) break;
if (i >= auto_spawn) _exit(0); }` — a slot whose child has been reaped but whose report has not been
written yet is still `used` -/
def exited (st : St) : Bool := !st.reading && usedCount st == 0

/-- how many events of the script the program sees before the exit test succeeds -/
def consumed (k : Kind) : St → List Op → Nat
  | _, [] => 0
  | st, op :: rest => if exited st then 0 else consumed k (ostep k st op).1 rest + 1

/-- the bytes the program can have read from descriptor 0: those that arrive before its EOF -/
def inputOf : List Op → Bytes
  | [] => []
  | .cmd b :: r => b ++ inputOf r
  | .eof :: _ => []
  | _ :: r => inputOf r

/-- the end of a slot at the end of the script: a reaped child's pipe reaches EOF, a live child exits
with status 0 -/
def finish (k : Kind) (st : St) (i : Nat) : St × List Ev :=
  match st.dead.getD i none with
  | some _ => pipeEof k st i
  | none => childExit k st i 0

/-- end of the script: descriptor 0 reaches EOF (if it has not yet), then every slot still in use is
finished, lowest slot first -/
def drain (k : Kind) : St → Nat → Nat → St × List Ev
  | st, 0, _ => (st, [])
  | st, fuel + 1, i =>
      let r := finish k st i
      let r2 := drain k r.1 fuel (i + 1)
      (r2.1, r.2 ++ r2.2)

/-- one whole run of the program from state `st0` -/
def runFrom (k : Kind) (st0 : St) (script : List Op) : St × List Ev :=
  let r := orun k st0 script
  let r2 := drain k (stopReading r.1) Nq.Gen.auto_spawn 0
  (r2.1, .hello Nq.Gen.auto_spawn :: r.2 ++ r2.2)

/-- one whole run of the program -/
def run (k : Kind) (plan : List Nat) (script : List Op) : St × List Ev := runFrom k { plan := plan } script

/-- the number of script events the program of `run` sees before it calls `_exit(0)` -/
def runConsumed (k : Kind) (plan : List Nat) (script : List Op) : Nat := consumed k { plan := plan } script

end Nq.Spawn
