/-
  Nq.Stralloc — the length arithmetic of gen_allocdefs.h (GEN_ALLOC_readyplus / _ready / _append),
  stralloc_catb.c, stralloc_opyb.c and quote.c doit(), transcribed statement by statement.

  C `unsigned int` values are natural numbers `< 2^32`; every place where the C code computes in
  `unsigned int` without a check is written with an explicit `% U32`, every
  `__builtin_add_overflow` / `__builtin_mul_overflow` is the exact (unbounded) sum / product compared
  with `U32`, as the builtins are specified.  The allocator is a parameter `grant : Nat → Bool`
  (does `malloc`/`realloc` of that many bytes succeed).  The record carries one ghost field, `cap`:
  the number of bytes of the block `field` points to.  Every operation reports the element ranges
  it stores to (`st`), so that "every store is inside the block" is a statement about the model's
  output.  Core Lean only.
-/
import Nq.Basic

namespace Nq.Stralloc

def U32 : Nat := 4294967296
def INT_MAX : Nat := 2147483647

/-- a `GEN_ALLOC_typedef` record `{ type *field; unsigned int len; unsigned int a; }` -/
structure GA where
  nonnull : Bool := false     -- x->field != 0
  len : Nat := 0
  a : Nat := 0
  cap : Nat := 0              -- ghost: bytes in the block x->field points to
  deriving Repr, DecidableEq, BEq

/-- what an operation did -/
structure Out where
  ret : Bool                  -- the C return value (1 / 0)
  x : GA                      -- the record afterwards (also on failure: `x->len = 0` may have happened)
  req : Option Nat := none    -- byte count handed to malloc/realloc, if one was called
  st : List (Nat × Nat) := [] -- element ranges (start, count) stored to, in order
  ub : Bool := false          -- a signed `int` counter was incremented beyond INT_MAX (quote.c only)
  deriving Repr, DecidableEq, BEq

/-- `ta_rplus ## _internal (x, n, pluslen)` of GEN_ALLOC_readyplus; `sz = sizeof(type)` -/
def readyplusInternal (sz base : Nat) (grant : Nat → Bool) (x : GA) (n pluslen : Nat) : Out :=
  if x.nonnull then
    -- if (__builtin_add_overflow(n, pluslen, &n)) return 0;
    if n + pluslen ≥ U32 then ⟨false, x, none, [], false⟩ else
    let n := n + pluslen
    -- if (n <= x->a) return 1;
    if n ≤ x.a then ⟨true, x, none, [], false⟩ else
    -- if (__builtin_add_overflow(n, (n >> 3) + base, &nnum)) return 0;
    let m := (n / 8 + base) % U32
    if n + m ≥ U32 then ⟨false, x, none, [], false⟩ else
    let nnum := n + m
    -- if (__builtin_mul_overflow(nnum, sizeof(type), &nlen)) return 0;
    if nnum * sz ≥ U32 then ⟨false, x, none, [], false⟩ else
    let nlen := nnum * sz
    -- nfield = realloc(x->field, nlen); if (nfield == NULL) return 0;
    if grant nlen then ⟨true, { x with a := nnum, cap := nlen }, some nlen, [], false⟩
    else ⟨false, x, some nlen, [], false⟩
  else
    -- x->len = 0;
    let x0 : GA := { x with len := 0 }
    -- if (__builtin_mul_overflow(n, sizeof(type), &nlen)) return 0;
    if n * sz ≥ U32 then ⟨false, x0, none, [], false⟩ else
    let nlen := n * sz
    -- x->field = alloc(nlen); if (!x->field) return 0; x->a = n;
    if grant nlen then ⟨true, { nonnull := true, len := 0, a := n, cap := nlen }, some nlen, [], false⟩
    else ⟨false, x0, some nlen, [], false⟩

/-- `ta_rplus(x,n)` = `_internal(x, n, x->len)` -/
def readyplus (sz base : Nat) (grant : Nat → Bool) (x : GA) (n : Nat) : Out :=
  readyplusInternal sz base grant x n x.len

/-- `ta_ready(x,n)` = `_internal(x, n, 0)` -/
def ready (sz base : Nat) (grant : Nat → Bool) (x : GA) (n : Nat) : Out :=
  readyplusInternal sz base grant x n 0

/-- `ta_append(x,i)`: `if (!ta_rplus(x,1)) return 0; x->field[x->len++] = *i; return 1;` -/
def append (sz base : Nat) (grant : Nat → Bool) (x : GA) : Out :=
  let r := readyplus sz base grant x 1
  if r.ret then
    { r with x := { r.x with len := (r.x.len + 1) % U32 }, st := [(r.x.len, 1)] }
  else r

/-- stralloc_copyb(sa,s,n) (sizeof(char) = 1, base 30) -/
def copyb (grant : Nat → Bool) (x : GA) (n : Nat) : Out :=
  -- if (__builtin_add_overflow(n, 1, &i)) { errno = error_nomem; return 0; }
  if n + 1 ≥ U32 then ⟨false, x, none, [], false⟩ else
  -- if (!stralloc_ready(sa,i)) return 0;
  let r := ready 1 30 grant x (n + 1)
  if r.ret then
    -- byte_copy(sa->s,n,s); sa->len = n; sa->s[n] = 'Z';
    { r with x := { r.x with len := n }, st := [(0, n), (n, 1)] }
  else r

/-- stralloc_catb(sa,s,n) -/
def catb (grant : Nat → Bool) (x : GA) (n : Nat) : Out :=
  -- if (!sa->s) return stralloc_copyb(sa,s,n);
  if !x.nonnull then copyb grant x n else
  -- if (__builtin_add_overflow(n, 1, &i)) { errno = error_nomem; return 0; }
  if n + 1 ≥ U32 then ⟨false, x, none, [], false⟩ else
  -- if (!stralloc_readyplus(sa,i)) return 0;
  let r := readyplus 1 30 grant x (n + 1)
  if r.ret then
    -- byte_copy(sa->s + sa->len,n,s); sa->len += n; sa->s[sa->len] = 'Z';
    let l' := (r.x.len + n) % U32
    { r with x := { r.x with len := l' }, st := [(r.x.len, n), (l', 1)] }
  else r

/-- quote.c `doit(saout,sain)`: `inLen = sain->len`, `esc` = how many of its bytes are CR, LF, `"` or
`\` (each costs one extra byte); `esc ≤ inLen` always.  `signedCtr` = the type of the counters `i`, `j`:
`false` = `unsigned int` (the code since commit 26e354b), `true` = `int` (the code before it, kept as the
mutant model: incrementing `j` beyond INT_MAX is undefined behaviour, recorded in `ub`). -/
def quoteDoit (signedCtr : Bool) (grant : Nat → Bool) (out : GA) (inLen esc : Nat) : Out :=
  -- if (__builtin_mul_overflow(sain->len, 2, &nlen) || __builtin_add_overflow(nlen, 2, &nlen)) return 0;
  if inLen * 2 ≥ U32 then ⟨false, out, none, [], false⟩ else
  if inLen * 2 + 2 ≥ U32 then ⟨false, out, none, [], false⟩ else
  -- if (!stralloc_ready(saout,nlen)) return 0;
  let r := ready 1 30 grant out (inLen * 2 + 2)
  if r.ret then
    -- j = 0; s[j++] = '"'; for … { if (special) s[j++] = '\\'; s[j++] = ch; } s[j++] = '"'; saout->len = j;
    let j := inLen + esc + 2
    { r with x := { r.x with len := j % U32 }, st := [(0, j)], ub := signedCtr && decide (j > INT_MAX) }
  else r

/-- quote.c `quote_need(s,n)`: the offsets of `s` it may read (all three loops run to completion in the
worst case): `s[i]` for `i < n`, `s[0]`, `s[n-1]`, and `s[i]`, `s[i+1]` for `i < n-1`. -/
def quoteNeedReads (n : Nat) : List Nat :=
  if n = 0 then [] else List.range n ++ [0, n - 1] ++ (List.range (n - 1)).flatMap (fun i => [i, i + 1])

/-- `quote_need`'s counter `i` reaches `n`; as a signed `int` (pre-26e354b) that overflows for `n > INT_MAX` -/
def quoteNeedUb (signedCtr : Bool) (n : Nat) : Bool := signedCtr && decide (n > INT_MAX)

/-- number of bytes `quote.c doit()` escapes -/
def escCount (s : Bytes) : Nat :=
  (s.filter (fun c => c == 13 || c == 10 || c == 34 || c == 92)).length

/-! ### the invariant -/

/-- `len` and `a` are representable, and a non-null record has `len ≤ a` elements inside its block -/
def WF (sz : Nat) (x : GA) : Prop :=
  x.len < U32 ∧ x.a < U32 ∧ (x.nonnull = true → x.len ≤ x.a ∧ x.a * sz ≤ x.cap)

instance (sz : Nat) (x : GA) : Decidable (WF sz x) := by unfold WF; infer_instance

/-- every reported store range lies inside the `a` allocated elements -/
def storesIn (o : Out) : Prop := ∀ p ∈ o.st, p.1 + p.2 ≤ o.x.a

instance (o : Out) : Decidable (storesIn o) := by unfold storesIn; infer_instance

/-! ### a sequence of operations (what the correspondence harness replays) -/

inductive Op
  | ready (n : Nat) | readyplus (n : Nat) | append | catb (n : Nat) | copyb (n : Nat)
  | setlen (n : Nat)                       -- the caller's `sa->len = n` (n ≤ a), as getln2 / dns_ptr do
  deriving Repr, DecidableEq

def apply (sz base : Nat) (grant : Nat → Bool) (x : GA) : Op → Out
  | .ready n => ready sz base grant x n
  | .readyplus n => readyplus sz base grant x n
  | .append => append sz base grant x
  | .catb n => catb grant x n
  | .copyb n => copyb grant x n
  | .setlen n => ⟨true, { x with len := n }, none, [], false⟩

end Nq.Stralloc
