/-
  Nq.MaildirSys — any number of maildir deliveries (`maildir()` + `maildir_child()` of qmail-local.c, each one
  an instance of the acceptor `Md.accept`) into ONE maildir: the shared directories tmp/ and new/, the clock,
  the process ids of the live children, a mail reader that moves messages out of new/ (property C12, session 4).

  What the C code does and where it is here:
    pid = getpid();                                  `Cfg.pid i`  (fixed per delivery)
    for (loop = 0;;++loop) {
      time = now();                                  the clock is read at the `alarm` event of the iteration (`t i := clock`;
      fmt "tmp/" time "." pid "." host                now() is not a system call of its own; nothing of this process lies between)
      alarm(86400);
      fd = open_excl(fntmptph);                      `openExcl true` only if `nameOf i ∉ tmp`  (O_EXCL, OS)
      if (errno == error_exist) { if (loop == 2) _exit(1); sleep(2); }     `sleep n`: `wake i := clock + n`; the next `now()` sees
    }                                                                       `clock ≥ wake i`
    link(fntmptph,fnnewtph)                          `link true` only if `nameOf i ∉ new`  (link(2) fails with EEXIST, OS)
    tryunlinktmp()                                   `unlinkTmp true` removes `nameOf i` from tmp/
  Operating-system assumptions, as guards of `step`: O_EXCL, link exclusivity, and `fork` hands out a process id that no
  live child has (`live`).  Core Lean only.
-/
import Nq.LocalDeliver

namespace Nq.LocalDeliver.MdSys
open Nq Nq.LocalDeliver

structure Cfg where
  host : Bytes                 -- gethostname()
  pid : Nat → Nat              -- process id of the child of delivery i
  content : Nat → Bytes        -- Return-Path line ++ Delivered-To line ++ message of delivery i

inductive Ev
  | proc (i : Nat) (e : Md.Ev)     -- delivery i performs e
  | tick (n : Nat)                 -- time passes
  | mua (name : Bytes)             -- a mail reader moves new/name to cur/ (or deletes it)
  deriving DecidableEq, Repr

structure Sys where
  clock : Nat := 0
  tmp : List Bytes := []             -- names present in tmp/
  new : List Bytes := []             -- names present in new/
  live : List Nat := []              -- process ids of the children that exist
  st : Nat → Md.St := fun _ => {}
  t : Nat → Nat := fun _ => 0        -- result of the last `now()` of delivery i
  wake : Nat → Nat := fun _ => 0     -- delivery i is asleep until the clock reaches this
  log : List (Nat × Nat) := []       -- ghost: the successful links so far: (delivery, time component of the linked name)

def upd {α : Type} (f : Nat → α) (i : Nat) (a : α) : Nat → α := fun j => if j = i then a else f j

def params (c : Cfg) (i : Nat) : Md.Params := { content := c.content i, dirOk := true }

/-- the name delivery i currently uses under tmp/ and new/ -/
def nameOf (c : Cfg) (y : Sys) (i : Nat) : Bytes := maildirName (y.t i) (c.pid i) c.host

/-- the name a log entry stands for -/
def logName (c : Cfg) (x : Nat × Nat) : Bytes := maildirName x.2 (c.pid x.1) c.host

def step (c : Cfg) (y : Sys) : Ev → Option Sys
  | .tick n => some { y with clock := y.clock + n }
  | .mua nm => some { y with new := y.new.filter (fun x => x != nm) }
  | .proc i e =>
    match Md.accept (params c i) (y.st i) e with
    | none => none
    | some s' =>
      let y' := { y with st := upd y.st i s' }
      match e with
      | .fork => if c.pid i ∈ y.live then none else some { y' with live := c.pid i :: y.live }
      | .alarm _ => if y.wake i ≤ y.clock then some { y' with t := upd y.t i y.clock } else none
      | .sleep n => some { y' with wake := upd y.wake i (y.clock + n) }
      | .openExcl true _ => if nameOf c y i ∈ y.tmp then none else some { y' with tmp := nameOf c y i :: y.tmp }
      | .link true =>
        if nameOf c y i ∈ y.new then none
        else some { y' with new := y.new ++ [nameOf c y i], log := y.log ++ [(i, y.t i)] }
      | .unlinkTmp true => some { y' with tmp := y.tmp.filter (fun x => x != nameOf c y i) }
      | .childExit _ => some { y' with live := y.live.erase (c.pid i) }
      | .childKilled => some { y' with live := y.live.erase (c.pid i) }
      | _ => some y'

def run (c : Cfg) : Sys → List Ev → Option Sys
  | y, [] => some y
  | y, e :: es => match step c y e with
    | some y' => run c y' es
    | none => none

/-- the events of delivery i in a trace of the system -/
def proj (i : Nat) : List Ev → List Md.Ev
  | [] => []
  | .proc j e :: es => if j = i then e :: proj i es else proj i es
  | _ :: es => proj i es

def isMua : Ev → Bool
  | .mua _ => true
  | _ => false

end Nq.LocalDeliver.MdSys
