/-
  C14 (session 4) — injectbounce() in front of the REAL qmail.c: the sticky error flag.

  `Nq.Bounce.inject` abstracts qmail.c into "after qmail_fail() qmail_close() refuses".  This file models what that
  abstraction rests on: qmail.c's `struct qmail` as injectbounce() drives it
     qmail_put / qmail_fail / qmail_from / qmail_to / qmail_close
  with the two byte streams the queue program reads (message on descriptor 0, envelope on descriptor 1), and the call
  sequence injectbounce() makes when the read-only open of bounce/<id> or mess/<id> fails or a read() inside them fails
  after k bytes.  Core Lean only (linked into drv_c14, which compares both streams with what the scripted queue program
  behind the real qmail.c received).
-/
import Nq.Bounce
import Nq.Daemon

namespace Nq.BounceQq
open Nq Nq.Bounce

/-- `struct qmail`: `flagerr`, which pipe `qq->ss` writes to (message until qmail_from(), envelope afterwards), and the bytes
written to the two pipes so far (pipe writes to a reading queue program do not fail) -/
structure Qq where
  flagerr : Bool := false
  onEnv : Bool := false
  msg : Bytes := []
  env : Bytes := []
  deriving DecidableEq, Repr

inductive Call
  | put (b : Bytes)        -- qmail_put / qmail_puts
  | fail                   -- qmail_fail
  | efrom (s : Bytes)      -- qmail_from
  | eto (s : Bytes)        -- qmail_to
  deriving DecidableEq, Repr

/-- qmail_put(): `if (!qq->flagerr) substdio_put(...)` -/
def qput (q : Qq) (b : Bytes) : Qq :=
  if q.flagerr then q else if q.onEnv then { q with env := q.env ++ b } else { q with msg := q.msg ++ b }

/-- one call; qmail_from(): flush (sets the flag only on failure, never clears it), close the message pipe, switch to the
envelope pipe, then `F` sender NUL through qmail_put — i.e. nothing if the flag is up -/
def step (q : Qq) : Call → Qq
  | .put b => qput q b
  | .fail => { q with flagerr := true }
  | .efrom s => qput { q with onEnv := true } (70 :: s ++ [0])
  | .eto s => qput q (84 :: s ++ [0])

def run (q : Qq) (cs : List Call) : Qq := cs.foldl step q

/-- qmail_close(): the final NUL through qmail_put, then the verdict: "" (accepted) iff the queue program was not killed,
exited 0 and `flagerr` is down (`case 0: if (!qq->flagerr) return ""; /* fall through */ case 54:`) -/
def close (q : Qq) (exit : Nat) (crashed : Bool) : Qq × Bool :=
  (qput q [0], !crashed && exit == 0 && !q.flagerr)

/-- outcome of copying one file (bounce/<id> or mess/<id>) into the notice -/
inductive RF
  | ok                     -- opened and read to the end
  | openFail               -- open_read() == -1                      -> qmail_fail
  | readFail (k : Nat)     -- a read() fails after k bytes were copied -> qmail_fail
  deriving DecidableEq, Repr

def copyCalls (file : Bytes) : RF → List Call
  | .ok => [.put file]
  | .openFail => [.fail]
  | .readFail k => [.put (file.take k), .fail]

/-- fixed texts and envelope of the notice: (before the bounce file, between file and message, envelope sender, recipient) -/
def parts (cfg : Cfg) (date sender : Bytes) : Option (Bytes × Bytes × Bytes × Bytes) :=
  match decideBounce sender with
  | .discard => none
  | .double => some (preamble cfg date cfg.doublebounceto false, trailer false [] [], DBSENDER, cfg.doublebounceto)
  | .single r => some (preamble cfg date r true, trailer true r [], [], r)

/-- the qmail_* calls of injectbounce() between qmail_open() and qmail_close() -/
def injectCalls (cfg : Cfg) (date sender bf mess : Bytes) (fb fm : RF) : Option (List Call) :=
  (parts cfg date sender).map fun p =>
    [.put p.1] ++ copyCalls bf fb ++ [.put p.2.1] ++ copyCalls mess fm ++ [.efrom p.2.2.1, .eto p.2.2.2]

/-- what the queue program has read when injectbounce() has called qmail_close(), and qmail_close()'s verdict -/
def injectQq (cfg : Cfg) (date sender bf mess : Bytes) (fb fm : RF) (exit : Nat) (crashed : Bool) : Option (Qq × Bool) :=
  (injectCalls cfg date sender bf mess fb fm).map fun cs => close (run {} cs) exit crashed

/-- the envelope qmail-queue must be given: F sender NUL T recipient NUL NUL -/
def fullEnv (f t : Bytes) : Bytes := 70 :: f ++ [0] ++ (84 :: t ++ [0]) ++ [0]

/-- the fault point of `Nq.Bounce.inject` that corresponds to a pair of copy outcomes (the first failure wins the name;
all four have the same effect there) -/
def faultOf : RF → RF → Fault
  | .openFail, _ => .bounceOpen
  | .readFail _, _ => .bounceRead
  | .ok, .openFail => .messOpen
  | .ok, .readFail _ => .messRead
  | .ok, .ok => .none

/-! ### del_dochan(): write-ahead order of the failure record and the done-mark -/

inductive DelEv
  | record     -- addbounce(): write(s) to bounce/<id>
  | mark       -- markdone(): the byte 'D' over the 'T' of the recipient in the channel file
  deriving DecidableEq, Repr

/-- what del_dochan() writes for one report `raw` (status byte + text), in order: `case 'D': addbounce(...); markdone(...)`,
`case 'K': markdone(...)`, nothing for a deferral or a mangled report -/
def delOrder (dying : Bool) (raw : Bytes) : List DelEv :=
  match delReport dying (1 :: raw) with
  | some _ => [.record, .mark]
  | none => if raw.head? = some 75 then [.mark] else []

/-- oracle: a record is written, and no mark precedes a record -/
def recordBeforeMark (evs : List DelEv) : Bool :=
  evs.contains .record && !((evs.dropWhile (· == .record)).contains .record)

/-! PROPERTY ORACLE (executable; the driver evaluates it on what the scripted queue program behind the real qmail.c was
given): a notice counts as QUEUED when the queue program exited 0 un-killed having been given a terminated envelope (a real
qmail-queue dies with 54 on anything else); a queued notice must be complete: every byte of bounce/<id> inside, the original
message at the end, the envelope the prescribed one. -/
def isSuffixB (a b : Bytes) : Bool := a.reverse.isPrefixOf b.reverse
def queuedOK (exit : Nat) (crashed : Bool) (env : Bytes) : Bool :=
  !crashed && exit == 0 && env.head? == some 70 && decide (env.length ≥ 3) && (env.drop (env.length - 2)) == [0, 0]
def completeOK (f t bf mess msg env : Bytes) : Bool :=
  env == fullEnv f t && Daemon.isInfix bf msg && isSuffixB mess msg

end Nq.BounceQq
