/-
  Nq.Quote — model of quote.c: `quote_need`, `doit`, `quote`, `quote2`.

  C strings are modelled as `Bytes` without NUL (the harness never passes a NUL).  `quote()` takes
  a stralloc (any bytes); `quote2()` takes a C string and splits it at the LAST '@' (`str_rchr`).
  The `ok[128]` table and the set of bytes escaped by `doit()` are regenerated from quote.c on every
  run (`Nq.Gen.quoteOk`, `Nq.Gen.quoteEsc`).
-/
import Nq.Basic
import Nq.Gen.QuoteOk

namespace Nq.Quote
open Nq

@[reducible] def DQ  : Byte := 34   -- '"'
@[reducible] def BSL : Byte := 92   -- '\\'

/-- `uch < 128 && ok[uch]` -/
def okChar (c : Byte) : Bool := decide (c.toNat < 128) && (Gen.quoteOk.getD c.toNat 0 != 0)

/-- the last loop of `quote_need`: two consecutive dots -/
def hasDotDot : Bytes → Bool
  | [] => false
  | a :: r => match r with
    | [] => false
    | b :: _ => (a == DOT && b == DOT) || hasDotDot r

/-- `quote_need(s,n)` -/
def quoteNeed (s : Bytes) : Bool :=
  s.isEmpty || !(s.all okChar) || s.head? == some DOT || s.getLast? == some DOT || hasDotDot s

/-- the bytes `doit()` writes for one input byte -/
def escByte (c : Byte) : Bytes := if Gen.quoteEsc.contains c then [BSL, c] else [c]

def escape : Bytes → Bytes
  | [] => []
  | c :: r => escByte c ++ escape r

/-- `doit()`: `"` escaped-bytes `"` -/
def doit (s : Bytes) : Bytes := DQ :: (escape s ++ [DQ])

/-- `quote(saout,sain)` -/
def quote (s : Bytes) : Bytes := if quoteNeed s then doit s else s

/-- split at the last occurrence of `c`: `(before, c :: after)` -/
def splitLast (c : Byte) : Bytes → Option (Bytes × Bytes)
  | [] => none
  | x :: r => match splitLast c r with
    | some (a, b) => some (x :: a, b)
    | none => if x = c then some ([], x :: r) else none

/-- `quote2(sa,s)`: the box part (before the last '@') is quoted, the rest copied -/
def quote2 (s : Bytes) : Bytes :=
  match s with
  | [] => []
  | _ => match splitLast AT s with
    | none => quote s
    | some (box, rest) => quote box ++ rest

end Nq.Quote
