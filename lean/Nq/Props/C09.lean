/-
  C09 — Remote delivery verdicts are sound for every server behaviour.

  Models: `Nq.RemoteSmtp.smtpRun` (qmail-remote.c `smtp()`, `smtpcode()`, `quit()`, `dropped()`,
  `outsmtptext()`; `blast()` is `Nq.SmtpOut.rblast`) and `Nq.RspawnReport.rreport`
  (qmail-rspawn.c `report()`), tied to the source by `harness/c09_remote.c`.
  The predicates (`expect`, `verdictOK`, `kSound`, `rcptOrder`, `rspawnSound`, `rspawnClasses`,
  `noUpgrade`) are in `Nq.Spec.RemoteVerdict`; compiled, they are the oracle of the driver.
  Only property theorems live here.

  The server is `sc : Script`: every byte it ever sends (`stream`; reads past the end fail, which
  is what both a disconnect and a stall look like to the client) and the write that fails, if any.
  `abstr a sc` is the script as the client sees it: the code of each reply it delimits, in order.
-/
import Nq.Lemmas.RemoteSmtp
import Nq.Lemmas.RspawnReport
import Nq.Lemmas.RemoteEndToEnd
import Nq.Lemmas.RemoteWire
import Nq.Lemmas.RemoteConnect
import Nq.Lemmas.RemoteBufRun

namespace Nq.Props.C09
open Nq Nq.SmtpOut Nq.RemoteSmtp Nq.RspawnReport Nq.RemoteConnect Nq.Spec.RemoteVerdict Nq.Lemmas.RemoteSmtp Nq.Lemmas.Rspawn
open Nq.Lemmas.RemoteConnect
open Nq.Substdio Nq.SmtpIO Nq.RemoteBuf Nq.Lemmas.RemoteBuf Nq.Lemmas

/-- **Verdict classes.** For every server script the message report has the class the rules require
(`expect`: the first decisive event wins — greeting ≠ 220 / HELO ≠ 250 → Z; MAIL, DATA, final-dot reply
≥ 500 → D, 400..499 → Z; every RCPT refused → D; unreadable message → Z, partial last line → D; any
failed read or write up to the final flush → Z "connection died", flagged "Possible duplicate!" when it
happens between the final flush and the reply to the dot; otherwise K), and the per-recipient reports are
exactly the classes (`r`/`s`/`h`) the rules give, in order. Replies and codes are those `smtpcode()`
delimits (`abstr`); for well-formed streams they are the line-based ones, see `C09_classes_wellformed`.
The rules are strict about QUIT — a decided verdict stands whatever happens to the QUIT command
(`C09_rules_ignore_quit`) — and since /repo commit 7dc98ec so is the code: no hypothesis about the
failing write is needed any more. -/
theorem C09_classes (a : Args) (sc : Script) :
    verdictOK (expect (abstr a sc)).v (obsOf (smtpRun a sc)) = true ∧
    (obsOf (smtpRun a sc)).rl = (expect (abstr a sc)).rl :=
  have g := run_good a sc.wfail (frames .d1 [] sc.stream)
  ⟨g.1, g.2.1⟩

/-- **The QUIT corner.** When the write that fails is the final QUIT, compare with the same script in
which that write succeeds (`r0`): the recipient reports *and the message report* are byte for byte the
same; the only difference is that, if a verdict was announced through `quit()`, the server does not
get the QUIT. (Before 7dc98ec the message report was replaced by the unflagged "connection died":
finding C09-quit-write-failure, now mutant M22.) -/
theorem C09_quit_corner (a : Args) (sc : Script) (hq : sc.wfail = some .quit) :
    let r0 := smtpRun a { sc with wfail := none }
    let r := smtpRun a sc
    r.rcpt = r0.rcpt ∧ r.msg = r0.msg ∧
    (if r0.quit = true then r0.wire = r.wire ++ quitCmd else r.wire = r0.wire) := by
  have h := run_quit a (frames .d1 [] sc.stream)
  simp only [smtpRun, hq]
  exact ⟨h.1, h.2.1, h.2.2.2.2⟩

/-- the rules do not look at the QUIT write -/
theorem C09_rules_ignore_quit (a : Args) (sc : Script) (hq : sc.wfail = some .quit) :
    expect (abstr a sc) = expect (abstr a { sc with wfail := none }) := by
  have := expect_quit (abstr a { sc with wfail := none })
  simp only [abstr, abstrF, hq] at this ⊢
  exact this

/-- **K is sound (every script).** The message is reported `K` only if the greeting was 220, the HELO
reply 250, the replies to MAIL, DATA and the final dot below 400, there is one report per recipient and
at least one of them is `r`, no write up to and including the final flush failed, and the message was
read completely and ends with a newline. -/
theorem C09_K_sound (a : Args) (sc : Script) : kSound (abstr a sc) (obsOf (smtpRun a sc)) = true :=
  kSound_run a sc.wfail _

/-- **Recipient reports in argument order (every script).** Never more reports than recipient
arguments; the `i`-th report is the class of the reply to the `i`-th RCPT (reply number `3+i` of the
conversation); there are none unless greeting, HELO and MAIL were accepted. -/
theorem C09_rcpt_order (a : Args) (sc : Script) : rcptOrder (abstr a sc) (obsOf (smtpRun a sc)) = true :=
  rcptOrder_of_good _ _ (run_good a sc.wfail _).2.1

/-- **Commands in argument order.** What the server receives is — apart from a final QUIT — a prefix
of HELO, MAIL FROM, one RCPT TO per recipient argument *in argument order*, DATA and the encoded
message; every per-recipient report is preceded by the RCPT command of that recipient; and `K` is
reported only after the whole encoded message was written — and QUIT after it, unless the QUIT write
is the one that fails (`wireOrderQ … qf`; with `qf = false` it is `wireOrder`). (`enc` = the encoding of
the message by `blast()`, if it has one.) -/
theorem C09_wire_order (a : Args) (sc : Script) (enc : Bytes) (henc : ∀ e, rblast a.msg = some e → e = enc) :
    wireOrderQ a enc (smtpRun a sc).wire (obsOf (smtpRun a sc)) (sc.wfail == some .quit) = true :=
  wireOrderQ_of_WireOK a sc.wfail enc _ (run_wire a sc.wfail enc henc _)

/-- **A loss in the critical window is flagged and temporary.** Whenever the rules say the connection
was lost between the final flush and the reply to the dot (`expect = lost true`: everything up to DATA
accepted, the message complete, and then either the final write fails or the stream ends before a
complete reply), the report is `Z…` and contains "Possible duplicate! " — never `K`. -/
theorem C09_possible_duplicate (a : Args) (sc : Script) (h : (expect (abstr a sc)).v = .lost true) :
    headB (smtpRun a sc).msg = cZ ∧ hasInfix dupMark (smtpRun a sc).msg = true := by
  have := (C09_classes a sc).1
  rw [h] at this
  simpa [verdictOK, obsOf] using this

/-- **Multi-line reply parsing.** If every complete line the server sends has at least three bytes
before its LF, `smtpcode()` delimits exactly the replies of the line-based reading (lines whose 4th
byte is `-` continue a reply), whatever else the lines contain and wherever the stream stops. -/
theorem C09_framing (s : Bytes) (h : wfLines s = true) : frames .d1 [] s = specFrames s :=
  frames_eq_specFrames s h

/-- **Reply codes.** A reply that starts with three ASCII digits has their decimal value as its code
(so the thresholds 400/500 and the tests `= 220`, `= 250` are about the number the server sent). -/
theorem C09_code_decimal (l : Bytes) (n : Nat) (h : decCode l = some n) : codeNat l = n :=
  codeNat_decimal l n h

/-- Consequently, for a well-formed all-digit stream the codes the client acts on are the codes of the
line-based reading (this is the abstract script the driver's oracle uses). -/
theorem C09_spec_codes (a : Args) (sc : Script) (cs : List Nat) (h : specCodes sc.stream = some cs) :
    (abstr a sc).codes = cs := by
  unfold specCodes at h
  by_cases hw : wfLines sc.stream = true
  · simp only [hw, if_true] at h
    simp only [abstr, abstrF, frames_eq_specFrames _ hw]
    generalize specFrames sc.stream = fs at h
    induction fs generalizing cs with
    | nil => simp [decCodes] at h; simp [h]
    | cons f fs ih =>
      simp only [decCodes] at h
      cases hf : decCode f with
      | none => simp [hf] at h
      | some c =>
        cases hfs : decCodes fs with
        | none => simp [hf, hfs] at h
        | some cs' =>
          simp [hf, hfs] at h
          simp [← h, codeNat_decimal f c hf, ih cs' hfs]
  · simp [hw] at h

/-- **Verdict classes against the independent reading of the stream.** If every complete line the
server sends has at least three bytes before its LF and every reply starts with three digits
(`specCodes`: lines split at LF, a `-` as 4th byte continues the reply, code = decimal value of the
first line's digits), the message class and the recipient letters are those the rules give for *these*
codes — nothing of the client's own framing or arithmetic is in the statement. -/
theorem C09_classes_wellformed (a : Args) (sc : Script) (cs : List Nat) (h : specCodes sc.stream = some cs) :
    let s : AScript := { codes := cs, n := a.rcpts.length, msgErr := a.msgErr,
                         msgPartial := partialMsg a.msg (rblast a.msg).isNone, wfail := sc.wfail }
    verdictOK (expect s).v (obsOf (smtpRun a sc)) = true ∧ (obsOf (smtpRun a sc)).rl = (expect s).rl := by
  have hc : (abstr a sc).codes = cs := C09_spec_codes a sc cs h
  have e : abstr a sc = { codes := cs, n := a.rcpts.length, msgErr := a.msgErr,
                          msgPartial := partialMsg a.msg (rblast a.msg).isNone, wfail := sc.wfail } := by
    rw [partialMsg_eq, ← hc]; rfl
  simp only
  rw [← e]
  exact C09_classes a sc

/-- when the failing write, if any, is not the QUIT: `K` only with QUIT on the wire -/
theorem C09_wire_order_strict (a : Args) (sc : Script) (enc : Bytes) (henc : ∀ e, rblast a.msg = some e → e = enc)
    (hq : sc.wfail ≠ some .quit) : wireOrder a enc (smtpRun a sc).wire (obsOf (smtpRun a sc)) = true := by
  have h := C09_wire_order a sc enc henc
  have : (sc.wfail == some WPoint.quit) = false := by simpa using hq
  simpa [wireOrderQ, this] using h

/-! ### before the connection (`qmail-remote.c main()` from the lookup result on) -/

/-- **Lookup and connect trouble.** Out of memory / temporary lookup failure → `Z`; hard lookup failure,
no address, or only addresses that are not better than this host → `D`; and when some address is
eligible but none connects (`tcpto` skip, refused, timed out) the report is `Z` (`temp_noconn`) — in
all these cases without any recipient report. -/
theorem C09_connect_phase (dnsret : Int) (hostArg : Bytes) (cs : List Cand) (a : Args) (sc : Script) :
    preOK dnsret cs (obsOf (mainRun dnsret hostArg cs a sc)) = true :=
  preOK_mainRun dnsret hostArg cs a sc

/-- a run that ends before `smtp()` never reports `K` -/
theorem C09_preconnect_never_K (dnsret : Int) (hostArg : Bytes) (cs : List Cand) (r : Bytes)
    (h : connectPhase dnsret hostArg cs = .report r) : headB r = cZ ∨ headB r = cD :=
  connectPhase_report dnsret hostArg cs r h

/-- the address `smtp()` talks to is the first one, in lookup order, that is better than this host's own
preference, is not marked as recently timed out, and accepts the connection -/
theorem C09_connect_choice (pm : Nat) (cs : List Cand) (i : Nat) (hst : Bytes) (h : tryLoop pm 0 cs = .connected i hst) :
    ∃ c, cs[i]? = some c ∧ c.host = hst ∧ c.pref < pm ∧ c.skip = false ∧ c.conn = 0 ∧
      ∀ j c', j < i → cs[j]? = some c' → c'.pref < pm → c'.skip = true ∨ c'.conn ≠ 0 := by
  obtain ⟨j, c, e1, e2, e3, e4, e5, e6, e7⟩ := tryLoop_connected pm cs 0 i hst h
  have : i = j := by omega
  subst this
  exact ⟨c, e2, e3, e4, e5, e6, e7⟩

/-- and after the connection everything above applies with that address as `host` -/
theorem C09_main_connected (dnsret : Int) (hostArg : Bytes) (cs : List Cand) (a : Args) (sc : Script) (i : Nat) (hst : Bytes)
    (h : connectPhase dnsret hostArg cs = .connected i hst) :
    mainRun dnsret hostArg cs a sc = smtpRun { a with host := hst } sc := by
  simp [mainRun, h]

/-! ### the spawner's report (`qmail-rspawn.c report()`) -/

/-- **The relayed `K` is sound**: qmail-rspawn reports `K` for the delivery only if qmail-remote exited
0 without crashing, produced output, its first report is not `h` or `s`, and the first
NUL-terminated report that starts with K, Z or D starts with `K`. -/
theorem C09_rspawn (wstat : Nat) (s : Bytes) : rspawnSound wstat s (rreport wstat s) = true :=
  rspawnSound_rreport wstat s

/-- crash → `Z`; exit 111 → `Z`; any other non-zero exit → `D`; no output → `Z`; otherwise one of K/Z/D -/
theorem C09_rspawn_classes (wstat : Nat) (s : Bytes) : rspawnClasses wstat s (rreport wstat s) = true :=
  rspawnClasses_rreport wstat s

/-- **No upgrade**: after a normal exit the relayed letter is never better (K > Z > D) than the message
result unless the recipient's own class is `s` (then it is `Z`, never `K`); `h` gives `D`; an output
without any terminated K/Z/D report (unparseable) is never `K`. -/
theorem C09_no_upgrade (wstat : Nat) (s : Bytes) (h1 : wstat % 128 = 0) (h2 : wstat / 256 = 0) (h3 : s ≠ []) :
    noUpgrade s (rreport wstat s) = true :=
  noUpgrade_rreport wstat s h1 h2 h3

/-- **The relayed text contains only bytes of qmail-remote's output**: after a normal exit it is empty,
or the text of the first report, or that followed by the text of the next report — read inside the
collected output even when that does not end with a NUL (the code before commit 9e1dfcc copied a C
string there and ran past the end). -/
theorem C09_relay_within (wstat : Nat) (s : Bytes) (h1 : wstat % 128 = 0) (h2 : wstat / 256 = 0) (h3 : s ≠ []) :
    relayWithin s (rreport wstat s) = true :=
  relayWithin_rreport wstat s h1 h2 h3

/-- the scan loop of `report()` is the declarative "first terminated record starting with K, Z or D" -/
theorem C09_scan_spec (s : Bytes) : scan .start s = resultOf (firstKZD (records [] s)) := scan_start s

/-! ### from the server's replies to the queue manager -/

/-- **Output shape.** Every report qmail-remote prints is NUL-free (NULs in the server's text become
`?`), the per-recipient reports start with `r`/`h`/`s` and the final one with `K`/`Z`/`D` — so the
spawner, splitting at NULs, sees exactly the reports that were printed, in order. -/
theorem C09_output_shape (a : Args) (sc : Script) (hh : NUL ∉ a.host) :
    records [] (render (smtpRun a sc)) = (smtpRun a sc).rcpt ++ [(smtpRun a sc).msg] ∧
    (∀ r ∈ (smtpRun a sc).rcpt, headB r = lR ∨ headB r = lH ∨ headB r = lS) ∧
    isKZD (headB (smtpRun a sc).msg) = true := by
  have hok : ResOK (smtpRun a sc) := run_ok a sc.wfail hh _
  refine ⟨records_render _ ?_, fun r hr => (hok.1 r hr).2, hok.2.2⟩
  intro x hx
  rcases List.mem_append.mp hx with h | h
  · exact (hok.1 x h).1
  · simp at h; rw [h]; exact hok.2.1

/-- **End to end.** If qmail-rspawn relays `K` to qmail-send for the output of a qmail-remote run
(exit status 0), then by the class rules the server accepted the message after the final dot (`K`:
see `C09_K_sound` for everything that implies) and accepted the first — for the spawner, the only —
recipient. Whatever the server did, a refusal, a lost connection or a garbled reply is never
relayed as success. -/
theorem C09_end_to_end (a : Args) (sc : Script) (hh : NUL ∉ a.host)
    (hK : headB (rreport 0 (render (smtpRun a sc))) = cK) :
    (expect (abstr a sc)).v = .K ∧ (expect (abstr a sc)).rl.head? = some lR :=
  end_to_end a sc hh hK

/-- **A server that goes away is never taken for success.** If the stream contains fewer than `n+5`
complete replies (the server disconnects or stalls anywhere up to and including the reply to the final
dot, even in the middle of a reply), the report is not `K`. -/
theorem C09_loss_never_K (a : Args) (sc : Script) (h : (abstr a sc).codes.length < a.rcpts.length + 5) :
    headB (smtpRun a sc).msg ≠ cK := by
  intro hk
  have ks := C09_K_sound a sc
  have hml : (obsOf (smtpRun a sc)).ml = cK := hk
  unfold kSound at ks
  simp only [hml, bne_self_eq_false, Bool.false_or, Bool.and_eq_true] at ks
  have h4 := ks.1.1.1.2
  have hn : (abstr a sc).n = a.rcpts.length := rfl
  rw [hn] at h4
  have : (abstr a sc).codes[4 + a.rcpts.length]? = none := by
    apply List.getElem?_eq_none; omega
  rw [this] at h4
  simp [lt400] at h4

/-! ### the class rules, spelled out (`expect` on scripts of a given form)

`s.codes = 220 :: 250 :: m :: (rc ++ rest)` with `rc.length = s.n`: greeting, HELO reply, MAIL reply,
one reply per recipient, then the replies to DATA and to the final dot. `hw`: no write fails, or only
the QUIT (which the rules ignore). -/

/-- greeting other than 220: temporary failure, no recipient reports -/
theorem C09_rule_greeting (s : AScript) (g : Nat) (rest : List Nat) (hc : s.codes = g :: rest) (hg : g ≠ 220) :
    (expect s).rl = [] ∧ (expect s).v = .Z := by
  unfold expect
  simp [hc, hg]

/-- HELO reply other than 250: temporary failure (`Z`, or "connection died" if the HELO write failed) -/
theorem C09_rule_helo (s : AScript) (h : Nat) (rest : List Nat) (hc : s.codes = 220 :: h :: rest) (hh : h ≠ 250) :
    (expect s).rl = [] ∧ (expect s).v = (if s.wfail = some .helo then .lost false else .Z) := by
  unfold expect
  by_cases hw : s.wfail = some .helo <;> simp [hc, hh, hw]

/-- MAIL reply: ≥ 500 permanent, 400..499 temporary -/
theorem C09_rule_mail (s : AScript) (m : Nat) (rest : List Nat) (hc : s.codes = 220 :: 250 :: m :: rest)
    (hw : s.wfail = none ∨ s.wfail = some .quit) (hm : m ≥ 400) :
    (expect s).rl = [] ∧ (expect s).v = (if m ≥ 500 then .D else .Z) := by
  unfold expect
  by_cases h5 : m ≥ 500
  · rcases hw with hw | hw <;> simp [hc, hw, h5]
  · rcases hw with hw | hw <;> simp [hc, hw, h5, hm]

/-- every recipient refused (each RCPT reply ≥ 400): permanent failure, each recipient reported `s` or
`h` by its own reply, and nothing of the rest of the script (no DATA reply) matters -/
theorem C09_rule_all_refused (s : AScript) (m : Nat) (rc rest : List Nat)
    (hc : s.codes = 220 :: 250 :: m :: (rc ++ rest)) (hm : m < 400) (hn : rc.length = s.n)
    (hr : ∀ c ∈ rc, c ≥ 400) (hw : s.wfail = none ∨ s.wfail = some .quit) :
    (expect s).v = .D ∧ (expect s).rl = rc.map clsLetter := by
  have hany : rc.any (fun c => decide (c < 400)) = false := by
    rw [List.any_eq_false]; intro c hcm; have := hr c hcm; simp; omega
  rw [expect_rcpts s m rc rest hc hm hn (by rcases hw with h | h <;> simp [h]) (by rcases hw with h | h <;> simp [h])
        (by intro j; rcases hw with h | h <;> simp [h]), hany]
  simp [expData]

/-- DATA reply (some recipient accepted): ≥ 500 permanent, 400..499 temporary -/
theorem C09_rule_data (s : AScript) (m d : Nat) (rc rest : List Nat)
    (hc : s.codes = 220 :: 250 :: m :: (rc ++ d :: rest)) (hm : m < 400) (hn : rc.length = s.n)
    (hr : ∃ c ∈ rc, c < 400) (hw : s.wfail = none ∨ s.wfail = some .quit) (hd : d ≥ 400) :
    (expect s).v = (if d ≥ 500 then .D else .Z) ∧ (expect s).rl = rc.map clsLetter := by
  have hany : rc.any (fun c => decide (c < 400)) = true := by
    obtain ⟨c, h1, h2⟩ := hr; rw [List.any_eq_true]; exact ⟨c, h1, by simpa using h2⟩
  rw [expect_rcpts s m rc (d :: rest) hc hm hn (by rcases hw with h | h <;> simp [h]) (by rcases hw with h | h <;> simp [h])
        (by intro j; rcases hw with h | h <;> simp [h]), hany]
  by_cases h5 : d ≥ 500
  · rcases hw with hw | hw <;> simp [expData, hw, h5]
  · rcases hw with hw | hw <;> simp [expData, hw, h5, hd]

/-- reply to the final dot (DATA accepted, message complete): ≥ 500 permanent, 400..499 temporary,
below 400 success -/
theorem C09_rule_final (s : AScript) (m d f : Nat) (rc rest : List Nat)
    (hc : s.codes = 220 :: 250 :: m :: (rc ++ d :: f :: rest)) (hm : m < 400) (hn : rc.length = s.n)
    (hr : ∃ c ∈ rc, c < 400) (hw : s.wfail = none ∨ s.wfail = some .quit)
    (hd : d < 400) (he : s.msgErr = false) (hp : s.msgPartial = false) :
    (expect s).v = (if f ≥ 500 then .D else if f ≥ 400 then .Z else .K) ∧ (expect s).rl = rc.map clsLetter := by
  have hany : rc.any (fun c => decide (c < 400)) = true := by
    obtain ⟨c, h1, h2⟩ := hr; rw [List.any_eq_true]; exact ⟨c, h1, by simpa using h2⟩
  rw [expect_rcpts s m rc (d :: f :: rest) hc hm hn (by rcases hw with h | h <;> simp [h]) (by rcases hw with h | h <;> simp [h])
        (by intro j; rcases hw with h | h <;> simp [h]), hany]
  have h5 : ¬ d ≥ 500 := by omega
  have h4 : ¬ d ≥ 400 := by omega
  by_cases g5 : f ≥ 500
  · rcases hw with hw | hw <;> simp [expData, hw, h5, h4, he, hp, g5]
  · by_cases g4 : f ≥ 400
    · rcases hw with hw | hw <;> simp [expData, hw, h5, h4, he, hp, g5, g4]
    · rcases hw with hw | hw <;> simp [expData, hw, h5, h4, he, hp, g5, g4]

/-- the message file (DATA accepted): unreadable → temporary, partial last line → permanent -/
theorem C09_rule_message (s : AScript) (m d : Nat) (rc rest : List Nat)
    (hc : s.codes = 220 :: 250 :: m :: (rc ++ d :: rest)) (hm : m < 400) (hn : rc.length = s.n)
    (hr : ∃ c ∈ rc, c < 400) (hw : s.wfail = none ∨ s.wfail = some .quit) (hd : d < 400) :
    (s.msgErr = true → (expect s).v = .Z) ∧ (s.msgErr = false → s.msgPartial = true → (expect s).v = .D) := by
  have hany : rc.any (fun c => decide (c < 400)) = true := by
    obtain ⟨c, h1, h2⟩ := hr; rw [List.any_eq_true]; exact ⟨c, h1, by simpa using h2⟩
  rw [expect_rcpts s m rc (d :: rest) hc hm hn (by rcases hw with h | h <;> simp [h]) (by rcases hw with h | h <;> simp [h])
        (by intro j; rcases hw with h | h <;> simp [h]), hany]
  have h5 : ¬ d ≥ 500 := by omega
  have h4 : ¬ d ≥ 400 := by omega
  constructor
  · intro he; rcases hw with hw | hw <;> simp [expData, hw, h5, h4, he]
  · intro he hp; rcases hw with hw | hw <;> simp [expData, hw, h5, h4, he, hp]

/-- the server goes away (no failing write): with no reply to DATA → plain temporary failure; after DATA
was accepted and the message sent, with no (complete) reply to the dot → temporary failure flagged as a
possible duplicate -/
theorem C09_rule_lost (s : AScript) (m d : Nat) (rc : List Nat) (hm : m < 400) (hn : rc.length = s.n)
    (hr : ∃ c ∈ rc, c < 400) (hw : s.wfail = none ∨ s.wfail = some .quit)
    (hd : d < 400) (he : s.msgErr = false) (hp : s.msgPartial = false) :
    (s.codes = 220 :: 250 :: m :: (rc ++ []) → (expect s).v = .lost false) ∧
    (s.codes = 220 :: 250 :: m :: (rc ++ [d]) → (expect s).v = .lost true) := by
  have hany : rc.any (fun c => decide (c < 400)) = true := by
    obtain ⟨c, h1, h2⟩ := hr; rw [List.any_eq_true]; exact ⟨c, h1, by simpa using h2⟩
  have h5 : ¬ d ≥ 500 := by omega
  have h4 : ¬ d ≥ 400 := by omega
  constructor
  · intro hc
    rw [expect_rcpts s m rc [] hc hm hn (by rcases hw with h | h <;> simp [h]) (by rcases hw with h | h <;> simp [h])
          (by intro j; rcases hw with h | h <;> simp [h]), hany]
    rcases hw with hw | hw <;> simp [expData, hw]
  · intro hc
    rw [expect_rcpts s m rc [d] hc hm hn (by rcases hw with h | h <;> simp [h]) (by rcases hw with h | h <;> simp [h])
          (by intro j; rcases hw with h | h <;> simp [h]), hany]
    rcases hw with hw | hw <;> simp [expData, hw, h5, h4, he, hp]

/-- the server goes away earlier: a script that stops before the greeting, the HELO reply, the MAIL
reply or the reply to some RCPT is a plain temporary failure; the recipients answered so far keep
their classes -/
theorem C09_rule_lost_early (s : AScript) (hw : s.wfail = none ∨ s.wfail = some .quit) :
    (s.codes = [] → (expect s).v = .lost false) ∧ (s.codes = [220] → (expect s).v = .lost false) ∧
    (s.codes = [220, 250] → (expect s).v = .lost false) := by
  refine ⟨?_, ?_, ?_⟩ <;> intro hc <;> unfold expect <;> rcases hw with hw | hw <;> simp [hc, hw]

/-- a failing write in the DATA phase (everything accepted so far, message complete): the DATA command
and buffer-full flushes of the body → plain temporary failure; the write that carries the end of the
message → flagged; the QUIT → *no effect*: the verdict is the one the reply to the dot decides -/
theorem C09_rule_wfail (s : AScript) (m d f : Nat) (rc rest : List Nat)
    (hc : s.codes = 220 :: 250 :: m :: (rc ++ d :: f :: rest)) (hm : m < 400) (hn : rc.length = s.n)
    (hr : ∃ c ∈ rc, c < 400) (hd : d < 400) (he : s.msgErr = false) (hp : s.msgPartial = false) :
    (s.wfail = some .data → (expect s).v = .lost false) ∧
    (s.wfail = some .body → (expect s).v = .lost false) ∧
    (s.wfail = some .final → (expect s).v = .lost true) ∧
    (s.wfail = some .quit → (expect s).v = (if f ≥ 500 then .D else if f ≥ 400 then .Z else .K)) := by
  have hany : rc.any (fun c => decide (c < 400)) = true := by
    obtain ⟨c, h1, h2⟩ := hr; rw [List.any_eq_true]; exact ⟨c, h1, by simpa using h2⟩
  have h5 : ¬ d ≥ 500 := by omega
  have h4 : ¬ d ≥ 400 := by omega
  have key : ∀ w, s.wfail = some w → w = .data ∨ w = .body ∨ w = .final ∨ w = .quit →
      expect s = expData s (rc.map clsLetter) true (d :: f :: rest) := by
    intro w hw hcase
    rw [expect_rcpts s m rc (d :: f :: rest) hc hm hn (by rcases hcase with h | h | h | h <;> simp [hw, h])
          (by rcases hcase with h | h | h | h <;> simp [hw, h]) (by intro j; rcases hcase with h | h | h | h <;> simp [hw, h]), hany]
  refine ⟨?_, ?_, ?_, ?_⟩ <;> intro hw
  · rw [key _ hw (Or.inl rfl)]; simp [expData, hw]
  · rw [key _ hw (Or.inr (Or.inl rfl))]; simp [expData, hw, h5, h4]
  · rw [key _ hw (Or.inr (Or.inr (Or.inl rfl)))]; simp [expData, hw, h5, h4, he, hp]
  · exact (C09_rule_final s m d f rc rest hc hm hn hr (Or.inr hw) hd he hp).1


/-! ### Session 4: `blast()` over the 1024-byte `smtpto` buffer — the label of a failing write is computed

`Nq.RemoteBuf.bblast ws msg err` runs `blast()` over the substdio output model (`substdio_put` per piece in
source order, `substdio_flush`, `allwrite`) with an arbitrary write script `ws` (`0` = this `write()` call
fails, `k+1` = it takes at most `k+1` bytes; `failAt k` = "write number `k` fails, the others take all").
`smtpRunB` is `smtp()` with it; `toScript a sb` is the script of the unbuffered model `smtpRun` in which the
label `body`/`final` of a failing `blast()` write is the one `bblast` computes (`blastLabel`). -/

/-- **(i) Successful writes are a prefix of the encoding.** Whatever the write script (short writes, a
failing `write()` at any index) and whatever the message (complete, partial last line, read error): what the
socket has taken is a prefix of `rfull .top msg` (everything `blast()` hands to `substdio_put`; `= rblast msg`
when the message is complete); so is that followed by the (non-empty) bytes of the failing `write()`; and
`blast()` returns only with the complete encoding `rblast msg` on the wire and an empty buffer. -/
theorem C09_blast_writes_prefix (ws : List Nat) (msg : Bytes) (err : Bool) :
    (bblast ws msg err).ost.out <+: rfull .top msg ∧
    (∀ o crit t, bblast ws msg err = .dropped o crit t → 0 ∈ ws ∧ t ≠ [] ∧ o.out ++ t <+: rfull .top msg) ∧
    (∀ o, bblast ws msg err = .sent o → err = false ∧ rblast msg = some o.out ∧ o.buf = []) := by
  have h := bblast_spec ws msg err
  generalize bblast ws msg err = R at h
  have hb := rbody_prefix_rfull .top msg
  cases R with
  | sent o =>
    obtain ⟨h1, h2, h3, h4⟩ := h
    have h3' : o.out = rbody .top msg ++ [DOT, CR, LF] := by simpa using h3
    refine ⟨?_, fun _ _ _ e => (by cases e), fun o' e => ?_⟩
    · show o.out <+: _
      rw [h3', rfull_of_some _ _ _ h2]; exact List.prefix_refl _
    · cases e; exact ⟨h1, by rw [h3']; exact h2, h4⟩
  | partialLine o =>
    obtain ⟨_, _, h3⟩ := h
    refine ⟨?_, fun _ _ _ e => (by cases e), fun _ e => (by cases e)⟩
    have h7 : o.out <+: rpart .top msg := ⟨o.buf, by simpa using h3⟩
    exact h7.trans (by unfold rfull; exact List.prefix_append _ _)
  | tempRead o =>
    obtain ⟨_, h3⟩ := h
    refine ⟨?_, fun _ _ _ e => (by cases e), fun _ e => (by cases e)⟩
    have h7 : o.out <+: rpart .top msg := ⟨o.buf, by simpa using h3⟩
    exact h7.trans (by unfold rfull; exact List.prefix_append _ _)
  | dropped o crit t =>
    have key : 0 ∈ ws ∧ t ≠ [] ∧ o.out ++ t <+: rfull .top msg := by
      cases crit with
      | false =>
        obtain ⟨h0, _, h2, rest, _, h4⟩ := h
        exact ⟨h0, h2, (show o.out ++ t <+: rbody .top msg from ⟨rest, by simpa using h4⟩).trans hb⟩
      | true =>
        obtain ⟨h0, _, h2, _, h4, h5⟩ := h
        refine ⟨h0, h2, ?_⟩
        rw [rfull_of_some _ _ _ h4]
        rcases h5 with h5 | h5
        · exact ⟨[DOT, CR, LF], by rw [h5]; simp⟩
        · exact ⟨[], by rw [h5]; simp⟩
    refine ⟨(List.prefix_append _ _).trans key.2.2, fun o' c' t' e => ?_, fun _ e => (by cases e)⟩
    cases e; exact key

/-- **(ii) On which side of `flagcritical = 1` a failing write falls — computed from bytes.** When a `write()`
of `blast()` fails with `wire` = what the socket took before and `t` = the bytes of that call, `dropped()` runs
with `flagcritical = 1` **iff** the message was read to its end, ends a line, and with this write everything but
at most the 3-byte terminator `.CRLF` has been handed over (`|e| ≤ |wire| + |t| + 3`). Hence: a write that carries
the last byte of the encoding (the only one after which the peer may hold the complete message) is always
flagged; a write that is not flagged leaves more than the terminator unsent. The one over-warning case is the
flush forced by the put of the terminator itself (all of the body, none of the terminator: `|wire| + |t| + 3 = |e|`). -/
theorem C09_blast_flag (ws : List Nat) (msg : Bytes) (err : Bool) (o : OSt) (crit : Bool) (t : Bytes)
    (h : bblast ws msg err = .dropped o crit t) :
    (crit = true ↔ err = false ∧ ∃ e, rblast msg = some e ∧ e.length ≤ o.out.length + t.length + 3) ∧
    (∀ e, err = false → rblast msg = some e → e.length ≤ o.out.length + t.length → crit = true) ∧
    (crit = false → ∀ e, rblast msg = some e → o.out.length + t.length + 3 < e.length) := by
  have hs := bblast_spec ws msg err
  rw [h] at hs
  have main : crit = true ↔ err = false ∧ ∃ e, rblast msg = some e ∧ e.length ≤ o.out.length + t.length + 3 := by
    cases crit with
    | false =>
      obtain ⟨_, _, _, rest, h3, h4⟩ := hs
      constructor
      · intro e; cases e
      · rintro ⟨_, e, he, hl⟩
        have := rrun_rbody _ _ _ he
        have hlen := congrArg List.length h4
        have hr : 0 < rest.length := List.length_pos_iff.mpr h3
        rw [this] at hl
        simp only [List.length_append, List.nil_append, List.length_cons, List.length_nil] at hlen hl
        omega
    | true =>
      obtain ⟨_, _, _, h3, h4, h5⟩ := hs
      refine ⟨fun _ => ⟨h3, _, h4, ?_⟩, fun _ => rfl⟩
      rcases h5 with h5 | h5
      · have hlen := congrArg List.length h5
        simp only [List.length_append, List.nil_append, List.length_cons, List.length_nil] at hlen ⊢
        omega
      · have hlen := congrArg List.length h5
        simp only [List.length_append, List.nil_append, List.length_cons, List.length_nil] at hlen ⊢
        omega
  refine ⟨main, fun e he hb hl => main.mpr ⟨he, e, hb, by omega⟩, fun hc e hb => ?_⟩
  apply Classical.byContradiction
  intro hn
  have : crit = true := main.mpr ⟨?_, e, hb, by omega⟩
  · rw [hc] at this; cases this
  · -- a complete message and no flag: then there was no read error either way (the label does not depend on it)
    subst hc
    cases err with
    | false => rfl
    | true =>
      -- with a read error pending the failing write still precedes the end of the bytes: same bound
      exfalso
      obtain ⟨_, _, _, rest, h3, h4⟩ := hs
      have := rrun_rbody _ _ _ hb
      have hlen := congrArg List.length h4
      have hr : 0 < rest.length := List.length_pos_iff.mpr h3
      rw [this] at hn
      simp only [List.length_append, List.nil_append, List.length_cons, List.length_nil] at hlen hn
      omega

/-- **(iii-a) The buffered `smtp()` prints what the unbuffered model prints under the computed label**, and
reaches `quit()` in the same runs; its wire is exact. So every theorem above about `smtpRun a sc` holds for
`smtpRunB a sb` with `sc := toScript a sb` — the label is no longer an input. -/
theorem C09_buffered_reports (a : Args) (sb : ScriptB) :
    (smtpRunB a sb).rcpt = (smtpRun a (toScript a sb)).rcpt ∧
    (smtpRunB a sb).msg = (smtpRun a (toScript a sb)).msg ∧
    (smtpRunB a sb).quit = (smtpRun a (toScript a sb)).quit ∧
    renderB (smtpRunB a sb) = render (smtpRun a (toScript a sb)) := by
  obtain ⟨h1, h2, h3, _⟩ := smtpRunB_rel a sb
  exact ⟨h1, h2, h3, by simp only [renderB, render, h1, h2]⟩

/-- **Verdict classes with the computed label**: `C09_classes` for the buffered run — the class rules are
applied to the abstract script whose failing-write label comes out of the buffer model. -/
theorem C09_classes_buffered (a : Args) (sb : ScriptB) :
    verdictOK (expect (abstr a (toScript a sb))).v (obsOf (toRes (smtpRunB a sb))) = true ∧
    (obsOf (toRes (smtpRunB a sb))).rl = (expect (abstr a (toScript a sb))).rl := by
  obtain ⟨h1, h2, _⟩ := smtpRunB_rel a sb
  have := C09_classes a (toScript a sb)
  simpa only [obsOf, toRes, h1, h2] using this

/-- **(i) for the whole conversation: the exact wire.** What the server received from the buffered run —
including every successful write of `blast()` — is, apart from a final QUIT, a prefix of HELO, MAIL, the
RCPTs in argument order, DATA and the encoding `rfull .top a.msg`; each recipient report's RCPT is on the wire;
`K` only with everything (and QUIT, unless its write fails) on the wire. -/
theorem C09_wire_order_buffered (a : Args) (sb : ScriptB) :
    wireOrderQ a (rfull .top a.msg) (smtpRunB a sb).wire (obsOf (toRes (smtpRunB a sb)))
      (effWf a sb.wb == some .quit) = true :=
  wireOrderQ_of_WireOK a (effWf a sb.wb) (rfull .top a.msg) (toRes (smtpRunB a sb)) (wireOK_B a sb)

/-- **(ii) for the whole conversation: "Possible duplicate!" is computed.** When a write of `blast()` fails
(`tried = some t`; `wire` = what the server has received) the report is `dropped()`'s, and it carries the
duplicate flag **iff** the message is complete (no read error, last line terminated) and `flagWrite` holds of the
bytes — with this write the server would have everything but at most the terminator. In particular `critWrite`
(the write carries the last byte of the conversation's data: the peer may hold the whole message) implies the
flag, and an unflagged loss means more than the terminator was still unsent (`critWrite` false). -/
theorem C09_flag_computed (a : Args) (sb : ScriptB) (t : Bytes) (h : (smtpRunB a sb).tried = some t) :
    ∃ crit, (smtpRunB a sb).msg = droppedRep a.host crit ∧
      (crit = true ↔ a.msgErr = false ∧ (rblast a.msg).isSome = true ∧
        flagWrite a (rfull .top a.msg) (smtpRunB a sb).wire t = true) ∧
      (a.msgErr = false → (rblast a.msg).isSome = true →
        critWrite a (rfull .top a.msg) (smtpRunB a sb).wire t = true → crit = true) := by
  obtain ⟨_, _, _, _, _, h6⟩ := smtpRunB_rel a sb
  obtain ⟨o, crit, hb, hw, hm⟩ := h6 t h
  obtain ⟨f1, f2, _⟩ := C09_blast_flag _ _ _ _ _ _ hb
  have hiff : crit = true ↔ a.msgErr = false ∧ (rblast a.msg).isSome = true ∧
      flagWrite a (rfull .top a.msg) (smtpRunB a sb).wire t = true := by
    rw [f1]
    constructor
    · rintro ⟨he, e, hr, hl⟩
      refine ⟨he, by rw [hr]; rfl, ?_⟩
      have : rfull .top a.msg = e := rfull_of_some _ _ _ hr
      simp only [flagWrite, hw, this, List.length_append, decide_eq_true_eq]; omega
    · rintro ⟨he, hs, hf⟩
      obtain ⟨e, hr⟩ := Option.isSome_iff_exists.mp hs
      refine ⟨he, e, hr, ?_⟩
      have : rfull .top a.msg = e := rfull_of_some _ _ _ hr
      simp only [flagWrite, hw, this, List.length_append, decide_eq_true_eq] at hf; omega
  refine ⟨crit, hm, hiff, fun he hs hc => hiff.mpr ⟨he, hs, ?_⟩⟩
  simp only [critWrite, flagWrite, Bool.and_eq_true, decide_eq_true_eq] at hc ⊢
  omega

/-- **(iii) End to end with the computed label.** If qmail-rspawn relays `K` for the output of the buffered
run, the class rules — over the script whose failing-write label is computed — say `K` and the first recipient
was accepted; in particular no write of `blast()` failed. -/
theorem C09_end_to_end_buffered (a : Args) (sb : ScriptB) (hh : NUL ∉ a.host)
    (hK : headB (rreport 0 (renderB (smtpRunB a sb))) = cK) :
    (expect (abstr a (toScript a sb))).v = .K ∧ (expect (abstr a (toScript a sb))).rl.head? = some lR ∧
    (smtpRunB a sb).tried = none := by
  rw [(C09_buffered_reports a sb).2.2.2] at hK
  obtain ⟨h1, h2⟩ := C09_end_to_end a (toScript a sb) hh hK
  refine ⟨h1, h2, ?_⟩
  cases ht : (smtpRunB a sb).tried with
  | none => rfl
  | some t =>
    exfalso
    obtain ⟨crit, hm, _⟩ := C09_flag_computed a sb t ht
    have hc := (C09_classes_buffered a sb).1
    rw [h1] at hc
    simp only [verdictOK, obsOf, toRes, hm, headB_dropped, beq_iff_eq] at hc
    exact absurd hc (by decide)

/-! ### The relayed line, all three classes (round-4 seeds)

`C09_end_to_end` speaks about a relayed `K` only. The fold `report()` makes of the recipient letter (`r`/`h`/`s`)
and the message verdict (`K`/`Z`/`D`) decides between *retry* and *bounce* as well: qmail-remote, left without an
accepted recipient, prints `s…` followed by `DGiving up on …`, and only `report()`'s `case 's': orr = 0` makes that
pair the temporary failure the property demands for a 4xx reply to RCPT. -/

/-- **The relayed verdict is the documented function of the server's replies.** For every server script the line
qmail-rspawn's `report()` relays for qmail-remote's output starts with `relayClass (expect …)`: first (for the
spawner: only) recipient refused with 4xx → `Z`, refused with 5xx → `D`, otherwise the class of the message verdict
(`K` only if the rules say `K`; greeting/HELO trouble, 4xx to MAIL/DATA/the message and any lost connection → `Z`;
5xx there → `D`). -/
theorem C09_relay_class (a : Args) (sc : Script) (hh : NUL ∉ a.host) :
    relayAsReplied (expect (abstr a sc)) (rreport 0 (render (smtpRun a sc))) = true := by
  simp only [relayAsReplied, beq_iff_eq]
  exact relay_class a sc hh

/-- the same for `smtp()` with `blast()` over the 1024-byte buffer (label of a failing write computed) -/
theorem C09_relay_class_buffered (a : Args) (sb : ScriptB) (hh : NUL ∉ a.host) :
    relayAsReplied (expect (abstr a (toScript a sb))) (rreport 0 (renderB (smtpRunB a sb))) = true := by
  rw [(C09_buffered_reports a sb).2.2.2]
  exact C09_relay_class a (toScript a sb) hh

theorem expData_rl (s : AScript) (rl : List Byte) (b : Bool) (cs : List Nat) : (expData s rl b cs).rl = rl := by
  unfold expData
  repeat (first | rfl | split)

/-- `relayClass` spelled out for the spawner's case, one recipient (rule table only): greeting 220, HELO 250, MAIL
accepted, reply `p` to the only RCPT — `p` ≥ 500 → `D`, 400..499 → `Z` **whatever follows** (qmail-remote's own
message verdict is `D`, "Giving up", there), below 400 → the class of the message verdict. -/
theorem C09_relay_rule_sole (s : AScript) (m p : Nat) (rest : List Nat)
    (hc : s.codes = 220 :: 250 :: m :: p :: rest) (hm : m < 400) (hn : s.n = 1)
    (hw : s.wfail = none ∨ s.wfail = some .quit) :
    relayClass (expect s) = (if p ≥ 500 then cD else if p ≥ 400 then cZ else vLetter (expect s).v) ∧
    (p ≥ 400 → (expect s).v = .D) := by
  have he := expect_rcpts s m [p] rest (by simpa using hc) hm (by simp [hn])
    (by rcases hw with h | h <;> simp [h]) (by rcases hw with h | h <;> simp [h])
    (by intro j; rcases hw with h | h <;> simp [h])
  have hrl : (expect s).rl = [clsLetter p] := by rw [he, expData_rl]; rfl
  refine ⟨?_, ?_⟩
  · simp only [relayClass, hrl, List.head?_cons, clsLetter]
    by_cases h5 : p ≥ 500
    · simp [h5, lH, lS]
    · by_cases h4 : p ≥ 400
      · simp [h5, h4]
      · simp [h5, h4, lR, lS, lH]
  · intro h4
    have : ¬ p < 400 := by omega
    rw [he]; simp [expData, this]

/-- no recipient report (trouble before the first RCPT reply): the relayed class is that of the message verdict -/
theorem C09_relay_rule_early (e : Exp) (h : e.rl = []) : relayClass e = vLetter e.v := by
  simp [relayClass, h]

/-! ### Non-vacuity -/

/-- two recipients, the first refused (multi-line 550), the second accepted, message accepted -/
def exArgs : Args := { host := lit "192.0.2.25", helo := lit "me", sender := lit "s@a", rcpts := [lit "x@b", lit "y@b"],
                       msg := lit "hi\n", msgErr := false }
def exStream : Bytes := lit "220 a\r\n250 b\r\n250 c\r\n550-no\r\n550 such user\r\n250 d\r\n354 e\r\n250 f\r\n"

/-- the same, cut inside the reply to the final dot -/
def exCut : Bytes := lit "220 a\r\n250 b\r\n250 c\r\n550-no\r\n550 such user\r\n250 d\r\n354 e\r\n250"

example : (abstr exArgs ⟨exStream, none⟩).codes = [220, 250, 250, 550, 250, 354, 250] := by decide
example : specCodes exStream = some [220, 250, 250, 550, 250, 354, 250] := by decide
example : (obsOf (smtpRun exArgs ⟨exStream, none⟩)).rl = [lH, lR] ∧ (obsOf (smtpRun exArgs ⟨exStream, none⟩)).ml = cK := by decide
/-- the same conversation cut inside the reply to the final dot: temporary, flagged (the hypothesis of
`C09_possible_duplicate` holds for its abstract script) -/
example : (abstr exArgs ⟨exCut, none⟩).codes = [220, 250, 250, 550, 250, 354] := by decide
example : (expect { codes := [220, 250, 250, 550, 250, 354], n := 2, msgErr := false, msgPartial := false, wfail := none }).v
    = .lost true := by decide
example : (obsOf (smtpRun exArgs ⟨exCut, none⟩)).ml = cZ ∧ (obsOf (smtpRun exArgs ⟨exCut, none⟩)).dup = true := by decide
set_option maxRecDepth 20000 in
example : render (smtpRun exArgs ⟨exCut, none⟩) =
    lit "h192.0.2.25 does not like recipient.\nRemote host said: 550-no\n550 such user\n" ++ [0] ++ lit "r" ++ [0] ++
    lit "ZConnected to 192.0.2.25 but connection died. Possible duplicate! (#4.4.2)\n" ++ [0] := by decide
/-- former finding C09-quit-write-failure (fixed by 7dc98ec): the message was accepted and then the
QUIT write fails — the report is still `K`; likewise a 550 to MAIL stays `D` -/
example : (expect (abstr exArgs ⟨exStream, some .quit⟩)).v = .K := by decide
set_option maxRecDepth 20000 in
example : (smtpRun exArgs ⟨exStream, some .quit⟩).msg = lit "K192.0.2.25 accepted message.\nRemote host said: 250 f\n" := by decide
example : (expect (abstr exArgs ⟨lit "220 a\r\n250 b\r\n550 no\r\n", some .quit⟩)).v = .D := by decide
set_option maxRecDepth 20000 in
example : (smtpRun exArgs ⟨lit "220 a\r\n250 b\r\n550 no\r\n", some .quit⟩).msg =
    lit "DConnected to 192.0.2.25 but sender was rejected.\nRemote host said: 550 no\n" := by decide
/-- the hypotheses of `C09_classes_wellformed` and of the lifted rules are satisfiable -/
example : partialMsg exArgs.msg (rblast exArgs.msg).isNone = false := by decide
example : (expect { codes := 220 :: 250 :: 250 :: ([550, 250] ++ [354, 250]), n := 2, msgErr := false, msgPartial := false,
                    wfail := some .quit }).v = .K := by decide
/-- `critWrite`: all commands received, the whole encoded message in one write: that write is critical;
a write of its first 6 bytes (without the last byte of the terminator) is not -/
example : critWrite exArgs (lit "hi\r\n.\r\n") (fullCmds exArgs) (lit "hi\r\n.\r\n") = true ∧
          critWrite exArgs (lit "hi\r\n.\r\n") (fullCmds exArgs) (lit "hi\r\n.\r") = false := by decide
example : hasAddr (lit "10.0.0.1") none (lit "ZConnected to 110.0.0.1 but") = false ∧
          hasAddr (lit "10.0.0.1") none (lit "DGiving up on 10.0.0.1.\n") = true ∧
          hasAddr (lit "10.0.0.1") none (lit "h10.0.0.15 does") = false := by decide
/-- a reply that does not start with digits still gets a number: "1?0" counts as 250 -/
example : codeNat (lit "1?0 x\n") = 250 := by decide
/-- ... and a negative value wraps to a huge one (permanent failure) -/
example : codeNat (lit "abc\n") ≥ 500 ∧ codeNat (lit "   \n") ≥ 500 := by decide

example : rreport 0 (lit "r" ++ [0] ++ lit "Kaccepted\n" ++ [0]) = lit "Kaccepted\n" := by decide
example : rreport 0 (lit "sdeferred\n" ++ [0] ++ lit "Kaccepted\n" ++ [0]) = lit "Zdeferred\n" := by decide
example : rreport 0 (lit "hrefused\n" ++ [0] ++ lit "DGiving up\n" ++ [0]) = lit "Drefused\nGiving up\n" := by decide
/-- unterminated second report: its text is copied up to the end of the output, not beyond -/
example : rreport 0 (lit "r" ++ [0] ++ lit "Kab") = lit "Dab" := by decide
example : rreport 11 (lit "r" ++ [0] ++ lit "Kok" ++ [0]) = lit "Zqmail-remote crashed.\n" := by decide

/-- connect trouble: the best MX is this host itself, the only better one times out → Z -/
example : connectPhase 0 (lit "h") [⟨lit "10.0.0.1", 0, false, false, 2⟩, ⟨lit "10.0.0.2", 10, true, false, 0⟩]
    = .report tempNoconnRep := by decide
example : connectPhase 0 (lit "h") [⟨lit "10.0.0.1", 0, false, true, 0⟩, ⟨lit "10.0.0.2", 0, false, false, 0⟩, ⟨lit "10.0.0.3", 5, true, false, 0⟩]
    = .connected 1 (lit "10.0.0.2") := by decide

/-! non-vacuity for the session-4 theorems (`bblast`, `smtpRunB`) -/

/-- (wire, flag, bytes of the failing write) of a dropped `blast()` -/
def dropView : BRes → Option (Bytes × Bool × Nat)
  | .dropped o c t => some (o.out, c, t.length)
  | _ => none

/-- short message, the only write of `blast()` fails: it carries the whole encoding → flagged -/
example : dropView (bblast (failAt 0) (lit "hi\n") false) = some ([], true, 7) := by decide
/-- short write of 3 bytes, then the failure: the wire has "hi\r", the failing call has the other 4 bytes → flagged -/
example : dropView (bblast [3, 0] (lit "hi\n") false) = some (lit "hi\r", true, 4) := by decide
/-- a read error after the bytes: nothing is written, `temp_read()` -/
example : (bblast [0] (lit "hi\n") true) = .tempRead ((bblast [0] (lit "hi\n") true).ost) ∧
    (bblast [0] (lit "hi\n") true).ost.out = [] := by decide
/- 1100 body bytes: the first write is a buffer-full flush long before the end → not flagged (`body`);
    the second one is the final flush → flagged -/
set_option maxRecDepth 100000 in
example : blastLabel (bblast (failAt 0) (List.replicate 1100 97 ++ [10]) false) = some .body ∧
    blastLabel (bblast (failAt 1) (List.replicate 1100 97 ++ [10]) false) = some .final ∧
    blastLabel (bblast (failAt 2) (List.replicate 1100 97 ++ [10]) false) = none := by decide
/- the boundary: 1022 bytes and a newline fill the buffer exactly; the put of the terminator forces a flush of
    1024 body bytes with `flagcritical` already 1 — flagged although the write carries no byte of the terminator
    (the over-warning case of `C09_blast_flag`: |wire| + |t| + 3 = |e| = 1027) -/
set_option maxRecDepth 100000 in
example : (dropView (bblast (failAt 0) (List.replicate 1022 97 ++ [10]) false)).map (fun v => (v.2.1, v.2.2)) = some (true, 1024) ∧
    (dropView (bblast (failAt 1) (List.replicate 1022 97 ++ [10]) false)).map (fun v => (v.1.length, v.2.1, v.2.2)) = some (1024, true, 3) := by
  decide
/-- the whole conversation: DATA accepted, the write of the message fails → computed label `final`, flagged report,
    the wire is exactly the commands, `tried` is the encoding -/
def exArgs1 : Args := { exArgs with rcpts := [lit "x@b"] }
def exOk1 : Bytes := lit "220 a\r\n250 b\r\n250 c\r\n250 d\r\n354 e\r\n250 f\r\n"
set_option maxRecDepth 20000 in
example : (toScript exArgs1 ⟨exOk1, .blast (failAt 0)⟩).wfail = some .final ∧
    (smtpRunB exArgs1 ⟨exOk1, .blast (failAt 0)⟩).tried = some (lit "hi\r\n.\r\n") ∧
    (smtpRunB exArgs1 ⟨exOk1, .blast (failAt 0)⟩).wire = fullCmds exArgs1 ∧
    (smtpRunB exArgs1 ⟨exOk1, .blast (failAt 0)⟩).msg = droppedRep exArgs1.host true := by decide
/- no failing write: K, the wire ends with the encoding and QUIT (hypothesis of `C09_end_to_end_buffered`) -/
set_option maxRecDepth 20000 in
example : headB (rreport 0 (renderB (smtpRunB exArgs1 ⟨exOk1, .blast [2, 2]⟩))) = cK ∧
    (smtpRunB exArgs1 ⟨exOk1, .blast [2, 2]⟩).wire = fullCmds exArgs1 ++ lit "hi\r\n.\r\n" ++ quitCmd := by decide

/- the spawner's case that round-4 seed m1 broke: one recipient, `450` to RCPT. qmail-remote prints `s…` and
   `DGiving up on …`; the rules say recipient `s`, message `D`; the relayed line must be — and is — `Z` -/
set_option maxRecDepth 20000 in
example : (smtpRun exArgs1 ⟨lit "220 a\r\n250 b\r\n250 c\r\n450 greylisted\r\n", none⟩).rcpt.map headB = [lS] ∧
    headB (smtpRun exArgs1 ⟨lit "220 a\r\n250 b\r\n250 c\r\n450 greylisted\r\n", none⟩).msg = cD ∧
    headB (rreport 0 (render (smtpRun exArgs1 ⟨lit "220 a\r\n250 b\r\n250 c\r\n450 greylisted\r\n", none⟩))) = cZ ∧
    relayClass (expect (abstr exArgs1 ⟨lit "220 a\r\n250 b\r\n250 c\r\n450 greylisted\r\n", none⟩)) = cZ := by decide
set_option maxRecDepth 20000 in
example : headB (rreport 0 (render (smtpRun exArgs1 ⟨lit "220 a\r\n250 b\r\n250 c\r\n550 no\r\n", none⟩))) = cD := by decide

end Nq.Props.C09
