/-
  C09 — Remote delivery verdicts are sound for every server behaviour.

  Models: `Nq.RemoteSmtp.smtpRun` (qmail-remote.c `smtp()`, `smtpcode()`, `quit()`, `dropped()`,
  `outsmtptext()`; `blast()` is `Nq.SmtpOut.rblast`) and `Nq.RspawnReport.rreport`
  (qmail-rspawn.c `report()`), tied to the source by `harness/c09_remote.c`.
  The predicates (`expect`, `verdictOK`, `kSound`, `rcptOrder`, `rspawnSound`, `rspawnClasses`,
  `noUpgrade`) are in `Nq.Spec.RemoteVerdict`; compiled, they are the oracle of the driver.
  Only property theorems live here.

  The server is `sc : Script`: every byte it ever sends (`stream`; reads past the end fail, which
  is what both a disconnect and a stall look like to the client) and the write that fails, if any.
  `abstr a sc` is the script as the client sees it: the code of each reply it delimits, in order.
-/
import Nq.Lemmas.RemoteSmtp

namespace Nq.Props.C09
open Nq Nq.SmtpOut Nq.RemoteSmtp Nq.RspawnReport Nq.Spec.RemoteVerdict Nq.Lemmas.RemoteSmtp

/-- **Verdict classes.** For every server script, the message report has the class the rules
require (`expect`: the first decisive event wins — greeting ≠ 220 / HELO ≠ 250 → Z; MAIL, DATA,
final-dot reply ≥ 500 → D, 400..499 → Z; every RCPT refused → D; unreadable message → Z, partial
last line → D; any failed read or write → Z "connection died", flagged "Possible duplicate!" when it
happens between the final flush and the reply to the dot; otherwise K), and the per-recipient reports
are exactly the classes (`r`/`s`/`h`) the rules give, in order. -/
theorem C09_classes (a : Args) (sc : Script) :
    verdictOK (expect (abstr a sc)).v (obsOf (smtpRun a sc)) = true ∧
    (obsOf (smtpRun a sc)).rl = (expect (abstr a sc)).rl :=
  run_good a sc.wfail _

/-- **K is sound.** The message is reported `K` only if the greeting was 220, the HELO reply 250,
the replies to MAIL, DATA and the final dot below 400, there is one report per recipient and at least
one of them is `r`, no write failed, and the message was read completely and ends with a newline. -/
theorem C09_K_sound (a : Args) (sc : Script) : kSound (abstr a sc) (obsOf (smtpRun a sc)) = true :=
  kSound_of_good _ _ (run_good a sc.wfail _)

/-- **Recipient reports in argument order.** Never more reports than recipient arguments; the `i`-th
report is the class of the reply to the `i`-th RCPT (reply number `3+i` of the conversation); there are
none unless greeting, HELO and MAIL were accepted. -/
theorem C09_rcpt_order (a : Args) (sc : Script) : rcptOrder (abstr a sc) (obsOf (smtpRun a sc)) = true :=
  rcptOrder_of_good _ _ (run_good a sc.wfail _)

end Nq.Props.C09
