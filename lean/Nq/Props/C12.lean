/-
  C12 — Mailbox deliveries are complete or absent: maildir atomic, mbox rolled back.

  Models (`Nq.LocalDeliver`): `Md.accept` — acceptor of the system-call traces of `maildir()` and
  `maildir_child()` with the abstract file `Md.FS` and the crash relation `Md.CrashOf`; `Mb.accept` /
  `Mb.sysStep` — acceptor of `mailfile()` and the system of any number of concurrent deliveries to one
  mbox file with `flock` as a mutex; `mboxEntry`, `gfrom`, `myctime`, `ufline` and (from `Nq.Local`)
  `rpline`, `dtline`.  Specification (`Nq.Spec.Mbox`): the reader of mbox(5), `mboxRead`.

  Tie: every trace of the real qmail-local recorded under qsim (all inputs × single faults × schedules)
  is replayed through the acceptors by `drv_c12`; gfrom()/myctime() are compared on exhaustive / dense
  inputs; the exit-status `switch` of `maildir()` is regenerated from the source (`Gen.LocalExit`).

  The maildir theorems quantify over every accepted trace — every message, chunking, short write,
  EINTR, failing call, alarm — and, since every prefix of an accepted trace is accepted
  (`C12_maildir_prefix_closed`), over every instant at which the process or machine may stop;
  `CrashOf` lets a file not fsynced since its last change come back with arbitrary content.
-/
import Nq.Lemmas.LocalDeliverMd
import Nq.Lemmas.LocalDeliverMb
import Nq.Lemmas.LocalDeliverMbox
import Nq.Lemmas.LocalDeliverDate
import Nq.Lemmas.MaildirSys

namespace Nq.Props.C12
open Nq Nq.LocalDeliver Nq.Mbox

/-! ## Maildir -/
section maildir
open Nq.LocalDeliver.Md Nq.Lemmas.LD.Md

/-- the trace is a run of one maildir delivery from the start -/
def MdRun (p : Md.Params) (evs : List Md.Ev) (s : Md.St) : Prop := Md.acceptAll p {} evs = some s

/-- Crash points are covered: each prefix of a run is a run. -/
theorem C12_maildir_prefix_closed (p : Md.Params) (evs : List Md.Ev) (s : Md.St) (k : Nat) (h : MdRun p evs s) :
    ∃ s', MdRun p (evs.take k) s' := accept_prefix p evs k {} s h

/-- **Atomic at every instant, under every crash.**  If after any prefix of a delivery and any
crash resolution the message is visible in new/, then the file holds exactly the Return-Path line,
the Delivered-To line and the message. -/
theorem C12_maildir_atomic (p : Md.Params) (evs : List Md.Ev) (s : Md.St) (h : MdRun p evs s) (fs' : Md.FS)
    (hc : Md.CrashOf (Md.applyAll {} evs) fs') (hv : fs'.newName = true) : fs'.cur = p.content := by
  have hinv := run_inv p evs {} s {} (inv_init p) h
  obtain ⟨_, c2, c3⟩ := hc
  have hcomp := hinv.1 (by rw [← c2]; exact hv)
  rw [c3 hcomp.2]; exact hcomp.1

/-- **Success means delivered, durably**: when qmail-local reports success the message is visible in
new/, complete, and stays so across any crash. -/
theorem C12_maildir_success (p : Md.Params) (evs : List Md.Ev) (s : Md.St) (h : MdRun p evs s) (hx : s.pc = .done 0)
    (fs' : Md.FS) (hc : Md.CrashOf (Md.applyAll {} evs) fs') : fs'.newName = true ∧ fs'.cur = p.content := by
  have hinv := run_inv p evs {} s {} (inv_init p) h
  have hn : (Md.applyAll {} evs).newName = true := by
    have := hinv.2; simp [PcInv, hx] at this; exact this
  have hv : fs'.newName = true := by rw [hc.2.1]; exact hn
  exact ⟨hv, C12_maildir_atomic p evs s h fs' hc hv⟩

/-- **Failure means absent**: when qmail-local reports a failure nothing is visible in new/ — unless a
signal (the 24-hour alarm, a kill) hit the child after its `link`, in which case the complete
message is there (`C12_maildir_atomic`) and will be delivered a second time, never lost. -/
theorem C12_maildir_failure (p : Md.Params) (evs : List Md.Ev) (s : Md.St) (h : MdRun p evs s) (c : Nat)
    (hx : s.pc = .done c) (hc0 : c ≠ 0) (hsig : s.interrupted = false) (fs' : Md.FS)
    (hc : Md.CrashOf (Md.applyAll {} evs) fs') : fs'.newName = false := by
  have hinv := run_inv p evs {} s {} (inv_init p) h
  have := hinv.2; simp [PcInv, hx] at this
  have h2 := this.2.1 hc0
  rw [hc.2.1]
  cases hn : (Md.applyAll {} evs).newName with
  | false => rfl
  | true => have := h2 hn; rw [hsig] at this; cases this

/-- **Failures of a delivery are temporary**: once `maildir()` has forked, qmail-local exits 0 or 111. -/
theorem C12_maildir_exit_codes (p : Md.Params) (evs : List Md.Ev) (s : Md.St) (h : MdRun p evs s) (c : Nat)
    (hx : s.pc = .done c) (hf : s.forked = true) : c = 0 ∨ c = 111 := by
  have hinv := run_inv p evs {} s {} (inv_init p) h
  have := hinv.2; simp [PcInv, hx] at this
  exact this.2.2 hf

/-- **The exit-status switch of `maildir()`** (regenerated from the source): only child status 0 is
reported as success. -/
theorem C12_maildir_exit_map (c : Nat) : (parentCode c = 0 ↔ c = 0) ∧ (parentCode c = 0 ∨ parentCode c = 111) :=
  ⟨parentCode_zero c, parentCode_cases c⟩

/-- **Only `link` populates new/**: an accepted event that makes new/ non-empty is a successful `link`
issued at the control point `linking`.  (This restates the guard of `Md.accept` and `Md.apply`; what
must have happened before that control point is reached is `C12_maildir_link_reach`.) -/
theorem C12_maildir_link_only (p : Md.Params) (s s' : Md.St) (e : Md.Ev) (fs : Md.FS) (h : Md.accept p s e = some s')
    (h0 : fs.newName = false) (h1 : (Md.apply fs e).newName = true) : e = .link true ∧ s.pc = .linking := by
  cases e with
  | link ok =>
    cases ok with
    | true =>
      simp only [Md.accept] at h
      split at h
      · rename_i hp; exact ⟨rfl, hp⟩
      · cases h
    | false => simp [Md.apply, h0] at h1
  | openExcl ok ex => cases ok <;> simp [Md.apply, h0] at h1
  | fsync ok => cases ok <;> simp [Md.apply, h0] at h1
  | unlinkTmp ok => cases ok <;> simp [Md.apply, h0] at h1
  | write bs => simp [Md.apply, h0] at h1
  | _ => simp [Md.apply, h0] at h1

/-- **Reachability of the link** (inductive, over all accepted traces): in any run whose last event is
a successful `link`, the events before it leave this delivery's file named in tmp/ (a successful
`open_excl`), nothing in new/, the writes since that `open_excl` concatenating to exactly
Return-Path line + Delivered-To line + message, a successful `fsync` after the last write, and the
event immediately before the `link` is the successful `close`. -/
theorem C12_maildir_link_reach (p : Md.Params) (evs : List Md.Ev) (s : Md.St) (h : MdRun p (evs ++ [.link true]) s) :
    (Md.applyAll {} evs).tmpName = true ∧ (Md.applyAll {} evs).newName = false ∧ (Md.applyAll {} evs).cur = p.content ∧
    (Md.applyAll {} evs).synced = true ∧ evs.getLast? = some (.close true) := link_reach p evs s h

/-- **Names**: the name `time.pid.host` used under tmp/ and new/ determines the second and the
process id of the delivering child.  Two deliveries on one host that use the same name therefore
are the same process in the same second — and one child performs one delivery; a name left over
from an earlier life of the same pid is detected by `open_excl` (retry, then failure) and by `link`
(failure): `Md.accept` has no path on which an existing name is taken over. -/
theorem C12_maildir_names (t p t' p' : Nat) (h h' : Bytes) (he : maildirName t p h = maildirName t' p' h') :
    t = t' ∧ p = p' := Nq.Lemmas.LD.Rt.maildirName_inj t p t' p' h h' he

end maildir

/-! ## Mbox: the entry and the reader -/
section roundtrip
open Nq.Lemmas.LD.Rt

/-- exactly one LF, at the end -/
def OneLine (l : Bytes) : Prop := ∃ pre, l = pre ++ [LF] ∧ LF ∉ pre

/-- **Header lines**: the Return-Path, Delivered-To and From_ lines built by `main` are single lines
whatever bytes the envelope sender, the recipient and the host contain (newlines in them become
'_' resp. '-'); the From_ line is a From_ line, the other two are neither From_ nor >From_ lines; and
a reader gets the envelope sender back from the From_ line with blanks, tabs and newlines replaced
by '-' (MAILER-DAEMON for the empty sender), as mbox(5) says. -/
theorem C12_headers (sender loc host : Bytes) (t : Nat) :
    OneLine (Local.rpline sender) ∧ OneLine (Local.dtline loc host) ∧ OneLine (ufline sender t) ∧
    isFromLine (ufline sender t) = true ∧ gfrom (Local.rpline sender) = false ∧ gfrom (Local.dtline loc host) = false ∧
    envSender (ufline sender t) = ufSender sender ∧ (∀ c ∈ ufSender sender, c ≠ SP ∧ c ≠ TAB ∧ c ≠ LF) :=
  ⟨rpline_single sender, dtline_single loc host, ufline_single sender t, ufline_from sender t, rpline_gfrom sender,
   dtline_gfrom loc host, ufline_sender sender t, ufSender_clean sender⟩

/-- **The date has exactly 24 characters** (mbox(5): "It always contains exactly 24 characters in
asctime format"), for every instant from 1970-01-01 00:00:00 to 9999-12-31 23:59:59 (later years need
five digits): weekday and month indices are in range of the name tables, the other fields have two
resp. four digits — from the Gregorian-calendar theorem for `datetime_tai` (`Nq/Lemmas/Datetime.lean`,
read-only).  So the From_ line is "From " word " " 24 characters LF. -/
theorem C12_date_24 (sender : Bytes) (t : Nat) (ht : t < 253402300800) :
    (myctime t).length = 25 ∧ (ufline sender t).length = 5 + (ufSender sender).length + 1 + 24 + 1 := by
  have h := Nq.Lemmas.LD.Date.myctime_length t ht
  refine ⟨h, ?_⟩
  simp [ufline, uflinePrefix_eq, h, fromSp]; omega

/-- **gfrom.c is the documented test**: `>` is prepended exactly to From_, >From_, >>From_, … lines. -/
theorem C12_gfrom (l : Bytes) : gfrom l = (isFromLine l || isQuoted l) := gfrom_spec l

/-- **Round trip** for every message and every envelope: appending the entry to a file that ends at
a line boundary leaves such a file, and the documented reader finds the old messages unchanged
followed by exactly one new message: the From_ line, and the Return-Path line, the Delivered-To line
and the message — byte for byte, for NUL and 8-bit bytes, From_/>From_ lines and empty messages; the
only normalisation is the completion of a partial last line that mbox(5) prescribes. -/
theorem C12_mbox_roundtrip (box msg sender loc host : Bytes) (t : Nat) (hbox : AtBoundary box) :
    let entry := mboxEntry (ufline sender t) (Local.rpline sender) (Local.dtline loc host) msg
    AtBoundary (box ++ entry) ∧
    mboxRead (box ++ entry) = mboxRead box ++
      [(ufline sender t, completeLastLine (Local.rpline sender ++ Local.dtline loc host ++ msg))] :=
  roundtrip box _ _ _ msg hbox (ufline_single sender t) (ufline_from sender t) (rpline_single sender) (rpline_gfrom sender)
    (dtline_single loc host) (dtline_gfrom loc host)

/-- one delivery: envelope sender, time, recipient local part and host, message -/
structure Delivery where
  sender : Bytes
  t : Nat
  loc : Bytes
  host : Bytes
  msg : Bytes

/-- what `mailfile()` appends for it -/
def entryOf (d : Delivery) : Bytes := mboxEntry (ufline d.sender d.t) (Local.rpline d.sender) (Local.dtline d.loc d.host) d.msg

/-- what the reader must return for it -/
def readOf (d : Delivery) : Bytes × Bytes :=
  (ufline d.sender d.t, completeLastLine (Local.rpline d.sender ++ Local.dtline d.loc d.host ++ d.msg))

/-- **Round trip for any sequence of deliveries** (with `C12_mbox_final`: for the result of any
number of concurrent deliveries): the reader returns the old messages and then exactly the
delivered messages, in the order of the entries. -/
theorem C12_mbox_roundtrip_many (ds : List Delivery) : ∀ (box : Bytes), AtBoundary box →
    AtBoundary (box ++ (ds.map entryOf).flatten) ∧
    mboxRead (box ++ (ds.map entryOf).flatten) = mboxRead box ++ ds.map readOf := by
  induction ds with
  | nil => intro box hb; simpa using hb
  | cons d ds ih =>
    intro box hb
    have h1 := C12_mbox_roundtrip box d.msg d.sender d.loc d.host d.t hb
    simp only at h1
    obtain ⟨hb1, hr1⟩ := h1
    have h2 := ih (box ++ entryOf d) hb1
    simp only [List.map_cons, List.flatten_cons, ← List.append_assoc]
    refine ⟨h2.1, ?_⟩
    rw [h2.2]
    unfold entryOf readOf
    rw [hr1]
    simp [List.append_assoc]

/-- a message that ends with a newline (or is empty) comes back unchanged -/
theorem C12_mbox_roundtrip_exact (m : Bytes) (h : m = [] ∨ m.getLast? = some LF) : completeLastLine m = m := by
  simp [completeLastLine, h]

end roundtrip

/-! ## Mbox: locking, roll-back, serialisation -/
section mbox
open Nq.LocalDeliver.Mb Nq.Lemmas.LD.Mb

/-- a run of any number of deliveries (process `i` appends `entry i`) to a file that holds `box` -/
def MbRun (entry : Nat → Bytes) (box : Bytes) (tr : List (Nat × Mb.Ev)) (y : Mb.Sys) : Prop :=
  Mb.sysRun entry { file := box } tr = some y

/-- no `flock` and no `ftruncate` fails in the run (if `lock_ex` fails the program proceeds unlocked) -/
def Benign (tr : List (Nat × Mb.Ev)) : Prop := ∀ x ∈ tr, Mb.benign x.2 = true

/-- **Deliveries never interleave.**  At every instant of every interleaving of any number of
deliveries the file is the old content, followed by the complete entries of the deliveries that have
finished their append, in the order in which they held the lock, followed by what the current lock
holder has appended so far; nobody else is inside the critical section. -/
theorem C12_mbox_serial (entry : Nat → Bytes) (box : Bytes) (tr : List (Nat × Mb.Ev)) (y : Mb.Sys)
    (h : MbRun entry box tr y) (hb : Benign tr) :
    y.order.Nodup ∧ (∀ j, j ∈ y.order ↔ Committed (y.st j).pc = true) ∧
    (∀ j, InCrit (y.st j).pc = true → y.holder = some j) ∧
    (y.holder = none → y.file = box ++ (y.order.map entry).flatten) ∧
    (∀ i, y.holder = some i → ∃ part, y.file = box ++ (y.order.map entry).flatten ++ part) := by
  have hinv := run_inv entry box tr _ y (inv_init entry box) hb h
  refine ⟨hinv.nodup, hinv.ord, hinv.excl, hinv.free, ?_⟩
  intro i hi
  have := hinv.held i hi
  unfold HolderInv at this
  split at this
  · exact ⟨_, this.1⟩
  · exact ⟨_, this.1⟩
  · exact ⟨_, this.1⟩
  · exact ⟨_, this.1⟩
  · exact ⟨_, this.1⟩
  · exact ⟨[], by simpa [base] using this⟩

/-- **Complete or absent, in every interleaving.**  When every delivery has exited, the file is the
old content followed by the entries of exactly the deliveries that reported success (exit 0), each
complete, in lock order; a delivery that reported failure left nothing. -/
theorem C12_mbox_final (entry : Nat → Bytes) (box : Bytes) (tr : List (Nat × Mb.Ev)) (y : Mb.Sys)
    (h : MbRun entry box tr y) (hb : Benign tr) (hdone : ∀ j, ∃ c, (y.st j).pc = .done c ∨ (y.st j).pc = .start) :
    y.file = box ++ (y.order.map entry).flatten ∧ y.order.Nodup ∧ (∀ j, j ∈ y.order ↔ (y.st j).pc = .done 0) := by
  have hinv := run_inv entry box tr _ y (inv_init entry box) hb h
  have hfree : y.holder = none := by
    cases hh : y.holder with
    | none => rfl
    | some i =>
      exfalso
      have := holder_active entry box tr y h i hh
      obtain ⟨c, hc | hc⟩ := hdone i <;> simp [hc, Idle] at this
  refine ⟨hinv.free hfree, hinv.nodup, ?_⟩
  intro j
  rw [hinv.ord j]
  obtain ⟨c, hc | hc⟩ := hdone j
  · rw [hc]
    cases c with
    | zero => simp [Committed]
    | succ k => simp [Committed]
  · simp [hc, Committed]

/-- **Roll-back**: a single delivery that fails (read error, write error, failing fsync — at any
point of the copy) while holding the lock leaves the file exactly as it was and reports the
temporary failure 111. -/
theorem C12_mbox_rollback (entry : Nat → Bytes) (box : Bytes) (tr : List (Nat × Mb.Ev)) (y : Mb.Sys)
    (h : MbRun entry box tr y) (hb : Benign tr) (honly : ∀ x ∈ tr, x.1 = 0) (c : Nat)
    (hx : (y.st 0).pc = .done c) (hc : c ≠ 0) : y.file = box := by
  have hinv := run_inv entry box tr _ y (inv_init entry box) hb h
  have hord : y.order = [] := by
    cases ho : y.order with
    | nil => rfl
    | cons j js =>
      have hj := (hinv.ord j).1 (by simp [ho])
      have hst := only_zero entry box tr y h honly j
      by_cases hj0 : j = 0
      · subst hj0; rw [hx] at hj
        cases c with
        | zero => exact absurd rfl hc
        | succ k => simp [Committed] at hj
      · rw [hst hj0] at hj; simp [Committed] at hj
  have hfree : y.holder = none := by
    cases hh : y.holder with
    | none => rfl
    | some i =>
      exfalso
      have := holder_active entry box tr y h i hh
      by_cases hi0 : i = 0
      · subst hi0; simp [hx, Idle] at this
      · rw [only_zero entry box tr y h honly i hi0] at this; simp [Idle] at this
  have := hinv.free hfree
  simpa [hord, base] using this

/-- **Success appends exactly the entry** (single delivery). -/
theorem C12_mbox_append (entry : Nat → Bytes) (box : Bytes) (tr : List (Nat × Mb.Ev)) (y : Mb.Sys)
    (h : MbRun entry box tr y) (hb : Benign tr) (honly : ∀ x ∈ tr, x.1 = 0)
    (hx : (y.st 0).pc = .done 0) : y.file = box ++ entry 0 := by
  have hinv := run_inv entry box tr _ y (inv_init entry box) hb h
  have hmem : ∀ j, j ∈ y.order ↔ j = 0 := by
    intro j
    rw [hinv.ord j]
    by_cases hj0 : j = 0
    · subst hj0; simp [hx, Committed]
    · rw [only_zero entry box tr y h honly j hj0]; simp [Committed, hj0]
  have hord : y.order = [0] := by
    have hnd := hinv.nodup
    cases ho : y.order with
    | nil => have := (hmem 0).2 rfl; simp [ho] at this
    | cons a as =>
      have ha : a = 0 := (hmem a).1 (by simp [ho])
      subst ha
      cases has : as with
      | nil => rfl
      | cons b bs =>
        have hb0 : b = 0 := (hmem b).1 (by simp [ho, has])
        subst hb0
        rw [ho, has] at hnd; simp at hnd
  have hfree : y.holder = none := by
    cases hh : y.holder with
    | none => rfl
    | some i =>
      exfalso
      have := holder_active entry box tr y h i hh
      by_cases hi0 : i = 0
      · subst hi0; simp [hx, Idle] at this
      · rw [only_zero entry box tr y h honly i hi0] at this; simp [Idle] at this
  have := hinv.free hfree
  simpa [hord, base] using this

/-- **A failure is reported as temporary**: once `mailfile()` has been entered (open_append attempted),
qmail-local exits 0 or 111 — in every interleaving, whatever fails (no `Benign` hypothesis). -/
theorem C12_mbox_exit_codes (entry : Nat → Bytes) (box : Bytes) (tr : List (Nat × Mb.Ev)) (y : Mb.Sys)
    (h : MbRun entry box tr y) (i c : Nat) (hx : (y.st i).pc = .done c) (ho : (y.st i).opened = true) : c = 0 ∨ c = 111 := by
  have hp := pinv_run entry tr _ y (fun j => pinv_init (entry j)) h i
  exact hp.2.1 c hx ho

/-- **Exit 0 iff the entry was appended and synced** (no `Benign` hypothesis): `synced` is set by
exactly one event, an accepted successful `fsync`, which the program may issue only when everything
it wrote is the complete entry; a delivery that has exited reported 0 iff that happened. -/
theorem C12_mbox_exit_zero_iff (entry : Nat → Bytes) (box : Bytes) (tr : List (Nat × Mb.Ev)) (y : Mb.Sys)
    (h : MbRun entry box tr y) (i c : Nat) (hx : (y.st i).pc = .done c) :
    (c = 0 ↔ (y.st i).synced = true) ∧ ((y.st i).synced = true → (y.st i).written = entry i) := by
  have hp := pinv_run entry tr _ y (fun j => pinv_init (entry j)) h i
  obtain ⟨_, _, _, h4, h5⟩ := hp
  refine ⟨?_, h5⟩
  rw [h4, hx]
  cases c with
  | zero => simp [Committed]
  | succ k => simp [Committed]

/-- **Any failing write ⇒ temporary failure, nothing of the delivery stays** (every interleaving, no hypothesis on
lengths).  `hardError e`: a `read` or `write` that fails with anything but EINTR, or a failing `fsync`.  The acceptor takes
EVERY chunking of the entry into `write` events, hence every buffered writer — substdio's 1024-byte `outbuf` flushed when a
put finds it full — at every entry length, in particular the lengths `k*1024 (+1)` at which the failing `write` is the flush
forced by the final one-byte put: a trace in which the program carries on after such an error (further `write`, `fsync`,
`exit 0`) is not a trace of the model, so the real program doing that is a DISAGREE.  Once process `i` has seen a hard
error it can only exit with 111, never counts as synced, and (if no `flock`/`ftruncate` fails) is not among the committed
deliveries whose entries make up the file (`C12_mbox_serial`, `C12_mbox_final`; alone: `C12_mbox_rollback`, file = box). -/
theorem C12_mbox_error_fails (entry : Nat → Bytes) (box : Bytes) (tr1 tr2 : List (Nat × Mb.Ev)) (i : Nat) (e : Mb.Ev)
    (y : Mb.Sys) (he : hardError e = true) (h : MbRun entry box (tr1 ++ (i, e) :: tr2) y) :
    (∀ c, (y.st i).pc = .done c → c = 111) ∧ (y.st i).synced = false ∧
    (Benign (tr1 ++ (i, e) :: tr2) → i ∉ y.order) := by
  have hf := error_run entry tr1 tr2 i e _ y he h
  have hnc := failed_not_committed _ hf
  have hp := pinv_run entry _ _ y (fun j => pinv_init (entry j)) h i
  refine ⟨fun c hc => failed_done _ hf c hc, ?_, ?_⟩
  · cases hs : (y.st i).synced with
    | false => rfl
    | true => have := hp.2.2.2.1.1 hs; rw [hnc] at this; cases this
  · intro hb hmem
    have hinv := run_inv entry box _ _ y (inv_init entry box) hb h
    have := (hinv.ord i).1 hmem
    rw [hnc] at this; cases this

/-- the only event that sets `synced`: a successful fsync at the end of the copy with the complete entry written -/
theorem C12_mbox_synced_by_fsync (entry : Bytes) (s s' : Mb.St) (e : Mb.Ev) (h : Mb.accept entry s e = some s')
    (h0 : s.synced = false) (h1 : s'.synced = true) : e = .fsync true ∧ s.pc = .copy ∧ s.eof = true ∧ s.written = entry := by
  cases e with
  | fsync ok =>
    simp only [Mb.accept] at h; split at h
    · rename_i hp
      cases ok with
      | true => exact ⟨rfl, hp⟩
      | false => simp at h; subst h; unfold Mb.failFrom at h1; split at h1 <;> simp [h0] at h1
    · cases h
  | openAppend ok => simp only [Mb.accept] at h; split at h <;> cases h; simp [h0] at h1
  | alarm n =>
    simp only [Mb.accept] at h; split at h
    · cases h; simp [h0] at h1
    · split at h <;> cases h; simp [h0] at h1
  | flock ok => simp only [Mb.accept] at h; split at h <;> cases h; simp [h0] at h1
  | seekEnd n => simp only [Mb.accept] at h; split at h <;> cases h; simp [h0] at h1
  | seekCur n => simp only [Mb.accept] at h; split at h <;> cases h; simp [h0] at h1
  | read n => simp only [Mb.accept] at h; split at h <;> cases h; simp [h0] at h1
  | readErr intr =>
    simp only [Mb.accept] at h; split at h
    · cases intr <;> simp at h <;> subst h
      · unfold Mb.failFrom at h1; split at h1 <;> simp [h0] at h1
      · simp [h0] at h1
    · cases h
  | write bs => simp only [Mb.accept] at h; split at h <;> cases h; simp [h0] at h1
  | writeErr intr =>
    simp only [Mb.accept] at h; split at h
    · cases intr <;> simp at h <;> subst h
      · unfold Mb.failFrom at h1; split at h1 <;> simp [h0] at h1
      · simp [h0] at h1
    · cases h
  | ftrunc len ok => simp only [Mb.accept] at h; split at h <;> cases h; simp [h0] at h1
  | close =>
    simp only [Mb.accept] at h; split at h
    · cases h; simp [h0] at h1
    · split at h <;> cases h; simp [h0] at h1
  | sigAlarm => simp only [Mb.accept] at h; split at h <;> cases h; simp [h0] at h1
  | exit code =>
    simp only [Mb.accept] at h; split at h
    · split at h <;> cases h; simp [h0] at h1
    · split at h <;> cases h; simp [h0] at h1
    · split at h <;> cases h; simp [h0] at h1
    · cases h

/-- **The unlocked case, stated, not hidden**: `ftruncate` is issued only by a delivery that holds
the lock, and always to the length the file had when the lock was taken; a delivery whose `lock_ex`
failed never truncates (and then neither roll-back nor serialisation is claimed). -/
theorem C12_mbox_truncate_only_locked (entry : Bytes) (s s' : Mb.St) (len : Nat) (ok : Bool)
    (h : Mb.accept entry s (.ftrunc len ok) = some s') : s.pc = .rollback ∧ len = s.pos := by
  simp only [Mb.accept] at h
  split at h
  · rename_i hp; exact hp
  · cases h

theorem C12_mbox_rollback_needs_lock (s : Mb.St) (h : s.locked = false) : (Mb.failFrom s).pc = .closeErr := by
  simp [Mb.failFrom, h]

end mbox

/-! ## Session 4: crash relation by call index; many deliveries into one maildir; mbox end to end -/
section session4
open Nq.LocalDeliver.Md Nq.Lemmas.LD.Md

/-- **The crash relation at EVERY call index, in terms of the trace.**  Stop a delivery after any number `k` of its
events (process or machine crash; un-fsynced data arbitrary): the message is in new/ — complete, byte for byte — if a
successful `link` is among the first `k` events, and new/ has nothing of this delivery otherwise.  In particular between
`link` and `unlink(tmp)`, and between `unlink(tmp)` and `_exit`, the message is there. -/
theorem C12_maildir_crash_every_index (p : Md.Params) (evs : List Md.Ev) (s : Md.St) (h : MdRun p evs s) (k : Nat)
    (fs' : Md.FS) (hc : Md.CrashOf (Md.applyAll {} (evs.take k)) fs') :
    (Md.Ev.link true ∈ evs.take k → fs'.newName = true ∧ fs'.cur = p.content) ∧
    (Md.Ev.link true ∉ evs.take k → fs'.newName = false) := by
  obtain ⟨sk, hk⟩ := C12_maildir_prefix_closed p evs s k h
  have hn := applyAll_newName (evs.take k) {}
  constructor
  · intro hm
    have hv : fs'.newName = true := by rw [hc.2.1, hn]; simp [hm]
    exact ⟨hv, C12_maildir_atomic p (evs.take k) sk hk fs' hc hv⟩
  · intro hm
    rw [hc.2.1, hn]; simp [hm]

/-- **Exactly once**: a run contains at most one successful `link` (so with `C12_maildir_crash_every_index`: the
message is in new/ zero times before it and once after it, never twice). -/
theorem C12_maildir_link_once (p : Md.Params) (evs : List Md.Ev) (s : Md.St) (h : MdRun p evs s) :
    evs.count (Md.Ev.link true) ≤ 1 := link_once p evs.length evs rfl s h

/-- **Inside the child after `link`, before `unlink(tmp)`**: in every crash state at that point the one file has both
names, tmp/x (the leftover that a later clean-up removes) and new/x, and holds exactly the message. -/
theorem C12_maildir_between_link_and_unlink (p : Md.Params) (evs : List Md.Ev) (s : Md.St)
    (h : MdRun p (evs ++ [.link true]) s) (fs' : Md.FS) (hc : Md.CrashOf (Md.applyAll {} (evs ++ [.link true])) fs') :
    fs'.newName = true ∧ fs'.tmpName = true ∧ fs'.cur = p.content := by
  have hr := link_reach p evs s h
  have hv : fs'.newName = true := by rw [hc.2.1, applyAll_newName]; simp
  refine ⟨hv, ?_, C12_maildir_atomic p _ s h fs' hc hv⟩
  rw [hc.1]
  have := applyAll_snoc evs (.link true) {}
  rw [this]
  simp [Md.apply, hr.1]

end session4

section mdsys
open Nq.LocalDeliver.MdSys Nq.Lemmas.LD.MdSys

/-- a run of any number of maildir deliveries into one maildir, from a state in which none of them has started
(tmp/ and new/ may hold anything: stale files, earlier messages) -/
def MdSysRun (c : MdSys.Cfg) (y0 : MdSys.Sys) (tr : List MdSys.Ev) (y : MdSys.Sys) : Prop :=
  (∀ i, y0.st i = {}) ∧ y0.log = [] ∧ y0.new.Nodup ∧ MdSys.run c y0 tr = some y

/-- **Every delivery of the system is a run of the single-delivery acceptor**, whatever the others and the mail reader
do in between: so `C12_maildir_atomic / success / failure / crash_every_index / link_once …` hold for each of them. -/
theorem C12_mdsys_each_is_a_run (c : MdSys.Cfg) (y0 y : MdSys.Sys) (tr : List MdSys.Ev) (h : MdSysRun c y0 tr y) (i : Nat) :
    MdRun (MdSys.params c i) (MdSys.proj i tr) (y.st i) := by
  have := run_proj c i tr y0 y h.2.2.2
  rw [h.1 i] at this
  exact this

/-- **new/ never holds a name twice**, at any instant of any interleaving, with a mail reader moving messages away
(consequence of the `link` guard = link(2) fails on an existing name). -/
theorem C12_mdsys_new_once (c : MdSys.Cfg) (y0 y : MdSys.Sys) (tr : List MdSys.Ev) (h : MdSysRun c y0 tr y) : y.new.Nodup :=
  run_new_nodup c tr y0 y h.2.2.2 h.2.2.1

/-- **No two deliveries ever link the same name while messages stay in new/**: if no reader removes anything, new/ is
what was there before followed by the linked names in link order; they are pairwise different and different from every
old name — for equal pids and equal seconds too. -/
theorem C12_mdsys_link_exclusive (c : MdSys.Cfg) (y0 y : MdSys.Sys) (tr : List MdSys.Ev) (h : MdSysRun c y0 tr y)
    (hm : ∀ e ∈ tr, MdSys.isMua e = false) :
    y.new = y0.new ++ y.log.map (MdSys.logName c) ∧ (y.log.map (MdSys.logName c)).Nodup ∧
    (∀ x ∈ y.log, MdSys.logName c x ∉ y0.new) := by
  have h1 := run_new_log c tr y0 y h.2.2.2 hm y0.new (by simp [h.2.1])
  have h2 := C12_mdsys_new_once c y0 y tr h
  rw [h1] at h2
  have h3 := List.nodup_append.mp h2
  refine ⟨h1, h3.2.1, ?_⟩
  intro x hx hin
  exact h3.2.2 _ hin _ (List.mem_map.mpr ⟨x, hx, rfl⟩) rfl

/-- **Concurrent deliveries use different names** (assumption, a guard of the model: `fork` returns a process id that no
live child has): two deliveries whose children exist at the same instant have different pids, hence their names under
tmp/ and new/ differ whatever the clock showed when each of them called `now()`. -/
theorem C12_mdsys_concurrent_names (c : MdSys.Cfg) (y0 y : MdSys.Sys) (tr : List MdSys.Ev) (h : MdSysRun c y0 tr y)
    (i j : Nat) (hij : i ≠ j) (hi : Md.inChild (y.st i).pc = true) (hj : Md.inChild (y.st j).pc = true) (t t' : Nat) :
    c.pid i ≠ c.pid j ∧ maildirName t (c.pid i) c.host ≠ maildirName t' (c.pid j) c.host := by
  have hl := run_live c tr y0 y h.2.2.2 (live_init c y0 (fun k => by rw [h.1 k]; rfl))
  have hp := hl.2 i j hij hi hj
  exact ⟨hp, fun he => hp (C12_maildir_names _ _ _ _ _ _ he).2⟩

/-- **Restarts: the same name twice needs the same pid in the same second** (and a reader that took the first message
away in between, by `C12_mdsys_link_exclusive`): two successful links of one name were made by children with the same
process id that read the same second from the clock, and these two children never existed at the same time. -/
theorem C12_mdsys_restart_names (c : MdSys.Cfg) (y0 y : MdSys.Sys) (tr : List MdSys.Ev) (h : MdSysRun c y0 tr y)
    (x x' : Nat × Nat) (_hx : x ∈ y.log) (_hx' : x' ∈ y.log) (he : MdSys.logName c x = MdSys.logName c x') :
    x.2 = x'.2 ∧ c.pid x.1 = c.pid x'.1 ∧
    (x.1 ≠ x'.1 → ¬ (Md.inChild (y.st x.1).pc = true ∧ Md.inChild (y.st x'.1).pc = true)) := by
  have hn := C12_maildir_names _ _ _ _ _ _ he
  refine ⟨hn.1, hn.2, ?_⟩
  intro hne ⟨h1, h2⟩
  exact (C12_mdsys_concurrent_names c y0 y tr h x.1 x'.1 hne h1 h2 0 0).1 hn.2

end mdsys

section mboxread
open Nq.LocalDeliver.Mb Nq.Lemmas.LD.Mb

/-- **Mbox, end to end** (`C12_mbox_final` + `C12_mbox_roundtrip_many`): any number of concurrent deliveries, every
interleaving in which no `flock`/`ftruncate` fails, old file ending at a line boundary; when all have exited, the
documented reader returns the old messages unchanged followed by exactly the messages of the deliveries that exited 0 —
each split and unquoted back to From_ line, Return-Path line + Delivered-To line + message — in lock order; the
deliveries that failed contribute nothing. -/
theorem C12_mbox_final_read (d : Nat → Delivery) (box : Bytes) (tr : List (Nat × Mb.Ev)) (y : Mb.Sys)
    (h : MbRun (fun i => entryOf (d i)) box tr y) (hb : Benign tr)
    (hdone : ∀ j, ∃ c, (y.st j).pc = .done c ∨ (y.st j).pc = .start) (hbox : AtBoundary box) :
    mboxRead y.file = mboxRead box ++ y.order.map (fun i => readOf (d i)) ∧ AtBoundary y.file ∧
    y.order.Nodup ∧ (∀ j, j ∈ y.order ↔ (y.st j).pc = .done 0) := by
  obtain ⟨hf, hnd, hmem⟩ := C12_mbox_final _ box tr y h hb hdone
  have hr := C12_mbox_roundtrip_many (y.order.map d) box hbox
  simp only [List.map_map] at hr
  have he : (y.order.map (entryOf ∘ d)) = y.order.map (fun i => entryOf (d i)) := rfl
  rw [he, ← hf] at hr
  exact ⟨hr.2, hr.1, hnd, hmem⟩

end mboxread

/-! ## Non-vacuity -/

/-- a complete maildir delivery: name taken at the first try, two writes, one EINTR -/
example : (Md.acceptAll { content := [82, 10, 68, 10, 104, 105] } {}
    [.fork, .alarm 86400, .openExcl false true, .sleep 2, .alarm 86400, .openExcl true false, .read 2, .read 0,
     .write [82, 10, 68], .writeErr true, .write [10, 104, 105], .fsync true, .close true, .link true, .unlinkTmp true,
     .childExit 0, .parentExit 0]).map (·.pc) = some (.done 0) := by decide

/-- a failing fsync: tmp file removed, child exits 1, parent reports 111 -/
example : (Md.acceptAll { content := [82, 10] } {}
    [.fork, .alarm 86400, .openExcl true false, .read 0, .write [82, 10], .fsync false, .unlinkTmp true,
     .childExit 1, .parentExit 111]).map (·.pc) = some (.done 111) := by decide

/-- linking before the fsync is not a run of this program -/
example : Md.acceptAll { content := [82, 10] } {}
    [.fork, .alarm 86400, .openExcl true false, .read 0, .write [82, 10], .link true] = none := by decide

/-- two interleaved mbox deliveries: the second blocks until the first has closed -/
example : (Mb.sysRun (fun i => if i = 0 then [70, 10, 10] else [71, 10, 10]) { file := [] }
    [(0, .openAppend true), (1, .openAppend true), (0, .alarm 30), (1, .alarm 30), (0, .flock true), (0, .alarm 0), (0, .seekEnd 0), (0, .seekCur 0),
     (0, .read 0), (0, .write [70, 10]), (0, .write [10]), (0, .fsync true), (0, .close), (1, .flock true), (0, .exit 0),
     (1, .alarm 0), (1, .seekEnd 3), (1, .seekCur 3), (1, .read 0), (1, .write [71, 10, 10]), (1, .fsync true), (1, .close), (1, .exit 0)]).map (·.file)
    = some [70, 10, 10, 71, 10, 10] := by decide

/-- taking the lock while another delivery holds it is not possible -/
example : (Mb.sysRun (fun _ => [70, 10, 10]) { file := [] }
    [(0, .openAppend true), (1, .openAppend true), (0, .alarm 30), (1, .alarm 30), (0, .flock true), (1, .flock true)]).isNone = true := by
  decide

/-- a write error under the lock: truncation to the old length, exit 111 -/
example : (Mb.sysRun (fun _ => [70, 10, 10]) { file := [1, 10] }
    [(0, .openAppend true), (0, .alarm 30), (0, .flock true), (0, .alarm 0), (0, .seekEnd 2), (0, .seekCur 2), (0, .read 0), (0, .write [70]), (0, .writeErr false),
     (0, .ftrunc 2 true), (0, .close), (0, .exit 111)]).map (·.file) = some [1, 10] := by decide

/-- a roll-back position recorded before the lock is held (seek before flock) is not a run of this program -/
example : (Mb.sysRun (fun _ => [70, 10, 10]) { file := [1, 10] }
    [(0, .openAppend true), (0, .seekEnd 2)]).isNone = true := by decide

/-- `seek_end` must return the length the file has at that moment -/
example : (Mb.sysRun (fun _ => [70, 10, 10]) { file := [1, 10] }
    [(0, .openAppend true), (0, .alarm 30), (0, .flock true), (0, .alarm 0), (0, .seekEnd 0)]).isNone = true := by decide

/-- the reader on a concrete entry: "From x\n" in the body is quoted and unquoted again -/
example : mboxRead (mboxEntry [70, 114, 111, 109, 32, 97, 32, 100, 10] [82, 58, 10] [68, 58, 10] [70, 114, 111, 109, 32, 120, 10, 122])
    = [([70, 114, 111, 109, 32, 97, 32, 100, 10], [82, 58, 10, 68, 58, 10, 70, 114, 111, 109, 32, 120, 10, 122, 10])] := by decide

/-- the excluded input of `C12_mbox_roundtrip` (old file ends inside a line, e.g. after a machine
crash in the middle of an earlier mbox delivery — the weakness maildir(5) describes): the new From_
line is glued to the partial line, so the reader attributes the new entry to the old message -/
example : mboxRead ([70, 114, 111, 109, 32, 97, 10, 120] ++ mboxEntry [70, 114, 111, 109, 32, 98, 10] [82, 10] [68, 10] [109, 10])
    = [([70, 114, 111, 109, 32, 97, 10], [120, 70, 114, 111, 109, 32, 98, 10, 82, 10, 68, 10, 109, 10])] := by decide

example : ¬ AtBoundary [70, 114, 111, 109, 32, 97, 10, 120] := by decide

/-- `C12_mbox_error_fails` is not vacuous, at the very shape of the buffer-boundary case: the entry minus its last byte has
been written, the flush forced by the final one-byte put fails (ENOSPC) — roll-back to `pos`, exit 111, file as before -/
example : ((Mb.sysRun (fun _ => [70, 10, 82, 10, 10]) { file := [111, 10] }
    [(0, .openAppend true), (0, .alarm 30), (0, .flock true), (0, .alarm 0), (0, .seekEnd 2), (0, .seekCur 2), (0, .read 3), (0, .read 0),
     (0, .write [70, 10, 82, 10]), (0, .writeErr false), (0, .ftrunc 2 true), (0, .close), (0, .exit 111)]).map
      (fun y => ((y.st 0).pc, y.file))) = some (.done 111, [111, 10]) := by decide

/-- … and carrying on after the failed write is not a trace of the model -/
example : (Mb.sysRun (fun _ => [70, 10, 82, 10, 10]) { file := [111, 10] }
    [(0, .openAppend true), (0, .alarm 30), (0, .flock true), (0, .alarm 0), (0, .seekEnd 2), (0, .seekCur 2), (0, .read 3), (0, .read 0),
     (0, .write [70, 10, 82, 10]), (0, .writeErr false), (0, .fsync true)]).isNone = true := by decide

/-- names: 120.7.mx -/
example : maildirName 120 7 [109, 120, 0, 33] = [49, 50, 48, 46, 55, 46, 109, 120] := by
  simp [maildirName, fmtDec, dig, digits, DOT]

/-! ### Session 4 -/

open Nq.Lemmas.LD.MdSys in
/-- evaluation of a concrete system run (`fmtDec` is defined by well-founded recursion, which `decide` does not unfold) -/
macro "mdsys_eval" : tactic => `(tactic|
  simp [MdSys.run, MdSys.step, MdSys.nameOf, MdSys.params, MdSys.upd, Md.accept, maildirName, fmtDec_5, fmtDec_7, fmtDec_8, DOT, isPrefix])

/-- `C12_maildir_between_link_and_unlink` / `crash_every_index`: the run stopped right after the `link` -/
example : (Md.acceptAll { content := [82, 10] } {}
    [.fork, .alarm 86400, .openExcl true false, .read 0, .write [82, 10], .fsync true, .close true, .link true]).map (·.pc)
    = some .unlinkOk := by decide

example : Md.applyAll {} [.fork, .alarm 86400, .openExcl true false, .read 0, .write [82, 10], .fsync true, .close true, .link true]
    = { tmpName := true, newName := true, cur := [82, 10], synced := true } := by decide

/-- a second `link` is not a run (`C12_maildir_link_once`) -/
example : Md.acceptAll { content := [82, 10] } {}
    [.fork, .alarm 86400, .openExcl true false, .read 0, .write [82, 10], .fsync true, .close true, .link true, .link true] = none := by decide

/-- two deliveries, same second, different pids, interleaved: both link, two names in new/ -/
example : ((MdSys.run { host := [104], pid := fun i => 7 + i, content := fun _ => [82, 10] } { clock := 5 }
    [.proc 0 .fork, .proc 1 .fork, .proc 0 (.alarm 86400), .proc 1 (.alarm 86400), .proc 0 (.openExcl true false),
     .proc 1 (.openExcl true false), .proc 0 (.read 0), .proc 0 (.write [82, 10]), .proc 1 (.read 0), .proc 1 (.write [82, 10]),
     .proc 0 (.fsync true), .proc 1 (.fsync true), .proc 0 (.close true), .proc 1 (.close true), .proc 1 (.link true),
     .proc 0 (.link true)]).map (fun y => (y.new, y.log))) = some ([[53, 46, 56, 46, 104], [53, 46, 55, 46, 104]], [(1, 5), (0, 5)]) := by
  mdsys_eval

/-- a restart with the same pid in the same second: the stale tmp/ name makes `open_excl` fail (EEXIST), the delivery
sleeps 2 s and uses a later name -/
example : ((MdSys.run { host := [104], pid := fun _ => 7, content := fun _ => [82, 10] } { clock := 5, tmp := [[53, 46, 55, 46, 104]] }
    [.proc 0 .fork, .proc 0 (.alarm 86400), .proc 0 (.openExcl false true), .proc 0 (.sleep 2), .tick 2, .proc 0 (.alarm 86400),
     .proc 0 (.openExcl true false)]).map (fun y => y.tmp)) = some [[55, 46, 55, 46, 104], [53, 46, 55, 46, 104]] := by mdsys_eval

/-- … taking the existing tmp/ name, or linking onto an existing new/ name, is not a run of the system -/
example : (MdSys.run { host := [104], pid := fun _ => 7, content := fun _ => [82, 10] } { clock := 5, tmp := [[53, 46, 55, 46, 104]] }
    [.proc 0 .fork, .proc 0 (.alarm 86400), .proc 0 (.openExcl true false)]).isNone = true := by mdsys_eval

example : (MdSys.run { host := [104], pid := fun _ => 7, content := fun _ => [82, 10] } { clock := 5, new := [[53, 46, 55, 46, 104]] }
    [.proc 0 .fork, .proc 0 (.alarm 86400), .proc 0 (.openExcl true false), .proc 0 (.read 0), .proc 0 (.write [82, 10]),
     .proc 0 (.fsync true), .proc 0 (.close true), .proc 0 (.link true)]).isNone = true := by mdsys_eval

/-- the excluded case of `C12_mdsys_link_exclusive`, allowed by `C12_mdsys_restart_names`: a reader moved the first message
away, the pid is reused within the same second — the same name is linked a second time (no message is lost) -/
example : ((MdSys.run { host := [104], pid := fun _ => 7, content := fun _ => [82, 10] } { clock := 5 }
    [.proc 0 .fork, .proc 0 (.alarm 86400), .proc 0 (.openExcl true false), .proc 0 (.read 0), .proc 0 (.write [82, 10]),
     .proc 0 (.fsync true), .proc 0 (.close true), .proc 0 (.link true), .proc 0 (.unlinkTmp true), .proc 0 (.childExit 0),
     .mua [53, 46, 55, 46, 104],
     .proc 1 .fork, .proc 1 (.alarm 86400), .proc 1 (.openExcl true false), .proc 1 (.read 0), .proc 1 (.write [82, 10]),
     .proc 1 (.fsync true), .proc 1 (.close true), .proc 1 (.link true)]).map (fun y => (y.new, y.log)))
    = some ([[53, 46, 55, 46, 104]], [(0, 5), (1, 5)]) := by mdsys_eval

/-- two live children with one pid: not a run (the operating-system assumption of `C12_mdsys_concurrent_names`) -/
example : (MdSys.run { host := [104], pid := fun _ => 7, content := fun _ => [82, 10] } { clock := 5 }
    [.proc 0 .fork, .proc 1 .fork]).isNone = true := by mdsys_eval

end Nq.Props.C12
