/-
  C03 — No accepted recipient is ever dropped: delivered or bounced.

  Model: `Nq.Daemon` — the monitor of qmail-send + qmail-clean's observable protocol (every
  filesystem-mutating call, every delivery command, every byte of every spawner report, bounce
  injections, crashes, restarts).  Tie: every trace of the real programs under qsim
  (`harness/qsend.c`: scripted spawners, K/Z/D/mangled/out-of-range/oversized reports in any order,
  TERM/ALRM/HUP, failing calls, process and machine crashes with restart) is abstracted to `Ev` and
  accepted by `Daemon.accept` (`drv_c03`).

  The theorems hold for **every event sequence the monitor accepts** — any number of messages and
  recipients, any report bytes, any interleaving of arrivals, any number of crashes and restarts.
-/
import Nq.Lemmas.DaemonMain

namespace Nq.Props.C03
open Nq Nq.Daemon Nq.Lemmas.DI

/-- reachable from the empty queue -/
def Reach (cfg : Cfg) (s : St) : Prop := ∃ evs, acceptAll cfg {} evs = some s

theorem reach_inv (cfg : Cfg) (s : St) (h : Reach cfg s) : Inv cfg s := by
  obtain ⟨evs, h⟩ := h
  have key : ∀ (evs : List Ev) (s0 s1 : St), Inv cfg s0 → acceptAll cfg s0 evs = some s1 → Inv cfg s1 := by
    intro evs
    induction evs with
    | nil => intro s0 s1 h0 ha; simp [acceptAll] at ha; subst ha; exact h0
    | cons e es ih =>
      intro s0 s1 h0 ha
      simp only [acceptAll] at ha
      cases h1 : accept cfg s0 e with
      | none => simp [h1] at ha
      | some s2 => simp [h1] at ha; exact ih s2 s1 (step_inv cfg s0 s2 e h0 h1) ha
  exact key evs {} s (inv_init cfg) h

/-- what has become of record `i` of channel `c` of message `m` -/
def Fate (ms : MsgSt) (c : Ch) (i : Nat) : Prop :=
  -- still queued: an unmarked record of an existing channel file, the message still has its info file
  (∃ rs, ms.chan c = some rs ∧ i < rs.length ∧ (rs.getD i ⟨false, []⟩).done = false ∧ addrs rs = MsgSt.placed ms c ∧ ms.info.isSome = true)
  -- reported delivered (K) by the delivery agent
  ∨ (c, i) ∈ ms.delivered
  -- named in bounce/<m>, which still exists together with info/<m>: the bounce is still to be sent
  ∨ ((c, i) ∈ ms.inFile ∧ ms.bounce.isSome = true ∧ ms.info.isSome = true)
  -- named in a bounce that was successfully queued to the envelope sender
  ∨ (c, i) ∈ ms.bounced
  -- the two documented exceptions: a failing double bounce is discarded; the bounce record is not crash-proof
  ∨ ms.discarded = true ∨ ms.lost = true

theorem fate_of_fin (cfg : Cfg) (ms : MsgSt) (h : MInv cfg ms) (ht : ms.todo = none) (c : Ch) (i : Nat) (hf : (c, i) ∈ ms.fin) :
    Fate ms c i := by
  rcases h.k3 _ hf with hd | hn
  · exact Or.inr (Or.inl hd)
  · rcases h.k4 _ hn with h1 | h1 | h1 | h1
    · have hb : ms.bounce ≠ none := fun hb => by have := h.k5 hb; rw [this] at h1; simp at h1
      have hbs : ms.bounce.isSome = true := by
        cases hbb : ms.bounce with
        | none => exact absurd hbb hb
        | some _ => rfl
      exact Or.inr (Or.inr (Or.inl ⟨h1, hbs, h.k6 ht (Or.inr (Or.inr hbs))⟩))
    · exact Or.inr (Or.inr (Or.inr (Or.inl h1)))
    · exact Or.inr (Or.inr (Or.inr (Or.inr (Or.inl h1))))
    · exact Or.inr (Or.inr (Or.inr (Or.inr (Or.inr h1))))

/-- **Every accepted recipient is accounted for, in every reachable state** (any history of
reports, signals, failing calls, crashes and restarts): while `todo/<m>` exists it holds exactly the
accepted envelope; afterwards the accepted recipients are exactly the records placed in the channel
files (routed by `rewrite()`, in order), and every one of them is still queued, or was reported
delivered, or is named in a bounce that is pending or was queued — or falls under one of the two
documented exemptions. -/
theorem C03_accounted (cfg : Cfg) (s : St) (hr : Reach cfg s) (m : Nat) (sender : Bytes) (rcpts : List Bytes)
    (ha : (s.msg m).accepted = some (sender, rcpts)) :
    (s.msg m).todo = some (sender, rcpts) ∨
    ((s.msg m).todo = none ∧ routedOk cfg rcpts (s.msg m).placedLoc (s.msg m).placedRem = true ∧
      ∀ c i, i < (MsgSt.placed (s.msg m) c).length → Fate (s.msg m) c i) := by
  have hm := (reach_inv cfg s hr).msgs m
  cases ht : (s.msg m).todo with
  | some env =>
    left
    have := hm.a1 env ht
    rw [ha] at this; cases this; rfl
  | none =>
    right
    refine ⟨rfl, hm.a2 ht sender rcpts ha, ?_⟩
    intro c i hi
    cases hc : (s.msg m).chan c with
    | none => exact fate_of_fin cfg _ hm ht c i (hm.k7 ht c hc i hi)
    | some rs =>
      have hk1 := hm.k1 ht c rs hc
      have hlen : rs.length = (MsgSt.placed (s.msg m) c).length := by rw [← hk1]; simp [addrs]
      have hi' : i < rs.length := by omega
      cases hd : (rs.getD i ⟨false, []⟩).done with
      | true => exact fate_of_fin cfg _ hm ht c i (hm.k2 ht c rs i hc hd hi')
      | false =>
        left
        refine ⟨rs, hc, hi', hd, hk1, hm.k6 ht ?_⟩
        cases c
        · left; simpa [MsgSt.chan] using congrArg Option.isSome hc
        · right; left; simpa [MsgSt.chan] using congrArg Option.isSome hc

/-- **A message leaves the queue only when everyone is accounted for**: once `info/<m>` is gone
(after which qmail-clean removes the message file) every recipient was reported delivered or named in
a successfully queued bounce (or the documented exemptions apply). -/
theorem C03_finished (cfg : Cfg) (s : St) (hr : Reach cfg s) (m : Nat) (sender : Bytes) (rcpts : List Bytes)
    (ha : (s.msg m).accepted = some (sender, rcpts)) (ht : (s.msg m).todo = none) (hi : (s.msg m).info = none) :
    ∀ c i, i < (MsgSt.placed (s.msg m) c).length →
      (c, i) ∈ (s.msg m).delivered ∨ (c, i) ∈ (s.msg m).bounced ∨ (s.msg m).discarded = true ∨ (s.msg m).lost = true := by
  intro c i hlt
  rcases C03_accounted cfg s hr m sender rcpts ha with h | ⟨_, _, h⟩
  · rw [ht] at h; cases h
  · rcases h c i hlt with ⟨_, _, _, _, _, h1⟩ | h1 | ⟨_, _, h1⟩ | h1 | h1 | h1
    · rw [hi] at h1; simp at h1
    · exact Or.inl h1
    · rw [hi] at h1; simp at h1
    · exact Or.inr (Or.inl h1)
    · exact Or.inr (Or.inr (Or.inl h1))
    · exact Or.inr (Or.inr (Or.inr h1))

/-- **A completion mark is written only for a finished recipient**: whenever qmail-send writes the
`D` byte of a record, that delivery was reported `K`, or reported `D` (or `Z` past the queue lifetime)
*and its bounce paragraph has been appended*. -/
theorem C03_flip (cfg : Cfg) (s s' : St) (hr : Reach cfg s) (m : Nat) (c : Ch) (pos : Nat)
    (h : accept cfg s (.markD m c pos) = some s') :
    ∃ rs idx, (s.msg m).chan c = some rs ∧ recIndex rs pos = some idx ∧
      ((c, idx) ∈ (s.msg m).delivered ∨ (c, idx) ∈ (s.msg m).noted) := by
  have hinv := reach_inv cfg s hr
  simp only [accept] at h
  split at h
  · cases h
  · split at h
    · cases h
    · rename_i rs hch
      split at h
      · cases h
      · rename_i idx hidx
        split at h
        · rename_i hmm
          exact ⟨rs, idx, hch, hidx, (hinv.msgs m).k3 _ (hinv.may m c idx (by simpa using hmm))⟩
        · cases h

/-- **Only a `K` finishes a recipient at report time**: a report with any other letter — `Z`,
mangled, or for an out-of-range or unused delivery number — changes no message state and grants no
permission to mark (a `D` merely schedules the bounce paragraph that must precede the mark). -/
theorem C03_report_other (cfg : Cfg) (s : St) (c : Ch) (rep : Bytes) (h : rep.getD 1 0 ≠ 75) :
    (handleReport cfg s c rep).tab = s.tab ∧ (handleReport cfg s c rep).mayMark = s.mayMark := by
  simp only [handleReport]
  split
  · exact ⟨rfl, rfl⟩
  · split
    · exact ⟨rfl, rfl⟩
    · repeat' split
      all_goals first
        | exact ⟨rfl, rfl⟩
        | (rename_i h'; exact absurd h' h)

/-- **A channel file is unlinked only when everything in it is finished** (outside preprocessing):
each of its records was reported delivered or has its bounce paragraph. -/
theorem C03_unlink (cfg : Cfg) (s s' : St) (hr : Reach cfg s) (m : Nat) (c : Ch)
    (h : accept cfg s (.unlinkChan m c) = some s') (ht : (s.msg m).todo = none) :
    ∃ rs, (s.msg m).chan c = some rs ∧ ∀ i, i < rs.length →
      ((c, i) ∈ (s.msg m).delivered ∨ (c, i) ∈ (s.msg m).noted) := by
  have hinv := reach_inv cfg s hr
  simp only [accept] at h
  split at h
  · cases h
  · split at h
    · cases h
    · rename_i rs hch
      split at h
      · rename_i hts; rw [ht] at hts; simp at hts
      · split at h
        · rename_i hg
          refine ⟨rs, hch, fun i hi => ?_⟩
          have := (List.all_eq_true.1 hg.2) i (List.mem_range.2 hi)
          simp only [Bool.or_eq_true] at this
          rcases this with hd | hf
          · exact (hinv.msgs m).k3 _ ((hinv.msgs m).k2 ht c rs i hch hd hi)
          · exact (hinv.msgs m).k3 _ (by simpa using hf)
        · cases h

/-- **`info/<m>` is removed last** (outside preprocessing): only when both channel files and the
bounce record are gone. -/
theorem C03_info_last (cfg : Cfg) (s s' : St) (m : Nat) (h : accept cfg s (.unlinkInfo m) = some s')
    (ht : (s.msg m).todo = none) :
    (s.msg m).loc = none ∧ (s.msg m).rem = none ∧ (s.msg m).bounce = none := by
  simp only [accept] at h
  split at h
  · cases h
  · split at h
    · rename_i hts; rw [ht] at hts; simp at hts
    · split at h
      · rename_i hg
        exact ⟨by simpa using hg.1, by simpa using hg.2.1, by simpa using hg.2.2⟩
      · cases h

/-- **The bounce record is removed only after its bounce was queued** (or, for a message whose
sender is `#@[]`, discarded — the documented end of the chain). -/
theorem C03_bounce_removed (cfg : Cfg) (s s' : St) (m : Nat) (h : accept cfg s (.unlinkBounce m) = some s') :
    (s.msg m).lastInject = true ∨ ∃ info, (s.msg m).info = some info ∧ (info.drop 1).dropLast = [35, 64, 91, 93] := by
  simp only [accept] at h
  split at h
  · cases h
  · split at h
    · rename_i info _ hinfo _
      split at h
      · split at h
        · rename_i hs; exact Or.inr ⟨info, hinfo, hs⟩
        · split at h
          · rename_i hl; exact Or.inl hl
          · cases h
      · cases h
    · cases h

/-! ### Non-vacuity: a concrete accepted history (one message, one local recipient `a`, reported
`D`, bounce paragraph appended, record marked, file unlinked, bounce queued, message removed) -/

def cfg0 : Cfg := { conc := fun _ => 2, lifetime := 1000, route := fun a => (.loc, a), doublebounceto := [112] }

example : (acceptAll cfg0 {}
    [.newmsg 7 [115] [[97]], .creatInfo 7, .writeInfo 7 [70, 115, 0], .creatChan 7 .loc, .writeChan 7 .loc [84, 97, 0],
     .fsyncInfo 7, .fsyncChan 7 .loc, .cleanReq [116, 111, 100, 111, 47, 55, 0], .cUnlinkIntd 7, .cUnlinkTodo 7, .cleanResp 43,
     .cmd .loc 0 7 0 [97], .rbytes .loc [0, 68, 120, 10, 0], .appendBounce 7 [60, 97, 62, 58, 10, 120, 10, 10], .markD 7 .loc 0,
     .unlinkChan 7 .loc, .bounceInject 7 true [70, 0, 84, 115, 0] [60, 97, 62, 58, 10, 120, 10, 10], .unlinkBounce 7,
     .unlinkInfo 7, .cleanReq [102, 111, 111, 112, 47, 55, 0], .cUnlinkIntd 7, .cUnlinkMess 7, .cleanResp 43]).isSome = true := by
  decide

/-- marking without the bounce paragraph is not accepted -/
example : acceptAll cfg0 {}
    [.newmsg 7 [115] [[97]], .creatInfo 7, .writeInfo 7 [70, 115, 0], .creatChan 7 .loc, .writeChan 7 .loc [84, 97, 0],
     .fsyncInfo 7, .fsyncChan 7 .loc, .cleanReq [116, 111, 100, 111, 47, 55, 0], .cUnlinkIntd 7, .cUnlinkTodo 7, .cleanResp 43,
     .cmd .loc 0 7 0 [97], .rbytes .loc [0, 68, 120, 10, 0], .markD 7 .loc 0] = none := by
  decide

end Nq.Props.C03
