-- C03 property theorems (in progress)
import Nq.Daemon
