/-
  C03 — No accepted recipient is ever dropped: delivered or bounced.

  Model: `Nq.Daemon` — the monitor of qmail-send + qmail-clean's observable protocol (every
  filesystem-mutating call, every delivery command, every byte of every spawner report, bounce
  injections, crashes, restarts).  Tie: every trace of the real programs under qsim
  (`harness/qsend.c`: scripted spawners, K/Z/D/mangled/out-of-range/oversized reports in any order,
  TERM/ALRM/HUP, failing calls, process and machine crashes with restart) is abstracted to `Ev` and
  accepted by `Daemon.accept` (`drv_c03`).

  The theorems hold for **every event sequence the monitor accepts** — any number of messages and
  recipients, any report bytes, any interleaving of arrivals, any number of crashes and restarts.
-/
import Nq.Lemmas.DaemonMain

namespace Nq.Props.C03
open Nq Nq.Daemon Nq.Lemmas.DI Nq.Lemmas.DS

/-- reachable from the empty queue -/
def Reach (cfg : Cfg) (s : St) : Prop := ∃ evs, acceptAll cfg {} evs = some s

theorem reach_inv (cfg : Cfg) (s : St) (h : Reach cfg s) : Inv cfg s := by
  obtain ⟨evs, h⟩ := h
  have key : ∀ (evs : List Ev) (s0 s1 : St), Inv cfg s0 → acceptAll cfg s0 evs = some s1 → Inv cfg s1 := by
    intro evs
    induction evs with
    | nil => intro s0 s1 h0 ha; simp [acceptAll] at ha; subst ha; exact h0
    | cons e es ih =>
      intro s0 s1 h0 ha
      simp only [acceptAll] at ha
      cases h1 : accept cfg s0 e with
      | none => simp [h1] at ha
      | some s2 => simp [h1] at ha; exact ih s2 s1 (step_inv cfg s0 s2 e h0 h1) ha
  exact key evs {} s (inv_init cfg) h

/-- what has become of record `i` of channel `c` of message `m`.  The two documented exemptions are *per record*: they apply
only to a recipient whose bounce paragraph was appended (`noted`) and was in `bounce/<m>` when that file was discarded
(`droppedRecs`, only for a message from `#@[]`: `C03_dropped_only_doublebounce`) or damaged by a crash (`lostRecs`; only by a
`crashBounce` accepted in the crash window right after a crash: `C03_lost_step`, `C03_lost_after_crash`). -/
def Fate (ms : MsgSt) (c : Ch) (i : Nat) : Prop :=
  -- still queued: an unmarked record of an existing channel file; the message still has its info file and its message file
  (∃ rs, ms.chan c = some rs ∧ i < rs.length ∧ (rs.getD i ⟨false, []⟩).done = false ∧ addrs rs = MsgSt.placed ms c ∧
     ms.info.isSome = true ∧ ms.mess = true)
  -- reported delivered (K) by the delivery agent
  ∨ (c, i) ∈ ms.delivered
  -- its paragraph is in bounce/<m>, which still exists together with info/<m> and mess/<m>: the bounce is still to be sent
  ∨ ((c, i) ∈ ms.noted ∧ (c, i) ∈ ms.inFile ∧ (c, i) ∉ ms.lostRecs ∧ ms.bounce.isSome = true ∧ ms.info.isSome = true ∧ ms.mess = true)
  -- its paragraph was in a bounce file whose injection succeeded (to the envelope sender: `C03_bounce_to_sender`)
  ∨ ((c, i) ∈ ms.noted ∧ (c, i) ∈ ms.bounced ∧ (c, i) ∉ ms.lostRecs)
  -- exemption 1: its paragraph was in the bounce file of a `#@[]` message (a failing double bounce) when that was discarded
  ∨ ((c, i) ∈ ms.noted ∧ (c, i) ∈ ms.droppedRecs)
  -- exemption 2: its paragraph was in bounce/<m> (never fsynced) when a crash damaged that file
  ∨ ((c, i) ∈ ms.noted ∧ (c, i) ∈ ms.lostRecs)

theorem fate_of_fin (cfg : Cfg) (ms : MsgSt) (h : MInv cfg ms) (ht : ms.todo = none) (c : Ch) (i : Nat) (hf : (c, i) ∈ ms.fin) :
    Fate ms c i := by
  rcases h.k3 _ hf with hd | hn
  · exact Or.inr (Or.inl hd)
  · by_cases hl : (c, i) ∈ ms.lostRecs
    · exact Or.inr (Or.inr (Or.inr (Or.inr (Or.inr ⟨hn, hl⟩))))
    · rcases h.k4 _ hn with h1 | h1 | h1 | h1
      · have hb : ms.bounce ≠ none := fun hb => by have := h.k5 hb; rw [this] at h1; simp at h1
        have hbs : ms.bounce.isSome = true := by
          cases hbb : ms.bounce with
          | none => exact absurd hbb hb
          | some _ => rfl
        have hi := h.k6 ht (Or.inr (Or.inr hbs))
        exact Or.inr (Or.inr (Or.inl ⟨hn, h1, hl, hbs, hi, h.m1 (Or.inr hi)⟩))
      · exact Or.inr (Or.inr (Or.inr (Or.inl ⟨hn, h1, hl⟩)))
      · exact Or.inr (Or.inr (Or.inr (Or.inr (Or.inl ⟨hn, h1⟩))))
      · exact absurd h1 hl

/-- **Every accepted recipient is accounted for, in every reachable state** (any history of
reports, signals, failing calls, crashes and restarts): while `todo/<m>` exists it holds exactly the
accepted envelope; afterwards the accepted recipients are exactly the records placed in the channel
files (routed by `rewrite()`, in order), and every one of them is still queued, or was reported
delivered, or is named in a bounce that is pending or was queued — or *its own* bounce paragraph falls
under one of the two documented exemptions.  (Inductive consequence of the invariant `MInv`.)

This replaces the earlier statement, whose exemptions `discarded = true ∨ lost = true` were message-wide
flags: once set they accounted for every record of the message, attempted or not. -/
theorem C03_accounted (cfg : Cfg) (s : St) (hr : Reach cfg s) (m : Nat) (sender : Bytes) (rcpts : List Bytes)
    (ha : (s.msg m).accepted = some (sender, rcpts)) :
    ((s.msg m).todo = some (sender, rcpts) ∧ (s.msg m).mess = true) ∨
    ((s.msg m).todo = none ∧ routedOk cfg rcpts (s.msg m).placedLoc (s.msg m).placedRem = true ∧
      ∀ c i, i < (MsgSt.placed (s.msg m) c).length → Fate (s.msg m) c i) := by
  have hm := (reach_inv cfg s hr).msgs m
  cases ht : (s.msg m).todo with
  | some env =>
    left
    have := hm.a1 env ht
    rw [ha] at this; cases this
    exact ⟨rfl, hm.m1 (Or.inl (by rw [ht]; rfl))⟩
  | none =>
    right
    refine ⟨rfl, hm.a2 ht sender rcpts ha, ?_⟩
    intro c i hi
    cases hc : (s.msg m).chan c with
    | none => exact fate_of_fin cfg _ hm ht c i (hm.k7 ht c hc i hi)
    | some rs =>
      have hk1 := hm.k1 ht c rs hc
      have hlen : rs.length = (MsgSt.placed (s.msg m) c).length := by rw [← hk1]; simp [addrs]
      have hi' : i < rs.length := by omega
      cases hd : (rs.getD i ⟨false, []⟩).done with
      | true => exact fate_of_fin cfg _ hm ht c i (hm.k2 ht c rs i hc hd hi')
      | false =>
        left
        have hinfo : (s.msg m).info.isSome = true := by
          apply hm.k6 ht
          cases c
          · left; simpa [MsgSt.chan] using congrArg Option.isSome hc
          · right; left; simpa [MsgSt.chan] using congrArg Option.isSome hc
        exact ⟨rs, hc, hi', hd, hk1, hinfo, hm.m1 (Or.inr hinfo)⟩

/-- **The discard exemption exists only for double bounces**: a paragraph is ever discarded only when the *accepted*
envelope sender of the message is `#@[]`.  (Inductive: invariants `d1`, `i1`.) -/
theorem C03_dropped_only_doublebounce (cfg : Cfg) (s : St) (hr : Reach cfg s) (m : Nat) (sender : Bytes) (rcpts : List Bytes)
    (ha : (s.msg m).accepted = some (sender, rcpts)) (x : Ch × Nat) (hx : x ∈ (s.msg m).droppedRecs) :
    sender = [35, 64, 91, 93] :=
  ((reach_inv cfg s hr).msgs m).d1 sender rcpts ha (fun h => by rw [h] at hx; simp at hx)

/-- **A message leaves the queue only when everyone is accounted for**: once `info/<m>` is gone
(after which qmail-clean removes the message file) every recipient was reported delivered, or its
paragraph was in a successfully queued bounce, or its paragraph was discarded with the bounce file of a
`#@[]` message or was in the bounce file when a crash damaged it.  (Inductive.) -/
theorem C03_finished (cfg : Cfg) (s : St) (hr : Reach cfg s) (m : Nat) (sender : Bytes) (rcpts : List Bytes)
    (ha : (s.msg m).accepted = some (sender, rcpts)) (ht : (s.msg m).todo = none) (hi : (s.msg m).info = none) :
    ∀ c i, i < (MsgSt.placed (s.msg m) c).length →
      (c, i) ∈ (s.msg m).delivered ∨
      ((c, i) ∈ (s.msg m).noted ∧
        (((c, i) ∈ (s.msg m).bounced ∧ (c, i) ∉ (s.msg m).lostRecs) ∨
         ((c, i) ∈ (s.msg m).droppedRecs ∧ sender = [35, 64, 91, 93]) ∨ (c, i) ∈ (s.msg m).lostRecs)) := by
  intro c i hlt
  rcases C03_accounted cfg s hr m sender rcpts ha with h | ⟨_, _, h⟩
  · rw [ht] at h; cases h.1
  · rcases h c i hlt with ⟨_, _, _, _, _, h1, _⟩ | h1 | ⟨_, _, _, _, h1, _⟩ | ⟨hn, h1, h2⟩ | ⟨hn, h1⟩ | ⟨hn, h1⟩
    · rw [hi] at h1; simp at h1
    · exact Or.inl h1
    · rw [hi] at h1; simp at h1
    · exact Or.inr ⟨hn, Or.inl ⟨h1, h2⟩⟩
    · exact Or.inr ⟨hn, Or.inr (Or.inl ⟨h1, C03_dropped_only_doublebounce cfg s hr m sender rcpts ha _ h1⟩)⟩
    · exact Or.inr ⟨hn, Or.inr (Or.inr h1)⟩

/-! ### The crash exemption needs a crash

`lostRecs` (the last disjunct of `Fate`, the last alternative of `C03_finished` / `C03_info_last`) is fed by one event only,
`crashBounce`, and the monitor accepts the crash-damage events (`crashMarks`, `crashBounce`, `crashTodoFiles`) only in the
crash window: after a crash (`.restart`) and before anything else happens but further damage reports and arrivals of messages
(`St.crashed`, set by `.restart`, cleared — together with `cut` — by every other event). -/

/-- **Crash damage is reported only right after a crash**: in every accepted history a crash-damage event is preceded by a
crash (`.restart`), with nothing in between but other crash-damage events, further crashes and arrivals of messages. -/
theorem C03_crash_window (cfg : Cfg) (evs : List Ev) (e : Ev) (s : St) (h : acceptAll cfg {} (evs ++ [e]) = some s)
    (hd : e.isDamage = true) :
    ∃ pre post, evs = pre ++ Ev.restart :: post ∧ post.all Ev.inCrashWindow = true := by
  obtain ⟨s1, h1, h2⟩ := acceptAll_snoc cfg evs {} s e h
  have hc := damage_needs_crashed cfg s1 s e h2 hd
  rcases window_trace cfg evs {} s1 h1 hc with ⟨h0, _⟩ | h3
  · cases h0
  · exact h3

/-- **A record becomes crash-exempt only by a crash-damage event** (one step): `x` enters `lostRecs` of message `m` only by a
`crashBounce m content` accepted in the crash window, while its paragraph was in `bounce/<m>`, with a new content that does not
start with the old one.  (Frame lemma over all event kinds.) -/
theorem C03_lost_step (cfg : Cfg) (s s' : St) (e : Ev) (h : accept cfg s e = some s') (m : Nat) (x : Ch × Nat)
    (hx : x ∈ (s'.msg m).lostRecs) :
    x ∈ (s.msg m).lostRecs ∨
    ∃ content, e = .crashBounce m content ∧ s.crashed = true ∧ x ∈ (s.msg m).inFile ∧
      ((s.msg m).bounce.getD []).isPrefixOf content = false :=
  lost_frame cfg s s' e h m x hx

/-- **The crash exemption needs a crash** (whole histories): if a record is crash-exempt (`lostRecs`) in a reachable state, the
history contains a crash (`.restart`), then only window events (damage reports, further crashes, arrivals), then the
`crashBounce` of its message.  So the last alternative of `Fate` / `C03_finished` / `C03_info_last` reads: "… and a crash
happened, and the damage to `bounce/<m>` was found in the queue as that crash left it". -/
theorem C03_lost_after_crash (cfg : Cfg) (evs : List Ev) (s : St) (h : acceptAll cfg {} evs = some s) (m : Nat) (x : Ch × Nat)
    (hx : x ∈ (s.msg m).lostRecs) :
    ∃ pre win content post, evs = pre ++ Ev.restart :: win ++ Ev.crashBounce m content :: post ∧
      win.all Ev.inCrashWindow = true := by
  rcases lost_trace cfg m x evs {} s h hx with h0 | ⟨pre, content, post, s1, he, hp, hc⟩
  · have : (({} : St).msg m) = {} := by simp [St.msg, tabGet]
    rw [this] at h0; simp at h0
  · rcases window_trace cfg pre {} s1 hp hc with ⟨h0, _⟩ | ⟨pre', win, hpre, hw⟩
    · cases h0
    · exact ⟨pre', win, content, post, by rw [he, hpre], hw⟩

/-- **A completion mark is written only for a finished recipient**: whenever qmail-send writes the
`D` byte of a record, that delivery was reported `K`, or reported `D` (or `Z` past the queue lifetime)
*and its bounce paragraph has been appended*. -/
theorem C03_flip (cfg : Cfg) (s s' : St) (hr : Reach cfg s) (m : Nat) (c : Ch) (pos : Nat)
    (h : accept cfg s (.markD m c pos) = some s') :
    ∃ rs idx, (s.msg m).chan c = some rs ∧ recIndex rs pos = some idx ∧
      ((c, idx) ∈ (s.msg m).delivered ∨ (c, idx) ∈ (s.msg m).noted) := by
  -- `markD` is judged outside the crash window: in `s.calm`, which differs from `s` in the mode flag and `cut` only
  refine (?_ : ∀ t : St, Inv cfg t → acceptCore cfg t (.markD m c pos) = some s' → ∃ rs idx, (t.msg m).chan c = some rs ∧
      recIndex rs pos = some idx ∧ ((c, idx) ∈ (t.msg m).delivered ∨ (c, idx) ∈ (t.msg m).noted))
    s.calm (inv_calm cfg s (reach_inv cfg s hr)) h
  clear h hr s
  intro s hinv h
  simp only [acceptCore] at h
  split at h
  · cases h
  · split at h
    · cases h
    · rename_i rs hch
      split at h
      · cases h
      · rename_i idx hidx
        split at h
        · rename_i hmm
          exact ⟨rs, idx, hch, hidx, (hinv.msgs m).k3 _ (hinv.may m c idx (by simpa using hmm))⟩
        · cases h

/-- the outstanding delivery a report `rep` read on channel `c` refers to (its first byte is the delivery number) -/
def slotOf (s : St) (c : Ch) (rep : Bytes) : Option Slot :=
  s.slots.find? (fun x => x.c == c && x.delnum == (rep.headD 0).toNat)

/-- **Only a `K` finishes a recipient at report time**: a report with any other letter — `Z`,
mangled, or for an out-of-range or unused delivery number — changes no message state and grants no
permission to mark; and unless it is a `D`, or a `Z` for a message past its queue lifetime, it schedules
no bounce paragraph either (`notes` is the list of paragraphs that may be appended: `C03_paragraph_needs_report`).
(About the report reader `handleReport` itself, for every state — not a guard.) -/
theorem C03_report_other (cfg : Cfg) (s : St) (c : Ch) (rep : Bytes) (h : rep.getD 1 0 ≠ 75) :
    (handleReport cfg s c rep).tab = s.tab ∧ (handleReport cfg s c rep).mayMark = s.mayMark ∧
    ((rep.getD 1 0 ≠ 68 ∧
      (rep.getD 1 0 = 90 → ∀ sl, slotOf s c rep = some sl → ¬ s.clock > (s.msg sl.m).birth + cfg.lifetime)) →
     (handleReport cfg s c rep).notes = s.notes) := by
  simp only [handleReport]
  split
  · exact ⟨rfl, rfl, fun _ => rfl⟩
  · rename_i sl hsl
    by_cases h0 : (rep.headD 0).toNat ≥ cfg.conc c
    · rw [if_pos h0]; exact ⟨rfl, rfl, fun _ => rfl⟩
    · rw [if_neg h0, if_neg h]
      by_cases h1 : rep.getD 1 0 = 68
      · rw [if_pos h1]; exact ⟨rfl, rfl, fun hh => absurd h1 hh.1⟩
      · rw [if_neg h1]
        by_cases h2 : rep.getD 1 0 = 90 ∧ s.clock > (s.msg sl.m).birth + cfg.lifetime
        · rw [if_pos h2]; exact ⟨rfl, rfl, fun hh => absurd h2.2 (hh.2 h2.1 sl hsl)⟩
        · rw [if_neg h2]; exact ⟨rfl, rfl, fun _ => rfl⟩

/-- **Where a pending bounce paragraph comes from**: a report adds an entry to `notes` only for the outstanding delivery it
names, and only if its letter is `D`, or `Z` while the message is past its queue lifetime — a temporary failure of a live
message, a mangled report, a report for an unused or out-of-range delivery number never does. -/
theorem C03_note_origin (cfg : Cfg) (s : St) (c : Ch) (rep : Bytes) (n : Note) (hn : n ∈ (handleReport cfg s c rep).notes) :
    n ∈ s.notes ∨ ∃ sl, slotOf s c rep = some sl ∧ n = ⟨sl.m, c, sl.idx, sl.recip, decide (rep.getD 1 0 = 68)⟩ ∧ (rep.headD 0).toNat < cfg.conc c ∧
      (rep.getD 1 0 = 68 ∨ (rep.getD 1 0 = 90 ∧ s.clock > (s.msg sl.m).birth + cfg.lifetime)) := by
  simp only [handleReport] at hn
  split at hn
  · exact Or.inl hn
  · rename_i sl hsl
    by_cases h0 : (rep.headD 0).toNat ≥ cfg.conc c
    · rw [if_pos h0] at hn; exact Or.inl hn
    · rw [if_neg h0] at hn
      by_cases hK : rep.getD 1 0 = 75
      · rw [if_pos hK] at hn; exact Or.inl hn
      · rw [if_neg hK] at hn
        by_cases h1 : rep.getD 1 0 = 68
        · rw [if_pos h1] at hn
          rcases List.mem_append.1 hn with h3 | h3
          · exact Or.inl h3
          · right; exact ⟨sl, hsl, by rw [decide_eq_true h1]; simpa using h3, by omega, Or.inl h1⟩
        · rw [if_neg h1] at hn
          by_cases h2 : rep.getD 1 0 = 90 ∧ s.clock > (s.msg sl.m).birth + cfg.lifetime
          · rw [if_pos h2] at hn
            rcases List.mem_append.1 hn with h3 | h3
            · exact Or.inl h3
            · right; exact ⟨sl, hsl, by rw [decide_eq_false h1]; simpa using h3, by omega, Or.inr h2⟩
          · rw [if_neg h2] at hn; exact Or.inl hn

/-- **A bounce paragraph is appended only for a reported permanent failure**: `appendBounce` consumes an entry of `notes`
(see `C03_note_origin`) for that message, and records exactly that record as `noted`.  (Readback of the monitor's guard;
tied to the code by trace replay.) -/
theorem C03_paragraph_needs_report (cfg : Cfg) (s s' : St) (m : Nat) (bs : Bytes) (h : accept cfg s (.appendBounce m bs) = some s') :
    ∃ n ∈ s.notes, n.m = m ∧ (s'.msg m).noted = (n.c, n.idx) :: (s.msg m).noted ∧ s'.notes = s.notes.erase n ∧
      bs.take ([60] ++ sanitizeLF n.recip ++ [62, 58, 10]).length = [60] ++ sanitizeLF n.recip ++ [62, 58, 10] := by
  refine (?_ : ∀ t : St, acceptCore cfg t (.appendBounce m bs) = some s' →
      ∃ n ∈ t.notes, n.m = m ∧ (s'.msg m).noted = (n.c, n.idx) :: (t.msg m).noted ∧ s'.notes = t.notes.erase n ∧
        bs.take ([60] ++ sanitizeLF n.recip ++ [62, 58, 10]).length = [60] ++ sanitizeLF n.recip ++ [62, 58, 10]) s.calm h
  clear h s
  intro s h
  simp only [acceptCore] at h
  split at h
  · cases h
  · split at h
    · cases h
    · rename_i n hn
      split at h
      · rename_i hg
        cases h
        refine ⟨n, List.mem_of_find?_eq_some hn, ?_, ?_, rfl, by simpa using hg.2.2.1⟩
        · have := List.find?_some hn; simpa using this
        · simp only [St.msg, St.upd, tabGet_set]; simp
      · cases h

/-- **A channel file is unlinked only when everything in it is finished** (outside preprocessing):
each of its records was reported delivered or has its bounce paragraph. -/
theorem C03_unlink (cfg : Cfg) (s s' : St) (hr : Reach cfg s) (m : Nat) (c : Ch)
    (h : accept cfg s (.unlinkChan m c) = some s') (ht : (s.msg m).todo = none) :
    ∃ rs, (s.msg m).chan c = some rs ∧ ∀ i, i < rs.length →
      ((c, i) ∈ (s.msg m).delivered ∨ (c, i) ∈ (s.msg m).noted) := by
  refine (?_ : ∀ t : St, Inv cfg t → acceptCore cfg t (.unlinkChan m c) = some s' → (t.msg m).todo = none →
      ∃ rs, (t.msg m).chan c = some rs ∧ ∀ i, i < rs.length → ((c, i) ∈ (t.msg m).delivered ∨ (c, i) ∈ (t.msg m).noted))
    s.calm (inv_calm cfg s (reach_inv cfg s hr)) h ht
  clear h hr ht s
  intro s hinv h ht
  simp only [acceptCore] at h
  split at h
  · cases h
  · split at h
    · cases h
    · rename_i rs hch
      split at h
      · rename_i hts; rw [ht] at hts; simp at hts
      · split at h
        · rename_i hg
          refine ⟨rs, hch, fun i hi => ?_⟩
          have := (List.all_eq_true.1 hg.2) i (List.mem_range.2 hi)
          simp only [Bool.or_eq_true] at this
          rcases this with hd | hf
          · exact (hinv.msgs m).k3 _ ((hinv.msgs m).k2 ht c rs i hch hd hi)
          · exact (hinv.msgs m).k3 _ (by simpa using hf)
        · cases h

/-- **`info/<m>` is removed last, and only when everyone is accounted for** (outside preprocessing): both channel files
and the bounce record are gone (guard of the monitor), and therefore — by the invariant — every recipient was reported
delivered, or its paragraph was in a successfully queued bounce, or falls under one of the two per-record exemptions. -/
theorem C03_info_last (cfg : Cfg) (s s' : St) (hr : Reach cfg s) (m : Nat) (sender : Bytes) (rcpts : List Bytes)
    (ha : (s.msg m).accepted = some (sender, rcpts))
    (h : accept cfg s (.unlinkInfo m) = some s') (ht : (s.msg m).todo = none) :
    (s.msg m).loc = none ∧ (s.msg m).rem = none ∧ (s.msg m).bounce = none ∧
    ∀ c i, i < (MsgSt.placed (s.msg m) c).length →
      (c, i) ∈ (s.msg m).delivered ∨
      ((c, i) ∈ (s.msg m).noted ∧
        (((c, i) ∈ (s.msg m).bounced ∧ (c, i) ∉ (s.msg m).lostRecs) ∨ (c, i) ∈ (s.msg m).droppedRecs ∨ (c, i) ∈ (s.msg m).lostRecs)) := by
  -- the guard, read in the state the event is judged in (`s.calm`: the same files)
  have hguard : ∀ t : St, acceptCore cfg t (.unlinkInfo m) = some s' → (t.msg m).todo = none →
      (t.msg m).loc = none ∧ (t.msg m).rem = none ∧ (t.msg m).bounce = none := by
    intro t h ht
    simp only [acceptCore] at h
    split at h
    · cases h
    · split at h
      · rename_i hts; rw [ht] at hts; simp at hts
      · split at h
        · rename_i hg
          exact ⟨by simpa using hg.1, by simpa using hg.2.1, by simpa using hg.2.2⟩
        · cases h
  obtain ⟨hl, hrm, hb⟩ : (s.msg m).loc = none ∧ (s.msg m).rem = none ∧ (s.msg m).bounce = none := hguard s.calm h ht
  refine ⟨hl, hrm, hb, ?_⟩
  intro c i hlt
  rcases C03_accounted cfg s hr m sender rcpts ha with h0 | ⟨_, _, h0⟩
  · rw [ht] at h0; cases h0.1
  · rcases h0 c i hlt with ⟨rs, hc, _⟩ | h1 | ⟨_, _, _, h1, _⟩ | ⟨hn, h1, h2⟩ | ⟨hn, h1⟩ | ⟨hn, h1⟩
    · cases c
      · have : (s.msg m).loc = some rs := hc
        rw [hl] at this; cases this
      · have : (s.msg m).rem = some rs := hc
        rw [hrm] at this; cases this
    · exact Or.inl h1
    · rw [hb] at h1; simp at h1
    · exact Or.inr ⟨hn, Or.inl ⟨h1, h2⟩⟩
    · exact Or.inr ⟨hn, Or.inr (Or.inl h1)⟩
    · exact Or.inr ⟨hn, Or.inr (Or.inr h1)⟩

theorem sender_of_info (sd : Bytes) : ((70 :: sd ++ [0]).drop 1).dropLast = sd := by
  simp [dropLast_append_singleton]

/-- **A bounce is queued to the accepted envelope sender**: whenever an injection succeeds, its envelope is
`bounceEnvelope` of the sender *qmail-queue accepted the message with* (sender address, or the double-bounce address for a
null / `-@[]` sender; never for `#@[]`), its text contains the whole current content of `bounce/<m>`, and both channel files
are gone.  (Inductive in the link `info/<m>` = accepted sender — invariant `i1`; the rest reads back the monitor's guard.) -/
theorem C03_bounce_to_sender (cfg : Cfg) (s s' : St) (hr : Reach cfg s) (m : Nat) (sender : Bytes) (rcpts : List Bytes)
    (ha : (s.msg m).accepted = some (sender, rcpts)) (env body : Bytes)
    (h : accept cfg s (.bounceInject m true env body) = some s') :
    sender ≠ [35, 64, 91, 93] ∧ env = bounceEnvelope cfg sender ∧
    (∃ file, (s.msg m).bounce = some file ∧ isInfix file body = true) ∧
    (s.msg m).loc = none ∧ (s.msg m).rem = none := by
  have hm := (reach_inv cfg s hr).msgs m
  refine (?_ : ∀ t : St, MInv cfg (t.msg m) → (t.msg m).accepted = some (sender, rcpts) →
      acceptCore cfg t (.bounceInject m true env body) = some s' →
      sender ≠ [35, 64, 91, 93] ∧ env = bounceEnvelope cfg sender ∧
      (∃ file, (t.msg m).bounce = some file ∧ isInfix file body = true) ∧ (t.msg m).loc = none ∧ (t.msg m).rem = none)
    s.calm hm ha h
  clear h hm ha hr s
  intro s hm ha h
  simp only [acceptCore] at h
  split at h
  · cases h
  · split at h
    · rename_i info file hinfo hfile
      split at h
      · rename_i hg
        have htn : (s.msg m).todo = none := by
          cases hx : (s.msg m).todo with
          | none => rfl
          | some x => have := hg.1; simp [hx] at this
        have hi := hm.i1 htn sender rcpts info ha hinfo
        rw [hi, sender_of_info] at hg
        have h5 := hg.2.2.2.2 trivial
        exact ⟨hg.2.2.2.1, h5.2, ⟨file, hfile, h5.1⟩, by simpa using hg.2.1, by simpa using hg.2.2.1⟩
      · cases h
    · cases h

/-- **The bounce record is removed only after its bounce was queued** — the last thing that happened to `bounce/<m>` was a
successful injection (`lastInject`: reset by every append and by a crash that touched the file), sender not `#@[]` — or, for a
message whose *accepted* sender is `#@[]`, discarded (the documented end of the chain); in both cases after both channel
files are gone.  (Guard readback, with the sender tied to the accepted envelope by the invariant; *what* was injected last is
C14's daemon-level theorem.) -/
theorem C03_bounce_removed (cfg : Cfg) (s s' : St) (hr : Reach cfg s) (m : Nat) (sender : Bytes) (rcpts : List Bytes)
    (ha : (s.msg m).accepted = some (sender, rcpts)) (h : accept cfg s (.unlinkBounce m) = some s') :
    (((s.msg m).lastInject = true ∧ sender ≠ [35, 64, 91, 93]) ∨ sender = [35, 64, 91, 93]) ∧
    (s.msg m).loc = none ∧ (s.msg m).rem = none := by
  have hm := (reach_inv cfg s hr).msgs m
  refine (?_ : ∀ t : St, MInv cfg (t.msg m) → (t.msg m).accepted = some (sender, rcpts) →
      acceptCore cfg t (.unlinkBounce m) = some s' →
      (((t.msg m).lastInject = true ∧ sender ≠ [35, 64, 91, 93]) ∨ sender = [35, 64, 91, 93]) ∧
      (t.msg m).loc = none ∧ (t.msg m).rem = none)
    s.calm hm ha h
  clear h hm ha hr s
  intro s hm ha h
  simp only [acceptCore] at h
  split at h
  · cases h
  · split at h
    · rename_i info _ hinfo _
      split at h
      · rename_i hg
        have htn : (s.msg m).todo = none := by
          cases hx : (s.msg m).todo with
          | none => rfl
          | some x => have := hg.1; simp [hx] at this
        have hi := hm.i1 htn sender rcpts info ha hinfo
        rw [hi, sender_of_info] at h
        refine ⟨?_, by simpa using hg.2.1, by simpa using hg.2.2⟩
        split at h
        · rename_i hs; exact Or.inr hs
        · rename_i hs
          split at h
          · rename_i hl; exact Or.inl ⟨hl, hs⟩
          · cases h
      · cases h
    · cases h

/-! ### Non-vacuity: a concrete accepted history (one message, one local recipient `a`, reported
`D`, bounce paragraph appended, record marked, file unlinked, bounce queued, message removed) -/

def cfg0 : Cfg := { conc := fun _ => 2, lifetime := 1000, route := fun a => (.loc, a), doublebounceto := [112] }

example : (acceptAll cfg0 {}
    [.newmsg 7 [115] [[97]], .creatInfo 7, .writeInfo 7 [70, 115, 0], .creatChan 7 .loc, .writeChan 7 .loc [84, 97, 0],
     .fsyncInfo 7, .fsyncChan 7 .loc, .cleanReq [116, 111, 100, 111, 47, 55, 0], .cUnlinkIntd 7, .cUnlinkTodo 7, .cleanResp 43,
     .cmd .loc 0 7 0 [97], .rbytes .loc [0, 68, 120, 10, 0], .appendBounce 7 [60, 97, 62, 58, 10, 120, 10, 10], .markD 7 .loc 0,
     .unlinkChan 7 .loc, .bounceInject 7 true [70, 0, 84, 115, 0] [60, 97, 62, 58, 10, 120, 10, 10], .unlinkBounce 7,
     .unlinkInfo 7, .cleanReq [102, 111, 111, 112, 47, 55, 0], .cUnlinkIntd 7, .cUnlinkMess 7, .cleanResp 43]).isSome = true := by
  decide

/-- marking without the bounce paragraph is not accepted -/
example : acceptAll cfg0 {}
    [.newmsg 7 [115] [[97]], .creatInfo 7, .writeInfo 7 [70, 115, 0], .creatChan 7 .loc, .writeChan 7 .loc [84, 97, 0],
     .fsyncInfo 7, .fsyncChan 7 .loc, .cleanReq [116, 111, 100, 111, 47, 55, 0], .cUnlinkIntd 7, .cUnlinkTodo 7, .cleanResp 43,
     .cmd .loc 0 7 0 [97], .rbytes .loc [0, 68, 120, 10, 0], .markD 7 .loc 0] = none := by
  decide

/-- the exemptions are per record: message 7 with recipients `a`, `b`; `a` is reported `D` and its paragraph appended, then a
machine crash empties `bounce/7`.  Record 0 is exempt (`lostRecs`), record 1 — never attempted — is not: it is accounted for
only as "still queued".  And a crash cannot invent a bounce file for a message that has none and no interrupted `addbounce`. -/
example :
    let pre : List Ev :=
      [.newmsg 7 [115] [[97], [98]], .creatInfo 7, .writeInfo 7 [70, 115, 0], .creatChan 7 .loc, .writeChan 7 .loc [84, 97, 0, 84, 98, 0],
       .fsyncInfo 7, .fsyncChan 7 .loc, .cleanReq [116, 111, 100, 111, 47, 55, 0], .cUnlinkIntd 7, .cUnlinkTodo 7, .cleanResp 43]
    ((acceptAll cfg0 {} (pre ++ [.cmd .loc 0 7 0 [97], .rbytes .loc [0, 68, 120, 10, 0], .appendBounce 7 [60, 97, 62, 58, 10, 120, 10, 10],
        .restart, .crashBounce 7 []])).map fun s => ((s.msg 7).lostRecs, (s.msg 7).droppedRecs, (s.msg 7).noted)) =
      some ([(.loc, 0)], [], [(.loc, 0)]) ∧
    acceptAll cfg0 {} (pre ++ [.restart, .crashBounce 7 []]) = none ∧
    -- interrupted `addbounce` (daemon died between the `D` report and the end of the append): the file may exist, nobody is exempt
    ((acceptAll cfg0 {} (pre ++ [.cmd .loc 0 7 0 [97], .rbytes .loc [0, 68, 120, 10, 0], .restart, .crashBounce 7 [60, 97]])).map
        fun s => ((s.msg 7).lostRecs, (s.msg 7).bounce)) = some ([], some [60, 97]) := by
  decide

/-- the second-pass audit's probes (crash-damage events with no crash), now REFUSED.
(A) no crash anywhere: both recipients reported `D`, paragraphs appended, marks written, channel file unlinked — accepted so
far —, then `crashBounce 7 []` in the middle of normal operation: refused (it used to be accepted and made both recipients
`lostRecs`); with a crash right before it the same event is accepted and both records are exempt.
(C) stale `cut`: a crash with a pending `D` report for message 7, then normal operation, then `crashBounce 7 …` inventing a bounce
file: refused (`cut` is cleared with the mode flag); right after the crash it is accepted; an arrival does not close the window.
`crashMarks` / `crashTodoFiles` with no crash: refused. -/
example :
    let pre : List Ev :=
      [.newmsg 7 [115] [[97], [98]], .creatInfo 7, .writeInfo 7 [70, 115, 0], .creatChan 7 .loc, .writeChan 7 .loc [84, 97, 0, 84, 98, 0],
       .fsyncInfo 7, .fsyncChan 7 .loc, .cleanReq [116, 111, 100, 111, 47, 55, 0], .cUnlinkIntd 7, .cUnlinkTodo 7, .cleanResp 43]
    let bothBounced : List Ev := pre ++
      [.cmd .loc 0 7 0 [97], .rbytes .loc [0, 68, 120, 10, 0], .appendBounce 7 [60, 97, 62, 58, 10, 120, 10, 10], .markD 7 .loc 0,
       .cmd .loc 0 7 3 [98], .rbytes .loc [0, 68, 120, 10, 0], .appendBounce 7 [60, 98, 62, 58, 10, 120, 10, 10], .markD 7 .loc 3,
       .unlinkChan 7 .loc]
    -- (A)
    (acceptAll cfg0 {} bothBounced).isSome = true ∧
    acceptAll cfg0 {} (bothBounced ++ [.crashBounce 7 []]) = none ∧
    ((acceptAll cfg0 {} (bothBounced ++ [.restart, .crashBounce 7 []])).map fun s => (s.msg 7).lostRecs) = some [(.loc, 1), (.loc, 0)] ∧
    -- one event of the restarted daemon closes the window
    acceptAll cfg0 {} (bothBounced ++ [.restart, .tick 0, .crashBounce 7 []]) = none ∧
    -- (C)
    acceptAll cfg0 {} (pre ++ [.cmd .loc 0 7 0 [97], .rbytes .loc [0, 68, 120, 10, 0], .restart,
      .cmd .loc 0 7 0 [97], .rbytes .loc [0, 90, 0], .cmd .loc 0 7 3 [98], .rbytes .loc [0, 90, 0], .tick 5, .crashBounce 7 [1, 2, 3]]) = none ∧
    ((acceptAll cfg0 {} (pre ++ [.cmd .loc 0 7 0 [97], .rbytes .loc [0, 68, 120, 10, 0], .restart, .newmsg 8 [] [[99]],
      .crashBounce 7 [1, 2, 3]])).map fun s => ((s.msg 7).bounce, s.cut, s.crashed)) = some (some [1, 2, 3], [7], true) ∧
    ((acceptAll cfg0 {} (pre ++ [.cmd .loc 0 7 0 [97], .rbytes .loc [0, 68, 120, 10, 0], .restart, .crashBounce 7 [1, 2, 3],
      .cmd .loc 0 7 0 [97]])).map fun s => (s.cut, s.crashed)) = some ([], false) ∧
    -- the other two damage events
    acceptAll cfg0 {} (pre ++ [.cmd .loc 0 7 0 [97], .rbytes .loc [0, 75, 0], .markD 7 .loc 0, .crashMarks 7 .loc [false, false]]) = none ∧
    (acceptAll cfg0 {} (pre ++ [.cmd .loc 0 7 0 [97], .rbytes .loc [0, 75, 0], .markD 7 .loc 0, .restart, .crashMarks 7 .loc [false, false]])).isSome = true ∧
    acceptAll cfg0 {} [.newmsg 7 [115] [[97]], .creatInfo 7, .crashTodoFiles 7] = none ∧
    (acceptAll cfg0 {} [.newmsg 7 [115] [[97]], .creatInfo 7, .restart, .crashTodoFiles 7]).isSome = true := by
  decide

end Nq.Props.C03
