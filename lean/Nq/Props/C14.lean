/-
  C14 — Bounces go back once, to the sender, and can neither loop nor be forged.

  Model: `Nq.Bounce` (qmail-send.c `stripvdomprepend`, `addbounce`, `del_dochan`'s report handling,
  `getcontrols`, `injectbounce`), tied to the source by the differential harness
  `harness/c14_bounce.c`.  The reader's side (`paras`, `governing`, `namedRecipient`, `recipLine`,
  `sanit`) is `Nq.BounceSpec`; compiled, it is the oracle of `./check C14`.
  Only property theorems live here.  The daemon-level "once" (messdone/pqdone scheduling, crash
  windows) is stated over the `Daemon` model in C03/C04; here it is proved for `injectbounce` itself.
-/
import Nq.Lemmas.Bounce

namespace Nq.Props.C14
open Nq Nq.Bounce Nq.BounceSpec Nq.Lemmas.Bounce

/-! ### One failed recipient = exactly one paragraph; report text cannot forge another -/

/-- **One `addbounce` call, one paragraph** — for every recipient, every report (any bytes: empty
lines, `<x>:` look-alikes, 8-bit) and every virtualdomains table, whatever follows in the file: the
reader sees exactly one paragraph `core`, then continues between paragraphs.  `core` begins with the
line naming the recipient and is everything that was written except the final empty line(s). -/
theorem C14_paragraph (es : Tables) (recip report rest : Bytes) :
    ∃ core, paras .blank (addbounceText es recip report ++ rest) = core :: paras .blank rest
      ∧ recipLine (namedRecipient es.locals es.vdoms recip) <+: core
      ∧ (addbounceText es recip report = core ++ [LF] ∨ addbounceText es recip report = core ++ [LF, LF]) := by
  refine ⟨paraCore es recip report, paras_addbounceText es recip report rest, ?_, paraCore_prefix es recip report⟩
  rw [← stripvdom_eq_named]
  exact recipLine_prefix_paraCore es recip report

/-- …in particular the text written for one failure is one paragraph. -/
theorem C14_paragraph_one (es : Tables) (recip report : Bytes) :
    (paragraphs (addbounceText es recip report)).length = 1 := by
  have := paras_addbounceText es recip report []
  simp only [List.append_nil] at this
  simp [paragraphs, this, paras]

/-- The recipient line is a single line: `<`, the address with every LF shown as `_`, `>:` LF. -/
theorem C14_recipient_line (addr : Bytes) :
    ∃ r, recipLine addr = 60 :: (r ++ [62, 58, LF]) ∧ LF ∉ r ∧ r.length = addr.length := by
  refine ⟨addr.map (fun c => if c = LF then 95 else c), rfl, ?_, by simp⟩
  intro h
  rw [List.mem_map] at h
  obtain ⟨a, _, ha⟩ := h
  by_cases hc : a = LF
  · simp [hc, LF] at ha
  · simp [hc] at ha

/-- **The bounce file has exactly one paragraph per failed recipient, in order, the i-th naming the
i-th recipient** — for every list of failures, in any combination and order, with arbitrary report
bytes.  Report text cannot add, remove or re-label a paragraph. -/
theorem C14_paragraphs_file (es : Tables) (fails : List (Bytes × Bytes)) :
    (paragraphs (bounceFile es fails)).length = fails.length ∧
    NamedInOrder es.locals es.vdoms fails (paragraphs (bounceFile es fails)) := by
  rw [paragraphs_bounceFile]
  exact ⟨by simp, namedInOrder_cores es fails⟩

/-- **The failure text follows the recipient line**: the same bytes, except that an LF which
directly follows an LF (or opens the report) is shown as '/', one final LF is implied, and an empty
line ends the paragraph. -/
theorem C14_report_shown (es : Tables) (recip report : Bytes) :
    ∃ b tail, addbounceText es recip report = recipLine (namedRecipient es.locals es.vdoms recip) ++ b ++ tail
      ∧ sanit (chomp1 report) b = true ∧ (tail = [LF] ∨ tail = [LF, LF]) := by
  refine ⟨squashAll true (chomp1 report), if report = [] then [LF] else [LF, LF], ?_, sanit_squashAll _ _, ?_⟩
  · rw [← stripvdom_eq_named]; exact addbounceText_shape es recip report
  · split <;> simp

/-- A report without empty lines that does not begin with LF is shown verbatim. -/
theorem C14_report_verbatim (es : Tables) (recip report : Bytes)
    (h1 : hasLFLF report = false) (h2 : report.head? ≠ some LF) (h3 : report ≠ []) :
    addbounceText es recip report = recipLine (namedRecipient es.locals es.vdoms recip) ++ chomp1 report ++ [LF, LF] := by
  rw [addbounceText_shape, stripvdom_eq_named]
  have hc1 : hasLFLF (chomp1 report) = false := by
    unfold chomp1
    split
    · rename_i hl
      have hsp := getLast_split report hl
      have : ∀ (a b : Bytes), hasLFLF (a ++ b) = false → hasLFLF a = false := by
        intro a
        induction a with
        | nil => intro b _; simp [hasLFLF]
        | cons c t ih =>
          intro b h
          cases t with
          | nil => simp [hasLFLF]
          | cons d u =>
            simp only [List.cons_append, hasLFLF, Bool.or_eq_false_iff] at h ⊢
            exact ⟨h.1, ih b h.2⟩
      exact this _ [LF] (by rw [← hsp]; exact h1)
    · exact h1
  have hc2 : (chomp1 report).head? ≠ some LF := by
    unfold chomp1
    split
    · cases report with
      | nil => simp
      | cons c t =>
        cases t with
        | nil => simp
        | cons d u => simpa using h2
    · exact h2
  rw [squashAll_id _ true hc1 (fun _ => hc2)]
  simp [h3]

/-- **The model's scan is the C loop.**  `scanInPlace` is the literal transcription of
`for (pos = len - 2;pos > 0;--pos) if (s[pos] == '\n') if (s[pos - 1] == '\n') s[pos] = '/';`
(in-place writes, descending positions); the forward pass used by `addbounceText` computes the same
text for every input. -/
theorem C14_scan_literal (s : Bytes) : scanInPlace s = scanFrom false s := scanInPlace_eq s

/-! ### The virtual-domain prefix: `stripvdomprepend` undoes exactly what `rewrite()` did -/

/-- **`stripvdomprepend` implements the documented precedence** (the order of `rewrite()`): a
recipient at a domain listed in `locals` is named as it is; otherwise a virtual-*user* prefix is
removed (first cut `prepend-rest` such that `rest` has an entry with exactly that non-empty prepend);
otherwise the entry that governs the recipient's domain (the domain itself, else the longest
`.suffix` wildcard, else the catch-all; last entry wins, keys case-insensitive) decides, and its
`prepend-` is removed exactly when the recipient starts with it. -/
theorem C14_strip (t : Tables) (recip : Bytes) :
    stripvdom t recip = namedRecipient t.locals t.vdoms recip := stripvdom_eq_named t recip

/-- **Rule "locals first"** (repaired defect F2): a recipient whose domain is listed in control/locals
was never given a prefix by `rewrite()`; the bounce names it as it was addressed, whatever
virtualdomains says. -/
theorem C14_strip_local (t : Tables) (recip d : Bytes)
    (hd : domainPart recip = some d) (hl : isLocal t.locals d = true) : stripvdom t recip = recip := by
  rw [stripvdom_eq_named]
  simp [namedRecipient, hd, hl]

/-- **Rule "virtual users"** (repaired defect F1): outside `locals`, if the recipient can be cut as
`prepend-rest` where `rest` has a virtualdomains entry with exactly this non-empty prepend, the
bounce names `rest` (the first such cut). -/
theorem C14_strip_user (t : Tables) (recip d rest : Bytes)
    (hd : domainPart recip = some d) (hl : isLocal t.locals d = false)
    (hu : userSplit t.vdoms recip = some rest) : stripvdom t recip = rest := by
  rw [stripvdom_eq_named]
  simp [namedRecipient, hd, hl, hu]

/-- **What `rewrite()` prepends for a virtual user is what the bounce removes**: if `addr` (not at a
local domain) has the entry `addr:p` with `p` non-empty and dash-free, the local recipient `p-addr`
is named `addr`. -/
theorem C14_strip_user_rewrite (t : Tables) (addr d p : Bytes)
    (hd : domainPart addr = some d) (hl : isLocal t.locals d = false)
    (he : entryFor t.vdoms addr = some p) (hp : p ≠ []) (hdash : (45 : Byte) ∉ p) :
    stripvdom t (p ++ 45 :: addr) = addr := by
  have hd' : domainPart (p ++ 45 :: addr) = some d := by
    rw [← domainOf_eq_domainPart] at hd ⊢
    have := domainOf_append (p ++ [45]) addr d hd
    simpa using this
  refine C14_strip_user t _ d addr hd' hl ?_
  rw [← userStripGo_eq_userSplit, userStripGo_skip _ _ _ _ hdash]
  have hpe : p.isEmpty = false := by simpa using hp
  rw [entryFor_eq_cmLookup] at he
  simp [userStripGo, DASH, he, hpe]

/-- outside `locals` and with no virtual-user cut, the prefix is removed when the governing entry's
non-empty `prepend` and a dash start the recipient -/
theorem C14_strip_removed (t : Tables) (recip d p : Bytes)
    (hd : domainPart recip = some d) (hl : isLocal t.locals d = false) (hu : userSplit t.vdoms recip = none)
    (hg : governing t.vdoms d = some p) (hp : p ≠ [])
    (hpre : (p ++ [45]) <+: recip) : p ++ 45 :: stripvdom t recip = recip := by
  rw [stripvdom_eq_named]
  unfold namedRecipient
  obtain ⟨r, ht⟩ := hpre
  have hpb : (p ++ [45]).isPrefixOf recip = true := by
    rw [List.isPrefixOf_iff_prefix]; exact ⟨r, ht⟩
  have hpe : p.isEmpty = false := by simpa using hp
  simp only [hd, hl, hu, hg, hpe, hpb, Bool.not_false, Bool.and_self, if_true, Bool.false_eq_true, if_false]
  rw [← ht]
  simp

/-- …and in every other case (no virtual-user cut, no governing entry, an exception entry, or the
recipient does not start with `prepend-`) the recipient is named as it is -/
theorem C14_strip_kept (t : Tables) (recip : Bytes) (hu : userSplit t.vdoms recip = none)
    (h : ∀ d p, domainPart recip = some d → governing t.vdoms d = some p → p = [] ∨ ¬ (p ++ [45]) <+: recip) :
    stripvdom t recip = recip := by
  rw [stripvdom_eq_named]
  unfold namedRecipient
  cases hd : domainPart recip with
  | none => rfl
  | some d =>
    simp only [hu]
    split
    · rfl
    · cases hg : governing t.vdoms d with
      | none => simp [hg]
      | some p =>
        rcases h d p hd hg with hp | hp
        · simp [hg, hp]
        · have : (p ++ [45]).isPrefixOf recip = false := by
            cases hb : (p ++ [45]).isPrefixOf recip with
            | false => rfl
            | true => exact absurd (List.isPrefixOf_iff_prefix.mp hb) hp
          simp only [hg, this, Bool.and_false, Bool.false_eq_true, if_false]

/-- **What `rewrite()` prepends for a virtual domain is what the bounce removes**: if `p` is the
(non-empty) prepend of the entry governing `addr`'s domain, the domain is not local and no
virtual-user cut applies, the local recipient `p-addr` is named `addr` in the bounce. -/
theorem C14_strip_rewrite (t : Tables) (addr d p : Bytes)
    (hd : domainPart addr = some d) (hl : isLocal t.locals d = false)
    (hu : userSplit t.vdoms (p ++ 45 :: addr) = none)
    (hg : governing t.vdoms d = some p) (hp : p ≠ []) :
    stripvdom t (p ++ 45 :: addr) = addr := by
  have hd' : domainPart (p ++ 45 :: addr) = some d := by
    rw [← domainOf_eq_domainPart] at hd ⊢
    have := domainOf_append (p ++ [45]) addr d hd
    simpa using this
  have := C14_strip_removed t (p ++ 45 :: addr) d p hd' hl hu hg hp ⟨addr, by simp⟩
  have h2 : p ++ 45 :: stripvdom t (p ++ 45 :: addr) = p ++ 45 :: addr := this
  have h3 := List.append_cancel_left h2
  simpa using h3

/-! ### Where bounces go: sender forms, VERP base address, double bounce, discard -/

/-- a VERP sender `pre-@[]` is answered at `pre` (for `owner-@host-@[]`: at `owner-@host`) -/
theorem C14_verp_base (pre : Bytes) : verpBase (pre ++ VERPSUF) = pre := by
  unfold verpBase
  have : VERPSUF.isSuffixOf (pre ++ VERPSUF) = true := by
    rw [List.isSuffixOf_iff_suffix]; exact ⟨pre, rfl⟩
  simp [this, VERPSUF]

/-- any other sender is used as it is -/
theorem C14_verp_other (s : Bytes) (h : ¬ VERPSUF <:+ s) : verpBase s = s := by
  unfold verpBase
  have : VERPSUF.isSuffixOf s = false := by
    cases hb : VERPSUF.isSuffixOf s with
    | false => rfl
    | true => exact absurd (List.isSuffixOf_iff_suffix.mp hb) h
  simp [this]

/-- **Envelope of every generated notice.**  A bounce has the empty envelope sender and goes to the
original sender's base address; if the original sender was empty (the failing message was itself a
bounce) the notice is a double bounce from `#@[]` to `doublebounceto@doublebouncehost`. -/
theorem C14_envelope (cfg : Cfg) (date bf : Bytes) (m m' : Msg) (h : bounceOf cfg date bf m = some m') :
    (verpBase m.sender ≠ [] ∧ m'.sender = [] ∧ m'.rcpts = [verpBase m.sender]) ∨
    (verpBase m.sender = [] ∧ m'.sender = DBSENDER ∧ m'.rcpts = [cfg.doublebounceto]) := by
  unfold bounceOf decideBounce at h
  by_cases h1 : verpBase m.sender = DBSENDER
  · simp [h1] at h
  · cases h2 : (verpBase m.sender).isEmpty with
    | true =>
      simp [h1, h2] at h
      right
      rw [← h]
      exact ⟨by simpa using h2, rfl, rfl⟩
    | false =>
      simp [h1, h2] at h
      left
      rw [← h]
      exact ⟨by simpa using h2, rfl, rfl⟩

/-- **The double-bounce address is `doublebounceto@doublebouncehost`** as getcontrols() assembles it:
first line of each control file (trailing blanks removed); `doublebouncehost` falls back to `me`, then
to the literal name; `doublebounceto` falls back to `postmaster`. -/
theorem C14_doublebounce_address (c : Controls) :
    (getcontrols c).doublebounceto =
      rldef c.doublebounceto c.me false (str "postmaster") ++ [AT]
        ++ rldef c.doublebouncehost c.me true (str "doublebouncehost") ∧
    (c.doublebounceto = none → c.doublebouncehost = none → c.me = none →
      (getcontrols c).doublebounceto = str "postmaster" ++ [AT] ++ str "doublebouncehost") := by
  refine ⟨rfl, ?_⟩
  intro h1 h2 h3
  simp [getcontrols, rldef, h1, h2, h3]

/-- **A failing double bounce is discarded**: nothing is generated exactly for the sender `#@[]`
(after VERP-suffix removal). -/
theorem C14_discard (cfg : Cfg) (date bf : Bytes) (m : Msg) :
    bounceOf cfg date bf m = none ↔ verpBase m.sender = DBSENDER := by
  unfold bounceOf decideBounce
  by_cases h1 : verpBase m.sender = DBSENDER
  · simp [h1]
  · by_cases h2 : (verpBase m.sender).isEmpty = true <;> simp [h1, h2]

/-- `m'` is the notice generated when `m` fails (for some date and some recorded failures) -/
def Bounces (cfg : Cfg) (m m' : Msg) : Prop := ∃ date bf, bounceOf cfg date bf m = some m'

def isChain (R : Msg → Msg → Prop) : List Msg → Prop
  | [] => True
  | [_] => True
  | a :: b :: t => R a b ∧ isChain R (b :: t)

/-- the notice for a bounce is a double bounce, and the notice for a double bounce does not exist -/
theorem C14_chain_step (cfg : Cfg) (m0 m1 m2 : Msg) (h1 : Bounces cfg m0 m1) (h2 : Bounces cfg m1 m2) :
    m1.sender = [] ∧ m2.sender = DBSENDER ∧ m2.rcpts = [cfg.doublebounceto] ∧ ∀ m3, ¬ Bounces cfg m2 m3 := by
  obtain ⟨d1, b1, h1⟩ := h1
  obtain ⟨d2, b2, h2⟩ := h2
  have e1 := C14_envelope cfg d1 b1 m0 m1 h1
  have hs1 : m1.sender = [] := by
    rcases e1 with ⟨_, hs, _⟩ | ⟨_, hs, _⟩
    · exact hs
    · -- a double bounce generates nothing, contradiction with h2
      have : bounceOf cfg d2 b2 m1 = none := (C14_discard cfg d2 b2 m1).mpr (by rw [hs]; decide)
      rw [this] at h2; cases h2
  have e2 := C14_envelope cfg d2 b2 m1 m2 h2
  have hv : verpBase m1.sender = [] := by rw [hs1]; decide
  rcases e2 with ⟨hne, _, _⟩ | ⟨_, hs2, hr2⟩
  · exact absurd hv hne
  · refine ⟨hs1, hs2, hr2, ?_⟩
    intro m3 ⟨d3, b3, h3⟩
    have : bounceOf cfg d3 b3 m2 = none := (C14_discard cfg d3 b3 m2).mpr (by rw [hs2]; decide)
    rw [this] at h3; cases h3

/-- **Bounce loops are impossible**: every chain message → notice → notice → … has at most three
members (the message, its bounce, the double bounce), for every configuration and every original
sender. -/
theorem C14_chain (cfg : Cfg) (l : List Msg) (h : isChain (Bounces cfg) l) : l.length ≤ 3 := by
  match l, h with
  | [], _ => simp
  | [_], _ => simp
  | [_, _], _ => simp
  | [_, _, _], _ => simp
  | m0 :: m1 :: m2 :: m3 :: t, h =>
    simp only [isChain] at h
    exact absurd h.2.2.1 ((C14_chain_step cfg m0 m1 m2 h.1 h.2.1).2.2.2 m3)

/-- **The notice contains the recorded failures and ends with the original message.** -/
theorem C14_original_appended (cfg : Cfg) (date bf : Bytes) (m m' : Msg) (h : bounceOf cfg date bf m = some m') :
    m.body <:+ m'.body ∧ bf <:+: m'.body := by
  have hsuf : ∀ (single : Bool) (base x : Bytes), m.body <:+ x ++ trailer single base m.body := by
    intro single base x
    refine ⟨x ++ ((if single then markerSingle else markerDouble) ++ str "Return-Path: <" ++ Quote.quote2 base ++ str ">\n"), ?_⟩
    simp [trailer, List.append_assoc]
  unfold bounceOf at h
  cases hd : decideBounce m.sender with
  | discard => simp [hd] at h
  | double =>
    simp only [hd, Option.some.injEq] at h
    rw [← h]
    exact ⟨hsuf _ _ _, ⟨_, _, rfl⟩⟩
  | single r =>
    simp only [hd, Option.some.injEq] at h
    rw [← h]
    exact ⟨hsuf _ _ _, ⟨_, _, rfl⟩⟩

/-- **In the notice each failed recipient occupies exactly one paragraph.**  The text is
`pre ++ bounce file ++ post` (`pre` = header and introduction, `post` = the "Below this line" marker,
Return-Path and the original message); read as paragraphs it is the paragraphs of `pre`, then one
paragraph per failed recipient — the i-th naming the i-th recipient — then the paragraphs of `post`:
neither report text nor recipient addresses nor the original message can change that count or
re-label one of those paragraphs. -/
theorem C14_notice_paragraphs (cfg : Cfg) (date : Bytes) (fails : List (Bytes × Bytes)) (m m' : Msg)
    (h : bounceOf cfg date (bounceFile cfg.tables fails) m = some m') :
    ∃ pre post ps, m'.body = pre ++ bounceFile cfg.tables fails ++ post
      ∧ paragraphs m'.body = paragraphs pre ++ ps ++ paragraphs post
      ∧ ps.length = fails.length
      ∧ NamedInOrder cfg.locals cfg.vdoms fails ps
      ∧ m.body <:+ post := by
  have key : ∀ (pre0 intro post : Bytes), (intro = introSingle ∨ intro = introDouble) →
      paragraphs ((pre0 ++ intro) ++ bounceFile cfg.tables fails ++ post)
        = paragraphs (pre0 ++ intro) ++ paragraphs (bounceFile cfg.tables fails) ++ paragraphs post := by
    intro pre0 intro post hi
    have hb : endSt .blank (pre0 ++ intro) = .blank := by
      rcases hi with hi | hi <;> subst hi
      · unfold introSingle; rw [← List.append_assoc]; exact endSt_LFLF _ _
      · unfold introDouble; rw [← List.append_assoc]; exact endSt_LFLF _ _
    rw [paragraphs_bounceFile]
    unfold paragraphs
    rw [List.append_assoc (pre0 ++ intro), paras_append_blank _ _ _ hb, paras_bounceFile, List.append_assoc]
  have hf := C14_paragraphs_file cfg.tables fails
  have hsuf : ∀ (single : Bool) (base : Bytes), m.body <:+ trailer single base m.body := by
    intro single base
    refine ⟨(if single then markerSingle else markerDouble) ++ str "Return-Path: <" ++ Quote.quote2 base ++ str ">\n", ?_⟩
    simp [trailer, List.append_assoc]
  unfold bounceOf at h
  cases hd : decideBounce m.sender with
  | discard => simp [hd] at h
  | double =>
    simp only [hd, Option.some.injEq] at h
    rw [← h]
    refine ⟨preamble cfg date cfg.doublebounceto false, trailer false [] m.body,
      paragraphs (bounceFile cfg.tables fails), rfl, ?_, hf.1, hf.2, hsuf _ _⟩
    unfold preamble
    simp only [Bool.false_eq_true, if_false]
    exact key _ introDouble _ (Or.inr rfl)
  | single r =>
    simp only [hd, Option.some.injEq] at h
    rw [← h]
    refine ⟨preamble cfg date r true, trailer true r m.body,
      paragraphs (bounceFile cfg.tables fails), rfl, ?_, hf.1, hf.2, hsuf _ _⟩
    unfold preamble
    simp only [if_true]
    exact key _ introSingle _ (Or.inl rfl)

/-! ### Once: `injectbounce` queues first and removes `bounce/<id>` afterwards -/

/-- **After a successful call nothing more is ever sent for this message**: the bounce file is gone,
so any later call (whatever faults it meets) queues nothing. -/
theorem C14_once (cfg : Cfg) (date date' : Bytes) (id qp qp' : Nat) (f f' : Fault)
    (sender : Bytes) (bounce : Option Bytes) (mess : Bytes)
    (h : (inject cfg date id qp f sender bounce mess).ret = true) :
    (inject cfg date id qp f sender bounce mess).bounce = none ∧
    (inject cfg date' id qp' f' sender (inject cfg date id qp f sender bounce mess).bounce mess).queued = none := by
  have hb : (inject cfg date id qp f sender bounce mess).bounce = none := by
    cases bounce with
    | none => cases f <;> simp [inject] at h ⊢
    | some bf =>
      cases hb : bounceOf cfg date bf { sender := sender, rcpts := [], body := mess } <;>
      cases f <;> simp [inject, hb] at h ⊢
  refine ⟨hb, ?_⟩
  rw [hb]
  cases f' <;> simp [inject]

/-- **The bounce file is removed only after the notice was queued** (or, for the failure of a double
bounce, deliberately discarded): if `bounce/<id>` is gone after the call, the call handed exactly the
notice `bounceOf …` to qmail-queue and qmail-queue accepted it (`none` only for sender `#@[]`). -/
theorem C14_unlink_after_queue (cfg : Cfg) (date : Bytes) (id qp : Nat) (f : Fault)
    (sender bf mess : Bytes)
    (h : (inject cfg date id qp f sender (some bf) mess).bounce = none) :
    (inject cfg date id qp f sender (some bf) mess).queued
        = bounceOf cfg date bf { sender := sender, rcpts := [], body := mess } := by
  cases hb : bounceOf cfg date bf { sender := sender, rcpts := [], body := mess } <;>
  cases f <;> simp [inject, hb] at h ⊢

/-- **A call that fails loses nothing**: the bounce file is unchanged, so the retry (qmail-send
re-schedules the message SLEEP_SYSFAIL seconds later) starts from the same state. -/
theorem C14_retry (cfg : Cfg) (date : Bytes) (id qp : Nat) (f : Fault)
    (sender : Bytes) (bounce : Option Bytes) (mess : Bytes)
    (h : (inject cfg date id qp f sender bounce mess).ret = false) :
    (inject cfg date id qp f sender bounce mess).bounce = bounce := by
  cases bounce with
  | none => cases f <;> simp [inject] at h ⊢
  | some bf =>
    cases hb : bounceOf cfg date bf { sender := sender, rcpts := [], body := mess } <;>
    cases f <;> simp [inject, hb] at h ⊢

/-- The only failing call that has already queued the notice is the one whose `unlink` failed
(the notice will then be sent again by the retry: at-least-once, the documented trade-off). -/
theorem C14_duplicate_only_on_unlink_failure (cfg : Cfg) (date : Bytes) (id qp : Nat) (f : Fault)
    (sender : Bytes) (bounce : Option Bytes) (mess : Bytes)
    (h : (inject cfg date id qp f sender bounce mess).ret = false)
    (hq : (inject cfg date id qp f sender bounce mess).queued ≠ none) : f = .unlink := by
  cases bounce with
  | none => cases f <;> simp [inject] at h hq ⊢
  | some bf =>
    cases hb : bounceOf cfg date bf { sender := sender, rcpts := [], body := mess } <;>
    cases f <;> simp [inject, hb] at h hq ⊢

/-- Without faults a recorded failure always produces its notice (or the documented discard). -/
theorem C14_every_failure_bounces (cfg : Cfg) (date : Bytes) (id qp : Nat) (sender bf mess : Bytes) :
    (inject cfg date id qp .none sender (some bf) mess).ret = true ∧
    (inject cfg date id qp .none sender (some bf) mess).queued
        = bounceOf cfg date bf { sender := sender, rcpts := [], body := mess } := by
  cases hb : bounceOf cfg date bf { sender := sender, rcpts := [], body := mess } <;> simp [inject, hb]

/-! ### Which reports become bounce paragraphs (del_dochan) -/

/-- a permanent failure report (status `D`) is recorded with its text, cut so that delivery number,
status and text together do not exceed REPORTMAX bytes ("we don't trust rspawn") -/
theorem C14_report_D (dying : Bool) (n : Byte) (text : Bytes) :
    delReport dying (n :: 68 :: text) = some (text.take (Gen.REPORTMAX - 2)) := by
  obtain ⟨k, hk⟩ : ∃ k, Gen.REPORTMAX = k + 2 := ⟨Gen.REPORTMAX - 2, by decide⟩
  unfold delReport
  rw [hk]
  simp [List.take]

/-- **A temporary failure past the queue lifetime is a permanent one**: status `Z` on a dying
message is recorded, with the explanation appended (the text is cut one byte earlier) … -/
theorem C14_report_expired (n : Byte) (text : Bytes) :
    delReport true (n :: 90 :: text) = some (text.take (Gen.REPORTMAX - 3) ++ dyingText) := by
  obtain ⟨k, hk⟩ : ∃ k, Gen.REPORTMAX = k + 3 := ⟨Gen.REPORTMAX - 3, by decide⟩
  unfold delReport
  rw [hk]
  simp [List.take]

/-- … while before expiry (`Z`), on success (`K`) or on a mangled report nothing is recorded. -/
theorem C14_report_none (n st : Byte) (text : Bytes) (h : st ≠ 68) (h' : st ≠ 90) (dying : Bool) :
    delReport dying (n :: st :: text) = none ∧ delReport false (n :: 90 :: text) = none := by
  obtain ⟨k, hk⟩ : ∃ k, Gen.REPORTMAX = k + 2 := ⟨Gen.REPORTMAX - 2, by decide⟩
  unfold delReport
  rw [hk]
  simp [List.take, h, h']

/-! ### Non-vacuity: concrete inputs (bytes written out) -/

/-- report "\n\n<v>:\nx" against recipient "a@b": the forged paragraph stays inside the one paragraph -/
example : addbounceText ⟨[], []⟩ [97, 64, 98] [10, 10, 60, 118, 62, 58, 10, 120]
    = [60, 97, 64, 98, 62, 58, 10, 47, 47, 60, 118, 62, 58, 10, 120, 10, 10] := by decide
example : paragraphs (addbounceText ⟨[], []⟩ [97, 64, 98] [10, 10, 60, 118, 62, 58, 10, 120])
    = [[60, 97, 64, 98, 62, 58, 10, 47, 47, 60, 118, 62, 58, 10, 120, 10]] := by decide
/-- a report ending in an empty line leaves two empty lines, still one paragraph -/
example : addbounceText ⟨[], []⟩ [97, 64, 98] [120, 10, 10] = [60, 97, 64, 98, 62, 58, 10, 120, 10, 10, 10] := by decide
/-- recipient "p-a\n@b" with entry "b:p": prefix removed, LF shown as '_' -/
example : addbounceText ⟨[], [([98], [112])]⟩ [112, 45, 97, 10, 64, 98] [] = [60, 97, 95, 64, 98, 62, 58, 10, 10] := by decide
/-- wildcard ".b:q" governs "x.b", exception "a.b:" keeps "q-u@a.b" as it is -/
example : stripvdom ⟨[], [([46, 98], [113]), ([97, 46, 98], [])]⟩ [113, 45, 117, 64, 120, 46, 98] = [117, 64, 120, 46, 98] := by decide
example : stripvdom ⟨[], [([46, 98], [113]), ([97, 46, 98], [])]⟩ [113, 45, 117, 64, 97, 46, 98] = [113, 45, 117, 64, 97, 46, 98] := by decide
/-- virtual *user* entry "u@b:p": the local recipient "p-u@b" is named "u@b" (F1, repaired) -/
example : stripvdom ⟨[], [([117, 64, 98], [112])]⟩ [112, 45, 117, 64, 98] = [117, 64, 98] := by decide
/-- "b" in locals and "b:p" in virtualdomains: the local recipient "p-u@b" keeps its name (F2, repaired) -/
example : stripvdom ⟨[[98]], [([98], [112])]⟩ [112, 45, 117, 64, 98] = [112, 45, 117, 64, 98] := by decide
example : stripvdom ⟨[], [([98], [112])]⟩ [112, 45, 117, 64, 98] = [117, 64, 98] := by decide
/-- sender forms: "x-@h-@[]" -> single bounce to "x-@h"; "" -> double; "#@[]" -> discard; "-@[]" -> double -/
example : decideBounce [120, 45, 64, 104, 45, 64, 91, 93] = .single [120, 45, 64, 104] := by decide
example : decideBounce [] = .double := by decide
example : decideBounce [35, 64, 91, 93] = .discard := by decide
example : decideBounce [45, 64, 91, 93] = .double := by decide

end Nq.Props.C14
