/-
  C14 — Bounces go back once, to the sender, and can neither loop nor be forged.

  Model: `Nq.Bounce` (qmail-send.c `stripvdomprepend`, `addbounce`, `del_dochan`'s report handling,
  `getcontrols`, `injectbounce`), tied to the source by the differential harness
  `harness/c14_bounce.c`.  The reader's side (`paras`, `governing`, `namedRecipient`, `recipLine`,
  `sanit`) is `Nq.BounceSpec`; compiled, it is the oracle of `./check C14`.
  Only property theorems live here.  "Once" is proved twice: for `injectbounce` itself (`C14_once` …)
  and, in the last section (`C14_daemon_*`), at DAEMON level — for every event sequence accepted by
  the monitor `Nq.Daemon` of C03/C04 (any interleaving of messages, reports, failing calls, crashes
  and restarts), with the history layer `Nq.BounceDaemon` and the bridge to `inject`/`bounceOf`.
-/
import Nq.Lemmas.Bounce
import Nq.Lemmas.BounceRewrite
import Nq.Lemmas.BounceDaemon
import Nq.Lemmas.BounceQq

namespace Nq.Props.C14
open Nq Nq.Bounce Nq.BounceSpec Nq.Lemmas.Bounce

/-! ### One failed recipient = exactly one paragraph; report text cannot forge another

`addbounceText es fl recip report` is what `addbounce(id,recip,report,flagstrip)` appends; `fl` is
`flagstrip` (`del_dochan` passes `c == 0`: the delivery was on the local channel).  The address that must
be named is `namedRecipient fl …`: the stored recipient itself on the remote channel, the stored
recipient with `rewrite()`'s prefix undone on the local channel. -/

/-- **One `addbounce` call, one paragraph** — for every recipient, every report (any bytes: empty
lines, `<x>:` look-alikes, 8-bit), every virtualdomains/locals table and both channels, whatever follows
in the file: the reader sees exactly one paragraph `core`, then continues between paragraphs.  `core`
begins with the line naming the recipient and is everything that was written except the final empty
line(s). -/
theorem C14_paragraph (es : Tables) (fl : Bool) (recip report rest : Bytes) :
    ∃ core, paras .blank (addbounceText es fl recip report ++ rest) = core :: paras .blank rest
      ∧ recipLine (namedRecipient fl es.locals es.vdoms recip) <+: core
      ∧ (addbounceText es fl recip report = core ++ [LF] ∨ addbounceText es fl recip report = core ++ [LF, LF]) := by
  refine ⟨paraCore (nameOf es fl recip) report, paras_addbounceText _ report rest, ?_, paraCore_prefix _ report⟩
  rw [← nameOf_eq_named]
  exact recipLine_prefix_paraCore _ report

/-- …in particular the text written for one failure is one paragraph. -/
theorem C14_paragraph_one (es : Tables) (fl : Bool) (recip report : Bytes) :
    (paragraphs (addbounceText es fl recip report)).length = 1 := by
  have := paras_addbounceText (nameOf es fl recip) report []
  simp only [List.append_nil] at this
  simp [paragraphs, addbounceText, this, paras]

/-- (Corollary about the SPEC's own `recipLine`, not about the code: it says what the predicate used
in `C14_paragraph` means.)  The recipient line is a single line: `<`, the address with every LF shown
as `_`, `>:` LF. -/
theorem C14_recipient_line (addr : Bytes) :
    ∃ r, recipLine addr = 60 :: (r ++ [62, 58, LF]) ∧ LF ∉ r ∧ r.length = addr.length := by
  refine ⟨addr.map (fun c => if c = LF then 95 else c), rfl, ?_, by simp⟩
  intro h
  rw [List.mem_map] at h
  obtain ⟨a, _, ha⟩ := h
  by_cases hc : a = LF
  · simp [hc, LF] at ha
  · simp [hc] at ha

/-- **The bounce file has exactly one paragraph per failed recipient, in order, the i-th naming the
i-th recipient** — for every list of failures (each with its channel flag), in any combination and
order, with arbitrary report bytes.  Report text cannot add, remove or re-label a paragraph. -/
theorem C14_paragraphs_file (es : Tables) (fails : List Fail) :
    (paragraphs (bounceFile es fails)).length = fails.length ∧
    NamedInOrder es.locals es.vdoms fails (paragraphs (bounceFile es fails)) := by
  rw [paragraphs_bounceFile]
  exact ⟨by simp, namedInOrder_cores es fails⟩

/-- **The failure text follows the recipient line**: the same bytes, except that an LF which
directly follows an LF (or opens the report) is shown as '/', one final LF is implied, and an empty
line ends the paragraph. -/
theorem C14_report_shown (es : Tables) (fl : Bool) (recip report : Bytes) :
    ∃ b tail, addbounceText es fl recip report = recipLine (namedRecipient fl es.locals es.vdoms recip) ++ b ++ tail
      ∧ sanit (chomp1 report) b = true ∧ (tail = [LF] ∨ tail = [LF, LF]) := by
  refine ⟨squashAll true (chomp1 report), if report = [] then [LF] else [LF, LF], ?_, sanit_squashAll _ _, ?_⟩
  · rw [← nameOf_eq_named]; exact addbounceText_shape _ report
  · split <;> simp

/-- A report without empty lines that does not begin with LF is shown verbatim. -/
theorem C14_report_verbatim (es : Tables) (fl : Bool) (recip report : Bytes)
    (h1 : hasLFLF report = false) (h2 : report.head? ≠ some LF) (h3 : report ≠ []) :
    addbounceText es fl recip report = recipLine (namedRecipient fl es.locals es.vdoms recip) ++ chomp1 report ++ [LF, LF] := by
  rw [← nameOf_eq_named]
  unfold addbounceText
  rw [addbounceText_shape]
  have hc1 : hasLFLF (chomp1 report) = false := by
    unfold chomp1
    split
    · rename_i hl
      have hsp := getLast_split report hl
      have : ∀ (a b : Bytes), hasLFLF (a ++ b) = false → hasLFLF a = false := by
        intro a
        induction a with
        | nil => intro b _; simp [hasLFLF]
        | cons c t ih =>
          intro b h
          cases t with
          | nil => simp [hasLFLF]
          | cons d u =>
            simp only [List.cons_append, hasLFLF, Bool.or_eq_false_iff] at h ⊢
            exact ⟨h.1, ih b h.2⟩
      exact this _ [LF] (by rw [← hsp]; exact h1)
    · exact h1
  have hc2 : (chomp1 report).head? ≠ some LF := by
    unfold chomp1
    split
    · cases report with
      | nil => simp
      | cons c t =>
        cases t with
        | nil => simp
        | cons d u => simpa using h2
    · exact h2
  rw [squashAll_id _ true hc1 (fun _ => hc2)]
  simp [h3]

/-- **The model's scan is the C loop.**  `scanInPlace` is the literal transcription of
`for (pos = len - 2;pos > 0;--pos) if (s[pos] == '\n') if (s[pos - 1] == '\n') s[pos] = '/';`
(in-place writes, descending positions); the forward pass used by `addbounceText` computes the same
text for every input. -/
theorem C14_scan_literal (s : Bytes) : scanInPlace s = scanFrom false s := scanInPlace_eq s

/-! ### The named address: per channel, against the documented rule and against `rewrite()`

`nameOf es fl recip` = `flagstrip ? stripvdomprepend(recip) : recip` is what `addbounce` names (repair
2f09320 of finding C14-strip-exception: before it, `stripvdomprepend` was applied on both channels);
`stripvdom` transcribes `stripvdomprepend()`.  The rule is `BounceSpec.namedRecipient fl`.

Which of the following are real statements about the code and which are corollaries: `C14_strip`,
`C14_names` compare the transcribed code with the independently written rule; `C14_undo_*`,
`C14_bounce_names_routed_address`, `C14_bounce_paragraph_routed` compare it with C10's model of
`rewrite()`; `C14_strip_local/_user/_removed/_kept`, `C14_remote_as_is` merely unfold `namedRecipient`
case by case (kept as readable corollaries); `C14_strip_user_rewrite`/`C14_strip_rewrite` are the round
trip against the spec's own description of the rule (`entryFor`/`governing`), superseded by
`C14_undo_prefixed`. -/

/-- **`stripvdomprepend` implements the documented precedence for local-channel recipients** (the
order of `rewrite()`): a recipient at a domain listed in `locals` is named as it is; otherwise a
virtual-*user* prefix is removed (first cut `prepend-rest` such that `rest` has an entry with exactly
that non-empty prepend); otherwise the entry that governs the recipient's domain (the domain itself,
else the longest `.suffix` wildcard, else the catch-all; last entry wins, keys case-insensitive)
decides, and its `prepend-` is removed exactly when the recipient starts with it. -/
theorem C14_strip (t : Tables) (recip : Bytes) :
    stripvdom t recip = namedRecipient true t.locals t.vdoms recip := stripvdom_eq_named t recip

/-- **What `addbounce` names is the channel-aware rule**, for every table, recipient and channel flag. -/
theorem C14_names (t : Tables) (fl : Bool) (recip : Bytes) :
    nameOf t fl recip = namedRecipient fl t.locals t.vdoms recip := nameOf_eq_named t fl recip

/-- (corollary) a remote-channel recipient is named exactly as it is stored, whatever virtualdomains
says — the repair of finding C14-strip-exception. -/
theorem C14_remote_as_is (t : Tables) (recip : Bytes) :
    nameOf t false recip = recip ∧ namedRecipient false t.locals t.vdoms recip = recip := by
  simp [nameOf, namedRecipient]

/-- (corollary, rule 1 — repaired defect F2) a local-channel recipient whose domain is listed in
control/locals was never given a prefix by `rewrite()`; the bounce names it as it was addressed,
whatever virtualdomains says. -/
theorem C14_strip_local (t : Tables) (recip d : Bytes)
    (hd : domainPart recip = some d) (hl : isLocal t.locals d = true) : stripvdom t recip = recip := by
  rw [stripvdom_eq_named]
  simp [namedRecipient, hd, hl]

/-- (corollary, rule 2 — repaired defect F1) outside `locals`, if the recipient can be cut as
`prepend-rest` where `rest` has a virtualdomains entry with exactly this non-empty prepend, the bounce
names `rest` (the first such cut).  This is also the complement of the unambiguity hypothesis of
`C14_undo_prefixed`: whenever a cut exists, its `rest` is what is named. -/
theorem C14_strip_user (t : Tables) (recip d rest : Bytes)
    (hd : domainPart recip = some d) (hl : isLocal t.locals d = false)
    (hu : userSplit t.vdoms recip = some rest) : stripvdom t recip = rest := by
  rw [stripvdom_eq_named]
  simp [namedRecipient, prefixUndone, hd, hl, hu]

/-- (round trip against the spec's description of the rule; against `rewrite()` itself:
`C14_undo_prefixed_user`) if `addr` (not at a local domain) has the entry `addr:p` with `p` non-empty
and dash-free, the local recipient `p-addr` is named `addr`. -/
theorem C14_strip_user_rewrite (t : Tables) (addr d p : Bytes)
    (hd : domainPart addr = some d) (hl : isLocal t.locals d = false)
    (he : entryFor t.vdoms addr = some p) (hp : p ≠ []) (hdash : (45 : Byte) ∉ p) :
    stripvdom t (p ++ 45 :: addr) = addr := by
  have hd' : domainPart (p ++ 45 :: addr) = some d := by
    rw [← domainOf_eq_domainPart] at hd ⊢
    have := domainOf_append (p ++ [45]) addr d hd
    simpa using this
  refine C14_strip_user t _ d addr hd' hl ?_
  rw [← userStripGo_eq_userSplit, userStripGo_skip _ _ _ _ hdash]
  have hpe : p.isEmpty = false := by simpa using hp
  rw [entryFor_eq_cmLookup] at he
  simp [userStripGo, DASH, he, hpe]

/-- (corollary, rule 3) outside `locals` and with no virtual-user cut, the prefix is removed when the
governing entry's non-empty `prepend` and a dash start the recipient -/
theorem C14_strip_removed (t : Tables) (recip d p : Bytes)
    (hd : domainPart recip = some d) (hl : isLocal t.locals d = false) (hu : userSplit t.vdoms recip = none)
    (hg : governing t.vdoms d = some p) (hp : p ≠ [])
    (hpre : (p ++ [45]) <+: recip) : p ++ 45 :: stripvdom t recip = recip := by
  rw [stripvdom_eq_named]
  unfold namedRecipient prefixUndone
  obtain ⟨r, ht⟩ := hpre
  have hpb : (p ++ [45]).isPrefixOf recip = true := by
    rw [List.isPrefixOf_iff_prefix]; exact ⟨r, ht⟩
  have hpe : p.isEmpty = false := by simpa using hp
  simp only [hd, hl, hu, hg, hpe, hpb, Bool.not_false, Bool.not_true, Bool.and_self, if_true, Bool.false_eq_true, if_false]
  rw [← ht]
  simp

/-- (corollary, rule 3) …and in every other case (no virtual-user cut, and no governing entry, an
exception entry for the domain, or the recipient does not start with `prepend-`) the recipient is
named as it is -/
theorem C14_strip_kept (t : Tables) (recip : Bytes) (hu : userSplit t.vdoms recip = none)
    (h : ∀ d p, domainPart recip = some d → governing t.vdoms d = some p → p = [] ∨ ¬ (p ++ [45]) <+: recip) :
    stripvdom t recip = recip := by
  rw [stripvdom_eq_named]
  unfold namedRecipient prefixUndone
  simp only [Bool.not_true, Bool.false_eq_true, if_false]
  cases hd : domainPart recip with
  | none => rfl
  | some d =>
    simp only [hu]
    split
    · rfl
    · cases hg : governing t.vdoms d with
      | none => rfl
      | some p =>
        rcases h d p hd hg with hp | hp
        · simp [hp]
        · have : (p ++ [45]).isPrefixOf recip = false := by
            cases hb : (p ++ [45]).isPrefixOf recip with
            | false => rfl
            | true => exact absurd (List.isPrefixOf_iff_prefix.mp hb) hp
          simp only [this, Bool.and_false, Bool.false_eq_true, if_false]

/-- (round trip against the spec's description; against `rewrite()` itself: `C14_undo_prefixed`) if
`p` is the (non-empty) prepend of the entry governing `addr`'s domain, the domain is not local and no
virtual-user cut applies, the local recipient `p-addr` is named `addr` in the bounce. -/
theorem C14_strip_rewrite (t : Tables) (addr d p : Bytes)
    (hd : domainPart addr = some d) (hl : isLocal t.locals d = false)
    (hu : userSplit t.vdoms (p ++ 45 :: addr) = none)
    (hg : governing t.vdoms d = some p) (hp : p ≠ []) :
    stripvdom t (p ++ 45 :: addr) = addr := by
  have hd' : domainPart (p ++ 45 :: addr) = some d := by
    rw [← domainOf_eq_domainPart] at hd ⊢
    have := domainOf_append (p ++ [45]) addr d hd
    simpa using this
  have := C14_strip_removed t (p ++ 45 :: addr) d p hd' hl hu hg hp ⟨addr, by simp⟩
  have h2 : p ++ 45 :: stripvdom t (p ++ 45 :: addr) = p ++ 45 :: addr := this
  have h3 := List.append_cancel_left h2
  simpa using h3

/-! #### …against C10's model of `rewrite()` (`Nq.Rewrite.rewrite`, same control files: `tablesOf`)

`rewrite c r = ⟨channel, tag, addr⟩`: `addr` = the recipient after `rewrite()`'s own normalisation
(`@envnoathost` appended if it has no '@', percent hack applied: `C14_routed_address`), `tag` = the
prepend (empty = none); the channel file of `channel` gets `recipOf = addr` or `tag-addr`.  The bounce
must name `addr`: the address the sender used, as qmail-send understood it. -/

open Nq.Lemmas.BounceRewrite in
/-- **What exactly is named**: `(rewrite c r).addr` is C10's normalised recipient — `r` itself when it
has an '@' and its domain is not listed in percenthack, `r@envnoathost` when it has no '@' (and
envnoathost is not listed in percenthack), in general `pctFix` of the two. -/
theorem C14_routed_address (c : Rewrite.Cfg) (r : Bytes) :
    (Rewrite.rewrite c r).addr = (match Route.splitLast AT r with
      | some p => Route.pctFix c.ph (p.1.length + 1) p.1 p.2
      | none => Route.pctFix c.ph (r.length + 1) r c.env) ∧
    (∀ l d, Route.splitLast AT r = some (l, d) → Route.listed c.ph d = false → (Rewrite.rewrite c r).addr = r) ∧
    (Route.splitLast AT r = none → Route.listed c.ph c.env = false → (Rewrite.rewrite c r).addr = r ++ AT :: c.env) :=
  ⟨rewrite_addr_spec c r, fun l d h hp => rewrite_addr_plain c r l d h hp, fun h hp => rewrite_addr_noat c r h hp⟩

open Nq.Lemmas.BounceRewrite in
/-- **remote channel, unconditionally**: a recipient `rewrite()` sent to the remote channel is stored
without a prefix and named exactly as stored = the routed address.  For every configuration and every
recipient bytes; no hypothesis. -/
theorem C14_undo_remote (c : Rewrite.Cfg) (r : Bytes) (hc : (Rewrite.rewrite c r).chan = .rem) :
    recipOf (Rewrite.rewrite c r) = (Rewrite.rewrite c r).addr ∧
    nameOf (tablesOf c) false (recipOf (Rewrite.rewrite c r)) = (Rewrite.rewrite c r).addr := by
  have ht := remote_untagged c r hc
  simp [nameOf, recipOf, ht]

open Nq.Lemmas.BounceRewrite in
/-- **locals**: a recipient `rewrite()` kept because its domain is in `locals` is named as it is — no
hypothesis. -/
theorem C14_undo_local (c : Rewrite.Cfg) (r : Bytes)
    (hc : (Rewrite.rewrite c r).chan = .loc) (ht : (Rewrite.rewrite c r).tag = []) :
    stripvdom (tablesOf c) (Rewrite.rewrite c r).addr = (Rewrite.rewrite c r).addr :=
  strip_local c r hc ht

open Nq.Lemmas.BounceRewrite in
/-- **virtual domains and virtual users**: whatever `rewrite()` prepended — the prepend of the
address's own entry, of its domain's entry, of a wildcard or of the catch-all — is removed again:
`stripvdomprepend(tag-addr) = addr`, provided the only virtual-user reading of the prefixed string, if
there is one, is `addr` (otherwise: `C14_strip_user` says what is named, `C14_undo_ambiguous` shows the
hypothesis cannot be dropped). -/
theorem C14_undo_prefixed (c : Rewrite.Cfg) (r : Bytes)
    (ht : (Rewrite.rewrite c r).tag ≠ [])
    (hu : ∀ rest, userSplit (tablesOf c).vdoms
            ((Rewrite.rewrite c r).tag ++ 45 :: (Rewrite.rewrite c r).addr) = some rest →
            rest = (Rewrite.rewrite c r).addr) :
    stripvdom (tablesOf c) ((Rewrite.rewrite c r).tag ++ 45 :: (Rewrite.rewrite c r).addr)
      = (Rewrite.rewrite c r).addr :=
  strip_prefixed c r ht hu

open Nq.Lemmas.BounceRewrite in
/-- …the unambiguity hypothesis holds in the usual virtual-user case: the prepend comes from the
address's own entry and contains no dash. -/
theorem C14_undo_prefixed_user (c : Rewrite.Cfg) (r : Bytes)
    (ht : (Rewrite.rewrite c r).tag ≠ [])
    (he : Rewrite.mapLookup c.vdoms (Rewrite.rewrite c r).addr = some (Rewrite.rewrite c r).tag)
    (hdash : (45 : Byte) ∉ (Rewrite.rewrite c r).tag) :
    stripvdom (tablesOf c) ((Rewrite.rewrite c r).tag ++ 45 :: (Rewrite.rewrite c r).addr)
      = (Rewrite.rewrite c r).addr :=
  strip_prefixed c r ht
    (unambiguous_of_dashfree _ _ _ (by rw [entryFor_tablesOf]; exact he) ht hdash)

open Nq.Lemmas.BounceRewrite in
/-- **End to end, the name**: for every configuration and every recipient `r`, if `rewrite()` routes
`r` to `(channel, stored)`, then `addbounce(id, stored, report, channel == local)` — which is how
`del_dochan` calls it — names the routed address.  Unconditional for the remote channel and for
`locals`; for a prefixed recipient under the non-ambiguity hypothesis `hu`. -/
theorem C14_bounce_names_routed_address (c : Rewrite.Cfg) (r : Bytes)
    (hu : (Rewrite.rewrite c r).tag ≠ [] →
          ∀ rest, userSplit (tablesOf c).vdoms (recipOf (Rewrite.rewrite c r)) = some rest →
            rest = (Rewrite.rewrite c r).addr) :
    nameOf (tablesOf c) ((Rewrite.rewrite c r).chan == .loc) (recipOf (Rewrite.rewrite c r))
      = (Rewrite.rewrite c r).addr :=
  nameOf_rewrite c r hu

open Nq.Lemmas.BounceRewrite in
/-- **End to end, the paragraph**: under the same hypothesis, the text `addbounce` appends for that
delivery, followed by anything, reads as exactly one paragraph, and that paragraph begins with
`<routed address>:` (LF shown as `_`) — whatever the report bytes. -/
theorem C14_bounce_paragraph_routed (c : Rewrite.Cfg) (r report rest : Bytes)
    (hu : (Rewrite.rewrite c r).tag ≠ [] →
          ∀ rest, userSplit (tablesOf c).vdoms (recipOf (Rewrite.rewrite c r)) = some rest →
            rest = (Rewrite.rewrite c r).addr) :
    ∃ core, paras .blank (addbounceText (tablesOf c) ((Rewrite.rewrite c r).chan == .loc)
                (recipOf (Rewrite.rewrite c r)) report ++ rest) = core :: paras .blank rest
      ∧ recipLine (Rewrite.rewrite c r).addr <+: core := by
  refine ⟨paraCore (nameOf (tablesOf c) ((Rewrite.rewrite c r).chan == .loc) (recipOf (Rewrite.rewrite c r))) report,
    paras_addbounceText _ report rest, ?_⟩
  have h := recipLine_prefix_paraCore (nameOf (tablesOf c) ((Rewrite.rewrite c r).chan == .loc) (recipOf (Rewrite.rewrite c r))) report
  have e := nameOf_rewrite c r hu
  rw [e] at h ⊢
  exact h

open Nq.Lemmas.BounceRewrite in
/-- **The non-ambiguity hypothesis cannot be dropped** (complement of `hu`): virtualdomains `b:p` and
`u@b:p-q`.  `rewrite()` maps BOTH `q-u@b` (domain entry) and `u@b` (virtual-user entry) to the local
recipient `p-q-u@b`; no function of (channel, stored string) can name both, `stripvdomprepend` names
`u@b`. -/
theorem C14_undo_ambiguous :
    let c : Rewrite.Cfg := { env := [], ph := [], locals := [], vdoms := [⟨[98], [112]⟩, ⟨[117, 64, 98], [112, 45, 113]⟩] }
    Rewrite.rewrite c [113, 45, 117, 64, 98] = ⟨.loc, [112], [113, 45, 117, 64, 98]⟩ ∧
    Rewrite.rewrite c [117, 64, 98] = ⟨.loc, [112, 45, 113], [117, 64, 98]⟩ ∧
    stripvdom (tablesOf c) [112, 45, 113, 45, 117, 64, 98] = [117, 64, 98] := by
  refine ⟨by decide, by decide, by decide⟩

open Nq.Lemmas.BounceRewrite in
/-- **Why the channel flag is needed** (finding C14-strip-exception, repaired by 2f09320; both
channel-blind candidates are kept as mutants of the check): virtualdomains `example.com:alice` and the
exception entry `alice-x@example.com:`.  `rewrite()` stores the SAME string `alice-x@example.com` for
`alice-x@example.com` (remote, unchanged) and for `x@example.com` (local, prefixed).  With the flag
both are named right; `stripvdomprepend` on both channels (the code before the repair) names the
remote one `x@example.com`. -/
theorem C14_channel_matters :
    let c : Rewrite.Cfg := { env := [], ph := [], locals := [], vdoms := [⟨[101, 120, 97, 109, 112, 108, 101, 46, 99, 111, 109], [97, 108, 105, 99, 101]⟩, ⟨[97, 108, 105, 99, 101, 45, 120, 64, 101, 120, 97, 109, 112, 108, 101, 46, 99, 111, 109], []⟩] }
    let ax : Bytes := [97, 108, 105, 99, 101, 45, 120, 64, 101, 120, 97, 109, 112, 108, 101, 46, 99, 111, 109]
    let x : Bytes := [120, 64, 101, 120, 97, 109, 112, 108, 101, 46, 99, 111, 109]
    Rewrite.rewrite c ax = ⟨.rem, [], ax⟩ ∧ Rewrite.rewrite c x = ⟨.loc, [97, 108, 105, 99, 101], x⟩ ∧
    nameOf (tablesOf c) false ax = ax ∧ nameOf (tablesOf c) true ax = x := by
  refine ⟨by decide, by decide, by decide, by decide⟩

/-! ### Where bounces go: sender forms, VERP base address, double bounce, discard -/

/-- a VERP sender `pre-@[]` is answered at `pre` (for `owner-@host-@[]`: at `owner-@host`) -/
theorem C14_verp_base (pre : Bytes) : verpBase (pre ++ VERPSUF) = pre := by
  unfold verpBase
  have : VERPSUF.isSuffixOf (pre ++ VERPSUF) = true := by
    rw [List.isSuffixOf_iff_suffix]; exact ⟨pre, rfl⟩
  simp [this, VERPSUF]

/-- any other sender is used as it is -/
theorem C14_verp_other (s : Bytes) (h : ¬ VERPSUF <:+ s) : verpBase s = s := by
  unfold verpBase
  have : VERPSUF.isSuffixOf s = false := by
    cases hb : VERPSUF.isSuffixOf s with
    | false => rfl
    | true => exact absurd (List.isSuffixOf_iff_suffix.mp hb) h
  simp [this]

/-- **Envelope of every generated notice.**  A bounce has the empty envelope sender and goes to the
original sender's base address; if the original sender was empty (the failing message was itself a
bounce) the notice is a double bounce from `#@[]` to `doublebounceto@doublebouncehost`. -/
theorem C14_envelope (cfg : Cfg) (date bf : Bytes) (m m' : Msg) (h : bounceOf cfg date bf m = some m') :
    (verpBase m.sender ≠ [] ∧ m'.sender = [] ∧ m'.rcpts = [verpBase m.sender]) ∨
    (verpBase m.sender = [] ∧ m'.sender = DBSENDER ∧ m'.rcpts = [cfg.doublebounceto]) := by
  unfold bounceOf decideBounce at h
  by_cases h1 : verpBase m.sender = DBSENDER
  · simp [h1] at h
  · cases h2 : (verpBase m.sender).isEmpty with
    | true =>
      simp [h1, h2] at h
      right
      rw [← h]
      exact ⟨by simpa using h2, rfl, rfl⟩
    | false =>
      simp [h1, h2] at h
      left
      rw [← h]
      exact ⟨by simpa using h2, rfl, rfl⟩

/-- **The double-bounce address is `doublebounceto@doublebouncehost`, read from the control-file bytes
as documented** (`specDoubleBounceTo`, written from qmail-send(8)/qmail-control(5) independently of the
model and used, compiled, as the oracle's expectation): what `getcontrols()` assembles is exactly that,
for every content of the three files. -/
theorem C14_doublebounce_address (c : Controls) :
    (getcontrols c).doublebounceto = specDoubleBounceTo c.doublebounceto c.doublebouncehost c.me := by
  unfold getcontrols specDoubleBounceTo rldef
  cases c.doublebounceto <;> cases c.doublebouncehost <;> cases c.me <;> simp [readline_eq_spec]

/-- …spelled out case by case: a file that exists contributes its first line with trailing spaces
and tabs removed; a missing `doublebounceto` is `postmaster` (control/me is not a fallback for it); a
missing `doublebouncehost` is control/me's first line, and the literal `doublebouncehost` when there is
no control/me either.  `bouncehost` and `bouncefrom` play no part. -/
theorem C14_doublebounce_cases (c : Controls) :
    ∃ to host, (getcontrols c).doublebounceto = to ++ [AT] ++ host ∧
      (∀ f, c.doublebounceto = some f → to = specFirstLine f) ∧
      (c.doublebounceto = none → to = str "postmaster") ∧
      (∀ f, c.doublebouncehost = some f → host = specFirstLine f) ∧
      (∀ m, c.doublebouncehost = none → c.me = some m → host = specFirstLine m) ∧
      (c.doublebouncehost = none → c.me = none → host = str "doublebouncehost") := by
  rw [C14_doublebounce_address]
  refine ⟨_, _, rfl, ?_, ?_, ?_, ?_, ?_⟩
  · intro f h; rw [h]
  · intro h; rw [h]
  · intro f h; rw [h]
  · intro m h1 h2; rw [h1, h2]
  · intro h1 h2; rw [h1, h2]

/-- "first line, trailing blanks removed" on bytes: a file `core ws LF rest` (or `core ws` without a
final LF), where `core` has no LF and does not end in a blank and `ws` consists of spaces and tabs,
reads as `core`. -/
theorem C14_control_first_line (core ws rest : Bytes) (hcore : LF ∉ core)
    (hws : ∀ c ∈ ws, c = SP ∨ c = TAB) (hlast : ∀ c, core.getLast? = some c → c ≠ SP ∧ c ≠ TAB) :
    specFirstLine (core ++ ws ++ LF :: rest) = core ∧ specFirstLine (core ++ ws) = core := by
  have hwsl : LF ∉ ws := by
    intro h; rcases hws _ h with e | e <;> simp [LF, SP, TAB] at e
  have htw : ∀ tail : Bytes, (tail = [] ∨ tail.head? = some LF) →
      (core ++ ws ++ tail).takeWhile (· != LF) = core ++ ws := by
    intro tail ht
    have hall : ∀ c ∈ core ++ ws, (c != LF) = true := by
      intro c hc
      rw [List.mem_append] at hc
      have : c ≠ LF := by
        rcases hc with hc | hc
        · exact fun e => hcore (e ▸ hc)
        · exact fun e => hwsl (e ▸ hc)
      simpa using this
    rw [List.takeWhile_append_of_pos hall]
    rcases ht with rfl | ht
    · simp
    · cases tail with
      | nil => simp
      | cons x t =>
        simp at ht; subst ht
        simp
  have hstrip : rstripBlank (core ++ ws) = core := by
    unfold rstripBlank
    rw [List.reverse_append]
    have hallw : ∀ c ∈ ws.reverse, (c == SP || c == TAB) = true := by
      intro c hc
      rcases hws c (by simpa using hc) with e | e <;> simp [e]
    rw [List.dropWhile_append_of_pos hallw]
    cases hr : core.reverse with
    | nil =>
      have : core = [] := by simpa using hr
      simp [this]
    | cons x t =>
      have hx : core.getLast? = some x := by
        rw [List.getLast?_eq_head?_reverse, hr]; rfl
      obtain ⟨h1, h2⟩ := hlast x hx
      have : (x == SP || x == TAB) = false := by simp [h1, h2]
      rw [List.dropWhile_cons, this]
      simp only [Bool.false_eq_true, if_false]
      rw [← hr, List.reverse_reverse]
  constructor
  · unfold specFirstLine
    rw [htw (LF :: rest) (Or.inr rfl), hstrip]
  · unfold specFirstLine
    have := htw [] (Or.inl rfl)
    simp only [List.append_nil] at this
    rw [this, hstrip]

/-- **A failing double bounce is discarded**: nothing is generated exactly for the sender `#@[]`
(after VERP-suffix removal). -/
theorem C14_discard (cfg : Cfg) (date bf : Bytes) (m : Msg) :
    bounceOf cfg date bf m = none ↔ verpBase m.sender = DBSENDER := by
  unfold bounceOf decideBounce
  by_cases h1 : verpBase m.sender = DBSENDER
  · simp [h1]
  · by_cases h2 : (verpBase m.sender).isEmpty = true <;> simp [h1, h2]

/-- `m'` is the notice generated when `m` fails (for some date and some recorded failures) -/
def Bounces (cfg : Cfg) (m m' : Msg) : Prop := ∃ date bf, bounceOf cfg date bf m = some m'

def isChain (R : Msg → Msg → Prop) : List Msg → Prop
  | [] => True
  | [_] => True
  | a :: b :: t => R a b ∧ isChain R (b :: t)

/-- the notice for a bounce is a double bounce, and the notice for a double bounce does not exist -/
theorem C14_chain_step (cfg : Cfg) (m0 m1 m2 : Msg) (h1 : Bounces cfg m0 m1) (h2 : Bounces cfg m1 m2) :
    m1.sender = [] ∧ m2.sender = DBSENDER ∧ m2.rcpts = [cfg.doublebounceto] ∧ ∀ m3, ¬ Bounces cfg m2 m3 := by
  obtain ⟨d1, b1, h1⟩ := h1
  obtain ⟨d2, b2, h2⟩ := h2
  have e1 := C14_envelope cfg d1 b1 m0 m1 h1
  have hs1 : m1.sender = [] := by
    rcases e1 with ⟨_, hs, _⟩ | ⟨_, hs, _⟩
    · exact hs
    · -- a double bounce generates nothing, contradiction with h2
      have : bounceOf cfg d2 b2 m1 = none := (C14_discard cfg d2 b2 m1).mpr (by rw [hs]; decide)
      rw [this] at h2; cases h2
  have e2 := C14_envelope cfg d2 b2 m1 m2 h2
  have hv : verpBase m1.sender = [] := by rw [hs1]; decide
  rcases e2 with ⟨hne, _, _⟩ | ⟨_, hs2, hr2⟩
  · exact absurd hv hne
  · refine ⟨hs1, hs2, hr2, ?_⟩
    intro m3 ⟨d3, b3, h3⟩
    have : bounceOf cfg d3 b3 m2 = none := (C14_discard cfg d3 b3 m2).mpr (by rw [hs2]; decide)
    rw [this] at h3; cases h3

/-- **Bounce loops are impossible**: every chain message → notice → notice → … has at most three
members (the message, its bounce, the double bounce), for every configuration and every original
sender. -/
theorem C14_chain (cfg : Cfg) (l : List Msg) (h : isChain (Bounces cfg) l) : l.length ≤ 3 := by
  match l, h with
  | [], _ => simp
  | [_], _ => simp
  | [_, _], _ => simp
  | [_, _, _], _ => simp
  | m0 :: m1 :: m2 :: m3 :: t, h =>
    simp only [isChain] at h
    exact absurd h.2.2.1 ((C14_chain_step cfg m0 m1 m2 h.1 h.2.1).2.2.2 m3)

/-- **The notice contains the recorded failures and ends with the original message.** -/
theorem C14_original_appended (cfg : Cfg) (date bf : Bytes) (m m' : Msg) (h : bounceOf cfg date bf m = some m') :
    m.body <:+ m'.body ∧ bf <:+: m'.body := by
  have hsuf : ∀ (single : Bool) (base x : Bytes), m.body <:+ x ++ trailer single base m.body := by
    intro single base x
    refine ⟨x ++ ((if single then markerSingle else markerDouble) ++ str "Return-Path: <" ++ Quote.quote2 base ++ str ">\n"), ?_⟩
    simp [trailer, List.append_assoc]
  unfold bounceOf at h
  cases hd : decideBounce m.sender with
  | discard => simp [hd] at h
  | double =>
    simp only [hd, Option.some.injEq] at h
    rw [← h]
    exact ⟨hsuf _ _ _, ⟨_, _, rfl⟩⟩
  | single r =>
    simp only [hd, Option.some.injEq] at h
    rw [← h]
    exact ⟨hsuf _ _ _, ⟨_, _, rfl⟩⟩

/-- **In the notice each failed recipient occupies exactly one paragraph.**  The text is
`pre ++ bounce file ++ post` (`pre` = header and introduction, `post` = the "Below this line" marker,
Return-Path and the original message); read as paragraphs it is the paragraphs of `pre`, then one
paragraph per failed recipient (exactly the paragraphs of the bounce file) — the i-th naming the i-th
recipient — then the paragraphs of `post`:
neither report text nor recipient addresses nor the original message can change that count or
re-label one of those paragraphs. -/
theorem C14_notice_paragraphs (cfg : Cfg) (date : Bytes) (fails : List Fail) (m m' : Msg)
    (h : bounceOf cfg date (bounceFile cfg.tables fails) m = some m') :
    ∃ pre post ps, m'.body = pre ++ bounceFile cfg.tables fails ++ post
      ∧ paragraphs m'.body = paragraphs pre ++ ps ++ paragraphs post
      ∧ ps = paragraphs (bounceFile cfg.tables fails)
      ∧ ps.length = fails.length
      ∧ NamedInOrder cfg.locals cfg.vdoms fails ps
      ∧ m.body <:+ post := by
  have key : ∀ (pre0 intro post : Bytes), (intro = introSingle ∨ intro = introDouble) →
      paragraphs ((pre0 ++ intro) ++ bounceFile cfg.tables fails ++ post)
        = paragraphs (pre0 ++ intro) ++ paragraphs (bounceFile cfg.tables fails) ++ paragraphs post := by
    intro pre0 intro post hi
    have hb : endSt .blank (pre0 ++ intro) = .blank := by
      rcases hi with hi | hi <;> subst hi
      · unfold introSingle; rw [← List.append_assoc]; exact endSt_LFLF _ _
      · unfold introDouble; rw [← List.append_assoc]; exact endSt_LFLF _ _
    rw [paragraphs_bounceFile]
    unfold paragraphs
    rw [List.append_assoc (pre0 ++ intro), paras_append_blank _ _ _ hb, paras_bounceFile, List.append_assoc]
  have hf := C14_paragraphs_file cfg.tables fails
  have hsuf : ∀ (single : Bool) (base : Bytes), m.body <:+ trailer single base m.body := by
    intro single base
    refine ⟨(if single then markerSingle else markerDouble) ++ str "Return-Path: <" ++ Quote.quote2 base ++ str ">\n", ?_⟩
    simp [trailer, List.append_assoc]
  unfold bounceOf at h
  cases hd : decideBounce m.sender with
  | discard => simp [hd] at h
  | double =>
    simp only [hd, Option.some.injEq] at h
    rw [← h]
    refine ⟨preamble cfg date cfg.doublebounceto false, trailer false [] m.body,
      paragraphs (bounceFile cfg.tables fails), rfl, ?_, rfl, hf.1, hf.2, hsuf _ _⟩
    unfold preamble
    simp only [Bool.false_eq_true, if_false]
    exact key _ introDouble _ (Or.inr rfl)
  | single r =>
    simp only [hd, Option.some.injEq] at h
    rw [← h]
    refine ⟨preamble cfg date r true, trailer true r m.body,
      paragraphs (bounceFile cfg.tables fails), rfl, ?_, rfl, hf.1, hf.2, hsuf _ _⟩
    unfold preamble
    simp only [if_true]
    exact key _ introSingle _ (Or.inl rfl)

/-! ### Once: `injectbounce` queues first and removes `bounce/<id>` afterwards -/

/-- **After a successful call nothing more is ever sent for this message**: the bounce file is gone,
so any later call (whatever faults it meets) queues nothing. -/
theorem C14_once (cfg : Cfg) (date date' : Bytes) (id qp qp' : Nat) (f f' : Fault)
    (sender : Bytes) (bounce : Option Bytes) (mess : Bytes)
    (h : (inject cfg date id qp f sender bounce mess).ret = true) :
    (inject cfg date id qp f sender bounce mess).bounce = none ∧
    (inject cfg date' id qp' f' sender (inject cfg date id qp f sender bounce mess).bounce mess).queued = none := by
  have hb : (inject cfg date id qp f sender bounce mess).bounce = none := by
    cases bounce with
    | none => cases f <;> simp [inject] at h ⊢
    | some bf =>
      cases hb : bounceOf cfg date bf { sender := sender, rcpts := [], body := mess } <;>
      cases f <;> simp [inject, hb] at h ⊢
  refine ⟨hb, ?_⟩
  rw [hb]
  cases f' <;> simp [inject]

/-- **The bounce file is removed only after the notice was queued** (or, for the failure of a double
bounce, deliberately discarded): if `bounce/<id>` is gone after the call, the call handed exactly the
notice `bounceOf …` to qmail-queue and qmail-queue accepted it (`none` only for sender `#@[]`). -/
theorem C14_unlink_after_queue (cfg : Cfg) (date : Bytes) (id qp : Nat) (f : Fault)
    (sender bf mess : Bytes)
    (h : (inject cfg date id qp f sender (some bf) mess).bounce = none) :
    (inject cfg date id qp f sender (some bf) mess).queued
        = bounceOf cfg date bf { sender := sender, rcpts := [], body := mess } := by
  cases hb : bounceOf cfg date bf { sender := sender, rcpts := [], body := mess } <;>
  cases f <;> simp [inject, hb] at h ⊢

/-- **A call that fails loses nothing**: the bounce file is unchanged, so the retry (qmail-send
re-schedules the message SLEEP_SYSFAIL seconds later) starts from the same state. -/
theorem C14_retry (cfg : Cfg) (date : Bytes) (id qp : Nat) (f : Fault)
    (sender : Bytes) (bounce : Option Bytes) (mess : Bytes)
    (h : (inject cfg date id qp f sender bounce mess).ret = false) :
    (inject cfg date id qp f sender bounce mess).bounce = bounce := by
  cases bounce with
  | none => cases f <;> simp [inject] at h ⊢
  | some bf =>
    cases hb : bounceOf cfg date bf { sender := sender, rcpts := [], body := mess } <;>
    cases f <;> simp [inject, hb] at h ⊢

/-- The only failing call that has already queued the notice is the one whose `unlink` failed
(the notice will then be sent again by the retry: at-least-once, the documented trade-off). -/
theorem C14_duplicate_only_on_unlink_failure (cfg : Cfg) (date : Bytes) (id qp : Nat) (f : Fault)
    (sender : Bytes) (bounce : Option Bytes) (mess : Bytes)
    (h : (inject cfg date id qp f sender bounce mess).ret = false)
    (hq : (inject cfg date id qp f sender bounce mess).queued ≠ none) : f = .unlink := by
  cases bounce with
  | none => cases f <;> simp [inject] at h hq ⊢
  | some bf =>
    cases hb : bounceOf cfg date bf { sender := sender, rcpts := [], body := mess } <;>
    cases f <;> simp [inject, hb] at h hq ⊢

/-- Without faults a recorded failure always produces its notice (or the documented discard). -/
theorem C14_every_failure_bounces (cfg : Cfg) (date : Bytes) (id qp : Nat) (sender bf mess : Bytes) :
    (inject cfg date id qp .none sender (some bf) mess).ret = true ∧
    (inject cfg date id qp .none sender (some bf) mess).queued
        = bounceOf cfg date bf { sender := sender, rcpts := [], body := mess } := by
  cases hb : bounceOf cfg date bf { sender := sender, rcpts := [], body := mess } <;> simp [inject, hb]

/-! ### Which reports become bounce paragraphs (del_dochan) -/

/-- a permanent failure report (status `D`) is recorded with its text, cut so that delivery number,
status and text together do not exceed REPORTMAX bytes ("we don't trust rspawn") -/
theorem C14_report_D (dying : Bool) (n : Byte) (text : Bytes) :
    delReport dying (n :: 68 :: text) = some (text.take (Gen.REPORTMAX - 2)) := by
  obtain ⟨k, hk⟩ : ∃ k, Gen.REPORTMAX = k + 2 := ⟨Gen.REPORTMAX - 2, by decide⟩
  unfold delReport
  rw [hk]
  simp [List.take]

/-- **A temporary failure past the queue lifetime is a permanent one**: status `Z` on a dying
message is recorded, with the explanation appended (the text is cut one byte earlier) … -/
theorem C14_report_expired (n : Byte) (text : Bytes) :
    delReport true (n :: 90 :: text) = some (text.take (Gen.REPORTMAX - 3) ++ dyingText) := by
  obtain ⟨k, hk⟩ : ∃ k, Gen.REPORTMAX = k + 3 := ⟨Gen.REPORTMAX - 3, by decide⟩
  unfold delReport
  rw [hk]
  simp [List.take]

/-- … while before expiry (`Z`), on success (`K`) or on a mangled report nothing is recorded. -/
theorem C14_report_none (n st : Byte) (text : Bytes) (h : st ≠ 68) (h' : st ≠ 90) (dying : Bool) :
    delReport dying (n :: st :: text) = none ∧ delReport false (n :: 90 :: text) = none := by
  obtain ⟨k, hk⟩ : ∃ k, Gen.REPORTMAX = k + 2 := ⟨Gen.REPORTMAX - 2, by decide⟩
  unfold delReport
  rw [hk]
  simp [List.take, h, h']

/-! ### Non-vacuity: concrete inputs (bytes written out) -/

/-- report "\n\n<v>:\nx" against recipient "a@b": the forged paragraph stays inside the one paragraph -/
example : addbounceText ⟨[], []⟩ true [97, 64, 98] [10, 10, 60, 118, 62, 58, 10, 120]
    = [60, 97, 64, 98, 62, 58, 10, 47, 47, 60, 118, 62, 58, 10, 120, 10, 10] := by decide
example : paragraphs (addbounceText ⟨[], []⟩ true [97, 64, 98] [10, 10, 60, 118, 62, 58, 10, 120])
    = [[60, 97, 64, 98, 62, 58, 10, 47, 47, 60, 118, 62, 58, 10, 120, 10]] := by decide
/-- a report ending in an empty line leaves two empty lines, still one paragraph -/
example : addbounceText ⟨[], []⟩ true [97, 64, 98] [120, 10, 10] = [60, 97, 64, 98, 62, 58, 10, 120, 10, 10, 10] := by decide
/-- recipient "p-a\n@b" with entry "b:p": prefix removed, LF shown as '_' -/
example : addbounceText ⟨[], [([98], [112])]⟩ true [112, 45, 97, 10, 64, 98] [] = [60, 97, 95, 64, 98, 62, 58, 10, 10] := by decide
/-- wildcard ".b:q" governs "x.b", exception "a.b:" keeps "q-u@a.b" as it is -/
example : stripvdom ⟨[], [([46, 98], [113]), ([97, 46, 98], [])]⟩ [113, 45, 117, 64, 120, 46, 98] = [117, 64, 120, 46, 98] := by decide
example : stripvdom ⟨[], [([46, 98], [113]), ([97, 46, 98], [])]⟩ [113, 45, 117, 64, 97, 46, 98] = [113, 45, 117, 64, 97, 46, 98] := by decide
/-- virtual *user* entry "u@b:p": the local recipient "p-u@b" is named "u@b" (F1, repaired) -/
example : stripvdom ⟨[], [([117, 64, 98], [112])]⟩ [112, 45, 117, 64, 98] = [117, 64, 98] := by decide
/-- "b" in locals and "b:p" in virtualdomains: the local recipient "p-u@b" keeps its name (F2, repaired) -/
example : stripvdom ⟨[[98]], [([98], [112])]⟩ [112, 45, 117, 64, 98] = [112, 45, 117, 64, 98] := by decide
example : stripvdom ⟨[], [([98], [112])]⟩ [112, 45, 117, 64, 98] = [117, 64, 98] := by decide
/-- sender forms: "x-@h-@[]" -> single bounce to "x-@h"; "" -> double; "#@[]" -> discard; "-@[]" -> double -/
example : decideBounce [120, 45, 64, 104, 45, 64, 91, 93] = .single [120, 45, 64, 104] := by decide
example : decideBounce [] = .double := by decide
example : decideBounce [35, 64, 91, 93] = .discard := by decide
example : decideBounce [45, 64, 91, 93] = .double := by decide

/-! ### Once, at daemon level: every event sequence the monitor `Nq.Daemon` accepts

`Daemon.accept` is the acceptor of C03/C04 (read-only here); `Nq.BounceDaemon.gaccept` adds history
only (it accepts exactly the same sequences: `C14_daemon_history_total`).  `noted` = paragraphs
appended for the message (one entry per `appendBounce`, i.e. per `addbounce()` call), `inFile` = those
in the current `bounce/<m>`, `bounced` = those whose file was unlinked after a successful injection,
`committed` = the successful injections (envelope, text, file content, paragraphs) that were followed
by the unlink, `dropped` = paragraphs discarded with the file of a `#@[]` message. -/

section DaemonLevel
open Nq.BounceDaemon Nq.Lemmas.BD

/-- The history layer refuses nothing and changes nothing: the sequences it accepts are exactly the
monitor's, with the same monitor state. -/
theorem C14_daemon_history_total (cfg : Daemon.Cfg) (evs : List Daemon.Ev) (s : Daemon.St) :
    Daemon.acceptAll cfg {} evs = some s ↔ ∃ g, gacceptAll cfg ginit evs = some (s, g) := by
  constructor
  · intro h; exact gacceptAll_total cfg evs {} (fun _ => {}) s h
  · rintro ⟨g, h⟩; exact gacceptAll_base cfg evs _ _ s g h

/-- **(a) `bounce/<m>` is unlinked only right after a successful injection of exactly its content**
(strengthens `C03_bounce_removed` by content equality, on the trace itself): whenever the monitor
accepts `unlinkBounce m` after the history `evs`, either the message's sender is `#@[]` (the
documented discard), or `evs = pre ++ bounceInject m true env body :: post` where `post` contains no
event on `bounce/<m>` (no append, no further injection, no crash rewrite, no unlink), the file had
at the injection exactly the content `file` that is unlinked now (and named the same records), the
queued text `body` contains `file`, and `env` is the bounce envelope of the message's sender. -/
theorem C14_daemon_unlink_after_inject (cfg : Daemon.Cfg) (evs : List Daemon.Ev) (s s' : Daemon.St) (m : Nat)
    (hacc : Daemon.acceptAll cfg {} evs = some s) (hu : Daemon.accept cfg s (.unlinkBounce m) = some s') :
    ∃ info file, (s.msg m).info = some info ∧ (s.msg m).bounce = some file ∧
      ((senderOf info = DBSENDER ∧ (s'.msg m).discarded = true) ∨
       (senderOf info ≠ DBSENDER ∧ ∃ pre post env body s1,
          evs = pre ++ Daemon.Ev.bounceInject m true env body :: post ∧
          Daemon.acceptAll cfg {} pre = some s1 ∧ (s1.msg m).bounce = some file ∧ (s1.msg m).inFile = (s.msg m).inFile ∧
          post.all (fun e => !bounceEvent m e) = true ∧
          Daemon.isInfix file body = true ∧ env = Daemon.bounceEnvelope cfg (senderOf info))) := by
  obtain ⟨g, hg⟩ := gacceptAll_total cfg evs {} (fun _ => {}) s hacc
  have hG := (greach_inv cfg s g ⟨evs, hg⟩).2 m
  -- `unlinkBounce` is judged outside the crash window, in `s.calm` (same files, same history)
  change Daemon.acceptCore cfg s.calm _ = _ at hu
  simp only [Daemon.acceptCore] at hu
  split at hu
  · cases hu
  · split at hu
    · rename_i info file hinfo hfile
      have hinfo : (s.msg m).info = some info := hinfo
      have hfile : (s.msg m).bounce = some file := hfile
      refine ⟨info, file, hinfo, hfile, ?_⟩
      split at hu
      · split at hu
        · rename_i hs; cases hu
          left
          refine ⟨hs, ?_⟩
          rw [Daemon.St.msg_upd]; simp
        · rename_i hs
          split at hu
          · rename_i hl
            right
            refine ⟨hs, ?_⟩
            obtain ⟨x, hx, hxf, hxp, _⟩ := hG.c5 hl (by show (s.msg m).bounce ≠ none; rw [hfile]; simp)
            have hxf' : file = x.file := by
              have : (s.msg m).bounce = some x.file := hxf
              rw [hfile] at this; cases this; rfl
            have hok := hG.c6 x (hG.c5a x hx)
            rcases last_trace cfg m x evs _ _ s g hg hx with ⟨h0, _⟩ | ⟨pre, post, s1, g1, he, hpre, hin, hf, hp, hpost⟩
            · cases h0
            · obtain ⟨f1, hf1⟩ := inject_bounce_some cfg s1 m true x.env x.body hin
              refine ⟨pre, post, x.env, x.body, s1, he, gacceptAll_base cfg pre _ _ s1 g1 hpre, ?_, ?_, hpost, ?_, ?_⟩
              · rw [hf1] at hf ⊢; rw [hxf', hf]; rfl
              · rw [← hp]; exact hxp
              · rw [hxf']; exact hok.inf
              · rw [hok.env, hok.sender info hinfo]
          · cases hu
      · cases hu
    · cases hu

/-- **(b) Every appended paragraph is accounted for exactly once**, in every reachable state, for
every message, counted with multiplicity (the same record can fail again after a crash that lost its
mark, and is then appended again): the number of times a paragraph for record `x` was appended equals
the number of its copies still in `bounce/<m>`, plus those in committed bounces (injection succeeded
and the file was unlinked), plus those discarded with the bounce file of a `#@[]` message.  The
committed copies are exactly the paragraphs of the committed injections; paragraphs are dropped only
under the documented discard; paragraphs still in the file keep the message in the queue (retry).
WHAT THIS IS: an identity between the monitor's bookkeeping fields `noted`/`inFile`/`bounced` (ghost
state of the monitor, updated by `appendBounce`/`unlinkBounce`) and the history layer — it counts
*records*, not text.  EXEMPTION not visible in the counts: a machine crash may replace the never-fsynced
`bounce/<m>` (`crashBounce`); the monitor then keeps `inFile` and lists the records in `lostRecs`, so a
lost record still counts as "bounced once" when the damaged file is later injected and unlinked
(example below).  That the TEXT appended for a record is inside the committed notice is
`C14_daemon_committed` / `C14_daemon_left_queue`, which hold for every record not in `lostRecs`. -/
theorem C14_daemon_exactly_once (cfg : Daemon.Cfg) (s : Daemon.St) (g : Ghost) (hr : GReach cfg s g) (m : Nat) :
    (∀ x, (s.msg m).noted.count x = (s.msg m).inFile.count x + (s.msg m).bounced.count x + (g m).dropped.count x) ∧
    (s.msg m).bounced = ((g m).committed.map (·.paras)).flatten ∧
    ((g m).dropped ≠ [] → (s.msg m).discarded = true) ∧
    ((s.msg m).inFile ≠ [] → (s.msg m).bounce.isSome = true ∧ (s.msg m).info.isSome = true) := by
  obtain ⟨hI, hG⟩ := greach_inv cfg s g hr
  have h := hG m
  refine ⟨h.c1, h.c2, h.c8, ?_⟩
  intro hne
  have hb : (s.msg m).bounce ≠ none := fun hb => hne ((hI.msgs m).k5 hb)
  have hbs : (s.msg m).bounce.isSome = true := by
    cases hbb : (s.msg m).bounce with
    | none => exact absurd hbb hb
    | some _ => rfl
  refine ⟨hbs, ?_⟩
  cases ht : (s.msg m).todo with
  | none => exact (hI.msgs m).k6 ht (Or.inr (Or.inr hbs))
  | some e =>
    have : (bv (s.msg m)).todo = true := by show (s.msg m).todo.isSome = true; rw [ht]; rfl
    exact absurd (h.t0 this).2.2.1 hne

/-- **(b) What a committed bounce is**: every injection after which the monitor accepted the unlink
went, with the envelope `bounceEnvelope` prescribes, to the envelope sender *that qmail-queue accepted
for the message* (= the sender stored in `info/<m>`; never for a `#@[]` message), carried the whole
bounce file of that moment inside its text, and that file names one record per appended text.
**Per record**: the text appended for every record that is not among the crash-lost ones
(`lostRecs`: records that were in `bounce/<m>` when a machine crash replaced the never-fsynced file by
something that does not even start with the old content — the documented exemption; a record gets there
only by a `crashBounce` that the monitor accepts in the crash window right after a crash `.restart`:
`C03_lost_step`, `C03_lost_after_crash`) is inside the queued notice.  If no crash ever touched the file (`lost = false`) the file was exactly the
concatenation of the appended texts. -/
theorem C14_daemon_committed (cfg : Daemon.Cfg) (s : Daemon.St) (g : Ghost) (hr : GReach cfg s g) (m : Nat)
    (x : Sent) (hx : x ∈ (g m).committed) :
    x.sender ≠ DBSENDER ∧ x.env = Daemon.bounceEnvelope cfg x.sender ∧ Daemon.isInfix x.file x.body = true ∧
    x.paras.length = x.parts.length ∧
    (∀ sd r, (s.msg m).accepted = some (sd, r) → x.sender = sd ∧ x.env = Daemon.bounceEnvelope cfg sd) ∧
    (∀ info, (s.msg m).info = some info → x.sender = senderOf info) ∧
    (∀ pr ∈ List.zip x.paras x.parts, pr.1 ∉ (s.msg m).lostRecs → Daemon.isInfix pr.2 x.body = true) ∧
    ((s.msg m).lost = false → x.parts ≠ [] ∧ x.file = fileOf x.parts ∧ ∀ p ∈ x.parts, Daemon.isInfix p x.body = true) := by
  have h := (greach_inv cfg s g hr).2 m
  have hok := h.c6 x (h.c6a x hx)
  refine ⟨hok.notdb, hok.env, hok.inf, hok.len, fun sd r ha => ⟨hok.acc sd r ha, by rw [hok.env, hok.acc sd r ha]⟩, hok.sender,
    fun pr hpr hn => isInfix_trans pr.2 x.file x.body (hok.kept pr hpr hn) hok.inf, ?_⟩
  intro hl
  obtain ⟨h1, h2⟩ := hok.intact hl
  refine ⟨h1, h2, fun p hp => isInfix_trans p x.file x.body ?_ hok.inf⟩
  rw [h2]; exact isInfix_fileOf x.parts p hp

/-- **(b) Nothing is sent twice in two committed bounces, nothing is dropped when the message leaves
the queue**: once `info/<m>` is gone (after which qmail-clean removes the message) no paragraph is
left in a file, and — unless the message's own sender was `#@[]` (discard) — every record has exactly
as many copies in committed bounces as paragraphs were appended for it: in particular a paragraph
appended once is in exactly one committed bounce.  The counts are bookkeeping identities (see
`C14_daemon_exactly_once`); the last clause is about TEXT: for every committed bounce and every record
it names that is not crash-lost (`lostRecs`, the second documented exemption), the text appended for
that record is inside the queued notice. -/
theorem C14_daemon_left_queue (cfg : Daemon.Cfg) (s : Daemon.St) (g : Ghost) (hr : GReach cfg s g) (m : Nat)
    (ht : (s.msg m).todo = none) (hi : (s.msg m).info = none) :
    (s.msg m).inFile = [] ∧
    (∀ x, (s.msg m).noted.count x = (((g m).committed.map (·.paras)).flatten).count x + (g m).dropped.count x) ∧
    ((s.msg m).discarded = false → ∀ x, (s.msg m).noted.count x = (((g m).committed.map (·.paras)).flatten).count x) ∧
    (∀ x ∈ (g m).committed, x.paras.length = x.parts.length ∧
      ∀ pr ∈ List.zip x.paras x.parts, pr.1 ∉ (s.msg m).lostRecs → Daemon.isInfix pr.2 x.body = true) := by
  obtain ⟨hI, hG⟩ := greach_inv cfg s g hr
  have h := hG m
  have hb : (s.msg m).bounce = none := by
    cases hbb : (s.msg m).bounce with
    | none => rfl
    | some b =>
      have := (hI.msgs m).k6 ht (Or.inr (Or.inr (by rw [hbb]; rfl)))
      rw [hi] at this; cases this
  have hf : (s.msg m).inFile = [] := (hI.msgs m).k5 hb
  have hc : ∀ x, (s.msg m).noted.count x = (((g m).committed.map (·.paras)).flatten).count x + (g m).dropped.count x := by
    intro x
    have h1 := h.c1 x
    have h2 : (bv (s.msg m)).bounced = _ := h.c2
    have h1' : (s.msg m).noted.count x = (s.msg m).inFile.count x + (s.msg m).bounced.count x + (g m).dropped.count x := h1
    have h2' : (s.msg m).bounced = ((g m).committed.map (·.paras)).flatten := h2
    rw [hf, h2'] at h1'
    simpa using h1'
  refine ⟨hf, hc, ?_, ?_⟩
  · intro hd x
    have hdr : (g m).dropped = [] := by
      cases hdd : (g m).dropped with
      | nil => rfl
      | cons a t =>
        have : (s.msg m).discarded = true := h.c8 (by rw [hdd]; simp)
        rw [hd] at this; cases this
    rw [hc x, hdr]; simp
  · intro x hx
    have hc := C14_daemon_committed cfg s g hr m x hx
    exact ⟨hc.2.2.2.1, hc.2.2.2.2.2.2.1⟩

/-- At any time, a record is named in committed bounces at most as often as a paragraph was appended
for it (no invention, no double sending through two committed bounces). -/
theorem C14_daemon_sent_at_most_appended (cfg : Daemon.Cfg) (s : Daemon.St) (g : Ghost) (hr : GReach cfg s g) (m : Nat)
    (x : Daemon.Ch × Nat) : (((g m).committed.map (·.paras)).flatten).count x ≤ (s.msg m).noted.count x := by
  obtain ⟨h1, h2, _, _⟩ := C14_daemon_exactly_once cfg s g hr m
  rw [← h2, h1 x]; omega

/-- **(b) A failed injection keeps the record (retry)**: after `bounceInject m false …` the bounce
file and the bookkeeping are unchanged and an `unlinkBounce m` is refused — by (a) it stays refused
until an injection succeeds. -/
theorem C14_daemon_retry (cfg : Daemon.Cfg) (s s' : Daemon.St) (m : Nat) (env body : Bytes)
    (h : Daemon.accept cfg s (.bounceInject m false env body) = some s') :
    (s'.msg m).bounce = (s.msg m).bounce ∧ (s'.msg m).inFile = (s.msg m).inFile ∧ (s'.msg m).noted = (s.msg m).noted ∧
    (s'.msg m).bounced = (s.msg m).bounced ∧ (s'.msg m).bounce.isSome = true ∧
    Daemon.accept cfg s' (.unlinkBounce m) = none := by
  refine (?_ : ∀ t : Daemon.St, Daemon.acceptCore cfg t (.bounceInject m false env body) = some s' →
      (s'.msg m).bounce = (t.msg m).bounce ∧ (s'.msg m).inFile = (t.msg m).inFile ∧ (s'.msg m).noted = (t.msg m).noted ∧
      (s'.msg m).bounced = (t.msg m).bounced ∧ (s'.msg m).bounce.isSome = true ∧
      Daemon.acceptCore cfg s'.calm (.unlinkBounce m) = none) s.calm h
  clear h s
  intro s h
  simp only [Daemon.acceptCore] at h
  split at h
  · cases h
  · rename_i hcl
    split at h
    · rename_i info file hinfo hfile
      split at h
      · rename_i hg; cases h
        have hm : ((s.upd m fun ms => { ms with lastInject := false }).msg m) = { s.msg m with lastInject := false } := by
          rw [Daemon.St.msg_upd]; simp
        refine ⟨by rw [hm], by rw [hm], by rw [hm], by rw [hm], by rw [hm, hfile]; rfl, ?_⟩
        have hm' : ((s.upd m fun ms => { ms with lastInject := false }).calm.msg m) = { s.msg m with lastInject := false } := hm
        have hc : (s.upd m fun ms => { ms with lastInject := false }).calm.clean = s.clean := rfl
        have hne : ¬ (info.drop 1).dropLast = [35, 64, 91, 93] := hg.2.2.2.1
        simp [Daemon.acceptCore, hm', hinfo, hfile, hc, hcl]
        intro _ _ _; simpa using hne
      · cases h
    · cases h

/-- **(c) What `injectbounce` queues is what the monitor demands**: for every configuration, date
line, bounce file, original message and sender, the notice built by `bounceOf` (which `drv_c14`
compares byte for byte with the real `injectbounce()` output) contains the bounce file, carries the
envelope `Daemon.bounceEnvelope` prescribes, and is never built for a `#@[]` message — i.e. the
`(env, body)` of a monitor event `bounceInject m true env body` may be `bounceOf` of the file. -/
theorem C14_daemon_inject_guard (dcfg : Daemon.Cfg) (bcfg : Cfg) (hdb : dcfg.doublebounceto = bcfg.doublebounceto)
    (date bf sender mess : Bytes) (q : Msg)
    (h : bounceOf bcfg date bf { sender := sender, rcpts := [], body := mess } = some q) :
    injectGuard dcfg sender bf (envBytes q) q.body = true := by
  obtain ⟨h1, h2, h3⟩ := bounceOf_guard dcfg bcfg hdb date bf sender mess [] q h
  exact (injectGuard_iff dcfg sender bf (envBytes q) q.body).2 ⟨h1, h2, h3⟩

/-- **(c) Every behaviour of the `injectbounce` model is a behaviour the monitor accepts** — all ten
fault points, every sender whose VERP base is not `#@[]` unless it is `#@[]` itself: from any monitor
state in which qmail-send calls `injectbounce(m)` the events of the call (`injectEvents`: the
injection with `bounceOf`'s envelope and text, then the unlink if the model removed the file) are
accepted, and the monitor's `bounce/<m>` afterwards is the model's. -/
theorem C14_daemon_inject_accepted (dcfg : Daemon.Cfg) (bcfg : Cfg) (hdb : dcfg.doublebounceto = bcfg.doublebounceto)
    (date : Bytes) (m qp : Nat) (f : Fault) (sender bf mess : Bytes) (s : Daemon.St)
    (hclean : s.clean = none) (ht : (s.msg m).todo = none) (hl : (s.msg m).loc = none) (hrm : (s.msg m).rem = none)
    (hi : (s.msg m).info = some (70 :: sender ++ [0])) (hb : (s.msg m).bounce = some bf)
    (hv : verpBase sender = DBSENDER → sender = DBSENDER) :
    ∃ s', Daemon.acceptAll dcfg s (injectEvents m f sender (some bf) (inject bcfg date m qp f sender (some bf) mess)) = some s' ∧
      (s'.msg m).bounce = (inject bcfg date m qp f sender (some bf) mess).bounce :=
  inject_accepted dcfg bcfg hdb date m qp f sender bf mess s ⟨hclean, ht, hl, hrm, hi, hb⟩ hv

/-- The excluded sender `#@[]-@[]` (complement of the hypothesis above; a gap of the MONITOR, not of
qmail-send): `injectbounce` strips the VERP suffix first and therefore discards, the monitor compares
the unstripped sender with `#@[]` and refuses the unlink.  (Clause the monitor would need: use the
VERP base of the sender in the guards of `bounceInject` and `unlinkBounce`.) -/
theorem C14_daemon_verp_discard_gap (dcfg : Daemon.Cfg) (bcfg : Cfg) (date : Bytes) (m qp : Nat) (bf mess : Bytes) (s : Daemon.St)
    (hclean : s.clean = none) (ht : (s.msg m).todo = none) (hl : (s.msg m).loc = none) (hrm : (s.msg m).rem = none)
    (hi : (s.msg m).info = some (70 :: (DBSENDER ++ VERPSUF) ++ [0])) (hb : (s.msg m).bounce = some bf)
    (hli : (s.msg m).lastInject = false) :
    (inject bcfg date m qp .none (DBSENDER ++ VERPSUF) (some bf) mess).queued = none ∧
    (inject bcfg date m qp .none (DBSENDER ++ VERPSUF) (some bf) mess).bounce = none ∧
    Daemon.accept dcfg s (.unlinkBounce m) = none := by
  have hd : decideBounce (DBSENDER ++ VERPSUF) = .discard := by decide
  have hbo : bounceOf bcfg date bf { sender := DBSENDER ++ VERPSUF, rcpts := [], body := mess } = none := by
    simp [bounceOf, hd]
  refine ⟨by simp [inject, hbo], by simp [inject, hbo], ?_⟩
  show Daemon.acceptCore dcfg s.calm (.unlinkBounce m) = none
  simp [Daemon.acceptCore, Daemon.St.calm_msg, Daemon.St.calm_clean, hclean, hi, hb, ht, hl, hrm, hli, DBSENDER, VERPSUF]

/-! #### Non-vacuity at daemon level: one message from sender `s` to `a`, reported `D x`, paragraph
appended, record marked, channel file closed, `injectbounce` (model) run, message removed -/

def dcfg0 : Daemon.Cfg := { conc := fun _ => 2, lifetime := 1000, route := fun a => (.loc, a), doublebounceto := [112, 64, 100] }
def bcfg0 : Cfg := { bouncefrom := [77], bouncehost := [104], doublebounceto := [112, 64, 100], vdoms := [] }
/-- `<a>:` LF `x` LF LF -/
def para0 : Bytes := [60, 97, 62, 58, 10, 120, 10, 10]
example : addbounceText bcfg0.tables true [97] [120, 10] = para0 := by decide
/-- a text that contains the bounce file -/
def body0 : Bytes := [72, 10] ++ para0 ++ [84, 10]
def pre0 (sender : Bytes) : List Daemon.Ev :=
  evArrive 7 sender [[97]] ++ evFail 7 [[97]] 0 [120, 10] para0 ++ [.unlinkChan 7 .loc]

/-- what `injectEvents` is for an ordinary sender without faults: `bounceOf`'s envelope and text, then the unlink -/
example (date mess : Bytes) :
    injectEvents 7 .none [115] (some para0) (inject bcfg0 date 7 9 .none [115] (some para0) mess)
      = [.bounceInject 7 true [70, 0, 84, 115, 0] (preamble bcfg0 date [115] true ++ para0 ++ trailer true [115] mess),
         .unlinkBounce 7] := by
  have hd : decideBounce [115] = .single [115] := by decide
  simp [injectEvents, inject, bounceOf, hd, envBytes]
/-- … with `qmail_close` refusing: a failed injection, no unlink; with `unlink` failing: the injection only -/
example (date mess : Bytes) :
    injectEvents 7 .qqClose [115] (some para0) (inject bcfg0 date 7 9 .qqClose [115] (some para0) mess)
      = [.bounceInject 7 false [] []] := by
  have hd : decideBounce [115] = .single [115] := by decide
  simp [injectEvents, inject, bounceOf, hd, closeFails]
/-- the state reached by `pre0` meets the hypotheses of `C14_daemon_inject_accepted` / `…_unlink_after_inject` -/
example : ((Daemon.acceptAll dcfg0 {} (pre0 [115])).map fun s =>
    s.clean.isNone && (s.msg 7).todo.isNone && (s.msg 7).loc.isNone && (s.msg 7).rem.isNone &&
    (s.msg 7).info == some (70 :: [115] ++ [0]) && (s.msg 7).bounce == some para0) = some true := by decide

/-- the whole life is accepted; one paragraph was appended, it is in exactly one committed bounce, the
file is gone, and the committed bounce carried exactly the file -/
example : ((gacceptAll dcfg0 ginit (pre0 [115] ++ [.bounceInject 7 true [70, 0, 84, 115, 0] body0, .unlinkBounce 7] ++ evDone 7)).map fun sg =>
    (sg.1.msg 7).noted == [(.loc, 0)] && (sg.1.msg 7).inFile == [] && (sg.1.msg 7).bounced == [(.loc, 0)] &&
    (sg.1.msg 7).bounce == none && (sg.1.msg 7).info == none &&
    (sg.2 7).committed.map (·.file) == [para0] && (sg.2 7).committed.map (·.paras) == [[(.loc, 0)]] &&
    (sg.2 7).committed.map (·.parts) == [[para0]] && (sg.2 7).committed.map (·.sender) == [[115]] &&
    (sg.1.msg 7).accepted == some ([115], [[97]])) = some true := by decide
/-- qmail-queue refuses: the file stays, nothing is committed, the unlink is refused -/
example : ((gacceptAll dcfg0 ginit (pre0 [115] ++ [.bounceInject 7 false [] []])).map fun sg =>
    (sg.1.msg 7).inFile == [(.loc, 0)] && (sg.1.msg 7).bounce.isSome && (sg.2 7).committed.length == 0 &&
    (sg.2 7).attempts.length == 0 && (Daemon.accept dcfg0 sg.1 (.unlinkBounce 7)).isNone) = some true := by decide
/-- `unlink` fails after a successful injection: the retry injects again (two attempts), exactly one is committed -/
example : ((gacceptAll dcfg0 ginit (pre0 [115] ++ [.bounceInject 7 true [70, 0, 84, 115, 0] body0,
      .bounceInject 7 true [70, 0, 84, 115, 0] body0, .unlinkBounce 7])).map fun sg =>
    (sg.2 7).attempts.length == 2 && (sg.2 7).committed.length == 1 && (sg.1.msg 7).bounced == [(.loc, 0)]) = some true := by decide
/-- the exemption the counts do not show (audit probe): a crash (`.restart`) empties the never-fsynced `bounce/7`
(`crashBounce`, accepted only in the crash window), a notice that does not contain the paragraph is injected and
committed — the record counts as bounced once, and it is in `lostRecs`, which is exactly the hypothesis the text
clauses of `C14_daemon_committed`/`C14_daemon_left_queue` exclude -/
example : ((gacceptAll dcfg0 ginit (pre0 [115] ++ [.restart, .crashBounce 7 [], .bounceInject 7 true [70, 0, 84, 115, 0] [88], .unlinkBounce 7] ++ evDone 7)).map fun sg =>
    (sg.1.msg 7).bounced == [(.loc, 0)] && (sg.2 7).committed.map (·.body) == [[88]] && (sg.1.msg 7).lost &&
    (sg.1.msg 7).lostRecs == [(.loc, 0)] && (sg.2 7).committed.map (·.parts) == [[para0]]) = some true := by decide
/-- …whereas a crash that leaves the old content as a prefix loses nothing: `lostRecs` stays empty -/
example : ((gacceptAll dcfg0 ginit (pre0 [115] ++ [.restart, .crashBounce 7 (para0 ++ [120])])).map fun sg =>
    (sg.1.msg 7).lost && (sg.1.msg 7).lostRecs == [] && (sg.1.msg 7).inFile == [(.loc, 0)]) = some true := by decide
/-- with no crash the same `crashBounce` is refused (second-pass audit, finding 1): the exemption needs a crash -/
example : Daemon.acceptAll dcfg0 {} (pre0 [115] ++ [.crashBounce 7 []]) = none ∧
    Daemon.acceptAll dcfg0 {} (pre0 [115] ++ [.restart, .tick 0, .crashBounce 7 []]) = none := by decide
/-- an unlink without a successful injection is not accepted -/
example : Daemon.acceptAll dcfg0 {} (pre0 [115] ++ [.unlinkBounce 7]) = none := by decide
/-- … nor an injection of something that does not contain the file, nor one with another envelope -/
example : Daemon.acceptAll dcfg0 {} (pre0 [115] ++ [.bounceInject 7 true [70, 0, 84, 115, 0] [60, 97, 62, 58, 10]]) = none := by decide
example : Daemon.acceptAll dcfg0 {} (pre0 [115] ++ [.bounceInject 7 true [70, 0, 84, 116, 0] body0]) = none := by decide
/-- a `#@[]` message: the paragraph is discarded, `discarded` is set, nothing is committed -/
example : ((gacceptAll dcfg0 ginit (pre0 DBSENDER ++ [.unlinkBounce 7])).map fun sg =>
    (sg.2 7).dropped == [(.loc, 0)] && (sg.1.msg 7).discarded && (sg.2 7).committed.length == 0 &&
    (sg.1.msg 7).bounce == none) = some true := by decide
/-- an empty sender: the double bounce goes from `#@[]` to doublebounceto -/
example : (Daemon.acceptAll dcfg0 {} (pre0 [] ++ [.bounceInject 7 true ([70, 35, 64, 91, 93, 0, 84] ++ [112, 64, 100] ++ [0]) body0, .unlinkBounce 7])).isSome = true := by
  decide

end DaemonLevel

/-! ### injectbounce() in front of the real qmail.c: a failed open or read of bounce/<id> or mess/<id> (session 4)

`Nq.BounceQq`: qmail.c's `struct qmail` under the calls injectbounce() makes (`injectCalls`), with the two byte streams the
queue program reads.  `RF` = outcome of copying one file: read to the end, `open_read()` failed, or a `read()` failed after
`k` bytes.  The driver compares both streams with what the scripted queue program behind the REAL qmail.c received, for a
fault at every call index, and evaluates `queuedOK`/`completeOK` on them. -/

open Nq.BounceQq Nq.Lemmas.BounceQq in
/-- **The error flag of qmail.c is sticky** — for every state, every call sequence with a `qmail_fail()` in it, every exit
code of the queue program, killed or not: `qmail_close()` refuses, and nothing that was put after the `qmail_fail()` has
reached the message pipe or the envelope pipe. -/
theorem C14_inject_fault_sticky (q : Qq) (a b : List Call) (exit : Nat) (crashed : Bool) :
    (close (run q (a ++ .fail :: b)) exit crashed).2 = false
      ∧ (close (run q (a ++ .fail :: b)) exit crashed).1.msg = (run q a).msg
      ∧ (close (run q (a ++ .fail :: b)) exit crashed).1.env = (run q a).env := by
  obtain ⟨h1, h2, h3⟩ := run_fail q a b
  simp [close, qput, h1, h2, h3]

open Nq.BounceQq Nq.Lemmas.BounceQq in
/-- **A failed open/read never queues a notice** — for every configuration, sender, bounce file, message, every combination of
copy outcomes with at least one failure (open failed, or read failed after any number of bytes, in either file), every exit code
(also 0) and a killed or un-killed queue program: `qmail_close()` refuses, the queue program has been given an EMPTY envelope
(so a real qmail-queue queues nothing) and only a prefix of the notice; and `inject` at the corresponding fault point returns 0
("will try later"), queues nothing and keeps bounce/<id>. -/
theorem C14_inject_fault_refused (cfg : Cfg) (date sender bf mess : Bytes) (fb fm : RF) (exit : Nat) (crashed : Bool)
    (id qp : Nat) (hf : fb ≠ .ok ∨ fm ≠ .ok) (q : Qq) (acc : Bool)
    (h : injectQq cfg date sender bf mess fb fm exit crashed = some (q, acc)) :
    acc = false ∧ q.env = [] ∧ queuedOK exit crashed q.env = false
      ∧ (∃ m, bounceOf cfg date bf { sender := sender, rcpts := [], body := mess } = some m ∧ q.msg <+: m.body)
      ∧ inject cfg date id qp (faultOf fb fm) sender (some bf) mess
          = { ret := false, queued := none, bounce := some bf,
              log := str "warning: trouble injecting bounce message, will try later\n" } := by
  have hfy : faulty fb fm = true := by
    cases fb <;> cases fm <;> simp [faulty] at hf ⊢
  rw [injectQq_eq, bounceOf_parts] at *
  cases hp : parts cfg date sender with
  | none => simp [hp] at h
  | some p =>
    simp only [hp, Option.map_some, Option.some.injEq, Prod.mk.injEq] at h
    obtain ⟨hq, ha⟩ := h
    subst hq
    have hb := bounceOf_parts cfg date bf sender mess
    rw [hp] at hb
    refine ⟨by simp [← ha, hfy], by simp [hfy], by simp [hfy, queuedOK], ⟨_, rfl, ?_⟩, ?_⟩
    · exact sentMsg_prefix _ _ _ _ _ _
    · cases fb <;> cases fm <;> simp [faulty] at hfy <;> simp [inject, hb, faultOf]

open Nq.BounceQq Nq.Lemmas.BounceQq in
/-- **Complement: without a failure the queue program gets the whole notice** and the prescribed envelope, and `qmail_close()`
accepts exactly when the queue program exited 0 un-killed. -/
theorem C14_inject_fault_free (cfg : Cfg) (date sender bf mess : Bytes) (exit : Nat) (crashed : Bool) (q : Qq) (acc : Bool)
    (h : injectQq cfg date sender bf mess .ok .ok exit crashed = some (q, acc)) :
    ∃ m t, bounceOf cfg date bf { sender := sender, rcpts := [], body := mess } = some m ∧ m.rcpts = [t]
      ∧ q.msg = m.body ∧ q.env = fullEnv m.sender t ∧ acc = (!crashed && exit == 0) := by
  rw [injectQq_eq] at h
  rw [bounceOf_parts]
  cases hp : parts cfg date sender with
  | none => simp [hp] at h
  | some p =>
    simp only [hp, Option.map_some, Option.some.injEq, Prod.mk.injEq] at h
    obtain ⟨hq, ha⟩ := h
    subst hq
    exact ⟨_, p.2.2.2, rfl, rfl, by simp [sentMsg], by simp [faulty], by simp [← ha, faulty]⟩

open Nq.BounceQq Nq.Lemmas.BounceQq in
/-- **What is accepted is complete** (the oracle of the Q leg, in its executable form): if `qmail_close()` accepts after
injectbounce()'s calls — whatever happened while copying — then nothing failed, the queue program exited 0 un-killed, and it was given
the prescribed terminated envelope (`queuedOK`) and a notice with the whole bounce/<id> inside and the original message at the end
(`completeOK`). -/
theorem C14_inject_fault_accepted_complete (cfg : Cfg) (date sender bf mess : Bytes) (fb fm : RF) (exit : Nat) (crashed : Bool)
    (q : Qq) (h : injectQq cfg date sender bf mess fb fm exit crashed = some (q, true)) :
    fb = .ok ∧ fm = .ok ∧ exit = 0 ∧ crashed = false
      ∧ ∃ m t, bounceOf cfg date bf { sender := sender, rcpts := [], body := mess } = some m ∧ m.rcpts = [t]
          ∧ q.msg = m.body ∧ queuedOK exit crashed q.env = true ∧ completeOK m.sender t bf mess q.msg q.env = true := by
  rw [injectQq_eq] at h
  rw [bounceOf_parts]
  cases hp : parts cfg date sender with
  | none => simp [hp] at h
  | some p =>
    simp only [hp, Option.map_some, Option.some.injEq, Prod.mk.injEq] at h
    obtain ⟨hq, ha⟩ := h
    subst hq
    have hfy : faulty fb fm = false := by
      cases hh : faulty fb fm <;> simp [hh] at ha ⊢
    have hfb : fb = .ok ∧ fm = .ok := by
      cases fb <;> cases fm <;> simp [faulty] at hfy ⊢
    obtain ⟨rfl, rfl⟩ := hfb
    have hex : exit = 0 ∧ crashed = false := by
      cases crashed <;> simp [hfy] at ha ⊢ <;> exact ha
    obtain ⟨rfl, rfl⟩ := hex
    refine ⟨rfl, rfl, rfl, rfl, _, p.2.2.2, rfl, rfl, by simp [sentMsg], ?_, ?_⟩
    · simp only [hfy]; exact queuedOK_fullEnv _ _
    · have hi : Daemon.isInfix bf (p.1 ++ (bf ++ (p.2.1 ++ mess))) = true :=
        (Nq.Lemmas.BD.isInfix_iff bf _).2 ⟨p.1, p.2.1 ++ mess, by simp [List.append_assoc]⟩
      have hs : isSuffixB mess (p.1 ++ (bf ++ (p.2.1 ++ mess))) = true := by
        have := isSuffixB_append (p.1 ++ bf ++ p.2.1) mess
        simpa [List.append_assoc] using this
      simp [completeOK, hfy, sentMsg, hi, hs]

/-- non-vacuity: an ordinary sender, the open of mess/<id> fails, the queue program exits 0: refused, empty envelope, the notice
stops after the Return-Path line -/
example : (BounceQq.injectQq ⟨[66], [104], [112], [], []⟩ [68, 10] [115] [60, 97, 62, 58, 10, 120, 10, 10] [77, 10] .ok .openFail 0 false).map
    (fun r => (r.2, r.1.env, r.1.flagerr)) = some (false, [], true) := by
  rw [Nq.Lemmas.BounceQq.injectQq_eq]; simp [BounceQq.parts, show decideBounce [115] = .single [115] by decide, Nq.Lemmas.BounceQq.faulty]
/-- … and without a fault it is accepted with the envelope F NUL T s NUL NUL -/
example : (BounceQq.injectQq ⟨[66], [104], [112], [], []⟩ [68, 10] [115] [60, 97, 62, 58, 10, 120, 10, 10] [77, 10] .ok .ok 0 false).map
    (fun r => (r.2, r.1.env)) = some (true, [70, 0, 84, 115, 0, 0]) := by
  rw [Nq.Lemmas.BounceQq.injectQq_eq]; simp [BounceQq.parts, show decideBounce [115] = .single [115] by decide, Nq.Lemmas.BounceQq.faulty, BounceQq.fullEnv]
/-- the sticky flag on a concrete call list: put, fail, put, from, to -/
example : BounceQq.close (BounceQq.run {} [.put [1], .fail, .put [2], .efrom [3], .eto [4]]) 0 false
    = ({ flagerr := true, onEnv := true, msg := [1], env := [] }, false) := by decide

/-! ### del_dochan(): the failure is recorded before the recipient is marked done (write-ahead order; session 4)

Transcription-level statements about `BounceQq.delOrder` (the order of `addbounce()` and `markdone()` in `case 'D'`); they are
tied to the code by the D leg (order of the real writes: DISAGREE against `delOrder`, ORACLE `recordBeforeMark` on the real
order).  What a crash between the two writes can lose is the crash-window clause of C03 (monitor `Nq.Daemon`: `markD` is refused
before `appendBounce`). -/

/-- for every report that is a permanent failure (status D, or Z on a message past its lifetime — exactly when `delReport`
yields a text): first the record, then the mark, and the executable order predicate holds -/
theorem C14_record_before_mark (dying : Bool) (raw r : Bytes) (h : delReport dying (1 :: raw) = some r) :
    BounceQq.delOrder dying raw = [.record, .mark] ∧ BounceQq.recordBeforeMark (BounceQq.delOrder dying raw) = true := by
  simp [BounceQq.delOrder, h, BounceQq.recordBeforeMark]

/-- complement: any other report writes no record; the recipient is marked only for a success report (status K) -/
theorem C14_no_record_otherwise (dying : Bool) (raw : Bytes) (h : delReport dying (1 :: raw) = none) :
    BounceQq.DelEv.record ∉ BounceQq.delOrder dying raw
      ∧ (BounceQq.DelEv.mark ∈ BounceQq.delOrder dying raw ↔ raw.head? = some 75) := by
  by_cases hk : raw.head? = some 75 <;> simp [BounceQq.delOrder, h, hk]

example : delReport false (1 :: [68, 120, 10]) = some [120, 10] := by decide
example : delReport false (1 :: [75, 120, 10]) = none := by decide

end Nq.Props.C14
