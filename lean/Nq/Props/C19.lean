/-
  C19 — The POP3 server shows the maildir faithfully and deletes only on request.

  Model: `Nq.Pop3` (qmail-pop3d.c with maildir.c, prioq.c, commands.c; qmail-popup.c), tied to the
  source by the differential harnesses `harness/c19_pop3d.c`, `harness/c19_popup.c` and by the
  translator (`Nq.Gen.Pop3Tab`: command tables, number scanner, tmp/ age).
  Spec: `Nq.Pop3Ref` (RFC 1939 client decoder `popDecode`, `lines`, `topLines`).
  Only property theorems live here.
-/
import Nq.Lemmas.Pop3Blast
import Nq.Lemmas.Pop3Sess
import Nq.Lemmas.Pop3Heap
import Nq.Lemmas.Pop3Stat
import Nq.Lemmas.Pop3Sim
import Nq.Lemmas.Pop3Walk8
import Nq.Lemmas.SmtpCmdPop3
import Nq.Lemmas.Pop3Popup
import Nq.Lemmas.Pop3FaultL2

namespace Nq.Props.C19
open Nq Nq.Pop3 Nq.Pop3Ref Nq.Lemmas.Pop3 Nq.Lemmas.Pop3Heap
open Nq.Pop3F Nq.Lemmas.Pop3F

/-! ### RETR and TOP: what a client decodes is the stored message -/

/-- **RETR.** For every stored message `m` (any bytes) and whatever follows on the connection
(`rest`), an RFC 1939 client decodes what blast() sends with limit 0 to exactly the lines of `m`
followed by the documented extra blank line, and stops exactly at the end of it: every LF sent
follows a CR (else `popDecode` is `none`), every leading dot is stuffed, and the first lone-dot
line is the last thing sent (else `rest` would not come back untouched). -/
theorem C19_retr (m rest : Bytes) :
    popDecode (blast 0 m ++ rest) = some (lines m ++ [[]], rest) := by
  unfold popDecode blast
  rw [blastLoop_eq_lines, getlns_nil_lines]
  exact decode_all (lines m) true rest (lines_noLF m)

/-- **TOP msg n** (blast() is called with limit n+1): the header lines, the blank line that ends
them and the first `n` body lines (everything if the message has no blank line), then the extra
blank line. -/
theorem C19_top (n : Nat) (m rest : Bytes) :
    popDecode (blast (n + 1) m ++ rest) = some (topLines n (lines m) ++ [[]], rest) := by
  unfold popDecode blast
  rw [blastLoop_eq_lines, getlns_nil_lines]
  exact decode_top (lines m) n rest (lines_noLF m)

/-- The reply to an accepted RETR/TOP is "+OK " CR LF followed by blast() of the file as it is on
disk now, with the limit `limitFor verb arg`: 0 (no limit) for RETR whatever follows the message number
(`C19_limit_retr`), the limit computed from the second number of the argument for TOP (`C19_limit_top`).
(Linking lemma: one branch of `exec`.) -/
theorem C19_retr_reply (s : Sess) (verb arg : Bytes) (i : Nat) (mm : Msg) (f : File)
    (hv : verbIs vRetr verb = true ∨ verbIs vTop verb = true)
    (hn : msgno s arg = .ok i) (hm : s.msgs[i]? = some mm) (hf : fsFind s.fs mm.fn = some f) :
    exec s verb arg = (s, okLine ++ blast (limitFor verb arg) f.data, none) := by
  have hl : lower verb = vRetr ∨ lower verb = vTop := by
    rcases hv with h | h
    · left; simpa [verbIs] using h
    · right; simpa [verbIs] using h
  rcases hl with h | h <;>
    simp [exec, verbIs, h, hn, hm, hf, vQuit, vStat, vList, vUidl, vDele, vRetr, vTop, vRset, vLast, vNoop]

/-- **RETR always sends the whole message**: its limit is 0 whatever follows the message number
("RETR 2 0" is message 2, all of it). Proved from `Gen.Pop3Tab.retrWhole = true` by `rfl`: the translator
reads from qmail-pop3d.c on every run that RETR has its own handler dotop(arg,0); this fails to compile if
RETR goes back to sharing pop3_top() with TOP (then "RETR n k" behaved as "TOP n k"). -/
theorem C19_limit_retr (verb arg : Bytes) (h : verbIs vRetr verb = true) : limitFor verb arg = 0 := by
  have hl : lower verb = vRetr := by simpa [verbIs] using h
  exact limitFor_retr verb arg (by simp [verbIs, hl, vRetr, vTop])

/-- TOP: the limit is that of its second number -/
theorem C19_limit_top (verb arg : Bytes) (h : verbIs vTop verb = true) : limitFor verb arg = topLimit arg :=
  limitFor_top verb arg h

/-- no second number: limit 0, the whole message (this is what TOP n gets) -/
theorem C19_limit_whole (arg : Bytes)
    (h : (scanUlong ((arg.drop (scanUlong arg).2).dropWhile (· = SP))).2 = 0) :
    topLimit arg = 0 := by
  simp [topLimit, h]

/-- a second number k: limit k+1, i.e. k body lines by `C19_top` -/
theorem C19_limit_count (arg : Bytes)
    (h : (scanUlong ((arg.drop (scanUlong arg).2).dropWhile (· = SP))).2 ≠ 0)
    (hk : (scanUlong ((arg.drop (scanUlong arg).2).dropWhile (· = SP))).1 + 1 < U64) :
    topLimit arg = (scanUlong ((arg.drop (scanUlong arg).2).dropWhile (· = SP))).1 + 1 := by
  simp [topLimit, h, Nat.mod_eq_of_lt hk]

/-- **a count of 2^64 - 1 or more saturates**: `count + 1` would wrap, the limit handed to blast()
is 0 = "no limit", and the whole message is sent — which is what such a count asks for
(`C19_top_decoded`). (`topCount arg` = the unbounded decimal value of the second number.) -/
theorem C19_limit_saturated (arg : Bytes) (k : Nat) (h : topCount arg = some k) (hk : U64 - 1 ≤ k) :
    topLimit arg = 0 := by
  rw [topLimit_spec, h]
  simp only
  rw [if_neg (by omega)]

/-- the limit for every argument: no second number ⇒ 0; second number `k < 2^64 - 1` ⇒ `k + 1`;
larger ⇒ 0 -/
theorem C19_limit_spec (arg : Bytes) :
    topLimit arg = match topCount arg with
      | none => 0
      | some k => if k < U64 - 1 then k + 1 else 0 := topLimit_spec arg

/-- **RETR / TOP for every argument**: a client decodes the payload of an accepted `TOP n k` —
`k` of any size, below or above 2^64 — to the header, the blank line and the first `k` body lines of the
file, and that of `RETR n` / `TOP n` to all its lines; then the documented blank line; and stops
exactly at the end. (The file has fewer than 2^64 - 1 bytes.) -/
theorem C19_top_decoded (arg data rest : Bytes) (h : data.length < U64 - 1) :
    popDecode (blast (topLimit arg) data ++ rest) =
      some ((match topCount arg with
             | none => lines data
             | some k => topLines k (lines data)) ++ [[]], rest) := top_decoded arg data rest h

/-- The file that has vanished is refused, nothing is sent for it. -/
theorem C19_retr_vanished (s : Sess) (verb arg : Bytes) (i : Nat) (mm : Msg)
    (hv : verbIs vRetr verb = true ∨ verbIs vTop verb = true)
    (hn : msgno s arg = .ok i) (hm : s.msgs[i]? = some mm) (hf : fsFind s.fs mm.fn = none) :
    exec s verb arg = (s, errLine "unable to open that message", none) := by
  have hl : lower verb = vRetr ∨ lower verb = vTop := by
    rcases hv with h | h
    · left; simpa [verbIs] using h
    · right; simpa [verbIs] using h
  rcases hl with h | h <;>
    simp [exec, verbIs, h, hn, hm, hf, vQuit, vStat, vList, vUidl, vDele, vRetr, vTop, vRset, vLast, vNoop]

/-! ### numbering -/

/-- One command never changes which file (and which announced size) a message number denotes,
nor how many messages there are. -/
theorem C19_numbering_step (s : Sess) (verb arg : Bytes) :
    (exec s verb arg).1.msgs.map ident = s.msgs.map ident := exec_ident s verb arg

/-- **Numbering is fixed at start-up** for the whole session: whatever bytes arrive on
descriptor 0, in whatever pieces, and whatever files other processes remove meanwhile. -/
theorem C19_numbering (evs : List Ev) : ∀ r : Run,
    (evs.foldl feedEv r).s.msgs.map ident = r.s.msgs.map ident := by
  induction evs with
  | nil => intro r; rfl
  | cons e evs ih =>
    intro r
    rw [List.foldl_cons, ih]
    cases e with
    | vanish p => rw [feedEv_vanish]; cases r.exit <;> rfl
    | data b => rw [feedEv_data]; exact feedBytes_ident b r

/-! ### deletion -/

/-- **Nothing is unlinked or renamed before QUIT**, and only QUIT ends the session. -/
theorem C19_only_quit_touches (s : Sess) (verb arg : Bytes) (h : verbIs vQuit verb = false) :
    (exec s verb arg).1.fs = s.fs ∧ (exec s verb arg).2.2 = none := exec_nonquit s verb arg h

/-- **Without QUIT nothing is removed**: if the session ends any other way (the connection is
dropped, the input ends in an unfinished line) the maildir is exactly what the other processes
left — whatever DELE commands were accepted. -/
theorem C19_no_quit_no_delete (evs : List Ev) : ∀ r : Run,
    (evs.foldl feedEv r).exit = none → (evs.foldl feedEv r).s.fs = vanished evs r.s.fs := by
  induction evs with
  | nil => intro r _; rfl
  | cons e evs ih =>
    intro r h
    rw [List.foldl_cons] at h ⊢
    have h1 : (feedEv r e).exit = none := by
      cases hx : (feedEv r e).exit with
      | none => rfl
      | some x => rw [feedEvs_exit_some evs _ x hx] at h; rw [hx] at h; exact absurd h (by simp)
    rw [ih _ h]
    cases e with
    | data b => simp only [vanished]; rw [feedEv_data] at h1 ⊢; rw [feedBytes_fs b r h1]
    | vanish p =>
      simp only [vanished]
      rw [feedEv_vanish] at h1 ⊢
      cases hx : r.exit with
      | some x => simp [hx] at h1
      | none => rfl

/-- **QUIT keeps every unmarked message.** A file that is not a marked message (and is not in
new/, where it gets its new name — `C19_quit_renames` — and does not carry the name an unmarked
new/ message is about to get) is found after QUIT exactly as before.
(Audit repair: `h2` used to exclude the new name of *every* message, also of those that are not
renamed; it now excludes only the names that pop3_quit really renames onto.) -/
theorem C19_quit_keeps (s : Sess) (verb arg p : Bytes) (f : File) (hq : verbIs vQuit verb = true)
    (hf : fsFind s.fs p = some f)
    (h1 : ∀ m ∈ s.msgs, m.fn = p → m.del = false ∧ (m.fn.take 4 == newSl) = false)
    (h2 : ∀ m ∈ s.msgs, m.del = false → (m.fn.take 4 == newSl) = true → seenName m.fn ≠ p) :
    fsFind (exec s verb arg).1.fs p = some f := by
  simp only [exec, hq, if_true]
  exact quit_keeps s.msgs s.fs [] p f hf h1 h2

/-- **QUIT keeps every unmarked message of new/ too — under its new name.** An unmarked message
`new/x` whose file `f` is there is found after QUIT as `cur/x:2,` with the same data and times, and
`new/x` is gone. (Message names unique; `cur/x:2,` is not itself a message marked for deletion —
with that, and `C19_quit_keeps`, `C19_quit_removes`: only messages marked by DELE are removed.) -/
theorem C19_quit_renames (s : Sess) (verb arg : Bytes) (m : Msg) (f : File) (hq : verbIs vQuit verb = true)
    (hm : m ∈ s.msgs) (hd : m.del = false) (hn : m.fn.take 4 = newSl) (hf : fsFind s.fs m.fn = some f)
    (hu : (s.msgs.map (·.fn)).Nodup) (h2 : ∀ x ∈ s.msgs, x.fn = seenName m.fn → x.del = false) :
    fsFind (exec s verb arg).1.fs (seenName m.fn) = some { f with path := seenName m.fn } ∧
    fsFind (exec s verb arg).1.fs m.fn = none := by
  simp only [exec, hq, if_true]
  exact quit_renames s.msgs s.fs [] m f hm hd hn hf hu h2

/-- **QUIT removes every marked message** (maildir names being unique: no new/ message is renamed
onto it). -/
theorem C19_quit_removes (s : Sess) (verb arg : Bytes) (m : Msg) (hq : verbIs vQuit verb = true)
    (hm : m ∈ s.msgs) (hd : m.del = true) (h2 : ∀ x ∈ s.msgs, seenName x.fn ≠ m.fn) :
    fsFind (exec s verb arg).1.fs m.fn = none := by
  simp only [exec, hq, if_true]
  exact quit_removes s.msgs s.fs [] m hm hd h2

/-- **The marks are set by an accepted DELE only** … -/
theorem C19_dele_marks (s : Sess) (verb arg : Bytes) (i : Nat) (hv : verbIs vDele verb = true)
    (hn : msgno s arg = .ok i) :
    exec s verb arg = ({ s with msgs := setDel s.msgs i, last := if i + 1 > s.last then i + 1 else s.last }, okLine, none) := by
  have h : lower verb = vDele := by simpa [verbIs] using hv
  simp [exec, verbIs, h, hn, vQuit, vStat, vList, vUidl, vDele]

/-- … **RSET clears them all** … -/
theorem C19_rset_unmarks (s : Sess) (verb arg : Bytes) (hv : verbIs vRset verb = true) :
    (exec s verb arg).1.msgs = s.msgs.map (fun m => { m with del := false }) ∧
    (exec s verb arg).1.fs = s.fs ∧ (exec s verb arg).2.1 = okLine := by
  have h : lower verb = vRset := by simpa [verbIs] using hv
  simp [exec, verbIs, h, vQuit, vStat, vList, vUidl, vDele, vRetr, vTop, vRset]

/-- … **and no other command touches them.** -/
theorem C19_marks_unchanged (s : Sess) (verb arg : Bytes)
    (h1 : verbIs vDele verb = false) (h2 : verbIs vRset verb = false) :
    (exec s verb arg).1.msgs = s.msgs := by
  unfold exec
  simp only [h1, h2]
  repeat' split
  all_goals simp_all

/-! ### refused message numbers -/

/-- **A refused number has no effect**: for every command that takes a message number, if msgno()
refuses the argument the reply is that "-ERR …" line and the state (marks, `last`, maildir) is
unchanged. -/
theorem C19_refuse (s : Sess) (verb arg r : Bytes) (h : msgno s arg = .err r)
    (hv : verbIs vDele verb = true ∨ verbIs vRetr verb = true ∨ verbIs vTop verb = true ∨
          ((verbIs vList verb = true ∨ verbIs vUidl verb = true) ∧ arg ≠ [])) :
    exec s verb arg = (s, r, none) := by
  rcases hv with hv | hv | hv | ⟨hv | hv, ha⟩
  · have hl : lower verb = vDele := by simpa [verbIs] using hv
    simp [exec, verbIs, hl, h, vQuit, vStat, vList, vUidl, vDele, vRetr, vTop, vRset, vLast, vNoop]
  · have hl : lower verb = vRetr := by simpa [verbIs] using hv
    simp [exec, verbIs, hl, h, vQuit, vStat, vList, vUidl, vDele, vRetr, vTop, vRset, vLast, vNoop]
  · have hl : lower verb = vTop := by simpa [verbIs] using hv
    simp [exec, verbIs, hl, h, vQuit, vStat, vList, vUidl, vDele, vRetr, vTop, vRset, vLast, vNoop]
  · have hl : lower verb = vList := by simpa [verbIs] using hv
    simp [exec, verbIs, hl, h, ha, vQuit, vStat, vList, vUidl, vDele, vRetr, vTop, vRset, vLast, vNoop]
  · have hl : lower verb = vUidl := by simpa [verbIs] using hv
    simp [exec, verbIs, hl, h, ha, vQuit, vStat, vList, vUidl, vDele, vRetr, vTop, vRset, vLast, vNoop]

/-- what msgno() refuses: no digits, digits followed by anything but the end of the argument or a
space ("1x"), zero, beyond the last message, or already marked — always with a "-ERR " line -/
theorem C19_refuse_when (s : Sess) (arg : Bytes)
    (h : (scanUlong arg).2 = 0 ∨ junkAfter arg (scanUlong arg).2 = true ∨ (scanUlong arg).1 = 0 ∨ (scanUlong arg).1 > s.msgs.length ∨
         (∃ m, s.msgs[(scanUlong arg).1 - 1]? = some m ∧ m.del = true)) :
    ∃ r, msgno s arg = .err r ∧ r.take 5 = errSp := by
  unfold msgno
  generalize scanUlong arg = up at h
  obtain ⟨u, pos⟩ := up
  simp only at h ⊢
  by_cases h0 : pos = 0 ∨ junkAfter arg pos = true
  · exact ⟨errLine "syntax error", by simp only [h0, if_true], errLine_take _⟩
  by_cases h1 : u = 0
  · exact ⟨errLine "messages are counted from 1", by simp only [h0, h1, if_true, if_false], errLine_take _⟩
  by_cases h2 : u - 1 ≥ s.msgs.length ∨ u - 1 ≥ INT_MAX
  · exact ⟨errLine "not that many messages", by simp only [h0, h1, h2, if_true, if_false], errLine_take _⟩
  simp only [h0, h1, h2, if_false]
  rcases h with h | h | h | h | ⟨m, hm, hd⟩
  · exact absurd (Or.inl h) h0
  · exact absurd (Or.inr h) h0
  · exact absurd h h1
  · exfalso; apply h2; left; omega
  · rw [hm]; exact ⟨errLine "already deleted", by simp [hd], errLine_take _⟩

/-- a number below 2^64 is read exactly … -/
theorem C19_scan_exact (arg : Bytes) (h : decVal (arg.takeWhile isDigit) < U64) :
    scanUlong arg = (decVal (arg.takeWhile isDigit), (arg.takeWhile isDigit).length) := by
  unfold scanUlong scanWith
  cases Gen.Pop3Tab.scanSaturates
  · simp [Nat.mod_eq_of_lt h]
  · have : decVal (arg.takeWhile isDigit) ≤ U64 - 1 := by unfold U64 at *; omega
    simp [Nat.min_eq_left this]

/-- … and **a number of 2^64 or more is refused like any other number that is too big**
(the source reads numbers with the saturating scanner: `Gen.Pop3Tab.scanSaturates` is regenerated
from qmail-pop3d.c on every run, and this proof fails if msgno() goes back to scan_ulong, which
took such numbers modulo 2^64). -/
theorem C19_refuse_huge (s : Sess) (arg : Bytes) (h : decVal (arg.takeWhile isDigit) ≥ U64) :
    ∃ r, msgno s arg = .err r ∧ r.take 5 = errSp := by
  have hs : Gen.Pop3Tab.scanSaturates = true := rfl
  have hu : (scanUlong arg).1 = U64 - 1 := by
    unfold scanUlong scanWith
    simp only [hs, if_true]
    exact Nat.min_eq_right (by unfold U64 at *; omega)
  unfold msgno
  generalize scanUlong arg = up at hu
  obtain ⟨u, pos⟩ := up
  simp only at hu ⊢
  by_cases h0 : pos = 0 ∨ junkAfter arg pos = true
  · exact ⟨errLine "syntax error", by simp only [h0, if_true], errLine_take _⟩
  have h2 : u - 1 ≥ s.msgs.length ∨ u - 1 ≥ INT_MAX := by right; rw [hu]; unfold U64 INT_MAX; omega
  have h1 : u ≠ 0 := by rw [hu]; unfold U64; omega
  exact ⟨errLine "not that many messages", by simp only [h0, h1, h2, if_true, if_false], errLine_take _⟩

/-- **msgno() is the reference reading of a message number**: with `n` the (unbounded) decimal
value of the leading digit run of the argument, it refuses when there is no digit, `n = 0`,
`n` exceeds the number of messages (or INT_MAX), or message `n` is marked; otherwise it accepts and
denotes message `n` (index `n - 1`). No modulus appears. -/
theorem C19_msgno_spec (s : Sess) (arg : Bytes) : msgno s arg = msgnoSpec s arg := msgno_eq_spec s arg

/-- **An accepted number denotes that message**: the argument is a non-empty digit run that ends the
argument or is followed by a space (`endsOk`; "1x" is not a number), `i + 1` is the decimal value written,
message `i + 1` exists and is unmarked — and conversely (the refusal conditions of `C19_refuse_when` are the
only ones, plus the `int` range). -/
theorem C19_msgno_accepts (s : Sess) (arg : Bytes) (i : Nat) :
    msgno s arg = .ok i ↔
      (arg.takeWhile isDigit ≠ [] ∧ endsOk arg = true ∧ decVal (arg.takeWhile isDigit) = i + 1 ∧ i < s.msgs.length ∧ i < INT_MAX ∧
        ∃ m, s.msgs[i]? = some m ∧ m.del = false) := by
  rw [msgno_eq_spec]
  unfold msgnoSpec
  simp only
  generalize arg.takeWhile isDigit = ds
  constructor
  · intro h
    by_cases h0 : ds = [] ∨ endsOk arg = false
    · simp [h0] at h
    rw [if_neg h0] at h
    have h0a : ds ≠ [] := fun e => h0 (Or.inl e)
    have h0b : endsOk arg = true := by
      cases he : endsOk arg with
      | true => rfl
      | false => exact absurd (Or.inr he) h0
    by_cases h1 : decVal ds = 0
    · simp [h1] at h
    rw [if_neg h1] at h
    by_cases h2 : decVal ds > s.msgs.length ∨ decVal ds > INT_MAX
    · simp [h2] at h
    rw [if_neg h2] at h
    cases hm : s.msgs[decVal ds - 1]? with
    | none => rw [hm] at h; simp at h
    | some m =>
      rw [hm] at h
      by_cases hd : m.del = true
      · simp [hd] at h
      · simp only [hd] at h
        have e : decVal ds - 1 = i := by simpa using h
        subst e
        exact ⟨h0a, h0b, by omega, by omega, by omega, m, hm, by simpa using hd⟩
  · rintro ⟨h0a, h0b, hv, hl, hi, m, hm, hd⟩
    have h0 : ¬ (ds = [] ∨ endsOk arg = false) := by
      rintro (e | e)
      · exact h0a e
      · rw [h0b] at e; cases e
    have h1 : ¬ decVal ds = 0 := by omega
    have h2 : ¬ (decVal ds > s.msgs.length ∨ decVal ds > INT_MAX) := by omega
    have e : decVal ds - 1 = i := by omega
    rw [if_neg h0, if_neg h1, if_neg h2, e, hm]
    simp [hd]

/-- **A number followed by junk is refused**: "DELE 1x", "RETR 2abc", "LIST 1x" — digits followed by
anything but the end of the argument or a space — get "-ERR syntax error" (and by `C19_refuse` have no
effect). Proved from `Gen.Pop3Tab.msgnoStrict = true` by `rfl` (inside `msgno_eq_spec`): the translator reads
the test `arg[len] && arg[len] != ' '` from msgno() on every run; this fails to compile if msgno() goes back to
ignoring what follows the digits. -/
theorem C19_refuse_junk (s : Sess) (arg : Bytes) (h : endsOk arg = false) :
    msgno s arg = .err (errLine "syntax error") := by
  rw [msgno_eq_spec]
  simp [msgnoSpec, h]

/-- every refusal of msgno() is a "-ERR " line -/
theorem C19_msgno_err (s : Sess) (arg r : Bytes) (h : msgno s arg = .err r) : r.take 5 = errSp := by
  rw [msgno_eq_spec] at h
  unfold msgnoSpec at h
  simp only at h
  repeat' split at h
  all_goals first
    | (cases h; exact errLine_take _)
    | cases h

/-- **DELE n marks message n** (and nothing else): `n` written in decimal with any number of leading
zeros, ending the argument or followed by a space. -/
theorem C19_dele_number (s : Sess) (verb arg : Bytes) (n : Nat) (m : Msg) (hv : verbIs vDele verb = true)
    (h0 : arg.takeWhile isDigit ≠ []) (he : endsOk arg = true) (hn : decVal (arg.takeWhile isDigit) = n + 1)
    (hi : n < INT_MAX) (hm : s.msgs[n]? = some m) (hd : m.del = false) :
    exec s verb arg = ({ s with msgs := setDel s.msgs n, last := if n + 1 > s.last then n + 1 else s.last }, okLine, none) := by
  have hl : n < s.msgs.length := by
    rcases Nat.lt_or_ge n s.msgs.length with h | h
    · exact h
    · rw [List.getElem?_eq_none h] at hm; cases hm
  have := (C19_msgno_accepts s arg n).mpr ⟨h0, he, hn, hl, hi, m, hm, hd⟩
  have h : lower verb = vDele := by simpa [verbIs] using hv
  simp [exec, verbIs, h, this, vQuit, vStat, vList, vUidl, vDele]

/-! ### sizes and unique ids -/

/-- **LIST n** announces the size the file had at start-up, **UIDL n** the file name below new/
or cur/ up to the first colon. -/
theorem C19_list_reply (s : Sess) (verb arg : Bytes) (i : Nat) (m : Msg) (ha : arg ≠ [])
    (hv : verbIs vList verb = true ∨ verbIs vUidl verb = true)
    (hn : msgno s arg = .ok i) (hm : s.msgs[i]? = some m) :
    exec s verb arg =
      (s, okSp ++ fmtNat (i + 1) ++ [SP] ++
          (if verbIs vUidl verb then (m.fn.drop 4).takeWhile (· ≠ COLON) else fmtNat m.size) ++ [CR, LF], none) := by
  rcases hv with hv | hv
  all_goals
    have hl := by simpa [verbIs] using hv
    simp [exec, verbIs, hl, hn, hm, ha, listLine, uidOf, vQuit, vStat, vList, vUidl]

/-- the size recorded at start-up is the length of the file of that name then; nothing starts
out marked -/
theorem C19_sizes (now : Nat) (fs : FS) : ∀ m ∈ getlist now fs,
    m.size = (match fsFind fs m.fn with | some f => f.data.length | none => 0) ∧ m.del = false := by
  intro m hm
  unfold getlist at hm
  simp only [List.mem_map] at hm
  obtain ⟨e, _, rfl⟩ := hm
  exact ⟨rfl, rfl⟩

/-- LIST / UIDL without argument: one line per unmarked message, in number order, then the dot -/
theorem C19_listing (s : Sess) (verb arg : Bytes) (ha : arg = [])
    (hv : verbIs vList verb = true ∨ verbIs vUidl verb = true) :
    exec s verb arg = (s, okLine ++ listAll (verbIs vUidl verb) 0 s.msgs ++ [DOT, CR, LF], none) := by
  rcases hv with hv | hv
  all_goals
    have hl := by simpa [verbIs] using hv
    simp [exec, verbIs, hl, ha, vQuit, vStat, vList, vUidl]

/-! ### refusing to run as root -/

/-- **uid 0**: exit 1 with the message on descriptor 2, nothing on descriptor 1, and the maildir
is not even looked at (the result does not depend on it, nor on the input). -/
theorem C19_root (havedir : Bool) (now : Nat) (fs : FS) (evs : List Ev) :
    Pop3.main 0 havedir now fs evs = { out := [], err := rootMsg, code := 1, fs := fs } := by
  simp [Pop3.main]

/-! ### before authentication (qmail-popup) -/

/-- **Only USER, PASS, APOP, QUIT and NOOP are honoured**: anything else is answered
"-ERR authorization first", changes nothing and starts nothing. -/
theorem C19_preauth_refuse (s : Popup.PSt) (verb arg : Bytes)
    (h : verbIs vUser verb = false ∧ verbIs vPass verb = false ∧ verbIs vApop verb = false ∧
         verbIs vQuit verb = false ∧ verbIs vNoop verb = false) :
    ∃ r, Popup.pexec s verb arg = (s, r, .cont) ∧ r = errLine "authorization first" := by
  obtain ⟨h1, h2, h3, h4, h5⟩ := h
  exact ⟨_, by simp [Popup.pexec, h1, h2, h3, h4, h5], rfl⟩

/-- USER then PASS: the checker is started with exactly the two arguments as given -/
theorem C19_preauth_userpass (s : Popup.PSt) (v1 v2 user pass : Bytes)
    (h1 : verbIs vUser v1 = true) (h2 : verbIs vPass v2 = true) (hu : user ≠ []) (hp : pass ≠ []) :
    Popup.pexec s v1 user = ({ seenuser := true, username := user }, okLine, .cont) ∧
    Popup.pexec { seenuser := true, username := user } v2 pass =
      ({ seenuser := true, username := user }, [], .auth ⟨user, pass⟩) := by
  have l1 : lower v1 = vUser := by simpa [verbIs] using h1
  have l2 : lower v2 = vPass := by simpa [verbIs] using h2
  constructor
  · simp [Popup.pexec, verbIs, l1, hu]
  · simp [Popup.pexec, verbIs, l2, hp, vUser, vPass]

/-- APOP name digest: split at the first space, both parts as given -/
theorem C19_preauth_apop (s : Popup.PSt) (verb name digest : Bytes)
    (h : verbIs vApop verb = true) (hn : SP ∉ name) :
    Popup.pexec s verb (name ++ SP :: digest) = (s, [], .auth ⟨name, digest⟩) := by
  have l : lower verb = vApop := by simpa [verbIs] using h
  have hall : ∀ a ∈ name, (fun x : Byte => decide (x ≠ SP)) a = true := by
    intro a ha; simp; exact fun hh => hn (hh ▸ ha)
  have ht := takeWhile_stop (fun x : Byte => decide (x ≠ SP)) name digest SP hall (by simp)
  have hd := dropWhile_stop (fun x : Byte => decide (x ≠ SP)) name digest SP hall (by simp)
  unfold Popup.pexec
  simp only [verbIs, l]
  rw [ht, hd]
  simp [vUser, vPass, vApop]

/-- **Framing of descriptor 3**: whenever the checker is started, descriptor 3 carries
`user NUL pass NUL "<" unique host ">" NUL` for the credentials `a` that the command loop stopped
with (`act = .auth a`), and `<unique host>` is the timestamp of the greeting. Which credentials those
are is said by `C19_preauth_main_userpass` / `C19_preauth_main_apop` (from the input bytes) and by
`C19_preauth_userpass` / `C19_preauth_apop` (per command).
(Audit repair: the earlier statement left `a` unconstrained; it is now tied to the state of the run.) -/
theorem C19_preauth_fd3 (pid now : Nat) (host : Bytes) (child : Popup.Child) (input b : Bytes)
    (h : (Popup.pmain pid now host child input).fd3 = some b) :
    ∃ a : Popup.Auth, (input.foldl Popup.pfeedByte { out := Popup.greeting pid now host }).act = .auth a ∧
      b = a.user ++ [NUL] ++ a.pass ++ [NUL] ++ [60] ++ Popup.unique pid now ++ host ++ [62, NUL] ∧
      Popup.greeting pid now host = okSp ++ [60] ++ Popup.unique pid now ++ host ++ [62, CR, LF] := by
  unfold Popup.pmain Popup.pfinish at h
  generalize List.foldl Popup.pfeedByte _ input = r at h ⊢
  cases hact : r.act with
  | cont => simp [hact] at h
  | exit c => simp [hact] at h
  | auth a =>
    simp only [hact] at h
    refine ⟨a, rfl, ?_, rfl⟩
    have : Popup.fd3 pid now host a = b := by simpa using h
    rw [← this]; simp [Popup.fd3]

/-- … and conversely nothing is written to descriptor 3 unless the loop stopped in doanddie() -/
theorem C19_preauth_fd3_none (pid now : Nat) (host : Bytes) (child : Popup.Child) (input : Bytes)
    (h : ∀ a, (input.foldl Popup.pfeedByte { out := Popup.greeting pid now host }).act ≠ .auth a) :
    (Popup.pmain pid now host child input).fd3 = none := by
  unfold Popup.pmain Popup.pfinish
  generalize List.foldl Popup.pfeedByte _ input = r at h ⊢
  cases hact : r.act with
  | cont => rfl
  | exit c => rfl
  | auth a => exact absurd hact (h a)

/-- **main() of qmail-popup, from the input bytes to descriptor 3 (USER / PASS).** The client sends
`USER u CR LF PASS p CR LF` (verbs in any case, one or more spaces, `u` and `p` any non-empty byte
strings without NUL and LF that do not begin with a space — they may contain spaces and end in CR)
followed by anything at all: the checker receives exactly `u NUL p NUL <unique host> NUL`, the client
sees the greeting, "+OK" for USER and then only what the checker's exit status calls for, and the exit
code is 1. -/
theorem C19_preauth_main_userpass (pid now : Nat) (host : Bytes) (child : Popup.Child) (v1 v2 u p tail : Bytes)
    (k1 k2 : Nat) (h1 : verbIs vUser v1 = true) (h2 : verbIs vPass v2 = true) (hk1 : k1 ≠ 0) (hk2 : k2 ≠ 0)
    (hu : ∀ c ∈ u, c ≠ NUL ∧ c ≠ LF) (hu0 : u ≠ []) (hus : u.head? ≠ some SP)
    (hp : ∀ c ∈ p, c ≠ NUL ∧ c ≠ LF) (hp0 : p ≠ []) (hps : p.head? ≠ some SP) :
    Popup.pmain pid now host child
        (v1 ++ (List.replicate k1 SP ++ u) ++ [CR] ++ [LF] ++ (v2 ++ (List.replicate k2 SP ++ p) ++ [CR] ++ [LF] ++ tail)) =
      { out := Popup.greeting pid now host ++ okLine ++ childMsg child,
        fd3 := some (u ++ [NUL] ++ p ++ [NUL] ++ [60] ++ Popup.unique pid now ++ host ++ [62, NUL]), code := 1 } :=
  pmain_userpass pid now host child v1 v2 u p tail k1 k2 h1 h2 hk1 hk2 hu hu0 hus hp hp0 hps

/-- **… and for APOP**: `APOP name digest CR LF` (name non-empty, without space, NUL, LF; digest without
NUL, LF) followed by anything: the checker receives `name NUL digest NUL <unique host> NUL`. -/
theorem C19_preauth_main_apop (pid now : Nat) (host : Bytes) (child : Popup.Child) (v name digest tail : Bytes) (k : Nat)
    (h : verbIs vApop v = true) (hk : k ≠ 0)
    (hn : ∀ c ∈ name, c ≠ NUL ∧ c ≠ LF ∧ c ≠ SP) (hn0 : name ≠ [])
    (hd : ∀ c ∈ digest, c ≠ NUL ∧ c ≠ LF) :
    Popup.pmain pid now host child (v ++ (List.replicate k SP ++ (name ++ SP :: digest)) ++ [CR] ++ [LF] ++ tail) =
      { out := Popup.greeting pid now host ++ childMsg child,
        fd3 := some (name ++ [NUL] ++ digest ++ [NUL] ++ [60] ++ Popup.unique pid now ++ host ++ [62, NUL]), code := 1 } :=
  pmain_apop pid now host child v name digest tail k h hk hn hn0 hd

/-- **Every pre-authentication dialogue of the model is accepted by the independent reference
`Pop3Ref.popupOk`** (the predicate the driver evaluates on the implementation): main() of qmail-popup on ANY
sequence of NUL- and LF-free command lines, followed by any unfinished last line, with any host name without LF
and any fate of the subprogram — the greeting carries a timestamp `<…@…host>`, every reply is "+OK"/"-ERR" as
the reference `prefStep` requires (USER/PASS/APOP/QUIT/NOOP honoured, everything else refused, PASS before USER
refused), descriptor 3 receives exactly `user NUL pass NUL <that timestamp> NUL` for the credentials the
reference computes (PASS: the last USER argument and the PASS argument; APOP: split at the first space) and
nothing otherwise, and after the checker only what its exit status calls for is written.
(Not in this theorem: the exit code, and lines containing NUL.) -/
theorem C19_preauth_session (pid now : Nat) (host : Bytes) (child : Popup.Child) (lines : List Bytes) (tail : Bytes)
    (hh : LF ∉ host) (hl : ∀ l ∈ lines, ∀ c ∈ l, c ≠ NUL ∧ c ≠ LF) (ht : LF ∉ tail) :
    popupOk host lines (childOkOf child)
      (Popup.pmain pid now host child (lines.flatMap (· ++ [LF]) ++ tail)).out
      (Popup.pmain pid now host child (lines.flatMap (· ++ [LF]) ++ tail)).fd3 = true :=
  popup_ok pid now host child lines tail hh hl ht

/-! ### the command tables (regenerated from the sources on every run) -/

/-- the verbs and handlers the model implements are those of the two `pop3commands[]` tables -/
theorem C19_tables :
    Gen.Pop3Tab.pop3dCmds = [(vQuit, "pop3_quit"), (vStat, "pop3_stat"), (vList, "pop3_list"), (vUidl, "pop3_uidl"),
      (vDele, "pop3_dele"), (vRetr, "pop3_retr"), (vRset, "pop3_rset"), (vLast, "pop3_last"), (vTop, "pop3_top"),
      (vNoop, "okay")] ∧ Gen.Pop3Tab.pop3dDefault = "err_unimpl" ∧
    Gen.Pop3Tab.popupCmds = [(vUser, "pop3_user"), (vPass, "pop3_pass"), (vApop, "pop3_apop"), (vQuit, "pop3_quit"),
      (vNoop, "okay")] ∧ Gen.Pop3Tab.popupDefault = "err_authoriz" :=
  ⟨rfl, rfl, rfl, rfl⟩

/-! ### start-up: the numbering is the mtime order of the files (prioq.c heap, maildir_scan, getlist)

The heap lemmas are those of property C15 (`Nq.Lemmas.Sched`, array model of prioq.c): the list
model used here is proved equal to it (`toA_pqInsert`, `toA_pqDelmin` in `Nq.Lemmas.Pop3Heap`). -/

/-- **Heap sort.** Draining (prioq_min / prioq_delmin until empty) a heap built by prioq_insert from
any entries, in any order, yields exactly those entries, each once, in non-decreasing order of `dt`. -/
theorem C19_heap_sort (l : List Elt) :
    (pqDrain (l.foldl pqInsert []).length (l.foldl pqInsert [])).Perm l ∧
    (pqDrain (l.foldl pqInsert []).length (l.foldl pqInsert [])).Pairwise (fun a b => a.dt ≤ b.dt) :=
  insert_drain_sorted l

/-- **getlist()**: for every maildir (any readdir order, any names, any times) the message table is
`L.map (startMsg fs)` for a list of files `L` that is a permutation of the eligible files — entries of
new/ and cur/ whose name does not begin with a dot and whose mtime is before `now` — sorted by mtime,
oldest first.  Message number i+1 is `L[i]`: its path, the size of the file of that name, unmarked. -/
theorem C19_startup_order (now : Nat) (fs : FS) :
    ∃ L : List File, L.Perm (eligible now fs) ∧ L.Pairwise (fun a b => a.mtime ≤ b.mtime) ∧
      getlist now fs = L.map (startMsg fs) :=
  getlist_sorted_perm now fs

/-- with unique names (maildir(5); a directory cannot hold two entries of one name) the size
announced for an eligible file is the length of that very file -/
theorem C19_startup_sizes (now : Nat) (fs : FS) (hu : (fs.map (·.path)).Nodup) :
    ∀ f ∈ eligible now fs, (startMsg fs f).size = f.data.length := by
  intro f hf
  simp only [startMsg, sizeAt, find_of_nodup fs hu f (eligible_mem now fs f hf)]

/-- main() for a non-root user with a maildir is: clean tmp/, getlist(), greet, then the command loop -/
theorem C19_main_session (uid now : Nat) (fs : FS) (evs : List Ev) (hu : uid ≠ 0) :
    Pop3.main uid true now fs evs =
      { out := (evs.foldl feedEv (start now fs)).out, err := [], code := 0,
        fs := (evs.foldl feedEv (start now fs)).s.fs } :=
  main_eq_start uid now fs evs hu

/-- **The numbering of a whole session is the mtime order of the maildir at start-up.**  There is a
list `L` of files — a permutation of the eligible files of the maildir as main() found it, sorted by
mtime — such that after any events (bytes in any pieces, files vanishing) message number i+1 still
denotes `L[i]`: that path and the size of that file at start-up.  (maildir_clean, which runs first,
touches tmp/ only, so `eligible` and the sizes are those of the maildir before it.) -/
theorem C19_session_numbering (now : Nat) (fs : FS) :
    ∃ L : List File, L.Perm (eligible now fs) ∧ L.Pairwise (fun a b => a.mtime ≤ b.mtime) ∧
      ∀ evs : List Ev, (evs.foldl feedEv (start now fs)).s.msgs.map ident =
        L.map (fun f => (f.path, sizeAt fs f.path)) := by
  obtain ⟨L, h1, h2, h3⟩ := getlist_sorted_perm now (cleanTmp now fs)
  rw [eligible_cleanTmp] at h1
  refine ⟨L, h1, h2, ?_⟩
  intro evs
  rw [C19_numbering evs (start now fs)]
  show (getlist now (cleanTmp now fs)).map ident = _
  rw [h3, List.map_map]
  apply List.map_congr_left
  intro f hf
  have hd := eligible_dir now fs f (h1.subset hf)
  have hp : f.path.take 4 ≠ tmpSl := by
    rcases hd with hd | hd
    · have : f.path.take 4 = newSl := by simpa [inDir] using hd
      rw [this]; decide
    · have : f.path.take 4 = curSl := by simpa [inDir] using hd
      rw [this]; decide
  simp only [Function.comp, ident, startMsg, sizeAt_cleanTmp now fs f.path hp]

/-! ### STAT and LAST -/

/-- **STAT** answers "+OK count total": `total` is the sum of the announced sizes of the messages not
marked deleted (computed in unsigned long, i.e. modulo 2^64 — exact whenever the sum is below 2^64);
`count` is the number of messages at start-up (marked ones included: outside the property). -/
theorem C19_stat (s : Sess) (verb arg : Bytes) (hv : verbIs vStat verb = true) :
    exec s verb arg = (s, okSp ++ fmtNat (s.msgs.length % U32) ++ [SP] ++ fmtNat (liveTotal s.msgs % U64) ++ [CR, LF], none) ∧
    (liveTotal s.msgs < U64 → liveTotal s.msgs % U64 = liveTotal s.msgs) := by
  have h : lower verb = vStat := by simpa [verbIs] using hv
  refine ⟨?_, Nat.mod_eq_of_lt⟩
  simp only [exec, verbIs, h, stat_total]
  simp [vQuit, vStat]

/-- **LAST** answers "+OK n" with the session's `last` … -/
theorem C19_last_reply (s : Sess) (verb arg : Bytes) (hv : verbIs vLast verb = true) :
    exec s verb arg = (s, okSp ++ fmtNat s.last ++ [CR, LF], none) := by
  have h : lower verb = vLast := by simpa [verbIs] using hv
  simp [exec, verbIs, h, vQuit, vStat, vList, vUidl, vDele, vRetr, vTop, vRset, vLast]

/-- … **which is, at every point of every session, the highest message number marked by DELE since
the last RSET** (0 if none): `highMark 0 msgs`, characterised by `C19_last_highest`. -/
theorem C19_last_session (now : Nat) (fs : FS) (evs : List Ev) :
    (evs.foldl feedEv (start now fs)).s.last = highMark 0 (evs.foldl feedEv (start now fs)).s.msgs :=
  feedEvs_lastInv evs (start now fs) (start_lastInv now fs)

/-- one command keeps `last` = highest marked number -/
theorem C19_last_step (s : Sess) (verb arg : Bytes) (h : s.last = highMark 0 s.msgs) :
    (exec s verb arg).1.last = highMark 0 (exec s verb arg).1.msgs := exec_lastInv s verb arg h

/-- `highMark 0 msgs` is the highest marked message number: every marked message has a number ≤ it,
and it is 0 or the number of a marked message -/
theorem C19_last_highest (msgs : List Msg) :
    (∀ i m, msgs[i]? = some m → m.del = true → i + 1 ≤ highMark 0 msgs) ∧
    (highMark 0 msgs = 0 ∨ ∃ i m, msgs[i]? = some m ∧ m.del = true ∧ highMark 0 msgs = i + 1) := by
  refine ⟨?_, ?_⟩
  · intro i m h1 h2
    have := highMark_ge msgs 0 i m h1 h2
    omega
  · rcases highMark_attained msgs 0 with h | ⟨i, m, h1, h2, h3⟩
    · left; exact h
    · right; exact ⟨i, m, h1, h2, by omega⟩

/-! ### commands(): grammar of a line, one handler per line, independence of read sizes -/

/-- **Grammar of a command line.** A line `verb SP^k arg [CR]` — verb without space or NUL, argument
without NUL and not beginning with a space, at least one space if there is an argument, the text not
itself ending in CR — is dispatched as exactly (verb, arg), with or without the CR. -/
theorem C19_parse_grammar (verb arg : Bytes) (k : Nat)
    (hv : ∀ c ∈ verb, c ≠ SP ∧ c ≠ NUL) (ha : ∀ c ∈ arg, c ≠ NUL) (hh : arg.head? ≠ some SP)
    (hk : arg ≠ [] → k ≠ 0) (hcr : (verb ++ (List.replicate k SP ++ arg)).getLast? ≠ some CR) :
    parseLine (verb ++ (List.replicate k SP ++ arg)) = (verb, arg) ∧
    parseLine (verb ++ (List.replicate k SP ++ arg) ++ [CR]) = (verb, arg) := by
  have hb := parse_body verb arg k hv ha hh hk
  constructor
  · unfold parseLine
    simp only [hcr, if_false]
    exact hb
  · unfold parseLine
    simp only [List.getLast?_concat, List.dropLast_concat, if_true]
    exact hb

/-- the excluded lines: **a line containing NUL is cut at the first NUL** (the C string ends there;
a CR before the NUL is then not the end of the line and stays) -/
theorem C19_parse_nul (a b : Bytes) (ha : ∀ c ∈ a, c ≠ NUL) :
    parseLine (a ++ NUL :: b) = (a.takeWhile (· ≠ SP), (a.dropWhile (· ≠ SP)).dropWhile (· = SP)) := by
  have hall : ∀ c ∈ a, (fun x : Byte => decide (x ≠ NUL)) c = true := by
    intro c hc; simpa using ha c hc
  have key : ∀ b' : Bytes, (a ++ NUL :: b').takeWhile (fun x : Byte => decide (x ≠ NUL)) = a :=
    fun b' => takeWhile_stop _ a b' NUL hall (by simp)
  unfold parseLine
  split
  · cases b with
    | nil =>
      rename_i h
      rw [List.getLast?_append] at h
      simp at h
      exact absurd h (by decide)
    | cons x b' =>
      have : (a ++ NUL :: x :: b').dropLast = a ++ NUL :: (x :: b').dropLast := by
        rw [List.dropLast_append_of_ne_nil (by simp), List.dropLast_cons_of_ne_nil (by simp)]
      simp only [this, key]
  · simp only [key]

/-- **Linking lemma** (not an independent check: `Pop3Ref.splitCmd`, which the oracle reads the client's
lines with, is a transcription of `parseLine` without the cut at NUL): on every line without NUL the two agree,
the verb up to case. The independent statements about the grammar of a command line are `C19_parse_grammar`,
`C19_parse_spec` and `C19_parse_split`. -/
theorem C19_parse_ref (line : Bytes) (h : ∀ c ∈ line, c ≠ NUL) :
    splitCmd line = (lower (parseLine line).1, (parseLine line).2) := parse_ref line h

/-- **The model's parser is the independently written splitter of `Nq.CmdLineSpec`** (property C08's
specification of commands.c: drop one CR, cut at the first NUL, the word up to the first space, skip the
spaces) on EVERY line — proved in `Nq.Lemmas.SmtpCmdPop3`, imported read-only. -/
theorem C19_parse_spec (line : Bytes) : parseLine line = Nq.CmdLineSpec.specSplit line :=
  Nq.Lemmas.SmtpCmd.pop3_parseLine_spec line

/-- … and is characterised by the relation `IsSplit` (a declarative grammar of the line; the result is
unique) -/
theorem C19_parse_split (line v a : Bytes) : parseLine line = (v, a) ↔ Nq.CmdLineSpec.IsSplit line v a :=
  Nq.Lemmas.SmtpCmd.pop3_parseLine_isSplit line v a

/-- **commands() runs exactly one handler per LF-terminated line**, in order, on the verb and
argument of that line; after the handler that ends the process nothing more is executed. -/
theorem C19_command_loop (lines : List Bytes) (r : Run) (hc : r.cmd = []) (hl : ∀ l ∈ lines, LF ∉ l) :
    (lines.flatMap (· ++ [LF])).foldl feedByte r = lines.foldl stepLine r :=
  feed_lines lines r hc hl

/-- **The sizes of the reads do not matter**: the same bytes in two pieces or in one. -/
theorem C19_chunking (r : Run) (a b : Bytes) :
    feedEv (feedEv r (.data a)) (.data b) = feedEv r (.data (a ++ b)) := by
  simp only [feedEv_data, List.foldl_append]

/-! ### the model against the independent reference `Nq.Pop3Ref` (audit repair, finding 4)

`Sim s rs` (`Nq.Lemmas.Pop3Walk2`) relates a model state to a reference state: message by message
the same path, announced size = length of the reference's data, marked ⇔ in `rs.marked`; a message's
file is absent ⇔ its path is in `rs.gone`, otherwise it holds the reference's data; `last` is the highest
marked number; plus the static side conditions (no LF in a message path, at most INT_MAX messages, total
size below 2^64 - 1, no modulus).  The theorems of the earlier sections that merely unfold one branch of
`exec` (`C19_listing`, `_list_reply`, `_dele_marks`, `_rset_unmarks`, `_retr_reply`, `_retr_vanished`,
`_last_reply`, `_stat`, `_refuse`) are the linking lemmas of this simulation. -/

/-- **Step simulation.** For every command other than QUIT, in related states: what the model
writes, followed by anything, is accepted by the reference as the reply RFC 1939 requires for that
command — with exactly the reply consumed — the successor states are related again, and the session
goes on. -/
theorem C19_step_simulation (s : Sess) (rs : RSt) (h : Sim s rs) (verb arg : Bytes) (hq : verbIs vQuit verb = false) :
    (∀ w, matchReply (refStep rs (lower verb) arg).2 ((exec s verb arg).2.1 ++ w) = some w) ∧
    Sim (exec s verb arg).1 (refStep rs (lower verb) arg).1 ∧ (exec s verb arg).2.2 = none := by
  have hq' : lower verb ≠ vQuit := by simpa [verbIs] using hq
  have st := step_sim s rs h verb arg hq'
  exact ⟨st.reply, st.next, st.goes_on⟩

/-- a file removed by somebody else: the states stay related when the reference is told -/
theorem C19_sim_vanish (s : Sess) (rs : RSt) (h : Sim s rs) (p : Bytes) :
    Sim { s with fs := fsUnlink s.fs p } { rs with gone := p :: rs.gone } := sim_vanish s rs h p

/-- **The start state is related to the reference's initial state** for the numbering read off
the message table (`numberingOf`: path and data of the file of that name). Hypotheses on the maildir:
at most INT_MAX messages, no LF in a path, total size below 2^64 - 1. -/
theorem C19_sim_start (now : Nat) (fs : FS)
    (h1 : (getlist now (cleanTmp now fs)).length ≤ INT_MAX)
    (h2 : ∀ f ∈ fs, LF ∉ f.path)
    (h3 : ((numberingOf (cleanTmp now fs) (getlist now (cleanTmp now fs))).map (fun r => r.data.length)).sum < U64 - 1) :
    Sim (start now fs).s { msgs := numberingOf (cleanTmp now fs) (getlist now (cleanTmp now fs)) } :=
  sim_start now fs h1 h2 h3

/-- … and with unique names that numbering is admissible in the sense of the property (and of the
driver's oracle): the files themselves, a permutation of the eligible ones, oldest first. -/
theorem C19_numbering_admissible (now : Nat) (fs : FS) (hu : (fs.map (·.path)).Nodup) :
    ∃ L : List File, L.Perm (eligible now fs) ∧ L.Pairwise (fun a b => a.mtime ≤ b.mtime) ∧
      numberingOf (cleanTmp now fs) (getlist now (cleanTmp now fs)) = L.map toR :=
  numbering_admissible now fs hu

/-- **QUIT does not touch anything that is not a message**: a path that is neither the name of a
message nor the new name of one is looked up after QUIT exactly as before — present with the same file
(data, times) or absent. (tmp/ files, dot files, files delivered after start-up, files with mtime ≥ now.) -/
theorem C19_quit_other_paths (s : Sess) (verb arg p : Bytes) (hq : verbIs vQuit verb = true)
    (h1 : ∀ m ∈ s.msgs, m.fn ≠ p) (h2 : ∀ m ∈ s.msgs, seenName m.fn ≠ p) :
    fsFind (exec s verb arg).1.fs p = fsFind s.fs p := by
  simp only [exec, hq, if_true]
  cases hf : fsFind s.fs p with
  | some f => exact quit_keeps s.msgs s.fs [] p f hf (fun m hm e => absurd e (h1 m hm)) (fun m hm _ _ => h2 m hm)
  | none => exact quit_absent s.msgs s.fs [] p hf h2

/-- **Session simulation: the reference accepts every transcript of the model** — `_partial`: the reply
stages of the oracle `sessionOk` are proved for the model on all sessions; its last stage is not.

main() as a non-root user on any maildir (side conditions as in `C19_sim_start`; names unique and no message
carrying the name QUIT would give another: `NamesOk`), fed any sequence of NUL- and LF-free command lines and
removals by third parties: its output is the greeting followed by `w`, and the reference session `walk`,
started on the numbering of the maildir, accepts `w` reply by reply (STAT total, LAST, LIST/UIDL values,
RETR/TOP payloads as decoded by a client, refusals, QUIT's lines by `matchQuit`), exit code 0.
The events split into `pre` (no QUIT line) and `post`. The state `s'` after `pre` is pinned down: related to the
reference's final state (`Sim`: which messages are marked, which files are gone), its maildir is EXACTLY the
maildir main() started from (after maildir_clean) minus the removals in `pre` — every file, message or not,
with its data and times — and its message table denotes the files and sizes of start-up. Without QUIT
(`q = false`) `post = []` and the final maildir is that of `s'`: nothing was removed by the server. With QUIT,
`post` starts with the QUIT line and the final maildir is what pop3_quit's loop makes of `s'`; what that is,
is said path by path by `C19_quit_removes` (marked: gone), `C19_quit_renames` (unmarked in new/: in cur/ with
":2,", same data), `C19_quit_keeps` and `C19_quit_other_paths` (everything else: untouched).

MISSING for the full statement
  `sessionOk numbering (fs1.map toR) (levs.map toREv) main.out (main.fs.map toR) = true`:
the last stage of `sessionOk`, `sortFs (expectFs rs' q …) == sortFs (main.fs.map toR)` — the final maildir as
ONE list equal to the reference's `expectFs` up to order (needs: the path-by-path theorems assembled into a
permutation, and correctness of `Array.qsort`); and a removal in the middle of a command line (the theorem is
at line granularity; `C19_chunking` covers read sizes). -/
theorem C19_session_simulation_partial (uid now : Nat) (fs : FS) (levs : List LEv) (hu : uid ≠ 0)
    (h1 : (getlist now (cleanTmp now fs)).length ≤ INT_MAX)
    (h2 : ∀ f ∈ fs, LF ∉ f.path)
    (h3 : ((numberingOf (cleanTmp now fs) (getlist now (cleanTmp now fs))).map (fun r => r.data.length)).sum < U64 - 1)
    (hn : NamesOk ((getlist now (cleanTmp now fs)).map (·.fn)))
    (hl : ∀ l, LEv.line l ∈ levs → ∀ c ∈ l, c ≠ NUL ∧ c ≠ LF) :
    ∃ w rs' q pre post s', levs = pre ++ post ∧
      (Pop3.main uid true now fs (levs.map LEv.toEv)).out = okLine ++ w ∧
      readLine (okLine ++ w) = some (okSp, w) ∧ isOk okSp = true ∧
      walk { msgs := numberingOf (cleanTmp now fs) (getlist now (cleanTmp now fs)) } (levs.map LEv.toREv) w = some (rs', q) ∧
      (Pop3.main uid true now fs (levs.map LEv.toEv)).code = 0 ∧
      Sim s' rs' ∧ NamesOk (s'.msgs.map (·.fn)) ∧
      s'.fs = vanishedL pre (cleanTmp now fs) ∧
      s'.msgs.map ident = (getlist now (cleanTmp now fs)).map ident ∧
      (∀ l, LEv.line l ∈ pre → verbIs vQuit (parseLine l).1 = false) ∧
      (q = false → post = [] ∧ (Pop3.main uid true now fs (levs.map LEv.toEv)).fs = s'.fs) ∧
      (q = true → (∃ l rest, post = .line l :: rest ∧ verbIs vQuit (parseLine l).1 = true) ∧
        (Pop3.main uid true now fs (levs.map LEv.toEv)).fs = (quitLoop s'.msgs s'.fs []).1) := by
  have hfeed := feed_levs levs (start now fs) rfl (fun l hm hh => (hl l hm LF hh).2 rfl)
  obtain ⟨w, rs', q, pre, post, s', w0, w1, w2, w3, w4, w5, w6, w7, w8, w9⟩ :=
    walk_sim levs (start now fs) _ (sim_start now fs h1 h2 h3) rfl hn (fun l hm c hc => (hl l hm c hc).1)
  rw [main_eq_start uid now fs _ hu, hfeed]
  refine ⟨w, rs', q, pre, post, s', w0, w1, readLine_okLine w, by decide, w2, rfl, w3, w4, w5, w6, ?_, ?_, ?_⟩
  · intro l hm; simpa [verbIs] using w7 l hm
  · intro hq
    obtain ⟨a, b, _⟩ := w8 hq
    exact ⟨a, by rw [b]⟩
  · intro hq
    obtain ⟨⟨l, rest, a, b⟩, _, c⟩ := w9 hq
    exact ⟨⟨l, rest, a, by simpa [verbIs] using b⟩, c⟩


/-! ### Session 4: system calls that fail on files that exist (model `Nq.Pop3F`, file `Nq/Pop3Fault.lean`)

stat() failing in the start-up scan and in getlist(), open_read() and read() failing in RETR/TOP, unlink() and
rename() failing in QUIT — with whatever errno (the code never looks at it). The harness makes exactly these
calls fail in the real program (F lines) and the driver compares `mainF` byte for byte. -/

/-- **Without faults the model with faults is the model all the theorems above speak about.** -/
theorem C19_fault_free (uid : Nat) (havedir : Bool) (now : Nat) (fs : FS) (evs : List Ev) :
    mainF {} uid havedir now fs (evs.map lift) = Pop3.main uid havedir now fs evs :=
  mainF_none uid havedir now fs evs

/-- **A failing read never yields a message that looks complete (1).** blast() with read number `k` failing, for
every limit, file and k: either the read was never needed (the limit of TOP was reached before, or k lies beyond
the read that returns 0) and the client gets the complete blast() — which `C19_retr`/`C19_top` decode to the stored
lines —, or the process died (`die()` = `_exit(0)` without flushing) and what reached the client is a PROPER prefix
of it. -/
theorem C19_fault_read (limit : Nat) (data : Bytes) (k : Nat) :
    ((blastF limit data k).2 = false → (blastF limit data k).1 = blast limit data) ∧
    ((blastF limit data k).2 = true → ∃ t, t ≠ [] ∧ (blastF limit data k).1 ++ t = blast limit data) :=
  blastF_spec limit data k

/-- **A failing read never yields a message that looks complete (2).** What the client got before the server died
contains no terminating lone-dot line: an RFC 1939 client reading it to the end of the stream has no complete
multi-line response (`popDecode = none`). There is no "truncated message followed by CR LF . CR LF". -/
theorem C19_fault_read_never_complete (limit : Nat) (data : Bytes) (k : Nat) (h : (blastF limit data k).2 = true) :
    popDecode (blastF limit data k).1 = none :=
  blastF_died_undecodable limit data k h

/-- **RETR/TOP of an accepted message under faults: exactly three outcomes, none of them silent.** The session
state is unchanged, and the reply is (a) `-ERR unable to open that message` and the session goes on — the open was
made to fail, or the file is gone —, or (b) `+OK` and the complete blast() of the file, or (c) a read failed:
`+OK`, a proper prefix `p` of that blast() that does not decode, and the process exits (code 0) — the connection
closes. -/
theorem C19_fault_retr (F : Faults) (s : Sess) (ao : Bool) (ar : Option Nat) (verb arg : Bytes) (i : Nat) (m : Msg)
    (hv : verbIs vRetr verb = true ∨ verbIs vTop verb = true) (hn : msgno s arg = .ok i) (hm : s.msgs[i]? = some m) :
    (execF F s ao ar verb arg).1.1 = s ∧
    (((execF F s ao ar verb arg).1.2.1 = errOpen ∧ (execF F s ao ar verb arg).1.2.2 = none ∧
        (ao = true ∨ fsFind s.fs m.fn = none)) ∨
     (∃ f, fsFind s.fs m.fn = some f ∧ ao = false ∧
        (execF F s ao ar verb arg).1.2.1 = okLine ++ blast (limitFor verb arg) f.data ∧
        (execF F s ao ar verb arg).1.2.2 = none) ∨
     (∃ f p t, fsFind s.fs m.fn = some f ∧ ao = false ∧ ar ≠ none ∧
        (execF F s ao ar verb arg).1.2.1 = okLine ++ p ∧ t ≠ [] ∧ p ++ t = blast (limitFor verb arg) f.data ∧
        popDecode p = none ∧ (execF F s ao ar verb arg).1.2.2 = some 0)) := by
  have hq : verbIs vQuit verb = false := by
    rcases hv with h | h
    · have h' : lower verb = vRetr := by simpa [verbIs] using h
      simp [verbIs, h', vRetr, vQuit]
    · have h' : lower verb = vTop := by simpa [verbIs] using h
      simp [verbIs, h', vTop, vQuit]
  unfold execF
  simp only [hq, Bool.false_eq_true, if_false, hv, if_true, hn, hm]
  by_cases hao : ao = true
  · simp [hao]
  · have hao' : ao = false := by simpa using hao
    simp only [hao', Bool.false_eq_true, if_false]
    cases hf : fsFind s.fs m.fn with
    | none => simp
    | some f =>
      cases ar with
      | none => simp
      | some k =>
        cases hd : (blastF (limitFor verb arg) f.data k).2 with
        | false =>
          refine ⟨rfl, Or.inr (Or.inl ⟨f, rfl, trivial, ?_, ?_⟩)⟩
          · show okLine ++ (blastF (limitFor verb arg) f.data k).1 = _
            rw [(blastF_spec _ _ _).1 hd]
          · show (if (blastF (limitFor verb arg) f.data k).2 = true then some 0 else none) = none
            rw [hd]; rfl
        | true =>
          obtain ⟨t, ht, he⟩ := (blastF_spec _ _ _).2 hd
          refine ⟨rfl, Or.inr (Or.inr ⟨f, (blastF (limitFor verb arg) f.data k).1, t, rfl, trivial, by simp, rfl, ht, he,
            blastF_died_undecodable _ _ _ hd, ?_⟩)⟩
          show (if (blastF (limitFor verb arg) f.data k).2 = true then some 0 else none) = some 0
          rw [hd]; rfl

/-- **No command but QUIT touches the maildir, whatever fails** (in particular a session that dies in the middle
of a message has deleted and renamed nothing). -/
theorem C19_fault_only_quit_touches (F : Faults) (s : Sess) (ao : Bool) (ar : Option Nat) (verb arg : Bytes)
    (hq : verbIs vQuit verb = false) : (execF F s ao ar verb arg).1.1.fs = s.fs :=
  execF_fs F s ao ar verb arg hq

/-- **Deletions only of marked messages, also when some unlink or rename fails.** `C19_quit_keeps` for every set of
failing unlink() and rename() calls: a file that is neither a marked message nor an unmarked message of new/ nor
the new name of one is still there after QUIT, unchanged. -/
theorem C19_fault_quit_keeps (F : Faults) (s : Sess) (ao : Bool) (ar : Option Nat) (verb arg p : Bytes) (f : File)
    (hq : verbIs vQuit verb = true) (hf : fsFind s.fs p = some f)
    (h1 : ∀ m ∈ s.msgs, m.fn = p → m.del = false ∧ (m.fn.take 4 == newSl) = false)
    (h2 : ∀ m ∈ s.msgs, m.del = false → (m.fn.take 4 == newSl) = true → seenName m.fn ≠ p) :
    fsFind (execF F s ao ar verb arg).1.1.fs p = some f := by
  simp only [execF, hq, if_true]
  rw [quitLoopF_eff]
  have hsub := (effective_sublist F.u F.n s.msgs 0 0).subset
  exact quit_keeps _ s.fs [] p f hf (fun m hm => h1 m (hsub hm)) (fun m hm => h2 m (hsub hm))

/-- **new → cur renames never lose a message, and a failing unlink never removes one.** For every set of failing
calls, an unmarked message `new/x` whose file `f` is there is after QUIT either still `new/x` (its rename failed)
or `cur/x:2,` with `new/x` gone — the same file in both cases. (Names unique, `cur/x:2,` not a marked message: as
in `C19_quit_renames`.) -/
theorem C19_fault_quit_never_loses (F : Faults) (s : Sess) (ao : Bool) (ar : Option Nat) (verb arg : Bytes) (m : Msg) (f : File)
    (hq : verbIs vQuit verb = true) (hm : m ∈ s.msgs) (hd : m.del = false) (hn : m.fn.take 4 = newSl)
    (hf : fsFind s.fs m.fn = some f) (hu : (s.msgs.map (·.fn)).Nodup)
    (h2 : ∀ x ∈ s.msgs, x.fn = seenName m.fn → x.del = false) :
    fsFind (execF F s ao ar verb arg).1.1.fs m.fn = some f ∨
    (fsFind (execF F s ao ar verb arg).1.1.fs (seenName m.fn) = some { f with path := seenName m.fn } ∧
     fsFind (execF F s ao ar verb arg).1.1.fs m.fn = none) := by
  simp only [execF, hq, if_true]
  rw [quitLoopF_eff]
  have hsl := effective_sublist F.u F.n s.msgs 0 0
  have hsub := hsl.subset
  by_cases hin : m ∈ effective F.u F.n 0 0 s.msgs
  · right
    exact quit_renames _ s.fs [] m f hin hd hn hf ((hsl.map (·.fn)).nodup hu) (fun x hx => h2 x (hsub hx))
  · left
    refine quit_keeps _ s.fs [] m.fn f hf ?_ ?_
    · intro x hx hxe
      have hxm : x = m := nodup_fn_inj s.msgs hu x m (hsub hx) hm hxe
      exact absurd (hxm ▸ hx) hin
    · intro x _ _ _
      exact seenName_ne_new x.fn m.fn hn

/-- **A marked message whose unlink fails is not lost either**: after QUIT it is gone or still exactly there. -/
theorem C19_fault_quit_marked (F : Faults) (s : Sess) (ao : Bool) (ar : Option Nat) (verb arg : Bytes) (m : Msg) (f : File)
    (hq : verbIs vQuit verb = true) (hm : m ∈ s.msgs) (hd : m.del = true) (hf : fsFind s.fs m.fn = some f)
    (hu : (s.msgs.map (·.fn)).Nodup) (h2 : ∀ x ∈ s.msgs, seenName x.fn ≠ m.fn) :
    fsFind (execF F s ao ar verb arg).1.1.fs m.fn = none ∨ fsFind (execF F s ao ar verb arg).1.1.fs m.fn = some f := by
  simp only [execF, hq, if_true]
  rw [quitLoopF_eff]
  have hsub := (effective_sublist F.u F.n s.msgs 0 0).subset
  by_cases hin : m ∈ effective F.u F.n 0 0 s.msgs
  · left
    exact quit_removes _ s.fs [] m hin hd (fun x hx => h2 x (hsub hx))
  · right
    refine quit_keeps _ s.fs [] m.fn f hf ?_ ?_
    · intro x hx hxe
      have hxm : x = m := nodup_fn_inj s.msgs hu x m (hsub hx) hm hxe
      exact absurd (hxm ▸ hx) hin
    · intro x hx _ _
      exact h2 x (hsub hx)

/-- **Start-up under failing stat() calls.** A file whose stat fails in the scan (`A`) is treated exactly like a
file that is too young: it gets no number in this session (and QUIT will not touch it) — so `C19_startup_order`,
`C19_session_numbering` … apply to the maildir `hideA A now fs`. A message whose second stat, in getlist(), fails
(`G`) is announced with size 0 — the code's `m[i].size = 0` (finding C19-F1 in notes/C19.md); every other size is
the length of the file. -/
theorem C19_fault_startup (A G : List Bytes) (now : Nat) (fs : FS) :
    getlistF A G now fs =
      (getlist now (hideA A now fs)).map (fun m => if G.contains m.fn then { m with size := 0 } else m) :=
  getlistF_eq A G now fs


/-- **Listed sizes are not truncated.** Whatever `st_size` a message has (any natural number: `big` hands over the
sizes of files the driver does not materialise, e.g. 4 GiB + 1234), the start-up table records it, and the size
field LIST / LIST n print for it is its full decimal representation: it reads back (`decVal`) as exactly that
number — not that number modulo 2^32. -/
theorem C19_list_size_unbounded (big : List (Bytes × Nat)) (now : Nat) (fs : FS) (i : Nat) (m : Msg) (n : Nat)
    (hm : (getlist now fs)[i]? = some m) (hb : big.lookup m.fn = some n) :
    (getlistS big now fs)[i]? = some { m with size := n } ∧
    listLine i { m with size := n } false = fmtNat (i + 1) ++ [SP] ++ fmtNat n ++ [CR, LF] ∧
    decVal (fmtNat n) = n := by
  refine ⟨?_, by simp [listLine], Nq.Lemmas.Pop3Fmt.decVal_fmtNat n⟩
  simp [getlistS, hm, hb]

/-! ### Non-vacuity (bytes written out: 10 = LF, 13 = CR, 46 = '.', 97 = 'a', 32 = SP) -/

/-- "a LF LF . LF . . LF b" — header, blank, a lone dot, a dot-dot line, unterminated last line -/
example : blast 0 [97, 10, 10, 46, 10, 46, 46, 10, 98]
    = [97, 13, 10, 13, 10, 46, 46, 13, 10, 46, 46, 46, 13, 10, 98, 13, 10, 13, 10, 46, 13, 10] := by decide
example : lines [97, 10, 10, 46, 10, 46, 46, 10, 98] = [[97], [], [46], [46, 46], [98]] := by decide
example : popDecode (blast 0 [97, 10, 10, 46, 10, 46, 46, 10, 98] ++ [43])
    = some ([[97], [], [46], [46, 46], [98], []], [43]) := by decide
/-- TOP … 1 of the same message -/
example : popDecode (blast 2 [97, 10, 10, 46, 10, 46, 46, 10, 98]) = some ([[97], [], [46], []], []) := by decide
example : topLines 1 [[97], [], [46], [46, 46], [98]] = [[97], [], [46]] := by decide
/-- "DELE 0", "DELE 3" with two messages, "DELE x" are refused -/
example : ∃ r, msgno { msgs := [⟨[], 0, false⟩, ⟨[], 0, true⟩], last := 0, fs := [] } [48] = .err r := ⟨_, rfl⟩
example : (scanWith true [49, 56, 52, 52, 54, 55, 52, 52, 48, 55, 51, 55, 48, 57, 53, 53, 49, 54, 49, 55]).1 = U64 - 1 := by decide
/-- … while the wrapping scanner reads 2^64+1 as 1 -/
example : (scanWith false [49, 56, 52, 52, 54, 55, 52, 52, 48, 55, 51, 55, 48, 57, 53, 53, 49, 54, 49, 55]).1 = 1 := by decide

/-- heap sort of dt = 5 3 9 3 1 (ids 0..4): the two 3s come out in heap order (the later one first) -/
example : pqDrain 5 ([⟨5, 0⟩, ⟨3, 1⟩, ⟨9, 2⟩, ⟨3, 3⟩, ⟨1, 4⟩].foldl pqInsert [])
    = [⟨1, 4⟩, ⟨3, 3⟩, ⟨3, 1⟩, ⟨5, 0⟩, ⟨9, 2⟩] := by decide
/-- a maildir in readdir order: cur/b (mtime 7), new/.x (dot file), new/a (mtime 9), new/c (mtime 3),
tmp/t, cur/late (mtime = now): numbering c, b, a -/
example : getlist 10 [⟨[99, 117, 114, 47, 98], [1, 2], 7, 0⟩, ⟨[110, 101, 119, 47, 46, 120], [], 1, 0⟩,
      ⟨[110, 101, 119, 47, 97], [1], 9, 0⟩, ⟨[110, 101, 119, 47, 99], [1, 2, 3], 3, 0⟩,
      ⟨[116, 109, 112, 47, 116], [], 1, 0⟩, ⟨[99, 117, 114, 47, 108], [], 10, 0⟩]
    = [⟨[110, 101, 119, 47, 99], 3, false⟩, ⟨[99, 117, 114, 47, 98], 2, false⟩, ⟨[110, 101, 119, 47, 97], 1, false⟩] := by
  decide
example : (eligible 10 [⟨[99, 117, 114, 47, 98], [1, 2], 7, 0⟩, ⟨[110, 101, 119, 47, 46, 120], [], 1, 0⟩,
      ⟨[110, 101, 119, 47, 97], [1], 9, 0⟩, ⟨[110, 101, 119, 47, 99], [1, 2, 3], 3, 0⟩,
      ⟨[116, 109, 112, 47, 116], [], 1, 0⟩, ⟨[99, 117, 114, 47, 108], [], 10, 0⟩]).map (·.mtime) = [9, 3, 7] := by decide
/-- "STAT" is the STAT verb; three messages, the second marked: total 10 -/
example : verbIs vStat [83, 84, 65, 84] = true := by decide
example : liveTotal [⟨[], 3, false⟩, ⟨[], 5, true⟩, ⟨[], 7, false⟩] = 10 := by decide
/-- messages 2 and 3 of 4 marked: LAST reports 3 -/
example : highMark 0 [⟨[], 0, false⟩, ⟨[], 0, true⟩, ⟨[], 0, true⟩, ⟨[], 0, false⟩] = 3 := by decide
example : verbIs vLast [108, 65, 115, 84] = true := by decide
/-- "DELE  1" CR and "QUIT" -/
example : parseLine [68, 69, 76, 69, 32, 32, 49, 13] = ([68, 69, 76, 69], [49]) := by decide
example : parseLine [81, 85, 73, 84] = ([81, 85, 73, 84], []) := by decide
/-- "a" NUL "b": cut at the NUL -/
example : parseLine [97, 0, 98] = ([97], []) := by decide
/-- two lines, the second never runs because the first is QUIT -/
example : ((stepLine (stepLine { s := ⟨[], 0, []⟩ } [113, 117, 105, 116]) [110, 111, 111, 112]).exit = some 0) := by decide

/-- "1x" is not a message number, "1", "1 5" and "1 " are -/
example : endsOk [49, 120] = false ∧ endsOk [49] = true ∧ endsOk [49, 32, 53] = true ∧ endsOk [49, 32] = true := by decide
example : msgArg [49, 120] = none ∧ msgArg [49, 32, 53] = some 1 := by decide
/-- "USER" / "pass" are the verbs; an unmarked new/ message: "new/a" → "cur/a:2," -/
example : verbIs vUser [85, 83, 69, 82] = true ∧ verbIs vPass [112, 97, 115, 115] = true := by decide
example : seenName [110, 101, 119, 47, 97] = [99, 117, 114, 47, 97, 58, 50, 44] := by decide
example : (exec ⟨[⟨[110, 101, 119, 47, 97], 1, false⟩, ⟨[99, 117, 114, 47, 98], 1, true⟩], 2,
      [⟨[110, 101, 119, 47, 97], [120], 1, 1⟩, ⟨[99, 117, 114, 47, 98], [121], 1, 1⟩]⟩ vQuit []).1.fs
    = [⟨[99, 117, 114, 47, 97, 58, 50, 44], [120], 1, 1⟩] := by decide
/-- "TOP 1 18446744073709551615": the count saturates, the limit is 0 -/
example : topCount [49, 32, 49, 56, 52, 52, 54, 55, 52, 52, 48, 55, 51, 55, 48, 57, 53, 53, 49, 54, 49, 53] = some (U64 - 1) := by decide

/-- the hypotheses of `C19_session_simulation_partial` hold for the maildir of the example above and the session
"DELE 1", new/a removed by somebody else, "retr 3" CR, "QUIT" -/
def exFs : FS := [⟨[99, 117, 114, 47, 98], [1, 2], 7, 0⟩, ⟨[110, 101, 119, 47, 46, 120], [], 1, 0⟩,
      ⟨[110, 101, 119, 47, 97], [1], 9, 0⟩, ⟨[110, 101, 119, 47, 99], [1, 2, 3], 3, 0⟩,
      ⟨[116, 109, 112, 47, 116], [], 1, 0⟩, ⟨[99, 117, 114, 47, 108], [], 10, 0⟩]
def exLevs : List LEv := [.line [68, 69, 76, 69, 32, 49], .vanish [110, 101, 119, 47, 97], .line [114, 101, 116, 114, 32, 51, 13], .line [81, 85, 73, 84]]
example : (getlist 10 (cleanTmp 10 exFs)).length ≤ INT_MAX := by decide
example : ∀ f ∈ exFs, LF ∉ f.path := by decide
example : ((numberingOf (cleanTmp 10 exFs) (getlist 10 (cleanTmp 10 exFs))).map (fun r => r.data.length)).sum < U64 - 1 := by decide
example : NamesOk ((getlist 10 (cleanTmp 10 exFs)).map (·.fn)) := by unfold NamesOk; decide
example : ∀ l, LEv.line l ∈ exLevs → ∀ c ∈ l, c ≠ NUL ∧ c ≠ LF := by
  intro l hl
  simp only [exLevs, List.mem_cons, LEv.line.injEq, List.not_mem_nil, or_false, reduceCtorEq, false_or] at hl
  rcases hl with rfl | rfl | rfl <;> decide

/-! ### Non-vacuity of the session-4 theorems -/

/-- "a LF b LF c": read 1 (the one that returns 0) fails after both complete lines were put: nothing of them had
been flushed (the 1024-byte buffer was not full), the client gets nothing after "+OK" and the server is dead -/
example : blastF 0 [97, 10, 98, 10, 99] 1 = ([], true) := by decide
/-- read 2 does not exist for a 5-byte file: the complete message -/
example : blastF 0 [97, 10, 98, 10, 99] 2 = (blast 0 [97, 10, 98, 10, 99], false) := by decide
/-- TOP … 0 (limit 1) of "a LF LF b LF": the loop ends at the first body line, read 1 is never needed -/
example : (blastF 1 [97, 10, 10, 98, 10] 1).2 = false := by decide
/-- the 1024-byte buffer: 600 pending + a put of 500 flushes the 600; a put of 9300 leaves 1108 → nothing pending -/
example : putStep 600 500 = 500 ∧ putStep 0 9300 = 0 ∧ putStep 0 (8192 + 500) = 500 ∧ putStep 1000 24 = 1024 := by decide
/-- QUIT with messages 1 (cur/b, marked) and 2 (new/a): unlink 0 fails → cur/b stays, one -ERR line, new/a is renamed;
rename 0 fails → new/a stays -/
example : (execF { u := [0] } ⟨[⟨[99, 117, 114, 47, 98], 1, true⟩, ⟨[110, 101, 119, 47, 97], 1, false⟩], 1,
      [⟨[110, 101, 119, 47, 97], [120], 1, 1⟩, ⟨[99, 117, 114, 47, 98], [121], 1, 1⟩]⟩ false none vQuit []).1.1.fs
    = [⟨[99, 117, 114, 47, 97, 58, 50, 44], [120], 1, 1⟩, ⟨[99, 117, 114, 47, 98], [121], 1, 1⟩] := by decide
example : (execF { n := [0] } ⟨[⟨[99, 117, 114, 47, 98], 1, true⟩, ⟨[110, 101, 119, 47, 97], 1, false⟩], 1,
      [⟨[110, 101, 119, 47, 97], [120], 1, 1⟩, ⟨[99, 117, 114, 47, 98], [121], 1, 1⟩]⟩ false none vQuit []).1.1.fs
    = [⟨[110, 101, 119, 47, 97], [120], 1, 1⟩] := by decide
/-- the maildir of `exFs` when the scan cannot stat new/c and getlist() cannot stat cur/b: two messages, b with size 0 -/
example : getlistF [[110, 101, 119, 47, 99]] [[99, 117, 114, 47, 98]] 10 exFs
    = [⟨[99, 117, 114, 47, 98], 0, false⟩, ⟨[110, 101, 119, 47, 97], 1, false⟩] := by decide
/-- RETR 1 with the next open failing: the arm is used up, the session goes on; with read 0 failing: the server exits -/
example : (execF {} ⟨[⟨[110, 101, 119, 47, 97], 1, false⟩], 0, [⟨[110, 101, 119, 47, 97], [120], 1, 1⟩]⟩ true (some 3) vRetr [49]).2
    = (false, some 3) := by decide
example : (execF {} ⟨[⟨[110, 101, 119, 47, 97], 1, false⟩], 0, [⟨[110, 101, 119, 47, 97], [120], 1, 1⟩]⟩ false (some 0) vRetr [49]).1.2.2
    = some 0 := by decide

/-- a message of 4 GiB + 1234 bytes: "4294968530" reads back as that number (and not as 1234) -/
example : decVal [52, 50, 57, 52, 57, 54, 56, 53, 51, 48] = 4294968530 := by decide
example : (getlistS [([110, 101, 119, 47, 97], 4294968530)] 10 [⟨[110, 101, 119, 47, 97], [122], 9, 0⟩])
    = [⟨[110, 101, 119, 47, 97], 4294968530, false⟩] := by decide

end Nq.Props.C19
