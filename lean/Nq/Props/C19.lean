-- C19 property theorems (to be written)
import Nq.Basic
