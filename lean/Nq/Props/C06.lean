/-
  C06 — Outbound SMTP DATA cannot be terminated or hijacked by message content.

  Model: `Nq.SmtpOut.rblast` (qmail-remote.c `blast()`), tied to the source by the exhaustive
  differential harness `harness/c06_blast.c`.  Only property theorems live here.
-/
import Nq.Lemmas.SmtpSim
import Nq.Lemmas.SmtpDecode
import Nq.Lemmas.SmtpWire

namespace Nq.Props.C06
open Nq Nq.SmtpOut Nq.SmtpIn Nq.Wire Nq.Lemmas

/-- **Terminator exactly once, at the very end.** Whatever the message, the transmitted payload
consists of CR LF-terminated lines of which the last is a lone dot and no earlier one is. -/
theorem C06_terminator (m e : Bytes) (h : rblast m = some e) : termOnce e = true := by
  obtain ⟨ls, h1, h2⟩ := wire_lines m .top [] e h (by simp [RInv])
  have hno : ls.contains [DOT] = false := by
    cases hc : ls.contains [DOT] with
    | false => rfl
    | true =>
      have hmem : [DOT] ∈ ls := by simpa using hc
      have := (h2 _ hmem).1
      simp [stuffedLine] at this
  have hno' : [DOT] ∉ ls := by simpa using hno
  simp [termOnce, splitCRLF, h1, hno']

/-- **No bare LF** is transmitted. -/
theorem C06_nolf (m e : Bytes) (h : rblast m = some e) : noBareLF e = true :=
  wire_nolf m .top 0 e h

/-- **Every line that begins with a dot is dot-stuffed** (and no line contains a LF). -/
theorem C06_stuffed (m e : Bytes) (h : rblast m = some e) : linesStuffed e = true := by
  obtain ⟨ls, h1, h2⟩ := wire_lines m .top [] e h (by simp [RInv])
  simp only [linesStuffed, splitCRLF, h1, List.dropLast_concat, List.all_eq_true]
  intro l hl
  have := h2 l hl
  simp [this.1, this.2]

/-- **A conforming receiver reconstructs the message**: this package's own server automaton and
the line-based RFC 5321 reference decoder both return exactly `canon m`, and whatever follows the
payload on the connection (`rest`) is left unread, to be taken as the next command. -/
theorem C06_decode (m e rest : Bytes) (h : rblast m = some e) :
    dblast (e ++ rest) = .accepted (canon m) rest ∧ rfcDecode (e ++ rest) = .accepted (canon m) rest := by
  have := sim rest m .top .s1 e (by simp [rel]) h
  have h1 : dblast (e ++ rest) = .accepted (canon m) rest := by
    simpa [dblast, pend, cst, canon, emit] using this
  exact ⟨h1, by rw [← dblast_eq_rfcDecode]; exact h1⟩

/-- For messages without CR bytes the reconstruction is **byte-identical**. -/
theorem C06_identity (m : Bytes) (h : CR ∉ m) : canon m = m := by
  unfold canon
  induction m with
  | nil => simp [crun, cfinish]
  | cons x m ih =>
    have hx : x ≠ CR := fun hx => h (by simp [hx])
    have hm : CR ∉ m := fun hm => h (by simp [hm])
    simp [crun, cstep, hx, ih hm]

/-- The encoder refuses a message (permanent error, nothing after DATA is completed) exactly when
it ends inside a line. -/
theorem C06_partial (m : Bytes) : rblast m = none ↔ rstate .top m = .mid := by
  unfold rblast
  generalize RSt.top = s
  induction m generalizing s with
  | nil => cases s <;> simp [rrun, rfinish, rstate]
  | cons x m ih =>
    simp only [rrun, rstate]
    rw [← ih]
    cases rrun (rstep s x).1 m <;> simp

/-- …which for CR-free messages means: non-empty and not ending in LF. -/
theorem C06_partial_crfree (m : Bytes) (h : CR ∉ m) :
    rblast m = none ↔ (m ≠ [] ∧ m.getLast? ≠ some LF) := by
  rw [C06_partial]
  have key : ∀ (m : Bytes) (s : RSt), CR ∉ m → s ≠ .cr →
      (rstate s m = .mid ↔ (m = [] ∧ s = .mid) ∨ (m ≠ [] ∧ m.getLast? ≠ some LF)) := by
    intro m
    induction m with
    | nil => intro s _ _; simp [rstate]
    | cons x m ih =>
      intro s hcr hs
      have hx : x ≠ CR := fun hx => hcr (by simp [hx])
      have hm : CR ∉ m := fun hm => hcr (by simp [hm])
      have hstep : (rstep s x).1 = (if x = LF then .top else .mid) := by
        cases s <;> by_cases h1 : x = LF <;> by_cases h3 : x = DOT <;> simp_all [rstep]
      simp only [rstate]
      rw [ih _ hm (by rw [hstep]; split <;> simp), hstep]
      cases m with
      | nil => by_cases h1 : x = LF <;> simp [h1]
      | cons y m' => simp [List.getLast?_cons_cons]
  have := key m .top h (by simp)
  simpa using this

/-! ### Non-vacuity: concrete messages meeting the hypotheses (bytes written out:
13 = CR, 10 = LF, 46 = '.', 97 = 'a', 81 85 73 84 = "QUIT") -/

/-- "a CR . LF QUIT LF" (the input that broke the unrepaired code) is sent with the dot stuffed -/
example : rblast [97, 13, 46, 10, 81, 85, 73, 84, 10]
    = some [97, 13, 10, 46, 46, 13, 10, 81, 85, 73, 84, 13, 10, 46, 13, 10] := by decide
example : canon [97, 13, 46, 10, 81, 85, 73, 84, 10] = [97, 10, 46, 10, 81, 85, 73, 84, 10] := by decide
/-- ". LF .. LF a CR LF" -/
example : rblast [46, 10, 46, 46, 10, 97, 13, 10]
    = some [46, 46, 13, 10, 46, 46, 46, 13, 10, 97, 13, 10, 46, 13, 10] := by decide
example : rblast [97, 97] = none := by decide

end Nq.Props.C06
