/-
  C06 — Outbound SMTP DATA cannot be terminated or hijacked by message content.

  Model: `Nq.SmtpOut.rblast` (qmail-remote.c `blast()`), tied to the source by the exhaustive
  differential harness `harness/c06_blast.c` AND by translation: the whole body of `blast()` is extracted from the
  current qmail-remote.c into `Nq.Gen.RemoteBlast.prog` (a `Nq.CFlow.Stmt`) on every run; the `C06_source_*` theorems at
  the end show that its meaning is this automaton.  Only property theorems live here.
-/
import Nq.Lemmas.SmtpSim
import Nq.Lemmas.RemoteSrc.Main
import Nq.Lemmas.SmtpDecode
import Nq.Lemmas.SmtpWire
import Nq.Lemmas.SmtpIO
import Nq.Lemmas.SmtpPrefix
import Nq.Lemmas.SmtpRefuse
import Nq.Lemmas.SmtpEnv
import Nq.Lemmas.SmtpEnvCRLF

namespace Nq.Props.C06
open Nq Nq.SmtpOut Nq.SmtpIn Nq.Wire Nq.Lemmas

/-- **Terminator exactly once, at the very end.** Whatever the message, the transmitted payload
consists of CR LF-terminated lines of which the last is a lone dot and no earlier one is. -/
theorem C06_terminator (m e : Bytes) (h : rblast m = some e) : termOnce e = true := by
  obtain ⟨ls, h1, h2⟩ := wire_lines m .top [] e h (by simp [RInv])
  have hno : ls.contains [DOT] = false := by
    cases hc : ls.contains [DOT] with
    | false => rfl
    | true =>
      have hmem : [DOT] ∈ ls := by simpa using hc
      have := (h2 _ hmem).1
      simp [stuffedLine] at this
  have hno' : [DOT] ∉ ls := by simpa using hno
  simp [termOnce, splitCRLF, h1, hno']

/-- **No bare LF** is transmitted. -/
theorem C06_nolf (m e : Bytes) (h : rblast m = some e) : noBareLF e = true :=
  wire_nolf m .top 0 e h

/-- **Every line that begins with a dot is dot-stuffed** (and no line contains a LF). -/
theorem C06_stuffed (m e : Bytes) (h : rblast m = some e) : linesStuffed e = true := by
  obtain ⟨ls, h1, h2⟩ := wire_lines m .top [] e h (by simp [RInv])
  simp only [linesStuffed, splitCRLF, h1, List.dropLast_concat, List.all_eq_true]
  intro l hl
  have := h2 l hl
  simp [this.1, this.2]

/-- **A conforming receiver reconstructs the message**: this package's own server automaton and
the line-based RFC 5321 reference decoder both return exactly `canon m`, and whatever follows the
payload on the connection (`rest`) is left unread, to be taken as the next command. -/
theorem C06_decode (m e rest : Bytes) (h : rblast m = some e) :
    dblast (e ++ rest) = .accepted (canon m) rest ∧ rfcDecode (e ++ rest) = .accepted (canon m) rest := by
  have := sim rest m .top .s1 e (by simp [rel]) h
  have h1 : dblast (e ++ rest) = .accepted (canon m) rest := by
    simpa [dblast, pend, cst, canon, emit] using this
  exact ⟨h1, by rw [← dblast_eq_rfcDecode]; exact h1⟩

/-- For messages without CR bytes the reconstruction is **byte-identical**. -/
theorem C06_identity (m : Bytes) (h : CR ∉ m) : canon m = m := by
  unfold canon
  induction m with
  | nil => simp [crun, cfinish]
  | cons x m ih =>
    have hx : x ≠ CR := fun hx => h (by simp [hx])
    have hm : CR ∉ m := fun hm => h (by simp [hm])
    simp [crun, cstep, hx, ih hm]

/-- The encoder refuses a message (permanent error, nothing after DATA is completed) exactly when
it ends inside a line. -/
theorem C06_partial (m : Bytes) : rblast m = none ↔ rstate .top m = .mid := by
  unfold rblast
  generalize RSt.top = s
  induction m generalizing s with
  | nil => cases s <;> simp [rrun, rfinish, rstate]
  | cons x m ih =>
    simp only [rrun, rstate]
    rw [← ih]
    cases rrun (rstep s x).1 m <;> simp

/-- …which for CR-free messages means: non-empty and not ending in LF. -/
theorem C06_partial_crfree (m : Bytes) (h : CR ∉ m) :
    rblast m = none ↔ (m ≠ [] ∧ m.getLast? ≠ some LF) := by
  rw [C06_partial]
  have key : ∀ (m : Bytes) (s : RSt), CR ∉ m → s ≠ .cr →
      (rstate s m = .mid ↔ (m = [] ∧ s = .mid) ∨ (m ≠ [] ∧ m.getLast? ≠ some LF)) := by
    intro m
    induction m with
    | nil => intro s _ _; simp [rstate]
    | cons x m ih =>
      intro s hcr hs
      have hx : x ≠ CR := fun hx => hcr (by simp [hx])
      have hm : CR ∉ m := fun hm => hcr (by simp [hm])
      have hstep : (rstep s x).1 = (if x = LF then .top else .mid) := by
        cases s <;> by_cases h1 : x = LF <;> by_cases h3 : x = DOT <;> simp_all [rstep]
      simp only [rstate]
      rw [ih _ hm (by rw [hstep]; split <;> simp), hstep]
      cases m with
      | nil => by_cases h1 : x = LF <;> simp [h1]
      | cons y m' => simp [List.getLast?_cons_cons]
  have := key m .top h (by simp)
  simpa using this

/-! ### What is on the wire when `blast()` does **not** complete (refused message, dropped connection,
failing read): `rfull .top m` = everything handed to `substdio_put`, whatever the outcome -/

/-- on an accepted message `rfull` is the transmission; on a refused one it is what was emitted before
`perm_partialline()`, which is the transmission of `m ++ [LF]` minus its last five bytes -/
theorem C06_rfull (m : Bytes) :
    (∀ e, rblast m = some e → rfull .top m = e) ∧
    (rblast m = none → rfull .top m = rpart .top m ∧
        rblast (m ++ [LF]) = some (rpart .top m ++ [CR, LF, DOT, CR, LF])) :=
  ⟨fun e h => rfull_of_some .top m e h, fun h => ⟨(rfull_of_none .top m h).1, rrun_complete .top m h⟩⟩

/-- **C06_prefix_no_terminator.**  Let `p` be any prefix of what `blast()` emits on message `m` — in
particular the bytes already flushed to the socket when the message is refused for ending inside a line,
when a read of the queue file fails, or when the connection drops.  Then `p` contains no bare LF, and `p`
shows the peer a lone-dot line (end of DATA) **only if** the message was accepted and `p` is its complete
transmission.  So message content cannot end the DATA phase in the failure cases either. -/
theorem C06_prefix_no_terminator (m p t : Bytes) (h : rfull .top m = p ++ t) :
    noBareLF p = true ∧ ([DOT] ∈ (splitCRLF p).1 → rblast m = some p) :=
  prefix_no_terminator m p t h

/-! ### `canon` characterised without the state machine; the CR CR quirk -/

/-- `canon` is the greedy two-byte tokenisation `canonSpec`: CR LF ↦ LF; CR x ↦ LF x with `x` **not
examined again**; a final CR ↦ LF; any other byte itself. -/
theorem C06_canon_spec (m : Bytes) : canon m = canonSpec m := canon_eq_canonSpec m

/-- On messages without two adjacent CRs this is exactly the documented rule `canonDoc`
("CR LF kept, every other CR becomes a line break, the next byte starts the new line"). -/
theorem C06_canon_documented (m : Bytes) (h : noCRCR m = true) : canon m = canonDoc m := by
  rw [canon_eq_canonSpec, canonSpec_eq_canonDoc m h]

/-- The quirk: the byte after a bare CR is literal data even when it is itself a CR (it is written with
`substdio_put(&smtpto,&ch,1)` without passing through the `ch == '\r'` test again). -/
theorem C06_canon_crcr (m : Bytes) : canon (CR :: CR :: m) = LF :: CR :: canon m := canon_cr_cr m

/-! ### Non-vacuity: concrete messages meeting the hypotheses (bytes written out:
13 = CR, 10 = LF, 46 = '.', 97 = 'a', 81 85 73 84 = "QUIT") -/

/-- "a CR . LF QUIT LF" (the input that broke the unrepaired code) is sent with the dot stuffed -/
example : rblast [97, 13, 46, 10, 81, 85, 73, 84, 10]
    = some [97, 13, 10, 46, 46, 13, 10, 81, 85, 73, 84, 13, 10, 46, 13, 10] := by decide
example : canon [97, 13, 46, 10, 81, 85, 73, 84, 10] = [97, 10, 46, 10, 81, 85, 73, 84, 10] := by decide
/-- ". LF .. LF a CR LF" -/
example : rblast [46, 10, 46, 46, 10, 97, 13, 10]
    = some [46, 46, 13, 10, 46, 46, 46, 13, 10, 97, 13, 10, 46, 13, 10] := by decide
example : rblast [97, 97] = none := by decide

/-- CR CR LF: the documented rule gives two line ends, the code gives a line end, a literal CR, a line end -/
example : canon [13, 13, 10] = [10, 13, 10] ∧ canonDoc [13, 13, 10] = [10, 10] ∧
    rblast [13, 13, 10] = some [13, 10, 13, 13, 10, 46, 13, 10] := by decide
/-- CR CR . LF is sent as CR LF CR . CR LF . CR LF: a conforming receiver stores LF CR . LF (`C06_decode`); a
receiver that also breaks lines at a bare CR would see a lone dot.  Observation, see notes/C06.md. -/
example : rblast [13, 13, 46, 10] = some [13, 10, 13, 46, 13, 10, 46, 13, 10] ∧ canon [13, 13, 46, 10] = [10, 13, 46, 10] ∧
    noCRCR [13, 13, 46, 10] = false := by decide
/-- a refused message ("a LF b"): "a CR LF b" was handed to substdio_put; no lone dot, no bare LF in it -/
example : rblast [97, 10, 98] = none ∧ rfull .top [97, 10, 98] = [97, 13, 10, 98] := by decide
example : noCRCR [97, 13, 46, 10, 13, 10] = true := by decide

/-! ### Chunking independence: `blast()` as it runs over substdio (`Nq.SmtpIO.oblast`)

`oblast i o` is qmail-remote.c `blast()` reading the message one byte at a time with
`substdio_get(&ssin,&ch,1)` from `i : Substdio.ISt` (any buffer size, read script `i.rs` = how many bytes
each `read()` of the queue file returns; `0` = a failing read) and writing with the individual
`substdio_put(&smtpto,…)` calls of the source, then `substdio_flush`, to `o : Substdio.OSt` (any buffer size,
write script `o.ws` = how many bytes each `write()` to the socket takes; `0` = a failing write).
`o'.out` is the concatenation of everything the socket took.  The CR look-ahead is an ordinary
`substdio_get`, so it refills the buffer when the CR was the last byte of a read. -/
section chunking
open Nq.Substdio Nq.SmtpIO Nq.Lemmas.SmtpIO

/-- **C06_chunking_anyscript.**  For every read script and every write script, failing calls included:
if `blast()` returns, the bytes put on the wire after what was there before are exactly `rblast m` of the
whole message and the output buffer is empty (flushed); `perm_partialline()` happens only when the pure
encoder refuses the message, and everything emitted before (`rpart`) has then been written or is still in
the buffer; `temp_read()` only after a failing read; `dropped()` only after a failing write.  The substdio
invariants (`0 ≤ p ≤ n`, every copy inside the buffer) are kept. -/
theorem C06_chunking_anyscript (i : ISt) (o : OSt) (hi : IWF i) (ho : OWF o) (hc : cpIn o) :
    match oblast i o with
    | .sent o' => ∃ e, rblast (i.data ++ i.src) = some e ∧ o'.out = o.out ++ o.buf ++ e ∧ o'.buf = [] ∧
                    OWF o' ∧ cpIn o' ∧ o'.n = o.n
    | .partialLine o' => rblast (i.data ++ i.src) = none ∧ o'.out ++ o'.buf = o.out ++ o.buf ++ rpart .top (i.data ++ i.src)
    | .tempRead _ => 0 ∈ i.rs
    | .dropped _ => 0 ∈ o.ws := by
  have := (oblast_spec i o hi ho hc).2
  generalize oblast i o = R at this
  cases R <;> exact this

/-- **C06_chunking_prefix.**  Whatever the outcome and whatever the scripts, what has been written to the
socket followed by what is still in `smtptobuf` is a prefix of (what was pending before, then) `rfull .top m`:
nothing is ever written that the pure encoder would not emit, in that order. -/
theorem C06_chunking_prefix (i : ISt) (o : OSt) (hi : IWF i) (ho : OWF o) (hc : cpIn o) :
    ∃ t, (oblast i o).ost.out ++ (oblast i o).ost.buf ++ t = o.out ++ o.buf ++ rfull .top (i.data ++ i.src) :=
  (oblast_spec i o hi ho hc).1

/-- **C06_chunking_no_early_end.**  On a connection with nothing pending, for **every** outcome of `blast()`
(returned, message refused, read failed, connection dropped) and every split of reads and writes: the bytes
the socket has taken contain no bare LF, and they show a lone-dot line only if `blast()`'s complete
transmission of an accepted message is on the wire. -/
theorem C06_chunking_no_early_end (i : ISt) (o : OSt) (hi : IWF i) (ho : OWF o) (hc : cpIn o)
    (hfresh : o.out = [] ∧ o.buf = []) :
    noBareLF (oblast i o).ost.out = true ∧
    ([DOT] ∈ (splitCRLF (oblast i o).ost.out).1 → rblast (i.data ++ i.src) = some (oblast i o).ost.out) := by
  obtain ⟨t, ht⟩ := C06_chunking_prefix i o hi ho hc
  rw [hfresh.1, hfresh.2] at ht
  simp only [List.nil_append, List.append_assoc] at ht
  exact C06_prefix_no_terminator _ _ _ ht.symm

/-- **C06_chunking.**  With reads and writes that do not fail — but are split in any way whatsoever —
`blast()` returns and the wire carries exactly `rblast m`, or the message ends inside a line and is refused:
the transmission does not depend on how the file is read or how the socket accepts the bytes. -/
theorem C06_chunking (i : ISt) (o : OSt) (hi : IWF i) (ho : OWF o) (hc : cpIn o) (hr : 0 ∉ i.rs) (hw : 0 ∉ o.ws) :
    (∀ e, rblast (i.data ++ i.src) = some e →
        ∃ o', oblast i o = .sent o' ∧ o'.out = o.out ++ o.buf ++ e ∧ o'.buf = []) ∧
    (rblast (i.data ++ i.src) = none → ∃ o', oblast i o = .partialLine o') := by
  have := C06_chunking_anyscript i o hi ho hc
  generalize oblast i o = R at this
  cases R with
  | sent o' =>
    obtain ⟨e, h1, h2, h3, _⟩ := this
    refine ⟨fun e' he' => ⟨o', rfl, ?_, h3⟩, fun hn => ?_⟩
    · rw [h1] at he'; cases he'; exact h2
    · rw [h1] at hn; cases hn
  | partialLine o' =>
    simp only at this
    exact ⟨fun e he => (by rw [this.1] at he; cases he), fun _ => ⟨o', rfl⟩⟩
  | tempRead o' => exact absurd this hr
  | dropped o' => exact absurd this hw

/-- **Independence of the split**, stated directly: two runs on the same message with different buffer
sizes, read sizes and write sizes, starting with nothing pending, put the same bytes on the wire. -/
theorem C06_chunking_indep (i₁ i₂ : ISt) (o₁ o₂ o₁' o₂' : OSt) (hi₁ : IWF i₁) (hi₂ : IWF i₂)
    (ho₁ : OWF o₁) (ho₂ : OWF o₂) (hc₁ : cpIn o₁) (hc₂ : cpIn o₂)
    (hm : i₁.data ++ i₁.src = i₂.data ++ i₂.src) (hp : o₁.out ++ o₁.buf = o₂.out ++ o₂.buf)
    (h₁ : oblast i₁ o₁ = .sent o₁') (h₂ : oblast i₂ o₂ = .sent o₂') : o₁'.out = o₂'.out := by
  have a := C06_chunking_anyscript i₁ o₁ hi₁ ho₁ hc₁
  have b := C06_chunking_anyscript i₂ o₂ hi₂ ho₂ hc₂
  rw [h₁] at a; rw [h₂] at b
  obtain ⟨e₁, a1, a2, _⟩ := a
  obtain ⟨e₂, b1, b2, _⟩ := b
  rw [hm, b1] at a1; cases a1
  rw [a2, b2, hp]

/-- The wire clauses of the property for the bytes **actually written to the socket**: whenever `blast()`
returns on a connection whose output buffer was empty (it is: `DATA` was sent with `substdio_putsflush`),
the concatenation of the `write()`s satisfies terminator-once, no-bare-LF and dot-stuffing. -/
theorem C06_chunking_wire (i : ISt) (o o' : OSt) (hi : IWF i) (ho : OWF o) (hc : cpIn o)
    (hfresh : o.out = [] ∧ o.buf = []) (h : oblast i o = .sent o') :
    termOnce o'.out = true ∧ noBareLF o'.out = true ∧ linesStuffed o'.out = true := by
  have a := C06_chunking_anyscript i o hi ho hc
  rw [h] at a
  obtain ⟨e, a1, a2, _⟩ := a
  rw [hfresh.1, hfresh.2] at a2
  simp only [List.append_nil, List.nil_append] at a2
  rw [a2]
  exact ⟨C06_terminator _ e a1, C06_nolf _ e a1, C06_stuffed _ e a1⟩

/-- **End to end over chunked I/O on both sides**: qmail-remote reads message `m` in any chunks and writes
it in any chunks; qmail-smtpd at the other end receives those bytes (followed by anything, `rest`) in any
segmentation `s`, with any buffer state.  It stores exactly `canon m` and leaves `rest` for the command parser. -/
theorem C06_chunked_roundtrip (i : ISt) (o o' : OSt) (s : ISt) (rest : Bytes) (hi : IWF i) (ho : OWF o) (hc : cpIn o)
    (hfresh : o.out = [] ∧ o.buf = []) (hsent : oblast i o = .sent o')
    (hs : IWF s) (hsr : 0 ∉ s.rs) (hwire : s.data ++ s.src = o'.out ++ rest) :
    (sblast s).view = .accepted (canon (i.data ++ i.src)) rest := by
  have a := C06_chunking_anyscript i o hi ho hc
  rw [hsent] at a
  obtain ⟨e, a1, a2, _⟩ := a
  rw [hfresh.1, hfresh.2] at a2
  simp only [List.append_nil, List.nil_append] at a2
  rcases sblast_spec s hs with ⟨_, e0⟩ | e0
  · exact absurd e0 hsr
  · rw [view_of_agree _ _ _ e0, hwire, a2]
    exact (C06_decode _ e rest a1).1

/-- Non-vacuity: "a CR . LF Q LF" read through a 2-byte buffer in reads of 2 (so the CR is the last byte
of a read and the look-ahead needs a refill), written through a 3-byte buffer to a socket taking
1, 2, 1, … bytes: the dot after the bare CR is stuffed and the wire is `rblast` of the message. -/
example : (match oblast (istart 2 [97, 13, 46, 10, 81, 10] [2, 2, 2, 1]) (ostart 3 [1, 2, 1, 1, 5]) with
    | .sent o' => o'.out | _ => []) = [97, 13, 10, 46, 46, 13, 10, 81, 13, 10, 46, 13, 10] := by decide
example : rblast [97, 13, 46, 10, 81, 10] = some [97, 13, 10, 46, 46, 13, 10, 81, 13, 10, 46, 13, 10] := by decide
example : IWF (istart 2 [97, 13, 46, 10, 81, 10] [2, 2, 2, 1]) ∧ OWF (ostart 3 [1, 2, 1, 1, 5]) ∧
    cpIn (ostart 3 [1, 2, 1, 1, 5]) := by decide
/-- a failing write: `dropped()`; a message ending inside a line: `perm_partialline()` -/
example : (match oblast (istart 2 [97, 10, 98, 10] []) (ostart 3 [1, 0]) with | .dropped _ => true | _ => false) = true := by
  decide
example : (match oblast (istart 2 [97, 10, 98] [1]) (ostart 3 []) with | .partialLine _ => true | _ => false) = true := by
  decide

end chunking

/-! ### The exact refusal criterion (session 4)

`perm_partialline()` is reached exactly when the message, *read the way the encoder reads it*, does not end in a
line end.  Stated (a) through `canon m` - what a conforming receiver would have stored -, (b) on the raw bytes:
the message is a part `p` that does not end in CR followed by a run of `k` CRs (`trailing_crs`: every message is);
with `k = 0` the last byte decides, with `k > 0` the **parity** of the run does, because the look-ahead after a CR
takes the next CR as data (`C06_canon_crcr`): `a CR` is sent, `a CR CR` is refused, `a CR CR CR` is sent. -/

/-- **Refused ⇔ `canon m` is non-empty and does not end in LF.** -/
theorem C06_refused_canon (m : Bytes) :
    rblast m = none ↔ (canon m ≠ [] ∧ (canon m).getLast? ≠ some LF) := by
  rw [rblast_none_iff_mid]
  rcases List.eq_nil_or_concat m with rfl | ⟨q, x, rfl⟩
  · simp [rstate, canon, crun, cfinish]
  · rw [List.concat_eq_append, snoc_mid_iff]
    have hne : canon (q ++ [x]) ≠ [] := by rw [Ne, canon_eq_nil_iff]; simp
    simp [hne]

/-- Complement: **transmitted ⇔ `canon m` is empty or ends in LF**, and then the transmission is everything
emitted for the bytes of `m` followed by the terminator (`CR LF` first if the last line was ended by a final CR). -/
theorem C06_accepted_canon (m : Bytes) :
    (∃ e, rblast m = some e) ↔ (canon m = [] ∨ (canon m).getLast? = some LF) := by
  have h := C06_refused_canon m
  cases hr : rblast m with
  | none =>
    rw [hr] at h
    have := h.mp rfl
    constructor
    · rintro ⟨e, he⟩; cases he
    · rintro (h1 | h1)
      · exact absurd h1 this.1
      · exact absurd h1 this.2
  | some e =>
    rw [hr] at h
    simp only [reduceCtorEq, false_iff, not_and, Decidable.not_not] at h
    constructor
    · intro _
      by_cases hc : canon m = []
      · exact Or.inl hc
      · exact Or.inr (h hc)
    · intro _; exact ⟨e, rfl⟩

/-- **Refused, on the raw bytes**: `m = p ++ CR^k` with `p` not ending in CR.  `k = 0`: refused iff `p` is
non-empty and does not end in LF; `k > 0`: refused iff `k` is even. -/
theorem C06_refused_bytes (p : Bytes) (k : Nat) (hp : p.getLast? ≠ some CR) :
    rblast (p ++ List.replicate k CR) = none ↔
      if k = 0 then (p ≠ [] ∧ p.getLast? ≠ some LF) else k % 2 = 0 := by
  rw [rblast_none_iff_mid, rstate_append, rstate_nocr_end p hp]
  by_cases hk : k = 0
  · subst hk
    by_cases h1 : p = []
    · simp [h1, rstate]
    · by_cases h2 : p.getLast? = some LF <;> simp [h1, h2, rstate]
  · have hne : (if p = [] then RSt.top else if p.getLast? = some LF then .top else .mid) ≠ .cr := by
      by_cases h1 : p = [] <;> by_cases h2 : p.getLast? = some LF <;> simp [h1, h2]
    rw [(rstate_crs k).1 _ hne (by omega)]
    simp only [hk, if_false]
    by_cases hpar : k % 2 = 1
    · simp [hpar]
    · simp only [hpar, if_false, true_iff]; omega

/-- the hypothesis of `C06_refused_bytes` excludes nothing: every message has that shape -/
theorem C06_refused_bytes_cover (m : Bytes) :
    ∃ p k, m = p ++ List.replicate k CR ∧ p.getLast? ≠ some CR := trailing_crs m

/-- Non-vacuity: `a CR` is sent, `a CR CR` refused (canon = `a LF CR`), `a CR CR CR` sent, `a LF` sent, `a` refused. -/
example : rblast [97, 13] ≠ none ∧ rblast [97, 13, 13] = none ∧ rblast [97, 13, 13, 13] ≠ none ∧
    rblast [97, 10] ≠ none ∧ rblast [97] = none ∧ canon [97, 13, 13] = [97, 10, 13] := by decide
example : ([97] : Bytes).getLast? ≠ some CR ∧ ([97] : Bytes) ++ List.replicate 2 CR = [97, 13, 13] := by decide

/-! ### The envelope commands around `blast()` (session 4)

`MAIL FROM:<…>` / `RCPT TO:<…>` are written from `addrmangle(argv[i])` (`Nq.SmtpEnv.mangle`).  `addrmangle` never
refuses and never removes a byte: an address without '@' and the part after the last '@' are copied as they are,
the part before it goes through `quote()`, which only *adds* `"` … `"` and backslashes.  So the command line is one
line exactly when the address brings no CR and no LF - the code itself keeps nothing out (observation in
notes/C06.md; C06's text is about message *content*, the envelope is the caller's). -/

open Nq.SmtpEnv in
/-- every byte other than `"` and `\` (in particular CR and LF) is on the command line iff it is in the address -/
theorem C06_envelope_bytes (x : Byte) (h1 : x ≠ BSL) (h2 : x ≠ DQ) (a : Bytes) : x ∈ mangle a ↔ x ∈ a :=
  mem_mangle x h1 h2 a

open Nq.SmtpEnv in
/-- **Each envelope command is exactly one line iff the address is free of CR and LF** (`pre` = "MAIL FROM:<" or
"RCPT TO:<", or any CR/LF-free bytes).  Both directions: clean addresses (however strange otherwise: quotes,
backslashes, '<', '>', several '@', bytes ≥ 128) cannot break the line; an address with a CR or LF always does -
neither `addrmangle` nor `quote` removes it. -/
theorem C06_envelope_one_line (pre a : Bytes) (hp : CR ∉ pre ∧ LF ∉ pre) :
    isOneLine (cmdLine pre a) = true ↔ cleanAddr a = true := by
  have e : cmdLine pre a = (pre ++ mangle a ++ [GT]) ++ [CR, LF] := by simp [cmdLine]
  rw [e, isOneLine_iff]
  have hc := mem_mangle CR (by decide) (by decide) a
  have hl := mem_mangle LF (by decide) (by decide) a
  simp only [List.mem_append, List.mem_singleton, hc, hl, cleanAddr, Bool.and_eq_true, Bool.not_eq_true',
    List.contains_eq_mem, decide_eq_false_iff_not]
  have g1 : CR ≠ GT := by decide
  have g2 : LF ≠ GT := by decide
  constructor
  · rintro ⟨h1, h2⟩
    exact ⟨fun h => h1 (Or.inl (Or.inr h)), fun h => h2 (Or.inl (Or.inr h))⟩
  · rintro ⟨h1, h2⟩
    refine ⟨?_, ?_⟩
    · rintro ((h | h) | h)
      · exact hp.1 h
      · exact h1 h
      · exact g1 h
    · rintro ((h | h) | h)
      · exact hp.2 h
      · exact h2 h
      · exact g2 h

open Nq.SmtpEnv in
/-- The excluded inputs, concretely: whatever follows a CR LF **after the last '@'** (or anywhere in an address
without '@') is copied to the connection as it is - the peer reads `x ++ ">"` as the next command line. -/
theorem C06_envelope_verbatim_tail (pre b h x : Bytes) (hh : SmtpEnv.AT ∉ h) (hx : SmtpEnv.AT ∉ x) :
    cmdLine pre (b ++ SmtpEnv.AT :: (h ++ [CR, LF] ++ x)) = pre ++ quote b ++ SmtpEnv.AT :: h ++ [CR, LF] ++ x ++ [GT, CR, LF] := by
  have hn : SmtpEnv.AT ∉ h ++ [CR, LF] ++ x := by
    simp only [List.mem_append, List.mem_cons, List.not_mem_nil, or_false, not_or]
    exact ⟨⟨hh, by decide, by decide⟩, hx⟩
  rw [cmdLine, mangle, lastAt_append b _ hn]
  simp

open Nq.SmtpEnv in
/-- …and an address without '@' is not touched at all. -/
theorem C06_envelope_noat (pre a : Bytes) (h : SmtpEnv.AT ∉ a) : cmdLine pre a = pre ++ a ++ [GT, CR, LF] := by
  simp [cmdLine, mangle, lastAt_of_not_mem h]

open Nq.SmtpEnv in
/-- Non-vacuity: `a"b\@h` is one line (`MAIL FROM:<"a\"b\\"@h>`); `a@h CR LF Q` is two. -/
example : isOneLine (cmdLine mailPre [97, 34, 98, 92, 64, 104]) = true ∧
    cmdLine mailPre [97, 34, 98, 92, 64, 104] = mailPre ++ [34, 97, 92, 34, 98, 92, 92, 34, 64, 104, 62, 13, 10] ∧
    isOneLine (cmdLine mailPre [97, 64, 104, 13, 10, 81]) = false ∧
    cmdLine mailPre [97, 64, 104, 13, 10, 81] = mailPre ++ [97, 64, 104, 13, 10, 81, 62, 13, 10] ∧
    (CR ∉ mailPre ∧ LF ∉ mailPre) ∧ (CR ∉ rcptPre ∧ LF ∉ rcptPre) := by decide

open Nq.SmtpEnv in
/-- **Where a peer that ends lines at CR LF only (RFC 5321) sees an extra line end**: an adjacent CR LF is in the mangled
address iff it is in the part copied as it is - the whole address when there is no '@', otherwise the part after the
last '@'.  In the part before the last '@' `quote()` puts a backslash before every CR and every LF, so no CR LF pair
survives there (the bare LF / bare CR do: `C06_envelope_one_line`). -/
theorem C06_envelope_crlf (a : Bytes) : hasCRLF (mangle a) = crlfSpec a := by
  rw [hasCRLF_mangle]; rfl

open Nq.SmtpEnv in
/-- Non-vacuity: `a CR LF b @ h` → `"a \\ CR \\ LF b"@h`, no CR LF pair; `a @ h CR LF b` keeps it. -/
example : hasCRLF (mangle [97, 13, 10, 98, 64, 104]) = false ∧ mangle [97, 13, 10, 98, 64, 104] = [34, 97, 92, 13, 92, 10, 98, 34, 64, 104] ∧
    hasCRLF (mangle [97, 64, 104, 13, 10, 98]) = true := by decide


/-! ### The text of `blast()` as it is in qmail-remote.c now

`Nq.Gen.RemoteBlast.prog` is regenerated from the clang AST of the source on every run (tools/extractors/c06.py, tools/cflow.py);
`Nq.CFlow.advance` gives it its meaning (small-step with an explicit continuation, run from read point to read point).  The
continuations at the three `substdio_get` calls are the control points `kTop`, `kMid`, `kCr`. -/
section source
open Nq.CFlow Nq.RemoteSrc

/-- **The table.** The extracted function runs from its start to the first read without writing anything; resumed at the control
point of automaton state `s` with a byte it runs to the control point of `(rstep s c).1` having put exactly `(rstep s c).2`; with
the end of the input it returns (top: `flagcritical = 1`, ". CR LF", flush), refuses the message (mid: `perm_partialline()`), or
completes the line and reads again at the top (cr); with a read error it calls `temp_read()`.  Whatever stale byte is in `ch`.
(Exhaustive kernel evaluation of the interpreter over 3 control points x 256 bytes x 3 kinds of read result.) -/
theorem C06_source_table (s : RSt) (c : Byte) :
    start = .atGet kTop [] ∧
    resume FUEL (kOf s) c.toNat 1 = .atGet (kOf (rstep s c).1) (putEvs (rstep s c).2) ∧
    resume FUEL (kOf s) c.toNat 0 = eofExpect s ∧ resume FUEL (kOf s) c.toNat 2 = .exited 0 [] := by
  have h := tab s c.toNat c.toNat_lt
  simp only [UInt8.ofNat_toNat] at h
  exact ⟨start_eq, h⟩

/-- **The whole extracted function over any message is the encoder**: fed the bytes of `m` and then the end of the input, it
returns iff `rblast m` is defined, having put exactly `rblast m`; otherwise it calls `perm_partialline()` having put exactly
`rpart .top m` (what C06_prefix_no_terminator speaks about).  No other outcome exists. -/
theorem C06_source_spec (m : Bytes) :
    view (feed kTop (m.map (fun b => b.toNat))) =
      some (rblast m, match rblast m with | some e => e | none => rpart .top m) := by
  have h := feed_eq m .top
  simp only [kOf] at h
  rw [h, mrun_view m .top]
  rfl

/-- **Where the "possible duplicate" flag is raised** (C09's clause, read off the source text): when the extracted function returns,
`flagcritical = 1` was executed exactly once, after every byte of the message was put, immediately before ". CR LF", and the
function's only flush comes right after those three bytes. -/
theorem C06_source_critical (m : Bytes) (evs : List Ev) (h : feed kTop (m.map (fun b => b.toNat)) = .finished evs) :
    ∃ pre, evs = pre ++ [.crit, .put 46, .put 13, .put 10, .flush] ∧ Ev.crit ∉ pre ∧ Ev.flush ∉ pre := by
  have h2 := feed_eq m .top
  simp only [kOf] at h2
  rw [h2] at h
  exact mrun_crit m .top evs h

/-- Non-vacuity: the extracted source on "a CR . LF" (a bare CR followed by a dot: the class of defect b886fc3) and on a partial line. -/
example : view (feed kTop [97, 13, 46, 10]) = some (some [97, 13, 10, 46, 46, 13, 10, 46, 13, 10], [97, 13, 10, 46, 46, 13, 10, 46, 13, 10]) := by
  decide +kernel
example : view (feed kTop [97, 10, 98]) = some (none, [97, 13, 10, 98]) := by decide +kernel

end source

end Nq.Props.C06
