/-
  C06 — Outbound SMTP DATA cannot be terminated or hijacked by message content.

  Model: `Nq.SmtpOut.rblast` (qmail-remote.c `blast()`), tied to the source by the exhaustive
  differential harness `harness/c06_blast.c`.  Only property theorems live here.
-/
import Nq.Lemmas.SmtpSim
import Nq.Lemmas.SmtpDecode
import Nq.Lemmas.SmtpWire
import Nq.Lemmas.SmtpIO
import Nq.Lemmas.SmtpPrefix

namespace Nq.Props.C06
open Nq Nq.SmtpOut Nq.SmtpIn Nq.Wire Nq.Lemmas

/-- **Terminator exactly once, at the very end.** Whatever the message, the transmitted payload
consists of CR LF-terminated lines of which the last is a lone dot and no earlier one is. -/
theorem C06_terminator (m e : Bytes) (h : rblast m = some e) : termOnce e = true := by
  obtain ⟨ls, h1, h2⟩ := wire_lines m .top [] e h (by simp [RInv])
  have hno : ls.contains [DOT] = false := by
    cases hc : ls.contains [DOT] with
    | false => rfl
    | true =>
      have hmem : [DOT] ∈ ls := by simpa using hc
      have := (h2 _ hmem).1
      simp [stuffedLine] at this
  have hno' : [DOT] ∉ ls := by simpa using hno
  simp [termOnce, splitCRLF, h1, hno']

/-- **No bare LF** is transmitted. -/
theorem C06_nolf (m e : Bytes) (h : rblast m = some e) : noBareLF e = true :=
  wire_nolf m .top 0 e h

/-- **Every line that begins with a dot is dot-stuffed** (and no line contains a LF). -/
theorem C06_stuffed (m e : Bytes) (h : rblast m = some e) : linesStuffed e = true := by
  obtain ⟨ls, h1, h2⟩ := wire_lines m .top [] e h (by simp [RInv])
  simp only [linesStuffed, splitCRLF, h1, List.dropLast_concat, List.all_eq_true]
  intro l hl
  have := h2 l hl
  simp [this.1, this.2]

/-- **A conforming receiver reconstructs the message**: this package's own server automaton and
the line-based RFC 5321 reference decoder both return exactly `canon m`, and whatever follows the
payload on the connection (`rest`) is left unread, to be taken as the next command. -/
theorem C06_decode (m e rest : Bytes) (h : rblast m = some e) :
    dblast (e ++ rest) = .accepted (canon m) rest ∧ rfcDecode (e ++ rest) = .accepted (canon m) rest := by
  have := sim rest m .top .s1 e (by simp [rel]) h
  have h1 : dblast (e ++ rest) = .accepted (canon m) rest := by
    simpa [dblast, pend, cst, canon, emit] using this
  exact ⟨h1, by rw [← dblast_eq_rfcDecode]; exact h1⟩

/-- For messages without CR bytes the reconstruction is **byte-identical**. -/
theorem C06_identity (m : Bytes) (h : CR ∉ m) : canon m = m := by
  unfold canon
  induction m with
  | nil => simp [crun, cfinish]
  | cons x m ih =>
    have hx : x ≠ CR := fun hx => h (by simp [hx])
    have hm : CR ∉ m := fun hm => h (by simp [hm])
    simp [crun, cstep, hx, ih hm]

/-- The encoder refuses a message (permanent error, nothing after DATA is completed) exactly when
it ends inside a line. -/
theorem C06_partial (m : Bytes) : rblast m = none ↔ rstate .top m = .mid := by
  unfold rblast
  generalize RSt.top = s
  induction m generalizing s with
  | nil => cases s <;> simp [rrun, rfinish, rstate]
  | cons x m ih =>
    simp only [rrun, rstate]
    rw [← ih]
    cases rrun (rstep s x).1 m <;> simp

/-- …which for CR-free messages means: non-empty and not ending in LF. -/
theorem C06_partial_crfree (m : Bytes) (h : CR ∉ m) :
    rblast m = none ↔ (m ≠ [] ∧ m.getLast? ≠ some LF) := by
  rw [C06_partial]
  have key : ∀ (m : Bytes) (s : RSt), CR ∉ m → s ≠ .cr →
      (rstate s m = .mid ↔ (m = [] ∧ s = .mid) ∨ (m ≠ [] ∧ m.getLast? ≠ some LF)) := by
    intro m
    induction m with
    | nil => intro s _ _; simp [rstate]
    | cons x m ih =>
      intro s hcr hs
      have hx : x ≠ CR := fun hx => hcr (by simp [hx])
      have hm : CR ∉ m := fun hm => hcr (by simp [hm])
      have hstep : (rstep s x).1 = (if x = LF then .top else .mid) := by
        cases s <;> by_cases h1 : x = LF <;> by_cases h3 : x = DOT <;> simp_all [rstep]
      simp only [rstate]
      rw [ih _ hm (by rw [hstep]; split <;> simp), hstep]
      cases m with
      | nil => by_cases h1 : x = LF <;> simp [h1]
      | cons y m' => simp [List.getLast?_cons_cons]
  have := key m .top h (by simp)
  simpa using this

/-! ### What is on the wire when `blast()` does **not** complete (refused message, dropped connection,
failing read): `rfull .top m` = everything handed to `substdio_put`, whatever the outcome -/

/-- on an accepted message `rfull` is the transmission; on a refused one it is what was emitted before
`perm_partialline()`, which is the transmission of `m ++ [LF]` minus its last five bytes -/
theorem C06_rfull (m : Bytes) :
    (∀ e, rblast m = some e → rfull .top m = e) ∧
    (rblast m = none → rfull .top m = rpart .top m ∧
        rblast (m ++ [LF]) = some (rpart .top m ++ [CR, LF, DOT, CR, LF])) :=
  ⟨fun e h => rfull_of_some .top m e h, fun h => ⟨(rfull_of_none .top m h).1, rrun_complete .top m h⟩⟩

/-- **C06_prefix_no_terminator.**  Let `p` be any prefix of what `blast()` emits on message `m` — in
particular the bytes already flushed to the socket when the message is refused for ending inside a line,
when a read of the queue file fails, or when the connection drops.  Then `p` contains no bare LF, and `p`
shows the peer a lone-dot line (end of DATA) **only if** the message was accepted and `p` is its complete
transmission.  So message content cannot end the DATA phase in the failure cases either. -/
theorem C06_prefix_no_terminator (m p t : Bytes) (h : rfull .top m = p ++ t) :
    noBareLF p = true ∧ ([DOT] ∈ (splitCRLF p).1 → rblast m = some p) :=
  prefix_no_terminator m p t h

/-! ### `canon` characterised without the state machine; the CR CR quirk -/

/-- `canon` is the greedy two-byte tokenisation `canonSpec`: CR LF ↦ LF; CR x ↦ LF x with `x` **not
examined again**; a final CR ↦ LF; any other byte itself. -/
theorem C06_canon_spec (m : Bytes) : canon m = canonSpec m := canon_eq_canonSpec m

/-- On messages without two adjacent CRs this is exactly the documented rule `canonDoc`
("CR LF kept, every other CR becomes a line break, the next byte starts the new line"). -/
theorem C06_canon_documented (m : Bytes) (h : noCRCR m = true) : canon m = canonDoc m := by
  rw [canon_eq_canonSpec, canonSpec_eq_canonDoc m h]

/-- The quirk: the byte after a bare CR is literal data even when it is itself a CR (it is written with
`substdio_put(&smtpto,&ch,1)` without passing through the `ch == '\r'` test again). -/
theorem C06_canon_crcr (m : Bytes) : canon (CR :: CR :: m) = LF :: CR :: canon m := canon_cr_cr m

/-! ### Non-vacuity: concrete messages meeting the hypotheses (bytes written out:
13 = CR, 10 = LF, 46 = '.', 97 = 'a', 81 85 73 84 = "QUIT") -/

/-- "a CR . LF QUIT LF" (the input that broke the unrepaired code) is sent with the dot stuffed -/
example : rblast [97, 13, 46, 10, 81, 85, 73, 84, 10]
    = some [97, 13, 10, 46, 46, 13, 10, 81, 85, 73, 84, 13, 10, 46, 13, 10] := by decide
example : canon [97, 13, 46, 10, 81, 85, 73, 84, 10] = [97, 10, 46, 10, 81, 85, 73, 84, 10] := by decide
/-- ". LF .. LF a CR LF" -/
example : rblast [46, 10, 46, 46, 10, 97, 13, 10]
    = some [46, 46, 13, 10, 46, 46, 46, 13, 10, 97, 13, 10, 46, 13, 10] := by decide
example : rblast [97, 97] = none := by decide

/-- CR CR LF: the documented rule gives two line ends, the code gives a line end, a literal CR, a line end -/
example : canon [13, 13, 10] = [10, 13, 10] ∧ canonDoc [13, 13, 10] = [10, 10] ∧
    rblast [13, 13, 10] = some [13, 10, 13, 13, 10, 46, 13, 10] := by decide
/-- CR CR . LF is sent as CR LF CR . CR LF . CR LF: a conforming receiver stores LF CR . LF (`C06_decode`); a
receiver that also breaks lines at a bare CR would see a lone dot.  Observation, see notes/C06.md. -/
example : rblast [13, 13, 46, 10] = some [13, 10, 13, 46, 13, 10, 46, 13, 10] ∧ canon [13, 13, 46, 10] = [10, 13, 46, 10] ∧
    noCRCR [13, 13, 46, 10] = false := by decide
/-- a refused message ("a LF b"): "a CR LF b" was handed to substdio_put; no lone dot, no bare LF in it -/
example : rblast [97, 10, 98] = none ∧ rfull .top [97, 10, 98] = [97, 13, 10, 98] := by decide
example : noCRCR [97, 13, 46, 10, 13, 10] = true := by decide

/-! ### Chunking independence: `blast()` as it runs over substdio (`Nq.SmtpIO.oblast`)

`oblast i o` is qmail-remote.c `blast()` reading the message one byte at a time with
`substdio_get(&ssin,&ch,1)` from `i : Substdio.ISt` (any buffer size, read script `i.rs` = how many bytes
each `read()` of the queue file returns; `0` = a failing read) and writing with the individual
`substdio_put(&smtpto,…)` calls of the source, then `substdio_flush`, to `o : Substdio.OSt` (any buffer size,
write script `o.ws` = how many bytes each `write()` to the socket takes; `0` = a failing write).
`o'.out` is the concatenation of everything the socket took.  The CR look-ahead is an ordinary
`substdio_get`, so it refills the buffer when the CR was the last byte of a read. -/
section chunking
open Nq.Substdio Nq.SmtpIO Nq.Lemmas.SmtpIO

/-- **C06_chunking_anyscript.**  For every read script and every write script, failing calls included:
if `blast()` returns, the bytes put on the wire after what was there before are exactly `rblast m` of the
whole message and the output buffer is empty (flushed); `perm_partialline()` happens only when the pure
encoder refuses the message, and everything emitted before (`rpart`) has then been written or is still in
the buffer; `temp_read()` only after a failing read; `dropped()` only after a failing write.  The substdio
invariants (`0 ≤ p ≤ n`, every copy inside the buffer) are kept. -/
theorem C06_chunking_anyscript (i : ISt) (o : OSt) (hi : IWF i) (ho : OWF o) (hc : cpIn o) :
    match oblast i o with
    | .sent o' => ∃ e, rblast (i.data ++ i.src) = some e ∧ o'.out = o.out ++ o.buf ++ e ∧ o'.buf = [] ∧
                    OWF o' ∧ cpIn o' ∧ o'.n = o.n
    | .partialLine o' => rblast (i.data ++ i.src) = none ∧ o'.out ++ o'.buf = o.out ++ o.buf ++ rpart .top (i.data ++ i.src)
    | .tempRead _ => 0 ∈ i.rs
    | .dropped _ => 0 ∈ o.ws := by
  have := (oblast_spec i o hi ho hc).2
  generalize oblast i o = R at this
  cases R <;> exact this

/-- **C06_chunking_prefix.**  Whatever the outcome and whatever the scripts, what has been written to the
socket followed by what is still in `smtptobuf` is a prefix of (what was pending before, then) `rfull .top m`:
nothing is ever written that the pure encoder would not emit, in that order. -/
theorem C06_chunking_prefix (i : ISt) (o : OSt) (hi : IWF i) (ho : OWF o) (hc : cpIn o) :
    ∃ t, (oblast i o).ost.out ++ (oblast i o).ost.buf ++ t = o.out ++ o.buf ++ rfull .top (i.data ++ i.src) :=
  (oblast_spec i o hi ho hc).1

/-- **C06_chunking_no_early_end.**  On a connection with nothing pending, for **every** outcome of `blast()`
(returned, message refused, read failed, connection dropped) and every split of reads and writes: the bytes
the socket has taken contain no bare LF, and they show a lone-dot line only if `blast()`'s complete
transmission of an accepted message is on the wire. -/
theorem C06_chunking_no_early_end (i : ISt) (o : OSt) (hi : IWF i) (ho : OWF o) (hc : cpIn o)
    (hfresh : o.out = [] ∧ o.buf = []) :
    noBareLF (oblast i o).ost.out = true ∧
    ([DOT] ∈ (splitCRLF (oblast i o).ost.out).1 → rblast (i.data ++ i.src) = some (oblast i o).ost.out) := by
  obtain ⟨t, ht⟩ := C06_chunking_prefix i o hi ho hc
  rw [hfresh.1, hfresh.2] at ht
  simp only [List.nil_append, List.append_assoc] at ht
  exact C06_prefix_no_terminator _ _ _ ht.symm

/-- **C06_chunking.**  With reads and writes that do not fail — but are split in any way whatsoever —
`blast()` returns and the wire carries exactly `rblast m`, or the message ends inside a line and is refused:
the transmission does not depend on how the file is read or how the socket accepts the bytes. -/
theorem C06_chunking (i : ISt) (o : OSt) (hi : IWF i) (ho : OWF o) (hc : cpIn o) (hr : 0 ∉ i.rs) (hw : 0 ∉ o.ws) :
    (∀ e, rblast (i.data ++ i.src) = some e →
        ∃ o', oblast i o = .sent o' ∧ o'.out = o.out ++ o.buf ++ e ∧ o'.buf = []) ∧
    (rblast (i.data ++ i.src) = none → ∃ o', oblast i o = .partialLine o') := by
  have := C06_chunking_anyscript i o hi ho hc
  generalize oblast i o = R at this
  cases R with
  | sent o' =>
    obtain ⟨e, h1, h2, h3, _⟩ := this
    refine ⟨fun e' he' => ⟨o', rfl, ?_, h3⟩, fun hn => ?_⟩
    · rw [h1] at he'; cases he'; exact h2
    · rw [h1] at hn; cases hn
  | partialLine o' =>
    simp only at this
    exact ⟨fun e he => (by rw [this.1] at he; cases he), fun _ => ⟨o', rfl⟩⟩
  | tempRead o' => exact absurd this hr
  | dropped o' => exact absurd this hw

/-- **Independence of the split**, stated directly: two runs on the same message with different buffer
sizes, read sizes and write sizes, starting with nothing pending, put the same bytes on the wire. -/
theorem C06_chunking_indep (i₁ i₂ : ISt) (o₁ o₂ o₁' o₂' : OSt) (hi₁ : IWF i₁) (hi₂ : IWF i₂)
    (ho₁ : OWF o₁) (ho₂ : OWF o₂) (hc₁ : cpIn o₁) (hc₂ : cpIn o₂)
    (hm : i₁.data ++ i₁.src = i₂.data ++ i₂.src) (hp : o₁.out ++ o₁.buf = o₂.out ++ o₂.buf)
    (h₁ : oblast i₁ o₁ = .sent o₁') (h₂ : oblast i₂ o₂ = .sent o₂') : o₁'.out = o₂'.out := by
  have a := C06_chunking_anyscript i₁ o₁ hi₁ ho₁ hc₁
  have b := C06_chunking_anyscript i₂ o₂ hi₂ ho₂ hc₂
  rw [h₁] at a; rw [h₂] at b
  obtain ⟨e₁, a1, a2, _⟩ := a
  obtain ⟨e₂, b1, b2, _⟩ := b
  rw [hm, b1] at a1; cases a1
  rw [a2, b2, hp]

/-- The wire clauses of the property for the bytes **actually written to the socket**: whenever `blast()`
returns on a connection whose output buffer was empty (it is: `DATA` was sent with `substdio_putsflush`),
the concatenation of the `write()`s satisfies terminator-once, no-bare-LF and dot-stuffing. -/
theorem C06_chunking_wire (i : ISt) (o o' : OSt) (hi : IWF i) (ho : OWF o) (hc : cpIn o)
    (hfresh : o.out = [] ∧ o.buf = []) (h : oblast i o = .sent o') :
    termOnce o'.out = true ∧ noBareLF o'.out = true ∧ linesStuffed o'.out = true := by
  have a := C06_chunking_anyscript i o hi ho hc
  rw [h] at a
  obtain ⟨e, a1, a2, _⟩ := a
  rw [hfresh.1, hfresh.2] at a2
  simp only [List.append_nil, List.nil_append] at a2
  rw [a2]
  exact ⟨C06_terminator _ e a1, C06_nolf _ e a1, C06_stuffed _ e a1⟩

/-- **End to end over chunked I/O on both sides**: qmail-remote reads message `m` in any chunks and writes
it in any chunks; qmail-smtpd at the other end receives those bytes (followed by anything, `rest`) in any
segmentation `s`, with any buffer state.  It stores exactly `canon m` and leaves `rest` for the command parser. -/
theorem C06_chunked_roundtrip (i : ISt) (o o' : OSt) (s : ISt) (rest : Bytes) (hi : IWF i) (ho : OWF o) (hc : cpIn o)
    (hfresh : o.out = [] ∧ o.buf = []) (hsent : oblast i o = .sent o')
    (hs : IWF s) (hsr : 0 ∉ s.rs) (hwire : s.data ++ s.src = o'.out ++ rest) :
    (sblast s).view = .accepted (canon (i.data ++ i.src)) rest := by
  have a := C06_chunking_anyscript i o hi ho hc
  rw [hsent] at a
  obtain ⟨e, a1, a2, _⟩ := a
  rw [hfresh.1, hfresh.2] at a2
  simp only [List.append_nil, List.nil_append] at a2
  rcases sblast_spec s hs with ⟨_, e0⟩ | e0
  · exact absurd e0 hsr
  · rw [view_of_agree _ _ _ e0, hwire, a2]
    exact (C06_decode _ e rest a1).1

/-- Non-vacuity: "a CR . LF Q LF" read through a 2-byte buffer in reads of 2 (so the CR is the last byte
of a read and the look-ahead needs a refill), written through a 3-byte buffer to a socket taking
1, 2, 1, … bytes: the dot after the bare CR is stuffed and the wire is `rblast` of the message. -/
example : (match oblast (istart 2 [97, 13, 46, 10, 81, 10] [2, 2, 2, 1]) (ostart 3 [1, 2, 1, 1, 5]) with
    | .sent o' => o'.out | _ => []) = [97, 13, 10, 46, 46, 13, 10, 81, 13, 10, 46, 13, 10] := by decide
example : rblast [97, 13, 46, 10, 81, 10] = some [97, 13, 10, 46, 46, 13, 10, 81, 13, 10, 46, 13, 10] := by decide
example : IWF (istart 2 [97, 13, 46, 10, 81, 10] [2, 2, 2, 1]) ∧ OWF (ostart 3 [1, 2, 1, 1, 5]) ∧
    cpIn (ostart 3 [1, 2, 1, 1, 5]) := by decide
/-- a failing write: `dropped()`; a message ending inside a line: `perm_partialline()` -/
example : (match oblast (istart 2 [97, 10, 98, 10] []) (ostart 3 [1, 0]) with | .dropped _ => true | _ => false) = true := by
  decide
example : (match oblast (istart 2 [97, 10, 98] [1]) (ostart 3 []) with | .partialLine _ => true | _ => false) = true := by
  decide

end chunking

end Nq.Props.C06
