/-
  C18 — Helpers at trust boundaries act only on validated requests.

  Models: `Nq.Clean` (qmail-clean.c main), `Nq.Spawn` (spawn.c getcmd/docmd/main loop with the
  report() of qmail-lspawn.c / qmail-rspawn.c), `Nq.SendReport` (qmail-send.c del_dochan), tied to
  the sources by the harnesses `harness/c18_clean.c`, `c18_spawn.c`, `c18_send.c` and the translator
  `tools/extractors/c18.py` (report texts and tables).  The predicates `cleanOK`, `allowed`, `okPath`,
  `sendOK` … of `Nq.Spec.TB` are the ones the driver evaluates on the real code's traces.
  Only property theorems live here.
-/
import Nq.Lemmas.CleanL
import Nq.Lemmas.CleanIOL
import Nq.Lemmas.SpawnOOML
import Nq.Lemmas.SpawnL
import Nq.Lemmas.SpawnStreamL
import Nq.Lemmas.SendTruncL
import Nq.Lemmas.SendL
import Nq.Lemmas.SendRefL

namespace Nq.Props.C18
open Nq Nq.Spec.TB

/-! ## qmail-clean -/
section clean
open Nq.Clean Nq.Lemmas.CleanL

/-- **Exactly one status byte per request** — whatever the request and whatever `unlink` returns;
it is the last thing the request causes. -/
theorem C18_clean_one (line : Bytes) (plan : List Nat) :
    (statuses (handleReq line plan).1).length = 1 ∧
    ∃ s, (handleReq line plan).1.getLast? = some (.status s) := by
  obtain ⟨qs, s, h1, _, _, _⟩ := handleReq_shape line plan
  rw [h1, statuses_append, statuses_unlinks]
  exact ⟨rfl, s, by simp⟩

/-- **A rejected request changes nothing**: status `x` ⇒ no `unlink` at all. -/
theorem C18_clean_reject (line : Bytes) (plan : List Nat)
    (h : statuses (handleReq line plan).1 = [stX]) : paths (handleReq line plan).1 = [] := by
  obtain ⟨qs, s, h1, _, h3, _⟩ := handleReq_shape line plan
  rw [h1, statuses_append, statuses_unlinks] at h
  have hs : s = stX := by simpa [statuses] using h
  rw [h1, paths_append, paths_unlinks, h3 hs]; rfl

/-- **Only the named files**: every path passed to `unlink` is one of the (at most two) paths the
property allows for this request — `intd/N` and `mess/(N mod split)/N` for `foop/N`, `intd/N` and
`todo/N` for `todo/N`, `N` the (unbounded) decimal value — never any other path. -/
theorem C18_clean_only (line : Bytes) (plan : List Nat) :
    ∀ p ∈ paths (handleReq line plan).1, p ∈ allowed line := by
  obtain ⟨qs, s, h1, h2, _, _⟩ := handleReq_shape line plan
  rw [h1, paths_append, paths_unlinks]
  intro p hp
  simp [paths] at hp
  exact h2 p hp

/-- **Characterisation of the requests that are acted upon**: if anything is unlinked then the
request is `"foop/" ++ ds ++ [0]` or `"todo/" ++ ds ++ [0]` with `ds` a non-empty string of decimal
digits, 7 ≤ length ≤ 100, whose value is below 2^64 (no wrap-around) and which is the canonical
spelling of that value. -/
theorem C18_clean_valid (line : Bytes) (plan : List Nat) (h : paths (handleReq line plan).1 ≠ []) :
    ∃ ds, (line = FOOP ++ ds ++ [0] ∨ line = TODO ++ ds ++ [0]) ∧ ds ≠ [] ∧ ds.all isDigit = true ∧
      7 ≤ line.length ∧ line.length ≤ 100 ∧ decVal ds < 2 ^ 64 ∧ fmtUlong (decVal ds) = ds := by
  rcases handleReq_cases line plan with hx | ⟨ds, pfx, ps, ha, _, _⟩
  · rw [hx] at h; simp [paths] at h
  · refine ⟨ds, ?_, ha.nonempty, ha.digits, ha.len_lo, ha.len_hi, ha.nowrap, ha.canonical⟩
    rcases ha.pfx_ok with hp | hp
    · left; rw [← hp]; exact ha.shape
    · right; rw [← hp]; exact ha.shape

/-- **Complement — a well-formed request is honoured**: canonical digits below 2^64, total length
at most 100, both `unlink`s succeeding (or ENOENT) ⇒ exactly the two files are removed, in order,
and the answer is `+`. -/
theorem C18_clean_accepts (ds : Bytes) (plan : List Nat) (hne : ds ≠ []) (hd : ds.all isDigit = true)
    (hlen : ds.length ≤ 94) (hv : decVal ds < 2 ^ 64) (hc : fmtUlong (decVal ds) = ds)
    (hplan : ∀ r ∈ plan.take 2, r = 0 ∨ r = 1) :
    (handleReq (FOOP ++ ds ++ [0]) plan).1 =
      [.unlink (fmtqfn INTD (decVal ds) false), .unlink (fmtqfn MESS (decVal ds) true), .status stOK] ∧
    (handleReq (TODO ++ ds ++ [0]) plan).1 =
      [.unlink (fmtqfn INTD (decVal ds) false), .unlink (fmtqfn TODO (decVal ds) false), .status stOK] := by
  have hl : 0 < ds.length := List.length_pos_iff.mpr hne
  have hscan : scanUlong ds = decVal ds := by rw [scanUlong_eq]; exact Nat.mod_eq_of_lt hv
  have hp0 : plan.headD 0 = 0 ∨ plan.headD 0 = 1 := by
    cases plan with
    | nil => simp
    | cons a t => exact hplan a (by simp)
  have hp1 : plan.tail.headD 0 = 0 ∨ plan.tail.headD 0 = 1 := by
    cases plan with
    | nil => simp
    | cons a t => cases t with
      | nil => simp
      | cons b t => exact hplan b (by simp)
  have key : ∀ pfx : Bytes, pfx.length = 5 → ∀ ps, targets pfx (decVal ds) = some ps →
      handleReq (pfx ++ ds ++ [0]) plan = unlinks ps plan := by
    intro pfx hpl ps hps
    have e1 : (pfx ++ ds ++ [0]).length = ds.length + 6 := by simp [hpl]; omega
    have c1 : ¬ (pfx ++ ds ++ [0]).length < 7 := by omega
    have c2 : ¬ (pfx ++ ds ++ [0]).length > 100 := by omega
    have e2 : (pfx ++ ds ++ [0]).getLast? = some 0 := List.getLast?_concat
    have e3 : ((pfx ++ ds ++ [0]).drop 5).dropLast = ds := by
      rw [List.append_assoc, ← hpl, List.drop_left, List.dropLast_concat]
    have e4 : (pfx ++ ds ++ [0]).take 5 = pfx := by
      rw [List.append_assoc, ← hpl, List.take_left]
    unfold handleReq
    simp only [c1, c2, if_false, e2, e3, e4, hd, hscan, hc, hps, ne_eq, not_true_eq_false,
      Bool.not_true, Bool.false_eq_true]
  constructor
  · rw [key FOOP rfl [fmtqfn INTD (decVal ds) false, fmtqfn MESS (decVal ds) true] (by simp [targets])]
    simp only [unlinks, hp0, hp1, if_true]
  · rw [key TODO rfl [fmtqfn INTD (decVal ds) false, fmtqfn TODO (decVal ds) false] (by simp [targets])]
    simp only [unlinks, hp0, hp1, if_true]

/-- **`cleanuppid()` removes only old `pid/` files**: whatever `now()`, `readdir` and `stat` present,
every path the periodic sweep unlinks is `pid/<name>` for an entry `<name>` of the directory that is
not `.`/`..`, whose `stat` succeeded and whose access time lies at least OSSIFIED (36 h) before
`now()` — never a path outside `pid/`-plus-a-listed-name, never a fresh entry. -/
theorem C18_clean_pid (sc : Scan) :
    ∀ p ∈ paths (cleanuppid sc), ∃ es e, sc.ents = some es ∧ e ∈ es ∧ p = PIDDIR ++ e.name ∧
      e.name ≠ DOT1 ∧ e.name ≠ DOT2 ∧ ∃ t, e.atime = some t ∧ t + OSSIFIED ≤ sc.now := by
  intro p hp
  unfold cleanuppid at hp
  cases h : sc.ents with
  | none => simp [h, paths] at hp
  | some es =>
    simp only [h, paths, paths_append, paths_unlinks, List.append_nil] at hp
    obtain ⟨e, he, r⟩ := pidUnlinks_sound sc.now es p hp
    exact ⟨es, e, rfl, he, r⟩

/-- complement: an entry that is not `.`/`..`, can be `stat`ed and is at least OSSIFIED old is
removed by the sweep; and the sweep answers nothing on the status channel. -/
theorem C18_clean_pid_complete (sc : Scan) (es : List PidEnt) (e : PidEnt) (h : sc.ents = some es) (he : e ∈ es)
    (h1 : e.name ≠ DOT1) (h2 : e.name ≠ DOT2) (t : Nat) (ha : e.atime = some t) (ht : t + OSSIFIED ≤ sc.now) :
    PIDDIR ++ e.name ∈ paths (cleanuppid sc) ∧ statuses (cleanuppid sc) = [] := by
  refine ⟨?_, statuses_cleanuppid sc⟩
  unfold cleanuppid
  simp only [h, paths, paths_append, paths_unlinks, List.append_nil]
  exact pidUnlinks_complete sc.now es e he h1 h2 t ha ht

/-- **The whole input stream**: for every byte stream on the request descriptor, every behaviour
of `unlink` and everything `pid/` may contain, the program's event trace consists, request by
request in order, of (at most one) `cleanuppid()` window that removes only old `pid/` entries of
the directory it was shown, then unlinks of files that request names followed by exactly one status
byte (`x` only without unlinks), and nothing else.  (`cleanOK` is the oracle the driver runs on the
real program.) -/
theorem C18_clean_stream (input : Bytes) (plan : List Nat) (scans : List Scan) :
    cleanOK (splitReqs [] input) scans (run input plan scans) = true :=
  cleanOK_runReqs _ _ _ _

/-- **Never any other path** (the flat form of the stream theorem): every path the program ever
passes to `unlink` during a whole run is one of the two files named by a complete request of the
input (`allowed`, empty unless the request is valid) or `pid/<name>` for an entry at least OSSIFIED
old of one of the directory listings it was shown. -/
theorem C18_clean_paths (input : Bytes) (plan : List Nat) (scans : List Scan) :
    ∀ p ∈ paths (run input plan scans),
      (∃ q ∈ splitReqs [] input, p ∈ allowed q) ∨ (∃ sc ∈ scans, pidOld sc p = true) :=
  paths_runReqs _ _ _ _

end clean

/-! ## qmail-lspawn / qmail-rspawn (spawn.c) -/
section spawn
open Nq.Spawn Nq.Lemmas.SpawnL Nq.Lemmas.SpawnStreamL Nq.Gen.SpawnTexts

/-- **The only path opened is the message id of the command, and it is a well-formed queue file
name**: non-empty, at most 99 bytes, decimal digits and `/` only, not starting with `/` (so never
absolute, never containing `.`).  `m` is the message id as `getcmd` collected it (NUL-free, NUL
appended). -/
theorem C18_spawn_open (st : St) (m : Bytes) (hm : st.messid = m ++ [0]) (h0 : ∀ c ∈ m, c ≠ 0) :
    ∀ p, Ev.openRead p ∈ (docmd st).2 → p = m ∧ okPath p = true := by
  intro p hp
  have hdl : st.messid.dropLast = m := by rw [hm, List.dropLast_concat]
  rcases docmd_cases st with ⟨t, _, h⟩ | ⟨hc, j, _, h⟩
  · rw [h] at hp; simp at hp
  · have hok : okPath m = true := by
      obtain ⟨_, _, c3, c4, c5⟩ := hc
      rw [hm] at c3 c4 c5
      exact okPath_of_checks m h0 c3 c4 c5
    have : p = m := by
      rcases h with ⟨t, h, _⟩ | ⟨_, h⟩ | ⟨_, h⟩ <;> rw [h] at hp <;> simp [hdl] at hp <;> exact hp
    exact ⟨this, this ▸ hok⟩

/-- **A message file that is not a regular file owned by the queue user is never handed to a
child**: no `spawn()`, the slot table is unchanged, and the command is answered with one temporary
(`Z`) report carrying its delivery number. -/
theorem C18_spawn_guard (st : St)
    (h : st.plan.headD 0 = 3 ∨ st.plan.headD 0 = 4 ∨ st.plan.headD 0 = 7 ∨ st.plan.headD 0 = 8) :
    (docmd st).1.slots = st.slots ∧
    (∀ s a b c, Ev.spawnCall s a b c ∉ (docmd st).2) ∧
    (∀ p, Ev.openRead p ∈ (docmd st).2 →
      ∃ t, (docmd st).2 = [.openRead p, .report st.delnum t] ∧ t.head? = some 90) := by
  rcases docmd_cases st with ⟨t, _, h1⟩ | ⟨_, j, _, h1⟩
  · rw [h1]; exact ⟨rfl, by simp, by simp⟩
  · rcases h1 with ⟨t, h1, ht⟩ | ⟨h6, _⟩ | ⟨h0, _⟩
    · rw [h1]
      refine ⟨rfl, by simp, ?_⟩
      intro p hp
      have hp' : p = st.messid.dropLast := by simpa using hp
      refine ⟨t, by rw [hp'], ?_⟩
      rcases ht with ⟨a, _⟩ | ⟨a, _⟩ | ⟨_, b⟩ | ⟨_, b⟩ | ⟨a, _⟩
      · omega
      · omega
      · rw [b]; exact guard_texts_Z.1
      · rw [b]; exact guard_texts_Z.2
      · omega
    · omega
    · omega

/-- **Exactly one answer per command, now or later**: `docmd` either writes exactly one report
(carrying the command's delivery number, a fixed text starting with K/Z/D and free of NUL) and
leaves the slots alone, or starts exactly one child in the command's slot and writes nothing;
in both cases  reports written + children running  grows by exactly one. -/
theorem C18_spawn_one_cmd (st : St) (hl : st.slots.length = Nq.Gen.auto_spawn) :
    nReports (docmd st).2 + usedCount (docmd st).1 = usedCount st + 1 ∧
    (∀ d b, Ev.report d b ∈ (docmd st).2 → d = st.delnum ∧ textOK b = true) ∧
    (docmd st).1.slots.length = st.slots.length :=
  docmd_balance st hl

/-- **One report per exited child** (no hypothesis on the slot): a child-exit event for `slot`
changes no other slot (`slots.set slot none`), keeps  reports written + children running  unchanged,
writes a report only if the slot was in use — then exactly one — and every report it writes carries
the number of that slot and a body that starts with K/Z/D and has no NUL.  (The former first
conjunct, which only restated the definition of `childExit`, is replaced by these consequences.) -/
theorem C18_spawn_one_exit (k : Kind) (st : St) (slot wstat : Nat) (hl : st.slots.length = Nq.Gen.auto_spawn) :
    (childExit k st slot wstat).1.slots = st.slots.set slot none ∧
    nReports (childExit k st slot wstat).2 + usedCount (childExit k st slot wstat).1 = usedCount st ∧
    nReports (childExit k st slot wstat).2 = (if slotUsed st.slots slot then 1 else 0) ∧
    (∀ d b, Ev.report d b ∈ (childExit k st slot wstat).2 → d = slot ∧ textOK b = true) ∧
    (∀ e ∈ (childExit k st slot wstat).2, ∃ d b, e = Ev.report d b) := by
  obtain ⟨c1, _, _, _, c5⟩ := childExit_balance k st slot wstat hl
  refine ⟨c5, c1, ?_, ?_, ?_⟩
  · unfold childExit slotUsed
    cases h : st.slots.getD slot none <;> simp [nReports, reportsOf]
  · intro d b hb
    unfold childExit at hb
    cases h : st.slots.getD slot none with
    | none => simp only [h] at hb; cases hb
    | some out =>
      simp only [h, List.mem_singleton, Ev.report.injEq] at hb
      exact ⟨hb.1, hb.2 ▸ reportBody_textOK k wstat out⟩
  · intro e he
    unfold childExit at he
    cases h : st.slots.getD slot none with
    | none => simp only [h] at he; cases he
    | some out =>
      simp only [h, List.mem_singleton] at he
      exact ⟨_, _, he⟩

/-- **A child's report carries only the child's own output**: the body written for an exited child
is either one of the fixed texts of `report()` (extracted from the source), or a status letter
followed by at most two contiguous pieces of the child's output, both free of NUL — never a byte
from beyond the output (the unbounded `substdio_puts` of qmail-rspawn.c before commit 9e1dfcc
violated exactly this).  In every case the body starts with K, Z or D and contains no NUL, so the
report stream stays parseable. -/
theorem C18_spawn_body (k : Kind) (wstat : Nat) (out : Bytes) :
    textOK (reportBody k wstat out) = true ∧
    (reportBody k wstat out ∈ fixedTexts ∨
     ∃ l a b, isLetter l = true ∧ reportBody k wstat out = [l] ++ a ++ b ∧ a <:+: out ∧ b <:+: out ∧
       (∀ c ∈ a, c ≠ 0) ∧ (∀ c ∈ b, c ≠ 0)) :=
  ⟨reportBody_textOK k wstat out, reportBody_shape k wstat out⟩

/-- **One report per command over a whole session**: for every script of events (bytes arriving on
descriptor 0 in any chunking, descriptor 0 reaching EOF at any point — also while deliveries are in
flight —, children writing, and dying in any order, each death seen either as SIGCHLD + EOF on the
pipe in one wake-up or as SIGCHLD first (`select` returning -1) with the EOF on the pipe read any
number of wake-ups later; any file-system behaviour), when the program has run to its end the
number of reports written equals the number of complete commands received before the end of input
(`inputOf`), and no slot is left in use.  `countCmds` counts with the bare framing automaton;
`C18_spawn_grammar` says what it counts. -/
theorem C18_spawn_one (k : Kind) (plan : List Nat) (script : List Op) :
    nReports (run k plan script).2 = countCmds .delnum (inputOf script) ∧ usedCount (run k plan script).1 = 0 :=
  run_balance k plan script

/-- **Every accepted command has its report before the spawner leaves** — the exit test of the main
loop (`exited`: end of input seen and no slot `used`).  (1) At every point of every session, reports
written + slots in use = complete commands received; a slot stays in use from `spawn()` until its
report is written, in particular while its child has been reaped (`pid = 0`) and the EOF on its pipe
has not been read yet.  (2) Hence whenever the exit test holds, exactly one report per received
command has been written.  (3) A slot in use — running or reaped — makes the exit test fail.
(4) Once the test holds no event has any effect, so the model that runs the whole script equals the
one that stops at the exit point `consumed` (which the driver compares with the real program's). -/
theorem C18_spawn_exit (k : Kind) (plan : List Nat) (script : List Op) :
    nReports (orun k { plan := plan } script).2 + usedCount (orun k { plan := plan } script).1
      = countCmds .delnum (inputOf script) ∧
    (exited (orun k { plan := plan } script).1 = true →
      nReports (orun k { plan := plan } script).2 = countCmds .delnum (inputOf script)) ∧
    (∀ (st : St) i out, st.slots.getD i none = some out → exited st = false) ∧
    (∀ (st : St) op, exited st = true → ostep k st op = (st, [])) ∧
    orun k { plan := plan } (script.take (runConsumed k plan script)) = orun k { plan := plan } script := by
  have hb := run_prefix_balance k plan script
  refine ⟨hb, ?_, fun st i out h => not_exited_of_used st i out h, fun st op h => ostep_exited k st op h,
    orun_take_consumed k _ script⟩
  intro he
  have := ((exited_iff _).mp he).2
  omega

/-- **A reaped child still owes its report**: the SIGCHLD handler (`reap`) leaves the slot in use and
writes nothing; the EOF on the pipe of a reaped child (`pipeEof`) writes exactly one report, carrying
the slot's number, the wait status the handler stored and a body that starts with K/Z/D and has no
NUL, and releases exactly that slot; on any other slot it does nothing. -/
theorem C18_spawn_reap (k : Kind) (st : St) (slot wstat : Nat) (hl : st.slots.length = Nq.Gen.auto_spawn) :
    (reap st slot wstat).slots = st.slots ∧ (ostep k st (.reap slot wstat)).2 = [] ∧
    nReports (pipeEof k st slot).2 + usedCount (pipeEof k st slot).1 = usedCount st ∧
    (∀ d b, Ev.report d b ∈ (pipeEof k st slot).2 → d = slot ∧ textOK b = true ∧
      ∃ out ws, st.slots.getD slot none = some out ∧ st.dead.getD slot none = some ws ∧ b = reportBody k ws out) ∧
    ((pipeEof k st slot).2 = [] → (pipeEof k st slot).1 = st) := by
  refine ⟨(reap_facts st slot wstat).1, rfl, (pipeEof_balance k st slot hl).1, ?_, ?_⟩
  · intro d b hb
    rcases pipeEof_cases k st slot with ⟨e, _⟩ | ⟨out, ws, h1, h2, e⟩
    · rw [e] at hb; cases hb
    · rw [e] at hb
      simp only [List.mem_singleton, Ev.report.injEq] at hb
      exact ⟨hb.1, hb.2 ▸ reportBody_textOK k ws out, out, ws, h1, h2, hb.2⟩
  · intro hn
    rcases pipeEof_cases k st slot with ⟨e, _⟩ | ⟨out, ws, _, _, e⟩
    · rw [e]
    · rw [e] at hn; cases hn

/-- **The report reflects how the child ended — never an earlier child's status, never a guess** (round-4
seeds). Of the events on the children's side, a child that merely closes its output descriptors and
lives on (`cclose`) changes nothing and writes nothing: `docmd()` keeps the pipe's write end `d[i].fdout`
open until `sigchld()` has stored the wait status, so the pipe cannot reach EOF before. Every report such an
event causes is the report of the slot's collected output under a wait status that *this* child delivered:
the status of the very death event (`exit`), or the one the handler stored when it reaped this child (`peof`
after `reap`). And whatever the child wrote — a complete success report included — a child killed by a signal
is reported `Z`, and a report `K` requires exit code 0 without a signal for qmail-rspawn (`k = .r`). -/
theorem C18_spawn_report_after_status (k : Kind) (st : St) (op : Op) (hc : childOp op = true) :
    (∀ slot, op = .cclose slot → ostep k st op = (st, [])) ∧
    (∀ e ∈ (ostep k st op).2, ∃ slot ws out, e = Ev.report slot (reportBody k ws out) ∧
        st.slots.getD slot none = some out ∧
        (op = .exit slot ws ∨ (op = .peof slot ∧ st.dead.getD slot none = some ws))) ∧
    (∀ ws out, ws % 128 ≠ 0 → (reportBody k ws out).head? = some 90) ∧
    (∀ ws out, (reportBody .r ws out).head? = some 75 → ws % 128 = 0 ∧ ws / 256 = 0) := by
  refine ⟨?_, ?_, ?_, ?_⟩
  · intro slot h; subst h; rfl
  · intro e he
    cases op with
    | cmd b => simp [childOp] at hc
    | eof => simp [childOp] at hc
    | out slot b =>
      cases h : st.slots.getD slot none with
      | none => simp only [ostep, h] at he; cases he
      | some out => simp only [ostep, h] at he; cases he
    | exit slot wstat =>
      by_cases hd : (st.dead.getD slot none).isSome = true
      · simp only [ostep, hd, if_true] at he; cases he
      · simp only [ostep, hd, Bool.false_eq_true, if_false, childExit] at he
        cases h : st.slots.getD slot none with
        | none => simp only [h] at he; cases he
        | some out =>
          simp only [h, List.mem_singleton] at he
          exact ⟨slot, wstat, out, he, h, Or.inl rfl⟩
    | reap slot wstat => simp only [ostep] at he; cases he
    | peof slot =>
      rcases pipeEof_cases k st slot with ⟨e1, _⟩ | ⟨out, ws, h1, h2, e1⟩
      · simp only [ostep] at he; rw [e1] at he; cases he
      · simp only [ostep] at he; rw [e1] at he
        simp only [List.mem_singleton] at he
        exact ⟨slot, ws, out, he, h1, Or.inr ⟨rfl, h2⟩⟩
    | cclose slot => simp only [ostep] at he; cases he
  · intro ws out h
    cases k with
    | l => simp only [reportBody, lreport, h, ne_eq, not_false_eq_true, if_true]; decide
    | r => simp only [reportBody, rreport, h, ne_eq, not_false_eq_true, if_true]; decide
  · intro ws out h
    simp only [reportBody, rreport] at h
    by_cases h1 : ws % 128 ≠ 0
    · rw [if_pos h1] at h; exact absurd h (by decide)
    · rw [if_neg h1] at h
      by_cases h2 : ws / 256 = Nq.Gen.SpawnTexts.R_SOFTCODE
      · rw [if_pos h2] at h; exact absurd h (by decide)
      · rw [if_neg h2] at h
        by_cases h3 : ws / 256 ≠ 0
        · rw [if_pos h3] at h; exact absurd h (by decide)
        · exact ⟨by omega, by omega⟩

/-- **The open/spawn discipline over a whole session** (the oracle `opensOK` the driver runs on the
real programs): for every script of events — any bytes on descriptor 0 in any chunking, children
writing and exiting in any order, any file-system behaviour `plan` — with `cmds` the complete
commands of the input stream according to the independent grammar `parseCmds`: every path opened is
the message id of one of these commands and satisfies `okPath`; `spawn()` is called only directly
after the open of a file that is regular and owned by the queue user, in the slot and with the
sender and recipient of a command naming that file; after the open of any other file the very next
event is a `Z` report for a command naming it.  In particular `getcmd()` always hands `docmd()` a
message id that is NUL-free with exactly one NUL appended (the invariant `SpawnStreamL.Rel`). -/
theorem C18_spawn_stream (k : Kind) (plan : List Nat) (script : List Op) :
    opensOK (parseCmds ((inputOf script).length + 1) (inputOf script)) plan (run k plan script).2 = true :=
  run_opensOK k plan script _ (Nat.lt_succ_self _)

/-- the command grammar of the oracle does not depend on its fuel once that exceeds the length of the
stream, and it counts what `countCmds` counts: `parseCmds` and the model agree on the framing -/
theorem C18_spawn_cmds (f1 f2 : Nat) (s : Bytes) (h1 : s.length < f1) (h2 : s.length < f2) :
    parseCmds f1 s = parseCmds f2 s :=
  parseCmds_fuel f1 f2 s h1 h2

/-- a delivery-number byte followed by three NUL-free, NUL-terminated fields is exactly one command,
after which the reader is at the start of the next one; an incomplete tail counts for nothing -/
theorem C18_spawn_grammar (d : Byte) (m sd rc : Bytes) (hm : ∀ c ∈ m, c ≠ 0) (hs : ∀ c ∈ sd, c ≠ 0)
    (hr : ∀ c ∈ rc, c ≠ 0) (rest : Bytes) :
    countCmds .delnum (d :: (m ++ 0 :: (sd ++ 0 :: (rc ++ 0 :: rest)))) = 1 + countCmds .delnum rest :=
  count_command d m sd rc hm hs hr rest

/-- a child writing output never changes which slots are in use, and output for a slot without a
child is dropped -/
theorem C18_spawn_out (k : Kind) (st : St) (slot : Nat) (bytes : Bytes) :
    usedCount (ostep k st (.out slot bytes)).1 = usedCount st ∧ (ostep k st (.out slot bytes)).2 = [] := by
  cases h : st.slots.getD slot none with
  | none => simp only [ostep, h, and_self]
  | some out =>
    simp only [ostep, h, and_true]
    exact usedCount_set_same st.slots slot out _ h

end spawn

/-! ## qmail-send report reader (del_dochan) -/
section send
open Nq.SendReport Nq.Lemmas.SendL

/-- **Oversized reports are truncated**: whatever bytes arrive, the report line never holds more
than REPORTMAX bytes. -/
theorem C18_send_bound (env : Env) (st : St) (s : Bytes) (h : st.dlen ≤ Nq.Gen.REPORTMAX) :
    (feed env st s).1.dlen ≤ Nq.Gen.REPORTMAX := feed_dlen env st s h

/-- **Out-of-range and unused delivery numbers change nothing**: a report whose first byte names
a slot beyond `concurrency[c]` or a slot not in use only produces the warning line; slots, jobs,
recipient files and bounce files are untouched. -/
theorem C18_send_ignored (env : Env) (st : St) (dl : Bytes)
    (h : st.slots.getD (dl.headD 0).toNat none = none) :
    processLine env st dl = (st, [.log WARN]) := processLine_unused env st dl h

/-- **A report for a delivery in flight changes at most that delivery's record, once**: the slot
is freed (so a second report for it falls under `C18_send_ignored`), no other slot changes, the
line buffer is untouched; at most one recipient record is marked — the one at the slot's own
`mpos` in the slot's own message — by writing the single byte `D`; at most one bounce is
appended, to that message's bounce file; and a report with an unknown status letter (malformed)
marks nothing and bounces nothing. -/
theorem C18_send_flip (env : Env) (st : St) (dl : Bytes) (sl : Slot)
    (h : st.slots.getD (dl.headD 0).toNat none = some sl) :
    (processLine env st dl).1.slots = st.slots.set (dl.headD 0).toNat none ∧
    (marksOf (processLine env st dl).2 = [] ∨
     marksOf (processLine env st dl).2 =
       [(Clean.fmtqfn (chanaddr env.chan) (st.jobs.getD sl.j ⟨0, 0, 0, false, false, 0, 0⟩).id true, sl.mpos)]) ∧
    (bouncesOf (processLine env st dl).2 = [] ∨
     bouncesOf (processLine env st dl).2 =
       [Clean.fmtqfn (str "bounce/") (st.jobs.getD sl.j ⟨0, 0, 0, false, false, 0, 0⟩).id false]) ∧
    writesOK (processLine env st dl).2 = true ∧
    ((dl.getD 1 0 ≠ 75 ∧ dl.getD 1 0 ≠ 90 ∧ dl.getD 1 0 ≠ 68) →
      marksOf (processLine env st dl).2 = [] ∧ bouncesOf (processLine env st dl).2 = []) := by
  obtain ⟨_, _, h3, h4, h5, h6, h7⟩ := processLine_used env st dl sl h
  exact ⟨h3, h4, h5, h6, h7⟩

/-- **Every byte stream on a report descriptor** (`C18_send_robust` of the design): starting from
an empty report line, for all bytes `s`, all worlds (slots, jobs) and all system-call behaviour,
(1) the records marked are exactly those the stream asks for according to the *declarative*
reference `refMarksDecl` (`Spec/ReportRef.lean`: the stream is cut by the writer's grammar
`delnum text NUL`, no buffer, no REPORTMAX, no byte loop; the first report naming a delivery in
flight decides it, every other report is ignored; the slot table is never mutated) — the same files
in the same order, a mark being lost only when its `open_write` fails (`sendStrictDecl`, the oracle
run on the real code); (2) they form a sub-multiset of the deliveries in flight at the start: a
record is only ever marked for a delivery that was in flight, and at most once per such delivery —
whatever out-of-range, unused, duplicated or mangled reports the stream contains; (3) every write
into a recipient file is the single byte `D` of such a mark. -/
theorem C18_send_robust (env : Env) (st : St) (s : Bytes) (h0 : st.drev = []) (h1 : st.dlen = 0) :
    sendStrictDecl env.chan st.jobs st.slots s (feed env st s).2 = true ∧
    subMultiset (marksOf (feed env st s).2) (inflight env.chan st.jobs st.slots) = true ∧
    writesOK (feed env st s).2 = true :=
  ⟨Nq.Lemmas.SendRefL.feed_stream_decl env st s h0 h1, (feed_stream env st s h0 h1).2, feed_writesOK env st s⟩

/-- the step-based reader `refMarks` (which shares the model's framing: REPORTMAX cut, `n > 1`
trigger, slot table update) and the declarative reader agree on every stream — so the REPORTMAX
truncation can never change which delivery a report names or its status letter (REPORTMAX ≥ 2 is
the only fact about the constant that is used) -/
theorem C18_send_reference (c : Nat) (jobs : List Job) (slots : List (Option Slot)) (s : Bytes) :
    refMarks c jobs slots s = refMarksDecl c jobs slots s :=
  Nq.Lemmas.SendRefL.refMarks_eq_decl c jobs slots s

/-- **An accepted report never exceeds REPORTMAX bytes** (the oracle `truncOK` the driver runs on the
real program's log): for every byte stream, in whatever pieces it is read, from any state whose
report line holds at most REPORTMAX bytes, every log line `delivery <n>: success|failure|deferral:
<text>` carries at most REPORTMAX − 2 bytes of report text — REPORTMAX less the delivery number and
the status letter — or at most REPORTMAX − 3 bytes followed by the fixed sentence qmail-send itself
appends for a message past its queue lifetime.  (`feed` is a fold over single bytes: the model has no
notion of `read()` chunks, so the bound holds for every chunking; the harness delivers the same
stream in reads of 1, 2, 3, 7, 1023, 1024, 2047, 2048 and random sizes and the driver compares.) -/
theorem C18_send_trunc (env : Env) (st : St) (s : Bytes) (h1 : st.dlen ≤ Nq.Gen.REPORTMAX)
    (h2 : st.drev.length = st.dlen) : truncOK (feed env st s).2 = true :=
  Nq.Lemmas.SendTruncL.feed_truncOK env st s h1 h2

/- Still by oracle only: the bounce half of `sendOK` (bounce appends form a sub-multiset of the
   in-flight messages' bounce files) over a whole stream; `C18_send_flip` is its per-report step. -/

end send

/-! ### Non-vacuity for qmail-clean (bytes written out: "foop/12\0", "todo/7\0", …) -/
section examples
open Nq.Clean

/-- "foop/12" NUL removes intd/12 and mess/12/12 (12 mod 23 = 12) and answers '+' -/
example : (handleReq [102, 111, 111, 112, 47, 49, 50, 0] []).1 =
    [.unlink [105, 110, 116, 100, 47, 49, 50], .unlink [109, 101, 115, 115, 47, 49, 50, 47, 49, 50], .status 43] := by decide
/-- "foop/12x" NUL (the input that broke the unrepaired code) is answered 'x' once, nothing removed -/
example : (handleReq [102, 111, 111, 112, 47, 49, 50, 120, 0] []).1 = [.status 120] := by decide
/-- "todoX77" NUL (accepted by the unrepaired 4-byte comparison) is rejected -/
example : (handleReq [116, 111, 100, 111, 88, 55, 55, 0] []).1 = [.status 120] := by decide
/-- "foop/18446744073709551617" NUL (2^64 + 1: removed message 1 before the repair) is rejected -/
example : (handleReq [102, 111, 111, 112, 47, 49, 56, 52, 52, 54, 55, 52, 52, 48, 55, 51, 55, 48, 57, 53, 53, 49, 54, 49, 55, 0] []).1
    = [.status 120] := by decide
/-- a failing unlink (EIO) answers '!' after the first attempt -/
example : (handleReq [116, 111, 100, 111, 47, 55, 0] [2]).1 =
    [.unlink [105, 110, 116, 100, 47, 55], .status 33] := by decide
example : allowed [116, 111, 100, 111, 47, 55, 0] = [[105, 110, 116, 100, 47, 55], [116, 111, 100, 111, 47, 55]] := by decide

/-- `cleanuppid()` at time 1700000000 on a directory "1" (atime exactly OSSIFIED old), "2" (one second
fresher), ".", "..", "3" (stat fails), "4" (atime 0): removes pid/1 and pid/4 only -/
example : cleanuppid ⟨1700000000, some [⟨[49], some 1699870400⟩, ⟨[50], some 1699870401⟩, ⟨[46], some 0⟩, ⟨[46, 46], some 0⟩,
      ⟨[51], none⟩, ⟨[52], some 0⟩]⟩ =
    [.cleanup, .unlink [112, 105, 100, 47, 49], .unlink [112, 105, 100, 47, 52], .cleanupEnd] := by decide
/-- the oracle rejects a sweep that removes the fresh entry "2", and one that removes a path outside `pid/` -/
example : cleanOK [] [⟨1700000000, some [⟨[50], some 1699870401⟩]⟩] [.cleanup, .unlink [112, 105, 100, 47, 50], .cleanupEnd] = false := by
  decide
example : cleanOK [] [⟨1700000000, some [⟨[50], some 0⟩]⟩] [.cleanup, .unlink [105, 110, 116, 100, 47, 50], .cleanupEnd] = false := by
  decide
example : cleanOK [] [⟨1700000000, some [⟨[50], some 0⟩]⟩] [.cleanup, .unlink [112, 105, 100, 47, 50], .cleanupEnd] = true := by
  decide
/-- a whole run: the sweep, then the request "todo/7" -/
example : run [116, 111, 100, 111, 47, 55, 0] [] [⟨200000, some [⟨[120], some 5⟩]⟩] =
    [.cleanup, .unlink [112, 105, 100, 47, 120], .cleanupEnd, .unlink [105, 110, 116, 100, 47, 55],
     .unlink [116, 111, 100, 111, 47, 55], .status 43, ] := by decide

/-- the open/spawn oracle is not trivially true: an open of a path no command names, a spawn after the open of a
foreign-owned file (plan 4), a spawn with another recipient than the command's are all rejected; the honest trace is accepted -/
example : opensOK [] [] [.openRead [49]] = false := by decide
example : opensOK [⟨3, [49], [115], [64]⟩] [4] [.openRead [49], .spawnCall 3 [115] [64] 0] = false := by decide
example : opensOK [⟨3, [49], [115], [64]⟩] [0] [.openRead [49], .spawnCall 3 [115] [64, 120] 0] = false := by decide
example : opensOK [⟨3, [49], [115], [64]⟩] [0] [.openRead [49], .spawnCall 3 [115] [64] 0] = true := by decide
example : opensOK [⟨3, [49], [115], [64]⟩] [4] [.openRead [49], .report 3 [90, 120]] = true := by decide
/-- the command grammar of the oracle: two commands, the second cut short -/
example : parseCmds 11 [3, 49, 0, 0, 64, 0, 4, 50, 0, 115] = [⟨3, [49], [], [64]⟩] := by decide

/-- spawn: delivery 3, message id "1/24", sender "s", recipient "r@h", file regular and owned: opened and spawned -/
example : (Nq.Spawn.cfeed {} [3, 49, 47, 50, 52, 0, 115, 0, 114, 64, 104, 0]).2 =
    [.openRead [49, 47, 50, 52], .spawnCall 3 [115] [114, 64, 104] 1] := by decide
/-- the same with message id "/1" (absolute path): refused before any open -/
example : ((Nq.Spawn.cfeed {} [3, 47, 49, 0, 115, 0, 114, 64, 104, 0]).2.any
    (fun e => match e with | .openRead _ => true | _ => false)) = false := by decide
/-- rspawn: child output "rh" NUL "K" without a final NUL (the input that over-read before 9e1dfcc): report "Dh" -/
example : Nq.Spawn.rreport 0 [114, 104, 0, 75] = [68, 104] := by decide
/-- rspawn: "r" "ok" NUL "K" "accepted" NUL: report "K" "ok" "accepted" -/
example : Nq.Spawn.rreport 0 [114, 111, 107, 0, 75, 97, 0] = [75, 111, 107, 97] := by decide
/-- end of input with a delivery in flight whose child is reaped first: after `c`, `e`, `k` the exit test fails (the
slot still owes its report); the EOF on the pipe writes the report and only then the program may leave -/
example : Nq.Spawn.exited (Nq.Spawn.orun .l {} [.cmd [0, 49, 0, 0, 64, 0], .eof, .reap 0 0]).1 = false := by decide
example : (Nq.Spawn.orun .l {} [.cmd [0, 49, 0, 0, 64, 0], .eof, .reap 0 0, .peof 0]).2 =
    [Nq.Spawn.Ev.openRead [49], .spawnCall 0 [] [64] 0, .report 0 [75]] := by decide
example : Nq.Spawn.exited (Nq.Spawn.orun .l {} [.cmd [0, 49, 0, 0, 64, 0], .eof, .reap 0 0, .peof 0]).1 = true := by decide
example : Nq.Spawn.runConsumed .l [] [.cmd [0, 49, 0, 0, 64, 0], .eof, .reap 0 0, .peof 0, .cmd [1]] = 4 := by decide
/- round-4 seed m3's scenario on the model: a child that wrote a complete success report (`r…\0K…\0`), closed its output
   descriptors (`cclose`: nothing happens) and is later killed by signal 11 is relayed as `Zqmail-remote crashed.` -/
example : (Nq.Spawn.orun .r {} [.cmd [0, 49, 0, 0, 64, 0], .out 0 [114, 0, 75, 111, 107, 10, 0], .cclose 0]).2 =
    [.openRead [49], .spawnCall 0 [] [64] 0] := by decide
example : (Nq.Spawn.orun .r {} [.cmd [0, 49, 0, 0, 64, 0], .out 0 [114, 0, 75, 111, 107, 10, 0], .cclose 0, .exit 0 11]).2 =
    [.openRead [49], .spawnCall 0 [] [64] 0, .report 0 Nq.Gen.SpawnTexts.R_CRASHED] := by decide
example : Nq.Spec.TB.lifeOK [.born 0, .call 0 0, .report 0 [75, 111, 107, 10]] = false ∧
    Nq.Spec.TB.lifeOK [.born 0, .reaped 0 0, .call 0 0, .report 0 [75, 111, 107, 10]] = true ∧
    Nq.Spec.TB.lifeOK [.born 0, .reaped 0 11, .call 0 0, .report 0 [75, 111, 107, 10]] = false ∧
    Nq.Spec.TB.lifeOK [.born 0, .reaped 0 11, .call 0 11, .report 0 [75, 111, 107, 10]] = false ∧
    Nq.Spec.TB.lifeOK [.born 0, .report 0 [90, 10], .reaped 0 11, .call 0 11, .report 0 [90, 10]] = true := by decide
/-- the truncation oracle reads the report text of a log line: "delivery 7: success: ok\n" carries "ok\n";
a status line carries none -/
example : reportTextOf [100, 101, 108, 105, 118, 101, 114, 121, 32, 55, 58, 32, 115, 117, 99, 99, 101, 115, 115, 58, 32, 111, 107, 10]
    = some [111, 107, 10] := by decide
example : reportTextOf [115, 116, 97, 116, 117, 115, 58, 32, 108, 111, 99, 97, 108, 32, 48, 47, 49, 10] = none := by decide
/-- the truncation oracle is a real bound: a text (with its newline) that fits has at most TEXTMAX + 1 bytes unless it
ends with the fixed sentence, and never more than TEXTMAX − 1 + 74 -/
example (t : Bytes) (h : textFits t = true) :
    t.length ≤ TEXTMAX + 1 ∨ (DYINGLOG <:+ t ∧ t.length ≤ TEXTMAX - 1 + 74) := by
  have hl : DYINGLOG.length = 74 := by decide
  unfold textFits at h
  simp only [Bool.or_eq_true, Bool.and_eq_true, decide_eq_true_eq, hl] at h
  rcases h with h | ⟨h, hs⟩
  · exact Or.inl h
  · exact Or.inr ⟨List.isSuffixOf_iff_suffix.mp hs, h⟩
/-- two commands, the second cut short: one complete command -/
example : Nq.Lemmas.SpawnL.countCmds .delnum [3, 49, 0, 0, 64, 0, 4, 50, 0, 115] = 1 := by decide
/-- okPath accepts "1/24", rejects "/1", "1/.", "" -/
example : okPath [49, 47, 50, 52] = true ∧ okPath [47, 49] = false ∧ okPath [49, 47, 46] = false ∧ okPath [] = false := by decide

end examples

/-! ## qmail-clean with read and write faults (session 4): no request is acted on twice or half -/
section cleanio
open Nq.Clean Nq.CleanIO Nq.Lemmas.CleanL Nq.Lemmas.CleanIOL

/-- **The whole run under every I/O behaviour satisfies the oracle `cleanIOOK`**: whatever each `read()`
of the request pipe returns (any short read, EINTR, an error, end of file), whatever `unlink` returns,
whatever `pid/` contains and whatever each `write()` of an answer returns (delivered, EINTR, error):
an interrupted write is retried at once with the same byte; exit code 0 ⇒ no write failed for good and
every complete request that arrived got exactly one answer, after its own unlinks only (`cleanOK`);
exit code 100 ⇒ the last event is the failed write, the request whose answer was lost was handled
completely and once, every earlier one was answered, no later one was touched (`cleanCut`). -/
theorem C18_clean_io_stream (rds : List Rd) (plan : List Nat) (scans : List Scan) (wplan : List Nat) :
    cleanIOOK (splitReqs [] (arrived rds)) scans (runT rds plan scans wplan) (runCode rds plan scans wplan) = true :=
  run_cleanIOOK rds plan scans wplan

/-- **Nothing twice, nothing after a failed write**: the events that took effect are the fault-free run
of the requests that arrived (exit 0, and then no write failed), or (exit 100) exactly its events before
some status byte `b`, whose write is the failed last event — so the files unlinked and the answers
delivered are always a prefix of those of the fault-free run. -/
theorem C18_clean_io_once (rds : List Rd) (plan : List Nat) (scans : List Scan) (wplan : List Nat) :
    ((runCode rds plan scans wplan = 0 ∧ erase (runT rds plan scans wplan) = run (arrived rds) plan scans ∧
        ∀ c, IOEv.wfail c ∉ runT rds plan scans wplan) ∨
     (runCode rds plan scans wplan = 100 ∧ ∃ pre b post tr, run (arrived rds) plan scans = pre ++ Ev.status b :: post ∧
        runT rds plan scans wplan = tr ++ [IOEv.wfail b] ∧ erase tr = pre)) ∧
    paths (erase (runT rds plan scans wplan)) <+: paths (run (arrived rds) plan scans) ∧
    statuses (erase (runT rds plan scans wplan)) <+: statuses (run (arrived rds) plan scans) := by
  unfold runCode runT
  cases ha : emitAlive (run (arrived rds) plan scans) wplan with
  | true =>
    obtain ⟨h1, h2⟩ := emit_alive _ _ ha
    refine ⟨.inl ⟨by simp, h1, h2⟩, ?_, ?_⟩ <;> rw [h1] <;> exact List.prefix_refl _
  | false =>
    obtain ⟨pre, b, post, tr, h1, h2, h3⟩ := emit_dead _ _ ha
    refine ⟨.inr ⟨by simp, pre, b, post, tr, h1, h2, h3⟩, ?_, ?_⟩
    · rw [h2, erase_append, h1, paths_append, h3]; simp only [erase, paths, List.append_nil]; rw [paths_append]; exact List.prefix_append _ _
    · rw [h2, erase_append, h1, statuses_append, h3]; simp only [erase, statuses, List.append_nil]; rw [statuses_append]; exact List.prefix_append _ _

/-- **Reads**: what reaches the request loop does not depend on EINTR or on how `read()` cuts the
stream; nothing after a read error or end of file is seen. -/
theorem C18_clean_io_reads (r1 r2 : List Rd) :
    arrived (r1 ++ .eintr :: r2) = arrived (r1 ++ r2) ∧
    arrived (r1 ++ .err :: r2) = arrived r1 ∧
    arrived (r1 ++ .data [] :: r2) = arrived r1 ∧
    ∀ a b : Bytes, a ≠ [] → b ≠ [] → arrived (r1 ++ .data (a ++ b) :: r2) = arrived (r1 ++ .data a :: .data b :: r2) :=
  ⟨arrived_eintr r1 r2, arrived_err r1 r2, arrived_eof r1 r2, fun a b ha hb => arrived_chunk r1 r2 a b ha hb⟩

/-- **No request is acted on half**: bytes without a NUL at the end of what arrived (a request cut by end
of file — or, with `C18_clean_io_reads`, by a read error) change nothing: same trace, same exit code as
if they had never been sent. -/
theorem C18_clean_io_half (r1 : List Rd) (tail : Bytes) (h : ∀ c ∈ tail, c ≠ 0)
    (plan : List Nat) (scans : List Scan) (wplan : List Nat) :
    runT (r1 ++ [.data tail]) plan scans wplan = runT r1 plan scans wplan ∧
    runCode (r1 ++ [.data tail]) plan scans wplan = runCode r1 plan scans wplan := by
  have hs : splitReqs [] (arrived (r1 ++ [.data tail])) = splitReqs [] (arrived r1) := by
    rcases arrived_append r1 [.data tail] with e | e
    · rw [e]
    · rw [e]
      by_cases ht : tail = []
      · simp [arrived, ht]
      · simp only [arrived, ht, if_false, List.append_nil]
        exact splitReqs_tail _ _ _ h
  unfold runT runCode Clean.run
  rw [hs]
  exact ⟨rfl, rfl⟩

/-- complement of the hypothesis of `C18_clean_io_half`: a tail that does contain a NUL completes a
request, which is then answered (here: the smallest case) -/
example : runT [.data [120], .data [0]] [] [] [] = [.ev .cleanup, .ev (.status 120)] := by decide

/-- "foop/1" | EINTR | "2\0todo/7\0" | read error | (never seen: "todo/9\0"), the first answer interrupted
once, the second failing: both files of 12 removed, '+' delivered at the second attempt, the files of 7
removed, its answer lost, exit 100, request 9 untouched -/
example : runT [.data [102, 111, 111, 112, 47, 49], .eintr, .data [50, 0, 116, 111, 100, 111, 47, 55, 0], .err,
      .data [116, 111, 100, 111, 47, 57, 0]] [] [] [1, 0, 2] =
    [.ev .cleanup, .ev (.unlink [105, 110, 116, 100, 47, 49, 50]), .ev (.unlink [109, 101, 115, 115, 47, 49, 50, 47, 49, 50]),
     .wintr 43, .ev (.status 43), .ev (.unlink [105, 110, 116, 100, 47, 55]), .ev (.unlink [116, 111, 100, 111, 47, 55]), .wfail 43] ∧
    runCode [.data [102, 111, 111, 112, 47, 49], .eintr, .data [50, 0, 116, 111, 100, 111, 47, 55, 0], .err,
      .data [116, 111, 100, 111, 47, 57, 0]] [] [] [1, 0, 2] = 100 := by decide
/-- the oracle rejects: an unlink after the failed write, a second answer for one request, a retry with
another byte, exit code 0 after a failed write -/
example : cleanIOOK [[120, 0], [116, 111, 100, 111, 47, 55, 0]] [] [.ev (.status 120), .wfail 43, .ev (.unlink [105, 110, 116, 100, 47, 55])] 100 = false ∧
    cleanIOOK [[120, 0]] [] [.ev (.status 120), .ev (.status 120)] 0 = false ∧
    cleanIOOK [[120, 0]] [] [.wintr 43, .ev (.status 120)] 0 = false ∧
    cleanIOOK [[120, 0]] [] [.wfail 120] 0 = false ∧
    cleanIOOK [[120, 0]] [] [.wfail 120] 100 = true := by decide

end cleanio

/-! ## spawn.c with failing allocations while a command is read (`flagabort`, session 4) -/
section spawnoom
open Nq.Spawn Nq.SpawnOOM Nq.Lemmas.SpawnOOML Nq.Gen.SpawnTexts

/-- **An aborted command never starts a delivery** (per byte): when the `stralloc_append` for this byte fails or
an earlier one of the same command did, the byte opens nothing, spawns nothing, leaves the slot table, the
wait statuses, the delivery number and the file-system plan untouched; the only event possible is the report
`delnum "Zqmail-spawn out of memory. (#4.3.0)\n"`, written exactly at the NUL that ends the recipient, where the
abort flag is cleared and the next command starts; everywhere else nothing is written and the flag stays set. -/
theorem C18_spawn_oom_step (oom : List Nat) (s : StA) (ch : Byte) (hs : s.st.stage ≠ .delnum)
    (h : s.abort = true ∨ oom.contains s.calls = true) :
    (cstepA oom s ch).1.st.slots = s.st.slots ∧ (cstepA oom s ch).1.st.plan = s.st.plan ∧
    (cstepA oom s ch).1.st.dead = s.st.dead ∧ (cstepA oom s ch).1.st.delnum = s.st.delnum ∧
    (cstepA oom s ch).1.calls = s.calls + 1 ∧
    (if s.st.stage = .recip ∧ ch = 0
     then (cstepA oom s ch).2 = [.report s.st.delnum E_NOMEM0] ∧ (cstepA oom s ch).1.abort = false ∧
          (cstepA oom s ch).1.st.stage = .delnum
     else (cstepA oom s ch).2 = [] ∧ (cstepA oom s ch).1.abort = true ∧ (cstepA oom s ch).1.st.stage ≠ .delnum) := by
  have hc : (s.abort || oom.contains s.calls) = true := by
    rcases h with h | h
    · simp [h]
    · rw [h]; simp
  unfold cstepA
  cases hst : s.st.stage <;> simp only [hst] at hs ⊢
  · exact absurd rfl hs
  all_goals (simp only [hc, if_true]; by_cases h0 : ch = 0 <;> simp [h0, hst])

/-- **… and is reported exactly once** (over the rest of the command, any length): once the flag is set, the
remaining bytes of the command — the rest of the message id, the sender and the recipient, whatever they are and
whichever further allocations fail — cause exactly one event, the out-of-memory report carrying the command's
delivery number; no slot, wait status or plan entry changes, and the program is back at the start of a command
with the flag cleared. -/
theorem C18_spawn_oom_cmd (oom : List Nat) (s : StA) (m sd rc : Bytes) (ha : s.abort = true)
    (hm : ∀ c ∈ m, c ≠ 0) (hsd : ∀ c ∈ sd, c ≠ 0) (hr : ∀ c ∈ rc, c ≠ 0) :
    (s.st.stage = .messid → cfeedA oom s (m ++ 0 :: (sd ++ 0 :: (rc ++ [0]))) =
      ({ st := { s.st with stage := .delnum }, abort := false, calls := s.calls + m.length + 1 + sd.length + 1 + rc.length + 1 },
       [.report s.st.delnum E_NOMEM0])) ∧
    (s.st.stage = .sender → cfeedA oom s (sd ++ 0 :: (rc ++ [0])) =
      ({ st := { s.st with stage := .delnum }, abort := false, calls := s.calls + sd.length + 1 + rc.length + 1 },
       [.report s.st.delnum E_NOMEM0])) ∧
    (s.st.stage = .recip → cfeedA oom s (rc ++ [0]) =
      ({ st := { s.st with stage := .delnum }, abort := false, calls := s.calls + rc.length + 1 },
       [.report s.st.delnum E_NOMEM0])) :=
  ⟨fun h => abort_messid oom s m sd rc h ha hm hsd hr, fun h => abort_sender oom s sd rc h ha hsd hr,
   fun h => abort_recip oom s rc h ha hr⟩

/-- **Complement**: while none of the `stralloc_append` calls made fails, `getcmd()` is exactly the fault-free
`Spawn.cfeed` (to which `C18_spawn_stream`, `C18_spawn_one` … apply) and the flag stays clear. -/
theorem C18_spawn_oom_none (oom : List Nat) (bs : Bytes) (s : StA) (ha : s.abort = false)
    (hn : ∀ n, s.calls ≤ n → n < s.calls + bs.length → oom.contains n = false) :
    (cfeedA oom s bs).1.st = (cfeed s.st bs).1 ∧ (cfeedA oom s bs).2 = (cfeed s.st bs).2 ∧
    (cfeedA oom s bs).1.abort = false :=
  cfeedA_ok oom bs s ha hn

/-- command 05 "1" NUL "" NUL "@" NUL whose third allocation (the sender's NUL) fails: one report, no open -/
example : (cfeedA [2] {} [5, 49, 0, 0, 64, 0]).2 = [.report 5 E_NOMEM0] := by decide
/-- the same command without a failing allocation is opened and spawned -/
example : (cfeedA [7] {} [5, 49, 0, 0, 64, 0]).2 = [.openRead [49], .spawnCall 5 [] [64] 0] := by decide
/-- the oracle rejects an open for an aborted command and a missing out-of-memory report -/
example : oomOK [2] [⟨5, [49], [], [64]⟩] [] [.openRead [49], .spawnCall 5 [] [64] 0] = false ∧
    oomOK [2] [⟨5, [49], [], [64]⟩] [] [.report 5 E_TOOBIG] = false ∧
    oomOK [2] [⟨5, [49], [], [64]⟩] [] [.report 5 E_NOMEM0] = true := by decide

end spawnoom

end Nq.Props.C18
