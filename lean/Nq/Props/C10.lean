/-
  C10 — Recipients are routed and rewritten exactly by the control files.

  Model: `Nq.Rewrite` (constmap hash table, control-file readers, `rewrite()`, `senderadd()`, the
  `todo_do` record loop, the HUP/reread acceptor), tied to control.c, constmap.c and qmail-send.c by
  the differential harness `harness/c10_route.c` (which also runs the real `main()` with real
  SIGHUPs). Specification: `Nq.Route` — the rules of qmail-send(8), addresses(5), qmail-control(5).
-/
import Nq.Lemmas.RewriteSpec
import Nq.Lemmas.RewriteVerp
import Nq.Lemmas.RewriteCase
import Nq.Lemmas.RewriteTodo
import Nq.Lemmas.RewriteCtl

namespace Nq.Props.C10
open Nq Nq.Rewrite Nq.Route
open Nq.Lemmas.RewriteMap Nq.Lemmas.RewriteSpec Nq.Lemmas.RewriteVerp Nq.Lemmas.RewriteCase Nq.Lemmas.RewriteTodo
open Nq.Lemmas.RewriteCtl

/-! ### the routing rule -/

/-- **`rewrite()` is the documented rule set**, for every configuration in the stated domain (no
key listed twice in virtualdomains; repeated keys in locals/percenthack are harmless) and every
recipient byte string: default host, percent hack repeated while the domain is listed, `locals`
wins, then the most specific virtualdomains entry (full address, domain, dot-suffix wildcards
longest first, catch-all), empty prepend ⇒ not virtual ⇒ remote. -/
theorem C10_spec (c : Cfg) (r : Bytes) (h : noDupKeys c.vdoms = true) : rewrite c r = routeSpec c r := by
  rw [rewrite_eq_G, routeSpec_eq_G]
  exact routeSpecG_congr (fun k => mapLookup_eq_entryFor c.vdoms k h) c r

/-- Complement of `C10_spec` (outside the stated domain): with repeated keys the code follows the
same rules with the **later** entry of a repeated key winning. -/
theorem C10_spec_dupkeys (c : Cfg) (r : Bytes) : rewrite c r = routeSpecG (mapLookup c.vdoms) c r :=
  rewrite_eq_G c r

/-- **constmap is a finite map**: the bucket/chain hash table built by `constmap_init` (djb hash
of the case-folded key, `first[]/next[]` chains, stored-hash + length + `case_diffb` test) returns
exactly the entry whose key equals the looked-up key ignoring ASCII case — for every buffer, both
`flagcolon` modes, every key (with repeated keys: the later entry). -/
theorem C10_constmap (s : Bytes) (flagcolon : Bool) (k : Bytes) :
    (cmInit s flagcolon).lookup k = mapLookup (parseEntries s flagcolon) k :=
  lookup_cmInit s flagcolon k

/-- …so `rewrite()` over the three hash tables is `rewrite()` over the parsed control files. -/
theorem C10_constmap_rewrite (raw : RawCfg) (r : Bytes) : rewriteHT raw r = rewrite raw.cfg r := by
  unfold rewriteHT rewrite
  have : raw.htLookups = raw.cfg.lookups := by
    unfold RawCfg.htLookups RawCfg.cfg Cfg.lookups
    simp only [lookup_cmInit]
    congr 1
    funext k; exact lookup_cmInit raw.vdoms true k
  rw [this]; rfl

/-- without repeated keys the finite map is "the entry for that key" -/
theorem C10_constmap_nodup (s : Bytes) (flagcolon : Bool) (k : Bytes)
    (h : noDupKeys (parseEntries s flagcolon) = true) :
    (cmInit s flagcolon).lookup k = entryFor (parseEntries s flagcolon) k := by
  rw [C10_constmap, mapLookup_eq_entryFor _ _ h]

/-- **all matching ignores case**: changing the ASCII case of the recipient, of `envnoathost` and of
any keys in locals / percenthack / virtualdomains changes neither the channel nor the prepended tag,
and the rewritten address only in the case of its letters. -/
theorem C10_case (c c' : Cfg) (r r' : Bytes)
    (he : lower c.env = lower c'.env) (hp : lowerKeys c.ph = lowerKeys c'.ph)
    (hl : lowerKeys c.locals = lowerKeys c'.locals) (hv : lowerKeys c.vdoms = lowerKeys c'.vdoms)
    (hr : lower r = lower r') :
    (rewrite c r).chan = (rewrite c' r').chan ∧ (rewrite c r).tag = (rewrite c' r').tag ∧
      lower (rewrite c r).addr = lower (rewrite c' r').addr := by
  unfold rewrite
  rw [← lookups_keys_ci hp hl hv]
  exact rewriteWith_ci (cfg_ci c) c.env c'.env r r' he hr

/-! ### the two readings of "the percent hack may be applied repeatedly" -/

/-- no `@` after a `%` in the local part -/
def pctSafe (l : Bytes) : Prop := ∀ u f, l = u ++ PCT :: f → AT ∉ f

/-- When no extracted `fqdn` can contain an `@`, re-reading the whole address string after every
percent-hack step (domain = what follows the final `@`) gives the same address as the pair reading
used by `routeSpec` and by the code. -/
theorem C10_pct_string (ph : List Ent) (n : Nat) (l d : Bytes) (hd : AT ∉ d) (hl : pctSafe l) :
    pctString ph n (l ++ AT :: d) = pctFix ph n l d := by
  induction n generalizing l d with
  | zero => rfl
  | succ n ih =>
    simp only [pctString, pctFix]
    rw [splitLast_append AT l d hd]
    simp only
    split
    · cases hsp : splitLast PCT l with
      | none => rfl
      | some q =>
        obtain ⟨u, f⟩ := q
        have hq := (splitLast_some hsp).1
        simp only
        apply ih u f (hl u f hq)
        intro u' f' hu
        have : l = u' ++ PCT :: (f' ++ PCT :: f) := by rw [hq, hu]; simp
        have := hl u' _ this
        intro hm; exact this (by simp [hm])
    · rfl

/-- Complement: with an `@` inside an extracted fqdn the readings differ — "x%y%b@c@d" with `c`
and `d` in percenthack is left at "x%y@b@c" by the pair reading (and the code: next domain "b@c"),
while the string reading goes on to "x@y@b". -/
example :
    pctFix [⟨[99], []⟩, ⟨[100], []⟩] 9 [120, 37, 121, 37, 98, 64, 99] [100] = [120, 37, 121, 64, 98, 64, 99] ∧
    pctString [⟨[99], []⟩, ⟨[100], []⟩] 9 [120, 37, 121, 37, 98, 64, 99, 64, 100] = [120, 64, 121, 64, 98] := by
  decide

/-! ### order, no loss, no duplication, no merging -/

/-- **`todo_do` partitions the recipient list**: for a `todo` file of header records (`u`,`p`,`F`)
followed by `T` records (NUL-free addresses) and an optional unterminated tail, preprocessing
succeeds, `info` gets the `F` records, and `local`/`remote` get, in input order, exactly the
records `rewrite()` routes to them. -/
theorem C10_partition (c : Cfg) (hdr rs : List Bytes) (tail : Bytes)
    (hh : ∀ r ∈ hdr, isHdr r = true ∧ NUL ∉ r) (hr : ∀ r ∈ rs, NUL ∉ r) (ht : NUL ∉ tail) :
    todoDo c.lookups c.env (encode (hdr ++ rs.map (fun r => TEE :: r)) ++ tail) =
      some ⟨infoOf hdr, chanFile .loc (routeAll c rs), chanFile .rem (routeAll c rs)⟩ := by
  have hrec : ∀ r ∈ hdr ++ rs.map (fun r => TEE :: r), NUL ∉ r := by
    intro r hm
    rcases List.mem_append.1 hm with hm | hm
    · exact (hh r hm).2
    · obtain ⟨x, hx, rfl⟩ := List.mem_map.1 hm
      have := hr x hx
      simp only [List.mem_cons, not_or]
      exact ⟨by decide, this⟩
  unfold todoDo
  rw [chunks_encode _ _ hrec ht, todoFold_append, todoFold_hdr _ _ _ (fun r h => (hh r h).1)]
  simp only
  rw [todoFold_T]
  have : List.map (rewriteWith c.lookups c.env) rs = routeAll c rs := rfl
  simp [this]

/-- every input recipient is routed exactly once, in order: the routed list has the recipients'
length and its i-th element is `rewrite` of the i-th recipient; the two channel lists are an
order-preserving split of it (their interleaving is the input order). -/
theorem C10_interleave (c : Cfg) (rs : List Bytes) :
    (routeAll c rs).length = rs.length ∧
    (∀ i (h : i < rs.length), (routeAll c rs)[i]? = some (rewrite c rs[i])) ∧
    Interleave (chanRecs .loc (routeAll c rs)) (chanRecs .rem (routeAll c rs)) (routeAll c rs) := by
  refine ⟨by simp [routeAll], ?_, ?_⟩
  · intro i h; simp [routeAll, h]
  · have := interleave_filter (fun r : Routed => r.chan == Chan.loc) (routeAll c rs)
    unfold chanRecs
    simpa only [chan_not_loc] using this

/-- records are never merged or split: a channel file parses back (at its NULs) into exactly one
record per routed recipient, provided tags and addresses are NUL-free -/
theorem C10_records (ch : Chan) (routed : List Routed)
    (h : ∀ r ∈ routed, NUL ∉ r.tag ∧ NUL ∉ r.addr) :
    chunks (chanFile ch routed) =
      (chanRecs ch routed).map (fun r => TEE :: (if r.tag = [] then r.addr else r.tag ++ DASH :: r.addr)) := by
  have hfile : chanFile ch routed =
      encode ((chanRecs ch routed).map (fun r => TEE :: (if r.tag = [] then r.addr else r.tag ++ DASH :: r.addr))) ++ [] := by
    unfold chanFile encode
    rw [List.append_nil, List.flatMap_map]
    congr 1
  rw [hfile, chunks_encode _ _ _ (by simp)]
  intro x hx
  obtain ⟨r, hr, rfl⟩ := List.mem_map.1 hx
  have hr' : r ∈ routed := (List.mem_filter.1 hr).1
  obtain ⟨h1, h2⟩ := h r hr'
  simp only [List.mem_cons, not_or]
  refine ⟨by decide, ?_⟩
  split
  · exact h2
  · simp only [List.mem_append, List.mem_cons, not_or]
    exact ⟨h1, by decide, h2⟩

/-! ### VERP -/

/-- `senderadd` is the documented VERP rule, for all byte strings -/
theorem C10_verp (sender recip : Bytes) : senderadd sender recip = verpSpec sender recip :=
  senderadd_eq_verpSpec sender recip

/-- `pre@host-@[]` for a delivery to `box@dom` becomes `prebox=dom@host` -/
theorem C10_verp_expand (pre host box dom : Bytes) (hh : AT ∉ host) (hd : AT ∉ dom) :
    senderadd (pre ++ AT :: host ++ VERPSUFFIX) (box ++ AT :: dom) = pre ++ box ++ EQS :: dom ++ AT :: host := by
  rw [C10_verp, verpSpec_expand pre host box dom hh hd]

/-- every other sender is passed through unchanged: no `-@[]` suffix, or no `@` before it -/
theorem C10_verp_identity (sender recip : Bytes) :
    (¬ (sender.length ≥ 4 ∧ sender.drop (sender.length - 4) = VERPSUFFIX) → senderadd sender recip = sender) ∧
    (∀ b, sender = b ++ VERPSUFFIX → AT ∉ b → senderadd sender recip = sender) ∧
    (AT ∉ recip → senderadd sender recip = sender) := by
  refine ⟨fun h => ?_, fun b hb hn => ?_, fun h => ?_⟩
  · rw [C10_verp, verpSpec_plain _ _ h]
  · rw [C10_verp, hb, verpSpec_nohost _ _ hn]
  · rw [C10_verp, verpSpec_noat _ _ h]

/-! ### HUP -/

/-- **after a HUP** the next preprocessed message (and every later one) is routed with `locals` and
`virtualdomains` as they are on disk at the reread; `percenthack` and `envnoathost` stay as read at
start-up (as documented). -/
theorem C10_hup (d d1 d2 : Daemon) (todo : Bytes) (out : Option TodoOut)
    (h1 : accept d .hup = some d1) (h2 : accept d1 (.msg todo out) = some d2) :
    d2.cfg = reget d.me d.cfg d.files ∧ d2.flagread = false ∧
    out = todoDo d2.cfg.htLookups d2.cfg.env todo ∧
    d2.cfg.ph = d.cfg.ph ∧ d2.cfg.env = d.cfg.env := by
  simp only [accept, Option.some.injEq] at h1
  subst h1
  simp only [accept, Daemon.top, if_true] at h2
  split at h2
  · rename_i heq
    simp only [Option.some.injEq] at h2
    subst h2
    refine ⟨rfl, rfl, heq.symm, ?_, ?_⟩ <;>
    · simp only [reget]; split <;> rfl
  · simp at h2

/-- what the reread installs: the freshly parsed `locals` (default `me`) and `virtualdomains`
(absent file = empty); an unreadable `locals` with no `me` keeps everything as it was -/
theorem C10_hup_reget (me : Option Bytes) (old : RawCfg) (f : Files) :
    (∀ l, readfile f.locals me true = some l →
      (reget me old f).locals = l ∧ (reget me old f).vdoms = (readfile f.vdoms me false).getD []) ∧
    (readfile f.locals me true = none → reget me old f = old) := by
  constructor
  · intro l hl; simp [reget, hl]
  · intro hl; simp [reget, hl]

/-- Complement: without a HUP an edit of the control files changes nothing for later messages -/
theorem C10_nohup (d d1 d2 : Daemon) (f : Files) (todo : Bytes) (out : Option TodoOut)
    (hf : d.flagread = false) (h1 : accept d (.edit f) = some d1) (h2 : accept d1 (.msg todo out) = some d2) :
    d2.cfg = d.cfg ∧ out = todoDo d.cfg.htLookups d.cfg.env todo := by
  simp only [accept, Option.some.injEq] at h1
  subst h1
  simp only [accept] at h2
  have htop : ({ d with files := f } : Daemon).top = { d with files := f } := by simp [Daemon.top, hf]
  rw [htop] at h2
  by_cases hq : todoDo d.cfg.htLookups d.cfg.env todo = out
  · rw [if_pos hq] at h2
    simp only [Option.some.injEq] at h2
    subst h2
    exact ⟨rfl, hq.symm⟩
  · rw [if_neg hq] at h2; simp at h2

/-! ### the control files -/

/-- **parsed control files**: for a control directory without NUL bytes, `getcontrols()` (control.c
`control_readline/rldef/readfile`, then the entry splitting of `constmap_init`) yields exactly the
documented configuration — one entry per line, trailing blanks stripped, `#` comments and empty
lines ignored, `key:prepend` split at the first colon, lines without colon in virtualdomains
ignored, `me` as default for locals and envnoathost — and refuses to start exactly when neither
`locals` nor `me` exists. -/
theorem C10_controls (f : Files) (h : nulFreeFiles f) : (getcontrols f).map RawCfg.cfg = specCfg f :=
  getcontrols_eq_spec f h

/-- …and the HUP reread installs exactly the documented `locals`/`virtualdomains` of the files on
disk (default for locals: the `me` read at start-up), leaving the rest of the configuration alone. -/
theorem C10_hup_controls (f0 f : Files) (old : RawCfg) (h0 : ∀ s, f0.me = some s → NUL ∉ s) (h : nulFreeFiles f) :
    (reget (readline f0.me) old f).cfg = specHup old.cfg f0 f :=
  reget_eq_spec f0 f old h0 h

/-! ### non-vacuity (bytes: 64 '@', 37 '%', 46 '.', 58 ':', 45 '-', 0 NUL, 97.. 'a'..) -/

/-- locals "a", percenthack "a", virtualdomains "u@b:t", "b:v", ".b:w", "c.b:" (exception) -/
def exCfg : Cfg :=
  { env := [97], ph := [⟨[97], []⟩], locals := [⟨[97], []⟩],
    vdoms := [⟨[117, 64, 98], [116]⟩, ⟨[98], [118]⟩, ⟨[46, 98], [119]⟩, ⟨[99, 46, 98], []⟩] }

example : noDupKeys exCfg.vdoms = true := by decide
/-- "u%B@A": percent hack for listed "A" (case-insensitive), then the virtual user u@b wins over b and .b -/
example : rewrite exCfg [117, 37, 66, 64, 65] = ⟨.loc, [116], [117, 64, 66]⟩ := by decide
/-- "x@c.b": the empty prepend is an exception to the wildcard ".b" ⇒ remote -/
example : rewrite exCfg [120, 64, 99, 46, 98] = ⟨.rem, [], [120, 64, 99, 46, 98]⟩ := by decide
/-- "x@d.b": the wildcard ".b" applies -/
example : rewrite exCfg [120, 64, 100, 46, 98] = ⟨.loc, [119], [120, 64, 100, 46, 98]⟩ := by decide
/-- "x" (no @): gets envnoathost "a", which is local -/
example : rewrite exCfg [120] = ⟨.loc, [], [120, 64, 97]⟩ := by decide
/-- the hash table finds "B" in the buffer "u@b:t\0b:v\0" (flagcolon) -/
example : (cmInit [117, 64, 98, 58, 116, 0, 98, 58, 118, 0] true).lookup [66] = some [118] := by decide
/-- VERP: "l-@h-@[]" for "r@d" gives "l-r=d@h" -/
example : senderadd [108, 45, 64, 104, 45, 64, 91, 93] [114, 64, 100] = [108, 45, 114, 61, 100, 64, 104] := by decide
/-- a todo file "u1\0Fs\0Tx@a\0Ty@z\0": one local, one remote record -/
example : todoDo exCfg.lookups exCfg.env [117, 49, 0, 70, 115, 0, 84, 120, 64, 97, 0, 84, 121, 64, 122, 0] =
    some ⟨[70, 115, 0], [84, 120, 64, 97, 0], [84, 121, 64, 122, 0]⟩ := by decide

/-- control files: locals "A \n#c\n\nb" (no final newline), virtualdomains "u@b:t\nnocolon\n:c\n", me "m\n" -/
example : getcontrols ⟨some [109, 10], none, some [65, 32, 10, 35, 99, 10, 10, 98],
      none, some [117, 64, 98, 58, 116, 10, 110, 111, 10, 58, 99, 10]⟩ =
    some { env := [109], ph := [], locals := [65, 0, 98, 0],
           vdoms := [117, 64, 98, 58, 116, 0, 110, 111, 0, 58, 99, 0] } := by decide
example : parseEntries [117, 64, 98, 58, 116, 0, 110, 111, 0, 58, 99, 0] true =
    [⟨[117, 64, 98], [116]⟩, ⟨[], [99]⟩] := by decide

end Nq.Props.C10
