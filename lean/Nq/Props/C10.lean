/-
  C10 — Recipients are routed and rewritten exactly by the control files.

  Model: `Nq.Rewrite` (constmap hash table, control-file readers, `rewrite()`, `senderadd()`, the
  `todo_do` record loop, the HUP/reread acceptor), tied to control.c, constmap.c and qmail-send.c by
  the differential harness `harness/c10_route.c` (which also runs the real `main()` with real
  SIGHUPs). Specification: `Nq.Route` — the rules of qmail-send(8), addresses(5), qmail-control(5).
-/
import Nq.Lemmas.RewriteSpec
import Nq.Lemmas.RewriteVerp
import Nq.Lemmas.RewriteCase
import Nq.Lemmas.RewriteTodo
import Nq.Lemmas.RewriteCtl
import Nq.Lemmas.RewriteDaemon
import Nq.Lemmas.RewriteIO

namespace Nq.Props.C10
open Nq Nq.Rewrite Nq.Route
open Nq.Lemmas.RewriteMap Nq.Lemmas.RewriteSpec Nq.Lemmas.RewriteVerp Nq.Lemmas.RewriteCase Nq.Lemmas.RewriteTodo
open Nq.Lemmas.RewriteCtl Nq.Lemmas.RewriteDaemon Nq.Lemmas.RewriteIO

/-! ### the routing rule -/

/-- **`rewrite()` is the documented rule set**, for every configuration in the stated domain (no
key listed twice in virtualdomains; repeated keys in locals/percenthack are harmless) and every
recipient byte string: default host, percent hack repeated while the domain is listed, `locals`
wins, then the most specific virtualdomains entry (full address, domain, dot-suffix wildcards
longest first, catch-all), empty prepend ⇒ not virtual ⇒ remote. -/
theorem C10_spec (c : Cfg) (r : Bytes) (h : noDupKeys c.vdoms = true) : rewrite c r = routeSpec c r := by
  rw [rewrite_eq_G, routeSpec_eq_G]
  exact routeSpecG_congr (fun k => mapLookup_eq_entryFor c.vdoms k h) c r

/-- Complement of `C10_spec` (outside the stated domain): with repeated keys the code follows the
same rules with the **later** entry of a repeated key winning. -/
theorem C10_spec_dupkeys (c : Cfg) (r : Bytes) : rewrite c r = routeSpecG (mapLookup c.vdoms) c r :=
  rewrite_eq_G c r

/-- **constmap is a finite map**: the bucket/chain hash table built by `constmap_init` (djb hash
of the case-folded key, `first[]/next[]` chains, stored-hash + length + `case_diffb` test) returns
exactly the entry whose key equals the looked-up key ignoring ASCII case — for every buffer, both
`flagcolon` modes, every key (with repeated keys: the later entry). -/
theorem C10_constmap (s : Bytes) (flagcolon : Bool) (k : Bytes) :
    (cmInit s flagcolon).lookup k = mapLookup (parseEntries s flagcolon) k :=
  lookup_cmInit s flagcolon k

/-- membership — all that the `locals` and `percenthack` lookups use — needs no hypothesis at all:
`constmap()` finds a key iff it is listed (ignoring ASCII case), repeated keys or not -/
theorem C10_constmap_listed (s : Bytes) (flagcolon : Bool) (k : Bytes) :
    ((cmInit s flagcolon).lookup k).isSome = listed (parseEntries s flagcolon) k := by
  rw [C10_constmap, isSome_mapLookup]

/-- …so `rewrite()` over the three hash tables is `rewrite()` over the parsed control files. -/
theorem C10_constmap_rewrite (raw : RawCfg) (r : Bytes) : rewriteHT raw r = rewrite raw.cfg r := by
  unfold rewriteHT rewrite
  have : raw.htLookups = raw.cfg.lookups := by
    unfold RawCfg.htLookups RawCfg.cfg Cfg.lookups
    simp only [lookup_cmInit]
    congr 1
    funext k; exact lookup_cmInit raw.vdoms true k
  rw [this]; rfl

/-- without repeated keys the finite map is "the entry for that key" -/
theorem C10_constmap_nodup (s : Bytes) (flagcolon : Bool) (k : Bytes)
    (h : noDupKeys (parseEntries s flagcolon) = true) :
    (cmInit s flagcolon).lookup k = entryFor (parseEntries s flagcolon) k := by
  rw [C10_constmap, mapLookup_eq_entryFor _ _ h]

/-- **all matching ignores case**: changing the ASCII case of the recipient, of `envnoathost` and of
any keys in locals / percenthack / virtualdomains changes neither the channel nor the prepended tag,
and the rewritten address only in the case of its letters. -/
theorem C10_case (c c' : Cfg) (r r' : Bytes)
    (he : lower c.env = lower c'.env) (hp : lowerKeys c.ph = lowerKeys c'.ph)
    (hl : lowerKeys c.locals = lowerKeys c'.locals) (hv : lowerKeys c.vdoms = lowerKeys c'.vdoms)
    (hr : lower r = lower r') :
    (rewrite c r).chan = (rewrite c' r').chan ∧ (rewrite c r).tag = (rewrite c' r').tag ∧
      lower (rewrite c r).addr = lower (rewrite c' r').addr := by
  unfold rewrite
  rw [← lookups_keys_ci hp hl hv]
  exact rewriteWith_ci (cfg_ci c) c.env c'.env r r' he hr

/-! ### the two readings of "the percent hack may be applied repeatedly" -/

/-- no `@` after a `%` in the local part -/
def pctSafe (l : Bytes) : Prop := ∀ u f, l = u ++ PCT :: f → AT ∉ f

/-- When no extracted `fqdn` can contain an `@`, re-reading the whole address string after every
percent-hack step (domain = what follows the final `@`) gives the same address as the pair reading
used by `routeSpec` and by the code. -/
theorem C10_pct_string (ph : List Ent) (n : Nat) (l d : Bytes) (hd : AT ∉ d) (hl : pctSafe l) :
    pctString ph n (l ++ AT :: d) = pctFix ph n l d := by
  induction n generalizing l d with
  | zero => rfl
  | succ n ih =>
    simp only [pctString, pctFix]
    rw [splitLast_append AT l d hd]
    simp only
    split
    · cases hsp : splitLast PCT l with
      | none => rfl
      | some q =>
        obtain ⟨u, f⟩ := q
        have hq := (splitLast_some hsp).1
        simp only
        apply ih u f (hl u f hq)
        intro u' f' hu
        have : l = u' ++ PCT :: (f' ++ PCT :: f) := by rw [hq, hu]; simp
        have := hl u' _ this
        intro hm; exact this (by simp [hm])
    · rfl

/-- Complement: with an `@` inside an extracted fqdn the readings differ — "x%y%b@c@d" with `c`
and `d` in percenthack is left at "x%y@b@c" by the pair reading (and the code: next domain "b@c"),
while the string reading goes on to "x@y@b". -/
example :
    pctFix [⟨[99], []⟩, ⟨[100], []⟩] 9 [120, 37, 121, 37, 98, 64, 99] [100] = [120, 37, 121, 64, 98, 64, 99] ∧
    pctString [⟨[99], []⟩, ⟨[100], []⟩] 9 [120, 37, 121, 37, 98, 64, 99, 64, 100] = [120, 64, 121, 64, 98] := by
  decide

/-! ### order, no loss, no duplication, no merging -/

/-- **`todo_do` partitions the recipient list**: for a `todo` file of header records (`u`,`p`,`F`)
followed by `T` records (NUL-free addresses) and an optional unterminated tail, preprocessing
succeeds, `info` gets the `F` records, and `local`/`remote` get, in input order, exactly the
records `rewrite()` routes to them. -/
theorem C10_partition (c : Cfg) (hdr rs : List Bytes) (tail : Bytes)
    (hh : ∀ r ∈ hdr, isHdr r = true ∧ NUL ∉ r) (hr : ∀ r ∈ rs, NUL ∉ r) (ht : NUL ∉ tail) :
    todoDo c.lookups c.env (encode (hdr ++ rs.map (fun r => TEE :: r)) ++ tail) =
      some ⟨infoOf hdr, chanFile .loc (routeAll c rs), chanFile .rem (routeAll c rs)⟩ := by
  have hrec : ∀ r ∈ hdr ++ rs.map (fun r => TEE :: r), NUL ∉ r := by
    intro r hm
    rcases List.mem_append.1 hm with hm | hm
    · exact (hh r hm).2
    · obtain ⟨x, hx, rfl⟩ := List.mem_map.1 hm
      have := hr x hx
      simp only [List.mem_cons, not_or]
      exact ⟨by decide, this⟩
  unfold todoDo
  rw [chunks_encode _ _ hrec ht, todoFold_append, todoFold_hdr _ _ _ (fun r h => (hh r h).1)]
  simp only
  rw [todoFold_T]
  have : List.map (rewriteWith c.lookups c.env) rs = routeAll c rs := rfl
  simp [this]

/-- **`todo_do` on every byte string**: for every configuration without a repeated virtualdomains
key and *every* `todo` file (records in any order, any bytes), the record loop produces exactly the
documented result `specTodo`: it fails (`goto fail`, the message stays in `todo/`) iff some
NUL-terminated record is empty or has a type other than `T u p F`; otherwise `info` gets the `F`
records and `local`/`remote` get, in input order, the `rwline` of exactly the recipients the
documented rules `routeSpec` send there. Generalises `C10_partition` (no shape hypothesis) and is the
predicate the real-daemon oracle evaluates. -/
theorem C10_todo (c : Cfg) (todo : Bytes) (h : noDupKeys c.vdoms = true) :
    todoDo c.lookups c.env todo = specTodo c todo :=
  todoDo_eq_specTodo_of c (fun r => C10_spec c r h) todo

/-- the channel files the oracle expects (`specChan`, built from `routeSpec`) are the right-hand side
of `C10_partition` -/
theorem C10_specChan (c : Cfg) (h : noDupKeys c.vdoms = true) (ch : Chan) (rs : List Bytes) :
    specChan c ch rs = chanFile ch (routeAll c rs) :=
  specChan_eq_of c (fun r => C10_spec c r h) ch rs

/-- the two channel lists are an order-preserving split of the routed list: their interleaving is
the input order. (The first two conjuncts — same length, i-th element is `rewrite` of the i-th
recipient — merely unfold `routeAll := rs.map (rewrite c)`; that the *code* drops and duplicates
nothing is `C10_partition`/`C10_todo`, where `routeAll` is the right-hand side.) -/
theorem C10_interleave (c : Cfg) (rs : List Bytes) :
    (routeAll c rs).length = rs.length ∧
    (∀ i (h : i < rs.length), (routeAll c rs)[i]? = some (rewrite c rs[i])) ∧
    Interleave (chanRecs .loc (routeAll c rs)) (chanRecs .rem (routeAll c rs)) (routeAll c rs) := by
  refine ⟨by simp [routeAll], ?_, ?_⟩
  · intro i h; simp [routeAll, h]
  · have := interleave_filter (fun r : Routed => r.chan == Chan.loc) (routeAll c rs)
    unfold chanRecs
    simpa only [chan_not_loc] using this

/-- **`rewrite()` introduces no NUL**: for a NUL-free recipient, NUL-free `envnoathost` and NUL-free
virtualdomains prepends, the tag and the rewritten address are NUL-free. -/
theorem C10_rewrite_nulfree (c : Cfg) (r : Bytes) (hr : NUL ∉ r) (he : NUL ∉ c.env)
    (hv : ∀ e ∈ c.vdoms, NUL ∉ e.val) : NUL ∉ (rewrite c r).tag ∧ NUL ∉ (rewrite c r).addr :=
  rewrite_nulfree c r hr he hv

/-- …and the configuration `getcontrols()` builds meets these hypotheses: the prepends
`constmap_init` extracts are NUL-free for **every** buffer, `envnoathost` is NUL-free when
`control/envnoathost` and `control/me` are; neither is changed by a HUP reread
(`reget` replaces `vdoms` by another parsed buffer and keeps `env`). -/
theorem C10_cfg_nulfree (f : Files) (raw : RawCfg) (hme : ∀ s, f.me = some s → NUL ∉ s)
    (henv : ∀ s, f.env = some s → NUL ∉ s) (hg : getcontrols f = some raw) (me : Option Bytes) (f' : Files) :
    NUL ∉ raw.cfg.env ∧ (∀ e ∈ raw.cfg.vdoms, NUL ∉ e.val) ∧
    NUL ∉ (reget me raw f').cfg.env ∧ (∀ e ∈ (reget me raw f').cfg.vdoms, NUL ∉ e.val) := by
  have he := getcontrols_env_nulfree f raw hme henv hg
  refine ⟨he, parseEntries_val_nulfree _ _, ?_, parseEntries_val_nulfree _ _⟩
  show NUL ∉ (reget me raw f').env
  rw [reget_env]; exact he

/-- records are never merged or split, generic form: a channel file parses back (at its NULs) into
exactly one record per routed recipient, provided tags and addresses are NUL-free -/
theorem C10_records_gen (ch : Chan) (routed : List Routed)
    (h : ∀ r ∈ routed, NUL ∉ r.tag ∧ NUL ∉ r.addr) :
    chunks (chanFile ch routed) =
      (chanRecs ch routed).map (fun r => TEE :: (if r.tag = [] then r.addr else r.tag ++ DASH :: r.addr)) := by
  have hfile : chanFile ch routed =
      encode ((chanRecs ch routed).map (fun r => TEE :: (if r.tag = [] then r.addr else r.tag ++ DASH :: r.addr))) ++ [] := by
    unfold chanFile encode
    rw [List.append_nil, List.flatMap_map]
    congr 1
  rw [hfile, chunks_encode _ _ _ (by simp)]
  intro x hx
  obtain ⟨r, hr, rfl⟩ := List.mem_map.1 hx
  have hr' : r ∈ routed := (List.mem_filter.1 hr).1
  obtain ⟨h1, h2⟩ := h r hr'
  simp only [List.mem_cons, not_or]
  refine ⟨by decide, ?_⟩
  split
  · exact h2
  · simp only [List.mem_append, List.mem_cons, not_or]
    exact ⟨h1, by decide, h2⟩

/-- **records are never merged or split**: the channel file `todo_do` writes for a list of NUL-free
recipients parses back (at its NULs) into exactly one record per recipient routed to that channel, in
order — under NUL-free `envnoathost` and prepends (which `C10_cfg_nulfree` gives for NUL-free
`me`/`envnoathost` files). Replaces the earlier statement, whose NUL-freeness hypothesis was on the
*routed* records and followed from nothing proved. -/
theorem C10_records (c : Cfg) (ch : Chan) (rs : List Bytes) (hr : ∀ r ∈ rs, NUL ∉ r) (he : NUL ∉ c.env)
    (hv : ∀ e ∈ c.vdoms, NUL ∉ e.val) :
    chunks (chanFile ch (routeAll c rs)) =
      (chanRecs ch (routeAll c rs)).map (fun r => TEE :: (if r.tag = [] then r.addr else r.tag ++ DASH :: r.addr)) := by
  apply C10_records_gen
  intro x hx
  obtain ⟨r, hrm, rfl⟩ := List.mem_map.1 hx
  exact rewrite_nulfree c r (hr r hrm) he hv

/-! ### VERP -/

/-- `senderadd` is the documented VERP rule, for all byte strings -/
theorem C10_verp (sender recip : Bytes) : senderadd sender recip = verpSpec sender recip :=
  senderadd_eq_verpSpec sender recip

/-- `pre@host-@[]` for a delivery to `box@dom` becomes `prebox=dom@host` -/
theorem C10_verp_expand (pre host box dom : Bytes) (hh : AT ∉ host) (hd : AT ∉ dom) :
    senderadd (pre ++ AT :: host ++ VERPSUFFIX) (box ++ AT :: dom) = pre ++ box ++ EQS :: dom ++ AT :: host := by
  rw [C10_verp, verpSpec_expand pre host box dom hh hd]

/-- every other sender is passed through unchanged: no `-@[]` suffix, or no `@` before it -/
theorem C10_verp_identity (sender recip : Bytes) :
    (¬ (sender.length ≥ 4 ∧ sender.drop (sender.length - 4) = VERPSUFFIX) → senderadd sender recip = sender) ∧
    (∀ b, sender = b ++ VERPSUFFIX → AT ∉ b → senderadd sender recip = sender) ∧
    (AT ∉ recip → senderadd sender recip = sender) := by
  refine ⟨fun h => ?_, fun b hb hn => ?_, fun h => ?_⟩
  · rw [C10_verp, verpSpec_plain _ _ h]
  · rw [C10_verp, hb, verpSpec_nohost _ _ hn]
  · rw [C10_verp, verpSpec_noat _ _ h]

/-! ### HUP

`accept`/`acceptAll` (Nq/Rewrite.lean) is a monitor of an observed trace of the daemon: control files
edited / SIGHUP delivered (`sighup()` sets the flag) / the main loop passes its top (`if
(flagreadasap) { flagreadasap = 0; reread(); }`) / `todo_do` preprocesses a message with given
outputs. The guard of `msg` ("the outputs are `todoDo` under the configuration in force") is tied to
the code by replaying the real daemon's traces through `acceptAll` (driver, DISAGREE channel). What
follows are consequences *over all traces the monitor accepts*: which events can change the
configuration (`C10_fixed`, `C10_nohup`, `C10_hup`, `C10_hup_later`, `C10_hup_overlap`, `C10_hup_race`: induction over the
trace) and that every accepted trace satisfies the documented predicate `specTrace` (`C10_trace`:
simulation invariant `Sim`, chaining `C10_controls`, `C10_hup_controls`, `C10_constmap`, `C10_spec`,
`C10_todo`), which is what the driver's S-oracle evaluates on the real daemon. -/

/-- **a HUP is served when the loop next passes its top** (at once when the signal interrupts
`select()`): the reread installs `locals`/`virtualdomains` as they are on disk at that moment and
clears the flag; `percenthack` and `envnoathost` stay as read at start-up (as documented). -/
theorem C10_hup (d d1 d2 : Daemon) (h1 : accept d .hup = some d1) (h2 : accept d1 .top = some d2) :
    d2.cfg = reget d.me d.cfg d.files ∧ d2.flagread = false ∧ d2.files = d.files ∧ d2.me = d.me ∧
    d2.cfg.ph = d.cfg.ph ∧ d2.cfg.env = d.cfg.env := by
  simp only [accept, Option.some.injEq] at h1
  subst h1
  simp only [accept, Daemon.top, if_true, Option.some.injEq] at h2
  subst h2
  exact ⟨rfl, rfl, rfl, rfl, reget_ph _ _ _, reget_env _ _ _⟩

/-- **…and every later message** — after any number of further loop rounds and **whatever is done to
the control files afterwards** — is preprocessed under exactly that reread configuration, until the
next SIGHUP: for every SIGHUP-free continuation `es` of the trace, all its `msg` events carry the
outputs of `todo_do` under `reget` of the files that were on disk when the HUP was served, and the
configuration at the end is still that one. (This replaces the earlier `C10_hup`, which only
restated the acceptor's guard for the single next message and whose model reread lazily at that
message — with the files as edited in between, unlike the daemon.) -/
theorem C10_hup_later (d d1 d2 dn : Daemon) (es : List Ev)
    (h1 : accept d .hup = some d1) (h2 : accept d1 .top = some d2)
    (hno : es.all (fun e => !isHup e) = true) (h3 : acceptAll d2 es = some dn) :
    dn.cfg = reget d.me d.cfg d.files ∧
    ∀ todo out, Ev.msg todo out ∈ es →
      out = todoDo (reget d.me d.cfg d.files).htLookups (reget d.me d.cfg d.files).env todo := by
  obtain ⟨hc, hf, _⟩ := C10_hup d d1 d2 h1 h2
  obtain ⟨a, _, b⟩ := acceptAll_stable es d2 dn hf hno h3
  rw [hc] at a b
  exact ⟨a, b⟩

/-- Complement (the select race of this loop, code behaviour): a SIGHUP that is delivered after the
flag test — so that no loop top lies between it and the next `todo_do` — does **not** affect that
message: it is preprocessed under the old configuration and the reread stays pending until the loop
passes its top again. (The correspondence runs deliver SIGHUP only while the daemon is blocked in
`select()`, where `EINTR` leads straight to the loop top.) -/
theorem C10_hup_race (d d1 d2 : Daemon) (todo : Bytes) (out : Option TodoOut)
    (h1 : accept d .hup = some d1) (h2 : accept d1 (.msg todo out) = some d2) :
    out = todoDo d.cfg.htLookups d.cfg.env todo ∧ d2.cfg = d.cfg ∧ d2.flagread = true := by
  simp only [accept, Option.some.injEq] at h1
  subst h1
  simp only [accept] at h2
  split at h2
  · rename_i hq
    simp only [Option.some.injEq] at h2
    subst h2
    exact ⟨hq.symm, rfl, rfl⟩
  · simp at h2

/-- **a SIGHUP that arrives while the re-read for an earlier one is under way is not lost**: the loop
top clears the flag *before* it calls `reread()`, so the second signal sets it again and the loop re-reads
once more when it next passes its top. Trace: `hup`, `top` (re-read (A), whatever version of the files it
saw: `d.files`), the files are edited to `f2`, `hup` (B, any time after the flag was cleared), `top`. The
configuration is then `reget` of `f2` on top of what (A) installed, no re-read is pending, and along every
SIGHUP-free continuation every message is preprocessed under it. (With `reread(); flagreadasap = 0;` the
second `hup` would be wiped and `f2` ignored: the real daemon is run through exactly this trace, the second
signal delivered before each call inside `reread()` in turn - harness `I` steps.) -/
theorem C10_hup_overlap (d d5 dn : Daemon) (f2 : Files) (es : List Ev)
    (h : acceptAll d [.hup, .top, .edit f2, .hup, .top] = some d5)
    (hno : es.all (fun e => !isHup e) = true) (h3 : acceptAll d5 es = some dn) :
    d5.flagread = false ∧ d5.cfg = reget d.me (reget d.me d.cfg d.files) f2 ∧ dn.cfg = d5.cfg ∧
    ∀ todo out, Ev.msg todo out ∈ es →
      out = todoDo (reget d.me (reget d.me d.cfg d.files) f2).htLookups
                   (reget d.me (reget d.me d.cfg d.files) f2).env todo := by
  simp only [acceptAll, accept, Daemon.top, if_true, Option.some.injEq] at h
  subst h
  obtain ⟨a, _, b⟩ := acceptAll_stable es _ dn rfl hno h3
  exact ⟨rfl, rfl, a, b⟩

/-- what the reread installs: the freshly parsed `locals` (default `me`) and `virtualdomains`
(absent file = empty); an unreadable `locals` with no `me` keeps everything as it was -/
theorem C10_hup_reget (me : Option Bytes) (old : RawCfg) (f : Files) :
    (∀ l, readfile f.locals me true = some l →
      (reget me old f).locals = l ∧ (reget me old f).vdoms = (readfile f.vdoms me false).getD []) ∧
    (readfile f.locals me true = none → reget me old f = old) := by
  constructor
  · intro l hl; simp [reget, hl]
  · intro hl; simp [reget, hl]

/-- Complement: **without a SIGHUP nothing changes** — with no reread pending, along any SIGHUP-free
trace (any edits of the control files, any number of loop rounds and messages) the configuration
stays what it was and every message is preprocessed under it. -/
theorem C10_nohup (d dn : Daemon) (es : List Ev) (hf : d.flagread = false)
    (hno : es.all (fun e => !isHup e) = true) (h : acceptAll d es = some dn) :
    dn.cfg = d.cfg ∧ ∀ todo out, Ev.msg todo out ∈ es → out = todoDo d.cfg.htLookups d.cfg.env todo := by
  obtain ⟨a, _, b⟩ := acceptAll_stable es d dn hf hno h
  exact ⟨a, b⟩

/-- `me`, `envnoathost` and `percenthack` are never reread: along **any** trace (SIGHUPs included)
they stay as read at start-up -/
theorem C10_fixed (d dn : Daemon) (es : List Ev) (h : acceptAll d es = some dn) :
    dn.me = d.me ∧ dn.cfg.env = d.cfg.env ∧ dn.cfg.ph = d.cfg.ph :=
  acceptAll_fixed es d dn h

/-! ### the control files -/

/-- **parsed control files**: for a control directory without NUL bytes, `getcontrols()` (control.c
`control_readline/rldef/readfile`, then the entry splitting of `constmap_init`) yields exactly the
documented configuration — one entry per line, trailing blanks stripped, `#` comments and empty
lines ignored, `key:prepend` split at the first colon, lines without colon in virtualdomains
ignored, `me` as default for locals and envnoathost — and refuses to start exactly when neither
`locals` nor `me` exists. -/
theorem C10_controls (f : Files) (h : nulFreeFiles f) : (getcontrols f).map RawCfg.cfg = specCfg f :=
  getcontrols_eq_spec f h

/-- …and the HUP reread installs exactly the documented `locals`/`virtualdomains` of the files on
disk (default for locals: the `me` read at start-up), leaving the rest of the configuration alone. -/
theorem C10_hup_controls (f0 f : Files) (old : RawCfg) (h0 : ∀ s, f0.me = some s → NUL ∉ s) (h : nulFreeFiles f) :
    (reget (readline f0.me) old f).cfg = specHup old.cfg f0 f :=
  reget_eq_spec f0 f old h0 h

/-- the daemon starts exactly when the documents say it does (NUL-free control directory) -/
theorem C10_start (f0 : Files) (h : nulFreeB f0 = true) : (start f0).isSome = (specStart f0).isSome :=
  start_iff_spec f0 h

/-- **every trace of the daemon meets the documented behaviour, end to end** (control files → control.c
readers → constmap hash tables → `rewrite()` → `todo_do`, under edits, SIGHUPs and rereads): for every
start-up control directory `f0` and every trace `es` the monitor accepts from `start f0`, the
documented predicate `specTrace` holds — i.e. every preprocessed message has exactly the outputs
`specTodo` prescribes (`info` = the `F` records, `local`/`remote` = `routeSpec` of the `T` records
in order, failure iff an unknown record) under the *documented* configuration: `specCfg f0` at
start-up, replaced by `specHup` (locals and virtualdomains of the files then on disk, `me` default
from start-up) each time a pending HUP is served at the loop top. `specTrace` judges while that
configuration has no repeated virtualdomains key and stops judging once a control file containing a
NUL byte has been read (the stated domain); it never mentions the model. This is literally the
predicate `drv_c10` evaluates on the real daemon's observed trace (ORACLE kind=S). -/
theorem C10_trace (f0 : Files) (d0 dn : Daemon) (es : List Ev)
    (hs : start f0 = some d0) (h : acceptAll d0 es = some dn) :
    specTrace f0 (specStart f0) es = true := by
  cases hsp : specStart f0 with
  | none => simp [specTrace]
  | some s0 =>
    exact sim_trace f0 (fun c hnd r => C10_spec c r hnd) es d0 dn s0 (sim_start f0 d0 s0 hs hsp) h

/-- The same, spelled out for one HUP (what `C10_trace` gives for the trace `pre ++ [hup, top] ++ es`):
after any accepted prefix from start-up, a HUP served at the loop top, and any SIGHUP-free
continuation (including further edits of the control files), a well-formed message in the
continuation gets `info` = its `F` records and channel files = `specChan` under `specHup` of the
files that were on disk when the HUP was served. -/
theorem C10_hup_e2e (f0 : Files) (d0 d d1 d2 dn : Daemon) (pre es : List Ev)
    (hdr rs : List Bytes) (tail : Bytes) (out : Option TodoOut)
    (hs : start f0 = some d0) (hpre : acceptAll d0 pre = some d)
    (h0 : ∀ s, f0.me = some s → NUL ∉ s) (hf : nulFreeFiles d.files)
    (hnd : noDupKeys (specHup d.cfg.cfg f0 d.files).vdoms = true)
    (hh : ∀ r ∈ hdr, isHdr r = true ∧ NUL ∉ r) (hr : ∀ r ∈ rs, NUL ∉ r) (ht : NUL ∉ tail)
    (h1 : accept d .hup = some d1) (h2 : accept d1 .top = some d2)
    (hno : es.all (fun e => !isHup e) = true) (h3 : acceptAll d2 es = some dn)
    (hm : Ev.msg (encode (hdr ++ rs.map (fun r => TEE :: r)) ++ tail) out ∈ es) :
    out = some ⟨infoOf hdr, specChan (specHup d.cfg.cfg f0 d.files) .loc rs,
                specChan (specHup d.cfg.cfg f0 d.files) .rem rs⟩ := by
  have hme : d.me = readline f0.me := by
    have := (acceptAll_fixed pre d0 d hpre).1
    rw [this]
    unfold start at hs
    cases hg : getcontrols f0 with
    | none => rw [hg] at hs; simp at hs
    | some raw => rw [hg] at hs; simp only [Option.some.injEq] at hs; subst hs; rfl
  obtain ⟨_, ho⟩ := C10_hup_later d d1 d2 dn es h1 h2 hno h3
  have ho := ho _ out hm
  have hsp : (reget d.me d.cfg d.files).cfg = specHup d.cfg.cfg f0 d.files := by
    rw [hme]; exact C10_hup_controls f0 d.files d.cfg h0 hf
  rw [ho, ht_eq, ← hsp, C10_specChan _ (hsp ▸ hnd), C10_specChan _ (hsp ▸ hnd)]
  exact C10_partition (reget d.me d.cfg d.files).cfg hdr rs tail hh hr ht

/-! ### non-vacuity (bytes: 64 '@', 37 '%', 46 '.', 58 ':', 45 '-', 0 NUL, 97.. 'a'..) -/

/-- locals "a", percenthack "a", virtualdomains "u@b:t", "b:v", ".b:w", "c.b:" (exception) -/
def exCfg : Cfg :=
  { env := [97], ph := [⟨[97], []⟩], locals := [⟨[97], []⟩],
    vdoms := [⟨[117, 64, 98], [116]⟩, ⟨[98], [118]⟩, ⟨[46, 98], [119]⟩, ⟨[99, 46, 98], []⟩] }

example : noDupKeys exCfg.vdoms = true := by decide
/-- "u%B@A": percent hack for listed "A" (case-insensitive), then the virtual user u@b wins over b and .b -/
example : rewrite exCfg [117, 37, 66, 64, 65] = ⟨.loc, [116], [117, 64, 66]⟩ := by decide
/-- "x@c.b": the empty prepend is an exception to the wildcard ".b" ⇒ remote -/
example : rewrite exCfg [120, 64, 99, 46, 98] = ⟨.rem, [], [120, 64, 99, 46, 98]⟩ := by decide
/-- "x@d.b": the wildcard ".b" applies -/
example : rewrite exCfg [120, 64, 100, 46, 98] = ⟨.loc, [119], [120, 64, 100, 46, 98]⟩ := by decide
/-- "x" (no @): gets envnoathost "a", which is local -/
example : rewrite exCfg [120] = ⟨.loc, [], [120, 64, 97]⟩ := by decide
/-- the hash table finds "B" in the buffer "u@b:t\0b:v\0" (flagcolon) -/
example : (cmInit [117, 64, 98, 58, 116, 0, 98, 58, 118, 0] true).lookup [66] = some [118] := by decide
/-- VERP: "l-@h-@[]" for "r@d" gives "l-r=d@h" -/
example : senderadd [108, 45, 64, 104, 45, 64, 91, 93] [114, 64, 100] = [108, 45, 114, 61, 100, 64, 104] := by decide
/-- a todo file "u1\0Fs\0Tx@a\0Ty@z\0": one local, one remote record -/
example : todoDo exCfg.lookups exCfg.env [117, 49, 0, 70, 115, 0, 84, 120, 64, 97, 0, 84, 121, 64, 122, 0] =
    some ⟨[70, 115, 0], [84, 120, 64, 97, 0], [84, 121, 64, 122, 0]⟩ := by decide

/-- control files: locals "A \n#c\n\nb" (no final newline), virtualdomains "u@b:t\nnocolon\n:c\n", me "m\n" -/
example : getcontrols ⟨some [109, 10], none, some [65, 32, 10, 35, 99, 10, 10, 98],
      none, some [117, 64, 98, 58, 116, 10, 110, 111, 10, 58, 99, 10]⟩ =
    some { env := [109], ph := [], locals := [65, 0, 98, 0],
           vdoms := [117, 64, 98, 58, 116, 0, 110, 111, 0, 58, 99, 0] } := by decide
example : parseEntries [117, 64, 98, 58, 116, 0, 110, 111, 0, 58, 99, 0] true =
    [⟨[117, 64, 98], [116]⟩, ⟨[], [99]⟩] := by decide

/-! #### HUP traces: start-up locals "a"; then locals "b" is written and a HUP served; then locals "c"
is written **without** a HUP; then the message "Fs\0Tx@b\0Tx@c\0" -/
def exF (l : Byte) : Files := ⟨some [109, 10], none, some [l, 10], none, none⟩
def exTodo : Bytes := [70, 115, 0, 84, 120, 64, 98, 0, 84, 120, 64, 99, 0]
def exTrace (out : TodoOut) : List Ev :=
  [.edit (exF 98), .hup, .top, .edit (exF 99), .top, .msg exTodo (some out)]

/-- the monitor accepts the outputs of the configuration read at the HUP (x@b local, x@c remote) … -/
example : ((start (exF 97)).bind (fun d => acceptAll d (exTrace ⟨[70, 115, 0], [84, 120, 64, 98, 0], [84, 120, 64, 99, 0]⟩))).isSome = true := by
  decide
/-- … and rejects those of the files edited after the HUP (what a lazy reread would produce) … -/
example : ((start (exF 97)).bind (fun d => acceptAll d (exTrace ⟨[70, 115, 0], [84, 120, 64, 99, 0], [84, 120, 64, 98, 0]⟩))).isSome = false := by
  decide
/-- … and the documented predicate says the same (it is not trivially true) -/
example : specTrace (exF 97) (specStart (exF 97)) (exTrace ⟨[70, 115, 0], [84, 120, 64, 98, 0], [84, 120, 64, 99, 0]⟩) = true ∧
    specTrace (exF 97) (specStart (exF 97)) (exTrace ⟨[70, 115, 0], [84, 120, 64, 99, 0], [84, 120, 64, 98, 0]⟩) = false ∧
    specTrace (exF 97) (specStart (exF 97)) [.edit (exF 98), .msg exTodo (some ⟨[70, 115, 0], [84, 120, 64, 98, 0], [84, 120, 64, 99, 0]⟩)] = false := by
  decide
/-- a todo file with an unknown record type ("Tx@a\0Zq\0") or an empty record is not preprocessed;
records may come in any order -/
example : specTodo exCfg [84, 120, 64, 97, 0, 90, 113, 0] = none ∧ specTodo exCfg [84, 120, 64, 97, 0, 0] = none ∧
    specTodo exCfg [84, 120, 64, 97, 0, 70, 115, 0, 84, 121, 64, 122, 0, 117, 49, 0] =
      some ⟨[70, 115, 0], [84, 120, 64, 97, 0], [84, 121, 64, 122, 0]⟩ := by
  decide

/-! ## Extension round (session 4): control-file I/O errors, one instant, byte_rchr loop, comm_write layout -/

/-- **control.c readers under faults.** `control_readfile` returns -1 exactly when the fault strikes a
call it makes (`open_read` failing with errno ≠ ENOENT, a `read()` it really issues - the k-th of the
⌈n/64⌉+1 -, a stralloc call) and otherwise behaves as on a readable directory; same for
`control_readline` (reads only up to the first LF; no stralloc call on an absent file). -/
theorem C10_io_readers (flt : Option RdFault) (f me : Option Bytes) (fm : Bool) :
    readfileIO flt f me fm = (if fileHits flt f then Rd.err else Rd.ofOpt (readfile f me fm)) ∧
    readlineIO flt f = (if lineHits flt f then Rd.err else Rd.ofOpt (readline f)) :=
  ⟨rfl, rfl⟩

/-- **start-up refuses to run on any control-file I/O error**: with an arbitrary combination of failing
calls, `main()` gets past `getcontrols()`/`chdir("queue")` iff no error strikes a call start-up needs,
and then the state is exactly that of the fault-free start. -/
theorem C10_start_io (io : IOEnv) (f : Files) :
    startIO io f = if strikesStart io f then none else start f :=
  startIO_eq io f

/-- … in the documents' terms (NUL-free control directory): it starts iff `specStartIO` is defined -/
theorem C10_start_io_spec (io : IOEnv) (f : Files) (h : nulFreeB f = true) :
    (startIO io f).isSome = (specStartIO io f).isSome := by
  rw [startIO_eq]; unfold specStartIO
  cases strikesStart io f
  · simpa using start_iff_spec f h
  · rfl

/-- **a failing re-read keeps the old tables, whole**: `regetcontrols()` under any combination of
failing calls installs what the fault-free re-read installs, or - when an error strikes
`chdir(auto_qmail)`, the reader of control/locals or the reader of control/virtualdomains (also after
control/locals was read successfully) - nothing at all. Failing `constmap_init`/`stralloc_copy`/
`chdir("queue")` (retried until they succeed) change nothing. -/
theorem C10_reget_io (io : IOEnv) (me : Option Bytes) (old : RawCfg) (f : Files) :
    regetIO io me old f = if strikesReread io f then old else reget me old f :=
  regetIO_eq io me old f

/-- the code never mixes: after `regetcontrols()` (failing or not) `locals` and `vdoms` are BOTH the old
buffers or BOTH what the readers produce from the directory on disk -/
theorem C10_reget_atomic (io : IOEnv) (me : Option Bytes) (old : RawCfg) (f : Files) :
    regetIO io me old f = old ∨
      tablesAt me f = some ((regetIO io me old f).locals, (regetIO io me old f).vdoms) :=
  regetIO_tables io me old f

/-- **one instant.** After start-up under any environment and any history of edits, SIGHUPs, loop
tops, re-reads that fail in any way (`topIO io`) and messages: every message is preprocessed with
`locals` AND `virtualdomains` read off ONE control directory - the start-up one, or the one on disk at
some earlier loop top at which a HUP was pending - together with the start-up envnoathost/percenthack.
Never locals from one instant and virtualdomains from another. -/
theorem C10_one_instant (io0 : IOEnv) (f0 : Files) (d0 dn : Daemon) (pre post : List EvF)
    (todo : Bytes) (out : Option TodoOut)
    (hs : startIO io0 f0 = some d0)
    (h : acceptFAll d0 (pre ++ .ev (.msg todo out) :: post) = some dn) :
    ∃ f ∈ f0 :: servedAt f0 false pre, ∃ l v, tablesAt (readline f0.me) f = some (l, v) ∧
      out = todoDo ({ d0.cfg with locals := l, vdoms := v } : RawCfg).htLookups d0.cfg.env todo := by
  have hst : start f0 = some d0 := by
    rw [startIO_eq] at hs; split at hs
    · simp at hs
    · exact hs
  have hd0 : d0.me = readline f0.me ∧ d0.files = f0 ∧ d0.flagread = false := by
    unfold start at hst
    cases hg : getcontrols f0 with
    | none => rw [hg] at hst; simp at hst
    | some c => rw [hg] at hst; simp only [Option.some.injEq] at hst; subst hst; exact ⟨rfl, rfl, rfl⟩
  rw [acceptFAll_append] at h
  cases h1 : acceptFAll d0 pre with
  | none => rw [h1] at h; simp at h
  | some d1 =>
    rw [h1] at h
    simp only [Option.bind_some, acceptFAll, acceptF, accept] at h
    by_cases hq : todoDo d1.cfg.htLookups d1.cfg.env todo = out
    · obtain ⟨f, hf, ht⟩ := one_instant_all pre d0 d1 [f0] ⟨f0, by simp, start_tables f0 d0 hst⟩ h1
      obtain ⟨a1, a2, a3⟩ := acceptFAll_fixed pre d0 d1 h1
      rw [hd0.2.1, hd0.2.2] at hf
      refine ⟨f, by simpa using hf, d1.cfg.locals, d1.cfg.vdoms, ?_, ?_⟩
      · rw [← hd0.1, ← a1]; exact ht
      · have : ({ d0.cfg with locals := d1.cfg.locals, vdoms := d1.cfg.vdoms } : RawCfg) = d1.cfg := by
          show (⟨d0.cfg.env, d0.cfg.ph, d1.cfg.locals, d1.cfg.vdoms⟩ : RawCfg) = d1.cfg
          rw [← a2, ← a3]
        rw [this, ← a2]; exact hq.symm
    · simp [hq] at h

/-- **every trace with failing re-reads meets the documented behaviour, end to end**: `C10_trace` for the
monitor extended by `topIO io` (a loop top during which any combination of calls fails), from a
start-up under any environment. `specTraceF` keeps the documented configuration when an error strikes
the re-read and otherwise is `specTrace`. -/
theorem C10_trace_io (io0 : IOEnv) (f0 : Files) (d0 dn : Daemon) (es : List EvF)
    (hs : startIO io0 f0 = some d0) (h : acceptFAll d0 es = some dn) :
    specTraceF f0 (specStart f0) es = true := by
  have hst : start f0 = some d0 := by
    rw [startIO_eq] at hs; split at hs
    · simp at hs
    · exact hs
  cases hsp : specStart f0 with
  | none => simp [specTraceF]
  | some s0 =>
    exact sim_traceF f0 (fun c hnd r => C10_spec c r hnd) es d0 dn s0 (sim_start f0 d0 s0 hst hsp) h

/-- **one instant, in the documents' terms** (the ORACLE `judgeOneInstant` of `drv_c10`): within the
stated domain (`specRunF` defined: no control file with a NUL byte was read; no repeated
virtualdomains key in force) the outputs of every message are what `specTodo` prescribes under the
start-up envnoathost/percenthack and the documented locals AND virtualdomains of ONE control directory
among start-up's and those on disk at the served HUPs. -/
theorem C10_one_instant_spec (io0 : IOEnv) (f0 : Files) (d0 dn : Daemon) (s0 s : SpecD) (pre : List EvF)
    (todo : Bytes) (out : Option TodoOut)
    (hs : startIO io0 f0 = some d0) (hsp : specStart f0 = some s0)
    (h : acceptFAll d0 (pre ++ [.ev (.msg todo out)]) = some dn)
    (hr : specRunF f0 s0 pre = some s) (hnd : noDupKeys s.cfg.vdoms = true) :
    judgeOneInstant s0.cfg f0.me (f0 :: servedAt f0 false pre) todo out = true := by
  have hst : start f0 = some d0 := by
    rw [startIO_eq] at hs; split at hs
    · simp at hs
    · exact hs
  have hroute : ∀ c : Cfg, noDupKeys c.vdoms = true → ∀ r, rewrite c r = routeSpec c r :=
    fun c hnd r => C10_spec c r hnd
  have hsim0 := sim_start f0 d0 s0 hst hsp
  rw [acceptFAll_append] at h
  cases h1 : acceptFAll d0 pre with
  | none => rw [h1] at h; simp at h
  | some d1 =>
    rw [h1] at h
    simp only [Option.bind_some, acceptFAll] at h
    cases h2 : acceptF d1 (.ev (.msg todo out)) with
    | none => rw [h2] at h; simp at h
    | some d2 =>
      have hsim1 := sim_runF f0 hroute pre d0 d1 s0 s hsim0 h1 hr
      have hj := (sim_stepF f0 d1 d2 s (.ev (.msg todo out)) hsim1 (hroute s.cfg) h2).1
      simp only [specJudgeF, specJudge, hnd, Bool.not_true, Bool.false_or, decide_eq_true_eq] at hj
      -- the start-up state: tables of f0, files f0, nothing pending
      have hs0 : s0.files = f0 ∧ s0.pending = false ∧ specTables f0.me f0 = some (s0.cfg.locals, s0.cfg.vdoms) := by
        unfold specStart at hsp
        split at hsp
        · cases hc : specCfg f0 with
          | none => rw [hc] at hsp; simp at hsp
          | some c =>
            rw [hc] at hsp; simp only [Option.some.injEq] at hsp; subst hsp
            refine ⟨rfl, rfl, ?_⟩
            unfold specCfg at hc
            unfold specTables
            cases hl : specLocals f0 with
            | none => rw [hl] at hc; simp at hc
            | some l =>
              rw [hl] at hc; simp only [Option.some.injEq] at hc; subst hc
              rfl
        · simp at hsp
      obtain ⟨e1, e2, f, hf, ht⟩ := spec_one_instant f0 pre s0 s [f0] ⟨f0, by simp, hs0.2.2⟩ hr
      rw [hs0.1, hs0.2.1] at hf
      unfold judgeOneInstant
      rw [List.any_eq_true]
      refine ⟨f, by simpa using hf, ?_⟩
      rw [ht]
      simp only [decide_eq_true_eq]
      rw [hj]
      congr 1
      cases hc : s.cfg
      cases hc0 : s0.cfg
      simp_all

/-- **byte_rchr.c as written** (one forward pass that remembers the last match, `if (!u) u = t`) returns
what the model's `rchr` - index of the last occurrence, or the length - returns. -/
theorem C10_rchr_loop (c : Byte) (s : Bytes) : rchrC c s = rchr c s := by
  have key : ∀ (s : Bytes) (pos : Nat) (u : Option Nat),
      rchrScan c s pos u = if rchr c s < s.length then some (pos + rchr c s) else u := by
    intro s
    induction s with
    | nil => intro pos u; simp [rchrScan, rchr]
    | cons x r ih =>
      intro pos u
      simp only [rchrScan, rchr, List.length_cons]
      rw [ih]
      by_cases h : rchr c r < r.length
      · simp only [h, if_true]
        rw [if_pos (by omega)]; congr 1; omega
      · simp only [h, if_false]
        by_cases hx : x = c
        · simp [hx]
        · simp [hx]
  unfold rchrC
  rw [key]
  have := rchr_le c s
  by_cases h : rchr c s < s.length
  · simp [h]
  · simp only [h, if_false]; omega

/-- `senderadd` introduces no NUL -/
theorem C10_senderadd_nulfree (sender recip : Bytes) (hs : NUL ∉ sender) (hr : NUL ∉ recip) :
    NUL ∉ senderadd sender recip := by
  unfold senderadd
  simp only
  split
  · split
    · intro hm
      simp only [List.mem_append, List.mem_cons] at hm
      rcases hm with ((hm | hm) | hm | hm) | hm | hm
      · exact hs (List.mem_of_mem_take hm)
      · exact hr (List.mem_of_mem_take hm)
      · exact absurd hm (by decide)
      · exact hr (List.mem_of_mem_drop hm)
      · exact absurd hm (by decide)
      · exact hs (List.mem_of_mem_drop (List.mem_of_mem_take hm))
    · exact hs
  · exact hs

/-- **`comm_write` layout**: the command written to a spawner is the delivery number followed by exactly
three NUL-terminated fields - split file name, sender after VERP expansion, recipient - and splits
back into them at its NULs (NUL-free inputs; nothing dropped, merged or reordered). -/
theorem C10_comm_layout (delnum : Byte) (fn sender recip : Bytes)
    (hf : NUL ∉ fn) (hs : NUL ∉ sender) (hr : NUL ∉ recip) :
    commWrite delnum fn sender recip = delnum :: encode [fn, senderadd sender recip, recip] ∧
    chunks (commWrite delnum fn sender recip).tail = [fn, senderadd sender recip, recip] := by
  have e : commWrite delnum fn sender recip = delnum :: encode [fn, senderadd sender recip, recip] := by
    simp [commWrite, encode]
  refine ⟨e, ?_⟩
  rw [e]
  have := chunks_encode [fn, senderadd sender recip, recip] [] (by
    intro r hr'
    simp only [List.mem_cons, List.mem_nil_iff, or_false] at hr'
    rcases hr' with h | h | h
    · rw [h]; exact hf
    · rw [h]; exact C10_senderadd_nulfree sender recip hs hr
    · rw [h]; exact hr) (by simp)
  simpa using this

/-! #### non-vacuity of the I/O-error theorems (me "m\n", locals "a\n" resp. "b\n", virtualdomains "d:t\n") -/
def exG (l : Byte) : Files := ⟨some [109, 10], none, some [l, 10], none, some [100, 58, 116, 10]⟩

/-- start-up: a failing first read of control/me, a failing open of control/percenthack (which does not
exist), a failing chdir("queue") are all fatal; a failing third read of the 2-byte control/locals does not
happen (it takes two reads) and the daemon starts -/
example : startIO { me := some (.readErr 0) } (exG 97) = none ∧ startIO { ph := some .openErr } (exG 97) = none ∧
    startIO { chdirQueue := true } (exG 97) = none ∧
    (startIO { locals := some (.readErr 2) } (exG 97)).isSome = true ∧ (start (exG 97)).isSome = true := by decide
/-- re-read: control/locals ("b") is read, then the open of control/virtualdomains fails: the OLD locals stay -/
example : regetIO { vdoms := some .openErr } (some [109]) ⟨[109], [], [97, 0], []⟩ (exG 98) = ⟨[109], [], [97, 0], []⟩ ∧
    regetIO { vdoms := some (.readErr 1) } (some [109]) ⟨[109], [], [97, 0], []⟩ (exG 98) = ⟨[109], [], [97, 0], []⟩ ∧
    regetIO { vdoms := some (.readErr 2), cmNomem := true, chdirQueue := true } (some [109]) ⟨[109], [], [97, 0], []⟩ (exG 98) =
      ⟨[109], [], [98, 0], [100, 58, 116, 0]⟩ := by decide
/-- the calls of that re-read: chdir, open/read/read/close of locals, open/read/read/close of virtualdomains, chdir -/
example : (List.range 11).map (rereadCall (some [109]) (exG 98)) =
    [.chdirHome, .openf .locals, .readf .locals 0, .readf .locals 1, .closef .locals,
     .openf .vdoms, .readf .vdoms 0, .readf .vdoms 1, .closef .vdoms, .chdirQueue, .past] := by decide
/-- a trace: HUP with locals "b" whose re-read fails at control/virtualdomains; a message to x@b and x@c
("Fs\0Tx@b\0Tx@c\0") is then still routed by the start-up tables (both remote) - accepted; the outputs
under locals "b" are rejected; a second, undisturbed HUP installs "b" -/
example : ((startIO {} (exG 97)).bind (fun d => acceptFAll d
      [.ev (.edit (exG 98)), .ev .hup, .topIO { vdoms := some .openErr },
       .ev (.msg exTodo (some ⟨[70, 115, 0], [], [84, 120, 64, 98, 0, 84, 120, 64, 99, 0]⟩)),
       .ev .hup, .topIO {},
       .ev (.msg exTodo (some ⟨[70, 115, 0], [84, 120, 64, 98, 0], [84, 120, 64, 99, 0]⟩))])).isSome = true ∧
    ((startIO {} (exG 97)).bind (fun d => acceptFAll d
      [.ev (.edit (exG 98)), .ev .hup, .topIO { vdoms := some .openErr },
       .ev (.msg exTodo (some ⟨[70, 115, 0], [84, 120, 64, 98, 0], [84, 120, 64, 99, 0]⟩))])).isSome = false := by decide
/-- the documented predicates are not trivially true: outputs under locals "b" after the failed re-read are judged false -/
example : specTraceF (exG 97) (specStart (exG 97))
      [.ev (.edit (exG 98)), .ev .hup, .topIO { vdoms := some .openErr },
       .ev (.msg exTodo (some ⟨[70, 115, 0], [84, 120, 64, 98, 0], [84, 120, 64, 99, 0]⟩))] = false ∧
    judgeOneInstant ⟨[109], [], [⟨[97], []⟩], [⟨[100], [116]⟩]⟩ (some [109, 10]) [exG 97] exTodo
      (some ⟨[70, 115, 0], [84, 120, 64, 98, 0], [84, 120, 64, 99, 0]⟩) = false ∧
    judgeOneInstant ⟨[109], [], [⟨[97], []⟩], [⟨[100], [116]⟩]⟩ (some [109, 10]) [exG 97, exG 98] exTodo
      (some ⟨[70, 115, 0], [84, 120, 64, 98, 0], [84, 120, 64, 99, 0]⟩) = true := by decide
/-- byte_rchr on "a@b@c" and on "abc"; comm_write of delivery 7, "0/5", sender "s", recipient "r@d" -/
example : rchrC 64 [97, 64, 98, 64, 99] = 3 ∧ rchrC 64 [97, 98, 99] = 3 := by decide
example : commWrite 7 [48, 47, 53] [115] [114, 64, 100] = [7, 48, 47, 53, 0, 115, 0, 114, 64, 100, 0] := by decide

end Nq.Props.C10
