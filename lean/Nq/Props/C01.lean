/-
  C01 — Queue acceptance is all-or-nothing and durable.

  Model: `Nq.QueueInject` — the acceptor of qmail-queue's system-call traces, the abstract file
  system of one queue entry and the crash relation.  Tie: every trace of the real qmail-queue
  recorded under qsim (all inputs × read chunkings × single faults) is replayed through `accept`
  by `drv_c01`; constants `ADDR`, `DEATH`, `OSSIFIED` are regenerated from the sources.

  The theorems quantify over **every accepted trace** — i.e. every message, envelope, chunking of
  reads and writes, short write, EINTR and failing call — and, because every prefix of an accepted
  trace is accepted (`C01_prefix_closed`), over **every instant** at which the process or the
  machine may stop; `CrashOf` lets every file that was not fsynced since its last change come back
  with arbitrary content.
-/
import Nq.Lemmas.QueueEnv

namespace Nq.Props.C01
open Nq Nq.QueueInject Nq.Lemmas.QI

/-- the trace is a run of qmail-queue from its start, and `fs` the queue entry it produced -/
def Run (p : Params) (evs : List Ev) (s : St) : Prop := acceptAll p {} evs = some s

/-- Crash points are covered: each prefix of a run is a run. -/
theorem C01_prefix_closed (p : Params) (evs : List Ev) (s : St) (k : Nat) (h : Run p evs s) :
    ∃ s', Run p (evs.take k) s' := accept_prefix p evs k {} s h

/-- **All-or-nothing, at every instant, under every crash.** If after a crash the entry is visible
to the daemon (`todo/<n>` exists) then the message file exists and holds exactly the Received line
followed by the bytes supplied, the envelope supplied was well-formed, and `todo/<n>` holds exactly
the uid/pid header followed by the sender and every recipient in order. -/
theorem C01_atomic (p : Params) (evs : List Ev) (s : St) (h : Run p evs s) (fs' : FS)
    (hc : CrashOf (applyAll {} evs) fs') (ht : fs'.todoName = true) :
    fs'.messName = true ∧ fs'.messF.cur = p.received ++ p.msg ∧
    (scan p.env).1 = .done ∧ fs'.intdF.cur = p.hdr ++ (scan p.env).2 := by
  have hinv := run_inv p evs {} s {} (inv_init p) h
  obtain ⟨c1, c2, c3, c4, c5, c6⟩ := hc
  have hq := inv_todo p s _ hinv (by rw [← c4]; exact ht)
  obtain ⟨⟨_, n2, _, _⟩, hm, he1, he2⟩ := hq
  have hfull := scan_take p.env s.envRead (Or.inl he1)
  refine ⟨by rw [c2]; exact n2, ?_, by rw [hfull]; exact he1, ?_⟩
  · rw [c5 (by rw [hm])]; rw [hm]
  · rw [c6 (by rw [he2]), he2, hfull]

/-- **Success is durable and visible**: when qmail-queue exits 0 the entry is visible and complete,
and stays so across any crash. -/
theorem C01_success (p : Params) (evs : List Ev) (s : St) (h : Run p evs s) (hx : s.pc = .exited 0)
    (fs' : FS) (hc : CrashOf (applyAll {} evs) fs') :
    fs'.todoName = true ∧ fs'.messName = true ∧ fs'.messF.cur = p.received ++ p.msg ∧
    (scan p.env).1 = .done ∧ fs'.intdF.cur = p.hdr ++ (scan p.env).2 := by
  have hinv := run_inv p evs {} s {} (inv_init p) h
  have hq : Queued p s (applyAll {} evs) := by simpa [QInv, hx] using hinv
  have ht : fs'.todoName = true := by rw [hc.2.2.2.1]; exact hq.1.2.2.2
  exact ⟨ht, C01_atomic p evs s h fs' hc ht⟩

/-- **Failure queues nothing**: whenever qmail-queue exits non-zero (documented codes 11, 51–54,
61–66, 81, 91) the entry is not visible, nor does any crash make it visible. -/
theorem C01_failure (p : Params) (evs : List Ev) (s : St) (h : Run p evs s) (c : Nat) (hx : s.pc = .exited c)
    (hc0 : c ≠ 0) (fs' : FS) (hc : CrashOf (applyAll {} evs) fs') : fs'.todoName = false := by
  have hinv := run_inv p evs {} s {} (inv_init p) h
  have hl : Leftover (applyAll {} evs) := by simpa [QInv, hx, hc0] using hinv
  rw [hc.2.2.2.1]; exact hl.1

/-- **Leftovers are collectable**: at every instant the set of files of the entry is one of
nothing, the pid file, pid+mess, mess, mess+intd (all removed by qmail-clean/qmail-send after 36
hours, C02) or the complete entry mess+intd+todo. -/
theorem C01_leftovers (p : Params) (evs : List Ev) (s : St) (h : Run p evs s) (fs' : FS)
    (hc : CrashOf (applyAll {} evs) fs') :
    (fs'.todoName = true → fs'.intdName = true ∧ fs'.messName = true ∧ fs'.pidName = false) ∧
    (fs'.intdName = true → fs'.messName = true) ∧ (fs'.pidName = true → fs'.intdName = false) := by
  have := inv_names p s _ (run_inv p evs {} s {} (inv_init p) h)
  obtain ⟨c1, c2, c3, c4, _, _⟩ := hc
  rw [c1, c2, c3, c4]; exact this

/-- **Malformed envelopes are refused with the documented codes**: a run ends with exit 91 only if
the envelope has a wrong record letter, with exit 11 only if an address reaches `ADDR` = 1003
bytes (`scan` is characterised by `C01_envelope_*` below); neither exit path runs `cleanup`, so by
`C01_leftovers` what stays behind is mess+intd, which the daemon collects. -/
theorem C01_refusal (p : Params) (evs : List Ev) (s : St) (h : Run p evs s) :
    (s.pc = .exited 91 → (scan p.env).1 = .bad) ∧ (s.pc = .exited 11 → (scan p.env).1 = .long) := by
  have hc := run_code p evs {} s (by simp [CodeInv]) h
  constructor
  · intro hx
    have : (scan (p.env.take s.envRead)).1 = .bad := by simpa [CodeInv, hx] using hc
    rw [scan_take p.env s.envRead (Or.inr (Or.inl this))]; exact this
  · intro hx
    have : (scan (p.env.take s.envRead)).1 = .long := by simpa [CodeInv, hx] using hc
    rw [scan_take p.env s.envRead (Or.inr (Or.inr this))]; exact this

/-- **Envelope format, completeness**: every envelope `F sender NUL (T rcpt NUL)* NUL` whose
addresses are NUL-free and at most 1002 bytes long is accepted; what is stored is exactly the
sender and the recipients in order; bytes after the terminator are ignored. -/
theorem C01_envelope_complete (sender : Bytes) (rs : List Bytes) (rest : Bytes)
    (hs : AddrOk Gen.ADDR sender) (hr : ∀ r ∈ rs, AddrOk Gen.ADDR r) :
    scan (70 :: sender ++ 0 :: (encRcpts rs ++ 0 :: rest)) = (.done, 70 :: sender ++ 0 :: encRcpts rs) :=
  scan_complete Gen.ADDR sender rs rest hs hr

/-- **Envelope format, soundness**: only such envelopes are accepted. -/
theorem C01_envelope_sound (env out : Bytes) (h : scan env = (.done, out)) :
    ∃ sender rs rest, env = 70 :: sender ++ 0 :: (encRcpts rs ++ 0 :: rest) ∧ out = 70 :: sender ++ 0 :: encRcpts rs ∧
      AddrOk Gen.ADDR sender ∧ ∀ r ∈ rs, AddrOk Gen.ADDR r := by
  have := scan_sound_from Gen.ADDR (by decide) env .expectF out h
  simpa using this

/-- an address of 1003 non-NUL bytes is refused (exit 11), whatever follows -/
theorem C01_envelope_long (a rest : Bytes) (h0 : (0 : Byte) ∉ a) (hl : a.length = Gen.ADDR) :
    (scan (70 :: a ++ rest)).1 = .long := by
  have key : ∀ (a : Bytes) (len : Nat) (w : Bytes), (0 : Byte) ∉ a → len + a.length = Gen.ADDR → a ≠ [] →
      (scanFrom Gen.ADDR (.inAddr len) (a ++ w)).1 = .long := by
    intro a
    induction a with
    | nil => intro _ _ _ _ h; exact absurd rfl h
    | cons c a ih =>
      intro len w h0 hl _
      have hc : c ≠ 0 := fun hc => h0 (by simp [hc])
      have ha : (0 : Byte) ∉ a := fun hm => h0 (List.mem_cons_of_mem _ hm)
      simp only [List.length_cons] at hl
      by_cases hlast : len + 1 = Gen.ADDR
      · simp [scanFrom, sstep, hc, hlast, scanFrom_terminal Gen.ADDR .long _ (Or.inr (Or.inr rfl))]
      · have hne : a ≠ [] := by intro h; subst h; simp at hl; omega
        simp only [List.cons_append, scanFrom, sstep, hc, hlast, if_false]
        exact ih (len + 1) w ha (by omega) hne
  have hne : a ≠ [] := by intro h; subst h; simp [Gen.ADDR] at hl
  simp only [scan, List.cons_append, scanFrom, sstep, if_true]
  exact key a 0 rest h0 (by simpa using hl) hne

/-- the address limit in the source is the documented one (1002 bytes accepted, 1003 refused) -/
theorem C01_addr_limit : Gen.ADDR = ADDR_DOC := by decide

/-- **The self-destruct timer**: the first call of every run arms `alarm(DEATH)` before any file
exists, and `DEATH` (24 h) is below the age (`OSSIFIED`, 36 h) at which qmail-send and qmail-clean
start collecting leftovers — constants regenerated from the three source files on every run. -/
theorem C01_timer (p : Params) (e : Ev) (s : St) (h : accept p {} e = some s) :
    e = .alarm Gen.DEATH ∧ Gen.DEATH < Gen.OSSIFIED_send ∧ Gen.OSSIFIED_send = Gen.OSSIFIED_clean := by
  refine ⟨?_, by decide, by decide⟩
  cases e with
  | alarm n => simp [accept] at h; simp [h.1]
  | write f bs => cases f <;> simp [accept] at h
  | writeErr f i => cases f <;> simp [accept] at h
  | fsync f ok => cases f <;> simp [accept] at h
  | ftrunc f ok => cases f <;> simp [accept] at h
  | unlinkF f ok => cases f <;> simp [accept] at h
  | read fd n => simp [accept] at h
  | _ => simp [accept] at h

/-! ### Non-vacuity -/

/-- a complete run for message "hi\n", envelope F a NUL T b NUL NUL (pid file taken at the first
attempt, writes in two pieces, one EINTR) -/
example : (acceptAll { msg := [104, 105, 10], env := [70, 97, 0, 84, 98, 0, 0], received := [82, 58, 10], hdr := [117, 49, 0, 112, 50, 0] } {}
    [.alarm Gen.DEATH, .openPid 1 false, .openPid 2 true, .fstatPid true, .linkMess true, .unlinkPid true,
     .read 0 3, .write .mess [82, 58], .writeErr .mess true, .read 0 0, .write .mess [10, 104, 105, 10], .fsync .mess true,
     .openIntd true, .read 1 7, .write .intd [117, 49, 0, 112, 50, 0, 70, 97, 0, 84, 98, 0], .fsync .intd true,
     .linkTodo true, .trigOpen true, .trigWrite, .trigClose, .exit 0]).map (·.pc) = some (.exited 0) := by
  decide

/-- a run that fails with a write error while copying the envelope and cleans up -/
example : (acceptAll { msg := [104], env := [70, 0, 0], received := [82], hdr := [117] } {}
    [.alarm Gen.DEATH, .openPid 1 true, .fstatPid true, .linkMess true, .unlinkPid true,
     .read 0 1, .read 0 0, .write .mess [82, 104], .fsync .mess true, .openIntd true, .read 1 3,
     .writeErr .intd false, .ftrunc .intd true, .unlinkF .intd true, .ftrunc .mess true, .unlinkF .mess true, .exit 53]).map (·.pc)
    = some (.exited 53) := by
  decide

/-- dropping the fsync of the envelope is not a run of this program -/
example : acceptAll { msg := [], env := [70, 0, 0], received := [82], hdr := [117] } {}
    [.alarm Gen.DEATH, .openPid 1 true, .fstatPid true, .linkMess true, .unlinkPid true,
     .read 0 0, .write .mess [82], .fsync .mess true, .openIntd true, .read 1 3, .write .intd [117, 70, 0],
     .linkTodo true] = none := by
  decide

/-- a truncated envelope (EOF inside the sender) and, inside `cleanup()`, a failing
`unlink(intd/<n>)`: the program stops cleaning there (exit 54) and what is left is mess+intd -/
example : (acceptAll { msg := [104], env := [70, 97], received := [82], hdr := [117] } {}
    [.alarm Gen.DEATH, .openPid 1 true, .fstatPid true, .linkMess true, .unlinkPid true,
     .read 0 1, .read 0 0, .write .mess [82, 104], .fsync .mess true, .openIntd true, .read 1 2, .read 1 0,
     .ftrunc .intd true, .unlinkF .intd false, .exit 54]).map (·.pc) = some (.exited 54) := by
  decide

example : let fs := applyAll {} ([.alarm Gen.DEATH, .openPid 1 true, .fstatPid true, .linkMess true, .unlinkPid true,
     .read 0 1, .read 0 0, .write .mess [82, 104], .fsync .mess true, .openIntd true, .read 1 2, .read 1 0,
     .ftrunc .intd true, .unlinkF .intd false, .exit 54] : List Ev)
    (fs.pidName, fs.messName, fs.intdName, fs.todoName) = (false, true, true, false) := by
  decide

/-- going on to truncate and remove mess/<n> after `unlink(intd/<n>)` failed is not a run of this
program (it would leave intd without mess, which nothing collects) -/
example : acceptAll { msg := [104], env := [70, 97], received := [82], hdr := [117] } {}
    [.alarm Gen.DEATH, .openPid 1 true, .fstatPid true, .linkMess true, .unlinkPid true,
     .read 0 1, .read 0 0, .write .mess [82, 104], .fsync .mess true, .openIntd true, .read 1 2, .read 1 0,
     .ftrunc .intd true, .unlinkF .intd false, .ftrunc .mess true] = none := by
  decide

/-- two failures in one run: the envelope file cannot be written, then `unlink(intd/<n>)` fails -/
example : (acceptAll { msg := [104], env := [70, 0, 0], received := [82], hdr := [117] } {}
    [.alarm Gen.DEATH, .openPid 1 true, .fstatPid true, .linkMess true, .unlinkPid true,
     .read 0 1, .read 0 0, .write .mess [82, 104], .fsync .mess true, .openIntd true, .read 1 3,
     .writeErr .intd false, .ftrunc .intd false, .unlinkF .intd false, .exit 53]).map (·.pc) = some (.exited 53) := by
  decide

end Nq.Props.C01
