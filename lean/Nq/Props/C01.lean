/-
  C01 — Queue acceptance is all-or-nothing and durable.

  Model: `Nq.QueueInject` — the acceptor of qmail-queue's system-call traces, the abstract file
  system of one queue entry and the crash relation.  Tie: every trace of the real qmail-queue
  recorded under qsim (all inputs × read chunkings × single faults) is replayed through `accept`
  by `drv_c01`; constants `ADDR`, `DEATH`, `OSSIFIED` are regenerated from the sources.

  The theorems quantify over **every accepted trace** — i.e. every message, envelope, chunking of
  reads and writes, short write, EINTR and failing call — and, because every prefix of an accepted
  trace is accepted (`C01_prefix_closed`), over **every instant** at which the process or the
  machine may stop; `CrashOf` lets every file that was not fsynced since its last change come back
  with arbitrary content.

  Which theorems are what (see notes/C01.md):
  * inductive consequences of the invariants `QInv` / `CodeInv` / `FwdInv` over all accepted traces:
    `C01_atomic`, `C01_success`, `C01_failure`, `C01_killed`, `C01_leftovers`, `C01_refusal`,
    `C01_refusal_only`;
  * facts about the scanner function alone: `C01_envelope_*`, `C01_addr_limit`;
  * restatements of guards of the acceptor (they say what `accept` admits; it is the replay of the
    real program's traces that ties them to the code): `C01_timer`, `C01_handler_no_cleanup`.
-/
import Nq.Lemmas.QueueEnv

namespace Nq.Props.C01
open Nq Nq.QueueInject Nq.Lemmas.QI

/-- the trace is a run of qmail-queue from its start, and `fs` the queue entry it produced -/
def Run (p : Params) (evs : List Ev) (s : St) : Prop := acceptAll p {} evs = some s

/-- Crash points are covered: each prefix of a run is a run. -/
theorem C01_prefix_closed (p : Params) (evs : List Ev) (s : St) (k : Nat) (h : Run p evs s) :
    ∃ s', Run p (evs.take k) s' := accept_prefix p evs k {} s h

/-- **All-or-nothing, at every instant, under every crash.** If after a crash the entry is visible
to the daemon (`todo/<n>` exists) then the message file exists and holds exactly the Received line
followed by the bytes supplied, the envelope supplied was well-formed, and `todo/<n>` holds exactly
the uid/pid header followed by the sender and every recipient in order. -/
theorem C01_atomic (p : Params) (evs : List Ev) (s : St) (h : Run p evs s) (fs' : FS)
    (hc : CrashOf (applyAll {} evs) fs') (ht : fs'.todoName = true) :
    fs'.messName = true ∧ fs'.messF.cur = p.received ++ p.msg ∧
    (scan p.env).1 = .done ∧ fs'.intdF.cur = p.hdr ++ (scan p.env).2 := by
  have hinv := run_inv p evs {} s {} (inv_init p) h
  obtain ⟨c1, c2, c3, c4, c5, c6⟩ := hc
  have hq := inv_todo p s _ hinv (by rw [← c4]; exact ht)
  obtain ⟨⟨_, n2, _, _⟩, hm, he1, he2⟩ := hq
  have hfull := scan_take p.env s.envRead (Or.inl he1)
  refine ⟨by rw [c2]; exact n2, ?_, by rw [hfull]; exact he1, ?_⟩
  · rw [c5 (by rw [hm])]; rw [hm]
  · rw [c6 (by rw [he2]), he2, hfull]

/-- **Success is durable and visible**: when qmail-queue exits 0 the entry is visible and complete,
and stays so across any crash. -/
theorem C01_success (p : Params) (evs : List Ev) (s : St) (h : Run p evs s) (hx : s.pc = .exited 0)
    (fs' : FS) (hc : CrashOf (applyAll {} evs) fs') :
    fs'.todoName = true ∧ fs'.messName = true ∧ fs'.messF.cur = p.received ++ p.msg ∧
    (scan p.env).1 = .done ∧ fs'.intdF.cur = p.hdr ++ (scan p.env).2 := by
  have hinv := run_inv p evs {} s {} (inv_init p) h
  have hq : Queued p s (applyAll {} evs) := by simpa [QInv, hx] using hinv
  have ht : fs'.todoName = true := by rw [hc.2.2.2.1]; exact hq.1.2.2.2
  exact ⟨ht, C01_atomic p evs s h fs' hc ht⟩

/-- **Failure queues nothing**: whenever qmail-queue exits with a non-zero code other than the two
signal-handler codes - i.e. with 11, 51, 53, 54, 61-66, 91 - the entry is not visible, nor does any
crash make it visible.  (Replaces the earlier statement "every non-zero exit", which is false of
the program once signals are modelled: `sigalrm`/`sigbug` do not - and must not - clean up, so a
signal between `link(intd,todo)` and `_exit` gives exit 52/81 with the entry queued; see
`C01_killed`.  The property allows this: on failure the message is fully queued or invisible.) -/
theorem C01_failure (p : Params) (evs : List Ev) (s : St) (h : Run p evs s) (c : Nat) (hx : s.pc = .exited c)
    (hc0 : c ≠ 0) (h52 : c ≠ 52) (h81 : c ≠ 81) (fs' : FS) (hc : CrashOf (applyAll {} evs) fs') :
    fs'.todoName = false := by
  have hinv := run_inv p evs {} s {} (inv_init p) h
  have hl : Leftover (applyAll {} evs) := by simpa [QInv, hx, hc0, h52, h81] using hinv
  rw [hc.2.2.2.1]; exact hl.1

/-- **Killed by the timer (exit 52) or by a bug signal (exit 81)**: the handlers do not clean up.
After such an exit, and after any crash, the entry is visible only if `link(intd/<n>,todo/<n>)` had
succeeded before the signal arrived, and then it is complete and durable exactly as after a
successful run; otherwise what stays behind is a collectable leftover (`C01_leftovers`). -/
theorem C01_killed (p : Params) (evs : List Ev) (s : St) (h : Run p evs s) (c : Nat) (_hx : s.pc = .exited c)
    (_hc : c = 52 ∨ c = 81) (fs' : FS) (hcr : CrashOf (applyAll {} evs) fs') :
    (fs'.todoName = true →
      Ev.linkTodo true ∈ evs ∧ fs'.messName = true ∧ fs'.messF.cur = p.received ++ p.msg ∧
      (scan p.env).1 = .done ∧ fs'.intdF.cur = p.hdr ++ (scan p.env).2) ∧
    (Ev.linkTodo true ∉ evs → fs'.todoName = false) := by
  have hlink : fs'.todoName = true → Ev.linkTodo true ∈ evs := by
    intro ht
    rw [hcr.2.2.2.1] at ht
    rcases todo_needs_link evs {} ht with h0 | h1
    · simp at h0
    · exact h1
  refine ⟨fun ht => ⟨hlink ht, C01_atomic p evs s h fs' hcr ht⟩, fun hn => ?_⟩
  cases ht : fs'.todoName with
  | false => rfl
  | true => exact absurd (hlink ht) hn

/-- (guard of the acceptor, tied to the code by trace replay) **The signal handlers do nothing but
exit**: in a run, whatever follows the delivery of a caught signal is at most the `_exit` with the
handler's code - no `ftruncate`, no `unlink` ("thou shalt not clean up here": after the link,
`intd/<n>` and `todo/<n>` are one inode, so a cleanup would empty a published entry). -/
theorem C01_handler_no_cleanup (p : Params) (pre post : List Ev) (g : Sig) (s : St)
    (h : Run p (pre ++ .signal g :: post) s) : post = [] ∨ post = [.exit (sigCode g)] := by
  unfold Run at h
  obtain ⟨s1, h1, h2⟩ := acceptAll_append p pre (.signal g :: post) {} s h
  simp only [acceptAll] at h2
  cases hs : accept p s1 (.signal g) with
  | none => simp [hs] at h2
  | some s2 =>
    simp only [hs] at h2
    have hpc : s2.pc = .handler (sigCode g) := by
      simp only [accept] at hs
      split at hs <;> cases hs <;> rfl
    cases post with
    | nil => exact Or.inl rfl
    | cons e rest =>
      right
      simp only [acceptAll] at h2
      cases he : accept p s2 e with
      | none => simp [he] at h2
      | some s3 =>
        simp only [he] at h2
        have hex : e = .exit (sigCode g) ∧ s3.pc = .exited (sigCode g) := by
          cases e with
          | exit code =>
            simp only [accept, hpc] at he
            split at he
            · rename_i hc; cases he; exact ⟨by rw [hc], by rw [hc]⟩
            · cases he
          | write f bs => cases f <;> simp [accept, hpc] at he
          | writeErr f i => cases f <;> simp [accept, hpc] at he
          | fsync f ok => cases f <;> simp [accept, hpc] at he
          | ftrunc f ok => cases f <;> simp [accept, hpc] at he
          | unlinkF f ok => cases f <;> simp [accept, hpc] at he
          | read fd n => simp [accept, hpc] at he
          | _ => simp [accept, hpc] at he
        cases rest with
        | nil => rw [hex.1]
        | cons e2 rest2 =>
          simp only [acceptAll, accept_exited p s3 _ hex.2 e2] at h2
          cases h2

/-- **Leftovers are collectable**: at every instant the set of files of the entry is one of
nothing, the pid file, pid+mess, mess, mess+intd (all removed by qmail-clean/qmail-send after 36
hours, C02) or the complete entry mess+intd+todo. -/
theorem C01_leftovers (p : Params) (evs : List Ev) (s : St) (h : Run p evs s) (fs' : FS)
    (hc : CrashOf (applyAll {} evs) fs') :
    (fs'.todoName = true → fs'.intdName = true ∧ fs'.messName = true ∧ fs'.pidName = false) ∧
    (fs'.intdName = true → fs'.messName = true) ∧ (fs'.pidName = true → fs'.intdName = false) := by
  have := inv_names p s _ (run_inv p evs {} s {} (inv_init p) h)
  obtain ⟨c1, c2, c3, c4, _, _⟩ := hc
  rw [c1, c2, c3, c4]; exact this

/-- **Malformed, over-long and truncated envelopes are refused with the documented codes and queue
nothing**: in a run in which no call fails (`Faulty`: EINTR, short writes, any chunking of reads
and writes and a failing trigger pull are all allowed) the exit code is determined by the envelope
stream supplied: 0 if it is well-formed, 91 if a record letter is wrong, 11 if an address reaches
1003 bytes, 54 if the stream ends before the terminator (`C01_envelope_*` characterise the four
verdicts).  And whenever the envelope is not well-formed the code is non-zero and the entry is not
visible, nor does any crash make it visible.  (The earlier `C01_refusal` had only the converse,
now `C01_refusal_only`, and said nothing about 54.) -/
theorem C01_refusal (p : Params) (evs : List Ev) (s : St) (h : Run p evs s) (hf : ∀ e ∈ evs, Faulty e = false)
    (c : Nat) (hx : s.pc = .exited c) :
    c = docCode (scan p.env).1 ∧
    ((scan p.env).1 ≠ .done → (c = 91 ∨ c = 11 ∨ c = 54) ∧
       ∀ fs', CrashOf (applyAll {} evs) fs' → fs'.todoName = false) := by
  have hfw := run_fwd p evs {} s (by simp [FwdInv]) hf h
  have hc : c = docCode (scan p.env).1 := by simpa [FwdInv, hx] using hfw
  refine ⟨hc, fun hnd => ?_⟩
  have hcodes : c = 91 ∨ c = 11 ∨ c = 54 := by
    rw [hc]; cases hs : (scan p.env).1 <;> simp_all [docCode]
  exact ⟨hcodes, fun fs' hcr => C01_failure p evs s h c hx (by omega) (by omega) (by omega) fs' hcr⟩

/-- the converse, for every run whatever fails in it: exit 91 only if the envelope has a wrong record
letter, exit 11 only if an address reaches `ADDR` = 1003 bytes; neither exit path runs `cleanup`, so
by `C01_leftovers` what stays behind is mess+intd, which the daemon collects. -/
theorem C01_refusal_only (p : Params) (evs : List Ev) (s : St) (h : Run p evs s) :
    (s.pc = .exited 91 → (scan p.env).1 = .bad) ∧ (s.pc = .exited 11 → (scan p.env).1 = .long) := by
  have hc := run_code p evs {} s (by simp [CodeInv]) h
  constructor
  · intro hx
    have : (scan (p.env.take s.envRead)).1 = .bad := by simpa [CodeInv, hx] using hc
    rw [scan_take p.env s.envRead (Or.inr (Or.inl this))]; exact this
  · intro hx
    have : (scan (p.env.take s.envRead)).1 = .long := by simpa [CodeInv, hx] using hc
    rw [scan_take p.env s.envRead (Or.inr (Or.inr this))]; exact this

/-- **Truncated = the stream ends first**: the scanner ends in none of its three verdicts iff it had
reached none of them on any prefix of the stream (so exit 54 of `C01_refusal` is exactly "the writer
stopped before the terminator, and nothing before that point was wrong"). -/
theorem C01_envelope_truncated (env : Bytes) :
    ((scan env).1 ≠ .done ∧ (scan env).1 ≠ .bad ∧ (scan env).1 ≠ .long) ↔
    ∀ k, (scan (env.take k)).1 ≠ .done ∧ (scan (env.take k)).1 ≠ .bad ∧ (scan (env.take k)).1 ≠ .long := by
  constructor
  · intro hn k
    refine ⟨fun hk => ?_, fun hk => ?_, fun hk => ?_⟩
    · exact hn.1 (by rw [scan_take env k (Or.inl hk)]; exact hk)
    · exact hn.2.1 (by rw [scan_take env k (Or.inr (Or.inl hk))]; exact hk)
    · exact hn.2.2 (by rw [scan_take env k (Or.inr (Or.inr hk))]; exact hk)
  · intro hk
    have := hk env.length
    rwa [List.take_length] at this

/-- **Envelope format, completeness**: every envelope `F sender NUL (T rcpt NUL)* NUL` whose
addresses are NUL-free and at most 1002 bytes long is accepted; what is stored is exactly the
sender and the recipients in order; bytes after the terminator are ignored. -/
theorem C01_envelope_complete (sender : Bytes) (rs : List Bytes) (rest : Bytes)
    (hs : AddrOk Gen.ADDR sender) (hr : ∀ r ∈ rs, AddrOk Gen.ADDR r) :
    scan (70 :: sender ++ 0 :: (encRcpts rs ++ 0 :: rest)) = (.done, 70 :: sender ++ 0 :: encRcpts rs) :=
  scan_complete Gen.ADDR sender rs rest hs hr

/-- **Envelope format, soundness**: only such envelopes are accepted. -/
theorem C01_envelope_sound (env out : Bytes) (h : scan env = (.done, out)) :
    ∃ sender rs rest, env = 70 :: sender ++ 0 :: (encRcpts rs ++ 0 :: rest) ∧ out = 70 :: sender ++ 0 :: encRcpts rs ∧
      AddrOk Gen.ADDR sender ∧ ∀ r ∈ rs, AddrOk Gen.ADDR r := by
  have := scan_sound_from Gen.ADDR (by decide) env .expectF out h
  simpa using this

/-- an address of 1003 non-NUL bytes is refused (exit 11), whatever follows -/
theorem C01_envelope_long (a rest : Bytes) (h0 : (0 : Byte) ∉ a) (hl : a.length = Gen.ADDR) :
    (scan (70 :: a ++ rest)).1 = .long := by
  have key : ∀ (a : Bytes) (len : Nat) (w : Bytes), (0 : Byte) ∉ a → len + a.length = Gen.ADDR → a ≠ [] →
      (scanFrom Gen.ADDR (.inAddr len) (a ++ w)).1 = .long := by
    intro a
    induction a with
    | nil => intro _ _ _ _ h; exact absurd rfl h
    | cons c a ih =>
      intro len w h0 hl _
      have hc : c ≠ 0 := fun hc => h0 (by simp [hc])
      have ha : (0 : Byte) ∉ a := fun hm => h0 (List.mem_cons_of_mem _ hm)
      simp only [List.length_cons] at hl
      by_cases hlast : len + 1 = Gen.ADDR
      · simp [scanFrom, sstep, hc, hlast, scanFrom_terminal Gen.ADDR .long _ (Or.inr (Or.inr rfl))]
      · have hne : a ≠ [] := by intro h; subst h; simp at hl; omega
        simp only [List.cons_append, scanFrom, sstep, hc, hlast, if_false]
        exact ih (len + 1) w ha (by omega) hne
  have hne : a ≠ [] := by intro h; subst h; simp [Gen.ADDR] at hl
  simp only [scan, List.cons_append, scanFrom, sstep, if_true]
  exact key a 0 rest h0 (by simpa using hl) hne

/-- the address limit in the source is the documented one (1002 bytes accepted, 1003 refused) -/
theorem C01_addr_limit : Gen.ADDR = ADDR_DOC := by decide

/-- (guard of the acceptor at `start`, tied to the code by trace replay; the constants are
regenerated from the three source files on every run) **The self-destruct timer**: every run
begins with `alarm(DEATH)` - or consists of nothing but an exit 61/62/51 (a `chdir` or the first
allocation failed: nothing was created) - so the timer is armed before any file exists; and
`DEATH` (24 h) is below the age (`OSSIFIED`, 36 h) at which qmail-send and qmail-clean start
collecting leftovers.  What the timer does when it fires is `C01_killed`. -/
theorem C01_timer (p : Params) (e : Ev) (evs : List Ev) (s : St) (h : Run p (e :: evs) s) :
    (e = .alarm Gen.DEATH ∨ ((e = .exit 61 ∨ e = .exit 62 ∨ e = .exit 51) ∧ evs = [])) ∧
    Gen.DEATH < Gen.OSSIFIED_send ∧ Gen.OSSIFIED_send = Gen.OSSIFIED_clean := by
  refine ⟨?_, by decide, by decide⟩
  unfold Run at h
  simp only [acceptAll] at h
  cases h1 : accept p {} e with
  | none => simp [h1] at h
  | some s1 =>
    simp only [h1] at h
    cases e with
    | alarm n => simp [accept] at h1; simp [h1.1]
    | exit code =>
      right
      simp only [accept] at h1
      split at h1
      · rename_i hc; cases h1
        refine ⟨by rcases hc with hc | hc | hc <;> simp [hc], ?_⟩
        cases evs with
        | nil => rfl
        | cons e2 rest =>
          have := accept_exited p { pc := PC.exited code } code rfl e2
          simp [acceptAll, this] at h
      · cases h1
    | write f bs => cases f <;> simp [accept] at h1
    | writeErr f i => cases f <;> simp [accept] at h1
    | fsync f ok => cases f <;> simp [accept] at h1
    | ftrunc f ok => cases f <;> simp [accept] at h1
    | unlinkF f ok => cases f <;> simp [accept] at h1
    | read fd n => simp [accept] at h1
    | _ => simp [accept] at h1

/-! ### Non-vacuity -/

/-- a complete run for message "hi\n", envelope F a NUL T b NUL NUL (pid file taken at the first
attempt, writes in two pieces, one EINTR) -/
example : (acceptAll { msg := [104, 105, 10], env := [70, 97, 0, 84, 98, 0, 0], received := [82, 58, 10], hdr := [117, 49, 0, 112, 50, 0] } {}
    [.alarm Gen.DEATH, .openPid 1 false, .openPid 2 true, .fstatPid true, .linkMess true, .unlinkPid true,
     .read 0 3, .write .mess [82, 58], .writeErr .mess true, .read 0 0, .write .mess [10, 104, 105, 10], .fsync .mess true,
     .openIntd true, .read 1 7, .write .intd [117, 49, 0, 112, 50, 0, 70, 97, 0, 84, 98, 0], .fsync .intd true,
     .linkTodo true, .trigOpen true, .trigWrite, .trigClose, .exit 0]).map (·.pc) = some (.exited 0) := by
  decide

/-- a run that fails with a write error while copying the envelope and cleans up -/
example : (acceptAll { msg := [104], env := [70, 0, 0], received := [82], hdr := [117] } {}
    [.alarm Gen.DEATH, .openPid 1 true, .fstatPid true, .linkMess true, .unlinkPid true,
     .read 0 1, .read 0 0, .write .mess [82, 104], .fsync .mess true, .openIntd true, .read 1 3,
     .writeErr .intd false, .ftrunc .intd true, .unlinkF .intd true, .ftrunc .mess true, .unlinkF .mess true, .exit 53]).map (·.pc)
    = some (.exited 53) := by
  decide

/-- dropping the fsync of the envelope is not a run of this program -/
example : acceptAll { msg := [], env := [70, 0, 0], received := [82], hdr := [117] } {}
    [.alarm Gen.DEATH, .openPid 1 true, .fstatPid true, .linkMess true, .unlinkPid true,
     .read 0 0, .write .mess [82], .fsync .mess true, .openIntd true, .read 1 3, .write .intd [117, 70, 0],
     .linkTodo true] = none := by
  decide

/-- a truncated envelope (EOF inside the sender) and, inside `cleanup()`, a failing
`unlink(intd/<n>)`: the program stops cleaning there (exit 54) and what is left is mess+intd -/
example : (acceptAll { msg := [104], env := [70, 97], received := [82], hdr := [117] } {}
    [.alarm Gen.DEATH, .openPid 1 true, .fstatPid true, .linkMess true, .unlinkPid true,
     .read 0 1, .read 0 0, .write .mess [82, 104], .fsync .mess true, .openIntd true, .read 1 2, .read 1 0,
     .ftrunc .intd true, .unlinkF .intd false, .exit 54]).map (·.pc) = some (.exited 54) := by
  decide

example : let fs := applyAll {} ([.alarm Gen.DEATH, .openPid 1 true, .fstatPid true, .linkMess true, .unlinkPid true,
     .read 0 1, .read 0 0, .write .mess [82, 104], .fsync .mess true, .openIntd true, .read 1 2, .read 1 0,
     .ftrunc .intd true, .unlinkF .intd false, .exit 54] : List Ev)
    (fs.pidName, fs.messName, fs.intdName, fs.todoName) = (false, true, true, false) := by
  decide

/-- going on to truncate and remove mess/<n> after `unlink(intd/<n>)` failed is not a run of this
program (it would leave intd without mess, which nothing collects) -/
example : acceptAll { msg := [104], env := [70, 97], received := [82], hdr := [117] } {}
    [.alarm Gen.DEATH, .openPid 1 true, .fstatPid true, .linkMess true, .unlinkPid true,
     .read 0 1, .read 0 0, .write .mess [82, 104], .fsync .mess true, .openIntd true, .read 1 2, .read 1 0,
     .ftrunc .intd true, .unlinkF .intd false, .ftrunc .mess true] = none := by
  decide

/-- two failures in one run: the envelope file cannot be written, then `unlink(intd/<n>)` fails -/
example : (acceptAll { msg := [104], env := [70, 0, 0], received := [82], hdr := [117] } {}
    [.alarm Gen.DEATH, .openPid 1 true, .fstatPid true, .linkMess true, .unlinkPid true,
     .read 0 1, .read 0 0, .write .mess [82, 104], .fsync .mess true, .openIntd true, .read 1 3,
     .writeErr .intd false, .ftrunc .intd false, .unlinkF .intd false, .exit 53]).map (·.pc) = some (.exited 53) := by
  decide

/-- the hypothesis of `C01_refusal` holds of the complete run above (a refused pid file name, a
write in two pieces and an EINTR are not `Faulty`) -/
example : ([.alarm Gen.DEATH, .openPid 1 false, .openPid 2 true, .fstatPid true, .linkMess true, .unlinkPid true,
     .read 0 3, .write .mess [82, 58], .writeErr .mess true, .read 0 0, .write .mess [10, 104, 105, 10], .fsync .mess true,
     .openIntd true, .read 1 7, .write .intd [117, 49, 0, 112, 50, 0, 70, 97, 0, 84, 98, 0], .fsync .intd true,
     .linkTodo true, .trigOpen true, .trigWrite, .trigClose, .exit 0] : List Ev).all (fun e => !Faulty e) = true := by
  decide

/-- a wrong record letter (X instead of T): exit 91 without cleanup, no failing call -/
example : (acceptAll { msg := [104], env := [70, 97, 0, 88, 98, 0, 0], received := [82], hdr := [117] } {}
    [.alarm Gen.DEATH, .openPid 1 true, .fstatPid true, .linkMess true, .unlinkPid true,
     .read 0 1, .read 0 0, .write .mess [82, 104], .fsync .mess true, .openIntd true, .read 1 7, .exit 91]).map (·.pc)
    = some (.exited 91) := by
  decide

example : docCode (scan [70, 97, 0, 88, 98, 0, 0]).1 = 91 ∧ docCode (scan [70, 97]).1 = 54 ∧
    docCode (scan [70, 97, 0, 0]).1 = 0 := by decide

/-- SIGALRM between `link(intd,todo)` and `_exit`: exit 52 although the (complete) entry is queued -/
example : (acceptAll { msg := [], env := [70, 0, 0], received := [82], hdr := [117] } {}
    [.alarm Gen.DEATH, .openPid 1 true, .fstatPid true, .linkMess true, .unlinkPid true,
     .read 0 0, .write .mess [82], .fsync .mess true, .openIntd true, .read 1 3, .write .intd [117, 70, 0],
     .fsync .intd true, .linkTodo true, .signal .alrm, .exit 52]).map (·.pc) = some (.exited 52) := by
  decide

example : (applyAll {} ([.alarm Gen.DEATH, .openPid 1 true, .fstatPid true, .linkMess true, .unlinkPid true,
     .read 0 0, .write .mess [82], .fsync .mess true, .openIntd true, .read 1 3, .write .intd [117, 70, 0],
     .fsync .intd true, .linkTodo true, .signal .alrm, .exit 52] : List Ev)).todoName = true := by
  decide

/-- a handler that cleans up is not this program: `ftruncate(intd)` after SIGALRM is rejected -/
example : acceptAll { msg := [], env := [70, 0, 0], received := [82], hdr := [117] } {}
    [.alarm Gen.DEATH, .openPid 1 true, .fstatPid true, .linkMess true, .unlinkPid true,
     .read 0 0, .write .mess [82], .fsync .mess true, .openIntd true, .read 1 3, .write .intd [117, 70, 0],
     .fsync .intd true, .linkTodo true, .signal .alrm, .ftrunc .intd true] = none := by
  decide

/-- SIGALRM inside `cleanup()`, between `unlink(intd/<n>)` and the calls on `mess/<n>` -/
example : (acceptAll { msg := [104], env := [70, 97], received := [82], hdr := [117] } {}
    [.alarm Gen.DEATH, .openPid 1 true, .fstatPid true, .linkMess true, .unlinkPid true,
     .read 0 1, .read 0 0, .write .mess [82, 104], .fsync .mess true, .openIntd true, .read 1 2, .read 1 0,
     .ftrunc .intd true, .unlinkF .intd true, .signal .alrm, .exit 52]).map (·.pc) = some (.exited 52) := by
  decide

/-- `chdir` fails: exit 61, nothing else; an allocation fails in `fnnum()`: exit 51, the pid file stays -/
example : (acceptAll { msg := [], env := [], received := [], hdr := [] } {} [.exit 61]).map (·.pc) = some (.exited 61) := by
  decide

example : (acceptAll { msg := [], env := [], received := [], hdr := [] } {}
    [.alarm Gen.DEATH, .openPid 1 true, .fstatPid true, .exit 51]).map (·.pc) = some (.exited 51) ∧
    (applyAll {} ([.alarm Gen.DEATH, .openPid 1 true, .fstatPid true, .exit 51] : List Ev)).pidName = true := by
  decide

end Nq.Props.C01
