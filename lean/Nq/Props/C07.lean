/-
  Property C07 — network daemons acknowledge a message if and only if exactly it was queued.

  Models: Nq/QmailC.lean (qmail.c), Nq/Received.lean (received.c, date822fmt.c, datetime.c),
  Nq/Netstring.lean (qmail-qmtpd.c, qmail-qmqpd.c, smtp_data() of qmail-smtpd.c); specification
  vocabulary: Nq/Spec/C07.lean.  The tables these theorems mention (`Gen.QQClose`, `Gen.Safe`,
  `Gen.C07`) are regenerated from /repo on every run, so the statements are re-checked against
  the source as it is now.  The tie between the hand-written models and the C code is the
  correspondence run of ./check C07.
-/
import Nq.Basic
import Nq.QmailC
import Nq.Received
import Nq.Netstring
import Nq.Spec.C07
import Nq.Lemmas.C07Sub
import Nq.Lemmas.C07Qq
import Nq.Lemmas.C07Daemons
import Nq.Lemmas.C07Date
import Nq.Lemmas.HopCount
import Nq.Lemmas.C07Flags
import Nq.Lemmas.C07Strict
import Nq.Lemmas.C07Qmqp2
import Nq.Lemmas.C07Session
import Nq.Lemmas.C07Smtp
import Nq.Lemmas.C07SmtpBytes

namespace Nq.Props.C07
open Nq Nq.QmailC Nq.Received Nq.Netstring
open Nq.Gen.QQClose

/-! ## 1. qmail.c: the failure flag -/

/-- `flagerr` is sticky: whatever the daemon calls afterwards, it stays set. -/
theorem C07_flagerr_sticky (q : QQ) (ops : List QOp) (h : q.flagerr = true) : (q.run ops).flagerr = true :=
  QQ.run_mono ops q h

/-- Once `flagerr` is set nothing further reaches qmail-queue: `put/puts/to/fail/close` leave both pipes as they are
    (in particular `qmail_close` does not send the envelope terminator). -/
theorem C07_flagerr_silences (q : QQ) (op : QOp) (h : q.flagerr = true) (hop : ∀ s, op ≠ .from_ s) :
    (q.apply op).envPipe = q.envPipe ∧ (q.apply op).msgPipe = q.msgPipe := by
  cases op with
  | put bs => show (q.put bs).envPipe = _ ∧ (q.put bs).msgPipe = _; rw [QQ.put_flagerr q bs h]; exact ⟨rfl, rfl⟩
  | fail => exact ⟨rfl, rfl⟩
  | from_ s => exact absurd rfl (hop s)
  | to r =>
    show (q.to r).envPipe = _ ∧ (q.to r).msgPipe = _
    have : q.to r = q := by
      unfold QQ.to; rw [QQ.put_flagerr q _ h, QQ.put_flagerr q _ h, QQ.put_flagerr q _ h]
    rw [this]; exact ⟨rfl, rfl⟩
  | close =>
    show q.close.envPipe = _ ∧ q.close.msgPipe = _
    unfold QQ.close
    rw [QQ.put_flagerr q [0] h]
    simp [h, QQ.envPipe, QQ.msgPipe]

/-- **C07_fail_no_terminator.**  Whatever happened while the message was copied (`q` arbitrary, any write-fault
    schedule), after `qmail_from` and any sequence of `qmail_to` / `qmail_fail` / one-shot recipient blocks:
    if `qmail_close` ends with `flagerr` set, the bytes qmail-queue reads on descriptor 1 do not contain a complete
    envelope — qmail-queue's scanner (`envParse`, qmail-queue.c main) hits end of file (`die_read`, exit 54) and
    queues nothing. -/
theorem C07_fail_no_terminator (q : QQ) (sender : Bytes) (eops : List QOp) (h : ∀ op ∈ eops, EnvOp op)
    (hf : (((q.from_ sender).run eops).close).flagerr = true) :
    envComplete (((q.from_ sender).run eops).close).envPipe = false :=
  QQ.close_fail_good _ (QQ.run_good eops _ (QQ.from_good q sender) h) hf

/-- **C07_cut (queue side).**  If the daemon exits before `qmail_close` (client disconnect at any later byte,
    `badproto`, `resources`, `die_read`, stray newline), the envelope pipe holds no complete envelope — with or
    without failures, whatever was buffered or flushed. -/
theorem C07_cut_no_envelope (q : QQ) (sender : Bytes) (eops : List QOp) (h : ∀ op ∈ eops, EnvOp op) :
    envComplete ((q.from_ sender).run eops).envPipe = false :=
  envPipe_good _ (QQ.run_good eops _ (QQ.from_good q sender) h)

/-- … and before `qmail_from` the envelope pipe is empty.  (BY DEFINITION of `QQ.envPipe` — `if inEnv then … else []`;
    kept as a named step of the cut argument, not a property clause of its own.) -/
theorem C07_cut_before_from (q : QQ) (h : q.inEnv = false) : q.envPipe = [] ∧ envComplete q.envPipe = false := by
  simp [QQ.envPipe, h, envComplete, envParse]

example : EnvOp (.to [97, 64, 98]) ∧ EnvOp .fail ∧ EnvOp (.put (entries [[97], [98, 0, 99]])) :=
  ⟨.to _, .fail, .rcptto _⟩

/-! ## 2. qmail_close: the verdict -/

theorem lookup_mem {α : Type} : ∀ (l : List (Nat × α)) (e : Nat) (s : α), l.lookup e = some s → (e, s) ∈ l
  | [], _, _, h => by simp [List.lookup] at h
  | (k, v) :: l, e, s, h => by
    unfold List.lookup at h
    split at h
    · rename_i heq; simp at h; simp at heq; subst heq; subst h; simp
    · exact List.mem_cons_of_mem _ (lookup_mem l e s h)

/-- every string of the switch is non-empty, starts with D or Z, and starts with D exactly for 11..40 and 115;
    82 has no `case` of its own -/
def tableOK : Bool :=
  table.all (fun p => !p.2.isEmpty && (p.2.head? == some 68 || p.2.head? == some 90) &&
    ((p.2.head? == some 68) == ((11 ≤ p.1 && p.1 ≤ 40) || p.1 == 115)) && p.1 != 82 && p.1 < 256)

theorem tableOK_true : tableOK = true := by decide

theorem table_entry (e : Nat) (s : Bytes) (h : table.lookup e = some s) :
    s ≠ [] ∧ (s.head? = some 68 ∨ s.head? = some 90) ∧ (s.head? = some 68 ↔ ((11 ≤ e ∧ e ≤ 40) ∨ e = 115)) ∧ e ≠ 82 := by
  have hm := lookup_mem table e s h
  have := tableOK_true
  unfold tableOK at this
  rw [List.all_eq_true] at this
  have h1 := this (e, s) hm
  simp only [Bool.and_eq_true, Bool.not_eq_true', bne_iff_ne, ne_eq, decide_eq_true_eq, beq_iff_eq,
    Bool.or_eq_true] at h1
  obtain ⟨⟨⟨⟨h1, h2⟩, h3⟩, h4⟩, _⟩ := h1
  refine ⟨by intro hs; simp [hs] at h1, h2, ?_, h4⟩
  constructor
  · intro hd; simp [hd] at h3; simpa using h3
  · intro he
    have : ((decide (11 ≤ e) && decide (e ≤ 40)) || e == 115) = true := by simpa using he
    rw [this] at h3; simpa using h3

/-- the custom text honours the interface of qmail-queue.8: it starts with `D` or `Z` -/
def TextOK (t : Bytes) : Prop := t.head? = some 68 ∨ t.head? = some 90

theorem errstr_head (t : Bytes) (h : TextOK t) : (errstr t).head? = t.head? ∧ errstr t ≠ [] := by
  unfold errstr
  cases t with
  | nil => simp [TextOK] at h
  | cons c r =>
    have hc : c ≠ 0 := by
      rcases h with h | h <;> simp at h <;> subst h <;> decide
    have : List.take errMax (c :: r) = c :: List.take 254 r := by simp [errMax]
    rw [this]; unfold cstr; simp [hc]

/-- **C07_verdict (success).**  `qmail_close` returns "" exactly when the queue program exited 0, did not crash and no
    failure was flagged (for every exit status, every custom text that honours the interface). -/
theorem C07_verdict (exit : Nat) (crashed flagerr : Bool) (text : Bytes) (ht : TextOK text ∨ text.length ≤ 2) :
    closeVerdict exit crashed flagerr text = [] ↔ (exit = 0 ∧ crashed = false ∧ flagerr = false) := by
  have hz : zeroGuarded = true := by decide
  unfold closeVerdict
  cases crashed
  · simp only [Bool.false_eq_true, ↓reduceIte, hz, Bool.not_true, Bool.false_or]
    by_cases h0 : exit = 0 ∧ (!flagerr) = true
    · simp only [h0, and_self, ↓reduceIte, true_and]
      simpa using h0.2
    · simp only [h0, ↓reduceIte]
      constructor
      · intro hv
        exfalso
        cases hl : table.lookup exit with
        | some s => rw [hl] at hv; exact (table_entry exit s hl).1 hv
        | none =>
          rw [hl] at hv
          simp only at hv
          split at hv
          · rename_i hc
            rcases ht with ht | ht
            · exact (errstr_head text ht).2 hv
            · have := hc.2; simp [customMinLen, errMax] at this; omega
          · split at hv
            · exact absurd hv (by decide)
            · exact absurd hv (by decide)
      · intro ⟨he, _, hf⟩; exact absurd ⟨he, by simp [hf]⟩ h0
  · simp only [↓reduceIte]
    constructor
    · intro h; exact absurd h (by decide)
    · intro ⟨_, h, _⟩; exact absurd h (by simp)

/-- **C07_verdict (the interface gap, what the code does outside the hypothesis of `C07_verdict`).**  A queue program
    that exits 82 and writes a text of more than two bytes beginning with NUL makes `qmail_close` return "" —
    which every daemon takes for success. -/
theorem C07_verdict_gap (flagerr : Bool) : closeVerdict 82 false flagerr [0, 120, 121] = [] := by
  cases flagerr <;> decide

/-- **C07_verdict (classes).**  Whenever the verdict is not success it starts with `D` or `Z`, and with `D` exactly in
    the cases qmail-queue.8 calls permanent: 11..40, 115 (alias of 11), 82 with a text starting with `D`.
    A crash, exit 0 with `flagerr`, and every other status (51.., 81, 91, 120, ≥ 256 …) give `Z`. -/
theorem C07_verdict_class (exit : Nat) (crashed flagerr : Bool) (text : Bytes) (ht : TextOK text ∨ text.length ≤ 2)
    (hne : closeVerdict exit crashed flagerr text ≠ []) :
    ((closeVerdict exit crashed flagerr text).head? = some 68 ∨ (closeVerdict exit crashed flagerr text).head? = some 90) ∧
    ((closeVerdict exit crashed flagerr text).head? = some 68 ↔
      Nq.Spec.C07.qqClass exit crashed text = .perm) := by
  have hz : zeroGuarded = true := by decide
  unfold closeVerdict at hne ⊢
  unfold Nq.Spec.C07.qqClass
  cases crashed
  · simp only [Bool.false_eq_true, ↓reduceIte, hz, Bool.not_true, Bool.false_or] at hne ⊢
    by_cases h0 : exit = 0 ∧ (!flagerr) = true
    · simp [h0] at hne
    · simp only [h0, ↓reduceIte]
      cases hl : table.lookup exit with
      | some s =>
        have te := table_entry exit s hl
        simp only
        refine ⟨te.2.1, ?_⟩
        rw [te.2.2.1]
        by_cases he0 : exit = 0
        · subst he0; simp
        · simp only [he0, ↓reduceIte, te.2.2.2, false_and]
          constructor
          · intro h; simp [h]
          · intro h; split at h <;> simp_all
      | none =>
        have h115 : exit ≠ 115 := by intro h; subst h; revert hl; decide
        have he0 : exit ≠ 0 := by intro h; subst h; revert hl; decide
        simp only [he0, ↓reduceIte]
        by_cases hc : exit = customCode ∧ min text.length errMax > customMinLen
        · have hlen : text.length > 2 := by
            have := hc.2; simp [customMinLen, errMax] at this; omega
          have h82 : exit = 82 := hc.1
          subst h82
          rcases ht with ht | ht
          · have eh := errstr_head text ht
            have hcc : (82 = customCode ∧ min text.length errMax > customMinLen) := hc
            simp only [hcc, and_self, ↓reduceIte, eh.1, hlen, true_and]
            refine ⟨ht, ?_⟩
            rcases ht with ht | ht <;> simp [ht]
          · omega
        · simp only [hc, ↓reduceIte]
          have hnc : ¬ (exit = 82 ∧ text.length > 2) := by
            intro ⟨a, b⟩; apply hc; refine ⟨a, ?_⟩; simp [customMinLen, errMax]; omega
          simp only [hnc, ↓reduceIte, h115, or_false]
          by_cases hp : permLo ≤ exit ∧ exit ≤ permHi
          · have hp' : 11 ≤ exit ∧ exit ≤ 40 := hp
            simp only [hp, and_self, ↓reduceIte, hp']
            exact ⟨Or.inl (by decide), by decide⟩
          · have hp' : ¬ (11 ≤ exit ∧ exit ≤ 40) := hp
            simp only [hp, ↓reduceIte, hp']
            exact ⟨Or.inr (by decide), by decide⟩
  · simp only [↓reduceIte]
    exact ⟨Or.inr (by decide), by decide⟩

example : TextOK [68, 110, 111] := Or.inl rfl
example : closeVerdict 31 false false [] ≠ [] := by decide

/-! ## 3. received.c -/

theorem byte_cases (P : Byte → Prop) (h : ∀ n, n < 256 → P (UInt8.ofNat n)) (c : Byte) : P c := by
  have := h c.toNat (UInt8.toNat_lt c)
  simpa using this

/-- what `safeput` may emit: a byte `issafe` accepts, or the replacement `?` — in every case a printable ASCII
    byte that is not a space, a parenthesis, CR or LF -/
def Harmless (b : Byte) : Prop :=
  (issafe b = true ∨ b = QMARK) ∧ 32 < b ∧ b < 127 ∧ b ≠ 40 ∧ b ≠ 41

instance (b : Byte) : Decidable (Harmless b) := by unfold Harmless; exact inferInstance

set_option maxRecDepth 100000 in
theorem sanitize_safe : ∀ c : Byte, Harmless (sanitize c) :=
  byte_cases _ (by decide)

/-- **C07_received_safe (a).**  Every byte `safeput` emits is one `issafe` accepts or the replacement character `?`
    (which `issafe` itself does not list — the design note said "satisfies issafe"; that is false for `?`), hence
    printable, not a space, not a parenthesis, not CR/LF — whatever HELO / TCPREMOTE* contain. -/
theorem C07_received_safe (s : Bytes) : ∀ b ∈ safeput s, Harmless b := by
  intro b hb
  unfold safeput at hb
  rw [List.mem_map] at hb
  obtain ⟨c, _, rfl⟩ := hb
  exact sanitize_safe c

example : sanitize 10 = QMARK ∧ issafe QMARK = false := by decide

set_option maxRecDepth 100000 in
theorem sanitize_ne_lf : ∀ c : Byte, sanitize c ≠ LF :=
  byte_cases _ (by decide)

theorem safeput_count_lf (s : Bytes) : (safeput s).count LF = 0 := by
  rw [List.count_eq_zero]
  intro h
  unfold safeput at h
  rw [List.mem_map] at h
  obtain ⟨c, _, hc⟩ := h
  exact sanitize_ne_lf c hc

theorem digitsAux_digits : ∀ (fuel n : Nat) (acc : Bytes), (∀ b ∈ acc, isDigit b = true) →
    ∀ b ∈ digitsAux fuel n acc, isDigit b = true
  | 0, _, acc, h => by simpa [digitsAux] using h
  | fuel + 1, n, acc, h => by
    have hd : isDigit (UInt8.ofNat (48 + n % 10)) = true := by
      have : n % 10 < 10 := Nat.mod_lt _ (by decide)
      have h2 : ∀ k, k < 10 → isDigit (UInt8.ofNat (48 + k)) = true := by decide
      exact h2 _ this
    have hacc : ∀ b ∈ UInt8.ofNat (48 + n % 10) :: acc, isDigit b = true := by
      intro b hb; rcases List.mem_cons.mp hb with rfl | hb
      · exact hd
      · exact h b hb
    unfold digitsAux
    split
    · exact hacc
    · exact digitsAux_digits fuel (n / 10) _ hacc

theorem fmtU_digits (n : Nat) : ∀ b ∈ fmtU n, isDigit b = true :=
  digitsAux_digits (n + 1) n [] (by simp)

theorem fmtU_count_lf (n : Nat) : (fmtU n).count LF = 0 := by
  rw [List.count_eq_zero]; intro h
  have := fmtU_digits n LF h
  exact absurd this (by decide)

theorem fmtU0_count_lf (u k : Nat) : (fmtU0 u k).count LF = 0 := by
  unfold fmtU0
  rw [List.count_append, fmtU_count_lf, List.count_replicate]
  simp [LF]

theorem months_count_lf (m : Nat) : (months.getD m []).count LF = 0 := by
  by_cases h : m < 12
  · have : ∀ k, k < 12 → (months.getD k []).count LF = 0 := by decide
    exact this m h
  · have h2 : months[m]? = none := List.getElem?_eq_none (by simp [months]; omega)
    have : months.getD m [] = [] := by simp [List.getD, h2]
    rw [this]; rfl

theorem date822_count_lf (dt : DT) : (date822 dt).count LF = 1 := by
  unfold date822
  simp only [List.count_append, fmtU_count_lf, fmtU0_count_lf, months_count_lf]
  decide

/-- **C07_received_safe (b).**  The Received field is exactly two lines — it contains exactly two LF, the second
    one being its last byte — whatever HELO, TCPREMOTEHOST, TCPREMOTEINFO, TCPREMOTEIP, TCPLOCALHOST contain and
    whatever the clock says. -/
theorem C07_received_two_lines (proto : Bytes) (p : Peer) (helo : Option Bytes) (t : Nat) (hp : proto.count LF = 0) :
    (received proto p helo t).count LF = 2 ∧ (received proto p helo t).getLast? = some LF := by
  constructor
  · unfold received
    cases helo <;> cases hi : p.info <;>
      simp only [List.count_append, safeput_count_lf, date822_count_lf, hp, List.count_nil] <;> decide
  · unfold received date822
    simp only [← List.append_assoc]
    rw [List.getLast?_append]
    simp [lZone, LF]

example : (received pSMTP ⟨some [10, 32, 10], none, some [40, 10], none, none⟩ (some [13, 10]) 0).count LF = 2 := by decide

/-! ### the safe set is the documented one; the field is the specified one and is well formed -/

set_option maxRecDepth 100000 in
/-- **C07_received_safe (c).**  `issafe()` — the table regenerated from received.c on every run — accepts exactly the
    documented set: letters, digits and `. @ % + / = : - [ ]` (`Spec.C07.safeSpec`, written down independently of the
    code).  In particular no backslash, quote, parenthesis, angle bracket, comma, semicolon, space, control or 8-bit
    byte.  If the source starts to let any other byte through, this theorem no longer checks. -/
theorem C07_issafe_documented : ∀ c : Byte, issafe c = Nq.Spec.C07.safeSpec c :=
  byte_cases _ (by decide)

/-- `safeput` is the specification's `clean`: C string, every byte outside the documented set replaced by `?` -/
theorem C07_safeput_clean (s : Bytes) : safeput s = Nq.Spec.C07.clean s := by
  unfold safeput Nq.Spec.C07.clean
  apply List.map_congr_left
  intro c _
  unfold sanitize
  rw [C07_issafe_documented c]
  rfl

/-- **C07_received_spec.**  What `received()` hands to the queue is, byte for byte, the specified field
    (`Spec.C07.receivedHead`: fixed words, every peer-supplied part cleaned) followed by the date — for every
    HELO / TCPREMOTEHOST / TCPREMOTEINFO / TCPREMOTEIP / TCPLOCALHOST / TCPLOCALIP string and every clock value. -/
theorem C07_received_spec (proto : Bytes) (p : Peer) (helo : Option Bytes) (t : Nat) :
    received proto p helo t =
      Nq.Spec.C07.receivedHead proto p.remotehost p.remoteip p.loc p.info helo ++ date822 (datetimeTai t) := by
  unfold received Nq.Spec.C07.receivedHead
  simp only [C07_safeput_clean]
  cases helo <;> cases p.info <;>
    simp [lFrom, lHelo, lClose, lParen, lAt, lBy, lWith, lSemi, Nq.Spec.C07.wFrom, Nq.Spec.C07.wHelo,
      Nq.Spec.C07.wClose, Nq.Spec.C07.wOpen, Nq.Spec.C07.wAt, Nq.Spec.C07.wBy, Nq.Spec.C07.wWith, Nq.Spec.C07.wSemi]

section wellformed
open Nq.Spec.C07 (wfAux wfPlain wf822)

theorem wfAux_plain (d : Nat) (c : Byte) (r : Bytes) (h : wfPlain c = true) : wfAux d (c :: r) = wfAux d r := by
  have h10 : c ≠ 10 := by intro e; subst e; revert h; decide
  have h40 : c ≠ 40 := by intro e; subst e; revert h; decide
  have h41 : c ≠ 41 := by intro e; subst e; revert h; decide
  cases r with
  | nil => simp [wfAux, h10]
  | cons n r => simp [wfAux, h10, h40, h41, h]

theorem wfAux_open (d : Nat) (r : Bytes) : wfAux d (40 :: r) = wfAux (d + 1) r := by
  cases r <;> simp [wfAux]

theorem wfAux_close (d : Nat) (r : Bytes) : wfAux (d + 1) (41 :: r) = wfAux d r := by
  cases r <;> simp [wfAux]

/-- a fold: LF followed by a space continues the field -/
theorem wfAux_fold (d : Nat) (r : Bytes) : wfAux d (10 :: 32 :: r) = wfAux d (32 :: r) := by
  simp [wfAux]

theorem wfAux_plain_append (d : Nat) : ∀ (xs r : Bytes), (∀ c ∈ xs, wfPlain c = true) → wfAux d (xs ++ r) = wfAux d r
  | [], _, _ => rfl
  | c :: xs, r, h => by
    rw [List.cons_append, wfAux_plain d c _ (h c (by simp))]
    exact wfAux_plain_append d xs r (fun b hb => h b (by simp [hb]))

set_option maxRecDepth 100000 in
theorem sanitize_plain : ∀ c : Byte, wfPlain (sanitize c) = true := byte_cases _ (by decide)

theorem safeput_plain (s : Bytes) : ∀ c ∈ safeput s, wfPlain c = true := by
  intro b hb
  unfold safeput at hb
  rw [List.mem_map] at hb
  obtain ⟨c, _, rfl⟩ := hb
  exact sanitize_plain c

set_option maxRecDepth 100000 in
theorem digit_plain : ∀ c : Byte, isDigit c = true → wfPlain c = true := byte_cases _ (by decide)

theorem fmtU_plain (n : Nat) : ∀ c ∈ fmtU n, wfPlain c = true := fun c h => digit_plain c (fmtU_digits n c h)

theorem fmtU0_plain (u k : Nat) : ∀ c ∈ fmtU0 u k, wfPlain c = true := by
  intro c h
  unfold fmtU0 at h
  rcases List.mem_append.mp h with h | h
  · rw [List.mem_replicate] at h; rw [h.2]; decide
  · exact fmtU_plain u c h

theorem months_plain (m : Nat) : ∀ c ∈ months.getD m [], wfPlain c = true := by
  by_cases h : m < 12
  · have : ∀ k, k < 12 → ∀ c ∈ months.getD k [], wfPlain c = true := by decide
    exact this m h
  · have h2 : months[m]? = none := List.getElem?_eq_none (by simp [months]; omega)
    have : months.getD m [] = [] := by simp [List.getD, h2]
    rw [this]; simp

/-- the date ends the field: all of it is plain text up to the final LF -/
theorem wfAux_date (dt : DT) : wfAux 0 (date822 dt) = true := by
  unfold date822
  simp only [List.append_assoc]
  rw [wfAux_plain_append 0 _ _ (fmtU_plain _), List.singleton_append, wfAux_plain 0 SP _ (by decide),
    wfAux_plain_append 0 _ _ (months_plain _), List.singleton_append, wfAux_plain 0 SP _ (by decide),
    wfAux_plain_append 0 _ _ (fmtU_plain _), List.singleton_append, wfAux_plain 0 SP _ (by decide),
    wfAux_plain_append 0 _ _ (fmtU0_plain _ _), List.singleton_append, wfAux_plain 0 58 _ (by decide),
    wfAux_plain_append 0 _ _ (fmtU0_plain _ _), List.singleton_append, wfAux_plain 0 58 _ (by decide),
    wfAux_plain_append 0 _ _ (fmtU0_plain _ _)]
  decide

/-- **C07_received_wellformed.**  The Received field is a well-formed RFC 822 header field whatever the peer supplied
    (`Spec.C07.wf822`: printable ASCII only, the single line break is a fold, the last byte is the LF ending the field,
    comments balanced, no backslash — so no quoted-pair can hide a parenthesis — and no double quote), for every
    HELO / TCPREMOTE* / TCPLOCAL* string and every clock value. -/
theorem C07_received_wellformed (proto : Bytes) (p : Peer) (helo : Option Bytes) (t : Nat)
    (hp : ∀ c ∈ proto, wfPlain c = true) : wf822 (received proto p helo t) = true := by
  have hFrom : ∀ r, wfAux 0 (lFrom ++ r) = wfAux 0 r := fun r => wfAux_plain_append 0 _ r (by decide)
  have hHelo : ∀ r, wfAux 0 (lHelo ++ r) = wfAux 1 r := fun r => by
    show wfAux 0 (32 :: 40 :: 72 :: 69 :: 76 :: 79 :: 32 :: r) = _
    rw [wfAux_plain 0 32 _ (by decide), wfAux_open]
    exact wfAux_plain_append 1 [72, 69, 76, 79, 32] r (by decide)
  have hClose : ∀ r, wfAux 1 (lClose ++ r) = wfAux 0 r := fun r => wfAux_close 0 r
  have hParen : ∀ r, wfAux 0 (lParen ++ r) = wfAux 1 r := fun r => by
    show wfAux 0 (32 :: 40 :: r) = _
    rw [wfAux_plain 0 32 _ (by decide), wfAux_open]
  have hAt : ∀ r, wfAux 1 (lAt ++ r) = wfAux 1 r := fun r => wfAux_plain_append 1 _ r (by decide)
  have hBy : ∀ r, wfAux 1 (lBy ++ r) = wfAux 0 r := fun r => by
    show wfAux 1 (41 :: 10 :: 32 :: 32 :: 98 :: 121 :: 32 :: r) = _
    rw [wfAux_close, wfAux_fold]
    exact wfAux_plain_append 0 [32, 32, 98, 121, 32] r (by decide)
  have hWith : ∀ r, wfAux 0 (lWith ++ r) = wfAux 0 r := fun r => wfAux_plain_append 0 _ r (by decide)
  have hSemi : ∀ r, wfAux 0 (lSemi ++ r) = wfAux 0 r := fun r => wfAux_plain_append 0 _ r (by decide)
  unfold wf822 received
  cases helo <;> cases p.info <;>
    simp only [List.append_assoc, List.nil_append, hFrom, hHelo, hClose, hParen, hAt, hBy, hWith, hSemi,
      wfAux_plain_append _ _ _ (safeput_plain _), wfAux_plain_append _ _ _ hp, wfAux_date]

example : wf822 (received pSMTP ⟨some [92, 41], none, some [40, 10], none, none⟩ (some [13, 92]) 0) = true := by decide
example : (∀ c ∈ pSMTP, wfPlain c = true) ∧ (∀ c ∈ pQMTP, wfPlain c = true) ∧ (∀ c ∈ pQMQP, wfPlain c = true) := by decide
/-- the oracle's predicate rejects what a backslash from the peer would produce: `(HELO evil\)` never closes -/
example : wf822 [40, 72, 69, 76, 79, 32, 92, 41, 10] = false ∧ wf822 [40, 72, 69, 76, 79, 32, 63, 41, 10] = true := by decide

end wellformed

/-! ## 4. the replies -/

/-- a verdict as `qmail_close` produces it for a queue program that honours its interface: success, or `D…`, or `Z…` -/
def VerdictOK (v : Bytes) : Prop := v = [] ∨ v.head? = some 68 ∨ v.head? = some 90

theorem verdict_ok (exit : Nat) (crashed flagerr : Bool) (text : Bytes) (ht : TextOK text ∨ text.length ≤ 2) :
    VerdictOK (closeVerdict exit crashed flagerr text) := by
  by_cases h : closeVerdict exit crashed flagerr text = []
  · exact Or.inl h
  · exact Or.inr (C07_verdict_class exit crashed flagerr text ht h).1

/-- **C07_qmtp_ack.**  (Reply SELECTION for arbitrary flag values; the flags of the record computed from the input are
    characterised by `C07_qmtp_size` / `C07_qmtp_strict`, the composed refusals are `C07_qmtp_refused`, the converse is
    `C07_qmtp_committed_ack`.)  The status qmail-qmtpd sends for the recipients it handed to the queue is `K…` exactly when
    `qmail_close` reported success, the sender was acceptable and the size limit did not trip; otherwise it is `D…`
    for an unacceptable sender and for the size limit, and the queue's own `D…`/`Z…` verdict in the remaining cases. -/
theorem C07_qmtp_ack (m : Qmtp.Msg) (v : Bytes) (now pid : Nat) (hv : VerdictOK v) :
    ((Qmtp.result m v now pid).head? = some 75 ↔ (v = [] ∧ m.senderok = true ∧ m.overflow = false)) ∧
    (m.overflow = true → Qmtp.result m v now pid = Qmtp.sTooBig) ∧
    (m.overflow = false → m.senderok = false → Qmtp.result m v now pid = Qmtp.sUnacceptable) ∧
    (m.overflow = false → m.senderok = true → v ≠ [] → Qmtp.result m v now pid = v) := by
  unfold Qmtp.result
  cases ho : m.overflow <;> cases hs : m.senderok
  · simp [Qmtp.sUnacceptable]
  · simp only [↓reduceIte, Bool.false_eq_true]
    by_cases he : v = []
    · subst he; simp [Qmtp.sKok]
    · have hne : v.isEmpty = false := by cases v <;> simp_all
      simp only [hne, Bool.false_eq_true, ↓reduceIte, he, false_and, iff_false, and_true, true_and, ne_eq,
        not_false_eq_true, implies_true, and_self]
      refine ⟨?_, by simp, by simp⟩
      rcases hv with hv | hv | hv
      · exact absurd hv he
      · rw [hv]; simp
      · rw [hv]; simp
  · simp [Qmtp.sTooBig]
  · simp [Qmtp.sTooBig]

/-- per recipient: `K` only for a recipient that was handed to the queue (failure byte 0); every other recipient
    (NUL, ≥ 1000 bytes, not in rcpthosts) gets a permanent `D`.  (The first conjunct is the DEFINITION of `replies`
    restated; the content is in the two `D` facts, and in `C07_qmtp_strict`, which ties the failure bytes and the envelope
    recipients to the recipient netstrings of the input.) -/
theorem C07_qmtp_rcpt_reply (m : Qmtp.Msg) (res : Bytes) :
    Qmtp.replies m res = m.failure.map (fun f => if f = 0 then Qmtp.netstring res else if f = Qmtp.fD then Qmtp.sRcpthosts else Qmtp.sCantHandle) ∧
    (Qmtp.sRcpthosts.drop 3).head? = some 68 ∧ (Qmtp.sCantHandle.drop 3).head? = some 68 :=
  ⟨rfl, by decide, by decide⟩

/-- which recipients are refused: over-long (with RELAYCLIENT appended), containing NUL, or not in rcpthosts.  (An
    UNFOLDING of `rcptFail` into a readable condition; `rcpthostsOk` itself is tied to the C code by the correspondence
    run only.  "Malformed / over-long / NUL ⇒ refused and not in the envelope" is `C07_qmtp_strict` + `C07_qmtp_refused`.) -/
theorem C07_qmtp_rcpt_policy (cfg : Qmtp.Cfg) (a : Bytes) :
    Qmtp.rcptFail cfg a = 0 ↔
      (a.length + (cfg.relay.getD []).length < Nq.Gen.C07.qmtpAddrMax ∧ a.contains 0 = false ∧
       (cfg.relay.isSome = true ∨ rcpthostsOk cfg.rcpthosts a = true)) := by
  unfold Qmtp.rcptFail Qmtp.fL Qmtp.fN Qmtp.fD
  by_cases hl : a.length + (cfg.relay.getD []).length ≥ Nq.Gen.C07.qmtpAddrMax
  · simp only [hl, ↓reduceIte]
    constructor
    · intro h; exact absurd h (by decide)
    · intro ⟨h, _⟩; omega
  · simp only [hl, ↓reduceIte]
    have hl' : a.length + (cfg.relay.getD []).length < Nq.Gen.C07.qmtpAddrMax := by omega
    cases hr : cfg.relay with
    | some r =>
      cases hn : a.contains 0
      · simp [hr] at hl' ⊢; exact hl'
      · simp
    | none =>
      cases hh : rcpthostsOk cfg.rcpthosts a <;> cases hn : a.contains 0 <;> simp [hr] at hl' ⊢ <;> try exact hl'

/-- **C07_qmqp_ack.**  (Reply SELECTION for an arbitrary `flagok`; for the record computed from the input see
    `C07_qmqp_strict`, `C07_qmqp_refused`, `C07_qmqp_committed_ack`.)  qmail-qmqpd answers `K…` exactly when `qmail_close` reported success and no address was
    over-long or contained NUL; a bad address gives a permanent `D`; otherwise the queue's verdict is passed on. -/
theorem C07_qmqp_ack (flagok : Bool) (v : Bytes) (now pid : Nat) (hv : VerdictOK v) :
    ((Qmqp.result flagok v now pid).head? = some 75 ↔ (v = [] ∧ flagok = true)) ∧
    (flagok = false → Qmqp.result flagok v now pid = Qmqp.sCantAccept) ∧
    (flagok = true → v ≠ [] → Qmqp.result flagok v now pid = v) := by
  unfold Qmqp.result
  cases flagok
  · simp [Qmqp.sCantAccept]
  · simp only [Bool.not_true, Bool.false_eq_true, ↓reduceIte, and_true]
    by_cases he : v = []
    · subst he; simp [Qmtp.sKok]
    · have hne : v.isEmpty = false := by cases v <;> simp_all
      simp only [hne, Bool.false_eq_true, ↓reduceIte, he, iff_false]
      refine ⟨?_, by simp, by simp⟩
      rcases hv with hv | hv | hv
      · exact absurd hv he
      · rw [hv]; simp
      · rw [hv]; simp

/-- **C07_smtp_ack.**  After DATA qmail-smtpd says `250 ok …` exactly when `qmail_close` reported success; otherwise
    554 for too many hops, else 552 for the size limit, else `554`/`451` followed by the queue's text according to its
    `D`/`Z` class.  (A statement about the reply SELECTION for arbitrary flag values; what `hopsBad` / `overflow` are for
    the record computed from the input: `C07_smtp_hops`, `C07_smtp_size`, `C07_smtp_oversize`.  That no OTHER `2xx` line is
    produced after DATA — by the command loop, which is not modelled in Lean — is checked by the driver's `stray-ack`
    oracle only.) -/
theorem C07_smtp_ack (d : Smtp.Data) (qqx : Bytes) (now pid : Nat) :
    ((Smtp.reply d qqx now pid).take 4 = [50, 53, 48, 32] ↔ qqx = []) ∧
    (qqx ≠ [] → d.hopsBad = true → Smtp.reply d qqx now pid = Smtp.sHops) ∧
    (qqx ≠ [] → d.hopsBad = false → d.overflow = true → Smtp.reply d qqx now pid = Smtp.sSize) ∧
    (qqx ≠ [] → d.hopsBad = false → d.overflow = false →
       Smtp.reply d qqx now pid = (if qqx.head? = some Smtp.D then Smtp.s554 else Smtp.s451) ++ qqx.drop 1 ++ Smtp.crlf) := by
  unfold Smtp.reply
  by_cases he : qqx = []
  · subst he; simp [Smtp.sOk250]
  · have hne : qqx.isEmpty = false := by cases qqx <;> simp_all
    simp only [hne, Bool.false_eq_true, ↓reduceIte, he, iff_false, ne_eq, not_false_eq_true, true_implies]
    cases hh : d.hopsBad <;> cases ho : d.overflow <;> simp [Smtp.sHops, Smtp.sSize, Smtp.s554, Smtp.s451, Smtp.D]
    by_cases hD : qqx.head? = some 68 <;> simp [hD]

/-- the size limit trips exactly at `databytes + 1` stored bytes: `put()`'s countdown started at databytes+1 reaches 0
    after exactly that many bytes.  (Pure arithmetic of the countdown; its connection with `Smtp.data … .overflow` and
    `.stored` is `C07_smtp_size`.) -/
theorem C07_smtp_size_trip (db n : Nat) (hdb : db ≠ 0) : Smtp.decN (db + 1) n = 0 ↔ n ≥ db + 1 := by
  have key : ∀ (n b : Nat), Smtp.decN b n = b - n := by
    intro n; induction n with
    | zero => intro b; rfl
    | succ k ih => intro b; simp only [Smtp.decN, ovfDec]; rw [ih]; omega
  rw [key]; omega

/-! ## 5. content: on an acknowledgement the queue program has received exactly that message -/

theorem envelope_eq (sbuf : Bytes) (rs : List Bytes) :
    entry 70 sbuf ++ entries rs ++ [0] = envelope (cstr sbuf) (rs.map cstr) := by
  have h : (fun x => entry 84 x) = (fun x : Bytes => 84 :: (cstr x ++ [0])) := by funext x; rfl
  unfold envelope entries
  simp [List.map_map, Function.comp_def, entry, List.append_assoc]
  exact congrArg (fun f => (List.map f rs).flatten) h

/-- success verdict ⇒ no failure was flagged (for a queue program that honours its interface) -/
theorem verdict_flagerr (q : QQ) (e : QEnd) (ht : TextOK e.text ∨ e.text.length ≤ 2) (hv : q.verdict e = []) :
    q.flagerr = false ∧ e.exit = 0 ∧ e.crashed = false := by
  have := (C07_verdict e.exit e.crashed q.flagerr e.text ht).mp hv
  exact ⟨this.2.2, this.1, this.2.1⟩

/-- **C07_content (QMTP).**  When qmail-qmtpd has read a message completely and `qmail_close` reports success (the only
    case in which a `K` status is sent, `C07_qmtp_ack`) then — for every body, every write-fault schedule, every peer —
    the queue program has received on descriptor 0 exactly the Received field followed by the stored (decoded) body, and
    on descriptor 1 exactly `F sender NUL (T recipient NUL)* NUL` with the accepted recipients (the ones answered `K`),
    in order. -/
theorem C07_content_qmtp (cfg : Qmtp.Cfg) (inp : Bytes) (w : Option Nat) (e : QEnd)
    (ht : TextOK e.text ∨ e.text.length ≤ 2)
    (hstop : (Qmtp.msg cfg inp).stop = none)
    (hv : ((QQ.opened w).run (Qmtp.msg cfg inp).ops).verdict e = []) :
    ((QQ.opened w).run (Qmtp.msg cfg inp).ops).msgPipe = received pQMTP cfg.peer none cfg.now ++ (Qmtp.msg cfg inp).stored ∧
    ((QQ.opened w).run (Qmtp.msg cfg inp).ops).envPipe =
      envelope (Qmtp.msg cfg inp).sender ((Qmtp.msg cfg inp).rcpts.map cstr) ∧
    e.exit = 0 ∧ e.crashed = false := by
  have hf := verdict_flagerr _ e ht hv
  obtain ⟨mops, eops, sbuf, h1, h2, h3, h4, h5, h6⟩ := Qmtp.msg_shape cfg inp hstop
  rw [h3] at hf ⊢
  have hc := QQ.content (QQ.opened w) mops eops sbuf rfl rfl (fun op ho => pf_plain (h1 op ho)) h2 hf.1
  refine ⟨?_, ?_, hf.2⟩
  · rw [hc.1, stream_pf mops h1, h4]
  · rw [hc.2, h6, h5]; exact envelope_eq sbuf _

/-- **C07_content (QMTP, the decoded body).**  The `stored` bytes of `C07_content_qmtp` are the framed bytes after the mode
    byte: verbatim for LF framing, with every CR LF turned into LF (`Spec.undos`) for CR framing. -/
theorem C07_content_qmtp_decoded (cfg : Qmtp.Cfg) (inp : Bytes) (h : (Qmtp.msg cfg inp).stop = none) :
    ∃ len c r1, Netstring.getlen Nq.Gen.C07.qmtpLenMax 0 inp = .ok len (c :: r1) ∧ len ≠ 0 ∧ (c = LF ∨ c = CR) ∧
      (Qmtp.msg cfg inp).stored = (if c = CR then Nq.Spec.C07.undos (r1.take (len - 1)) else r1.take (len - 1)) :=
  Qmtp.msg_decoded cfg inp h

/-- **C07_content (QMQP).** -/
theorem C07_content_qmqp (cfg : Qmqp.Cfg) (inp : Bytes) (w : Option Nat) (e : QEnd)
    (ht : TextOK e.text ∨ e.text.length ≤ 2)
    (hstop : (Qmqp.parse cfg inp).stop = none)
    (hv : ((QQ.opened w).run (Qmqp.parse cfg inp).ops).verdict e = []) :
    ((QQ.opened w).run (Qmqp.parse cfg inp).ops).msgPipe = received pQMQP cfg.peer none cfg.now ++ (Qmqp.parse cfg inp).stored ∧
    ((QQ.opened w).run (Qmqp.parse cfg inp).ops).envPipe =
      envelope (cstr (Qmqp.parse cfg inp).sender) ((Qmqp.parse cfg inp).rcpts.map cstr) ∧
    e.exit = 0 ∧ e.crashed = false := by
  have hf := verdict_flagerr _ e ht hv
  obtain ⟨mops, eops, h1, h2, h3, h4, h6⟩ := Qmqp.parse_shape cfg inp hstop
  rw [h3] at hf ⊢
  have hc := QQ.content (QQ.opened w) mops eops _ rfl rfl (fun op ho => pf_plain (h1 op ho)) h2 hf.1
  refine ⟨?_, ?_, hf.2⟩
  · rw [hc.1, stream_pf mops h1, h4]
  · rw [hc.2, h6]; exact envelope_eq _ _

/-- **C07_content (SMTP).**  After a terminated DATA with verdict success: descriptor 0 = Received field ++ the body as
    the decoder of C05 (`dblast`) accepts it; descriptor 1 = `F mailfrom NUL` ++ the `rcptto` block ++ NUL. -/
theorem C07_content_smtp (cfg : Smtp.Cfg) (helo : Option Bytes) (mailfrom : Bytes) (rs : List Bytes) (inp : Bytes)
    (w : Option Nat) (e : QEnd) (ht : TextOK e.text ∨ e.text.length ≤ 2)
    (hstop : (Smtp.data cfg helo mailfrom (entries rs) inp).stop = none)
    (hv : ((QQ.opened w).run (Smtp.data cfg helo mailfrom (entries rs) inp).ops).verdict e = []) :
    ((QQ.opened w).run (Smtp.data cfg helo mailfrom (entries rs) inp).ops).msgPipe =
      received pSMTP cfg.peer (Smtp.fakehelo cfg.peer helo) cfg.now ++ (Smtp.data cfg helo mailfrom (entries rs) inp).stored ∧
    Nq.SmtpIn.dblast inp = .accepted (Smtp.data cfg helo mailfrom (entries rs) inp).stored (Smtp.data cfg helo mailfrom (entries rs) inp).rest ∧
    ((QQ.opened w).run (Smtp.data cfg helo mailfrom (entries rs) inp).ops).envPipe = envelope (cstr mailfrom) (rs.map cstr) ∧
    e.exit = 0 ∧ e.crashed = false := by
  have hf := verdict_flagerr _ e ht hv
  obtain ⟨mops, h1, h3, h4, h5⟩ := Smtp.data_shape cfg helo mailfrom (entries rs) inp hstop
  rw [h3] at hf ⊢
  have hc := QQ.content (QQ.opened w) mops [.put (entries rs)] mailfrom rfl rfl (fun op ho => pf_plain (h1 op ho))
    (by intro op ho; simp at ho; subst ho; rfl) (by simpa [List.append_assoc] using hf.1)
  have hrw : mops ++ [QOp.from_ mailfrom] ++ [QOp.put (entries rs)] ++ [QOp.close] =
      mops ++ [QOp.from_ mailfrom] ++ [QOp.put (entries rs)] ++ [QOp.close] := rfl
  refine ⟨?_, h5, ?_, hf.2⟩
  · rw [hc.1, stream_pf mops h1, h4]
  · rw [hc.2]
    have : stream [QOp.put (entries rs)] = entries rs := by simp [stream]
    rw [this]; exact envelope_eq _ _

/-! ## 6. cut: the client disconnects at any byte before the message is complete -/

/-- **C07_cut (QMTP).**  Let a message be complete after `k = |inp| - |rest|` bytes.  If the client sends only the first
    `j < k` bytes and disconnects, qmail-qmtpd exits inside the message (`stop ≠ none`): it sends nothing (no
    acknowledgement), it never calls `qmail_close`, and what the queue program finds on descriptor 1 is not a complete
    envelope — for every write-fault schedule and every scripted end of the queue program. -/
theorem C07_cut_qmtp (cfg : Qmtp.Cfg) (inp : Bytes) (w : Option Nat) (ends : List QEnd) (pids : List Nat)
    (h : (Qmtp.msg cfg inp).stop = none) (j : Nat) (hj : j < inp.length - (Qmtp.msg cfg inp).rest.length) :
    (Qmtp.msg cfg (inp.take j)).stop ≠ none ∧
    (Qmtp.run cfg w ends pids (inp.take j)).out = [] ∧
    envComplete ((QQ.opened w).run (Qmtp.msg cfg (inp.take j)).ops).envPipe = false := by
  have hs := Qmtp.msg_prefix cfg inp h j hj
  refine ⟨hs, ?_, QQ.no_close_no_envelope w _ (Qmtp.msg_stopped cfg _ hs)⟩
  unfold Qmtp.run Qmtp.session
  cases hst : (Qmtp.msg cfg (inp.take j)).stop with
  | none => exact absurd hst hs
  | some ex => simp [hst, Sub.flush]

/-- **C07_cut (QMQP).** -/
theorem C07_cut_qmqp (cfg : Qmqp.Cfg) (inp : Bytes) (w : Option Nat) (e : QEnd) (pid : Nat)
    (h : (Qmqp.parse cfg inp).stop = none) (j : Nat) (hj : j < inp.length - (Qmqp.parse cfg inp).rest.length) :
    (Qmqp.parse cfg (inp.take j)).stop ≠ none ∧
    (Qmqp.run cfg w e pid (inp.take j)).out = [] ∧
    envComplete ((QQ.opened w).run (Qmqp.parse cfg (inp.take j)).ops).envPipe = false := by
  have hs := Qmqp.parse_prefix cfg inp h j hj
  refine ⟨hs, ?_, QQ.no_close_no_envelope w _ (Qmqp.parse_stopped cfg _ hs)⟩
  unfold Qmqp.run
  cases hst : (Qmqp.parse cfg (inp.take j)).stop with
  | none => exact absurd hst hs
  | some ex => simp [hst]

/-- **C07_cut (SMTP, inside DATA).**  If DATA is terminated after `k` bytes of the stream and the client sends only
    `j < k` of them, smtp_data() never reaches `qmail_from`/`qmail_close` (it dies in `die_read`/`straynewline`, so the
    reply after DATA — the only place an acknowledgement is produced, `C07_smtp_ack` — is never computed) and the queue
    program's descriptor 1 holds no complete envelope. -/
theorem C07_cut_smtp (cfg : Smtp.Cfg) (helo : Option Bytes) (mailfrom rcptto inp : Bytes) (w : Option Nat)
    (h : (Smtp.data cfg helo mailfrom rcptto inp).stop = none) (j : Nat)
    (hj : j < inp.length - (Smtp.data cfg helo mailfrom rcptto inp).rest.length) :
    (Smtp.data cfg helo mailfrom rcptto (inp.take j)).stop ≠ none ∧
    envComplete ((QQ.opened w).run (Smtp.data cfg helo mailfrom rcptto (inp.take j)).ops).envPipe = false := by
  have hs := Smtp.data_prefix cfg helo mailfrom rcptto inp h j hj
  exact ⟨hs, QQ.no_close_no_envelope w _ (Smtp.data_stopped cfg helo mailfrom rcptto _ hs)⟩

/-- … and more generally, whenever a daemon model exits inside a message (EOF, badproto, resources, die_read, stray LF)
    nothing complete has reached the queue program's descriptor 1 -/
theorem C07_stopped_no_envelope (w : Option Nat) :
    (∀ (cfg : Qmtp.Cfg) (inp : Bytes), (Qmtp.msg cfg inp).stop ≠ none →
        envComplete ((QQ.opened w).run (Qmtp.msg cfg inp).ops).envPipe = false) ∧
    (∀ (cfg : Qmqp.Cfg) (inp : Bytes), (Qmqp.parse cfg inp).stop ≠ none →
        envComplete ((QQ.opened w).run (Qmqp.parse cfg inp).ops).envPipe = false) ∧
    (∀ (cfg : Smtp.Cfg) (helo : Option Bytes) (mf rt inp : Bytes), (Smtp.data cfg helo mf rt inp).stop ≠ none →
        envComplete ((QQ.opened w).run (Smtp.data cfg helo mf rt inp).ops).envPipe = false) :=
  ⟨fun cfg inp h => QQ.no_close_no_envelope w _ (Qmtp.msg_stopped cfg inp h),
   fun cfg inp h => QQ.no_close_no_envelope w _ (Qmqp.parse_stopped cfg inp h),
   fun cfg helo mf rt inp h => QQ.no_close_no_envelope w _ (Smtp.data_stopped cfg helo mf rt inp h)⟩

/-- non-vacuity: complete messages exist for the three models ("3:\\nx\\n,1:s,4:1:r,,", the QMQP request of the same
    message, "a\\r\\n.\\r\\nQUIT\\r\\n"), each with unread bytes or none behind it -/
example : (Qmtp.msg { peer := ⟨none, none, none, none, none⟩ } [51, 58, 10, 120, 10, 44, 49, 58, 115, 44, 52, 58, 49, 58, 114, 44, 44]).stop = none := by decide
example : (Qmqp.parse { peer := ⟨none, none, none, none, none⟩ } [49, 51, 58, 50, 58, 120, 10, 44, 49, 58, 115, 44, 49, 58, 114, 44, 44]).stop = none := by decide
example : (Smtp.data { peer := ⟨none, none, none, none, none⟩ } none [115] (entries [[114]]) [97, 13, 10, 46, 13, 10, 81, 85, 73, 84, 13, 10]).stop = none ∧
    (Smtp.data { peer := ⟨none, none, none, none, none⟩ } none [115] (entries [[114]]) [97, 13, 10, 46, 13, 10, 81, 85, 73, 84, 13, 10]).rest.length = 6 := by decide

/-! ## 7. the known gap in qmail-qmtpd's recipient lengths -/

/-- As shipped (`qmtpRcptDigitCheck = 0`, read off qmail-qmtpd.c by the translator) the recipient length loop takes
    any byte for a digit: "1/" counts as 9, "<" as 12. -/
theorem C07_qmtp_rcptlen_gap (h : Nq.Gen.C07.qmtpRcptDigitCheck = 0) :
    (match Qmtp.rcptLen Nq.Gen.C07.qmtpLenMax 3 0 [49, 47, 58] with | .ok (n, _) _ => n = 9 | _ => False) ∧
    (match Qmtp.rcptLen Nq.Gen.C07.qmtpLenMax 2 0 [60, 58] with | .ok (n, _) _ => n = 12 | _ => False) := by
  constructor <;> simp [Qmtp.rcptLen, h, Qmtp.wrapLen, COLON, Nq.Gen.C07.qmtpLenMax]

/-- With the digit check (the proposed repair) a non-digit byte in a recipient length is refused. -/
theorem C07_qmtp_rcptlen_strict (h : Nq.Gen.C07.qmtpRcptDigitCheck = 1) (big acc : Nat) (c : Byte) (rest : Bytes)
    (hc : c ≠ COLON) (hd : c < 48 ∨ c > 57) (hacc : acc ≤ Nq.Gen.C07.qmtpLenMax) :
    (match Qmtp.rcptLen Nq.Gen.C07.qmtpLenMax (big + 1) acc (c :: rest) with | .stop .badproto _ => True | _ => False) := by
  have : ¬ acc > Nq.Gen.C07.qmtpLenMax := by omega
  simp [Qmtp.rcptLen, h, hc, hd, this]

/-! ## 8. the hop limit: 100 or more Received / Delivered-To fields ⇒ `554`, nothing queued -/

/-- the calls smtp_data() makes once DATA was terminated, with the hop test made explicit, and the hop test in terms of
    the line-based specification `HopCount.hopSpec` (machine = specification: `Nq.Lemmas.HopCount.hopsOf_eq_hopSpec`) -/
theorem smtp_data_hops (cfg : Smtp.Cfg) (helo : Option Bytes) (mailfrom rcptto inp : Bytes)
    (h : (Smtp.data cfg helo mailfrom rcptto inp).stop = none) :
    ((Smtp.data cfg helo mailfrom rcptto inp).hopsBad = true ↔
      Nq.HopCount.hopSpec (inp.take (inp.length - (Smtp.data cfg helo mailfrom rcptto inp).rest.length)) ≥ Nq.Gen.MAXHOPS) ∧
    ∃ pre, (Smtp.data cfg helo mailfrom rcptto inp).ops =
      pre ++ (if (Smtp.data cfg helo mailfrom rcptto inp).hopsBad then [QOp.fail] else []) ++
        [.from_ mailfrom, .put rcptto, .close] := by
  obtain ⟨rest, hfin⟩ := (Smtp.data_fin cfg helo mailfrom rcptto inp).1.mp h
  clear h
  unfold Smtp.data
  simp only [hfin, Nq.Lemmas.HopCount.hopsOf_eq_hopSpec]
  refine ⟨by simp, (receivedPieces pSMTP cfg.peer (Smtp.fakehelo cfg.peer helo) cfg.now).map QOp.put ++
    (Smtp.blast .s1 (if cfg.databytes = 0 then 0 else cfg.databytes + 1) inp).ops, ?_⟩
  simp only [decide_eq_true_eq]

/-- **C07_smtp_hops.**  If the text consumed by DATA (up to and including the terminating `.` line) has 100 or more
    header lines starting with `received` / `delivered` in any case (`HopCount.hopSpec`, the line-based specification,
    `MAXHOPS` read off qmail-smtpd.c) then — whatever the queue program answers, whatever write faults occur — the reply
    is exactly `554 too many hops, this message is looping (#5.4.6)` (permanent), `qmail_close` reports a failure, and
    qmail-queue finds no complete envelope on descriptor 1 (so it queues nothing).  Below the limit the hop test
    contributes nothing (`hopsBad = false`, the reply is chosen by `C07_smtp_ack`). -/
theorem C07_smtp_hops (cfg : Smtp.Cfg) (helo : Option Bytes) (mailfrom : Bytes) (rs : List Bytes) (inp : Bytes)
    (w : Option Nat) (e : QEnd) (now pid : Nat) (ht : TextOK e.text ∨ e.text.length ≤ 2)
    (hstop : (Smtp.data cfg helo mailfrom (entries rs) inp).stop = none) :
    ((Smtp.data cfg helo mailfrom (entries rs) inp).hopsBad = true ↔
      Nq.HopCount.hopSpec (inp.take (inp.length - (Smtp.data cfg helo mailfrom (entries rs) inp).rest.length)) ≥ Nq.Gen.MAXHOPS) ∧
    (Nq.HopCount.hopSpec (inp.take (inp.length - (Smtp.data cfg helo mailfrom (entries rs) inp).rest.length)) ≥ Nq.Gen.MAXHOPS →
      ((QQ.opened w).run (Smtp.data cfg helo mailfrom (entries rs) inp).ops).verdict e ≠ [] ∧
      Smtp.reply (Smtp.data cfg helo mailfrom (entries rs) inp)
        (((QQ.opened w).run (Smtp.data cfg helo mailfrom (entries rs) inp).ops).verdict e) now pid = Smtp.sHops ∧
      envComplete ((QQ.opened w).run (Smtp.data cfg helo mailfrom (entries rs) inp).ops).envPipe = false) := by
  obtain ⟨hiff, pre, hops⟩ := smtp_data_hops cfg helo mailfrom (entries rs) inp hstop
  refine ⟨hiff, fun hge => ?_⟩
  have hbad := hiff.mpr hge
  rw [hbad] at hops
  simp only [if_true] at hops
  have hrun : (QQ.opened w).run (Smtp.data cfg helo mailfrom (entries rs) inp).ops =
      ((((QQ.opened w).run (pre ++ [QOp.fail])).from_ mailfrom).run [.put (entries rs)]).close := by
    rw [hops]
    simp [QQ.run_append, QQ.run, QQ.apply]
  have hf0 : ((QQ.opened w).run (pre ++ [QOp.fail])).flagerr = true := by
    simp [QQ.run_append, QQ.run, QQ.apply, QQ.fail]
  have hf : ((QQ.opened w).run (Smtp.data cfg helo mailfrom (entries rs) inp).ops).flagerr = true := by
    rw [hops, show pre ++ [QOp.fail] ++ [QOp.from_ mailfrom, .put (entries rs), .close] =
      (pre ++ [QOp.fail]) ++ [QOp.from_ mailfrom, .put (entries rs), .close] from rfl, QQ.run_append]
    exact C07_flagerr_sticky _ _ hf0
  have hv : ((QQ.opened w).run (Smtp.data cfg helo mailfrom (entries rs) inp).ops).verdict e ≠ [] := by
    intro hv
    have := (verdict_flagerr _ e ht hv).1
    rw [hf] at this
    exact absurd this (by decide)
  refine ⟨hv, (C07_smtp_ack _ _ now pid).2.1 hv hbad, ?_⟩
  rw [hrun]
  apply C07_fail_no_terminator
  · intro op ho
    simp at ho; subst ho; exact .rcptto rs
  · rw [← hrun]; exact hf

/-- 100 `Received:` lines, an empty line, a body and the terminator: refused, for every queue outcome -/
example : Nq.HopCount.hopSpec ((List.replicate 100 [82, 101, 99, 101, 105, 118, 101, 100, 58, 13, 10]).flatten ++ [13, 10, 120, 13, 10, 46, 13, 10]) = 100 := by
  decide
/-- lines after the empty line, near misses ("receive:", "Xreceived") and `Delivered-To:` -/
example : Nq.HopCount.hopSpec [68, 69, 76, 73, 86, 69, 82, 69, 68, 45, 13, 10, 114, 101, 99, 101, 105, 118, 101, 58, 13, 10,
    88, 114, 101, 99, 101, 105, 118, 101, 100, 13, 10, 13, 10, 82, 101, 99, 101, 105, 118, 101, 100, 58, 13, 10] = 1 := by decide

/-! ## 8b. the refusal flags tied to the input, the composed refusals, and the converse "committed ⇒ acknowledged"

`C07_qmtp_ack`, `C07_qmqp_ack`, `C07_smtp_ack` are statements about the reply SELECTION for arbitrary values of the flags
`overflow` / `senderok` / `flagok`.  The theorems of this section say what those flags are for the record the daemon model
computes from the input (`Qmtp.msg`, `Qmqp.parse`, `Smtp.data`), that a flag saying "refuse" puts a `qmail_fail` among the
calls on qmail.c — hence `flagerr`, a non-success verdict whatever the queue program answers, no complete envelope on
descriptor 1, and the documented permanent reply — and, conversely, that a complete envelope together with exit status 0
forces the acknowledgement. -/

/-- "committed": the queue program was handed a complete envelope, exited 0 and did not crash (qmail-queue commits only
    then: C01, and the real-queue leg of the correspondence run) -/
def Committed (q : QQ) (e : QEnd) : Prop := envComplete q.envPipe = true ∧ e.exit = 0 ∧ e.crashed = false

/-- **C07_smtp_size.**  For a terminated DATA: `overflow` ⇔ `databytes` is in force and the decoded message (the `stored`
    bytes, which `C07_content_smtp` identifies with the output of the reference decoder `dblast`) is longer than it. -/
theorem C07_smtp_size (cfg : Smtp.Cfg) (helo : Option Bytes) (mailfrom rcptto inp : Bytes)
    (hstop : (Smtp.data cfg helo mailfrom rcptto inp).stop = none) :
    (Smtp.data cfg helo mailfrom rcptto inp).overflow = true ↔
      (cfg.databytes ≠ 0 ∧ (Smtp.data cfg helo mailfrom rcptto inp).stored.length > cfg.databytes) :=
  Smtp.data_overflow_iff cfg helo mailfrom rcptto inp hstop

/-- the calls of smtp_data() for a terminated DATA, split at `qmail_from` -/
theorem smtp_calls (cfg : Smtp.Cfg) (helo : Option Bytes) (mailfrom : Bytes) (rs : List Bytes) (inp : Bytes)
    (hstop : (Smtp.data cfg helo mailfrom (entries rs) inp).stop = none) :
    ∃ a, (Smtp.data cfg helo mailfrom (entries rs) inp).ops = a ++ [.from_ mailfrom] ++ [.put (entries rs)] ++ [.close] ∧
      ((Smtp.data cfg helo mailfrom (entries rs) inp).overflow = true → QOp.fail ∈ a) ∧
      ((Smtp.data cfg helo mailfrom (entries rs) inp).hopsBad = true → QOp.fail ∈ a) := by
  obtain ⟨rest, _, hops, _, _, _⟩ := Smtp.data_full cfg helo mailfrom (entries rs) inp hstop
  refine ⟨_, hops, ?_, ?_⟩
  · intro ho
    have := Smtp.data_overflow_fail cfg helo mailfrom (entries rs) inp hstop ho
    simp only [List.mem_append]
    exact Or.inl (Or.inr this)
  · intro hh
    simp only [List.mem_append]
    right; rw [hh]; simp

/-- **C07_smtp_oversize.**  A message over the size limit (by `C07_smtp_size`: more than `databytes` decoded bytes): whatever
    the queue program answers and whatever write faults occur, `qmail_close` reports a failure, the queue program finds no
    complete envelope on descriptor 1, and — unless the hop limit takes precedence — the reply is exactly
    `552 sorry, that message size exceeds my databytes limit (#5.3.4)`. -/
theorem C07_smtp_oversize (cfg : Smtp.Cfg) (helo : Option Bytes) (mailfrom : Bytes) (rs : List Bytes) (inp : Bytes)
    (w : Option Nat) (e : QEnd) (now pid : Nat) (ht : TextOK e.text ∨ e.text.length ≤ 2)
    (hstop : (Smtp.data cfg helo mailfrom (entries rs) inp).stop = none)
    (hbig : cfg.databytes ≠ 0 ∧ (Smtp.data cfg helo mailfrom (entries rs) inp).stored.length > cfg.databytes) :
    ((QQ.opened w).run (Smtp.data cfg helo mailfrom (entries rs) inp).ops).verdict e ≠ [] ∧
    envComplete ((QQ.opened w).run (Smtp.data cfg helo mailfrom (entries rs) inp).ops).envPipe = false ∧
    ((Smtp.data cfg helo mailfrom (entries rs) inp).hopsBad = false →
      Smtp.reply (Smtp.data cfg helo mailfrom (entries rs) inp)
        (((QQ.opened w).run (Smtp.data cfg helo mailfrom (entries rs) inp).ops).verdict e) now pid = Smtp.sSize) := by
  have ho := (C07_smtp_size cfg helo mailfrom (entries rs) inp hstop).mpr hbig
  obtain ⟨a, hops, hfa, _⟩ := smtp_calls cfg helo mailfrom rs inp hstop
  have hr := QQ.refused_of_fail (QQ.opened w) a [.put (entries rs)] mailfrom
    (by intro op hop; simp at hop; subst hop; exact .rcptto rs) (Or.inl (hfa ho))
  rw [← hops] at hr
  have hv : ((QQ.opened w).run (Smtp.data cfg helo mailfrom (entries rs) inp).ops).verdict e ≠ [] := by
    intro hv
    have := (verdict_flagerr _ e ht hv).1
    rw [hr.1] at this; exact absurd this (by decide)
  exact ⟨hv, hr.2, fun hh => (C07_smtp_ack _ _ now pid).2.2.1 hv hh ho⟩

/-- **C07_smtp_committed_ack** (the converse direction of the iff).  If after a terminated DATA the queue program was handed
    a complete envelope and exited 0 without crashing, then nothing was refused — the message is within the size limit and
    below the hop limit — and the reply is `250 ok …`. -/
theorem C07_smtp_committed_ack (cfg : Smtp.Cfg) (helo : Option Bytes) (mailfrom : Bytes) (rs : List Bytes) (inp : Bytes)
    (w : Option Nat) (e : QEnd) (now pid : Nat) (ht : TextOK e.text ∨ e.text.length ≤ 2)
    (hstop : (Smtp.data cfg helo mailfrom (entries rs) inp).stop = none)
    (hc : Committed ((QQ.opened w).run (Smtp.data cfg helo mailfrom (entries rs) inp).ops) e) :
    ((QQ.opened w).run (Smtp.data cfg helo mailfrom (entries rs) inp).ops).verdict e = [] ∧
    (Smtp.reply (Smtp.data cfg helo mailfrom (entries rs) inp)
      (((QQ.opened w).run (Smtp.data cfg helo mailfrom (entries rs) inp).ops).verdict e) now pid).take 4 = [50, 53, 48, 32] ∧
    (Smtp.data cfg helo mailfrom (entries rs) inp).overflow = false ∧
    (Smtp.data cfg helo mailfrom (entries rs) inp).hopsBad = false := by
  obtain ⟨a, hops, hfa, hfh⟩ := smtp_calls cfg helo mailfrom rs inp hstop
  have hcn := QQ.complete_no_fail (QQ.opened w) a [.put (entries rs)] mailfrom
    (by intro op hop; simp at hop; subst hop; exact .rcptto rs) (by rw [← hops]; exact hc.1)
  rw [← hops] at hcn
  have hv : ((QQ.opened w).run (Smtp.data cfg helo mailfrom (entries rs) inp).ops).verdict e = [] :=
    (C07_verdict e.exit e.crashed _ e.text ht).mpr ⟨hc.2.1, hc.2.2, hcn.1⟩
  refine ⟨hv, (C07_smtp_ack _ _ now pid).1.mpr hv, ?_, ?_⟩
  · cases ho : (Smtp.data cfg helo mailfrom (entries rs) inp).overflow
    · rfl
    · exact absurd (hfa ho) hcn.2.1
  · cases hh : (Smtp.data cfg helo mailfrom (entries rs) inp).hopsBad
    · rfl
    · exact absurd (hfh hh) hcn.2.1

/-- **C07_qmtp_size** (both framings).  For a completely read message: `overflow` ⇔ `databytes` is in force and the decoded
    message (`stored`, characterised by `C07_content_qmtp_decoded`) is longer than it. -/
theorem C07_qmtp_size (cfg : Qmtp.Cfg) (inp : Bytes) (hstop : (Qmtp.msg cfg inp).stop = none) :
    (Qmtp.msg cfg inp).overflow = true ↔ (cfg.databytes ≠ 0 ∧ (Qmtp.msg cfg inp).stored.length > cfg.databytes) :=
  Qmtp.msg_overflow_iff cfg inp hstop

/-- **C07_qmtp_strict** (accepted ⇒ strictly well framed; the envelope relative to the INPUT).  A message qmail-qmtpd reads to
    the end — the only case in which it calls `qmail_close` and sends statuses — is, byte for byte, a message of the
    independent strict grammar `Spec.C07.qmtpNext` (three netstrings, digits-only lengths, every comma in place, the third
    a sequence of netstrings), followed by what the daemon left unread.  `sraw` / `as` are the payloads of the sender
    netstring and of ALL recipient netstrings; `senderok` ⇔ the sender is shorter than 1000 bytes and has no NUL; there is
    one failure byte per recipient (`rcptFail` of its payload, characterised by `C07_qmtp_rcpt_policy`), and the envelope
    recipients (`rcpts`, what `C07_content_qmtp` finds on descriptor 1) are exactly the payloads whose failure byte is 0 —
    the ones answered `K`/the queue's verdict rather than `D` (`C07_qmtp_rcpt_reply`) — in order, RELAYCLIENT appended.
    The hypothesis is the generated constant: the recipient-length loop has its digit check (repair e90aa72); without it
    this theorem is false (`C07_qmtp_rcptlen_gap`). -/
theorem C07_qmtp_strict (cfg : Qmtp.Cfg) (inp : Bytes) (hstop : (Qmtp.msg cfg inp).stop = none) :
    ∃ sraw as, Nq.Spec.C07.qmtpNext inp = some (⟨(Qmtp.msg cfg inp).stored, sraw, as⟩, (Qmtp.msg cfg inp).rest) ∧
      (Qmtp.msg cfg inp).senderok = (decide (sraw.length < Nq.Gen.C07.qmtpAddrMax) && !sraw.contains 0) ∧
      (Qmtp.msg cfg inp).sender = cstr (if sraw.length ≥ Nq.Gen.C07.qmtpAddrMax then [] else sraw) ∧
      (Qmtp.msg cfg inp).failure = as.map (Qmtp.rcptFail cfg) ∧
      (Qmtp.msg cfg inp).rcpts = (as.filter (fun a => Qmtp.rcptFail cfg a = 0)).map (· ++ cfg.relay.getD []) :=
  Qmtp.msg_strict cfg inp (by decide) hstop

/-- **C07_qmtp_refused.**  Size limit, unacceptable sender, or no recipient accepted (each a function of the input by
    `C07_qmtp_size` / `C07_qmtp_strict`): whatever the queue program answers and whatever write faults occur, `flagerr` is
    set, `qmail_close` reports a failure, the queue program finds no complete envelope on descriptor 1; the status sent
    for the recipients handed to the queue is the permanent `Dsorry, that message size exceeds …` resp.
    `Dunacceptable sender …`, and when no recipient was accepted every reply is one of the two permanent per-recipient
    refusals. -/
theorem C07_qmtp_refused (cfg : Qmtp.Cfg) (inp : Bytes) (w : Option Nat) (e : QEnd) (now pid : Nat)
    (ht : TextOK e.text ∨ e.text.length ≤ 2) (hstop : (Qmtp.msg cfg inp).stop = none)
    (hbad : (Qmtp.msg cfg inp).overflow = true ∨ (Qmtp.msg cfg inp).senderok = false ∨
      (Qmtp.msg cfg inp).failure.contains 0 = false) :
    ((QQ.opened w).run (Qmtp.msg cfg inp).ops).flagerr = true ∧
    ((QQ.opened w).run (Qmtp.msg cfg inp).ops).verdict e ≠ [] ∧
    envComplete ((QQ.opened w).run (Qmtp.msg cfg inp).ops).envPipe = false ∧
    ((Qmtp.msg cfg inp).overflow = true →
      Qmtp.result (Qmtp.msg cfg inp) (((QQ.opened w).run (Qmtp.msg cfg inp).ops).verdict e) now pid = Qmtp.sTooBig) ∧
    ((Qmtp.msg cfg inp).overflow = false → (Qmtp.msg cfg inp).senderok = false →
      Qmtp.result (Qmtp.msg cfg inp) (((QQ.opened w).run (Qmtp.msg cfg inp).ops).verdict e) now pid = Qmtp.sUnacceptable) ∧
    ((Qmtp.msg cfg inp).failure.contains 0 = false → ∀ res, ∀ r ∈ Qmtp.replies (Qmtp.msg cfg inp) res,
      r = Qmtp.sRcpthosts ∨ r = Qmtp.sCantHandle) := by
  obtain ⟨a, eops, sbuf, hops, henv, h1, h2, h3⟩ := Qmtp.msg_calls cfg inp hstop
  have hfail : QOp.fail ∈ a ∨ QOp.fail ∈ eops := by
    rcases hbad with h | h | h
    · exact Or.inl (h1 h)
    · exact Or.inr (h2 h)
    · exact Or.inr (h3 h)
  have hr := QQ.refused_of_fail (QQ.opened w) a eops sbuf henv hfail
  rw [← hops] at hr
  have hv : ((QQ.opened w).run (Qmtp.msg cfg inp).ops).verdict e ≠ [] := by
    intro hv
    have := (verdict_flagerr _ e ht hv).1
    rw [hr.1] at this; exact absurd this (by decide)
  have hvok : VerdictOK (((QQ.opened w).run (Qmtp.msg cfg inp).ops).verdict e) := verdict_ok _ _ _ _ ht
  refine ⟨hr.1, hv, hr.2, (C07_qmtp_ack _ _ now pid hvok).2.1, (C07_qmtp_ack _ _ now pid hvok).2.2.1, ?_⟩
  intro hf res r hr'
  unfold Qmtp.replies at hr'
  rw [List.mem_map] at hr'
  obtain ⟨f, hfm, rfl⟩ := hr'
  have hf0 : f ≠ 0 := by
    intro h0; subst h0
    have : (Qmtp.msg cfg inp).failure.contains 0 = true := by simpa using hfm
    rw [hf] at this; exact absurd this (by simp)
  rw [if_neg hf0]
  by_cases hD : f = Qmtp.fD
  · left; rw [if_pos hD]
  · right; rw [if_neg hD]

/-- **C07_qmtp_committed_ack** (the converse direction of the iff).  If for a completely read message the queue program was
    handed a complete envelope and exited 0 without crashing, then the message was within the size limit, the sender
    acceptable, at least one recipient was accepted, `qmail_close` reports success and the status sent for the accepted
    recipients is `Kok …`. -/
theorem C07_qmtp_committed_ack (cfg : Qmtp.Cfg) (inp : Bytes) (w : Option Nat) (e : QEnd) (now pid : Nat)
    (ht : TextOK e.text ∨ e.text.length ≤ 2) (hstop : (Qmtp.msg cfg inp).stop = none)
    (hc : Committed ((QQ.opened w).run (Qmtp.msg cfg inp).ops) e) :
    ((QQ.opened w).run (Qmtp.msg cfg inp).ops).verdict e = [] ∧
    (Qmtp.result (Qmtp.msg cfg inp) (((QQ.opened w).run (Qmtp.msg cfg inp).ops).verdict e) now pid).head? = some 75 ∧
    (Qmtp.msg cfg inp).overflow = false ∧ (Qmtp.msg cfg inp).senderok = true ∧
    (Qmtp.msg cfg inp).failure.contains 0 = true := by
  obtain ⟨a, eops, sbuf, hops, henv, h1, h2, h3⟩ := Qmtp.msg_calls cfg inp hstop
  have hcn := QQ.complete_no_fail (QQ.opened w) a eops sbuf henv (by rw [← hops]; exact hc.1)
  rw [← hops] at hcn
  have hv : ((QQ.opened w).run (Qmtp.msg cfg inp).ops).verdict e = [] :=
    (C07_verdict e.exit e.crashed _ e.text ht).mpr ⟨hc.2.1, hc.2.2, hcn.1⟩
  have ho : (Qmtp.msg cfg inp).overflow = false := by
    cases ho : (Qmtp.msg cfg inp).overflow
    · rfl
    · exact absurd (h1 ho) hcn.2.1
  have hs : (Qmtp.msg cfg inp).senderok = true := by
    cases hs : (Qmtp.msg cfg inp).senderok
    · exact absurd (h2 hs) hcn.2.2
    · rfl
  have hf : (Qmtp.msg cfg inp).failure.contains 0 = true := by
    cases hf : (Qmtp.msg cfg inp).failure.contains 0
    · exact absurd (h3 hf) hcn.2.2
    · rfl
  refine ⟨hv, ?_, ho, hs, hf⟩
  rw [hv]
  exact (C07_qmtp_ack _ [] now pid (Or.inl rfl)).1.mpr ⟨rfl, hs, ho⟩

open Nq.Lemmas.C07Qmqp2 in
/-- **C07_qmqp_strict** (accepted ⇒ strictly well framed; flag and envelope relative to the INPUT).  A request qmail-qmqpd
    reads to the end is a request of the independent strict grammar (`Spec.C07.qmqpReq`: one netstring holding the body
    netstring, the sender netstring and the recipient netstrings); `flagok` is false exactly when the sender or some
    recipient has 1000 or more bytes or contains NUL (`badA`); the envelope addresses are the acceptable ones in order —
    when every address is acceptable: exactly the request's sender and recipients. -/
theorem C07_qmqp_strict (cfg : Qmqp.Cfg) (inp : Bytes) (hstop : (Qmqp.parse cfg inp).stop = none) :
    ∃ sraw rs, Nq.Spec.C07.qmqpReq inp = some ⟨(Qmqp.parse cfg inp).stored, sraw, rs⟩ ∧
      (Qmqp.parse cfg inp).flagok = (!badA sraw && rs.all (fun a => !badA a)) ∧
      (Qmqp.parse cfg inp).sender = (if badA sraw then [] else sraw) ∧
      (Qmqp.parse cfg inp).rcpts = rs.filter (fun a => !badA a) :=
  parse_qmqpReq cfg inp hstop

open Nq.Lemmas.C07Qmqp2 in
/-- **C07_qmqp_refused.**  An over-long or NUL-containing sender or recipient anywhere in a well-framed request: `flagerr` is
    set, `qmail_close` reports a failure whatever the queue program answers, the queue program finds no complete envelope,
    and the reply is exactly `Dsorry, I can't accept addresses like that (#5.1.3)`. -/
theorem C07_qmqp_refused (cfg : Qmqp.Cfg) (inp : Bytes) (w : Option Nat) (e : QEnd) (now pid : Nat)
    (ht : TextOK e.text ∨ e.text.length ≤ 2) (req : Nq.Spec.C07.Req)
    (hstop : (Qmqp.parse cfg inp).stop = none) (hreq : Nq.Spec.C07.qmqpReq inp = some req)
    (hbad : ∃ a ∈ req.sender :: req.rcpts, badA a = true) :
    (Qmqp.parse cfg inp).flagok = false ∧
    ((QQ.opened w).run (Qmqp.parse cfg inp).ops).verdict e ≠ [] ∧
    envComplete ((QQ.opened w).run (Qmqp.parse cfg inp).ops).envPipe = false ∧
    (Qmqp.run cfg w e pid inp).out = Qmtp.netstring Qmqp.sCantAccept := by
  obtain ⟨hf, hne, hres⟩ := qmqp_bad_address_refused cfg inp w req hstop hreq hbad
  have hfo : (Qmqp.parse cfg inp).flagok = false := by
    obtain ⟨body, sraw, rs, hq, hiff⟩ := parse_flagok_iff cfg inp hstop
    rw [hreq] at hq
    simp only [Option.some.injEq] at hq
    subst hq
    exact hiff.mpr hbad
  refine ⟨hfo, ?_, hne, ?_⟩
  · intro hv
    have := (verdict_flagerr _ e ht hv).1
    rw [hf] at this; exact absurd this (by decide)
  · unfold Qmqp.run
    simp only [hstop]
    rw [hres]

open Nq.Lemmas.C07Qmqp2 in
/-- **C07_qmqp_committed_ack** (the converse direction).  Complete envelope, exit 0, no crash ⇒ no address was refused,
    `qmail_close` reports success and the reply is `Kok …`. -/
theorem C07_qmqp_committed_ack (cfg : Qmqp.Cfg) (inp : Bytes) (w : Option Nat) (e : QEnd) (now pid : Nat)
    (ht : TextOK e.text ∨ e.text.length ≤ 2) (hstop : (Qmqp.parse cfg inp).stop = none)
    (hc : Committed ((QQ.opened w).run (Qmqp.parse cfg inp).ops) e) :
    ((QQ.opened w).run (Qmqp.parse cfg inp).ops).verdict e = [] ∧ (Qmqp.parse cfg inp).flagok = true ∧
    (Qmqp.result (Qmqp.parse cfg inp).flagok (((QQ.opened w).run (Qmqp.parse cfg inp).ops).verdict e) now pid).head? = some 75 := by
  obtain ⟨hf, hok⟩ := qmqp_committed_flagok cfg inp w hstop hc.1
  have hv : ((QQ.opened w).run (Qmqp.parse cfg inp).ops).verdict e = [] :=
    (C07_verdict e.exit e.crashed _ e.text ht).mpr ⟨hc.2.1, hc.2.2, hf⟩
  refine ⟨hv, hok, ?_⟩
  rw [hv, hok]
  exact (C07_qmqp_ack true [] now pid (Or.inl rfl)).1.mpr ⟨rfl, rfl⟩

/-- non-vacuity: an oversize CR-framed QMTP message, a QMQP request with a NUL recipient -/
example : (Qmtp.msg { databytes := 2, peer := ⟨none, none, none, none, none⟩ }
    [53, 58, 13, 97, 13, 10, 98, 44, 49, 58, 115, 44, 52, 58, 49, 58, 114, 44, 44]).overflow = true := by decide

/-! ## 8c. the QMTP connection: several messages, one reply buffer -/

section session
open Nq.Lemmas.C07Session

/-- every record of a connection is `msg` of some input run on a fresh qmail.c state; a completely read one carries the
    status string computed from ITS OWN verdict, for one of the scripted ends of the queue program -/
theorem chain_record {cfg : Qmtp.Cfg} (P : QEnd → Prop) (h0 : P {}) :
    ∀ {inp : Bytes} {w : Option Nat} {ends : List QEnd} {pids : List Nat} {l : List Qmtp.Done},
      Chain cfg inp w ends pids l → (∀ e ∈ ends, P e) →
      ∀ d ∈ l, ∃ inp' w', d.m = Qmtp.msg cfg inp' ∧ d.q = (QQ.opened w').run d.m.ops ∧
        (d.m.stop = none → ∃ e pid, P e ∧ d.res = Qmtp.result d.m (d.q.verdict e) cfg.now pid) := by
  intro inp w ends pids l hc
  induction hc with
  | nil inp w ends pids => intro _ d hd; simp at hd
  | last inp w ends pids h =>
    intro _ d hd
    simp only [List.mem_singleton] at hd
    subst hd
    exact ⟨inp, w, rfl, rfl, fun hs => absurd hs h⟩
  | cons inp w ends pids rest h t ih =>
    intro hP d hd
    rcases List.mem_cons.mp hd with hd | hd
    · subst hd
      refine ⟨inp, w, rfl, rfl, fun _ => ⟨ends.headD {}, pids.headD 0, ?_, rfl⟩⟩
      cases ends with
      | nil => exact h0
      | cons e es => exact hP e (by simp)
    · apply ih _ d hd
      intro e he
      split at he
      · exact hP e (List.mem_of_mem_tail he)
      · exact hP e he

/-- **C07_qmtp_session** (session-level composition).  For a whole QMTP connection (any number of messages, any read
    chunking, any write-fault schedule, the queue runs ending as scripted by `ends` — each honouring the interface):
    (1) what the client has received when the daemon exits is a PREFIX of the replies of the completely read messages, in
    order (`acked`: a message inside which the daemon exits contributes nothing; replies still in the 256-byte buffer can
    be lost, none is invented or reordered);
    (2) every completely read message `d` is `Qmtp.msg` of what the previous one left unread, run on a fresh qmail.c state,
    and its replies are `netstring d.res` for the accepted recipients and the two permanent refusals for the others,
    where `d.res` is computed from d's OWN verdict;
    (3) if that status is `K…` then (by `C07_qmtp_ack` and `C07_content_qmtp`) d's queue program exited 0 without crashing
    and had received exactly the Received field ++ the decoded body on descriptor 0 and the envelope of d's sender and
    accepted recipients on descriptor 1.
    So every `K` the client sees belongs to a message that was handed over completely and reported queued. -/
theorem C07_qmtp_session (cfg : Qmtp.Cfg) (w : Option Nat) (ends : List QEnd) (pids : List Nat) (inp : Bytes)
    (hends : ∀ e ∈ ends, TextOK e.text ∨ e.text.length ≤ 2) :
    (Qmtp.run cfg w ends pids inp).out <+: acked (Qmtp.run cfg w ends pids inp).msgs ∧
    ∀ d ∈ (Qmtp.run cfg w ends pids inp).msgs, d.m.stop = none →
      (∀ r ∈ Qmtp.replies d.m d.res, r = Qmtp.netstring d.res ∨ r = Qmtp.sRcpthosts ∨ r = Qmtp.sCantHandle) ∧
      ∃ inp' w' e pid, d.m = Qmtp.msg cfg inp' ∧ d.q = (QQ.opened w').run d.m.ops ∧
        d.res = Qmtp.result d.m (d.q.verdict e) cfg.now pid ∧
        (d.res.head? = some 75 →
          d.q.verdict e = [] ∧ d.m.senderok = true ∧ d.m.overflow = false ∧ e.exit = 0 ∧ e.crashed = false ∧
          d.q.msgPipe = received pQMTP cfg.peer none cfg.now ++ d.m.stored ∧
          d.q.envPipe = envelope d.m.sender (d.m.rcpts.map cstr)) := by
  refine ⟨run_out_acked cfg w ends pids inp, fun d hd hstop => ⟨?_, ?_⟩⟩
  · intro r hr
    unfold Qmtp.replies at hr
    rw [List.mem_map] at hr
    obtain ⟨f, _, rfl⟩ := hr
    by_cases h0 : f = 0
    · left; rw [if_pos h0]
    · rw [if_neg h0]
      by_cases hD : f = Qmtp.fD
      · right; left; rw [if_pos hD]
      · right; right; rw [if_neg hD]
  · obtain ⟨inp', w', hm, hq, hres⟩ := chain_record (cfg := cfg) (fun e => TextOK e.text ∨ e.text.length ≤ 2)
      (Or.inr (by decide)) (run_chain cfg w ends pids inp) hends d hd
    obtain ⟨e, pid, ht, hr⟩ := hres hstop
    refine ⟨inp', w', e, pid, hm, hq, hr, fun hK => ?_⟩
    have hvok : VerdictOK (d.q.verdict e) := verdict_ok _ _ _ _ ht
    rw [hr] at hK
    obtain ⟨hv, hs, ho⟩ := (C07_qmtp_ack d.m (d.q.verdict e) cfg.now pid hvok).1.mp hK
    have hstop' : (Qmtp.msg cfg inp').stop = none := by rw [← hm]; exact hstop
    have hq' : d.q = (QQ.opened w').run (Qmtp.msg cfg inp').ops := by rw [hq, hm]
    have hc := C07_content_qmtp cfg inp' w' e ht hstop' (by rw [← hq']; exact hv)
    rw [← hq', ← hm] at hc
    exact ⟨hv, hs, ho, hc.2.2.1, hc.2.2.2, hc.1, hc.2.1⟩

/-- **C07_cut_qmtp_later** (the cut inside message k+1).  Let the connection consist of `k` complete messages `p`
    (`Complete cfg k p`) followed by the first `j` bytes of a further message that would be complete only after more than
    `j` bytes.  Then the connection's records are the `k` records of `p` (up to the unread-remainder field) followed by ONE
    record `d` for the truncated message: the daemon exits inside it (`d.m.stop` is the connection's exit, no status was
    computed), its queue program — running on the write-fault counter the earlier messages left — finds no complete
    envelope on descriptor 1, and everything the client has received is a prefix of the replies of the first `k`
    messages: the truncated message is neither acknowledged nor queued, whatever came before it on the connection. -/
theorem C07_cut_qmtp_later (cfg : Qmtp.Cfg) (w : Option Nat) (ends : List QEnd) (pids : List Nat) {k : Nat} {p : Bytes}
    (hp : Complete cfg k p) (inp' : Bytes) (h : (Qmtp.msg cfg inp').stop = none) (j : Nat)
    (hj : j < inp'.length - (Qmtp.msg cfg inp').rest.length) :
    ((Qmtp.run cfg w ends pids p).msgs.take k).length = k ∧
    (∀ x ∈ (Qmtp.run cfg w ends pids p).msgs.take k, x.m.stop = none) ∧
    ∃ (w' : Option Nat) (d : Qmtp.Done),
      (Qmtp.run cfg w ends pids (p ++ inp'.take j)).msgs =
        ((Qmtp.run cfg w ends pids p).msgs.take k).map (addRest (inp'.take j)) ++ [d] ∧
      d.m = Qmtp.msg cfg (inp'.take j) ∧ d.m.stop ≠ none ∧ d.res = [] ∧
      d.q = (QQ.opened w').run d.m.ops ∧ envComplete d.q.envPipe = false ∧
      d.m.stop = some (Qmtp.run cfg w ends pids (p ++ inp'.take j)).exit ∧
      (Qmtp.run cfg w ends pids (p ++ inp'.take j)).out <+:
        (((Qmtp.run cfg w ends pids p).msgs.take k).map (fun d => (Qmtp.replies d.m d.res).flatten)).flatten := by
  obtain ⟨h1, h2, w', d, h3, h4, h5, h6, h7, h8, h9, h10, _⟩ := run_cut_later cfg w ends pids hp inp' h j hj
  exact ⟨h1, h2, w', d, h3, h4, h5, h6, h7, h8, h9, h10⟩

/-- whatever the connection, the record the daemon exits in was not queued -/
theorem C07_qmtp_session_last (cfg : Qmtp.Cfg) (w : Option Nat) (ends : List QEnd) (pids : List Nat) (inp : Bytes) :
    ∃ init d, (Qmtp.run cfg w ends pids inp).msgs = init ++ [d] ∧ (∀ x ∈ init, x.m.stop = none) ∧
      d.m.stop ≠ none ∧ envComplete d.q.envPipe = false :=
  run_last_stopped cfg w ends pids inp

/-- non-vacuity: two complete messages on one connection -/
example : Complete { peer := ⟨none, none, none, none, none⟩ } 2
    ([51, 58, 10, 120, 10, 44, 49, 58, 115, 44, 52, 58, 49, 58, 114, 44, 44] ++
     ([51, 58, 10, 121, 10, 44, 49, 58, 116, 44, 52, 58, 49, 58, 114, 44, 44] ++ [])) :=
  .succ (by decide) (by decide) (.succ (by decide) (by decide) .zero)

end session

/-! ## 9. the date of the Received field: datetime_tai is the Gregorian calendar, date822fmt its RFC 822 rendering -/

open Nq.Datetime in
/-- **C07_datetime_civil.**  `datetime_tai(t)` is the proleptic Gregorian UTC date and time of the instant `t` seconds
    after 1970-01-01 00:00:00, for every `t ∈ ℤ` (model on unbounded integers): `(year, mon, mday)` is a valid civil date
    (month lengths, leap-year rule `isLeap`) whose day number — computed by the independent `daysFromCivil`
    (365·years + leap days + month lengths) — is ⌊t/86400⌋; `hour:min:sec` is `t mod 86400` in base 60; the weekday is
    (⌊t/86400⌋ + 4) mod 7 (1970-01-01 was a Thursday).  This is the predicate `civilOk` the driver evaluates on the
    output of the real `datetime_tai`. -/
theorem C07_datetime_civil (t : Int) :
    validDate (tai t).year (tai t).mon (tai t).mday ∧
    daysFromCivil (tai t).year (tai t).mon (tai t).mday = t / 86400 ∧
    (0 ≤ (tai t).hour ∧ (tai t).hour < 24 ∧ 0 ≤ (tai t).min ∧ (tai t).min < 60 ∧ 0 ≤ (tai t).sec ∧ (tai t).sec < 60) ∧
    (tai t).hour * 3600 + (tai t).min * 60 + (tai t).sec = t % 86400 ∧
    (tai t).wday = (t / 86400 + 4) % 7 ∧
    civilOk t (tai t) = true :=
  let h := Nq.Lemmas.Datetime.tai_civil t
  ⟨h.1, h.2.1, h.2.2.1, h.2.2.2.1, h.2.2.2.2, Nq.Lemmas.Datetime.civilOk_tai t⟩

open Nq.Datetime in
/-- **C07_datetime_unique.**  … and that determines the result: the day number of a valid civil date determines the date
    (`daysFromCivil` is injective on valid dates), so any `(y, m, d)` that is a valid date with day number ⌊t/86400⌋ is
    what `datetime_tai` returns. -/
theorem C07_datetime_unique (t y m d : Int) (hv : validDate y m d) (hd : daysFromCivil y m d = t / 86400) :
    (tai t).year = y ∧ (tai t).mon = m ∧ (tai t).mday = d :=
  Nq.Lemmas.Datetime.tai_unique t y m d hv hd

open Nq.Datetime in
/-- the specification's day count is the calendar: 0 on 1970-01-01, every year adds its length (365, or 366 in leap
    years), every month its length; a valid date's number lies inside its year -/
theorem C07_calendar_sound (y : Int) :
    daysBeforeYear 1970 = 0 ∧ daysBeforeYear (y + 1) = daysBeforeYear y + yearLen y ∧
    daysBeforeMonth y 12 = yearLen y ∧
    (∀ m d, validDate y m d → daysBeforeYear y ≤ daysFromCivil y m d ∧ daysFromCivil y m d < daysBeforeYear (y + 1)) := by
  refine ⟨Nq.Lemmas.Datetime.daysBeforeYear_1970, Nq.Lemmas.Datetime.daysBeforeYear_succ y, ?_,
    fun m d h => Nq.Lemmas.Datetime.dfc_bounds y m d h⟩
  rw [(Nq.Lemmas.Datetime.dbm_all y).2.2.2.2.2.2.2.2.2.2.2.2, Nq.Lemmas.Datetime.yearLen_eq]

open Nq.Datetime in
/-- **C07_datetime_range.**  The range the C code supports: for `tLo ≤ t ≤ tHi` (day number in
    `[INT_MIN + 11017, INT_MAX - 4]`, years −5 877 611 … 5 881 580) every value `datetime_tai` computes in an `int` fits in
    32 bits — no signed overflow, no narrowing, so the C arithmetic is the integer arithmetic of the model; outside that
    range some `int` computation leaves the range (`day -= 11017` below, `day + 4` above: undefined behaviour). -/
theorem C07_datetime_range (t : Int) :
    (supported t = true → ∀ x ∈ (vars t).ints, INT_MIN ≤ x ∧ x ≤ INT_MAX) ∧
    (supported t = false → ∃ x ∈ (vars t).ints, x < INT_MIN ∨ INT_MAX < x) :=
  ⟨Nq.Lemmas.Datetime.tai_no_overflow t, Nq.Lemmas.Datetime.tai_overflow_outside t⟩

open Nq.Datetime in
/-- `yday` (read nowhere in the package) is the day of the year **except** from March on in century years that are not
    leap years (1900, 2100, 2200, …), where it is one too large -/
theorem C07_datetime_yday (t : Int) : (tai t).yday = ydayCode (tai t).year (tai t).mon (tai t).mday :=
  Nq.Lemmas.Datetime.tai_yday t

open Nq.Datetime in
/-- **C07_date822_format.**  The date at the end of the Received field, for every clock value `t ≥ 0`: it is
    `D Mon YYYY HH:MM:SS -0000 LF` where `(YYYY, Mon, D)` is the Gregorian date of `t` (valid, day number ⌊t/86400⌋,
    year ≥ 1970), `D` and `YYYY` are decimal numerals without leading zeros, `Mon` the three-letter English month name,
    and `HH`, `MM`, `SS` the two-digit base-60 digits of `t mod 86400`. -/
theorem C07_date822_format (t : Nat) :
    ∃ D Y : Bytes, isDecimal (datetimeTai t).mday D ∧ isDecimal (datetimeTai t).year Y ∧
      date822 (datetimeTai t) = D ++ [SP] ++ months.getD (datetimeTai t).mon [] ++ [SP] ++ Y ++ [SP] ++
        two (datetimeTai t).hour ++ [58] ++ two (datetimeTai t).min ++ [58] ++ two (datetimeTai t).sec ++
        [SP, 45, 48, 48, 48, 48, LF] ∧
      (months.getD (datetimeTai t).mon []).length = 3 ∧
      validDate (datetimeTai t).year (datetimeTai t).mon (datetimeTai t).mday ∧
      daysFromCivil (datetimeTai t).year (datetimeTai t).mon (datetimeTai t).mday = ((t / 86400 : Nat) : Int) ∧
      (datetimeTai t).hour * 3600 + (datetimeTai t).min * 60 + (datetimeTai t).sec = t % 86400 ∧
      1970 ≤ (datetimeTai t).year := by
  obtain ⟨c1, c2, c3, c4, c5, c6, c7, c8⟩ := Nq.Lemmas.C07Date.datetimeTai_civil t
  obtain ⟨D, Y, hD, hY, he⟩ := Nq.Lemmas.C07Date.date822_format (datetimeTai t) c3 c4 c5
  exact ⟨D, Y, hD, hY, he, Nq.Lemmas.C07Date.months_len _ c8, c1, c2, c6, c7⟩

/-! non-vacuity: 1970-01-01 (Thursday), 2000-02-29, 2100-02-28 23:59:59 (no Feb 29), 1900-03-01 (before the epoch; `yday`
    is 60, one too many), the last second of 1969, both ends of the supported range -/
example : Nq.Datetime.tai 0 = ⟨0, 0, 0, 4, 1, 0, 0, 1970⟩ := by decide
example : Nq.Datetime.tai 951782400 = ⟨0, 0, 0, 2, 29, 59, 1, 2000⟩ := by decide
example : Nq.Datetime.tai 4107542399 = ⟨23, 59, 59, 0, 28, 58, 1, 2100⟩ := by decide
example : Nq.Datetime.tai (-2203891200) = ⟨0, 0, 0, 4, 1, 60, 2, 1900⟩ ∧ Nq.Datetime.ydaySpec 1900 2 1 = 59 := by decide
example : Nq.Datetime.tai (-1) = ⟨23, 59, 59, 3, 31, 364, 11, 1969⟩ := by decide
example : Nq.Datetime.supported Nq.Datetime.tLo = true ∧ Nq.Datetime.supported (Nq.Datetime.tLo - 1) = false ∧
    Nq.Datetime.supported Nq.Datetime.tHi = true ∧ Nq.Datetime.supported (Nq.Datetime.tHi + 1) = false ∧
    (Nq.Datetime.tai Nq.Datetime.tLo).year = -5877611 ∧ (Nq.Datetime.tai Nq.Datetime.tHi).year = 5881580 := by decide
example : Nq.Datetime.validDate 2024 1 29 ∧ Nq.Datetime.daysFromCivil 2024 1 29 = 19782 ∧ ¬ Nq.Datetime.validDate 2023 1 29 := by decide
/-- "26 Sep 2025 00:00:00 -0000\n" -/
example : date822 (datetimeTai 1758844800) =
    [50, 54, 32, 83, 101, 112, 32, 50, 48, 50, 53, 32, 48, 48, 58, 48, 48, 58, 48, 48, 32, 45, 48, 48, 48, 48, 10] := by decide
example : Nq.Datetime.isDecimal 2025 [50, 48, 50, 53] := by
  refine ⟨by decide, by decide, by decide, by decide⟩

/-! ## 16. the whole SMTP connection (session 4) -/

section smtp_session
open Nq.SmtpC07 Nq.SmtpSession Nq.SmtpPolicy

/-- **C07_smtp_session** (session-level composition for SMTP, on the pattern of `C07_qmtp_session`).  `SmtpC07.run` is the whole
    connection: C08's command loop (`SmtpSession.readLine` / `parseLine` / `sstep`: commands(), smtp_helo/ehlo/rset/mail/rcpt/quit, addrparse,
    badmailfrom, rcpthosts / RELAYCLIENT) with every DATA that passes its two gates handed to C07's `Smtp.data` running on the model of
    qmail.c, the k-th run of the queue program ending as `ends` scripts (each honouring the interface), the write-fault counter threaded
    from run to run.  For EVERY byte stream from the client (any number of transactions, RSET, repeated MAIL, refused RCPT, pipelined
    garbage, the stream ending anywhere = the client disconnecting there), every write-fault schedule and every scripted behaviour of the
    queue program:
    (1) the commands with their outcomes are a `SmtpSession.trace`, so C08's theorems about traces apply to the composed connection;
    (2) a command line that starts no queue run hands nothing to the queue and is never answered with the acknowledgement
        (`Reply.accepted`, the only reply rendered as `250 ok <time> qp <pid>`);
    (3) for a queue run `t` started by a DATA: the events before it end in an OPEN TRANSACTION — a MAIL answered 250 whose parsed address is
        `t.mailfrom`, followed by events none of which is HELO / EHLO / RSET / another accepted MAIL / a DATA that got past its gates — and
        `t.rcpts` are the stored forms of exactly the RCPTs answered 250 in that stretch, in order, at least one (`SmtpPolicy.OpenTxn`,
        `acceptedRcpt`; when a RCPT is answered 250: `C07_smtp_session_rcpt`);
    (4) if t's DATA is terminated: the bytes written are `354 go ahead` followed by `Smtp.reply` computed from t's OWN `qmail_close` answer;
        that reply begins `250 ` iff the answer is "" iff the event carries `Reply.accepted`; and then it is exactly
        `250 ok <now> qp <t.pid>`, t's queue program exited 0 without crashing, had read on descriptor 0 the Received field (with the HELO
        argument in force) ++ the body as C05's decoder `dblast` yields it from the bytes behind THIS DATA line, and on descriptor 1 the
        envelope of `t.mailfrom` and `t.rcpts`; conversely a complete envelope with exit 0 forces the acknowledgement;
    (5) if t's DATA is not terminated (the client is gone, or a bare LF): it is the last step of the connection, nothing is submitted or
        acknowledged, the bytes written are `354 go ahead` (plus the 451 of straynewline()), and t's queue program finds no complete
        envelope on descriptor 1.
    Not stated here: that a proper prefix of a connection runs the same steps up to the cut (the statement is for every stream, hence for
    every prefix, but the two runs are not related); that no OTHER reply text looks like an acknowledgement (it depends on
    control/smtpgreeting; driver oracle `stray-ack`); `qmail_open` failing (pipe/fork errors: not modelled, never injected). -/
theorem C07_smtp_session (cfg : SmtpC07.Cfg) (w : Option Nat) (ends : List QEnd) (pids : List Nat) (inp : Bytes)
    (hends : ∀ e ∈ ends, TextOK e.text ∨ e.text.length ≤ 2) :
    (SmtpC07.run cfg w ends pids inp).map (·.ev) =
      trace cfg.pol {} ((SmtpC07.run cfg w ends pids inp).map (·.ev.1)) ∧
    ∀ (pre : List Step) (st : Step) (post : List Step), SmtpC07.run cfg w ends pids inp = pre ++ st :: post →
      match st.txn with
      | none => st.ev.2.submit = none ∧ Reply.accepted ∉ st.ev.2.replies
      | some t =>
        (∃ mid, OpenTxn cfg.pol (pre.map (·.ev)) t.mailfrom mid ∧ t.rcpts = mid.filterMap (acceptedRcpt cfg.pol) ∧ t.rcpts ≠ []) ∧
        ((t.d cfg).stop = none →
          st.ev.2.replies = [.go, closeReply (t.qqx cfg)] ∧
          st.ev.2.submit = some ⟨t.mailfrom, t.rcpts, t.qqx cfg⟩ ∧
          st.bytes cfg = Nq.Gen.txt_data_go ++ t.reply cfg ∧
          ((t.reply cfg).take 4 = [50, 53, 48, 32] ↔ t.qqx cfg = []) ∧
          (Reply.accepted ∈ st.ev.2.replies ↔ t.qqx cfg = []) ∧
          (t.qqx cfg = [] →
            t.reply cfg = ackLine cfg.pol.now t.pid ∧
            (t.q cfg).msgPipe = received pSMTP cfg.peer (Smtp.fakehelo cfg.peer t.helo) cfg.pol.now ++ (t.d cfg).stored ∧
            Nq.SmtpIn.dblast t.stream = .accepted (t.d cfg).stored (t.d cfg).rest ∧
            (t.q cfg).envPipe = envelope (cstr t.mailfrom) (t.rcpts.map cstr) ∧
            t.e.exit = 0 ∧ t.e.crashed = false) ∧
          (Committed (t.q cfg) t.e → t.qqx cfg = [])) ∧
        ((t.d cfg).stop ≠ none →
          post = [] ∧ st.ev.2.submit = none ∧ Reply.accepted ∉ st.ev.2.replies ∧
          envComplete (t.q cfg).envPipe = false ∧
          (st.bytes cfg = Nq.Gen.txt_data_go ∨ st.bytes cfg = Nq.Gen.txt_data_go ++ Nq.Gen.txt_straynewline)) := by
  refine ⟨runFuel_is_trace cfg _ _ _ _ _ _ _, fun pre st post hr => ?_⟩
  obtain ⟨s', hinv, hat⟩ := runFuel_split cfg (fun e => TextOK e.text ∨ e.text.length ≤ 2) (Or.inr (by decide))
    pre _ {} [] none w ends pids inp st post hends (Nq.Lemmas.Smtp.inv_init cfg.pol) hr
  simp only [List.nil_append] at hinv
  unfold StepAt at hat
  cases htx : st.txn with
  | none =>
    simp only [htx] at hat ⊢
    obtain ⟨v, arg, hg, hev⟩ := hat
    rw [hev]
    exact plain_step cfg.pol s' v arg hg
  | some t =>
    simp only [htx] at hat ⊢
    obtain ⟨hte, hg, hmf, hrc, hev⟩ := hat
    obtain ⟨mid, ho, hr1, hr2⟩ := inv_open cfg.pol _ s' hinv hg
    refine ⟨⟨mid, by rw [hmf]; exact ho, by rw [hrc]; exact hr1, by rw [hrc]; exact hr2⟩, ?_, ?_⟩
    · intro hstop
      have hstep := txn_step_done cfg s' t hg hstop
      have hb : st.bytes cfg = Nq.Gen.txt_data_go ++ t.reply cfg := by
        simp [Step.bytes, htx, Txn.bytes, hstop]
      have hack := (C07_smtp_ack (t.d cfg) (t.qqx cfg) cfg.pol.now t.pid).1
      refine ⟨by rw [hev, hstep], by rw [hev, hstep, hmf, hrc], hb, hack, ?_, ?_, ?_⟩
      · rw [hev, hstep]
        unfold closeReply
        by_cases hq : t.qqx cfg = [] <;> simp [hq]
      · intro hq
        have hc := C07_content_smtp (dcfg cfg) t.helo t.mailfrom t.rcpts t.stream t.w t.e hte hstop hq
        refine ⟨?_, hc.1, hc.2.1, hc.2.2.1, hc.2.2.2⟩
        show Smtp.reply (t.d cfg) (t.qqx cfg) cfg.pol.now t.pid = _
        rw [hq]; simp [Smtp.reply, ackLine]
      · intro hcm
        exact (C07_smtp_committed_ack (dcfg cfg) t.helo t.mailfrom t.rcpts t.stream t.w t.e cfg.pol.now t.pid hte hstop hcm).1
    · intro hstop
      obtain ⟨h1, h2, h3⟩ := txn_step_stopped cfg s' t hg hstop
      refine ⟨?_, by rw [hev]; exact h1, by rw [hev]; exact h3, ?_, ?_⟩
      · exact runFuel_halt_last cfg pre _ _ _ _ _ _ _ st post hr (by rw [hev]; exact h2)
      · exact (C07_stopped_no_envelope t.w).2.2 (dcfg cfg) t.helo t.mailfrom (entries t.rcpts) t.stream hstop
      · cases hst : (t.d cfg).stop with
        | none => exact absurd hst hstop
        | some ex =>
          by_cases hy : (t.d cfg).stray = true
          · right; simp [Step.bytes, htx, Txn.bytes, hst, hy]
          · left; simp [Step.bytes, htx, Txn.bytes, hst, hy]

/-- **C07_smtp_session_rcpt** (which recipients get into `rcptto`).  Anywhere in a connection, a RCPT is answered `250 ok`
    — and thereby becomes one of the recipients `C07_smtp_session` speaks of — exactly when C08's policy predicate holds for the
    events before it: a transaction is open (a MAIL answered 250, not discarded since), its sender is not barred by badmailfrom,
    the argument parses to an address within the length limit, and RELAYCLIENT is set or the address matches
    control/rcpthosts / morercpthosts (`SmtpPolicy.GateOK`; `MoreLower`: the cdb keys are lower-case, as qmail-newmrh writes them). -/
theorem C07_smtp_session_rcpt (cfg : SmtpC07.Cfg) (hl : MoreLower cfg.pol) (w : Option Nat) (ends : List QEnd) (pids : List Nat)
    (inp : Bytes) (pre : List Step) (st : Step) (post : List Step) (arg : Bytes)
    (hr : SmtpC07.run cfg w ends pids inp = pre ++ st :: post) (hc : st.ev.1 = .rcpt arg) :
    st.ev.2.replies = [.rcptok] ↔ GateOK cfg.pol (pre.map (·.ev)) arg := by
  obtain ⟨s', hinv, hat⟩ := runFuel_split cfg (fun _ => True) trivial
    pre _ {} [] none w ends pids inp st post (fun _ _ => trivial) (Nq.Lemmas.Smtp.inv_init cfg.pol) hr
  simp only [List.nil_append] at hinv
  unfold StepAt at hat
  cases htx : st.txn with
  | none =>
    simp only [htx] at hat
    obtain ⟨v, arg', _, hev⟩ := hat
    rw [hev] at hc ⊢
    cases v <;> simp [plainCmd] at hc
    subst hc
    exact Nq.Lemmas.Smtp.gate_inv cfg.pol hl _ s' arg' hinv
  | some t =>
    simp only [htx] at hat
    rw [hat.2.2.2.2] at hc
    simp [Txn.cmd] at hc

/-- non-vacuity: two transactions on one connection (`MAIL FROM:<a>` `RCPT TO:<b>` `DATA` `.` twice, bare-LF command lines):
    two queue runs, each with the sender and recipient of ITS transaction, both DATA terminated -/
def exCfg : SmtpC07.Cfg := { pol := {}, peer := ⟨none, none, none, none, none⟩ }
def exInp : Bytes :=
  [77, 65, 73, 76, 32, 70, 82, 79, 77, 58, 60, 97, 62, 10, 82, 67, 80, 84, 32, 84, 79, 58, 60, 98, 62, 10, 68, 65, 84, 65, 10, 46, 13, 10,
   77, 65, 73, 76, 32, 70, 82, 79, 77, 58, 60, 99, 62, 10, 82, 67, 80, 84, 32, 84, 79, 58, 60, 100, 62, 10, 68, 65, 84, 65, 10, 46, 13, 10]
example : ((SmtpC07.txns (SmtpC07.run exCfg none [{}, { exit := 31 }] [7, 8] exInp)).map (fun t => (t.mailfrom, t.rcpts, (t.d exCfg).stop.isNone))) =
    [([97], [[98]], true), ([99], [[100]], true)] := by decide
example : ∀ e ∈ [({} : QEnd), { exit := 31 }], TextOK e.text ∨ e.text.length ≤ 2 := by
  intro e he
  simp only [List.mem_cons, List.not_mem_nil, or_false] at he
  rcases he with rfl | rfl <;> exact Or.inr (by decide)

/-- **C07_smtp_session_cut** (the connection is cut, or the message broken, anywhere before the terminator).  A queue run `t` of the
    composed connection works on bytes the client really sent: `t.stream` — everything behind that DATA line — is a suffix of the
    client's stream.  Its DATA counts as terminated exactly when C05's decoder `dblast` accepts those bytes (CR LF `.` CR LF reached, no
    bare LF before it).  If it does not — the client went away at ANY byte before the end of the terminator, or sent a bare LF — then
    this step is the last one of the connection, its event carries no acknowledgement and submits nothing, and the queue program of `t`
    finds no complete envelope on descriptor 1.  (A cut in the command phase starts no queue run for the open transaction at all:
    clause 2 of `C07_smtp_session`.) -/
theorem C07_smtp_session_cut (cfg : SmtpC07.Cfg) (w : Option Nat) (ends : List QEnd) (pids : List Nat) (inp : Bytes)
    (hends : ∀ e ∈ ends, TextOK e.text ∨ e.text.length ≤ 2)
    (pre : List Step) (st : Step) (post : List Step) (t : Txn)
    (hr : SmtpC07.run cfg w ends pids inp = pre ++ st :: post) (ht : st.txn = some t) :
    t.stream <:+ inp ∧
    ((t.d cfg).stop = none ↔ ∃ b r, Nq.SmtpIn.dblast t.stream = .accepted b r) ∧
    ((¬ ∃ b r, Nq.SmtpIn.dblast t.stream = .accepted b r) →
      post = [] ∧ st.ev.2.submit = none ∧ Reply.accepted ∉ st.ev.2.replies ∧ envComplete (t.q cfg).envPipe = false) := by
  have hiff := data_stop_iff (dcfg cfg) t.helo t.mailfrom (entries t.rcpts) t.stream
  refine ⟨?_, hiff, fun hn => ?_⟩
  · exact runFuel_stream_suffix cfg _ _ _ _ _ _ _ st (by unfold SmtpC07.run at hr; rw [hr]; simp) t ht
  · have hstop : (t.d cfg).stop ≠ none := fun h => hn (hiff.mp h)
    have := (C07_smtp_session cfg w ends pids inp hends).2 pre st post hr
    rw [ht] at this
    obtain ⟨h1, h2, h3, h4, _⟩ := this.2.2 hstop
    exact ⟨h1, h2, h3, h4⟩

/-- non-vacuity: the second transaction of `exInp` cut after `DATA LF .` (the terminator's CR LF never arrives) -/
example : ((SmtpC07.txns (SmtpC07.run exCfg none [] [7, 8] (exInp.take 66))).map (fun t => (t.mailfrom, (t.d exCfg).stop.isNone))) =
    [([97], true), ([99], false)] := by decide

/-- **C07_smtp_session_bytes** (no acknowledgement-shaped line without a committed queue run, on the bytes).  Let the greeting
    (control/smtpgreeting, default control/me) be one line not beginning with `ok ` (`GreetOK`).  Then in the composed connection
    the bytes written for a command line that starts no queue run, and for a DATA that is never terminated (`354 go ahead`, plus
    the 451 of straynewline()), contain no line beginning with `250 ok `; and the reply to a terminated DATA whose `qmail_close`
    answer is not "" does not begin with `250 `.  So a line `250 ok <time> qp <pid>` can only be the reply to a terminated DATA
    whose own queue run reported success (`C07_smtp_session` (4)) — unless the queue program itself relays such a line after an LF
    in its error text (outside qmail-queue.8; the text is copied verbatim). -/
theorem C07_smtp_session_bytes (cfg : SmtpC07.Cfg) (w : Option Nat) (ends : List QEnd) (pids : List Nat) (inp : Bytes)
    (hends : ∀ e ∈ ends, TextOK e.text ∨ e.text.length ≤ 2) (hg : GreetOK cfg.pol.greeting)
    (pre : List Step) (st : Step) (post : List Step) (hr : SmtpC07.run cfg w ends pids inp = pre ++ st :: post) :
    match st.txn with
    | none => hasAckLine (st.bytes cfg) = false
    | some t =>
      ((t.d cfg).stop ≠ none → hasAckLine (st.bytes cfg) = false) ∧
      ((t.d cfg).stop = none → t.qqx cfg ≠ [] → (t.reply cfg).take 4 ≠ [50, 53, 48, 32]) := by
  cases htx : st.txn with
  | none =>
    simp only
    obtain ⟨s', _, hat⟩ := runFuel_split cfg (fun _ => True) trivial
      pre _ {} [] none w ends pids inp st post (fun _ _ => trivial) (Nq.Lemmas.Smtp.inv_init cfg.pol) hr
    unfold StepAt at hat
    simp only [htx] at hat
    obtain ⟨v, arg, hgate, hev⟩ := hat
    obtain ⟨r, hr1, hr2, hr3⟩ := plain_step_single cfg.pol s' v arg hgate
    have : st.bytes cfg = render cfg.pol r := by
      simp [Step.bytes, htx, hev, hr1]
    rw [this]
    exact render_no_ack cfg.pol hg r hr2 hr3
  | some t =>
    simp only
    have hmain := (C07_smtp_session cfg w ends pids inp hends).2 pre st post hr
    rw [htx] at hmain
    refine ⟨fun hstop => ?_, fun hstop hq => ?_⟩
    · obtain ⟨_, _, _, _, hb⟩ := hmain.2.2 hstop
      rcases hb with hb | hb <;> rw [hb] <;> decide
    · intro h4
      exact hq ((hmain.2.1 hstop).2.2.2.1.mp h4)

/-- the complement: with control/smtpgreeting = `ok 1 qp 2` the reply to HELO is itself acknowledgement-shaped -/
example : hasAckLine (render { greeting := [111, 107, 32, 49, 32, 113, 112, 32, 50] } .helo) = true := by decide
example : GreetOK [109, 101, 46, 101, 120, 97, 109, 112, 108, 101] := ⟨by decide, by decide⟩

end smtp_session
end Nq.Props.C07
