-- C07 property theorems (to be written)
import Nq.Basic
