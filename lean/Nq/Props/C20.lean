/-
  C20 — No input can corrupt memory in any program of the suite.          (proof, PARTIAL)

  What is proved here is the **length and index arithmetic** of the code that stands between
  untrusted input and memory:
    (a) gen_alloc / stralloc growth and quote.c doit()           — Nq.Stralloc
    (b) substdio output and input buffers, with the stream laws  — Nq.Substdio
    (c) the fixed buffers filled from network / child input      — Nq.FixedBuf (+ Nq.Spawn, Nq.Pop3,
        Nq.SendReport of C18/C19 for slot numbers, message numbers and REPORTMAX)
    (d) dns.c record walking over a bounded response             — Nq.Dns
    (e) the cdb reader on arbitrary files                        — Nq.Users.cdbSeek (model of C11)
    (f) token822.c count-allocate-fill: parse pass 1 vs pass 2,  — Nq.TokPass, Nq.TokFill
        unparse / unquote length walk vs fill walk
    (g) qmail-local.c main(): numforward count vs recips[] fill  — Nq.LocalPass
    (h) getln2 / getln / byte_chr over substdio + stralloc       — Nq.Getln
  What is NOT proved (and cannot be carried by these models): absence of undefined behaviour in the
  compiled C outside (a)–(h) — pointer aliasing, signal handlers, libc/libresolv, the other parsers'
  loops (token822_addrlist, headerbody, hfield, control, constmap, ip, scan).  That part of the property is covered only by sanitised execution (harness/c20_*.c and the
  ASan+UBSan builds used by every other property's harness) and is labelled so in the evidence.

  Tie to the source: the models are compared with the real functions by harness/c20_lib.c,
  harness/c20_dns.c, c20_fixed.c, c20_parse.c (kinds tok, utok, gl2, cdb) and c20_local.c on every run (DISAGREE channel); the constants and the presence of each guard are
  regenerated from /repo into Nq.Gen.C20Bounds (translator).
-/
import Nq.Lemmas.C20Stralloc
import Nq.Lemmas.C20Substdio
import Nq.Lemmas.C20Dns
import Nq.Lemmas.C20Fixed
import Nq.Lemmas.C20Cdb
import Nq.Lemmas.C20Caps
import Nq.Lemmas.C20TokPass
import Nq.Lemmas.C20TokFill
import Nq.Lemmas.C20LocalPass
import Nq.Lemmas.C20Getln
import Nq.Gen.QQClose
import Nq.Gen.C20Bounds
import Nq.Lemmas.SpawnL
import Nq.Pop3

namespace Nq.Props.C20
open Nq Nq.Lemmas.C20
open Nq.Gen.C20Bounds

/-! ## (T) the sources still have the shape the theorems are about -/

/-- every guard / buffer declaration the translator looks for was found in /repo -/
theorem C20_sources_recognised : unrecognised = [] := by decide

/-- (a tripwire, not a semantic statement: each Boolean says "the translator's pattern for this check matched the
source text"; what the checks achieve is stated by the theorems below over the models) the overflow checks of gen_allocdefs.h, stralloc_catb.c, stralloc_opyb.c, quote.c and the bounds
checks of dns.c, spawn.c, qmail-pop3d.c, qmail-send.c, qmail-remote.c are present in the source, and the counters of
quote.c doit()/quote_need() are unsigned (commit 26e354b) -/
theorem C20_checks_present :
    allocChecked = true ∧ catbChecked = true ∧ quoteChecked = true ∧ dnsRdataChecked = true ∧
    dnsHeaderChecked = true ∧ spawnDelnumChecked = true ∧ pop3MsgnoChecked = true ∧
    reportmaxCut = true ∧ smtptextCapped = true ∧ quoteSignedCounters = false ∧ strallocBase = 30 ∧ dnsIpLen = 4 ∧ dnsMxLen = 3 := by decide

/-! ## (a) gen_alloc / stralloc / quote -/

section alloc
open Nq.Stralloc

/-- **readyplus / ready.** For every element size, base, allocator behaviour, record and `n`
(including `len`, `n` near 2³²): a successful call leaves a non-null record with `len ≤ a`, `a`
elements inside the block (`a * sizeof ≤ cap`), room for what was asked (`n + pluslen ≤ a`, computed
without wrap-around), and stores nothing. -/
theorem C20_readyplus_sound (sz base : Nat) (grant : Nat → Bool) (x : GA) (n pluslen : Nat)
    (hx : WF sz x) (hn : n < U32)
    (h : (readyplusInternal sz base grant x n pluslen).ret = true) :
    let o := readyplusInternal sz base grant x n pluslen
    WF sz o.x ∧ o.x.nonnull = true ∧ o.st = [] ∧
    (x.nonnull = true → n + pluslen ≤ o.x.a ∧ n + pluslen < U32 ∧ o.x.len = x.len) ∧
    (x.nonnull = false → n ≤ o.x.a ∧ o.x.len = 0) := by
  have := rpi_ok sz base grant x n pluslen hx hn h
  unfold RPPost at this
  exact ⟨this.1, this.2.1, this.2.2.1, this.2.2.2.2.1, this.2.2.2.2.2⟩

/-- a failing call leaves a well-formed record, stores nothing and keeps the old block -/
theorem C20_readyplus_fail (sz base : Nat) (grant : Nat → Bool) (x : GA) (n pluslen : Nat)
    (hx : WF sz x) (h : (readyplusInternal sz base grant x n pluslen).ret = false) :
    let o := readyplusInternal sz base grant x n pluslen
    WF sz o.x ∧ o.st = [] ∧ o.x.nonnull = x.nonnull ∧ o.x.a = x.a ∧ o.x.cap = x.cap :=
  rpi_fail sz base grant x n pluslen hx h

/-- **no truncated allocation**: the byte count handed to malloc/realloc fits 32 bits and, on success,
is exactly `a * sizeof(type)` — the multiplication did not wrap. -/
theorem C20_alloc_request_exact (sz base : Nat) (grant : Nat → Bool) (x : GA) (n pluslen r : Nat)
    (h : (readyplusInternal sz base grant x n pluslen).req = some r) :
    let o := readyplusInternal sz base grant x n pluslen
    r < U32 ∧ (o.ret = true → r = o.x.a * sz ∧ r = o.x.cap) :=
  rpi_req sz base grant x n pluslen r h

/-- **CVE-2005-1513 regime**: if `n + pluslen` does not fit `unsigned int` a non-null record is refused
and left untouched, whatever the allocator would have said. -/
theorem C20_readyplus_overflow_refused (sz base : Nat) (grant : Nat → Bool) (x : GA) (n pluslen : Nat)
    (hnn : x.nonnull = true) (h : n + pluslen ≥ U32) :
    readyplusInternal sz base grant x n pluslen = ⟨false, x, none, [], false⟩ :=
  rpi_overflow sz base grant x n pluslen hnn h

/-- **append**: the one element is stored at an index `< a`; `len` grows by one without wrap. -/
theorem C20_append_sound (sz base : Nat) (grant : Nat → Bool) (x : GA) (hx : WF sz x)
    (h : (append sz base grant x).ret = true) :
    WF sz (append sz base grant x).x ∧ storesIn (append sz base grant x) ∧
    (append sz base grant x).x.len = (if x.nonnull then x.len else 0) + 1 :=
  append_ok sz base grant x hx h

/-- **stralloc_catb**: both stores (the `n` copied bytes at `len`, the 'Z' after them) are inside
the `a` allocated bytes, `len` becomes `len + n` exactly and stays `< a`. -/
theorem C20_catb_sound (grant : Nat → Bool) (x : GA) (n : Nat) (hx : WF 1 x)
    (h : (catb grant x n).ret = true) :
    WF 1 (catb grant x n).x ∧ storesIn (catb grant x n) ∧
    (catb grant x n).x.len = (if x.nonnull then x.len else 0) + n ∧
    (catb grant x n).x.len < (catb grant x n).x.a :=
  catb_ok grant x n hx h

/-- **stralloc_copyb** likewise. -/
theorem C20_copyb_sound (grant : Nat → Bool) (x : GA) (n : Nat) (hx : WF 1 x)
    (h : (copyb grant x n).ret = true) :
    WF 1 (copyb grant x n).x ∧ storesIn (copyb grant x n) ∧ (copyb grant x n).x.len = n ∧
    n < (copyb grant x n).x.a :=
  copyb_ok grant x n hx h

/-- **catb near 2³²**: when `len + n + 1` does not fit, nothing is allocated, copied or changed. -/
theorem C20_catb_overflow_refused (grant : Nat → Bool) (x : GA) (n : Nat) (hnn : x.nonnull = true)
    (h : x.len + n + 1 ≥ U32) : catb grant x n = ⟨false, x, none, [], false⟩ :=
  catb_overflow grant x n hnn h

/-- **any sequence** of ready / readyplus / append / catb / copyb / `len := k ≤ a` keeps the record
well-formed and every store inside the block (sizeof = 1, base 30: the `stralloc` instance). -/
theorem C20_stralloc_ops_sound (grant : Nat → Bool) (x : GA) (op : Op) (hx : WF 1 x)
    (hop : match op with
      | .ready n => n < U32 | .readyplus n => n < U32 | .catb _ => True | .copyb _ => True | .append => True
      | .setlen k => k ≤ x.a) :
    WF 1 (apply 1 30 grant x op).x ∧ storesIn (apply 1 30 grant x op) := by
  cases op with
  | ready n =>
    simp only [apply, ready]
    by_cases h : (readyplusInternal 1 30 grant x n 0).ret = true
    · have := rpi_ok 1 30 grant x n 0 hx hop h
      unfold RPPost at this
      exact ⟨this.1, by unfold storesIn; rw [this.2.2.1]; simp⟩
    · have := rpi_fail 1 30 grant x n 0 hx (by simpa using h)
      exact ⟨this.1, by unfold storesIn; rw [this.2.1]; simp⟩
  | readyplus n =>
    simp only [apply, readyplus]
    by_cases h : (readyplusInternal 1 30 grant x n x.len).ret = true
    · have := rpi_ok 1 30 grant x n x.len hx hop h
      unfold RPPost at this
      exact ⟨this.1, by unfold storesIn; rw [this.2.2.1]; simp⟩
    · have := rpi_fail 1 30 grant x n x.len hx (by simpa using h)
      exact ⟨this.1, by unfold storesIn; rw [this.2.1]; simp⟩
  | append =>
    simp only [apply]
    by_cases h : (append 1 30 grant x).ret = true
    · exact ⟨(append_ok 1 30 grant x hx h).1, (append_ok 1 30 grant x hx h).2.1⟩
    · have hf : (readyplus 1 30 grant x 1).ret = false := by
        unfold append at h; by_cases hr : (readyplus 1 30 grant x 1).ret = true
        · simp [hr] at h
        · simpa using hr
      have e : append 1 30 grant x = readyplus 1 30 grant x 1 := by unfold append; simp [hf]
      rw [e]; unfold readyplus at hf ⊢
      have := rpi_fail 1 30 grant x 1 x.len hx hf
      exact ⟨this.1, by unfold storesIn; rw [this.2.1]; simp⟩
  | catb n =>
    simp only [apply]
    by_cases h : (catb grant x n).ret = true
    · exact ⟨(catb_ok grant x n hx h).1, (catb_ok grant x n hx h).2.1⟩
    · exact catb_fail grant x n hx (by simpa using h)
  | copyb n =>
    simp only [apply]
    by_cases h : (copyb grant x n).ret = true
    · exact ⟨(copyb_ok grant x n hx h).1, (copyb_ok grant x n hx h).2.1⟩
    · exact copyb_fail grant x n hx (by simpa using h)
  | setlen k =>
    simp only [apply]
    obtain ⟨h1, h2, h3⟩ := hx
    refine ⟨⟨by simp only; omega, h2, fun hn => ⟨hop, (h3 hn).2⟩⟩, by unfold storesIn; simp⟩

/-- **quote.c doit()** (the code as it is now — `quoteSignedCounters` is what the translator saw in quote.c:
unsigned counters since 26e354b) for an input of `inLen` bytes of which `esc` need a backslash, for ALL
lengths that pass the two overflow checks: every byte written is inside the `2·inLen + 2` bytes made ready,
`len` is exactly `inLen + esc + 2`, and no counter overflows. -/
theorem C20_quote_doit_sound (grant : Nat → Bool) (out : GA) (inLen esc : Nat) (hx : WF 1 out)
    (he : esc ≤ inLen) (h : (quoteDoit quoteSignedCounters grant out inLen esc).ret = true) :
    WF 1 (quoteDoit quoteSignedCounters grant out inLen esc).x ∧
    storesIn (quoteDoit quoteSignedCounters grant out inLen esc) ∧
    (quoteDoit quoteSignedCounters grant out inLen esc).x.len = inLen + esc + 2 ∧
    (quoteDoit quoteSignedCounters grant out inLen esc).ub = false := by
  have hs : quoteSignedCounters = false := by decide
  rw [hs] at h ⊢
  obtain ⟨a, b, c, d⟩ := quoteDoit_ok false grant out inLen esc hx he h
  refine ⟨a, b, c, ?_⟩
  cases hu : (quoteDoit false grant out inLen esc).ub
  · rfl
  · have := (d.1 hu).1; cases this

/-- the complement: a length for which `2·len + 2` does not fit 32 bits (len ≥ 2³¹ − 1) is refused
before the output record or any byte is touched. -/
theorem C20_quote_doit_overflow_refused (grant : Nat → Bool) (out : GA) (inLen esc : Nat)
    (h : inLen * 2 + 2 ≥ U32) :
    quoteDoit quoteSignedCounters grant out inLen esc = ⟨false, out, none, [], false⟩ :=
  quoteDoit_refused _ grant out inLen esc h

/-- **quote_need()**: every offset it reads is inside the `n` bytes it was given, and its (unsigned)
counter does not overflow for any `n`. -/
theorem C20_quote_need_reads (n : Nat) :
    (∀ i ∈ quoteNeedReads n, i < n) ∧ quoteNeedUb quoteSignedCounters n = false := by
  refine ⟨quoteNeedReads_in n, ?_⟩
  have hs : quoteSignedCounters = false := by decide
  rw [hs]; rfl

/-- **pre-26e354b (mutant model, `signedCtr = true`)**: with `int i, j` an address of 2³⁰ bytes that all
need escaping passes both overflow checks, is granted 2³¹+2 bytes, and drives `int j` beyond INT_MAX
(undefined behaviour; reproduced under UBSan on the tree before 26e354b); in general the signed counter
overflows exactly when `inLen + esc + 2 > INT_MAX`. -/
theorem C20_quote_int_overflow_pre_26e354b :
    ((quoteDoit true (fun _ => true) {} 1073741824 1073741824).ret = true ∧
     (quoteDoit true (fun _ => true) {} 1073741824 1073741824).ub = true) ∧
    (∀ (grant : Nat → Bool) (out : GA) (inLen esc : Nat), WF 1 out → esc ≤ inLen →
      (quoteDoit true grant out inLen esc).ret = true →
      ((quoteDoit true grant out inLen esc).ub = true ↔ inLen + esc + 2 > INT_MAX)) := by
  refine ⟨by decide, ?_⟩
  intro grant out inLen esc hx he h
  have := (quoteDoit_ok true grant out inLen esc hx he h).2.2.2
  simpa using this

end alloc

/-! ## (b) substdio -/

section substdio
open Nq.Substdio

/-- **output side**: for every write script (short writes, errors), `put` / `bput` / `flush` /
`putflush` keep `0 ≤ p ≤ n`, every byte_copy lies inside `x[0..n)`, and when the call succeeds the
bytes handed to the descriptor followed by the bytes still buffered are exactly what was there before
followed by the argument — nothing lost, duplicated or reordered. -/
theorem C20_substdio_out (s : OSt) (o : OOp) (h : OWF s) (hc : cpIn s) :
    OWF (oapply s o).1 ∧ cpIn (oapply s o).1 ∧ (oapply s o).1.n = s.n ∧
    ((oapply s o).2 = true → (oapply s o).1.out ++ (oapply s o).1.buf = s.out ++ s.buf ++
      (match o with | .put d => d | .bput d => d | .flush => [] | .putflush d => d)) :=
  oapply_spec s o h hc

/-- what the descriptor took is always a prefix of what it was offered (also on error) -/
theorem C20_allwrite_prefix (ws : List Nat) (b : Bytes) :
    (∃ t, b = (allwrite ws b).2.1 ++ t) ∧ ((allwrite ws b).2.2 = true → (allwrite ws b).2.1 = b) :=
  allwrite_spec ws b

/-- **input side, feed**: `n + p = size` is kept, the read and the shift stay inside the buffer, the
stream is unchanged, and the bytes announced are the buffered ones. -/
theorem C20_substdio_feed (s : ISt) (h : IWF s) :
    IWF (feed s).1 ∧ (feed s).1.size = s.size ∧ (icpIn s → icpIn (feed s).1) ∧
    (feed s).1.data ++ (feed s).1.src = s.data ++ s.src := by
  obtain ⟨⟨a, b, c⟩, d, _⟩ := feed_spec s h
  exact ⟨a, b, c, d⟩

/-- **input side, get**: at most `len` bytes are copied to the caller (so a caller buffer of `len`
bytes is never overrun), from inside `x`; they are the next bytes of the stream; end of file is
reported only when the stream is exhausted. -/
theorem C20_substdio_get (s : ISt) (len : Nat) (h : IWF s) :
    IWF (Substdio.get s len).1 ∧ (Substdio.get s len).1.size = s.size ∧ (icpIn s → icpIn (Substdio.get s len).1) ∧
    (match (Substdio.get s len).2 with
     | .got b => b.length ≤ len ∧ b ++ ((Substdio.get s len).1.data ++ (Substdio.get s len).1.src) = s.data ++ s.src ∧ (0 < len → b ≠ [])
     | .eof => (Substdio.get s len).1.data ++ (Substdio.get s len).1.src = s.data ++ s.src ∧ (Substdio.get s len).1.p = 0 ∧
               (0 < len → (Substdio.get s len).1.src = [])
     | .err => (Substdio.get s len).1.data ++ (Substdio.get s len).1.src = s.data ++ s.src) := by
  obtain ⟨⟨a, b, c⟩, d⟩ := get_spec s len h
  exact ⟨a, b, c, d⟩

/-- **stream law**: successive gets return the source bytes in order, for every read chunking; if
the loop ended at end of file the chunks are the whole stream. -/
theorem C20_substdio_in_stream (fuel : Nat) (s : ISt) (len : Nat) (h : IWF s) :
    IWF (drain fuel s len).1 ∧ (icpIn s → icpIn (drain fuel s len).1) ∧
    (drain fuel s len).2.1.flatten ++ ((drain fuel s len).1.data ++ (drain fuel s len).1.src) = s.data ++ s.src ∧
    (∀ b ∈ (drain fuel s len).2.1, b.length ≤ len) ∧
    ((drain fuel s len).2.2 = true → 0 < len → (drain fuel s len).2.1.flatten = s.data ++ s.src) :=
  drain_spec fuel s len h

end substdio

/-! ## (c) fixed buffers -/

section fixed
open Nq.FixedBuf

/-- **qmail-qmqpd `buf[1000]`**: for every declared length and every point at which the stream may end,
every store index is inside `buf`.  (The index list `qmqpdStores` is compared with what the real getbuf()
stores, case by case, by harness/c20_fixed.c — DISAGREE channel.) -/
theorem C20_qmqpd_buf (len avail : Nat) : ∀ i ∈ qmqpdStores qmqpdGuard len avail, i < qmqpdBuf := by
  intro i hi
  unfold qmqpdStores at hi
  have hg : qmqpdGuard ≤ qmqpdBuf := by decide
  have hb : 0 < qmqpdBuf := by decide
  by_cases c : len ≥ qmqpdGuard
  · rw [if_pos c] at hi
    simp only [List.mem_append] at hi
    rcases hi with hi | hi
    · by_cases c2 : min len avail > 0
      · rw [if_pos c2] at hi; simp at hi; omega
      · rw [if_neg c2] at hi; cases hi
    · by_cases c2 : avail > len
      · rw [if_pos c2] at hi; simp at hi; omega
      · rw [if_neg c2] at hi; cases hi
  · rw [if_neg c] at hi
    simp only [List.mem_append, List.mem_range] at hi
    rcases hi with hi | hi
    · have := Nat.min_le_left len avail; omega
    · by_cases c2 : avail > len
      · rw [if_pos c2] at hi; simp at hi; omega
      · rw [if_neg c2] at hi; cases hi

/-- **qmail-qmtpd `buf[1000]`, sender** -/
theorem C20_qmtpd_sender_buf (len : Nat) : ∀ i ∈ qmtpdSenderStores qmtpdSenderGuard len, i < qmtpdBuf := by
  intro i hi
  unfold qmtpdSenderStores at hi
  have hg : qmtpdSenderGuard ≤ qmtpdBuf := by decide
  have hb : 0 < qmtpdBuf := by decide
  by_cases c : len ≥ qmtpdSenderGuard
  · rw [if_pos c] at hi; simp at hi; omega
  · rw [if_neg c] at hi; exact mem_range_append_lt (by omega) hi

/-- **qmail-qmtpd `buf[1000]`, recipient**: with `len + relayclientlen < 1000` the address, its NUL
and the appended RELAYCLIENT string with its NUL all fit. -/
theorem C20_qmtpd_rcpt_buf (len rcl : Nat) (relay : Bool) :
    ∀ i ∈ qmtpdRcptStores qmtpdRcptGuard len rcl relay, i < qmtpdBuf := by
  intro i hi
  unfold qmtpdRcptStores at hi
  have hg : qmtpdRcptGuard ≤ qmtpdBuf := by decide
  by_cases c : len + rcl ≥ qmtpdRcptGuard
  · rw [if_pos c] at hi; simp at hi
  · rw [if_neg c] at hi
    simp only [List.mem_append, List.mem_range, List.mem_singleton] at hi
    rcases hi with (hi | hi) | hi
    · omega
    · omega
    · cases relay
      · simp at hi
      · simp only [if_true, List.mem_map, List.mem_range] at hi
        obtain ⟨a, ha, rfl⟩ := hi; omega

/-- **qmail-qmtpd replies**: "Kok <now> qp <pid>" fits `buf2[100]`, and the reply netstring built in
`buf` fits for every result text qmail_close() can return (at most `errstr[256]` − 1 bytes), given
that fmt_ulong writes at most 20 digits for a 64-bit value. -/
theorem C20_qmtpd_reply_bufs (d1 d2 d rl : Nat) (h1 : d1 ≤ 20) (h2 : d2 ≤ 20) (hd : d ≤ 20) (hr : rl < qqErrstr) :
    qmtpdKokLen d1 d2 ≤ qmtpdBuf2 ∧ qmtpdReplyLen d rl ≤ qmtpdBuf := by
  have e1 : qmtpdBuf2 = 100 := by decide
  have e2 : qmtpdBuf = 1000 := by decide
  have e3 : qqErrstr = 256 := by decide
  unfold qmtpdKokLen qmtpdReplyLen
  omega

/-- every result text that can reach the reply composition meets the hypothesis `rl < qqErrstr` of
`C20_qmtpd_reply_bufs`, so the reply fits `buf`: the texts of qmail_close()'s switch, its range defaults and
"crashed" text (all regenerated from qmail.c into Nq.Gen.QQClose by C07's translator), a custom text from the
queue program (at most `errMax` bytes, see `C20_qq_errstr`), and qmail-qmtpd's own two refusals (the byte
strings of the C07 model, tied by C07's correspondence).  Not covered by a generated table: the one-off
"Zqq waitpid surprise (#4.3.0)" (29 bytes). -/
theorem C20_qmtpd_reply_texts :
    (∀ t ∈ Nq.Gen.QQClose.table.map (·.2) ++ [Nq.Gen.QQClose.permText, Nq.Gen.QQClose.tempText, Nq.Gen.QQClose.crashedText,
        Nq.Netstring.Qmtp.sUnacceptable, Nq.Netstring.Qmtp.sTooBig],
      t.length < qqErrstr ∧ qmtpdReplyLen 20 t.length ≤ qmtpdBuf) ∧
    Nq.Gen.QQClose.errMax < qqErrstr ∧ Nq.Gen.QQClose.errMax = qqErrGuard := by
  refine ⟨?_, by decide, by decide⟩
  have h : ((Nq.Gen.QQClose.table.map (·.2) ++ [Nq.Gen.QQClose.permText, Nq.Gen.QQClose.tempText, Nq.Gen.QQClose.crashedText,
        Nq.Netstring.Qmtp.sUnacceptable, Nq.Netstring.Qmtp.sTooBig]).all
      (fun t => decide (t.length < qqErrstr) && decide (qmtpdReplyLen 20 t.length ≤ qmtpdBuf))) = true := by decide
  intro t ht
  have := List.all_eq_true.mp h t ht
  simpa using this

/-- **qmail-getpw `username[32]`** -/
theorem C20_getpw_username (k : Nat) : ∀ i ∈ getpwStores getpwGuard k, i < getpwUserlen := by
  intro i hi
  unfold getpwStores at hi
  have hg : getpwGuard ≤ getpwUserlen := by decide
  by_cases c : k < getpwGuard
  · rw [if_pos c] at hi; exact mem_range_append_lt (by omega) hi
  · rw [if_neg c] at hi; simp at hi

/-- **userext() as a whole**: for every local part, every copy the backwards scan performs (`getpwProbes`:
the positions where the NUL or a break character stands and `extension - local < sizeof(username)`) stays
inside `username`; positions at or beyond the buffer size are skipped, never truncated into it. -/
theorem C20_getpw_userext (brk : Byte) (loc : Bytes) :
    ∀ k ∈ getpwProbes getpwGuard brk loc, k < getpwUserlen ∧ k ≤ loc.length ∧
      ∀ i ∈ getpwStores getpwGuard k, i < getpwUserlen := by
  intro k hk
  unfold getpwProbes at hk
  simp only [List.mem_filter, List.mem_reverse, List.mem_range, Bool.and_eq_true, decide_eq_true_eq] at hk
  have hg : getpwGuard ≤ getpwUserlen := by decide
  exact ⟨by omega, by omega, C20_getpw_username k⟩

/-- **qmail.c `errstr[256]`**: however many bytes the queue program writes on descriptor 6, every
store (the bytes read and the final NUL) is inside `errstr`. -/
theorem C20_qq_errstr (avail : Nat) :
    (∀ i ∈ errstrStores qqErrGuard avail, i < qqErrstr) ∧ (errstrLoop qqErrGuard avail 0).2 ≤ qqErrGuard := by
  refine ⟨?_, (errstrLoop_bound qqErrGuard avail 0 (Nat.zero_le _)).2⟩
  intro i hi
  unfold errstrStores at hi
  have hg : qqErrGuard < qqErrstr := by decide
  obtain ⟨b1, b2⟩ := errstrLoop_bound qqErrGuard avail 0 (Nat.zero_le _)
  simp only [List.mem_append, List.mem_singleton] at hi
  rcases hi with hi | hi
  · have := b1 i hi; omega
  · omega

/-- **spawn.c slots** (a statement about the C18 model `Nq.Spawn.docmd`, tied to spawn.c by C18's harness): a delivery is started only in a slot `< auto_spawn` (the `d[]` array has
`auto_spawn + 10` elements) that was free, and `read(…,inbuf,128)` asks for no more than `inbuf` holds. -/
theorem C20_spawn_slot (st : Nq.Spawn.St) :
    (∀ slot s r a, Nq.Spawn.Ev.spawnCall slot s r a ∈ (Nq.Spawn.docmd st).2 →
        slot < Nq.Gen.auto_spawn ∧ slot < Nq.Gen.auto_spawn + spawnExtra ∧ Nq.Spawn.slotUsed st.slots slot = false) ∧
    ((Nq.Spawn.docmd st).1.slots ≠ st.slots → st.delnum < Nq.Gen.auto_spawn) ∧
    spawnRead ≤ spawnInbuf := by
  refine ⟨?_, ?_, by decide⟩
  · intro slot s r a hm
    rcases Nq.Lemmas.SpawnL.docmd_cases st with ⟨t, _, e⟩ | ⟨hc, j, _, h⟩
    · rw [e] at hm; simp at hm
    · rcases h with ⟨t, e, _⟩ | ⟨_, e⟩ | ⟨_, e⟩
      · rw [e] at hm; simp at hm
      · rw [e] at hm; simp at hm
        obtain ⟨rfl, _⟩ := hm; exact ⟨hc.1, by have := hc.1; omega, hc.2.1⟩
      · rw [e] at hm; simp at hm
        obtain ⟨rfl, _⟩ := hm; exact ⟨hc.1, by have := hc.1; omega, hc.2.1⟩
  · intro hne
    rcases Nq.Lemmas.SpawnL.docmd_cases st with ⟨t, _, e⟩ | ⟨hc, j, _, h⟩
    · rw [e] at hne; exact absurd rfl hne
    · exact hc.1

/-- **qmail-lspawn report truncation** (`truncreport = 3000 > 100`; C18 model `Nq.Spawn.accumulate`): after any
chunk the accumulated child output is at most `truncreport` bytes (whatever it was before), and when the cut
happens it only *lowers* `output.len` (the shortened length lies inside the block already filled). -/
theorem C20_lspawn_truncreport (out chunk : Bytes) :
    (Nq.Spawn.accumulate .l out chunk).length ≤ Nq.Spawn.truncreport .l ∧
    ((out ++ chunk).length > Nq.Spawn.truncreport .l →
      Nq.Spawn.truncreport .l - Nq.Gen.SpawnTexts.TRUNCMESS.length - Nq.Gen.SpawnTexts.TRUNC_SLACK ≤ (out ++ chunk).length ∧
      (Nq.Spawn.accumulate .l out chunk).length = Nq.Spawn.truncreport .l - Nq.Gen.SpawnTexts.TRUNC_SLACK) := by
  unfold Nq.Spawn.accumulate
  have e1 : Nq.Gen.SpawnTexts.TRUNCMESS.length = 31 := by decide
  have e2 : Nq.Gen.SpawnTexts.TRUNC_SLACK = 3 := by decide
  have e3 : Nq.Gen.SpawnTexts.TRUNC_MIN = 100 := by decide
  have e4 : Nq.Spawn.truncreport .l = 3000 := by decide
  simp only
  by_cases c : Nq.Spawn.truncreport .l > Nq.Gen.SpawnTexts.TRUNC_MIN ∧ (out ++ chunk).length > Nq.Spawn.truncreport .l
  · rw [if_pos c]
    simp only [List.length_append, List.length_take] at c ⊢
    omega
  · rw [if_neg c]
    have : ¬ (out ++ chunk).length > Nq.Spawn.truncreport .l := fun h => c ⟨by omega, h⟩
    exact ⟨by omega, fun h => absurd h this⟩

/-- hence for every sequence of chunks read from the child, starting from the empty output -/
theorem C20_lspawn_output_bounded (chunks : List Bytes) :
    (chunks.foldl (Nq.Spawn.accumulate .l) []).length ≤ Nq.Spawn.truncreport .l := by
  suffices h : ∀ out : Bytes, out.length ≤ Nq.Spawn.truncreport .l →
      (chunks.foldl (Nq.Spawn.accumulate .l) out).length ≤ Nq.Spawn.truncreport .l from h [] (Nat.zero_le _)
  induction chunks with
  | nil => intro out h; exact h
  | cons c r ih => intro out _; exact ih _ (C20_lspawn_truncreport out c).1

/-- **qmail-rspawn has no truncation** (`truncreport = 0`, the `> 100` test is false): the child's output is kept
whole, so it is bounded only by memory — growth goes through `stralloc_readyplus` (`C20_readyplus_sound`:
refusal, not corruption, when it cannot grow).  This is exhaustion by a trusted child, not a bounds matter. -/
theorem C20_rspawn_output_unbounded (out chunk : Bytes) : Nq.Spawn.accumulate .r out chunk = out ++ chunk := by
  unfold Nq.Spawn.accumulate
  have : ¬ (Nq.Spawn.truncreport .r > Nq.Gen.SpawnTexts.TRUNC_MIN ∧ (out ++ chunk).length > Nq.Spawn.truncreport .r) := by
    intro h; have : Nq.Spawn.truncreport .r = 0 := by decide
    have e3 : Nq.Gen.SpawnTexts.TRUNC_MIN = 100 := by decide
    omega
  simp only
  rw [if_neg this]

/- qmail-send REPORTMAX: `dline[c].len ≤ REPORTMAX` for every report stream is `Nq.Props.C18.C18_send_bound`
   (over `Nq.SendReport.feed`); it is cited, not restated, here. -/

/-- **qmail-pop3d msgno()** (a statement about the C19 model `Nq.Pop3.msgno`, tied to qmail-pop3d.c by C19's harness): an accepted message number is an index `< numm` that fits `int`. -/
theorem C20_pop3_msgno (s : Nq.Pop3.Sess) (arg : Bytes) (i : Nat) (h : Nq.Pop3.msgno s arg = .ok i) :
    i < s.msgs.length ∧ i < Nq.Pop3.INT_MAX := by
  unfold Nq.Pop3.msgno at h
  generalize Nq.Pop3.scanUlong arg = r at h
  obtain ⟨u, pos⟩ := r
  simp only at h
  split at h
  · cases h
  · split at h
    · cases h
    · split at h
      · cases h
      · rename_i hb
        split at h
        · split at h
          · cases h
          · cases h; omega
        · cases h

/-! ### length caps -/

/-- **netstring length cap** (qmail-qmtpd getlen(), model `Nq.Netstring.getlen` of C07): for EVERY byte stream a
length that getlen() returns is at most `10·200000000 + 9 = 2000000009 < 2³¹`, so the `int i` counters that
the callers compare with the `unsigned long len` (`for (i = 0;i < len;++i)`) cannot overflow; larger
declarations end in `resources()` / `badproto()`.  The cap is the constant in the source (both translators agree). -/
theorem C20_qmtpd_getlen_cap (inp rest : Bytes) (v : Nat) (h : Nq.Netstring.getlen qmtpdLenCap 0 inp = .ok v rest) :
    v ≤ qmtpdLenCap * 10 + 9 ∧ v < 2147483648 ∧ qmtpdLenCap = Nq.Gen.C07.qmtpLenMax := by
  have := qmtp_getlen_le qmtpdLenCap inp 0 v rest (Nat.zero_le _) h
  have e : qmtpdLenCap = 200000000 := by decide
  exact ⟨this, by omega, by decide⟩

/-- the same for qmail-qmqpd getlen() (on getbyte / bytesleft), model `Nq.Netstring.Qmqp.getlen` -/
theorem C20_qmqpd_getlen_cap (bl : Nat) (inp rest : Bytes) (v bl' : Nat)
    (h : Nq.Netstring.Qmqp.getlen qmqpdLenCap bl 0 inp = .ok (v, bl') rest) :
    v ≤ qmqpdLenCap * 10 + 9 ∧ v < 2147483648 ∧ qmqpdLenCap = Nq.Gen.C07.qmqpLenMax := by
  have := qmqp_getlen_le qmqpdLenCap bl inp 0 v bl' rest (Nat.zero_le _) h
  have e : qmqpdLenCap = 200000000 := by decide
  exact ⟨this, by omega, by decide⟩

/-- **smtptext cap** (qmail-remote.c get(): CR dropped, appended only while `smtptext.len < HUGESMTPTEXT`): for
every reply stream the accumulated text never exceeds HUGESMTPTEXT bytes, and the byte-by-byte accumulation is
exactly the `textOf` of the C09 model (which C09's harness compares with the real smtpcode()). -/
theorem C20_smtptext_cap (raw : Bytes) :
    (raw.foldl (smtptextStep Nq.Gen.HUGESMTPTEXT) []).length ≤ Nq.Gen.HUGESMTPTEXT ∧
    raw.foldl (smtptextStep Nq.Gen.HUGESMTPTEXT) [] = Nq.RemoteSmtp.textOf raw := by
  refine ⟨smtptext_fold_le _ raw [] (Nat.zero_le _), ?_⟩
  rw [smtptext_fold_eq _ raw [] (Nat.zero_le _)]
  simp [Nq.RemoteSmtp.textOf]

end fixed

/-! ## (d) dns.c -/

section dns
open Nq.Dns

/-- **findname / findip / findmx** (the code as it is now, `fixed` = what the translator saw in
dns.c): for every response, every position inside it and every `dn_expand` that honours its contract,
each byte dns.c reads is inside the response, each offset passed to dn_expand is at most its end, and
`responsepos` does not pass `responseend`. -/
theorem C20_dns_find_in_bounds (k : Kind) (resp : Bytes) (dn : Nat → Option Nat) (want : Nat) (st : St)
    (hp : st.pos ≤ resp.length) (hdn : DnOk resp dn) :
    StepIn resp (find k dnsRdataChecked resp dn want st) := by
  have : dnsRdataChecked = true := by decide
  rw [this]; exact (find_in k resp dn want st hp hdn).1

/-- the whole answer loop of dns_ptr / dns_ip / dns_mxip, for any number of records -/
theorem C20_dns_walk_in_bounds (k : Kind) (resp : Bytes) (dn : Nat → Option Nat) (want fuel : Nat) (st : St)
    (hp : st.pos ≤ resp.length) (hdn : DnOk resp dn) :
    ∀ s ∈ walk k dnsRdataChecked resp dn want fuel st, StepIn resp s := by
  have : dnsRdataChecked = true := by decide
  rw [this]; exact walk_in k resp dn want fuel st hp hdn

/-- the loop ends (2 or DNS_SOFT) after at most `numanswers + 1` calls -/
theorem C20_dns_walk_terminates (k : Kind) (resp : Bytes) (dn : Nat → Option Nat) (want fuel : Nat) (st : St)
    (hp : st.pos ≤ resp.length) (hdn : DnOk resp dn) (hf : st.num < fuel) :
    ∃ s, (walk k true resp dn want fuel st).getLast? = some s ∧ (s.r = .soft ∨ s.r = .done) :=
  walk_ends k resp dn want fuel st hp hdn hf

/-- the question-section walk of resolve() leaves `responsepos ≤ responseend` -/
theorem C20_dns_questions_in_bounds (resp : Bytes) (dn : Nat → Option Nat) (hl : HFIXEDSZ ≤ resp.length)
    (hdn : DnOk resp dn) :
    (resolve resp dn).2.pos ≤ resp.length ∧ ∀ p ∈ (resolve resp dn).1.dns, p ≤ resp.length := by
  unfold resolve
  exact questions_in resp dn _ _ hl hdn

/-- **the defect repaired by 367ee1b, kept as a theorem about the old code**: without the comparison
of RDLENGTH with the bytes left, a 23-byte response that ends right after an A record header makes
findip read offsets 23..26 — beyond the response. -/
theorem C20_dns_prefix_overread :
    ((find .ip false [0,0,0,0, 0,0,0,1, 0,0,0,0,  0,  0,1, 0,1, 0,0,0,0, 0,4]
        (fun p => if p = 12 then some 1 else none) 1 ⟨12, 1⟩).reads.any (· ≥ 23)) = true ∧
    StepIn [0,0,0,0, 0,0,0,1, 0,0,0,0,  0,  0,1, 0,1, 0,0,0,0, 0,4]
      (find .ip true [0,0,0,0, 0,0,0,1, 0,0,0,0,  0,  0,1, 0,1, 0,0,0,0, 0,4]
        (fun p => if p = 12 then some 1 else none) 1 ⟨12, 1⟩) := by
  decide

end dns

/-! ## (e) cdb reader -/

section cdb
open Nq.Users

/-- **cdb_seek on any file (corrupt, truncated, hostile)**: a record is reported only after its 8-byte
header and its whole key were read from inside the file — every offset taken from the file is validated by
the read that follows it (a short read is an error), there is no in-memory index. -/
theorem C20_cdb_seek_in_file (f key : Bytes) (dpos dlen : Nat) (h : cdbSeek f key = .found dpos dlen) :
    dpos ≤ f.length ∧ key.length + 8 ≤ dpos :=
  cdbSeek_in f key dpos dlen h

/-- the data handed to the caller is a slice of the file of exactly the claimed length, or the lookup
fails (`cdb_bread` short ⇒ error): a lying `dlen` cannot make the reader return bytes from elsewhere. -/
theorem C20_cdb_get_slice (f key d : Bytes) (h : cdbGet f key = .found d) :
    ∃ dpos, dpos ≤ f.length ∧ d = (f.drop dpos).take d.length ∧ dpos + d.length ≤ f.length := by
  unfold cdbGet at h
  split at h
  · rename_i dpos dlen hs
    simp only at h
    by_cases c : ((f.drop dpos).take dlen).length = dlen
    · rw [if_pos c] at h
      cases h
      refine ⟨dpos, (cdbSeek_in f key dpos dlen hs).1, by rw [c], ?_⟩
      simp only [List.length_take, List.length_drop] at c ⊢
      have := (cdbSeek_in f key dpos dlen hs).1
      omega
    · rw [if_neg c] at h; cases h
  · cases h
  · cases h

end cdb

/-! ## (f) token822.c: count, allocate, fill -/

section tok
open Nq.TokPass

/-- **token822_parse, pass 1 counts = pass 2 stores, for every field.**  When the counting pass returns
`(numtoks, numchars)` (i.e. does not `return 0`), the filling pass — which has no bounds test of its own inside
`( )`, `" "`, `[ ]` and never compares `t` / `cbuf` with the allocated sizes — ends with exactly `numtoks` tokens
and `numchars` buffer bytes, never reads `sa->s[salen]`, stores only to `ta->t[k]` with `k < numtoks` and to
`buf->s[j]` with `j < numchars` (atomcheck() reads only such `j`), and its buffer stores are `0,1,…,numchars-1`
in this order, each exactly once. -/
theorem C20_tok_parse_two_pass (s : Bytes) (nt nc : Nat) (h : pass1 s = some (nt, nc)) :
    (pass2 s).t = nt ∧ (pass2 s).cb = nc ∧ (pass2 s).oob = false ∧
    (∀ e ∈ (pass2 s).ev, e.ok nt nc) ∧ bufStores (pass2 s).ev = List.range nc := by
  obtain ⟨a1, a2, a3, _, _, a6⟩ := run_sim s .top 0 0 0 nt nc h
  refine ⟨a1, a2, a3, a6, ?_⟩
  have := (run2_buf s .top 0 0 0).1
  unfold pass2
  rw [this, a2, List.range_eq_range']
  simp

/-- complement: the hypothesis is what protects pass 2.  Pass 2 on its own is NOT safe — on the field `(` (which
pass 1 refuses: `return 0` before anything is allocated) it would read `sa->s[1]` of a one-byte field. -/
theorem C20_tok_parse_pass2_needs_pass1 :
    pass1 [LPAR] = none ∧ (pass2 [LPAR]).oob = true := by decide

open Nq.TokFill in
/-- **token822_unparse, for every token array (any types, any bytes) and every `linelen`**: every offset the second
walk stores to or reads back — including the NSUW folding macro, which writes two bytes ahead of the cursor and
shifts the line back over a tentative fold — is below the length the first walk computed and handed to
`stralloc_ready`; the final `sa->len` is below it too (and ≥ 1: the `--s` never leaves the block). -/
theorem C20_tok_unparse_within_count (linelen : Nat) (ts : List Tk) :
    (∀ i ∈ (unparseFill linelen ts).ix, i.idx < ulen1 ts) ∧
    (unparseFill linelen ts).len < ulen1 ts ∧ 1 ≤ (unparseFill linelen ts).len := by
  have c0 : CurOk ⟨0, 0, none⟩ := ⟨Nat.le_refl _, by intro le h; cases h⟩
  obtain ⟨a1, a2, a3⟩ := toksFill_spec linelen ts 0 ⟨0, 0, none⟩ c0 0 (Nat.le_refl _)
  obtain ⟨_, _, n3, n4, n5⟩ := nsuw_spec linelen _ a1
  simp only [unparseFill, ulen1]
  refine ⟨?_, by omega, by omega⟩
  intro i hi
  rcases List.mem_append.1 hi with hi | hi
  · have := a3 i hi; omega
  · have := n5 i hi; omega

open Nq.TokFill in
/-- **token822_unquote**: the second walk stores to exactly the offsets `0 … len-1` the first walk counted, in order. -/
theorem C20_tok_unquote_exact (ts : List Tk) :
    (qFill ts 0).1 = qlen1 ts ∧ (qFill ts 0).2 = (List.range (qlen1 ts)).map Ix.st := by
  obtain ⟨a, b⟩ := qFill_spec ts 0
  refine ⟨by omega, ?_⟩
  rw [b, List.range_eq_range']

-- non-vacuity: `a@"b" (c\))` is accepted by pass 1 with 4 tokens / 4 bytes; a folded address list
example : pass1 [97, 64, 34, 98, 34, 32, 40, 99, 92, 41, 41] = some (4, 4) := by decide
open Nq.TokFill in
example : ulen1 [⟨ATOM, [97]⟩, ⟨COMMA, []⟩, ⟨QUOTE, [34]⟩, ⟨COMMA, []⟩, ⟨ATOM, [98]⟩] = 16 ∧
    (unparseFill 3 [⟨ATOM, [97]⟩, ⟨COMMA, []⟩, ⟨QUOTE, [34]⟩, ⟨COMMA, []⟩, ⟨ATOM, [98]⟩]).len = 15 ∧
    (unparseFill 0 [⟨ATOM, [97]⟩, ⟨COMMA, []⟩, ⟨QUOTE, [34]⟩, ⟨COMMA, []⟩, ⟨ATOM, [98]⟩]).len = 11 := by decide
open Nq.TokFill in
example : qlen1 [⟨LITERAL, [49]⟩, ⟨COMMENT, [120]⟩, ⟨TAT, []⟩] = 4 := by decide

end tok

/-! ## (g) qmail-local.c main(): count the forward lines, calloc, fill `recips[]` -/

section localpass
open Nq.LocalPass

/-- **qmail-local, for every content of the .qmail file (or of `aliasempty`), both values of the x bit, -n or not, and
every outcome of the mbox / maildir / program deliveries on the way**: pass 2 stores `recips[0], recips[1], …` in
order, never more than pass 1 counted, so every index stored to — including the terminating `recips[numforward] = 0`
— is inside the `numforward + 1` pointers that were allocated; the program's own `count_forward` (which also counts
with -n, where nothing is stored) obeys the same bound.  Pass 1 looks at the first byte of the raw line, pass 2 at
the first byte after the line was cut and its trailing blanks were overwritten: the bound is an inequality (next
theorem), not an identity. -/
theorem C20_local_two_pass (doit : Bool) (env : Nat → Bool) (ffo : Bool) (cmds : Bytes) :
    (∀ k ∈ allStores doit (pass2 doit env ffo cmds), k < pass1 cmds + 1) ∧
    (pass2 doit env ffo cmds).stores = List.range (pass2 doit env ffo cmds).nf ∧
    (pass2 doit env ffo cmds).nf ≤ pass1 cmds ∧ (pass2 doit env ffo cmds).cf ≤ pass1 cmds := by
  obtain ⟨a, b, _, d⟩ := run2_bound doit env cmds [] true 0 0 0 ffo
  simp only [List.head?_nil, Nat.zero_add, Nat.sub_zero] at a b d
  have hb : (pass2 doit env ffo cmds).stores = List.range (pass2 doit env ffo cmds).nf := by
    unfold pass2; rw [b, List.range_eq_range']
  refine ⟨?_, hb, a, d⟩
  intro k hk
  unfold allStores at hk
  rcases List.mem_append.1 hk with hk | hk
  · rw [hb] at hk
    have := List.mem_range.1 hk
    unfold pass1 pass2 at *
    omega
  · split at hk
    · simp at hk; subst hk; unfold pass1 pass2 at *; omega
    · cases hk

/-- the count is an upper bound only: an all-blank line is counted by pass 1 (its first byte is a blank) and skipped
by pass 2 (its first byte has become NUL) — one pointer of the array stays unused -/
theorem C20_local_pass1_overcounts :
    pass1 [97, 10, 32, 10] = 2 ∧ (pass2 true (fun _ => false) false [97, 10, 32, 10]).nf = 1 := by decide

-- non-vacuity: "a@b\n \n#c\n&d\n+list\n" : four lines counted, two stored (indices 0, 1), terminator at 2
example : pass1 [97, 64, 98, 10, 32, 10, 35, 99, 10, 38, 100, 10, 43, 108, 105, 115, 116, 10] = 4 ∧
    allStores true (pass2 true (fun _ => false) false [97, 64, 98, 10, 32, 10, 35, 99, 10, 38, 100, 10, 43, 108, 105, 115, 116, 10]) = [0, 1, 2] := by
  decide
-- "+list" then a program line: the run dies before anything is stored
example : (pass2 true (fun _ => false) false [43, 108, 105, 115, 116, 10, 124, 112, 10, 97, 10]).exit = .die := by decide

end localpass

/-! ## (h) getln2.c / getln.c / byte_chr.c -/

section getln
open Nq.Getln Nq.Substdio Nq.Stralloc

/-- **getln2, for every stream, every read chunking (script), every allocator behaviour, every separator and every
well-formed starting state**: every offset `byte_chr` dereferences is inside the substdio buffer; a returned slice
`[*cont, *cont + *clen)` lies inside the buffer (`*clen = 0` at end of input); every `substdio_get` into the line buffer
copies to `sa->s[start .. start+count)` with `start + count ≤ sa->a` as it is at that moment (what
`stralloc_readyplus(sa,n)` just guaranteed); the substdio invariant `n + p = size` and the stralloc invariant survive,
whether the call succeeds or fails.  Hypothesis `size < 2³²`: `substdio.n` is a C `int`, a larger buffer cannot be
described at all. -/
theorem C20_getln2_in_bounds (grant : Nat → Bool) (sep : Byte) (g : GSt)
    (hi : IWF g.ss) (hw : WF 1 g.sa) (hs : g.ss.size < Stralloc.U32) :
    IWF (getln2 grant sep g).st.ss ∧ (getln2 grant sep g).st.ss.size = g.ss.size ∧ WF 1 (getln2 grant sep g).st.sa ∧
    (∀ j ∈ (getln2 grant sep g).rd, j < g.ss.size) ∧
    (∀ e ∈ (getln2 grant sep g).sast, e.1 + e.2.1 ≤ e.2.2) ∧
    ((getln2 grant sep g).ret = true → (getln2 grant sep g).cont + (getln2 grant sep g).clen ≤ g.ss.size) := by
  unfold getln2
  by_cases hr : (ready 1 30 grant g.sa 0).ret = true
  · rw [if_pos hr]
    obtain ⟨r1, r2, _⟩ := rpi_ok 1 30 grant g.sa 0 0 hw (by decide) hr
    change WF 1 (ready 1 30 grant g.sa 0).x at r1
    change (ready 1 30 grant g.sa 0).x.nonnull = true at r2
    have hw0 : WF 1 { (ready 1 30 grant g.sa 0).x with len := 0 } :=
      ⟨by show 0 < Stralloc.U32; decide, r1.2.1, fun _ => ⟨Nat.zero_le _, (r1.2.2 r2).2⟩⟩
    have := loop_good grant sep g.ss.size hs (g.ss.data.length + g.ss.src.length + 2)
      ⟨g.ss, { (ready 1 30 grant g.sa 0).x with len := 0 }⟩ [] [] hi rfl hw0 r2
      (by intro j h; cases h) (by intro e h; cases h)
    exact ⟨this.iwf, this.size, this.wf, this.rd, this.sast, this.cont⟩
  · rw [if_neg hr]
    have hr' : (readyplusInternal 1 30 grant g.sa 0 0).ret = false := by simpa [ready] using hr
    have := rpi_fail 1 30 grant g.sa 0 0 hw hr'
    refine ⟨hi, rfl, this.1, ?_, ?_, ?_⟩
    · intro j h; cases h
    · intro e h; cases h
    · intro h; cases h

/-- **getln**: when it goes on to `stralloc_catb(sa,cont,clen)`, the `clen` bytes it copies FROM lie inside the substdio
buffer and the record it copies TO is well-formed, so `C20_catb_sound` applies to the copy. -/
theorem C20_getln_copy_in_bounds (grant : Nat → Bool) (sep : Byte) (g : GSt)
    (hi : IWF g.ss) (hw : WF 1 g.sa) (hs : g.ss.size < Stralloc.U32) (out : Out)
    (h : (getln grant sep g).2 = some out) :
    (getln grant sep g).1.cont + (getln grant sep g).1.clen ≤ g.ss.size ∧
    (out.ret = true → WF 1 out.x ∧ storesIn out ∧ out.x.len < out.x.a) := by
  obtain ⟨_, _, a3, _, _, a6⟩ := C20_getln2_in_bounds grant sep g hi hw hs
  unfold getln at h ⊢
  by_cases hc : ((getln2 grant sep g).ret && decide ((getln2 grant sep g).clen ≠ 0)) = true
  · rw [if_pos hc] at h ⊢
    simp only [Option.some.injEq] at h
    subst h
    simp only [Bool.and_eq_true] at hc
    refine ⟨a6 hc.1, fun hret => ?_⟩
    obtain ⟨c1, c2, _, c4⟩ := C20_catb_sound grant _ _ a3 hret
    exact ⟨c1, c2, c4⟩
  · rw [if_neg hc] at h; cases h

-- non-vacuity: a 4-byte buffer, the stream "ab\ncd" delivered 3 bytes at a time: first call returns the slice at
-- offset 1 of length 3 with nothing copied; the second call reaches end of input with "cd" in the line buffer
example : IWF { size := 4, n := 4, src := [97, 98, 10, 99, 100], rs := [3, 3, 3] } ∧
    ((getln2 (fun _ => true) 10 ⟨{ size := 4, n := 4, src := [97, 98, 10, 99, 100], rs := [3, 3, 3] }, {}⟩).cont,
     (getln2 (fun _ => true) 10 ⟨{ size := 4, n := 4, src := [97, 98, 10, 99, 100], rs := [3, 3, 3] }, {}⟩).clen) = (1, 3) := by
  decide

end getln

/-! ## non-vacuity -/

open Nq.Stralloc in
example : WF 1 {} ∧ (catb (fun n => n ≤ 1000) {} 5).ret = true ∧ (catb (fun n => n ≤ 1000) {} 5).x = ⟨true, 5, 6, 6⟩ := by decide
open Nq.Stralloc in
example : (catb (fun _ => true) ⟨true, 4294967290, 4294967295, 4294967295⟩ 10).ret = false := by decide
open Nq.Stralloc in
example : (readyplusInternal 16 10 (fun _ => true) ⟨true, 0, 1, 16⟩ 268435455 0).ret = false := by decide
open Nq.Substdio in
example : OWF ⟨4, 0, [], [], [1, 0], []⟩ ∧ (put ⟨4, 0, [], [], [], []⟩ [1, 2, 3, 4, 5, 6]).1.out = [1, 2, 3, 4, 5, 6] := by decide
open Nq.Substdio in
example : (drain 10 ⟨3, 3, 0, [], [1, 2, 3, 4, 5], [2, 1], []⟩ 2).2.1.flatten = [1, 2, 3, 4, 5] := by decide
open Nq.Dns in
example : DnOk [0,0,0,0, 0,0,0,1, 0,0,0,0, 0, 0,1, 0,1, 0,0,0,0, 0,4, 1,2,3,4] (fun p => if p = 12 then some 1 else none) ∧
    (find .ip true [0,0,0,0, 0,0,0,1, 0,0,0,0, 0, 0,1, 0,1, 0,0,0,0, 0,4, 1,2,3,4] (fun p => if p = 12 then some 1 else none) 1 ⟨12, 1⟩).r = .ip 1 2 3 4 := by
  constructor
  · intro p i h; by_cases c : p = 12 <;> simp [c] at h; subst h; subst c; decide
  · decide

end Nq.Props.C20
