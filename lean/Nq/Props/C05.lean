/-
  C05 — Inbound SMTP DATA is decoded transparently and framed only by CR LF . CR LF.

  Model: `Nq.SmtpIn.dblast` (the five-state automaton of qmail-smtpd.c `blast()`), tied to the
  source by the exhaustive differential harness `harness/c05_blast.c`.
-/
import Nq.Lemmas.SmtpFraming
import Nq.Lemmas.SmtpSim
import Nq.Lemmas.HopCount

namespace Nq.Props.C05
open Nq Nq.SmtpIn Nq.SmtpRef Nq.SmtpOut Nq.Wire Nq.Lemmas

/-- The automaton **is** the line-based RFC 5321 decoder, for every byte stream: same verdict,
same stored bytes, same unread remainder (which the caller then parses as the next command). -/
theorem C05_spec (inp : Bytes) : dblast inp = rfcDecode inp := dblast_eq_rfcDecode inp

/-- **Framing.** The message is accepted exactly when the stream is a sequence of CR LF-terminated
lines, none of them containing a LF or consisting of a single dot, followed by `.` CR LF; the
stored body is those lines with one leading dot removed and LF as terminator, and `rest` is
everything after the terminator. -/
theorem C05_framing (inp body rest : Bytes) :
    dblast inp = .accepted body rest ↔
    ∃ ls : List Bytes, inp = joinWith [CR, LF] ls ++ [DOT, CR, LF] ++ rest ∧ (∀ l ∈ ls, LF ∉ l ∧ l ≠ [DOT]) ∧
      body = joinWith [LF] (ls.map unstuff) := by
  rw [C05_spec]
  constructor
  · exact rfcDecode_framing_mp inp body rest
  · rintro ⟨ls, rfl, h2, rfl⟩
    exact rfcDecode_framing_mpr ls rest h2

/-- **A bare LF is never accepted**: whenever a message is accepted, the bytes consumed contain no
LF that is not preceded by CR. -/
theorem C05_barelf (inp body rest : Bytes) (h : dblast inp = .accepted body rest) :
    ∃ used, inp = used ++ rest ∧ noBareLF used = true := by
  obtain ⟨ls, e1, e2, _⟩ := (C05_framing inp body rest).1 h
  refine ⟨joinWith [CR, LF] ls ++ [DOT, CR, LF], by simp [e1], ?_⟩
  unfold noBareLF
  rcases noBareLF_join ls 0 [DOT, CR, LF] (fun l hl => (e2 l hl).1) with h | h
  · rw [h]; simp [noBareLFGo, CR, LF, DOT]
  · subst h; simp [joinWith, noBareLFGo, CR, LF, DOT]

/-- …and conversely a LF not preceded by CR, anywhere before the terminator, makes the server
refuse the session (451, nothing is queued). -/
theorem C05_barelf_refused (ls : List Bytes) (l post : Bytes) (hls : ∀ x ∈ ls, LF ∉ x ∧ x ≠ [DOT])
    (h1 : LF ∉ l) (h2 : l.getLast? ≠ some CR) :
    dblast (joinWith [CR, LF] ls ++ (l ++ LF :: post)) = .stray := by
  rw [C05_spec, rfcDecode_lines ls _ hls, rfcDecode_bare l post h1 h2]
  simp [emit]

/-- **Round trip with any conforming sender**: a message of complete lines, encoded as RFC 5321
prescribes, decodes to exactly the original — including messages that contain CR bytes — and the
bytes that follow are left for the command parser. -/
theorem C05_roundtrip (m rest : Bytes) (h : completeLines m) :
    dblast (rfcEncode m ++ rest) = .accepted m rest := by
  have := sim_ref rest m true .s1 (by simp [relE]) (fun _ => rfl)
    (fun hne => by rcases h with h | h; exact absurd h hne; exact h)
  simpa [dblast, rfcEncode, pend, emit] using this

/-- **Round trip with this package's own client** (qmail-remote): -/
theorem C05_roundtrip_remote (m e rest : Bytes) (h : rblast m = some e) :
    dblast (e ++ rest) = .accepted (canon m) rest := by
  have := sim rest m .top .s1 e (by simp [rel]) h
  simpa [dblast, pend, cst, canon, emit] using this

/-! ### The hop counter that runs over the same bytes -/

/-- **C05_hops.**  The `pos / flagmaybex / flagmaybey / flagmaybez / flaginheader` scanner inside `blast()`
(`hstep`, folded over the bytes `blast()` reads: `hopsOf`) computes, **for every byte stream**, the line-based
hop count `HopCount.hopSpec`: the number of lines (pieces between LFs, the unterminated last piece included)
before the first empty line (CR alone) whose first 8 bytes are `received` or whose first 9 bytes are
`delivered`, ignoring ASCII case. -/
theorem C05_hops (consumed : Bytes) : hopsOf consumed = Nq.HopCount.hopSpec consumed :=
  Nq.Lemmas.HopCount.hopsOf_eq_hopSpec consumed

/-- the scanner is a fold: what it reports for an accepted message is the count over exactly the bytes
`blast()` consumed (everything up to and including the terminating `.` CR LF), and the bytes of the next
command do not influence it -/
theorem C05_hops_accepted (inp body rest : Bytes) (h : dblast inp = .accepted body rest) :
    ∃ used, inp = used ++ rest ∧ inp.take (inp.length - rest.length) = used ∧
      hopsOf (inp.take (inp.length - rest.length)) = Nq.HopCount.hopSpec used := by
  obtain ⟨used, e, _⟩ := C05_barelf inp body rest h
  refine ⟨used, e, ?_, ?_⟩
  · rw [e]; simp
  · rw [C05_hops, e]; simp

/-- once the header is over (first empty line) nothing is counted any more, whatever follows -/
theorem C05_hops_body (hdr body : Bytes) (h : LF ∉ hdr ∨ True) :
    Nq.HopCount.hopSpec (hdr ++ [LF, CR, LF] ++ body) = Nq.HopCount.hopSpec (hdr ++ [LF, CR, LF]) := by
  rw [← C05_hops, ← C05_hops]
  have e : hdr ++ [LF, CR, LF] ++ body = (hdr ++ [LF, CR, LF]) ++ body := rfl
  rw [e]
  show Nq.Lemmas.HopCount.hrun {} _ |>.hops = (Nq.Lemmas.HopCount.hrun {} _).hops
  rw [Nq.Lemmas.HopCount.hrun_append]
  have hout : (Nq.Lemmas.HopCount.hrun {} (hdr ++ [LF, CR, LF])).inHeader = false := by
    rw [show hdr ++ [LF, CR, LF] = (hdr ++ [LF]) ++ [CR, LF] by simp, Nq.Lemmas.HopCount.hrun_append]
    exact Nq.Lemmas.HopCount.empty_line_ends _
  rw [Nq.Lemmas.HopCount.hrun_out _ _ hout]

/-! ### Non-vacuity (13 = CR, 10 = LF, 46 = '.', 120 = 'x') -/

/-- "x CR LF . CR Y CR LF . CR LF QUIT": the `.`CR line loses its dot (the repaired case) -/
example : dblast [120, 13, 10, 46, 13, 89, 13, 10, 46, 13, 10, 81] = .accepted [120, 10, 13, 89, 10] [81] := by
  decide
example : dblast [120, 10, 46, 13, 10] = .stray := by decide
example : completeLines [46, 97, 10] ∧ rfcEncode [46, 97, 10] = [46, 46, 97, 13, 10, 46, 13, 10] := by
  constructor
  · right; decide
  · decide

/-- "Received:" CR LF "DELIVERED-" CR LF "receive:" CR LF CR LF "Received:" CR LF: two hops (near miss and body line not counted) -/
example : hopsOf [82, 101, 99, 101, 105, 118, 101, 100, 58, 13, 10, 68, 69, 76, 73, 86, 69, 82, 69, 68, 45, 13, 10,
    114, 101, 99, 101, 105, 118, 101, 58, 13, 10, 13, 10, 82, 101, 99, 101, 105, 118, 101, 100, 58, 13, 10] = 2 := by decide

end Nq.Props.C05
