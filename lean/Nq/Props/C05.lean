/-
  C05 — Inbound SMTP DATA is decoded transparently and framed only by CR LF . CR LF.

  Model: `Nq.SmtpIn.dblast` (the five-state automaton of qmail-smtpd.c `blast()`), tied to the
  source by the exhaustive differential harness `harness/c05_blast.c` AND by translation: the body of `blast()` is
  extracted from the current qmail-smtpd.c into `Nq.Gen.SmtpdBlast` (a `Nq.CMini.Stmt`) on every run, and the
  `C05_source_*` theorems at the end show that its meaning is this automaton.
-/
import Nq.Lemmas.SmtpFraming
import Nq.Lemmas.SmtpSim
import Nq.Lemmas.HopCount
import Nq.Lemmas.SmtpIO
import Nq.Lemmas.SmtpdSrc.Main

namespace Nq.Props.C05
open Nq Nq.SmtpIn Nq.SmtpRef Nq.SmtpOut Nq.Wire Nq.Lemmas

/-- The automaton **is** the line-based RFC 5321 decoder, for every byte stream: same verdict,
same stored bytes, same unread remainder (which the caller then parses as the next command). -/
theorem C05_spec (inp : Bytes) : dblast inp = rfcDecode inp := dblast_eq_rfcDecode inp

/-- **Framing.** The message is accepted exactly when the stream is a sequence of CR LF-terminated
lines, none of them containing a LF or consisting of a single dot, followed by `.` CR LF; the
stored body is those lines with one leading dot removed and LF as terminator, and `rest` is
everything after the terminator. -/
theorem C05_framing (inp body rest : Bytes) :
    dblast inp = .accepted body rest ↔
    ∃ ls : List Bytes, inp = joinWith [CR, LF] ls ++ [DOT, CR, LF] ++ rest ∧ (∀ l ∈ ls, LF ∉ l ∧ l ≠ [DOT]) ∧
      body = joinWith [LF] (ls.map unstuff) := by
  rw [C05_spec]
  constructor
  · exact rfcDecode_framing_mp inp body rest
  · rintro ⟨ls, rfl, h2, rfl⟩
    exact rfcDecode_framing_mpr ls rest h2

/-- **A bare LF is never accepted**: whenever a message is accepted, the bytes consumed contain no
LF that is not preceded by CR. -/
theorem C05_barelf (inp body rest : Bytes) (h : dblast inp = .accepted body rest) :
    ∃ used, inp = used ++ rest ∧ noBareLF used = true := by
  obtain ⟨ls, e1, e2, _⟩ := (C05_framing inp body rest).1 h
  refine ⟨joinWith [CR, LF] ls ++ [DOT, CR, LF], by simp [e1], ?_⟩
  unfold noBareLF
  rcases noBareLF_join ls 0 [DOT, CR, LF] (fun l hl => (e2 l hl).1) with h | h
  · rw [h]; simp [noBareLFGo, CR, LF, DOT]
  · subst h; simp [joinWith, noBareLFGo, CR, LF, DOT]

/-- …and conversely a LF not preceded by CR, anywhere before the terminator, makes the server
refuse the session (451, nothing is queued). -/
theorem C05_barelf_refused (ls : List Bytes) (l post : Bytes) (hls : ∀ x ∈ ls, LF ∉ x ∧ x ≠ [DOT])
    (h1 : LF ∉ l) (h2 : l.getLast? ≠ some CR) :
    dblast (joinWith [CR, LF] ls ++ (l ++ LF :: post)) = .stray := by
  rw [C05_spec, rfcDecode_lines ls _ hls, rfcDecode_bare l post h1 h2]
  simp [emit]

/-- **Round trip with any conforming sender**: a message of complete lines, encoded as RFC 5321
prescribes, decodes to exactly the original — including messages that contain CR bytes — and the
bytes that follow are left for the command parser. -/
theorem C05_roundtrip (m rest : Bytes) (h : completeLines m) :
    dblast (rfcEncode m ++ rest) = .accepted m rest := by
  have := sim_ref rest m true .s1 (by simp [relE]) (fun _ => rfl)
    (fun hne => by rcases h with h | h; exact absurd h hne; exact h)
  simpa [dblast, rfcEncode, pend, emit] using this

/-- **Round trip with this package's own client** (qmail-remote): -/
theorem C05_roundtrip_remote (m e rest : Bytes) (h : rblast m = some e) :
    dblast (e ++ rest) = .accepted (canon m) rest := by
  have := sim rest m .top .s1 e (by simp [rel]) h
  simpa [dblast, pend, cst, canon, emit] using this

/-- **Round trip with this package's own client, byte-identical case** (audit E, item 1): `canon m` above is the
message with its CR-conventions normalised (`CR LF ↦ LF`, a bare `CR ↦ LF`); for a message **without CR bytes**
it is the message itself (the same induction as `C06_identity`), so the server stores exactly `m`. -/
theorem C05_roundtrip_remote_id (m e rest : Bytes) (h : rblast m = some e) (hcr : CR ∉ m) :
    dblast (e ++ rest) = .accepted m rest := by
  have hc : ∀ l : Bytes, CR ∉ l → canon l = l := by
    intro l hl
    unfold canon
    induction l with
    | nil => simp [crun, cfinish]
    | cons x l ih =>
      have hx : x ≠ CR := fun hx => hl (by simp [hx])
      have hm : CR ∉ l := fun hm => hl (by simp [hm])
      simp [crun, cstep, hx, ih hm]
  rw [C05_roundtrip_remote m e rest h, hc m hcr]

/-! ### The hop counter that runs over the same bytes -/

/-- **C05_hops.**  The `pos / flagmaybex / flagmaybey / flagmaybez / flaginheader` scanner inside `blast()`
(`hstep`, folded over the bytes `blast()` reads: `hopsOf`) computes, **for every byte stream**, the line-based
hop count `HopCount.hopSpec`: the number of lines (pieces between LFs, the unterminated last piece included)
before the first empty line (CR alone) whose first 8 bytes are `received` or whose first 9 bytes are
`delivered`, ignoring ASCII case. -/
theorem C05_hops (consumed : Bytes) : hopsOf consumed = Nq.HopCount.hopSpec consumed :=
  Nq.Lemmas.HopCount.hopsOf_eq_hopSpec consumed

/-- the scanner is a fold: what it reports for an accepted message is the count over exactly the bytes
`blast()` consumed (everything up to and including the terminating `.` CR LF), and the bytes of the next
command do not influence it -/
theorem C05_hops_accepted (inp body rest : Bytes) (h : dblast inp = .accepted body rest) :
    ∃ used, inp = used ++ rest ∧ inp.take (inp.length - rest.length) = used ∧
      hopsOf (inp.take (inp.length - rest.length)) = Nq.HopCount.hopSpec used := by
  obtain ⟨used, e, _⟩ := C05_barelf inp body rest h
  refine ⟨used, e, ?_, ?_⟩
  · rw [e]; simp
  · rw [C05_hops, e]; simp

/-- once the header is over (first empty line) nothing is counted any more, whatever follows -/
theorem C05_hops_body (hdr body : Bytes) :
    Nq.HopCount.hopSpec (hdr ++ [LF, CR, LF] ++ body) = Nq.HopCount.hopSpec (hdr ++ [LF, CR, LF]) := by
  rw [← C05_hops, ← C05_hops]
  have e : hdr ++ [LF, CR, LF] ++ body = (hdr ++ [LF, CR, LF]) ++ body := rfl
  rw [e]
  show (Nq.Lemmas.HopCount.hrun {} ((hdr ++ [LF, CR, LF]) ++ body)).hops = (Nq.Lemmas.HopCount.hrun {} (hdr ++ [LF, CR, LF])).hops
  rw [Nq.Lemmas.HopCount.hrun_append]
  have hout : (Nq.Lemmas.HopCount.hrun {} (hdr ++ [LF, CR, LF])).inHeader = false := by
    rw [show hdr ++ [LF, CR, LF] = (hdr ++ [LF]) ++ [CR, LF] by simp]
    exact Nq.Lemmas.HopCount.empty_line_ends _ _
  rw [Nq.Lemmas.HopCount.hrun_out _ _ hout]

/-! ### Non-vacuity (13 = CR, 10 = LF, 46 = '.', 120 = 'x') -/

/-- "x CR LF . CR Y CR LF . CR LF QUIT": the `.`CR line loses its dot (the repaired case) -/
example : dblast [120, 13, 10, 46, 13, 89, 13, 10, 46, 13, 10, 81] = .accepted [120, 10, 13, 89, 10] [81] := by
  decide
example : dblast [120, 10, 46, 13, 10] = .stray := by decide
example : completeLines [46, 97, 10] ∧ rfcEncode [46, 97, 10] = [46, 46, 97, 13, 10, 46, 13, 10] := by
  constructor
  · right; decide
  · decide
/-- hypotheses of `C05_roundtrip_remote_id` met by a CR-free message with a dot line (". LF a LF"), and a message with a
CR ("a CR LF") for which only `C05_roundtrip_remote` applies: it is stored as `canon m` = "a LF" -/
example : rblast [46, 10, 97, 10] = some [46, 46, 13, 10, 97, 13, 10, 46, 13, 10] ∧ CR ∉ [(46 : UInt8), 10, 97, 10] := by decide
example : rblast [97, 13, 10] = some [97, 13, 10, 46, 13, 10] ∧ canon [97, 13, 10] = [97, 10] := by decide

-- "Received:" CR LF "DELIVERED-" CR LF "receive:" CR LF CR LF "Received:" CR LF: two hops (near miss and body line not counted)
set_option maxRecDepth 100000 in
example : hopsOf [82, 101, 99, 101, 105, 118, 101, 100, 58, 13, 10, 68, 69, 76, 73, 86, 69, 82, 69, 68, 45, 13, 10,
    114, 101, 99, 101, 105, 118, 101, 58, 13, 10, 13, 10, 82, 101, 99, 101, 105, 118, 101, 100, 58, 13, 10] = 2 := by decide

/-! ### Chunking independence: `blast()` as it runs over substdio (`Nq.SmtpIO.sblast`)

`sblast s` is the `for (;;) { substdio_get(&ssin,&ch,1); … }` loop of qmail-smtpd.c over a buffered
descriptor `s : Substdio.ISt` — any buffer size, any bytes already buffered (`s.data`, e.g. what
`commands()` left after the DATA line), any bytes still to come (`s.src`), and a read script `s.rs`
saying how many bytes each `read()` returns (short reads, the 1024-byte refill, end of file only at the
real end; a `0` entry is a failing `read()`).  `IWF` is substdio's own invariant `n + p = size`. -/
section chunking
open Nq.Substdio Nq.SmtpIO Nq.Lemmas.SmtpIO

/-- **C05_chunking.**  However the network stream is split into reads, `blast()` computes `dblast` of the
concatenated stream: same verdict, same stored bytes, and the bytes left in `ssin` (buffered + unread)
are exactly the pure decoder's `rest` — so by `C05_spec`/`C05_framing` the result is the RFC 5321 decoding
of the stream and does not depend on TCP segmentation.  (`.incomplete` ↔ `saferead` reached end of file:
`die_read()`.) -/
theorem C05_chunking (s : ISt) (h : IWF s) (hne : 0 ∉ s.rs) :
    (sblast s).view = dblast (s.data ++ s.src) := by
  rcases sblast_spec s h with ⟨_, e⟩ | e
  · exact absurd e hne
  · exact view_of_agree _ _ _ e

/-- …and for **every** read script, failing reads included: either `saferead` made the process exit
(`die_read`/`die_alarm`, nothing is queued) or the result is again `dblast` of the stream. -/
theorem C05_chunking_anyscript (s : ISt) (h : IWF s) :
    sblast s = .died ∨ (sblast s).view = dblast (s.data ++ s.src) := by
  rcases sblast_spec s h with ⟨e, _⟩ | e
  · exact Or.inl e
  · exact Or.inr (view_of_agree _ _ _ e)

/-- When `blast()` returns (under any script), `ssin` is left well-formed with the same buffer, and
what `commands()` will read next (`s'.data ++ s'.src`) is exactly what follows the terminator. -/
theorem C05_chunking_ssin (s s' : ISt) (body : Bytes) (h : IWF s) (hacc : sblast s = .accepted body s') :
    IWF s' ∧ s'.size = s.size ∧ dblast (s.data ++ s.src) = .accepted body (s'.data ++ s'.src) := by
  rcases sblast_spec s h with ⟨e, _⟩ | e
  · rw [hacc] at e; cases e
  · rw [hacc] at e
    cases hd : dblast (s.data ++ s.src) with
    | accepted b r =>
      rw [hd] at e
      obtain ⟨e1, e2, e3, e4⟩ := e
      exact ⟨e2, e3, by rw [e1, e4]⟩
    | stray => rw [hd] at e; cases e
    | incomplete => rw [hd] at e; cases e

/-- **Independence of the split**, stated directly: two sessions receiving the same byte stream — with
different buffer sizes, different amounts already buffered, different read sizes — end with the same
verdict, the same stored message and the same unread remainder. -/
theorem C05_chunking_indep (s₁ s₂ : ISt) (h₁ : IWF s₁) (h₂ : IWF s₂) (n₁ : 0 ∉ s₁.rs) (n₂ : 0 ∉ s₂.rs)
    (hs : s₁.data ++ s₁.src = s₂.data ++ s₂.src) : (sblast s₁).view = (sblast s₂).view := by
  rw [C05_chunking s₁ h₁ n₁, C05_chunking s₂ h₂ n₂, hs]

/-- The round trip with any conforming sender, over chunked input: whatever the segmentation, a message
of complete lines encoded as RFC 5321 prescribes is stored exactly, and the bytes after it stay in `ssin`. -/
theorem C05_chunking_roundtrip (s : ISt) (m rest : Bytes) (h : IWF s) (hne : 0 ∉ s.rs) (hm : completeLines m)
    (hs : s.data ++ s.src = rfcEncode m ++ rest) : (sblast s).view = .accepted m rest := by
  rw [C05_chunking s h hne, hs, C05_roundtrip m rest hm]

/-- Non-vacuity: a 4-byte buffer (so the refill and the shift happen several times), one byte already
buffered, reads of 1, 3, 2, 1, then full: "x CR LF . CR Y CR LF . CR LF Q" is decoded as by `dblast`. -/
example : (sblast { size := 4, n := 3, p := 1, data := [120], src := [13, 10, 46, 13, 89, 13, 10, 46, 13, 10, 81],
                    rs := [1, 3, 2, 1] }).view = .accepted [120, 10, 13, 89, 10] [81] := by decide
example : IWF { size := 4, n := 3, p := 1, data := [120], src := [13, 10, 46], rs := [1, 3, 2, 1] } ∧
    (0 : Nat) ∉ [1, 3, 2, 1] := by decide
/-- a failing read: the process exits -/
example : sblast (istart 4 [120, 13, 10, 46, 13, 10] [2, 0]) = .died := by decide

end chunking

/-! ### The text of `blast()` as it is in qmail-smtpd.c now

`Nq.Gen.SmtpdBlast.stmts` is regenerated from the clang AST of the source on every run (tools/extractors/c05.py);
`Nq.CMini.run` gives it its meaning.  `Nq.SmtpdSrc.body` is the loop body after `substdio_get(&ssin,&ch,1)`. -/
section source
open Nq.CMini Nq.SmtpdSrc

/-- Shape of the extracted function: the six `int` locals in declaration order with their constant values before the
loop, and three top-level statements in the loop body after the read (the header block, the switch, `put(&ch)`). -/
theorem C05_source_shape :
    Nq.Gen.SmtpdBlast.varNames = ["state", "flaginheader", "pos", "flagmaybex", "flagmaybey", "flagmaybez"] ∧
    Nq.Gen.SmtpdBlast.initEnv = enc .s1 {} ∧ Nq.Gen.SmtpdBlast.stmts.length = 3 := by decide

/-- **One iteration of the extracted loop body is one step of the automaton**: on the locals that hold the automaton
state `s` and the scanner state `h` (any hop count, `pos ≤ 9` - an invariant of `hstep`), for every byte, the new
locals are those of `(dstep s c).1` and `hstep h c`, the bytes handed to `put` are `dstep`'s output, `++*hops` is
executed as often as `hstep` counts, and control leaves by `return` / `straynewline()` / the next iteration exactly
when `dstep` says done / stray / data.  (Kernel evaluation of the extracted AST over the whole finite table, composed
by the independence lemma `Nq.CMini.run_set`.) -/
theorem C05_source_step (s : DSt) (h : HSt) (c : Byte) (hp : h.pos ≤ 9) :
    (let r := iter body (enc s h) c.toNat; (r.env, r.evs, cls r.ctl)) = expect s h c :=
  iter_eq s h c hp

/-- the invariant used above is one: the scanner's `pos` starts at 0 and never exceeds 9 -/
theorem C05_source_pos_inv (h : HSt) (c : Byte) (hp : h.pos ≤ 9) : (hstep h c).pos ≤ 9 := hstep_pos_le h c hp

/-- **The whole loop of the extracted source decodes every stream as the RFC 5321 reference decoder does**: started
from the constants the source assigns before the loop, over any input, it returns / calls `straynewline()` / runs out
of input exactly when `rfcDecode` accepts / finds a bare LF / finds no terminator, having handed to `put` exactly the
decoded message and leaving exactly the bytes after the terminator unread. -/
theorem C05_source_spec (inp : Bytes) :
    (outView (loop body Nq.Gen.SmtpdBlast.initEnv (inp.map (fun b => b.toNat)))).1 = rfcDecode inp := by
  have h0 : Nq.Gen.SmtpdBlast.initEnv = enc .s1 {} := by decide
  rw [h0, loop_eq inp .s1 {} (by decide)]
  simp only [mrun_fst]
  exact C05_spec inp

/-- ... and counts hops as the documented rule does: when the terminator is found, the number of `++*hops` executed is
the number of Received/Delivered header lines among the bytes consumed. -/
theorem C05_source_hops (inp body' rest : Bytes) (h : dblast inp = .accepted body' rest) :
    ∃ consumed, inp = consumed ++ rest ∧
      (outView (loop body Nq.Gen.SmtpdBlast.initEnv (inp.map (fun b => b.toNat)))).2 = Nq.HopCount.hopSpec consumed := by
  have h0 : Nq.Gen.SmtpdBlast.initEnv = enc .s1 {} := by decide
  obtain ⟨consumed, h1, h2⟩ := mrun_snd inp .s1 {} body' rest h
  refine ⟨consumed, h1, ?_⟩
  rw [h0, loop_eq inp .s1 {} (by decide), h2]
  have := C05_hops consumed
  simp only [hopsOf] at this
  simpa using this

/-- Non-vacuity: the extracted source run on "a CR LF . . CR LF . CR LF Q": stores "a LF . LF", leaves "Q". -/
example : outView (loop body Nq.Gen.SmtpdBlast.initEnv [97, 13, 10, 46, 46, 13, 10, 46, 13, 10, 81]) =
    (.accepted [97, 10, 46, 10] [81], 0) := by decide +kernel
/-- a bare LF: the extracted source calls `straynewline()` -/
example : outView (loop body Nq.Gen.SmtpdBlast.initEnv [97, 10]) = (.stray, 0) := by decide +kernel
/-- "Received: x CR LF CR LF . CR LF": one hop counted by the extracted source -/
example : (outView (loop body Nq.Gen.SmtpdBlast.initEnv
    [82, 101, 99, 101, 105, 118, 101, 100, 58, 13, 10, 13, 10, 46, 13, 10])).2 = 1 := by decide +kernel

end source

end Nq.Props.C05
