/-
  C16 — New mail wakes the daemon: no lost trigger (and, by correspondence, no busy loop).

  Model: `Nq.Trigger`.  Tie: the real qmail-queue (two instances) and the real qmail-send run as
  threads under qsim with every interleaving of their trigger-related system calls enumerated
  (`harness/c16_trigger.c`); each trace is abstracted to `Trigger.Ev` and replayed through
  `Trigger.accept`.
-/
import Nq.Trigger

namespace Nq.Props.C16
open Nq Nq.Trigger

/-- a wake-up is pending or a scan that will find `n` is under way -/
def Covered (s : St) (n : Nat) : Prop :=
  s.buf = true ∨ s.d = .closed ∨ s.d = .reopened ∨ ∃ rem, s.d = .scanning rem ∧ n ∈ rem

structure Inv (s : St) : Prop where
  cov : ∀ n, pulled (s.pc n) = true → n ∈ s.todo → Covered s n
  open_iff : s.dOpen = false ↔ s.d = .closed
  nodup : s.todo.Nodup

theorem inv_init : Inv {} := by
  refine ⟨?_, by simp, by simp⟩
  intro n h; simp [pulled] at h

theorem pc_upd_same (f : Nat → IPc) (n : Nat) (v : IPc) : upd f n v n = v := by simp [upd]
theorem pc_upd_other (f : Nat → IPc) (n k : Nat) (v : IPc) (h : k ≠ n) : upd f n v k = f k := by simp [upd, h]

theorem step_inv (s s' : St) (e : Ev) (hi : Inv s) (h : accept s e = some s') : Inv s' := by
  obtain ⟨hcov, hopen, hnd⟩ := hi
  cases e with
  | iLink n =>
    simp only [accept] at h
    split at h
    · rename_i hg; cases h
      refine ⟨?_, hopen, List.nodup_cons.2 ⟨hg.2, hnd⟩⟩
      intro k hk hmem
      by_cases hkn : k = n
      · subst hkn; simp [pc_upd_same, pulled] at hk
      · simp only [pc_upd_other _ _ _ _ hkn] at hk
        have hm : k ∈ s.todo := by simpa [hkn] using hmem
        rcases hcov k hk hm with h1 | h1 | h1 | ⟨rem, h1, h2⟩
        · exact Or.inl h1
        · exact Or.inr (Or.inl h1)
        · exact Or.inr (Or.inr (Or.inl h1))
        · exact Or.inr (Or.inr (Or.inr ⟨rem, h1, h2⟩))
    · cases h
  | iOpen n ok =>
    simp only [accept] at h
    split at h
    · rename_i hg; cases h
      cases ok
      · -- ENXIO: no reader, i.e. the daemon is inside trigger_set
        have hcl : s.d = .closed := hopen.1 hg.2.symm
        refine ⟨?_, hopen, hnd⟩
        intro k hk hmem
        exact Or.inr (Or.inl hcl)
      · refine ⟨?_, hopen, hnd⟩
        intro k hk hmem
        by_cases hkn : k = n
        · subst hkn; simp [pc_upd_same, pulled] at hk
        · simp only [if_true, pc_upd_other _ _ _ _ hkn] at hk
          exact hcov k hk hmem
    · cases h
  | iWrite n ok =>
    simp only [accept] at h
    split at h
    · rename_i hg; cases h
      refine ⟨?_, hopen, hnd⟩
      intro k hk hmem
      by_cases hkn : k = n
      · subst hkn
        cases ok
        · exact Or.inr (Or.inl (hopen.1 hg.2.symm))
        · left; simp
      · simp only [pc_upd_other _ _ _ _ hkn] at hk
        rcases hcov k hk hmem with h1 | h1 | h1 | h1
        · left; simp [h1]
        · exact Or.inr (Or.inl h1)
        · exact Or.inr (Or.inr (Or.inl h1))
        · exact Or.inr (Or.inr (Or.inr h1))
    · cases h
  | iClose n =>
    simp only [accept] at h
    split at h
    · rename_i hg; cases h
      refine ⟨?_, hopen, hnd⟩
      intro k hk hmem
      have hk' : pulled (s.pc k) = true := by
        by_cases hkn : k = n
        · subst hkn; simp [hg.1, pulled]
        · simpa [pc_upd_other _ _ _ _ hkn] using hk
      rcases hcov k hk' hmem with h1 | h1 | h1 | h1
      · by_cases hlast : s.writers = 1 ∧ (!s.dOpen) = true
        · right; left
          exact hopen.1 (by simpa using hlast.2)
        · left
          show (if s.writers = 1 ∧ (!s.dOpen) = true then false else s.buf) = true
          rw [if_neg hlast]; exact h1
      · exact Or.inr (Or.inl h1)
      · exact Or.inr (Or.inr (Or.inl h1))
      · exact Or.inr (Or.inr (Or.inr h1))
    · cases h
  | dClose =>
    simp only [accept] at h
    split at h
    · split at h
      · cases h; exact ⟨fun k _ _ => Or.inr (Or.inl rfl), by simp, hnd⟩
      · cases h
    · split at h
      · cases h; exact ⟨fun k _ _ => Or.inr (Or.inl rfl), by simp, hnd⟩
      · cases h
    · cases h
  | dOpen =>
    simp only [accept] at h
    split at h
    · cases h; exact ⟨fun k _ _ => Or.inr (Or.inr (Or.inl rfl)), by simp, hnd⟩
    · cases h
  | dOpendir =>
    simp only [accept] at h
    split at h
    · rename_i hg; cases h
      refine ⟨fun k _ hm => Or.inr (Or.inr (Or.inr ⟨s.todo, rfl, hm⟩)), ?_, hnd⟩
      rw [hopen, hg]; simp
    · cases h
  | dSeeNew n =>
    simp only [accept] at h
    split at h
    · rename_i rem hd
      split at h
      · cases h
        refine ⟨?_, by rw [hopen, hd]; simp, hnd⟩
        intro k hk hmem
        rcases hcov k hk hmem with h1 | h1 | h1 | ⟨r, h1, h2⟩
        · exact Or.inl h1
        · rw [hd] at h1; cases h1
        · rw [hd] at h1; cases h1
        · rw [hd] at h1; cases h1
          exact Or.inr (Or.inr (Or.inr ⟨n :: rem, rfl, List.mem_cons_of_mem _ h2⟩))
      · cases h
    · cases h
  | dRead n =>
    simp only [accept] at h
    split at h
    · rename_i rem hd
      split at h
      · cases h
        refine ⟨?_, by rw [hopen, hd]; simp, hnd.erase n⟩
        intro k hk hmem
        have hkn : k ≠ n := by
          intro he; subst he
          exact (List.Nodup.not_mem_erase hnd) hmem
        have hmem' : k ∈ s.todo := List.mem_of_mem_erase hmem
        rcases hcov k hk hmem' with h1 | h1 | h1 | ⟨r, h1, h2⟩
        · exact Or.inl h1
        · rw [hd] at h1; cases h1
        · rw [hd] at h1; cases h1
        · rw [hd] at h1; cases h1
          exact Or.inr (Or.inr (Or.inr ⟨rem.erase n, rfl, (List.mem_erase_of_ne hkn).2 h2⟩))
      · cases h
    · cases h
  | dEnd =>
    simp only [accept] at h
    split at h
    · rename_i rem hd
      split at h
      · rename_i hr; cases h
        subst hr
        refine ⟨?_, by rw [hopen, hd]; simp, hnd⟩
        intro k hk hmem
        rcases hcov k hk hmem with h1 | h1 | h1 | ⟨r, h1, h2⟩
        · exact Or.inl h1
        · rw [hd] at h1; cases h1
        · rw [hd] at h1; cases h1
        · rw [hd] at h1; cases h1; simp at h2
      · cases h
    · cases h

def Reach (s : St) : Prop := ∃ evs, acceptAll {} evs = some s

theorem reach_inv (s : St) (h : Reach s) : Inv s := by
  obtain ⟨evs, h⟩ := h
  have key : ∀ (evs : List Ev) (s0 s1 : St), Inv s0 → acceptAll s0 evs = some s1 → Inv s1 := by
    intro evs
    induction evs with
    | nil => intro s0 s1 h0 ha; simp [acceptAll] at ha; subst ha; exact h0
    | cons e es ih =>
      intro s0 s1 h0 ha
      simp only [acceptAll] at ha
      cases h1 : accept s0 e with
      | none => simp [h1] at ha
      | some s2 => simp [h1] at ha; exact ih s2 s1 (step_inv s0 s2 e h0 h1) ha
  exact key evs {} s inv_init h

/-- **No lost wake-up**, for every interleaving of any number of injectors with the daemon: whenever
the daemon is outside a todo scan and some injector has completed its publish-then-signal steps for
an entry that is still unprocessed, the trigger descriptor is readable — `select` returns at once,
without the periodic rescan. -/
theorem C16_no_lost_wakeup (s : St) (h : Reach s) (n : Nat) (hp : pulled (s.pc n) = true) (hm : n ∈ s.todo)
    (hd : s.d = .idle) : s.buf = true := by
  rcases (reach_inv s h).cov n hp hm with h1 | h1 | h1 | ⟨r, h1, _⟩
  · exact h1
  · rw [hd] at h1; cases h1
  · rw [hd] at h1; cases h1
  · rw [hd] at h1; cases h1

/-- **A scan in progress covers it**: if the wake-up is not pending, the daemon is inside
`trigger_set()`/before `opendir` (so the coming scan starts after the link), or its open directory
stream will still return the entry. -/
theorem C16_covered (s : St) (h : Reach s) (n : Nat) (hp : pulled (s.pc n) = true) (hm : n ∈ s.todo) : Covered s n :=
  (reach_inv s h).cov n hp hm

/-- **A scan ends only when it has returned every entry it covers**: `closedir` needs `rem = []`. -/
theorem C16_scan_complete (s s' : St) (h : accept s .dEnd = some s') : s.d = .scanning [] := by
  simp only [accept] at h
  split at h
  · rename_i rem hd
    split at h
    · rename_i hr; subst hr; exact hd
    · cases h
  · cases h

/-- **Order in the daemon**: `opendir` is accepted only right after the FIFO was reopened
(`trigger_set` precedes `opendir`), and **order in the injector**: the trigger is opened only after the
link. These are the two facts the invariant rests on; the mutants that swap them are rejected. -/
theorem C16_order (s s' : St) :
    (accept s .dOpendir = some s' → s.d = .reopened) ∧ (∀ n ok, accept s (.iOpen n ok) = some s' → s.pc n = .linked) := by
  constructor
  · intro h; simp only [accept] at h; split at h
    · rename_i hg; exact hg
    · cases h
  · intro n ok h; simp only [accept] at h; split at h
    · rename_i hg; exact hg.1
    · cases h

/-! ### Non-vacuity -/

/-- two injectors; the second links and pulls while the daemon is between close and reopen (ENXIO):
still covered, and picked up by the scan that follows -/
example : (acceptAll {} [.dOpen, .dClose, .dOpen, .dOpendir, .dEnd,
    .iLink 5, .iOpen 5 true, .iWrite 5 true, .dClose, .iLink 6, .iOpen 6 false, .dOpen, .iClose 5, .dOpendir,
    .dRead 6, .dRead 5, .dEnd]).map (fun s => (s.todo, s.buf)) = some ([], true) := by
  decide

/-- the wrong order (scan, then re-arm) is not the model's daemon -/
example : acceptAll {} [.dOpen, .dClose, .dOpendir] = none := by decide

end Nq.Props.C16
