/-
  C16 — New mail wakes the daemon: no lost trigger, no busy loop, never sleeps past its earliest due event.

  Part 1 (trigger protocol).  Model: `Nq.Trigger`.  Tie: the real qmail-queue (two instances) and the real
  qmail-send run as threads under qsim with every interleaving of their trigger-related system calls
  enumerated (`harness/c16_trigger.c`); each trace is abstracted to `Trigger.Ev` and replayed through
  `Trigger.accept`.  Safety: `C16_no_lost_wakeup`, `C16_covered`, `C16_scan_complete`, `C16_order`.
  Liveness in a bounded number of steps: `C16_bounded`, `C16_progress`, `C16_bounded_run`.

  Part 2 (select preparation).  Model: `Nq.SelPrep` — `main()`'s `wakeup`/`timeout` computation through
  pass_selprep, todo_selprep, cleanup_selprep and the descriptor sets of comm_selprep, del_selprep,
  trigger_selprep, as a function of a snapshot of the daemon's globals.  Tie: `harness/c16_selprep.c` and
  `harness/c16_trigger.c` read that snapshot out of the running qmail-send at every `select` and print it with
  the timeout and descriptor sets the real code passed.  Theorems: `C16_no_spin`, `C16_early_return_acts`,
  `C16_sleep_justified`, `C16_exit_when_drained`, `C16_pre_epoch`.
  "Earliest due event" independently of the heap root: `C16_never_past_any_queued` (over ALL entries of the four
  priority queues, `Nq.Spec.SelQueued`; premise `HeapRoots`, discharged for prioq.c's model by `C16_roots_of_heap`
  from C15's heap invariant and checked on the implementation's arrays by the driver).
-/
import Nq.Trigger
import Nq.Lemmas.TriggerLive
import Nq.Lemmas.SelPrep
import Nq.Lemmas.SelQueued
import Nq.Lemmas.SchedHeap
import Nq.Gen.SendLoop
import Nq.Lemmas.SelFds
import Nq.TriggerRelaxed

namespace Nq.Props.C16
open Nq Nq.Trigger

/-- a wake-up is pending or a scan that will find `n` is under way -/
def Covered (s : St) (n : Nat) : Prop :=
  s.buf = true ∨ s.d = .closed ∨ s.d = .reopened ∨ ∃ rem, s.d = .scanning rem ∧ n ∈ rem

structure Inv (s : St) : Prop where
  cov : ∀ n, pulled (s.pc n) = true → n ∈ s.todo → Covered s n
  open_iff : s.dOpen = false ↔ s.d = .closed
  nodup : s.todo.Nodup

theorem inv_init : Inv {} := by
  refine ⟨?_, by simp, by simp⟩
  intro n h; simp [pulled] at h

theorem pc_upd_same (f : Nat → IPc) (n : Nat) (v : IPc) : upd f n v n = v := by simp [upd]
theorem pc_upd_other (f : Nat → IPc) (n k : Nat) (v : IPc) (h : k ≠ n) : upd f n v k = f k := by simp [upd, h]

theorem step_inv (s s' : St) (e : Ev) (hi : Inv s) (h : accept s e = some s') : Inv s' := by
  obtain ⟨hcov, hopen, hnd⟩ := hi
  cases e with
  | iLink n =>
    simp only [accept] at h
    split at h
    · rename_i hg; cases h
      refine ⟨?_, hopen, List.nodup_cons.2 ⟨hg.2, hnd⟩⟩
      intro k hk hmem
      by_cases hkn : k = n
      · subst hkn; simp [pc_upd_same, pulled] at hk
      · simp only [pc_upd_other _ _ _ _ hkn] at hk
        have hm : k ∈ s.todo := by simpa [hkn] using hmem
        rcases hcov k hk hm with h1 | h1 | h1 | ⟨rem, h1, h2⟩
        · exact Or.inl h1
        · exact Or.inr (Or.inl h1)
        · exact Or.inr (Or.inr (Or.inl h1))
        · exact Or.inr (Or.inr (Or.inr ⟨rem, h1, h2⟩))
    · cases h
  | iOpen n ok =>
    simp only [accept] at h
    split at h
    · rename_i hg; cases h
      cases ok
      · -- ENXIO: no reader, i.e. the daemon is inside trigger_set
        have hcl : s.d = .closed := hopen.1 hg.2.symm
        refine ⟨?_, hopen, hnd⟩
        intro k hk hmem
        exact Or.inr (Or.inl hcl)
      · refine ⟨?_, hopen, hnd⟩
        intro k hk hmem
        by_cases hkn : k = n
        · subst hkn; simp [pc_upd_same, pulled] at hk
        · simp only [if_true, pc_upd_other _ _ _ _ hkn] at hk
          exact hcov k hk hmem
    · cases h
  | iWrite n ok =>
    simp only [accept] at h
    split at h
    · rename_i hg; cases h
      refine ⟨?_, hopen, hnd⟩
      intro k hk hmem
      by_cases hkn : k = n
      · subst hkn
        cases ok
        · exact Or.inr (Or.inl (hopen.1 hg.2.symm))
        · left; simp
      · simp only [pc_upd_other _ _ _ _ hkn] at hk
        rcases hcov k hk hmem with h1 | h1 | h1 | h1
        · left; simp [h1]
        · exact Or.inr (Or.inl h1)
        · exact Or.inr (Or.inr (Or.inl h1))
        · exact Or.inr (Or.inr (Or.inr h1))
    · cases h
  | iClose n =>
    simp only [accept] at h
    split at h
    · rename_i hg; cases h
      refine ⟨?_, hopen, hnd⟩
      intro k hk hmem
      have hk' : pulled (s.pc k) = true := by
        by_cases hkn : k = n
        · subst hkn; simp [hg.1, pulled]
        · simpa [pc_upd_other _ _ _ _ hkn] using hk
      rcases hcov k hk' hmem with h1 | h1 | h1 | h1
      · by_cases hlast : s.writers = 1 ∧ (!s.dOpen) = true
        · right; left
          exact hopen.1 (by simpa using hlast.2)
        · left
          show (if s.writers = 1 ∧ (!s.dOpen) = true then false else s.buf) = true
          rw [if_neg hlast]; exact h1
      · exact Or.inr (Or.inl h1)
      · exact Or.inr (Or.inr (Or.inl h1))
      · exact Or.inr (Or.inr (Or.inr h1))
    · cases h
  | dClose =>
    simp only [accept] at h
    split at h
    · split at h
      · cases h; exact ⟨fun k _ _ => Or.inr (Or.inl rfl), by simp, hnd⟩
      · cases h
    · split at h
      · cases h; exact ⟨fun k _ _ => Or.inr (Or.inl rfl), by simp, hnd⟩
      · cases h
    · cases h
  | dOpen =>
    simp only [accept] at h
    split at h
    · cases h; exact ⟨fun k _ _ => Or.inr (Or.inr (Or.inl rfl)), by simp, hnd⟩
    · cases h
  | dOpendir =>
    simp only [accept] at h
    split at h
    · rename_i hg; cases h
      refine ⟨fun k _ hm => Or.inr (Or.inr (Or.inr ⟨s.todo, rfl, hm⟩)), ?_, hnd⟩
      rw [hopen, hg]; simp
    · cases h
  | dSeeNew n =>
    simp only [accept] at h
    split at h
    · rename_i rem hd
      split at h
      · cases h
        refine ⟨?_, by rw [hopen, hd]; simp, hnd⟩
        intro k hk hmem
        rcases hcov k hk hmem with h1 | h1 | h1 | ⟨r, h1, h2⟩
        · exact Or.inl h1
        · rw [hd] at h1; cases h1
        · rw [hd] at h1; cases h1
        · rw [hd] at h1; cases h1
          exact Or.inr (Or.inr (Or.inr ⟨n :: rem, rfl, List.mem_cons_of_mem _ h2⟩))
      · cases h
    · cases h
  | dRead n =>
    simp only [accept] at h
    split at h
    · rename_i rem hd
      split at h
      · cases h
        refine ⟨?_, by rw [hopen, hd]; simp, hnd.erase n⟩
        intro k hk hmem
        have hkn : k ≠ n := by
          intro he; subst he
          exact (List.Nodup.not_mem_erase hnd) hmem
        have hmem' : k ∈ s.todo := List.mem_of_mem_erase hmem
        rcases hcov k hk hmem' with h1 | h1 | h1 | ⟨r, h1, h2⟩
        · exact Or.inl h1
        · rw [hd] at h1; cases h1
        · rw [hd] at h1; cases h1
        · rw [hd] at h1; cases h1
          exact Or.inr (Or.inr (Or.inr ⟨rem.erase n, rfl, (List.mem_erase_of_ne hkn).2 h2⟩))
      · cases h
    · cases h
  | dEnd =>
    simp only [accept] at h
    split at h
    · rename_i rem hd
      split at h
      · rename_i hr; cases h
        subst hr
        refine ⟨?_, by rw [hopen, hd]; simp, hnd⟩
        intro k hk hmem
        rcases hcov k hk hmem with h1 | h1 | h1 | ⟨r, h1, h2⟩
        · exact Or.inl h1
        · rw [hd] at h1; cases h1
        · rw [hd] at h1; cases h1
        · rw [hd] at h1; cases h1; simp at h2
      · cases h
    · cases h

def Reach (s : St) : Prop := ∃ evs, acceptAll {} evs = some s

theorem reach_inv (s : St) (h : Reach s) : Inv s := by
  obtain ⟨evs, h⟩ := h
  have key : ∀ (evs : List Ev) (s0 s1 : St), Inv s0 → acceptAll s0 evs = some s1 → Inv s1 := by
    intro evs
    induction evs with
    | nil => intro s0 s1 h0 ha; simp [acceptAll] at ha; subst ha; exact h0
    | cons e es ih =>
      intro s0 s1 h0 ha
      simp only [acceptAll] at ha
      cases h1 : accept s0 e with
      | none => simp [h1] at ha
      | some s2 => simp [h1] at ha; exact ih s2 s1 (step_inv s0 s2 e h0 h1) ha
  exact key evs {} s inv_init h

/-- **No lost wake-up**, for every interleaving of any number of injectors with the daemon: whenever
the daemon is outside a todo scan and some injector has completed its publish-then-signal steps for
an entry that is still unprocessed, the trigger descriptor is readable — `select` returns at once,
without the periodic rescan. -/
theorem C16_no_lost_wakeup (s : St) (h : Reach s) (n : Nat) (hp : pulled (s.pc n) = true) (hm : n ∈ s.todo)
    (hd : s.d = .idle) : s.buf = true := by
  rcases (reach_inv s h).cov n hp hm with h1 | h1 | h1 | ⟨r, h1, _⟩
  · exact h1
  · rw [hd] at h1; cases h1
  · rw [hd] at h1; cases h1
  · rw [hd] at h1; cases h1

/-- **A scan in progress covers it**: if the wake-up is not pending, the daemon is inside
`trigger_set()`/before `opendir` (so the coming scan starts after the link), or its open directory
stream will still return the entry. -/
theorem C16_covered (s : St) (h : Reach s) (n : Nat) (hp : pulled (s.pc n) = true) (hm : n ∈ s.todo) : Covered s n :=
  (reach_inv s h).cov n hp hm

/-- ACCEPTOR GUARD, not a proved consequence: this restates the guard of `Trigger.accept` for `dEnd` ("readdir returns
NULL only after it has returned every entry the stream covers": `closedir` needs `rem = []`).  It is an ASSUMPTION of
the model that the invariant rests on; its support is the trace replay — every enumerated interleaving of the real
programs must be accepted by `Trigger.accept` (driver: DISAGREE on a rejected event).  It additionally assumes that
readdir does not skip entries while the daemon itself unlinks todo/ entries in the middle of the scan (true of
harness/sim.c, which is the only file system it is exercised on).  That it cannot be more than a guard is proved:
with this guard alone removed a lost wake-up is reachable (`C16_guards_necessary`, `endEarly`). -/
theorem C16_scan_complete (s s' : St) (h : accept s .dEnd = some s') : s.d = .scanning [] := by
  simp only [accept] at h
  split at h
  · rename_i rem hd
    split at h
    · rename_i hr; subst hr; exact hd
    · cases h
  · cases h

/-- ACCEPTOR GUARDS, not proved consequences: this restates two guards of `Trigger.accept`.  **Order in the daemon**:
`opendir` is accepted only right after the FIFO was reopened (`trigger_set` precedes `opendir`); **order in the
injector**: the trigger is opened only after the link.  These are the two ASSUMPTIONS about the programs the invariant
rests on; they are validated by replaying every enumerated trace of the real programs through the acceptor (a program
that swaps them produces a rejected event: DISAGREE, and the oracle then finds the lost wake-up).
Session 4, precisely: the invariant does NOT need "opendir only right after trigger_set" (`C16_order_opendir_guard_removed`: it
holds for every trace with that guard removed; the order matters for the no-spin half); it DOES need "link before pull" and "a
re-arm is followed by a scan" (`C16_guards_necessary`: a lost wake-up is reachable with either removed). -/
theorem C16_order (s s' : St) :
    (accept s .dOpendir = some s' → s.d = .reopened) ∧ (∀ n ok, accept s (.iOpen n ok) = some s' → s.pc n = .linked) := by
  constructor
  · intro h; simp only [accept] at h; split at h
    · rename_i hg; exact hg
    · cases h
  · intro n ok h; simp only [accept] at h; split at h
    · rename_i hg; exact hg.1
    · cases h

/-! ### Which guards does the invariant rest on? (extension round, session 4; `Nq.TriggerRelaxed`) -/

/-- **The daemon half of `C16_order` with the guard REMOVED.**  Over the traces of the acceptor in which `opendir(todo)` is
accepted WITHOUT a preceding `trigger_set()` as well (`opendirAnywhere`; the language contains every trace of `accept`), the
invariant still holds in every reachable state, hence no wake-up is lost: "trigger_set precedes opendir" is not an assumption
the no-lost-wake-up theorem rests on.  What the program's order buys is the other half of the property (no busy loop: a scan
that does not re-arm first leaves the FIFO readable); the half that matters for safety is "never AFTER" — see
`C16_guards_necessary`, `skipScan`. -/
theorem C16_order_opendir_guard_removed (evs : List Ev) (s : St)
    (h : acceptAllX { opendirAnywhere := true } {} evs = some s) :
    Inv s ∧ ∀ n, pulled (s.pc n) = true → n ∈ s.todo → s.d = .idle → s.buf = true := by
  have step : ∀ (s0 s1 : St) (e : Ev), Inv s0 → acceptX { opendirAnywhere := true } s0 e = some s1 → Inv s1 := by
    intro s0 s1 e h0 ha
    simp only [acceptX] at ha
    cases h1 : accept s0 e with
    | some s2 => simp only [h1, Option.some.injEq] at ha; subst ha; exact step_inv s0 s2 e h0 h1
    | none =>
      simp only [h1] at ha
      cases e <;> simp [extra] at ha
      case dOpendir =>
        obtain ⟨hd, hs⟩ := ha
        subst hs
        refine ⟨?_, ?_, h0.nodup⟩
        · intro n _ hm
          exact Or.inr (Or.inr (Or.inr ⟨s0.todo, rfl, hm⟩))
        · have := h0.open_iff
          simp only [hd] at this
          simp [this]
      case dEnd =>
        split at ha <;> simp at ha
  have key : ∀ (evs : List Ev) (s0 s1 : St), Inv s0 → acceptAllX { opendirAnywhere := true } s0 evs = some s1 → Inv s1 := by
    intro evs
    induction evs with
    | nil => intro s0 s1 h0 ha; simp [acceptAllX] at ha; subst ha; exact h0
    | cons e es ih =>
      intro s0 s1 h0 ha
      simp only [acceptAllX] at ha
      cases h1 : acceptX { opendirAnywhere := true } s0 e with
      | none => simp [h1] at ha
      | some s2 => simp [h1] at ha; exact ih s2 s1 (step s0 s2 e h0 h1) ha
  have hi := key evs {} s inv_init h
  refine ⟨hi, ?_⟩
  intro n hp hm hd
  rcases hi.cov n hp hm with h1 | h1 | h1 | ⟨r, h1, _⟩
  · exact h1
  · rw [hd] at h1; cases h1
  · rw [hd] at h1; cases h1
  · rw [hd] at h1; cases h1

/-- **The other guards cannot be more than guards**: with any ONE of them removed a lost wake-up (`Trigger.lost`: daemon
outside a scan, injection 5 complete and unprocessed, FIFO not readable) is reachable — so they are not consequences of
anything else in the model; they are assumptions about the programs (order of the calls in qmail-queue.c `main` and
qmail-send.c `todo_do`) and about the file system (readdir), and their only possible support is the replay of the real
programs' traces through `Trigger.accept` (DISAGREE on a rejected event).
* `pullBeforeLink` (injector half of `C16_order` removed): the injector pulls, the daemon re-arms and scans an empty todo,
  then the injector links;
* `skipScan` ("trigger_set … never after": re-arm not followed by a scan — `todo_do` re-arming after its scan): the entry is
  linked and the pull lands during the scan that does not see it, then the re-arm clears the FIFO;
* `endEarly` (`C16_scan_complete` removed): injection while the daemon is between close and reopen (ENXIO), the scan covers the
  entry but readdir returns NULL first. -/
theorem C16_guards_necessary :
    (∃ evs, (acceptAllX { pullBeforeLink := true } {} evs).any (fun s => lost s 5) = true)
    ∧ (∃ evs, (acceptAllX { skipScan := true } {} evs).any (fun s => lost s 5) = true)
    ∧ (∃ evs, (acceptAllX { endEarly := true } {} evs).any (fun s => lost s 5) = true) := by
  refine ⟨⟨[.dOpen, .dClose, .dOpen, .dOpendir, .dEnd, .iOpen 5 true, .iWrite 5 true, .iClose 5,
            .dClose, .dOpen, .dOpendir, .dEnd, .iLink 5], by decide⟩,
          ⟨[.dOpen, .dClose, .dOpen, .dOpendir, .iLink 5, .iOpen 5 true, .iWrite 5 true, .iClose 5, .dEnd,
            .dClose, .dOpen, .dEnd], by decide⟩,
          ⟨[.dOpen, .dClose, .iLink 5, .iOpen 5 false, .dOpen, .dOpendir, .dEnd], by decide⟩⟩

/-- none of these traces is accepted by the real acceptor (the guards are what rejects them), and without relaxation the
relaxed acceptor is the real one -/
example : acceptAll {} [.dOpen, .dClose, .dOpen, .dOpendir, .dEnd, .iOpen 5 true] = none := by decide
example : acceptAll {} [.dOpen, .dClose, .dOpen, .dOpendir, .iLink 5, .iOpen 5 true, .iWrite 5 true, .iClose 5, .dEnd, .dClose, .dOpen, .dEnd] = none := by decide
example : acceptAll {} [.dOpen, .dClose, .iLink 5, .iOpen 5 false, .dOpen, .dOpendir, .dEnd] = none := by decide
/-- `C16_order_opendir_guard_removed` is not vacuous: a scan without a re-arm is in the relaxed language (and not in the real
one); the pull that arrived stays visible -/
example : (acceptAllX { opendirAnywhere := true } {} [.dOpen, .dClose, .dOpen, .dOpendir, .dEnd, .iLink 5, .iOpen 5 true, .iWrite 5 true, .iClose 5,
            .dOpendir, .dRead 5, .dEnd]).map (fun s => (s.buf, s.todo)) = some (true, []) := by decide
example : acceptAll {} [.dOpen, .dClose, .dOpen, .dOpendir, .dEnd, .dOpendir] = none := by decide

/-! ### Bounded-steps liveness of the trigger protocol -/

theorem reach_scanInv (s : St) (h : Reach s) : ScanInv s := by
  obtain ⟨evs, h⟩ := h
  exact scanInv_acceptAll evs {} s scanInv_init h

/-- **Bounded steps** (decreasing measure `Trigger.phi`): from any state satisfying the scan invariant in
which entry `n` is unprocessed, every run of the daemon *on its own* — no injector step, no 25-minute
timer, whatever order readdir returns the entries in and whether or not it reports entries linked after
opendir — that is `2·|todo| + 3` steps long has processed `n`.  (The bound is attained: `n` missing from the
stream of a scan in progress costs the rest of that scan, closedir, close, open, opendir and a second scan.)
Scope: this is a statement about daemon-only suffixes (`drun`: no injector step in between).  With injector steps
interleaved the measure can grow (todo grows, `dSeeNew`), so "within 2·|todo|+3 own steps counted across an interleaved
run" is NOT claimed; the driver's budget is renewed by every injector step.  "Processed" = the name was returned by
readdir and handed to todo_do (`dRead`), see `C16_rescan_backstop` for what lies beyond. -/
theorem C16_bounded (s s' : St) (hi : ScanInv s) (n : Nat) (hm : n ∈ s.todo) (boot : Bool) (evs : List Ev)
    (hrun : drun boot s evs = some s') (hlen : 2 * s.todo.length + 3 ≤ evs.length) : n ∉ s'.todo := by
  intro hn'
  have h1 := drun_short n evs boot s s' hi hm hrun hn'
  have h2 := phi_le boot s n
  omega

/-- **Progress without the timer**: while an entry whose injector has completed its publish-then-signal steps
is unprocessed, the daemon is never blocked — the step its code takes next is enabled and is one of its own
steps (in `idle` that is because the FIFO is readable: select returns). -/
theorem C16_progress (s : St) (hi : Inv s) (n : Nat) (hp : pulled (s.pc n) = true) (hm : n ∈ s.todo) :
    ∃ e, dnext s = some e ∧ dAllowed false s e = true ∧ (accept s e).isSome = true := by
  cases hd : s.d with
  | idle =>
    have hb : s.buf = true := by
      rcases hi.cov n hp hm with h1 | h1 | h1 | ⟨r, h1, _⟩
      · exact h1
      · rw [hd] at h1; cases h1
      · rw [hd] at h1; cases h1
      · rw [hd] at h1; cases h1
    have ho : s.dOpen = true := by
      cases hdo : s.dOpen with
      | true => rfl
      | false => have := hi.open_iff.1 hdo; rw [hd] at this; cases this
    exact ⟨.dClose, by simp [dnext, hd, hb], by simp [dAllowed, hd, hb], by simp [accept, hd, ho]⟩
  | closed => exact ⟨.dOpen, by simp [dnext, hd], rfl, by simp [accept, hd]⟩
  | reopened => exact ⟨.dOpendir, by simp [dnext, hd], rfl, by simp [accept, hd]⟩
  | scanning rem =>
    cases rem with
    | nil => exact ⟨.dEnd, by simp [dnext, hd], rfl, by simp [accept, hd]⟩
    | cons x r => exact ⟨.dRead x, by simp [dnext, hd], rfl, by simp [accept, hd]⟩

theorem dauto_frame (k : Nat) : ∀ (s : St) (x : Nat), x ∈ (dauto k s).todo → x ∈ s.todo := by
  induction k with
  | zero => intro s x hx; exact hx
  | succ k ih =>
    intro s x hx
    simp only [dauto] at hx
    cases hn : dnext s with
    | none => simpa [hn] using hx
    | some e =>
      cases ha : accept s e with
      | none => simpa [hn, ha] using hx
      | some s1 =>
        simp only [hn, ha] at hx
        have hx1 := ih s1 x hx
        -- `dnext` only proposes daemon events
        have hall : dAllowed true s e = true ∨ (e = .dClose ∧ s.d = .idle) := by
          cases hd : s.d with
          | idle => simp only [dnext, hd] at hn; split at hn <;> cases hn; exact Or.inr ⟨rfl, rfl⟩
          | closed => simp only [dnext, hd] at hn; cases hn; exact Or.inl rfl
          | reopened => simp only [dnext, hd] at hn; cases hn; exact Or.inl rfl
          | scanning rem =>
            cases rem with
            | nil => simp only [dnext, hd] at hn; cases hn; exact Or.inl rfl
            | cons y r => simp only [dnext, hd] at hn; cases hn; exact Or.inl rfl
        rcases hall with hall | ⟨rfl, hd⟩
        · exact (daemon_step_frame true s s1 e hall ha).1 x hx1
        · simp only [accept, hd] at ha
          split at ha
          · cases ha; exact hx1
          · cases ha

/-- **Bounded steps, executable form**: the daemon's code running alone (`dauto`: close, open, opendir, readdir …,
closedir, in program order) from any state satisfying the invariants in which `n` is unprocessed and its
injector has finished (or at least written its byte) processes `n` within `2·|todo| + 3` steps. -/
theorem C16_bounded_run (s : St) (hi : Inv s) (hs : ScanInv s) (n : Nat) (hp : pulled (s.pc n) = true)
    (hm : n ∈ s.todo) : n ∉ (dauto (2 * s.todo.length + 3) s).todo := by
  have key : ∀ (k : Nat) (s : St), Inv s → ScanInv s → pulled (s.pc n) = true → phi false s n ≤ k →
      n ∉ (dauto k s).todo := by
    intro k
    induction k with
    | zero =>
      intro s _ _ _ hk hn
      have := phi_pos false s n hn
      omega
    | succ k ih =>
      intro s hi hs hp hk hn
      have hm : n ∈ s.todo := dauto_frame _ s n hn
      obtain ⟨e, he, hal, hsome⟩ := C16_progress s hi n hp hm
      obtain ⟨s1, hacc⟩ := Option.isSome_iff_exists.1 hsome
      simp only [dauto, he, hacc] at hn
      have hm1 : n ∈ s1.todo := dauto_frame _ s1 n hn
      have hlt := phi_step false s s1 e n hs hm hal hacc hm1
      have hb : bootAfter false e = false := by cases e <;> rfl
      rw [hb] at hlt
      have hpc : s1.pc = s.pc := (daemon_step_frame false s s1 e hal hacc).2
      exact ih s1 (step_inv s s1 e hi hacc) (scanInv_step s s1 e hs hacc) (by rw [hpc]; exact hp) (by omega) hn
  exact key _ s hi hs hp (phi_le false s n)

/-! ### The select preparation of qmail-send's main loop -/

open Nq.SelPrep in
/-- "something is pending now", spelled out: a pass has a free delivery slot and may proceed, or a todo scan is
in progress (neither counts once exit was requested), or a cleanup scan is in progress, or one of the due
times the daemon can act on (`SelPrep.dueTimes`, spelled out by `SelPrep.mem_dueTimes`) has been reached. -/
def Pending (s : SelPrep.Snap) : Prop :=
  (s.exitasap = false ∧ ∃ c, c ∈ s.chans ∧ c.passOpen = true ∧ delAvail c = true)
  ∨ (s.exitasap = false ∧ s.tododir = true)
  ∨ s.flagcleanup = true
  ∨ ∃ t, t ∈ dueTimes s ∧ t ≤ s.recent

open Nq.SelPrep in
/-- the executable `SelPrep.pending` (the driver's oracle) is `Pending` -/
theorem pending_iff (s : Snap) : pending s = true ↔ Pending s := by
  simp only [pending, immediate, Pending, Bool.or_eq_true, Bool.and_eq_true, Bool.not_eq_true', List.any_eq_true,
    decide_eq_true_eq]
  constructor
  · rintro (((⟨he, c, hc, hp, hd⟩ | h) | h) | h)
    · exact Or.inl ⟨he, c, hc, hp, hd⟩
    · exact Or.inr (Or.inl h)
    · exact Or.inr (Or.inr (Or.inl h))
    · exact Or.inr (Or.inr (Or.inr h))
  · rintro (⟨he, c, hc, hp, hd⟩ | h | h | h)
    · exact Or.inl (Or.inl (Or.inl ⟨he, c, hc, hp, hd⟩))
    · exact Or.inl (Or.inl (Or.inr h))
    · exact Or.inl (Or.inr h)
    · exact Or.inr h

open Nq.SelPrep in
/-- **No spin, no oversleeping** (the whole chain `wakeup = recent + SLEEP_FOREVER`, pass_selprep, todo_selprep,
cleanup_selprep, `tv.tv_sec = wakeup <= recent ? 0 : wakeup - recent + SLEEP_FUZZ`), for a clock at or after
the epoch: the timeout is 0 exactly when something is pending now; otherwise it is positive, equals
`wakeup - recent + SLEEP_FUZZ`, and `wakeup` is the *minimum* of `recent + SLEEP_FOREVER` and the due times the
daemon can act on — it never sleeps past its earliest due event by more than the fuzz, never longer than
`SLEEP_FOREVER + SLEEP_FUZZ`, and never wakes for a time that is not due. -/
theorem C16_no_spin (s : Snap) (h0 : 0 ≤ s.recent) :
    (timeout s = 0 ↔ Pending s) ∧
    (¬ Pending s →
      0 < timeout s ∧ timeout s = wakeup s - s.recent + SLEEP_FUZZ ∧
      (∀ t, t ∈ dueTimes s → wakeup s ≤ t) ∧ wakeup s ≤ s.recent + SLEEP_FOREVER ∧
      (wakeup s = s.recent + SLEEP_FOREVER ∨ wakeup s ∈ dueTimes s) ∧
      timeout s ≤ SLEEP_FOREVER + SLEEP_FUZZ) := by
  have hfz := fuzz_nonneg
  have hfv := forever_pos
  have hzero : timeout s = 0 ↔ wakeup s ≤ s.recent := by
    unfold timeout
    constructor
    · intro h; split at h
      · assumption
      · omega
    · intro h; rw [if_pos h]
  cases him : immediate s with
  | true =>
    have hw := wakeup_of_immediate s him
    have hp : Pending s := (pending_iff s).1 (by simp [pending, him])
    exact ⟨⟨fun _ => hp, fun _ => hzero.2 (by omega)⟩, fun hn => absurd hp hn⟩
  | false =>
    have hw := wakeup_of_not_immediate s him
    have hpend : Pending s ↔ ∃ t, t ∈ dueTimes s ∧ t ≤ s.recent := by
      rw [← pending_iff]; simp [pending, him]
    have hle : wakeup s ≤ s.recent ↔ ∃ t, t ∈ dueTimes s ∧ t ≤ s.recent := by
      rw [hw, lowerL_le_iff]
      constructor
      · rintro (h | h)
        · omega
        · exact h
      · exact Or.inr
    refine ⟨by rw [hzero, hle, hpend], ?_⟩
    intro hn
    have hgt : ¬ wakeup s ≤ s.recent := fun h => hn (hpend.2 (hle.1 h))
    have hto : timeout s = wakeup s - s.recent + SLEEP_FUZZ := by unfold timeout; rw [if_neg hgt]
    have hinit : wakeup s ≤ s.recent + SLEEP_FOREVER := by rw [hw]; exact lowerL_le_init _ _
    refine ⟨by omega, hto, ?_, hinit, ?_, by omega⟩
    · intro t ht; rw [hw]; exact lowerL_le_mem _ _ _ ht
    · rw [hw]; exact lowerL_mem _ _

open Nq.SelPrep in
/-- **Never past ANY queued message.**  `C16_no_spin` speaks about the due times the code reads — the ROOT of each
priority queue.  This is the property over everything that is queued (`Queued`: the due times of all entries of
`pqchan[c]`, `pqfail`, `pqdone`; `queuedDue`: those the daemon can act on, plus the two timers): provided every
`prioq_min` the loop read is a minimum of its queue (`HeapRoots`), the timeout is 0 exactly when immediate work
exists or SOME queued entry / timer has been reached, and otherwise the wake-up time the select call asks for,
`recent + timeout - SLEEP_FUZZ`, is at or before EVERY queued entry and timer, and is one of them (or
`recent + SLEEP_FOREVER`).  The driver evaluates exactly these predicates on the implementation's timeout and
the implementation's arrays (ORACLE) and the premise on the arrays (DISAGREE); the premise is what prioq.c
guarantees (`C16_roots_of_heap`).  Without the premise the conclusion fails (example below). -/
theorem C16_never_past_any_queued (s : Snap) (q : Queued) (h0 : 0 ≤ s.recent) (hr : HeapRoots s q) :
    (timeout s = 0 ↔ pendingQ s q = true) ∧
    (pendingQ s q = false →
      0 < timeout s ∧
      (∀ t, t ∈ queuedDue s q → s.recent + timeout s - SLEEP_FUZZ ≤ t) ∧
      (s.recent + timeout s - SLEEP_FUZZ = s.recent + SLEEP_FOREVER ∨
        s.recent + timeout s - SLEEP_FUZZ ∈ queuedDue s q)) := by
  have hany : (∃ t, t ∈ queuedDue s q ∧ t ≤ s.recent) ↔ ∃ t, t ∈ dueTimes s ∧ t ≤ s.recent := by
    constructor
    · rintro ⟨t, ht, hle⟩
      obtain ⟨m, hm, hmt⟩ := queued_ge_due s q hr t ht
      exact ⟨m, hm, by omega⟩
    · rintro ⟨t, ht, hle⟩
      exact ⟨t, dueTimes_sub_queued s q hr t ht, hle⟩
  have hq : pendingQ s q = true ↔ Pending s := by
    rw [← pending_iff]
    simp only [pendingQ, pending, Bool.or_eq_true, List.any_eq_true, decide_eq_true_eq, hany]
  obtain ⟨h1, h2⟩ := C16_no_spin s h0
  refine ⟨h1.trans hq.symm, ?_⟩
  intro hn
  have hnp : ¬ Pending s := fun hp => by rw [hq.2 hp] at hn; cases hn
  obtain ⟨hpos, hto, hle, _, hmem, _⟩ := h2 hnp
  have hw : s.recent + timeout s - SLEEP_FUZZ = wakeup s := by omega
  refine ⟨hpos, ?_, ?_⟩
  · intro t ht
    obtain ⟨m, hm, hmt⟩ := queued_ge_due s q hr t ht
    have := hle m hm
    omega
  · rw [hw]
    rcases hmem with h | h
    · exact Or.inl h
    · exact Or.inr (dueTimes_sub_queued s q hr _ h)

open Nq.SelPrep in
/-- the premise `HeapRoots` is what prioq.c provides: for the model of prioq.c (`Nq.Sched.PQ`, C15) in heap order —
which every sequence of `prioq_insert`/`prioq_delmin` preserves (`C15_heap`) — `prioq_min` fails exactly on the
empty queue and otherwise returns an entry that no queued entry precedes. -/
theorem C16_roots_of_heap (pq : Nq.Sched.PQ) (h : Nq.Sched.Heap pq) :
    RootIsMin (pq.min.map (·.dt)) (pq.toList.map (·.dt)) := by
  cases hm : pq.min with
  | none =>
    have hz := Nq.Lemmas.Sched.min_none pq hm
    refine Or.inl ⟨rfl, ?_⟩
    have : pq.toList = [] := List.eq_nil_of_length_eq_zero (by simpa using hz)
    rw [this]; rfl
  | some pe =>
    obtain ⟨hne, hm0⟩ := Nq.Lemmas.Sched.min_eq pq pe hm
    have h0 : 0 < pq.size := by omega
    have hmem : pe ∈ pq.toList := by
      rw [hm0, getElem!_pos pq 0 h0]
      exact Array.mem_toList_iff.mpr (Array.getElem_mem h0)
    refine Or.inr ⟨pe.dt, rfl, List.mem_map.2 ⟨pe, hmem, rfl⟩, ?_⟩
    intro t ht
    obtain ⟨e, he, rfl⟩ := List.mem_map.1 ht
    rw [hm0]
    exact Nq.Lemmas.Sched.heap_root_le_mem pq h e he

open Nq.SelPrep in
/-- **The first scan is unconditional** (start-up of the trigger protocol).  The trigger only works between an injector and
the process that holds the FIFO open at the moment of the pull; every injection whose publish-then-signal steps ran before
the new daemon's first `open(lock/trigger)` — daemon down (ENXIO), previous daemon draining after TERM (the byte dies with
that process), new daemon still in `pqstart()` — is covered by the scan of the first loop iteration alone.  In `Trigger`
this is the ASSUMPTION that the daemon leaves its start-up state `.reopened` only into a scan (there is no step from
`.reopened` to `.idle`; `dnext .reopened = dOpendir`; `Reach` contains every interleaving of complete injections with the
start-up events, so `C16_no_lost_wakeup`/`C16_covered` speak about them).  Here it is discharged from the code: the
translator reads `nexttodorun = now() + TODO_INIT_DELAY` and the `trigger_set()` call out of `todo_init()`
(`Nq.Gen.SendLoop`, regenerated every run), and for EVERY snapshot taken while `nexttodorun` still has its initial value
(it is only rewritten when a scan starts) at a clock that has not run backwards, the loop asks select for timeout 0 and
`todo_do` passes its guard without any pull.  The proof needs `TODO_INIT_DELAY = 0`: with `now() + SLEEP_TODO` it fails. -/
theorem C16_first_scan_unconditional (s : Snap) (t0 : Int) (h0 : 0 ≤ s.recent) (ht : t0 ≤ s.recent)
    (hn : s.nexttodorun = t0 + ((Nq.Gen.SendLoop.TODO_INIT_DELAY : Nat) : Int)) (he : s.exitasap = false) :
    timeout s = 0 ∧ (∀ ready, todoDoActs s ready = true) ∧ Nq.Gen.SendLoop.TODO_INIT_ARMS = true := by
  have hd : ((Nq.Gen.SendLoop.TODO_INIT_DELAY : Nat) : Int) = 0 := by decide
  have hle : s.nexttodorun ≤ s.recent := by rw [hn, hd]; omega
  refine ⟨?_, ?_, rfl⟩
  · have hm : s.nexttodorun ∈ dueTimes s := (mem_dueTimes s _).2 (Or.inr (Or.inr (Or.inr (Or.inl ⟨he, rfl⟩))))
    exact (C16_no_spin s h0).1.2 (Or.inr (Or.inr (Or.inr ⟨_, hm, hle⟩)))
  · intro ready
    simp [todoDoActs, he, hle]

open Nq.SelPrep in
/-- **Rescan backstop** (complement for what the trigger model leaves out).  `Trigger.Ev.dRead n` stands for "readdir
returned the name `n` and handed it to todo_do"; the failure paths of todo_do — `opendir` failing after `trigger_set()`
has consumed the pull, and every `return`/`goto fail` after readdir, which leaves todo/n in place with no wake-up
pending — are outside the property's quantifier (no faults) and outside `Trigger`.  What the code guarantees for them is
the timer: as long as exit was not requested, select is never asked to sleep beyond `nexttodorun` (plus the fuzz), and
the first loop body that runs at or after `nexttodorun` gets past todo_do's guard without any pull.  `nexttodorun` is
only ever set to `recent + SLEEP_TODO` at the start of a scan, so such an entry waits at most SLEEP_TODO (+ fuzz) after
the start of the last successful scan — never for ever. -/
theorem C16_rescan_backstop (s : Snap) (h0 : 0 ≤ s.recent) (he : s.exitasap = false) :
    (timeout s = 0 ∨ s.recent + timeout s - SLEEP_FUZZ ≤ s.nexttodorun) ∧
    (∀ r' ready, s.nexttodorun ≤ r' → todoDoActs { s with recent := r' } ready = true) := by
  refine ⟨?_, ?_⟩
  · obtain ⟨h1, h2⟩ := C16_no_spin s h0
    by_cases hp : Pending s
    · exact Or.inl (h1.2 hp)
    · obtain ⟨_, hto, hle, _, _, _⟩ := h2 hp
      have hm : s.nexttodorun ∈ dueTimes s := (mem_dueTimes s _).2 (Or.inr (Or.inr (Or.inr (Or.inl ⟨he, rfl⟩))))
      have := hle _ hm
      exact Or.inr (by omega)
  · intro r' ready hr
    simp [todoDoActs, he, hr]

open Nq.SelPrep in
/-- pending work passes the guards of the loop body, whatever descriptors are ready and however far the clock
has moved on -/
theorem pending_acts (s : Snap) (r' : Int) (hr : s.recent ≤ r') (ready : Fd → Bool) (hp : Pending s) :
    bodyActs { s with recent := r' } ready = true := by
  simp only [bodyActs, Bool.or_eq_true]
  rcases hp with ⟨he, c, hc, hp, hd⟩ | ⟨he, ht⟩ | hcl | ⟨t, ht, hle⟩
  · left; right
    simp only [passDoActs, Bool.or_eq_true, List.any_eq_true]
    exact Or.inl (Or.inl ⟨c, hc, by simp [passChanActs, he, hp, hd]⟩)
  · left; left; right; simp [todoDoActs, he, ht]
  · right; simp [cleanupDoActs, hcl]
  · rcases (mem_dueTimes s t).1 ht with ⟨he, hj, c, hc, hp, hq⟩ | ⟨he, hq⟩ | ⟨he, hq⟩ | ⟨he, rfl⟩ | rfl
    · left; right
      simp only [passDoActs, Bool.or_eq_true, List.any_eq_true]
      refine Or.inl (Or.inl ⟨c, hc, ?_⟩)
      have hdue : due r' c.pqMin = true := by rw [hq]; simp only [due, decide_eq_true_eq]; omega
      simp only [passChanActs, hp, hdue, Bool.and_true, Bool.false_eq_true, if_false, Bool.and_eq_true,
        Bool.not_eq_true']
      exact ⟨he, hj⟩
    · left; right
      simp only [passDoActs, Bool.or_eq_true]
      refine Or.inl (Or.inr ?_)
      simp only [hq, due, decide_eq_true_eq]; omega
    · left; right
      simp only [passDoActs, Bool.or_eq_true]
      refine Or.inr ?_
      simp only [hq, due, decide_eq_true_eq]; omega
    · left; left; right
      simp only [todoDoActs, he, Bool.not_false, Bool.true_and, Bool.or_eq_true, decide_eq_true_eq]
      right; omega
    · right
      simp only [cleanupDoActs, Bool.or_eq_true, decide_eq_true_eq]
      right; omega

open Nq.SelPrep in
/-- **A select that does not sleep is followed by work**: if the timeout was 0, or select returned because a
descriptor of the prepared sets was ready, then (whatever the clock reads afterwards) at least one of comm_do,
del_do, todo_do, pass_do, cleanup_do gets past its guards — in particular the FIFO is only watched while
todo_do will act on it (not after exit was requested), so a pulled trigger cannot make the loop spin. -/
theorem C16_early_return_acts (s : Snap) (h0 : 0 ≤ s.recent) (r' : Int) (hr : s.recent ≤ r') (ready : Fd → Bool)
    (h : timeout s = 0 ∨ ∃ f, f ∈ rfds s ++ wfds s ∧ ready f = true) :
    bodyActs { s with recent := r' } ready = true := by
  rcases h with h | ⟨f, hf, hrd⟩
  · exact pending_acts s r' hr ready ((C16_no_spin s h0).1.1 h)
  · simp only [bodyActs, Bool.or_eq_true]
    rcases List.mem_append.1 hf with hf | hf
    · rcases List.mem_append.1 hf with hf | hf
      · left; left; left; right
        exact delDoActs_of_mem ready f hrd 0 s.chans hf
      · left; left; right
        simp only [todoWatch] at hf
        split at hf
        · rename_i hc
          simp only [List.mem_singleton] at hf; subst hf
          simp only [Bool.and_eq_true, Bool.not_eq_true'] at hc
          simp [todoDoActs, hc.1, hc.2, hrd]
        · simp at hf
    · left; left; left; left
      exact commDoActs_of_mem ready f hrd 0 s.chans hf

open Nq.SelPrep in
/-- **A sleep is justified**: with no descriptor ready, the loop body would act exactly when something is
pending — so (by `C16_no_spin`) a positive timeout is only ever requested when none of the five `*_do`
functions has anything to do.  The one exception is stated, not hidden: once exit was requested pass_selprep
ignores pqfail/pqdone, although pass_do would still process them; the daemon then wakes for the reports of the
deliveries still in flight (and for cleanup) only. -/
theorem C16_sleep_justified (s : Snap) :
    bodyActs s (fun _ => false) = true ↔
      Pending s ∨ (s.exitasap = true ∧ (due s.recent s.pqfailMin = true ∨ due s.recent s.pqdoneMin = true)) := by
  simp only [bodyActs, commDoActs_none, delDoActs_none, Bool.false_or, Bool.or_eq_true]
  constructor
  · rintro ((ht | hp) | hc)
    · simp only [todoDoActs, Bool.and_eq_true, Bool.not_eq_true', Bool.or_eq_true, Bool.and_false, Bool.false_eq_true,
        or_false, decide_eq_true_eq] at ht
      obtain ⟨he, ht | ht⟩ := ht
      · exact Or.inl (Or.inr (Or.inl ⟨he, ht⟩))
      · exact Or.inl (Or.inr (Or.inr (Or.inr ⟨_, (mem_dueTimes s _).2 (Or.inr (Or.inr (Or.inr (Or.inl ⟨he, rfl⟩)))), ht⟩)))
    · simp only [passDoActs, Bool.or_eq_true, List.any_eq_true] at hp
      rcases hp with (⟨c, hc, hp⟩ | hp) | hp
      · simp only [passChanActs, Bool.and_eq_true, Bool.not_eq_true'] at hp
        obtain ⟨he, hp⟩ := hp
        cases hpo : c.passOpen with
        | true =>
          simp only [hpo, if_true] at hp
          exact Or.inl (Or.inl ⟨he, c, hc, hpo, hp⟩)
        | false =>
          simp only [hpo, Bool.false_eq_true, if_false, Bool.and_eq_true] at hp
          obtain ⟨t, hq, hle⟩ := (due_iff _ _).1 hp.2
          exact Or.inl (Or.inr (Or.inr (Or.inr ⟨t, (mem_dueTimes s t).2 (Or.inl ⟨he, hp.1, c, hc, hpo, hq⟩), hle⟩)))
      · cases he : s.exitasap with
        | true => exact Or.inr ⟨rfl, Or.inl hp⟩
        | false =>
          obtain ⟨t, hq, hle⟩ := (due_iff _ _).1 hp
          exact Or.inl (Or.inr (Or.inr (Or.inr ⟨t, (mem_dueTimes s t).2 (Or.inr (Or.inl ⟨he, hq⟩)), hle⟩)))
      · cases he : s.exitasap with
        | true => exact Or.inr ⟨rfl, Or.inr hp⟩
        | false =>
          obtain ⟨t, hq, hle⟩ := (due_iff _ _).1 hp
          exact Or.inl (Or.inr (Or.inr (Or.inr ⟨t, (mem_dueTimes s t).2 (Or.inr (Or.inr (Or.inl ⟨he, hq⟩))), hle⟩)))
    · simp only [cleanupDoActs, Bool.or_eq_true, decide_eq_true_eq] at hc
      rcases hc with hc | hc
      · exact Or.inl (Or.inr (Or.inr (Or.inl hc)))
      · exact Or.inl (Or.inr (Or.inr (Or.inr ⟨_, (mem_dueTimes s _).2 (Or.inr (Or.inr (Or.inr (Or.inr rfl)))), hc⟩)))
  · rintro (hp | ⟨he, hd⟩)
    · have := pending_acts s s.recent (Int.le_refl _) (fun _ => false) hp
      simpa [bodyActs, commDoActs_none, delDoActs_none] using this
    · left; right
      simp only [passDoActs, Bool.or_eq_true]
      rcases hd with hd | hd
      · exact Or.inl (Or.inr hd)
      · exact Or.inr hd

open Nq.SelPrep in
/-- **Exit**: the loop is left exactly when exit was requested and no live spawner has a delivery in flight; until
then `C16_no_spin` applies with the exit-requested reading of `dueTimes` (only the cleanup timer). -/
theorem C16_exit_when_drained (s : Snap) :
    loopContinues s = false ↔ s.exitasap = true ∧ ∀ c, c ∈ s.chans → c.spawnAlive = true → c.used = 0 := by
  simp only [loopContinues, delCanexit, Bool.or_eq_false_iff, Bool.not_eq_false', List.all_eq_true, Bool.or_eq_true,
    Bool.not_eq_true', beq_iff_eq]
  constructor
  · rintro ⟨he, h⟩
    refine ⟨he, fun c hc ha => ?_⟩
    rcases h c hc with h1 | h1
    · rw [ha] at h1; cases h1
    · exact h1
  · rintro ⟨he, h⟩
    refine ⟨he, fun c hc => ?_⟩
    cases ha : c.spawnAlive with
    | false => exact Or.inl rfl
    | true => exact Or.inr (h c hc ha)

open Nq.SelPrep in
/-- **The excluded inputs** (`recent < 0`, a system clock before 1970): `*wakeup = 0` is the literal epoch, not
`recent`, so with immediate work pending and no negative due time the code asks select for `-recent + SLEEP_FUZZ`
seconds instead of 0 — it sleeps with work pending.  Not reachable with a sane clock; stated so that the
hypothesis `0 ≤ recent` of `C16_no_spin` is not a silent restriction. -/
theorem C16_pre_epoch (s : Snap) (hneg : s.recent < 0) (him : immediate s = true)
    (hd : ∀ t, t ∈ dueTimes s → 0 ≤ t) (hr : 0 ≤ s.recent + SLEEP_FOREVER) :
    timeout s = 0 - s.recent + SLEEP_FUZZ ∧ 0 < timeout s := by
  have hw := wakeup_immediate_eq_zero s him hd hr
  have hfz := fuzz_nonneg
  have : timeout s = 0 - s.recent + SLEEP_FUZZ := by
    unfold timeout; rw [hw, if_neg (by omega)]
  exact ⟨this, by omega⟩

/-! ### Non-vacuity -/

section
open Nq.SelPrep

/-- nothing queued, no scan: the daemon sleeps until the forced todo rescan, `SLEEP_TODO + SLEEP_FUZZ` -/
example : timeout { recent := 1000000000, chans := [{ conc := 5 }, { conc := 5 }], jobRefs := [0, 0], nexttodorun := 1000001500, cleanuptime := 1000076431 } = 1501 := by decide

/-- a deferred message on the remote channel is the earliest event; the local pass has no free slot -/
example : timeout { recent := 1000000000, chans := [{ conc := 1, used := 1, passOpen := true, pqMin := some 1000000100 }, { conc := 5, pqMin := some 1000000400 }], jobRefs := [1, 0], nexttodorun := 1000001500, cleanuptime := 1000076431 } = 401 := by decide

/-- the same with a free local slot: the pass proceeds, timeout 0 -/
example : timeout { recent := 1000000000, chans := [{ conc := 2, used := 1, passOpen := true }, { conc := 5, pqMin := some 1000000400 }], jobRefs := [1, 0], nexttodorun := 1000001500, cleanuptime := 1000076431 } = 0 := by decide

/-- exit requested with a delivery in flight: only the cleanup timer counts, the FIFO is not watched -/
example : (fun s => (loopContinues s, timeout s, rfds s)) { recent := 1000000000, exitasap := true, chans := [{ conc := 2, used := 1 }, { conc := 5, pqMin := some 999999999 }], jobRefs := [1, 0], tododir := true, nexttodorun := 999999000, cleanuptime := 1000000010 } = (true, 11, [.delIn 0, .delIn 1]) := by decide

/-- `Pending` and its negation are both inhabited -/
example : Pending { recent := 10, tododir := true } := Or.inr (Or.inl ⟨rfl, rfl⟩)
example : ¬ Pending { recent := 10, nexttodorun := 20, cleanuptime := 30 } := by
  rw [← pending_iff]; decide

/-- the pre-epoch case really sleeps -/
example : timeout { recent := -5, flagcleanup := true, nexttodorun := 0, cleanuptime := 3 } = 6 := by decide

-- why the oracle judges the timeout at the SIMULATOR's clock: the same correct computation on a `recent` that is 700 s stale
-- (not refreshed after an interrupted select) asks for 1501 s, which at the real time reaches 700 s past the forced rescan
open Nq.SelPrep in
example :
    let stale : Snap := { recent := 1000000000, chans := [{ conc := 5 }, { conc := 5 }], jobRefs := [0, 0], nexttodorun := 1000001500, cleanuptime := 1000076431 }
    let now : Int := 1000000700
    timeout stale = 1501 ∧ (dueTimes { stale with recent := now }).any (fun t => decide (now + timeout stale - SLEEP_FUZZ > t)) = true ∧
      timeout { stale with recent := now } = 801 := by decide

-- complement of C16_never_past_any_queued (why its premise is checked on the implementation): a channel queue whose
-- array is [t+3000, t+7] — the root is not the minimum, as after a sift-down that stops one level early — makes the
-- same, correct, select preparation ask for 1501 s although a queued message is due in 7 s
open Nq.SelPrep in
example :
    let s : Snap := { recent := 1000000000, chans := [{ conc := 5, pqMin := some 1000003000 }, { conc := 5 }], jobRefs := [0, 0],
                      nexttodorun := 1000001500, cleanuptime := 1000076431 }
    let q : Queued := { chans := [[1000003000, 1000000007], []] }
    timeout s = 1501 ∧ heapRoots s q = false ∧ pendingQ s q = false ∧
      (queuedDue s q).any (fun t => decide (s.recent + timeout s - SLEEP_FUZZ > t)) = true := by decide
-- ... and with the root in place (array [t+7, t+3000]) the premise holds and the daemon wakes for the message: 8 s
open Nq.SelPrep in
example :
    let s : Snap := { recent := 1000000000, chans := [{ conc := 5, pqMin := some 1000000007 }, { conc := 5 }], jobRefs := [0, 0],
                      nexttodorun := 1000001500, cleanuptime := 1000076431 }
    let q : Queued := { chans := [[1000000007, 1000003000], []] }
    timeout s = 8 ∧ heapRoots s q = true ∧ (queuedDue s q).all (fun t => decide (s.recent + timeout s - SLEEP_FUZZ ≤ t)) = true := by decide
end

/-- the bound of `C16_bounded` is attained: entry 5 is linked and signalled while a scan that does not see it is
under way (todo = [5], bound 2·1+3 = 5); four daemon steps (closedir, close, open, opendir) do not suffice, the
fifth (readdir) processes it -/
example : (acceptAll {} [.dOpen, .dClose, .dOpen, .dOpendir, .iLink 5, .iOpen 5 true, .iWrite 5 true, .iClose 5]).bind
      (fun s => (drun false s [.dEnd, .dClose, .dOpen, .dOpendir]).bind
        (fun s4 => (drun false s4 [.dRead 5]).map (fun s5 => (s.todo, s4.todo, s5.todo, phi false s 5))))
    = some ([5], [5], [], 5) := by
  decide

/-- … and the code's own order (`dauto`) takes exactly those steps -/
example : (acceptAll {} [.dOpen, .dClose, .dOpen, .dOpendir, .iLink 5, .iOpen 5 true, .iWrite 5 true, .iClose 5]).map
      (fun s => ((dauto 4 s).todo, (dauto 5 s).todo)) = some ([5], []) := by
  decide

/-- without a pull the daemon's own steps do not include re-arming: the timer-driven close is not `dAllowed` -/
example : (acceptAll {} [.dOpen, .dClose, .dOpen, .dOpendir, .dEnd, .iLink 5]).bind (fun s => drun false s [.dClose]) = none := by
  decide


/-- two injectors; the second links and pulls while the daemon is between close and reopen (ENXIO):
still covered, and picked up by the scan that follows -/
example : (acceptAll {} [.dOpen, .dClose, .dOpen, .dOpendir, .dEnd,
    .iLink 5, .iOpen 5 true, .iWrite 5 true, .dClose, .iLink 6, .iOpen 6 false, .dOpen, .iClose 5, .dOpendir,
    .dRead 6, .dRead 5, .dEnd]).map (fun s => (s.todo, s.buf)) = some ([], true) := by
  decide

/-- the wrong order (scan, then re-arm) is not the model's daemon -/
example : acceptAll {} [.dOpen, .dClose, .dOpendir] = none := by decide

-- start-up leg: an injection that completed before the daemon's first step (link, open fails with ENXIO) is accepted from the
-- initial state, the daemon's start-up (open; first todo_do: close, open, opendir) follows, and the first scan returns the entry
example : (acceptAll {} [.iLink 5, .iOpen 5 false, .dOpen, .dClose, .dOpen, .dOpendir, .dRead 5, .dEnd]).map
    (fun s => (s.todo, s.d)) = some ([], .idle) := by decide
-- ... and from the start-up state `.reopened` there is no way to `idle` that skips the scan: closedir is rejected
example : (acceptAll {} [.iLink 5, .iOpen 5 false, .dOpen]).bind (fun s => accept s .dEnd) = none := by decide


/-! ### Descriptor numbers and `nfds` (extension round, session 4) -/

open Nq.SelPrep Nq.SelFds in
/-- **`nfds` covers the sets exactly.**  For every snapshot and every assignment of descriptor numbers: `nfds ≥ 1`; every
descriptor that comm_selprep / del_selprep / trigger_selprep `FD_SET` is `< nfds`, so `select` examines all of them
(`watched` = the whole set); and `nfds` is tight: it is 1 (nothing above descriptor 0 set) or `max + 1` of what was set. -/
theorem C16_nfds_covers (s : Snap) (f : FdNums) :
    1 ≤ nfds s f ∧ (∀ fd, fd ∈ rset s f ++ wset s f → fd < nfds s f)
    ∧ (nfds s f = 1 ∨ ∃ fd, fd ∈ rset s f ++ wset s f ∧ nfds s f = fd + 1)
    ∧ watched (nfds s f) (rset s f) = rset s f ∧ watched (nfds s f) (wset s f) = wset s f := by
  have hlt : ∀ fd, fd ∈ rset s f ++ wset s f → fd < nfds s f := by
    intro fd h
    rw [nfds_eq]
    apply foldl_bump_gt
    simp only [List.mem_append] at h ⊢
    exact h.symm
  refine ⟨by rw [nfds_eq]; exact foldl_bump_ge _ 1, hlt, ?_, ?_, ?_⟩
  · rcases foldl_bump_tight (wset s f ++ rset s f) 1 with h | ⟨x, hx, h⟩
    · left; rw [nfds_eq]; exact h
    · right
      refine ⟨x, ?_, by rw [nfds_eq]; exact h⟩
      simp only [List.mem_append] at hx ⊢
      exact hx.symm
  · simp only [watched, List.filter_eq_self]
    intro fd h
    exact decide_eq_true (hlt fd (List.mem_append_left _ h))
  · simp only [watched, List.filter_eq_self]
    intro fd h
    exact decide_eq_true (hlt fd (List.mem_append_right _ h))

open Nq.SelPrep Nq.SelFds in
/-- **Every descriptor the daemon must wake up on is watched**: in the right set AND below `nfds` (`watched`).
(a) the report pipe `chanfdin[i]` of every live spawner — in particular whenever deliveries are outstanding on a live spawner;
(b) the command pipe `chanfdout[i]` of every live spawner with commands buffered; (c) the trigger FIFO while it is armed
(open, exit not requested).  Complement (nothing else is watched, and the excluded cases — dead spawner, empty buffer, exit
requested, FIFO not open — are NOT watched): `C16_wake_fds_exact`. -/
theorem C16_wake_fds_watched (s : Snap) (f : FdNums) :
    (∀ i c, s.chans[i]? = some c → c.spawnAlive = true → f.inn i ∈ watched (nfds s f) (rset s f))
    ∧ (∀ i c, s.chans[i]? = some c → c.spawnAlive = true → c.commPending = true → f.out i ∈ watched (nfds s f) (wset s f))
    ∧ (s.exitasap = false → s.triggerFd = true → f.trig ∈ watched (nfds s f) (rset s f)) := by
  obtain ⟨_, _, _, hr, hw⟩ := C16_nfds_covers s f
  rw [hr, hw, rset_eq_mustRead, wset_eq_mustWrite]
  refine ⟨?_, ?_, ?_⟩
  · intro i c hc ha
    exact (mem_mustRead s f _).2 (Or.inl ⟨i, c, hc, ha, rfl⟩)
  · intro i c hc ha hp
    exact (mem_mustWrite s f _).2 ⟨i, c, hc, ha, hp, rfl⟩
  · intro he ht
    exact (mem_mustRead s f _).2 (Or.inr ⟨he, ht, rfl⟩)

open Nq.SelPrep Nq.SelFds in
/-- **… and nothing else** (complement of `C16_wake_fds_watched`): a number is in `rfds` only as the report pipe of a live
spawner or as the armed trigger; in `wfds` only as the command pipe of a live spawner with buffered commands.  (Together with
`C16_early_return_acts` — stated over the symbolic descriptors `SelPrep.Fd`, of which `rset`/`wset` are the images under
`num` — no watched descriptor is one the loop body ignores.) -/
theorem C16_wake_fds_exact (s : Snap) (f : FdNums) (fd : Nat) :
    (fd ∈ rset s f ↔ (∃ i c, s.chans[i]? = some c ∧ c.spawnAlive = true ∧ fd = f.inn i)
                      ∨ (s.exitasap = false ∧ s.triggerFd = true ∧ fd = f.trig))
    ∧ (fd ∈ wset s f ↔ ∃ i c, s.chans[i]? = some c ∧ c.spawnAlive = true ∧ c.commPending = true ∧ fd = f.out i) := by
  rw [rset_eq_mustRead, wset_eq_mustWrite]
  exact ⟨mem_mustRead s f fd, mem_mustWrite s f fd⟩

open Nq.SelPrep Nq.SelFds in
/-- the driver's executable oracle `wakeOracle` says what `C16_wake_fds_watched` says (for arbitrary `nfds` and sets — it is
evaluated on the implementation's), and it holds on the model -/
theorem C16_wake_oracle (s : Snap) (f : FdNums) (nf : Nat) (rs ws : List Nat) :
    (wakeOracle s f nf rs ws = none ↔
      (∀ fd, fd ∈ mustRead s f → fd ∈ watched nf rs) ∧ (∀ fd, fd ∈ mustWrite s f → fd ∈ watched nf ws))
    ∧ wakeOracle s f (nfds s f) (rset s f) (wset s f) = none := by
  have key : ∀ nf rs ws, (wakeOracle s f nf rs ws = none ↔
      (∀ fd, fd ∈ mustRead s f → fd ∈ watched nf rs) ∧ (∀ fd, fd ∈ mustWrite s f → fd ∈ watched nf ws)) := by
    intro nf rs ws
    simp only [wakeOracle, watched, List.mem_filter, decide_eq_true_eq]
    cases h1 : (mustRead s f).find? (fun fd => !(rs.contains fd && decide (fd < nf))) with
    | some fd =>
      simp only [reduceCtorEq, false_iff, not_and]
      intro hall
      have hm := List.mem_of_find?_eq_some h1
      have hp := List.find?_some h1
      have := hall fd hm
      simp [this.1, this.2] at hp
    | none =>
      cases h2 : (mustWrite s f).find? (fun fd => !(ws.contains fd && decide (fd < nf))) with
      | some fd =>
        simp only [reduceCtorEq, false_iff, not_and]
        intro _ hall
        have hm := List.mem_of_find?_eq_some h2
        have hp := List.find?_some h2
        have := hall fd hm
        simp [this.1, this.2] at hp
      | none =>
        simp only [true_iff]
        rw [List.find?_eq_none] at h1 h2
        constructor
        · intro fd hm; have := h1 fd hm; simpa using this
        · intro fd hm; have := h2 fd hm; simpa using this
  refine ⟨key nf rs ws, (key _ _ _).2 ?_⟩
  obtain ⟨_, _, _, hr, hw⟩ := C16_nfds_covers s f
  rw [hr, hw, rset_eq_mustRead, wset_eq_mustWrite]
  exact ⟨fun _ h => h, fun _ h => h⟩

/-- qmail-send's descriptor numbers: chanfdout = {1,3}, chanfdin = {2,4}; the FIFO was opened as descriptor 7 -/
def exFds : Nq.SelFds.FdNums := { out := fun c => 2 * c + 1, inn := fun c => 2 * c + 2, trig := 7 }

/-- idle daemon, both spawners alive, a command buffered for qmail-rspawn: rfds = {2,4,7}, wfds = {3}, nfds = 8 -/
example : (fun s => (Nq.SelFds.rset s exFds, Nq.SelFds.wset s exFds, Nq.SelFds.nfds s exFds))
    { recent := 10, chans := [{ conc := 5 }, { conc := 5, commPending := true }] } = ([2, 4, 7], [3], 8) := by decide
/-- exit requested (FIFO no longer watched), qmail-rspawn dead, a delivery outstanding on qmail-lspawn: rfds = {2}, nfds = 3 -/
example : (fun s => (Nq.SelFds.rset s exFds, Nq.SelFds.wset s exFds, Nq.SelFds.nfds s exFds))
    { recent := 10, exitasap := true, chans := [{ conc := 5, used := 1 }, { conc := 5, spawnAlive := false, commPending := true }] } = ([2], [], 3) := by decide
/-- nothing set at all: nfds stays 1 -/
example : Nq.SelFds.nfds { recent := 10, exitasap := true, chans := [{ spawnAlive := false }, { spawnAlive := false }] } exFds = 1 := by decide
/-- the oracle is not vacuous: with nfds one too small the trigger (7) is in the set but not examined by select -/
example : Nq.SelFds.wakeOracle { recent := 10, chans := [{ conc := 5 }, { conc := 5 }] } exFds 7 [2, 4, 7] [] ≠ none := by decide
example : Nq.SelFds.wakeOracle { recent := 10, chans := [{ conc := 5 }, { conc := 5 }] } exFds 8 [2, 4, 7] [] = none := by decide

end Nq.Props.C16
